import QuantemModel.Lemmas.Vector
/-!
Laws of the Vector model beyond the invariant: flatten / set_flattened, frames (which arrays an
operation can touch), copy freshness, addressed-cell specification of `positions`.
Core Lean only.
-/
namespace QuantemModel.Vector

/-! ### writing a field's flattened view back is the identity (even with aliased cells) -/

theorem row_set_getD_self (r : List Rat) (j : Nat) : r.set j (r.getD j 0) = r := by
  rcases Nat.lt_or_ge j r.length with h | h
  · simp [List.getD_eq_getElem?_getD, List.getElem?_eq_getElem h]
  · exact List.set_eq_of_length_le h

theorem setColRows_col_self (j : Nat) : ∀ rows : List (List Rat),
    setColRows j rows (rows.map (·.getD j 0)) = rows := by
  intro rows
  induction rows with
  | nil => rfl
  | cons r rs ih =>
    show r.set j (r.getD j 0) :: setColRows j rs (rs.map (·.getD j 0)) = r :: rs
    rw [row_set_getD_self, ih]

/-- the entries of a column of a well-typed array already have the array's dtype -/
theorem Arr.col_cast_self {a : Arr} (h : a.WF) (j : Nat) : (a.col j).map (castTo a.isInt) = a.col j := by
  unfold Arr.col
  rw [List.map_map]
  apply List.map_congr_left
  intro r hr
  simp only [Function.comp]
  apply castTo_of_isIntQ
  intro ht
  rw [List.getD_eq_getElem?_getD]
  cases hi : r[j]? with
  | none => simpa using isIntQ_zero
  | some y => simpa using h.typed ht r hr y (List.mem_of_getElem? hi)

theorem Arr.setCol_col_self {a : Arr} (h : a.WF) (j : Nat) : a.setCol j (a.col j) = a := by
  unfold Arr.setCol
  rw [Arr.col_cast_self h]
  cases a with
  | mk n rows t =>
    show Arr.mk n (setColRows j rows (rows.map (·.getD j 0))) t = _
    rw [setColRows_col_self]

theorem Arr.col_length (a : Arr) (j : Nat) : (a.col j).length = a.nrows := by
  simp [Arr.col, Arr.nrows]

theorem set_self_of_getElem? {α} {l : List α} {r : Nat} {a : α} (h : l[r]? = some a) : l.set r a = l := by
  have hlt := getElem?_lt h
  have : l[r] = a := by
    rw [List.getElem?_eq_getElem hlt] at h; exact Option.some.inj h
  rw [← this]; exact List.set_getElem_self hlt

/-- `fill` with the field's own flattened view changes nothing (on a well-typed heap: an int64
array holds integers, so the cast of the assignment is the identity) -/
theorem fill_flatten_self (j : Nat) : ∀ (cells : List (Option Ref)) (heap : List Arr), (∀ a ∈ heap, a.WF) →
    fill j heap cells (flattenField heap cells j) = heap := by
  intro cells
  induction cells with
  | nil => intro heap _; rfl
  | cons c cs ih =>
    intro heap hwf
    have ih := fun heap => ih heap
    cases c with
    | none => simpa [fill, flattenField] using ih heap hwf
    | some r =>
      cases ha : heap[r]? with
      | none =>
        have : flattenField heap (some r :: cs) j = flattenField heap cs j := by
          simp [flattenField, ha]
        simp only [fill, ha, this]
        exact ih heap hwf
      | some a =>
        have e : flattenField heap (some r :: cs) j = a.col j ++ flattenField heap cs j := by
          simp [flattenField, ha]
        simp only [fill, ha, e]
        have t : (a.col j ++ flattenField heap cs j).take a.nrows = a.col j := by
          rw [← Arr.col_length a j]; exact List.take_left
        have d : (a.col j ++ flattenField heap cs j).drop a.nrows = flattenField heap cs j := by
          rw [← Arr.col_length a j]; exact List.drop_left
        rw [t, d, Arr.setCol_col_self (hwf a (List.mem_of_getElem? ha)), set_self_of_getElem? ha]
        exact ih heap hwf

/-! ### frames: `_apply_op` / `fill` only write to arrays that sit in the visited cells -/

theorem applyOp_frame (j : Nat) (f : Rat → Rat) (r0 : Nat) : ∀ (cells : List (Option Ref)) (heap : List Arr),
    some r0 ∉ cells → (applyOp j f heap cells)[r0]? = heap[r0]? := by
  intro cells
  induction cells with
  | nil => intro heap _; rfl
  | cons c cs ih =>
    intro heap hn
    have hn' : some r0 ∉ cs := fun h => hn (List.mem_cons_of_mem _ h)
    cases c with
    | none => simpa [applyOp] using ih heap hn'
    | some r =>
      have hne : r ≠ r0 := by
        intro e; subst e; exact hn List.mem_cons_self
      simp only [applyOp]
      split
      · rw [ih _ hn', List.getElem?_set_ne hne]
      · exact ih heap hn'

theorem fill_frame (j : Nat) (r0 : Nat) : ∀ (cells : List (Option Ref)) (heap : List Arr) (xs : List Rat),
    some r0 ∉ cells → (fill j heap cells xs)[r0]? = heap[r0]? := by
  intro cells
  induction cells with
  | nil => intro heap xs _; rfl
  | cons c cs ih =>
    intro heap xs hn
    have hn' : some r0 ∉ cs := fun h => hn (List.mem_cons_of_mem _ h)
    cases c with
    | none => simpa [fill] using ih heap xs hn'
    | some r =>
      have hne : r ≠ r0 := by
        intro e; subst e; exact hn List.mem_cons_self
      simp only [fill]
      split
      · rw [ih _ _ hn', List.getElem?_set_ne hne]
      · exact ih heap xs hn'

theorem applyOp_length (j : Nat) (f : Rat → Rat) : ∀ (cells : List (Option Ref)) (heap : List Arr),
    (applyOp j f heap cells).length = heap.length := by
  intro cells
  induction cells with
  | nil => intro heap; rfl
  | cons c cs ih =>
    intro heap
    cases c with
    | none => simpa [applyOp] using ih heap
    | some r =>
      simp only [applyOp]
      split
      · rw [ih]; simp
      · exact ih heap

theorem fill_length (j : Nat) : ∀ (cells : List (Option Ref)) (heap : List Arr) (xs : List Rat),
    (fill j heap cells xs).length = heap.length := by
  intro cells
  induction cells with
  | nil => intro heap xs; rfl
  | cons c cs ih =>
    intro heap xs
    cases c with
    | none => simpa [fill] using ih heap xs
    | some r =>
      simp only [fill]
      split
      · rw [ih]; simp
      · exact ih heap xs

/-! ### `flatten ∘ set_flattened = id` when no array sits in two cells of the vector -/

/-- the references held by the populated cells, in storage order -/
def refsOf (cells : List (Option Ref)) : List Ref := cells.filterMap id

theorem mem_refsOf {cells : List (Option Ref)} {r : Ref} : r ∈ refsOf cells ↔ some r ∈ cells := by
  simp [refsOf]

theorem col_setColRows (j : Nat) : ∀ (rows : List (List Rat)) (ys : List Rat),
    ys.length = rows.length → (∀ r ∈ rows, j < r.length) →
    (setColRows j rows ys).map (·.getD j 0) = ys := by
  intro rows
  induction rows with
  | nil => intro ys h _; simp at h; subst h; rfl
  | cons r rs ih =>
    intro ys h hr
    cases ys with
    | nil => simp at h
    | cons y ys =>
      have hj : j < r.length := hr r List.mem_cons_self
      show (r.set j y).getD j 0 :: (setColRows j rs ys).map (·.getD j 0) = y :: ys
      rw [ih ys (by simpa using h) (fun r h' => hr r (List.mem_cons_of_mem _ h'))]
      simp [List.getD_eq_getElem?_getD, hj]

theorem Arr.col_setCol {a : Arr} (hwf : a.WF) {j : Nat} (hj : j < a.ncols) {ys : List Rat} (hy : ys.length = a.nrows) :
    (a.setCol j ys).col j = ys.map (castTo a.isInt) :=
  col_setColRows j a.rows _ (by simpa [Arr.nrows] using hy) (fun r hr => by rw [hwf.rect r hr]; exact hj)

/-- what `set_flattened xs` stores, read back: each cell's chunk of `xs`, cast to that cell's dtype
(float → int64 truncates toward zero) -/
def castFlat (heap : List Arr) : List (Option Ref) → List Rat → List Rat
  | [], _ => []
  | none :: cs, xs => castFlat heap cs xs
  | some r :: cs, xs => match heap[r]? with
      | some a => (xs.take a.nrows).map (castTo a.isInt) ++ castFlat heap cs (xs.drop a.nrows)
      | none => castFlat heap cs xs

theorem castFlat_congr {h1 h2 : List Arr} : ∀ (cells : List (Option Ref)) (xs : List Rat),
    (∀ r, some r ∈ cells → h1[r]? = h2[r]?) → castFlat h1 cells xs = castFlat h2 cells xs := by
  intro cells
  induction cells with
  | nil => intro _ _; rfl
  | cons c cs ih =>
    intro xs h
    have ih' := fun xs => ih xs (fun r hr => h r (List.mem_cons_of_mem _ hr))
    cases c with
    | none => simpa [castFlat] using ih' xs
    | some r =>
      have := h r List.mem_cons_self
      simp only [castFlat, this]
      split
      · rw [ih']
      · exact ih' xs

theorem flattenField_congr (j : Nat) {h1 h2 : List Arr} : ∀ (cells : List (Option Ref)),
    (∀ r, some r ∈ cells → h1[r]? = h2[r]?) → flattenField h1 cells j = flattenField h2 cells j := by
  intro cells
  induction cells with
  | nil => intro _; rfl
  | cons c cs ih =>
    intro h
    have ih' := ih (fun r hr => h r (List.mem_cons_of_mem _ hr))
    cases c with
    | none => simpa [flattenField] using ih'
    | some r =>
      have := h r List.mem_cons_self
      simp only [flattenField, List.flatMap_cons] at ih' ⊢
      rw [this, ih']

theorem flattenField_cons_some {heap : List Arr} {r : Ref} {a : Arr} (ha : heap[r]? = some a)
    (cs : List (Option Ref)) (j : Nat) :
    flattenField heap (some r :: cs) j = a.col j ++ flattenField heap cs j := by
  simp [flattenField, ha]

theorem flatten_fill (j nf : Nat) (hj : j < nf) : ∀ (cells : List (Option Ref)) (heap : List Arr) (xs : List Rat),
    (∀ a ∈ heap, a.WF) → (∀ c ∈ cells, CellOK heap nf c) → (refsOf cells).Nodup →
    xs.length = (flattenField heap cells j).length →
    flattenField (fill j heap cells xs) cells j = castFlat heap cells xs := by
  intro cells
  induction cells with
  | nil =>
    intro heap xs _ _ _ hl
    simp [flattenField, fill, castFlat]
  | cons c cs ih =>
    intro heap xs hwf hc hnd hl
    have hc' : ∀ c ∈ cs, CellOK heap nf c := fun c h => hc c (List.mem_cons_of_mem _ h)
    cases c with
    | none =>
      have hnd' : (refsOf cs).Nodup := by simpa [refsOf] using hnd
      have hl' : xs.length = (flattenField heap cs j).length := by simpa [flattenField] using hl
      have := ih heap xs hwf hc' hnd' hl'
      simpa [fill, flattenField, castFlat] using this
    | some r =>
      obtain ⟨a, ha, hn⟩ := hc (some r) List.mem_cons_self r rfl
      have hnd2 : r ∉ refsOf cs ∧ (refsOf cs).Nodup := by
        simpa [refsOf, List.nodup_cons] using hnd
      have hnotin : some r ∉ cs := fun h => hnd2.1 (mem_refsOf.mpr h)
      rw [flattenField_cons_some ha] at hl
      simp only [List.length_append, Arr.col_length] at hl
      have hwfa : a.WF := hwf a (List.mem_of_getElem? ha)
      have hlt : r < heap.length := getElem?_lt ha
      -- one step of `fill`
      have hstep : fill j heap (some r :: cs) xs =
          fill j (heap.set r (a.setCol j (xs.take a.nrows))) cs (xs.drop a.nrows) := by
        simp only [fill, ha]
      rw [hstep]
      generalize hh1 : heap.set r (a.setCol j (xs.take a.nrows)) = heap1
      have h1r : heap1[r]? = some (a.setCol j (xs.take a.nrows)) := by
        rw [← hh1]; simp [List.getElem?_set_self hlt]
      have hsame : ∀ r', some r' ∈ cs → heap1[r']? = heap[r']? := by
        intro r' hr'
        have : r ≠ r' := by intro e; subst e; exact hnotin hr'
        rw [← hh1]; exact List.getElem?_set_ne this
      have hwf1 : ∀ x ∈ heap1, x.WF := by
        rw [← hh1]; exact wf_set hwf (Arr.setCol_wf hwfa j _) r
      have hext : HeapExt heap heap1 := by
        rw [← hh1]; exact HeapExt.set ha (Arr.setCol_same _ _ _)
      have hfl : flattenField heap1 cs j = flattenField heap cs j := flattenField_congr j cs hsame
      have hih := ih heap1 (xs.drop a.nrows) hwf1 (fun c h => (hc' c h).mono hext) hnd2.2
        (by rw [hfl]; simp; omega)
      have hfr : (fill j heap1 cs (xs.drop a.nrows))[r]? = some (a.setCol j (xs.take a.nrows)) := by
        rw [fill_frame j r cs heap1 _ hnotin]; exact h1r
      rw [flattenField_cons_some hfr, hih]
      rw [Arr.col_setCol hwfa (by rw [hn]; exact hj) (by simp; omega)]
      rw [castFlat_congr cs _ hsame]
      simp only [castFlat, ha]

/-- on float64 cells nothing is cast: what was written is what is read -/
theorem castFlat_float (j : Nat) : ∀ (cells : List (Option Ref)) (heap : List Arr) (xs : List Rat),
    (∀ r a, some r ∈ cells → heap[r]? = some a → a.isInt = false) →
    xs.length = (flattenField heap cells j).length → castFlat heap cells xs = xs := by
  intro cells
  induction cells with
  | nil =>
    intro heap xs _ hl
    simp [flattenField] at hl
    simp [castFlat, hl]
  | cons c cs ih =>
    intro heap xs hf hl
    have hf' : ∀ r a, some r ∈ cs → heap[r]? = some a → a.isInt = false :=
      fun r a hr => hf r a (List.mem_cons_of_mem _ hr)
    cases c with
    | none =>
      simp only [castFlat]
      exact ih heap xs hf' (by simpa [flattenField] using hl)
    | some r =>
      cases ha : heap[r]? with
      | none =>
        simp only [castFlat, ha]
        exact ih heap xs hf' (by simpa [flattenField, ha] using hl)
      | some a =>
        simp only [castFlat, ha]
        rw [flattenField_cons_some ha] at hl
        simp only [List.length_append, Arr.col_length] at hl
        rw [ih heap (xs.drop a.nrows) hf' (by simp; omega)]
        have : a.isInt = false := hf r a List.mem_cons_self ha
        have hc : (fun x => castTo false x) = id := by funext x; simp [castTo]
        simp only [this]
        show (xs.take a.nrows).map (fun x => castTo false x) ++ xs.drop a.nrows = xs
        rw [hc, List.map_id, List.take_append_drop]

/-! ### addressed cells: what `positions` (the gather of `__getitem__` / the loops of `get_data`,
`set_data`, `__setitem__`) computes, coordinate by coordinate, for any number of dimensions -/

/-- row-major offset of a multi-index -/
def flatIdx : List Nat → List Nat → Nat
  | _ :: ds, i :: is => i * prod ds + flatIdx ds is
  | _, _ => 0

/-- `Addr shape ls o src`: along every fixed dimension `k`, output coordinate `o[k]` selects the
entry `ls[k][o[k]]` of that dimension's index list, which Python list indexing (negatives wrap
once) maps to the source coordinate `src[k]` -/
inductive Addr : List Nat → List (List Int) → List Nat → List Nat → Prop
  | nil : Addr [] [] [] []
  | cons {d : Nat} {ds : List Nat} {is : List Int} {iss : List (List Int)} {o : Nat} {os : List Nat}
      {p : Nat} {ps : List Nat} (i : Int) :
      is[o]? = some i → pyIndex d i = .ok p → Addr ds iss os ps →
      Addr (d :: ds) (is :: iss) (o :: os) (p :: ps)

theorem Addr.length {shape : List Nat} {ls : List (List Int)} {o src : List Nat} (h : Addr shape ls o src) :
    ls.length = shape.length := by
  induction h with
  | nil => rfl
  | cons _ _ _ _ ih => simp [ih]

theorem pyIndex_lt {d : Nat} {i : Int} {p : Nat} (h : pyIndex d i = .ok p) : p < d := by
  unfold pyIndex at h
  split at h
  · cases h; omega
  · split at h
    · cases h; omega
    · cases h

theorem wrapAll_get (d : Nat) : ∀ (is : List Int) (outer : List Nat) (o : Nat) (i : Int) (p : Nat),
    wrapAll d is = .ok outer → is[o]? = some i → pyIndex d i = .ok p → outer[o]? = some p := by
  intro is
  induction is with
  | nil => intro outer o i p _ h; simp at h
  | cons i0 is ih =>
    intro outer o i p hw hi hp
    simp only [wrapAll] at hw
    split at hw
    · cases hw
    · rename_i p0 hp0
      split at hw
      · cases hw
      · rename_i ps hps
        cases hw
        cases o with
        | zero =>
          simp at hi; subst hi
          rw [hp0] at hp; cases hp; simp
        | succ o =>
          simp at hi
          simpa using ih ps o i p hps hi hp

theorem flatMap_block_get {α β} (f : α → List β) (n : Nat) (hf : ∀ x, (f x).length = n) :
    ∀ (l : List α) (i : Nat) (x : α) (k : Nat), l[i]? = some x → k < n →
      (l.flatMap f)[i * n + k]? = (f x)[k]? := by
  intro l
  induction l with
  | nil => intro i x k h; simp at h
  | cons y ys ih =>
    intro i x k hi hk
    cases i with
    | zero =>
      simp at hi; subst hi
      simp only [List.flatMap_cons, Nat.zero_mul, Nat.zero_add]
      rw [List.getElem?_append_left (by rw [hf]; exact hk)]
    | succ i =>
      simp at hi
      simp only [List.flatMap_cons]
      rw [List.getElem?_append_right (by rw [hf, Nat.succ_mul]; omega)]
      rw [hf]
      have : (i + 1) * n + k - n = i * n + k := by rw [Nat.succ_mul]; omega
      rw [this]
      exact ih i x k hi hk

theorem Addr.flat_lt {shape : List Nat} {ls : List (List Int)} {o src : List Nat} (h : Addr shape ls o src) :
    flatIdx (ls.map List.length) o < prod (ls.map List.length) ∧ flatIdx shape src < prod shape := by
  induction h with
  | nil => simp [flatIdx, prod]
  | @cons d ds is iss o os p ps i hi hp _ ih =>
    have ho : o < is.length := getElem?_lt hi
    have hpd := pyIndex_lt hp
    simp only [List.map_cons, flatIdx, prod]
    constructor
    · calc o * prod (iss.map List.length) + flatIdx (iss.map List.length) os
          < o * prod (iss.map List.length) + prod (iss.map List.length) := Nat.add_lt_add_left ih.1 _
        _ = (o + 1) * prod (iss.map List.length) := by rw [Nat.succ_mul]
        _ ≤ is.length * prod (iss.map List.length) := Nat.mul_le_mul_right _ ho
    · calc p * prod ds + flatIdx ds ps < p * prod ds + prod ds := Nat.add_lt_add_left ih.2 _
        _ = (p + 1) * prod ds := by rw [Nat.succ_mul]
        _ ≤ d * prod ds := Nat.mul_le_mul_right _ hpd

/-- **addressed cells**: the entry of `positions` at the row-major offset of output coordinate `o`
is the row-major offset (in the source vector) of the source coordinate `src`. -/
theorem positions_addr {shape : List Nat} {ls : List (List Int)} {o src : List Nat} (h : Addr shape ls o src) :
    ∀ ps, positions shape ls = .ok ps → ps[flatIdx (ls.map List.length) o]? = some (flatIdx shape src) := by
  induction h with
  | nil => intro ps hps; simp [positions] at hps; subst hps; simp [flatIdx]
  | @cons d ds is iss o os p ps' i hi hp hrest ih =>
    intro ps hps
    simp only [positions] at hps
    split at hps
    · cases hps
    · rename_i hw
      have := wrapAll_length d is _ hw
      have ho : o < is.length := getElem?_lt hi
      simp at this; omega
    · rename_i o1 os1 hw
      split at hps
      · cases hps
      · rename_i sub hsub
        cases hps
        have hsublen : sub.length = prod (iss.map List.length) := positions_length ds iss sub hrest.length hsub
        have hk := hrest.flat_lt.1
        have hget := wrapAll_get d is _ o i p hw hi hp
        simp only [List.map_cons, flatIdx]
        rw [← hsublen]
        rw [flatMap_block_get (fun i => sub.map fun q => i * prod ds + q) sub.length (by intro x; simp)
          (o1 :: os1) o p _ hget (by rw [hsublen]; exact hk)]
        rw [List.getElem?_map, ih sub hsub]
        rfl
theorem nodup_nodupB : ∀ l : List String, l.Nodup → nodupB l = true := by
  intro l
  induction l with
  | nil => intro _; rfl
  | cons x xs ih =>
    intro h
    have := List.nodup_cons.mp h
    simp [nodupB, this.1, ih this.2]


/-! ### add_fields then remove_fields of the same names restores the vector (up to fresh arrays) -/

/-- what `expand_array` / `prune_array` do to one cell: unset stays unset; a populated cell gets
a reference to a new array `g a` where `a` is the array it held -/
def RebRel (g : Arr → Arr) (heap heap' : List Arr) (c o : Option Ref) : Prop :=
  match c with
  | none => o = none
  | some r => ∃ (r' : Nat) (a : Arr), o = some r' ∧ heap[r]? = some a ∧ heap'[r']? = some (g a)

theorem rebuildCells_rel (g : Arr → Arr) (bad : Arr → Bool) :
    ∀ (cells : List (Option Ref)) (heap heap' : List Arr) (out : List (Option Ref)),
      (∀ c ∈ cells, ∀ r, c = some r → r < heap.length) →
      rebuildCells g bad heap cells = .ok (heap', out) →
      ∃ ext, heap' = heap ++ ext ∧ All2 (RebRel g heap heap') cells out := by
  intro cells
  induction cells with
  | nil =>
    intro heap heap' out _ h
    simp only [rebuildCells] at h; cases h
    exact ⟨[], by simp, .nil⟩
  | cons c cs ih =>
    intro heap heap' out hlive h
    have hlive' : ∀ c ∈ cs, ∀ r, c = some r → r < heap.length :=
      fun c hc => hlive c (List.mem_cons_of_mem _ hc)
    cases c with
    | none =>
      simp only [rebuildCells] at h
      split at h
      · cases h
      · rename_i h2 out2 hrest
        cases h
        obtain ⟨ext, e1, e2⟩ := ih heap _ _ hlive' hrest
        exact ⟨ext, e1, .cons rfl e2⟩
    | some r =>
      simp only [rebuildCells] at h
      split at h
      · cases h
      · rename_i a ha
        split at h
        · cases h
        · split at h
          · cases h
          · rename_i h2 out2 hrest
            cases h
            obtain ⟨ext, e1, e2⟩ := ih (heap ++ [g a]) _ _
              (fun c hc r hr => Nat.lt_of_lt_of_le (hlive' c hc r hr) (by simp)) hrest
            subst e1
            refine ⟨g a :: ext, by simp, .cons ⟨heap.length, a, rfl, ha, by simp⟩ ?_⟩
            refine All2.imp_mem ?_ e2
            intro c hc o hco
            cases c with
            | none => exact hco
            | some r1 =>
              obtain ⟨r', a1, h1, h2', h3⟩ := hco
              refine ⟨r', a1, h1, ?_, h3⟩
              rw [List.getElem?_append_left (hlive' _ hc r1 rfl)] at h2'
              exact h2'

theorem All2.comp {α β γ : Type} {R : α → β → Prop} {S : β → γ → Prop} {T : α → γ → Prop}
    (h : ∀ a b c, R a b → S b c → T a c) :
    ∀ {l₁ : List α} {l₂ : List β} {l₃ : List γ}, All2 R l₁ l₂ → All2 S l₂ l₃ → All2 T l₁ l₃ := by
  intro l₁ l₂ l₃ h1
  induction h1 generalizing l₃ with
  | nil => intro h2; cases h2; exact .nil
  | cons r _ ih =>
    intro h2
    cases h2 with
    | cons s' rest => exact .cons (h _ _ _ r s') (ih rest)

theorem getVec_ok' {s : State} {vid : Nat} {v : Vec} (h : s.getVec vid = .ok v) : s.vecs[vid]? = some v := by
  unfold State.getVec at h
  split at h
  · rename_i v' hv'; cases h; exact hv'
  · cases h

theorem getVec_putVec {s : State} {vid : Nat} {v v' : Vec} (h : s.getVec vid = .ok v) :
    (s.putVec vid v').getVec vid = .ok v' := by
  have := getElem?_lt (getVec_ok' h)
  simp [State.getVec, State.putVec, List.getElem?_set_self this]

theorem addFields_spec {s : State} (hI : Inv s) {vid : Nat} {v : Vec} {names : List String}
    (hv : s.getVec vid = .ok v) (hnew : ∀ n ∈ names, n ∉ v.fields) (hnd : names.Nodup) :
    ∃ (s1 : State) (v1 : Vec) (ext : List Arr),
      opAddFields s vid names = (s1, .none) ∧ s1.getVec vid = .ok v1 ∧ s1.heap = s.heap ++ ext ∧
      v1.shape = v.shape ∧ v1.fields = v.fields ++ names ∧
      v1.units = v.units ++ List.replicate names.length "none" ∧
      All2 (RebRel (·.addCols names.length) s.heap (s.heap ++ ext)) v.cells v1.cells := by
  have hvok := hI.vecs v (getVec_mem hv)
  have h1 : names.any (v.fields.contains ·) = false := by
    rw [List.any_eq_false]
    intro n hn
    simpa using hnew n hn
  obtain ⟨r, hr⟩ := rebuildCells_ok (fun a => a.addCols names.length) (fun a => a.ncols != v.fields.length)
    v.fields.length (by intro a ha; simp [ha]) v.cells s.heap hvok.cells
  obtain ⟨heap', cs⟩ := r
  obtain ⟨ext, e1, e2⟩ := rebuildCells_rel _ _ v.cells s.heap heap' cs (cells_live hvok.cells) hr
  subst e1
  refine ⟨({ s with heap := s.heap ++ ext } : State).putVec vid
      (Vec.mk v.shape cs (v.fields ++ names) (v.units ++ List.replicate names.length "none") v.mref),
    Vec.mk v.shape cs (v.fields ++ names) (v.units ++ List.replicate names.length "none") v.mref, ext,
    ?_, getVec_putVec (v := v) (by simpa [State.getVec] using hv), rfl, rfl, rfl, rfl, e2⟩
  unfold opAddFields
  simp only [hv, h1, nodup_nodupB names hnd]
  simp [hr]

theorem range_map_getD_append (l m : List String) : (List.range l.length).map ((l ++ m).getD · "") = l := by
  apply List.ext_getElem
  · simp
  · intro i h1 h2
    have : i < l.length := by simpa using h1
    simp [List.getD_eq_getElem?_getD, List.getElem?_append_left this, List.getElem?_eq_getElem this]

/-- the same array seen as float64 (what `np.hstack` with a float pad makes of an int64 array) -/
def Arr.asFloat (a : Arr) : Arr := { a with isInt := false }

theorem Arr.keepCols_addCols {a : Arr} (hwf : a.WF) (k : Nat) :
    (a.addCols k).keepCols (List.range a.ncols) = a.asFloat := by
  cases a with
  | mk n rows t =>
    simp only [Arr.addCols, Arr.keepCols, Arr.asFloat, List.length_range, List.map_map]
    congr 1
    have : ∀ r ∈ rows, ((fun r : List Rat => (List.range n).map (r.getD · 0)) ∘ fun r => r ++ List.replicate k 0) r = r := by
      intro r hr
      have hl : r.length = n := hwf.rect r hr
      simp only [Function.comp]
      apply List.ext_getElem
      · simp [hl]
      · intro i h1 h2
        have : i < r.length := by simpa [hl] using h1
        simp [List.getD_eq_getElem?_getD, List.getElem?_append_left this, List.getElem?_eq_getElem this]
    rw [List.map_congr_left this]
    simp

/-- the columns kept by `remove_fields names` right after `add_fields names` are exactly the old ones -/
theorem keep_after_add (fields names : List String) (hnew : ∀ n ∈ names, n ∉ fields) (hnd : names.Nodup) :
    (List.range (fields ++ names).length).filter
      (fun i => !((names.filter ((fields ++ names).contains ·)).map ((fields ++ names).idxOf ·)).contains i) =
    List.range fields.length := by
  have hfilter : names.filter ((fields ++ names).contains ·) = names := by
    rw [List.filter_eq_self]
    intro n hn
    simp [hn]
  rw [hfilter]
  have hidx : ∀ n ∈ names, (fields ++ names).idxOf n = fields.length + names.idxOf n := by
    intro n hn
    rw [List.idxOf_append]
    simp [hnew n hn, Nat.add_comm]
  rw [List.length_append, List.range_add, List.filter_append]
  have h1 : (List.range fields.length).filter
      (fun i => !(names.map ((fields ++ names).idxOf ·)).contains i) = List.range fields.length := by
    rw [List.filter_eq_self]
    intro i hi
    have hi' : i < fields.length := List.mem_range.mp hi
    simp only [Bool.not_eq_true', List.contains_eq_mem, decide_eq_false_iff_not, List.mem_map]
    rintro ⟨n, hn, e⟩
    rw [hidx n hn] at e
    omega
  have h2 : ((List.range names.length).map (fun x => fields.length + x)).filter
      (fun i => !(names.map ((fields ++ names).idxOf ·)).contains i) = [] := by
    rw [List.filter_eq_nil_iff]
    intro i hi
    simp only [List.mem_map, List.mem_range] at hi
    obtain ⟨x, hx, rfl⟩ := hi
    simp only [Bool.not_eq_true', List.contains_eq_mem, decide_eq_false_iff_not, List.mem_map, Classical.not_not]
    exact ⟨names[x], List.getElem_mem hx, by rw [hidx _ (List.getElem_mem hx), hnd.idxOf_getElem x hx]⟩
  rw [h1, h2, List.append_nil]

theorem removeFields_spec {s : State} (hI : Inv s) {vid : Nat} {v : Vec} {names : List String}
    (hv : s.getVec vid = .ok v) (rm keep : List Nat)
    (hrm : (names.filter (v.fields.contains ·)).map (v.fields.idxOf ·) = rm)
    (hkeep : (List.range v.fields.length).filter (fun i => !rm.contains i) = keep)
    (hne : rm.isEmpty = false) :
    ∃ (s2 : State) (v2 : Vec) (ext : List Arr),
      opRemoveFields s vid names = (s2, .none) ∧ s2.getVec vid = .ok v2 ∧ s2.heap = s.heap ++ ext ∧
      v2.shape = v.shape ∧ v2.fields = keep.map (v.fields.getD · "") ∧ v2.units = keep.map (v.units.getD · "") ∧
      All2 (RebRel (·.keepCols keep) s.heap (s.heap ++ ext)) v.cells v2.cells := by
  have hvok := hI.vecs v (getVec_mem hv)
  have hrmlt : ∀ i ∈ rm, i < v.fields.length := by
    intro i hi
    rw [← hrm] at hi
    simp only [List.mem_map, List.mem_filter] at hi
    obtain ⟨nm, ⟨_, hc⟩, rfl⟩ := hi
    exact List.idxOf_lt_length_of_mem (by simpa using hc)
  obtain ⟨r, hr⟩ := rebuildCells_ok (fun a => a.keepCols keep) (fun a => rm.any (fun i => a.ncols < i + 1))
    v.fields.length (by
      intro a ha
      rw [List.any_eq_false]
      intro i hi
      have := hrmlt i hi
      simp; omega) v.cells s.heap hvok.cells
  obtain ⟨heap', cs⟩ := r
  obtain ⟨ext, e1, e2⟩ := rebuildCells_rel _ _ v.cells s.heap heap' cs (cells_live hvok.cells) hr
  subst e1
  refine ⟨({ s with heap := s.heap ++ ext } : State).putVec vid
      (Vec.mk v.shape cs (keep.map (v.fields.getD · "")) (keep.map (v.units.getD · "")) v.mref),
    Vec.mk v.shape cs (keep.map (v.fields.getD · "")) (keep.map (v.units.getD · "")) v.mref, ext,
    ?_, getVec_putVec (v := v) (by simpa [State.getVec] using hv), rfl, rfl, rfl, rfl, e2⟩
  unfold opRemoveFields
  simp only [hv, hrm, hkeep, hne]
  simp [hr]

/-- relation between a cell before `add_fields` and after the following `remove_fields` -/
def SameValue (heap heap2 : List Arr) (c c2 : Option Ref) : Prop :=
  match c with
  | none => c2 = none
  | some r => ∃ (r2 : Nat) (a : Arr), c2 = some r2 ∧ heap[r]? = some a ∧ heap2[r2]? = some a.asFloat

theorem All2.comp_mem {α β γ : Type} {R : α → β → Prop} {S : β → γ → Prop} {T : α → γ → Prop} :
    ∀ {l₁ : List α} {l₂ : List β} {l₃ : List γ}, (∀ a ∈ l₁, ∀ b c, R a b → S b c → T a c) →
      All2 R l₁ l₂ → All2 S l₂ l₃ → All2 T l₁ l₃ := by
  intro l₁ l₂ l₃ h h1
  induction h1 generalizing l₃ with
  | nil => intro h2; cases h2; exact .nil
  | cons r _ ih =>
    intro h2
    cases h2 with
    | cons s' rest =>
      exact .cons (h _ List.mem_cons_self _ _ r s') (ih (fun a ha => h a (List.mem_cons_of_mem _ ha)) rest)

/-- **add_fields then remove_fields of the same names restores the vector**: same shape, fields
and units, the same cells populated, and every populated cell holds an array with exactly the
values it held before (the arrays themselves are new objects, as in the code). -/
theorem add_remove_spec {s : State} (hI : Inv s) {vid : Nat} {v : Vec} {names : List String}
    (hv : s.getVec vid = .ok v) (hnew : ∀ n ∈ names, n ∉ v.fields) (hnd : names.Nodup) (hne : names ≠ []) :
    ∃ (s1 s2 : State) (v2 : Vec), opAddFields s vid names = (s1, .none) ∧ opRemoveFields s1 vid names = (s2, .none) ∧
      s2.getVec vid = .ok v2 ∧ v2.shape = v.shape ∧ v2.fields = v.fields ∧ v2.units = v.units ∧
      All2 (SameValue s.heap s2.heap) v.cells v2.cells := by
  have hvok := hI.vecs v (getVec_mem hv)
  obtain ⟨s1, v1, ext1, hadd, hg1, hheap1, hsh1, hf1, hu1, rel1⟩ := addFields_spec hI hv hnew hnd
  have hI1 : Inv s1 := by
    have := inv_addFields hI vid names
    rw [hadd] at this; exact this
  have hkeep := keep_after_add v.fields names hnew hnd
  rw [← hf1] at hkeep
  have hne' : ((names.filter (v1.fields.contains ·)).map (v1.fields.idxOf ·)).isEmpty = false := by
    cases names with
    | nil => exact absurd rfl hne
    | cons n ns => simp [hf1]
  obtain ⟨s2, v2, ext2, hrem, hg2, hheap2, hsh2, hf2, hu2, rel2⟩ := removeFields_spec hI1 hg1 _ _ rfl hkeep hne'
  refine ⟨s1, s2, v2, hadd, hrem, hg2, hsh2.trans hsh1, ?_, ?_, ?_⟩
  · rw [hf2, hf1]; exact range_map_getD_append _ _
  · rw [hu2, hu1, ← hvok.units]; exact range_map_getD_append _ _
  · rw [hheap2, hheap1]
    refine All2.comp_mem ?_ rel1 rel2
    intro c hc c1 c2 h1 h2
    cases c with
    | none =>
      simp only [RebRel] at h1; subst h1
      simpa [RebRel, SameValue] using h2
    | some r =>
      obtain ⟨r1, a, e1, ha, ha1⟩ := h1
      subst e1
      obtain ⟨r2, a1, e2, hb, hb2⟩ := h2
      subst e2
      rw [hheap1, ha1] at hb
      have : a1 = a.addCols names.length := by cases hb; rfl
      subst this
      obtain ⟨a0, ha0, hn0⟩ := hvok.cells _ hc r rfl
      rw [ha] at ha0
      have : a0 = a := by cases ha0; rfl
      subst this
      refine ⟨r2, a0, rfl, ha, ?_⟩
      rw [hheap1] at hb2
      rw [hb2, ← hn0]
      show some ((a0.addCols names.length).keepCols (List.range a0.ncols)) = some a0.asFloat
      rw [Arr.keepCols_addCols (hI.wf a0 (List.mem_of_getElem? ha))]

/-! ### value-level laws: what field arithmetic, assignment and column add/remove store -/

theorem Arr.mapCol_col_other (a : Arr) {j j' : Nat} (f : Rat → Rat) (h : j' ≠ j) :
    (a.mapCol j f).col j' = a.col j' := by
  unfold Arr.mapCol Arr.col
  simp only [List.map_map]
  apply List.map_congr_left
  intro r _
  simp only [Function.comp, List.getD_eq_getElem?_getD]
  rw [List.getElem?_set_ne (Ne.symm h)]

theorem Arr.mapCol_col_same {a : Arr} (hwf : a.WF) {j : Nat} (hj : j < a.ncols) (f : Rat → Rat) :
    (a.mapCol j f).col j = (a.col j).map fun x => castTo a.isInt (f x) := by
  unfold Arr.mapCol Arr.col
  simp only [List.map_map]
  apply List.map_congr_left
  intro r hr
  have : j < r.length := by rw [hwf.rect r hr]; exact hj
  simp [Function.comp, List.getD_eq_getElem?_getD, this]

theorem setColRows_other (j j' : Nat) (h : j' ≠ j) : ∀ (rows : List (List Rat)) (xs : List Rat),
    (setColRows j rows xs).map (·.getD j' 0) = rows.map (·.getD j' 0) := by
  intro rows
  induction rows with
  | nil => intro xs; rfl
  | cons r rs ih =>
    intro xs
    cases xs with
    | nil => rfl
    | cons x xs =>
      show (r.set j x).getD j' 0 :: (setColRows j rs xs).map (·.getD j' 0) = r.getD j' 0 :: rs.map (·.getD j' 0)
      rw [ih xs]
      simp [List.getD_eq_getElem?_getD, List.getElem?_set_ne (Ne.symm h)]

theorem Arr.setCol_col_other (a : Arr) {j j' : Nat} (xs : List Rat) (h : j' ≠ j) :
    (a.setCol j xs).col j' = a.col j' :=
  setColRows_other j j' h a.rows _

/-- `_apply_op` on a vector without aliased cells: every populated cell's array becomes
`mapCol j f` of what it was -/
theorem applyOp_get (j : Nat) (f : Rat → Rat) : ∀ (cells : List (Option Ref)) (heap : List Arr),
    (refsOf cells).Nodup → ∀ r, some r ∈ cells →
      (applyOp j f heap cells)[r]? = (heap[r]?).map (·.mapCol j f) := by
  intro cells
  induction cells with
  | nil => intro heap _ r hr; cases hr
  | cons c cs ih =>
    intro heap hnd r hr
    cases c with
    | none =>
      have hnd' : (refsOf cs).Nodup := by simpa [refsOf] using hnd
      have hr' : some r ∈ cs := by simpa using hr
      simpa [applyOp] using ih heap hnd' r hr'
    | some r0 =>
      have hnd2 : r0 ∉ refsOf cs ∧ (refsOf cs).Nodup := by simpa [refsOf, List.nodup_cons] using hnd
      have hnotin : some r0 ∉ cs := fun h => hnd2.1 (mem_refsOf.mpr h)
      simp only [applyOp]
      cases ha : heap[r0]? with
      | none =>
        simp only []
        rcases List.mem_cons.mp hr with h1 | h1
        · cases h1
          rw [applyOp_frame j f r cs heap hnotin, ha]; rfl
        · exact ih heap hnd2.2 r h1
      | some a =>
        simp only []
        have hlt := getElem?_lt ha
        rcases List.mem_cons.mp hr with h1 | h1
        · cases h1
          rw [applyOp_frame j f r cs _ hnotin, ha]
          simp [List.getElem?_set_self hlt]
        · have hne : r0 ≠ r := by intro e; subst e; exact hnotin h1
          rw [ih _ hnd2.2 r h1, List.getElem?_set_ne hne]

/-- the assignment loop on distinct target positions: cell `ps[k]` ends up holding the k-th
value, every cell that is not a target keeps what it held -/
theorem setCells_spec_values (heap : List Arr) (nf : Nat) : ∀ (ps : List Nat) (xs : List Val) (cells : List (Option Ref)),
    (setCells heap nf cells ps xs).2 = none → xs.length = ps.length → (∀ p ∈ ps, p < cells.length) →
    (∀ p, p ∉ ps → (setCells heap nf cells ps xs).1[p]? = cells[p]?) ∧
    (ps.Nodup → ∀ (k p : Nat), ps[k]? = some p → ∃ x r, xs[k]? = some x ∧ checkVal heap nf x = .ok r ∧
        (setCells heap nf cells ps xs).1[p]? = some (some r)) := by
  intro ps
  induction ps with
  | nil =>
    intro xs cells _ _ _
    exact ⟨fun p _ => by simp [setCells], fun _ k p hk => by simp at hk⟩
  | cons p0 ps ih =>
    intro xs cells hok hlen hlt
    cases xs with
    | nil => simp at hlen
    | cons x xs =>
      simp only [setCells] at hok ⊢
      cases hc : checkVal heap nf x with
      | error e => rw [hc] at hok; simp at hok
      | ok r0 =>
        rw [hc] at hok
        simp only [] at hok ⊢
        have hlen' : xs.length = ps.length := by simpa using hlen
        have hlt' : ∀ p ∈ ps, p < (cells.set p0 (some r0)).length := by
          intro p hp; simpa using hlt p (List.mem_cons_of_mem _ hp)
        obtain ⟨i1, i2⟩ := ih xs (cells.set p0 (some r0)) hok hlen' hlt'
        constructor
        · intro p hp
          have hp0 : p0 ≠ p := fun e => hp (e ▸ List.mem_cons_self)
          have hps : p ∉ ps := fun h => hp (List.mem_cons_of_mem _ h)
          rw [i1 p hps, List.getElem?_set_ne hp0]
        · intro hnd k p hk
          have hnd2 := List.nodup_cons.mp hnd
          cases k with
          | zero =>
            simp at hk; subst hk
            refine ⟨x, r0, by simp, hc, ?_⟩
            rw [i1 p0 hnd2.1]
            have : p0 < cells.length := hlt p0 List.mem_cons_self
            simp [List.getElem?_set_self this]
          | succ k =>
            simp at hk
            obtain ⟨x', r', h1, h2, h3⟩ := i2 hnd2.2 k p hk
            exact ⟨x', r', by simpa using h1, h2, h3⟩

theorem Arr.addCols_col_old {a : Arr} (hwf : a.WF) (k : Nat) {j : Nat} (hj : j < a.ncols) :
    (a.addCols k).col j = a.col j := by
  unfold Arr.addCols Arr.col
  simp only [List.map_map]
  apply List.map_congr_left
  intro r hr
  have : j < r.length := by rw [hwf.rect r hr]; exact hj
  simp [Function.comp, List.getD_eq_getElem?_getD, List.getElem?_append_left this]

theorem Arr.addCols_col_new {a : Arr} (hwf : a.WF) (k : Nat) {j : Nat} (h1 : a.ncols ≤ j) (h2 : j < a.ncols + k) :
    (a.addCols k).col j = List.replicate a.nrows 0 := by
  unfold Arr.addCols Arr.col Arr.nrows
  simp only [List.map_map]
  rw [List.eq_replicate_iff]
  refine ⟨by simp, ?_⟩
  intro x hx
  simp only [List.mem_map, Function.comp] at hx
  obtain ⟨r, hr, rfl⟩ := hx
  have hl : r.length = a.ncols := hwf.rect r hr
  have hk : j - r.length < k := by rw [hl]; omega
  rw [List.getD_eq_getElem?_getD, List.getElem?_append_right (by omega)]
  simp [List.getElem?_replicate, hk]

theorem Arr.keepCols_col (a : Arr) (keep : List Nat) {i : Nat} (hi : i < keep.length) :
    (a.keepCols keep).col i = a.col keep[i] := by
  unfold Arr.keepCols Arr.col
  simp only [List.map_map]
  apply List.map_congr_left
  intro r _
  simp [Function.comp, List.getD_eq_getElem?_getD, hi]

theorem wrapAll_lt (d : Nat) : ∀ (is : List Int) (ps : List Nat), wrapAll d is = .ok ps → ∀ p ∈ ps, p < d := by
  intro is
  induction is with
  | nil => intro ps h p hp; simp [wrapAll] at h; subst h; cases hp
  | cons i is ih =>
    intro ps h p hp
    simp only [wrapAll] at h
    split at h
    · cases h
    · rename_i p0 hp0
      split at h
      · cases h
      · rename_i ps' hps
        cases h
        rcases List.mem_cons.mp hp with rfl | hp
        · exact pyIndex_lt hp0
        · exact ih ps' hps p hp

/-- every addressed position is a valid row-major offset -/
theorem positions_lt : ∀ (shape : List Nat) (ls : List (List Int)) (ps : List Nat),
    positions shape ls = .ok ps → ∀ p ∈ ps, p < prod shape := by
  intro shape
  induction shape with
  | nil => intro ls ps h p hp; simp [positions] at h; subst h; simp at hp; subst hp; simp [prod]
  | cons d ds ih =>
    intro ls ps h p hp
    cases ls with
    | nil => simp [positions] at h
    | cons is iss =>
      simp only [positions] at h
      split at h
      · cases h
      · cases h; cases hp
      · rename_i o os hw
        split at h
        · cases h
        · rename_i sub hsub
          cases h
          simp only [List.mem_flatMap, List.mem_map] at hp
          obtain ⟨i, hi, q, hq, rfl⟩ := hp
          have h1 := wrapAll_lt d is _ hw i hi
          have h2 := ih iss sub hsub q hq
          simp only [prod]
          calc i * prod ds + q < i * prod ds + prod ds := Nat.add_lt_add_left h2 _
            _ = (i + 1) * prod ds := by rw [Nat.succ_mul]
            _ ≤ d * prod ds := Nat.mul_le_mul_right _ h1

theorem checkVal_ref {heap : List Arr} {nf : Nat} {x : Val} {r : Ref} (h : checkVal heap nf x = .ok r) :
    x = .ref r := by
  unfold checkVal at h
  split at h
  · split at h
    · split at h
      · cases h; rfl
      · cases h
    · cases h
  · cases h
  · cases h
  · cases h

/-! ### general operands of field arithmetic -/

theorem applyGen_frame (j : Nat) (g : Rat → Rat → Rat) (neg : Bool) (rhs : RhsR) (r0 : Nat) :
    ∀ (cells : List (Option Ref)) (heap : List Arr),
      some r0 ∉ cells → (applyGen j g neg rhs heap cells).1[r0]? = heap[r0]? := by
  intro cells
  induction cells with
  | nil => intro heap _; rfl
  | cons c cs ih =>
    intro heap hn
    have hn' : some r0 ∉ cs := fun h => hn (List.mem_cons_of_mem _ h)
    cases c with
    | none => simpa [applyGen] using ih heap hn'
    | some r =>
      have hne : r ≠ r0 := by
        intro e; subst e; exact hn List.mem_cons_self
      simp only [applyGen]
      split
      · exact ih heap hn'
      · split
        · rfl
        · split
          · rfl
          · rw [ih _ hn', List.getElem?_set_ne hne]

/-- the operand values a static (scalar / 1-D ndarray) right operand contributes to a column of
`n` entries, after NumPy broadcasting -/
def RhsR.vals (n : Nat) : RhsR → Option (List Rat)
  | .scalar c => some (List.replicate n c)
  | .array ys => broadcastTo n ys
  | .field _ _ => none

def RhsR.isStatic : RhsR → Bool
  | .field _ _ => false
  | _ => true

/-- general field arithmetic with a scalar or ndarray operand on a vector without aliased cells:
if the loop ran to the end, every populated cell's column `j` became `g` of its entries and the
broadcast operand (cast to the cell's dtype), all else unchanged -/
theorem applyGen_get (j : Nat) (g : Rat → Rat → Rat) (neg : Bool) (rhs : RhsR) (hs : rhs.isStatic = true) :
    ∀ (cells : List (Option Ref)) (heap : List Arr),
      (refsOf cells).Nodup → (applyGen j g neg rhs heap cells).2 = none →
      ∀ r a, some r ∈ cells → heap[r]? = some a →
        ∃ ys, rhs.vals a.nrows = some ys ∧
          (applyGen j g neg rhs heap cells).1[r]? = some (a.setCol j (List.zipWith g (a.col j) ys)) := by
  intro cells
  induction cells with
  | nil => intro heap _ _ r a hr; cases hr
  | cons c cs ih =>
    intro heap hnd hok r a hr ha
    cases c with
    | none =>
      have hnd' : (refsOf cs).Nodup := by simpa [refsOf] using hnd
      have hr' : some r ∈ cs := by simpa using hr
      simp only [applyGen] at hok ⊢
      exact ih heap hnd' hok r a hr' ha
    | some r0 =>
      have hnd2 : r0 ∉ refsOf cs ∧ (refsOf cs).Nodup := by simpa [refsOf, List.nodup_cons] using hnd
      have hnotin : some r0 ∉ cs := fun h => hnd2.1 (mem_refsOf.mpr h)
      simp only [applyGen] at hok ⊢
      cases ha0 : heap[r0]? with
      | none =>
        rw [ha0] at hok
        simp only [] at hok ⊢
        rcases List.mem_cons.mp hr with h1 | h1
        · cases h1; rw [ha0] at ha; cases ha
        · exact ih heap hnd2.2 hok r a h1 ha
      | some a0 =>
        rw [ha0] at hok
        simp only [] at hok ⊢
        split at hok
        · simp at hok
        · rename_i hneg
          rw [if_neg hneg]
          have hval : rhs.eval heap a0.nrows = rhs.vals a0.nrows := by
            cases rhs with
            | scalar c => rfl
            | array ys => rfl
            | field _ _ => simp [RhsR.isStatic] at hs
          rw [hval] at hok ⊢
          cases hv : rhs.vals a0.nrows with
          | none => rw [hv] at hok; simp at hok
          | some ys =>
            rw [hv] at hok
            simp only [] at hok ⊢
            have hlt := getElem?_lt ha0
            rcases List.mem_cons.mp hr with h1 | h1
            · cases h1
              rw [ha0] at ha; cases ha
              refine ⟨ys, hv, ?_⟩
              rw [applyGen_frame j g neg rhs r cs _ hnotin]
              simp [List.getElem?_set_self hlt]
            · have hne : r0 ≠ r := by intro e; subst e; exact hnotin h1
              exact ih _ hnd2.2 hok r a h1 (by rw [List.getElem?_set_ne hne]; exact ha)

/-! ### columns after add_fields / remove_fields -/

/-- a cell before / after `add_fields` of `k` names: a new array with the same rows, the old
columns unchanged and `k` zero columns appended -/
def AddedCols (k : Nat) (heap heap1 : List Arr) (c c1 : Option Ref) : Prop :=
  match c with
  | none => c1 = none
  | some r => ∃ (r1 : Nat) (a a1 : Arr), c1 = some r1 ∧ heap[r]? = some a ∧ heap1[r1]? = some a1 ∧
      a1.nrows = a.nrows ∧ a1.ncols = a.ncols + k ∧ (∀ j, j < a.ncols → a1.col j = a.col j) ∧
      (∀ j, a.ncols ≤ j → j < a.ncols + k → a1.col j = List.replicate a.nrows 0)

/-- a cell before / after `remove_fields`: a new array of the same dtype whose i-th column is the
old column number `keep[i]` -/
def KeptCols (keep : List Nat) (heap heap2 : List Arr) (c c2 : Option Ref) : Prop :=
  match c with
  | none => c2 = none
  | some r => ∃ (r2 : Nat) (a a2 : Arr), c2 = some r2 ∧ heap[r]? = some a ∧ heap2[r2]? = some a2 ∧
      a2.nrows = a.nrows ∧ a2.ncols = keep.length ∧ a2.isInt = a.isInt ∧
      ∀ (i : Nat) (hi : i < keep.length), a2.col i = a.col keep[i]

/-- the columns `remove_fields names` keeps are exactly those whose field name is not in `names` -/
theorem keep_mem_iff (fields names : List String) (hnd : fields.Nodup) (i : Nat) :
    i ∈ (List.range fields.length).filter
        (fun i => !((names.filter (fields.contains ·)).map (fields.idxOf ·)).contains i) ↔
      ∃ h : i < fields.length, fields[i] ∉ names := by
  simp only [List.mem_filter, List.mem_range, Bool.not_eq_true', List.contains_eq_mem, decide_eq_false_iff_not,
    List.mem_map, List.mem_filter, decide_eq_true_eq]
  constructor
  · rintro ⟨hlt, hno⟩
    refine ⟨hlt, ?_⟩
    intro hin
    exact hno ⟨fields[i], ⟨hin, List.getElem_mem hlt⟩, hnd.idxOf_getElem i hlt⟩
  · rintro ⟨hlt, hno⟩
    refine ⟨hlt, ?_⟩
    rintro ⟨n, ⟨hn, hnf⟩, rfl⟩
    apply hno
    rw [List.getElem_idxOf]
    exact hn

end QuantemModel.Vector
