import QuantemModel.Lemmas.Vector
/-!
Laws of the Vector model beyond the invariant: flatten / set_flattened, frames (which arrays an
operation can touch), copy freshness, addressed-cell specification of `positions`.
Core Lean only.
-/
namespace QuantemModel.Vector

/-! ### writing a field's flattened view back is the identity (even with aliased cells) -/

theorem row_set_getD_self (r : List Rat) (j : Nat) : r.set j (r.getD j 0) = r := by
  rcases Nat.lt_or_ge j r.length with h | h
  · simp [List.getD_eq_getElem?_getD, List.getElem?_eq_getElem h]
  · exact List.set_eq_of_length_le h

theorem setColRows_col_self (j : Nat) : ∀ rows : List (List Rat),
    setColRows j rows (rows.map (·.getD j 0)) = rows := by
  intro rows
  induction rows with
  | nil => rfl
  | cons r rs ih =>
    show r.set j (r.getD j 0) :: setColRows j rs (rs.map (·.getD j 0)) = r :: rs
    rw [row_set_getD_self, ih]

theorem Arr.setCol_col_self (a : Arr) (j : Nat) : a.setCol j (a.col j) = a := by
  cases a with
  | mk n rows =>
    show Arr.mk n (setColRows j rows (rows.map (·.getD j 0))) = _
    rw [setColRows_col_self]

theorem Arr.col_length (a : Arr) (j : Nat) : (a.col j).length = a.nrows := by
  simp [Arr.col, Arr.nrows]

theorem set_self_of_getElem? {α} {l : List α} {r : Nat} {a : α} (h : l[r]? = some a) : l.set r a = l := by
  have hlt := getElem?_lt h
  have : l[r] = a := by
    rw [List.getElem?_eq_getElem hlt] at h; exact Option.some.inj h
  rw [← this]; exact List.set_getElem_self hlt

/-- `fill` with the field's own flattened view changes nothing -/
theorem fill_flatten_self (j : Nat) : ∀ (cells : List (Option Ref)) (heap : List Arr),
    fill j heap cells (flattenField heap cells j) = heap := by
  intro cells
  induction cells with
  | nil => intro heap; rfl
  | cons c cs ih =>
    intro heap
    cases c with
    | none => simpa [fill, flattenField] using ih heap
    | some r =>
      cases ha : heap[r]? with
      | none =>
        have : flattenField heap (some r :: cs) j = flattenField heap cs j := by
          simp [flattenField, ha]
        simp only [fill, ha, this]
        exact ih heap
      | some a =>
        have e : flattenField heap (some r :: cs) j = a.col j ++ flattenField heap cs j := by
          simp [flattenField, ha]
        simp only [fill, ha, e]
        have t : (a.col j ++ flattenField heap cs j).take a.nrows = a.col j := by
          rw [← Arr.col_length a j]; exact List.take_left
        have d : (a.col j ++ flattenField heap cs j).drop a.nrows = flattenField heap cs j := by
          rw [← Arr.col_length a j]; exact List.drop_left
        rw [t, d, Arr.setCol_col_self, set_self_of_getElem? ha]
        exact ih heap

/-! ### frames: `_apply_op` / `fill` only write to arrays that sit in the visited cells -/

theorem applyOp_frame (j : Nat) (f : Rat → Rat) (r0 : Nat) : ∀ (cells : List (Option Ref)) (heap : List Arr),
    some r0 ∉ cells → (applyOp j f heap cells)[r0]? = heap[r0]? := by
  intro cells
  induction cells with
  | nil => intro heap _; rfl
  | cons c cs ih =>
    intro heap hn
    have hn' : some r0 ∉ cs := fun h => hn (List.mem_cons_of_mem _ h)
    cases c with
    | none => simpa [applyOp] using ih heap hn'
    | some r =>
      have hne : r ≠ r0 := by
        intro e; subst e; exact hn List.mem_cons_self
      simp only [applyOp]
      split
      · rw [ih _ hn', List.getElem?_set_ne hne]
      · exact ih heap hn'

theorem fill_frame (j : Nat) (r0 : Nat) : ∀ (cells : List (Option Ref)) (heap : List Arr) (xs : List Rat),
    some r0 ∉ cells → (fill j heap cells xs)[r0]? = heap[r0]? := by
  intro cells
  induction cells with
  | nil => intro heap xs _; rfl
  | cons c cs ih =>
    intro heap xs hn
    have hn' : some r0 ∉ cs := fun h => hn (List.mem_cons_of_mem _ h)
    cases c with
    | none => simpa [fill] using ih heap xs hn'
    | some r =>
      have hne : r ≠ r0 := by
        intro e; subst e; exact hn List.mem_cons_self
      simp only [fill]
      split
      · rw [ih _ _ hn', List.getElem?_set_ne hne]
      · exact ih heap xs hn'

theorem applyOp_length (j : Nat) (f : Rat → Rat) : ∀ (cells : List (Option Ref)) (heap : List Arr),
    (applyOp j f heap cells).length = heap.length := by
  intro cells
  induction cells with
  | nil => intro heap; rfl
  | cons c cs ih =>
    intro heap
    cases c with
    | none => simpa [applyOp] using ih heap
    | some r =>
      simp only [applyOp]
      split
      · rw [ih]; simp
      · exact ih heap

theorem fill_length (j : Nat) : ∀ (cells : List (Option Ref)) (heap : List Arr) (xs : List Rat),
    (fill j heap cells xs).length = heap.length := by
  intro cells
  induction cells with
  | nil => intro heap xs; rfl
  | cons c cs ih =>
    intro heap xs
    cases c with
    | none => simpa [fill] using ih heap xs
    | some r =>
      simp only [fill]
      split
      · rw [ih]; simp
      · exact ih heap xs

/-! ### `flatten ∘ set_flattened = id` when no array sits in two cells of the vector -/

/-- the references held by the populated cells, in storage order -/
def refsOf (cells : List (Option Ref)) : List Ref := cells.filterMap id

theorem mem_refsOf {cells : List (Option Ref)} {r : Ref} : r ∈ refsOf cells ↔ some r ∈ cells := by
  simp [refsOf]

theorem col_setColRows (j : Nat) : ∀ (rows : List (List Rat)) (ys : List Rat),
    ys.length = rows.length → (∀ r ∈ rows, j < r.length) →
    (setColRows j rows ys).map (·.getD j 0) = ys := by
  intro rows
  induction rows with
  | nil => intro ys h _; simp at h; subst h; rfl
  | cons r rs ih =>
    intro ys h hr
    cases ys with
    | nil => simp at h
    | cons y ys =>
      have hj : j < r.length := hr r List.mem_cons_self
      show (r.set j y).getD j 0 :: (setColRows j rs ys).map (·.getD j 0) = y :: ys
      rw [ih ys (by simpa using h) (fun r h' => hr r (List.mem_cons_of_mem _ h'))]
      simp [List.getD_eq_getElem?_getD, hj]

theorem Arr.col_setCol {a : Arr} (hwf : a.WF) {j : Nat} (hj : j < a.ncols) {ys : List Rat} (hy : ys.length = a.nrows) :
    (a.setCol j ys).col j = ys :=
  col_setColRows j a.rows ys hy (fun r hr => by rw [hwf r hr]; exact hj)

theorem flattenField_congr (j : Nat) {h1 h2 : List Arr} : ∀ (cells : List (Option Ref)),
    (∀ r, some r ∈ cells → h1[r]? = h2[r]?) → flattenField h1 cells j = flattenField h2 cells j := by
  intro cells
  induction cells with
  | nil => intro _; rfl
  | cons c cs ih =>
    intro h
    have ih' := ih (fun r hr => h r (List.mem_cons_of_mem _ hr))
    cases c with
    | none => simpa [flattenField] using ih'
    | some r =>
      have := h r List.mem_cons_self
      simp only [flattenField, List.flatMap_cons] at ih' ⊢
      rw [this, ih']

theorem flattenField_cons_some {heap : List Arr} {r : Ref} {a : Arr} (ha : heap[r]? = some a)
    (cs : List (Option Ref)) (j : Nat) :
    flattenField heap (some r :: cs) j = a.col j ++ flattenField heap cs j := by
  simp [flattenField, ha]

theorem flatten_fill (j nf : Nat) (hj : j < nf) : ∀ (cells : List (Option Ref)) (heap : List Arr) (xs : List Rat),
    (∀ a ∈ heap, a.WF) → (∀ c ∈ cells, CellOK heap nf c) → (refsOf cells).Nodup →
    xs.length = (flattenField heap cells j).length →
    flattenField (fill j heap cells xs) cells j = xs := by
  intro cells
  induction cells with
  | nil =>
    intro heap xs _ _ _ hl
    simp [flattenField] at hl
    simp [flattenField, fill, hl]
  | cons c cs ih =>
    intro heap xs hwf hc hnd hl
    have hc' : ∀ c ∈ cs, CellOK heap nf c := fun c h => hc c (List.mem_cons_of_mem _ h)
    cases c with
    | none =>
      have hnd' : (refsOf cs).Nodup := by simpa [refsOf] using hnd
      have hl' : xs.length = (flattenField heap cs j).length := by simpa [flattenField] using hl
      have := ih heap xs hwf hc' hnd' hl'
      simpa [fill, flattenField] using this
    | some r =>
      obtain ⟨a, ha, hn⟩ := hc (some r) List.mem_cons_self r rfl
      have hnd2 : r ∉ refsOf cs ∧ (refsOf cs).Nodup := by
        simpa [refsOf, List.nodup_cons] using hnd
      have hnotin : some r ∉ cs := fun h => hnd2.1 (mem_refsOf.mpr h)
      rw [flattenField_cons_some ha] at hl
      simp only [List.length_append, Arr.col_length] at hl
      have hwfa : a.WF := hwf a (List.mem_of_getElem? ha)
      have hlt : r < heap.length := getElem?_lt ha
      -- one step of `fill`
      have hstep : fill j heap (some r :: cs) xs =
          fill j (heap.set r (a.setCol j (xs.take a.nrows))) cs (xs.drop a.nrows) := by
        simp only [fill, ha]
      rw [hstep]
      generalize hh1 : heap.set r (a.setCol j (xs.take a.nrows)) = heap1
      have h1r : heap1[r]? = some (a.setCol j (xs.take a.nrows)) := by
        rw [← hh1]; simp [List.getElem?_set_self hlt]
      have hsame : ∀ r', some r' ∈ cs → heap1[r']? = heap[r']? := by
        intro r' hr'
        have : r ≠ r' := by intro e; subst e; exact hnotin hr'
        rw [← hh1]; exact List.getElem?_set_ne this
      have hwf1 : ∀ x ∈ heap1, x.WF := by
        rw [← hh1]; exact wf_set hwf (Arr.setCol_wf hwfa j _) r
      have hext : HeapExt heap heap1 := by
        rw [← hh1]; exact HeapExt.set ha (by simp [Arr.setCol])
      have hfl : flattenField heap1 cs j = flattenField heap cs j := flattenField_congr j cs hsame
      have hih := ih heap1 (xs.drop a.nrows) hwf1 (fun c h => (hc' c h).mono hext) hnd2.2
        (by rw [hfl]; simp; omega)
      have hfr : (fill j heap1 cs (xs.drop a.nrows))[r]? = some (a.setCol j (xs.take a.nrows)) := by
        rw [fill_frame j r cs heap1 _ hnotin]; exact h1r
      rw [flattenField_cons_some hfr, hih]
      rw [Arr.col_setCol hwfa (by rw [hn]; exact hj) (by simp; omega)]
      exact List.take_append_drop _ _

/-! ### addressed cells: what `positions` (the gather of `__getitem__` / the loops of `get_data`,
`set_data`, `__setitem__`) computes, coordinate by coordinate, for any number of dimensions -/

/-- row-major offset of a multi-index -/
def flatIdx : List Nat → List Nat → Nat
  | _ :: ds, i :: is => i * prod ds + flatIdx ds is
  | _, _ => 0

/-- `Addr shape ls o src`: along every fixed dimension `k`, output coordinate `o[k]` selects the
entry `ls[k][o[k]]` of that dimension's index list, which Python list indexing (negatives wrap
once) maps to the source coordinate `src[k]` -/
inductive Addr : List Nat → List (List Int) → List Nat → List Nat → Prop
  | nil : Addr [] [] [] []
  | cons {d : Nat} {ds : List Nat} {is : List Int} {iss : List (List Int)} {o : Nat} {os : List Nat}
      {p : Nat} {ps : List Nat} (i : Int) :
      is[o]? = some i → pyIndex d i = .ok p → Addr ds iss os ps →
      Addr (d :: ds) (is :: iss) (o :: os) (p :: ps)

theorem Addr.length {shape : List Nat} {ls : List (List Int)} {o src : List Nat} (h : Addr shape ls o src) :
    ls.length = shape.length := by
  induction h with
  | nil => rfl
  | cons _ _ _ _ ih => simp [ih]

theorem pyIndex_lt {d : Nat} {i : Int} {p : Nat} (h : pyIndex d i = .ok p) : p < d := by
  unfold pyIndex at h
  split at h
  · cases h; omega
  · split at h
    · cases h; omega
    · cases h

theorem wrapAll_get (d : Nat) : ∀ (is : List Int) (outer : List Nat) (o : Nat) (i : Int) (p : Nat),
    wrapAll d is = .ok outer → is[o]? = some i → pyIndex d i = .ok p → outer[o]? = some p := by
  intro is
  induction is with
  | nil => intro outer o i p _ h; simp at h
  | cons i0 is ih =>
    intro outer o i p hw hi hp
    simp only [wrapAll] at hw
    split at hw
    · cases hw
    · rename_i p0 hp0
      split at hw
      · cases hw
      · rename_i ps hps
        cases hw
        cases o with
        | zero =>
          simp at hi; subst hi
          rw [hp0] at hp; cases hp; simp
        | succ o =>
          simp at hi
          simpa using ih ps o i p hps hi hp

theorem flatMap_block_get {α β} (f : α → List β) (n : Nat) (hf : ∀ x, (f x).length = n) :
    ∀ (l : List α) (i : Nat) (x : α) (k : Nat), l[i]? = some x → k < n →
      (l.flatMap f)[i * n + k]? = (f x)[k]? := by
  intro l
  induction l with
  | nil => intro i x k h; simp at h
  | cons y ys ih =>
    intro i x k hi hk
    cases i with
    | zero =>
      simp at hi; subst hi
      simp only [List.flatMap_cons, Nat.zero_mul, Nat.zero_add]
      rw [List.getElem?_append_left (by rw [hf]; exact hk)]
    | succ i =>
      simp at hi
      simp only [List.flatMap_cons]
      rw [List.getElem?_append_right (by rw [hf, Nat.succ_mul]; omega)]
      rw [hf]
      have : (i + 1) * n + k - n = i * n + k := by rw [Nat.succ_mul]; omega
      rw [this]
      exact ih i x k hi hk

theorem Addr.flat_lt {shape : List Nat} {ls : List (List Int)} {o src : List Nat} (h : Addr shape ls o src) :
    flatIdx (ls.map List.length) o < prod (ls.map List.length) ∧ flatIdx shape src < prod shape := by
  induction h with
  | nil => simp [flatIdx, prod]
  | @cons d ds is iss o os p ps i hi hp _ ih =>
    have ho : o < is.length := getElem?_lt hi
    have hpd := pyIndex_lt hp
    simp only [List.map_cons, flatIdx, prod]
    constructor
    · calc o * prod (iss.map List.length) + flatIdx (iss.map List.length) os
          < o * prod (iss.map List.length) + prod (iss.map List.length) := Nat.add_lt_add_left ih.1 _
        _ = (o + 1) * prod (iss.map List.length) := by rw [Nat.succ_mul]
        _ ≤ is.length * prod (iss.map List.length) := Nat.mul_le_mul_right _ ho
    · calc p * prod ds + flatIdx ds ps < p * prod ds + prod ds := Nat.add_lt_add_left ih.2 _
        _ = (p + 1) * prod ds := by rw [Nat.succ_mul]
        _ ≤ d * prod ds := Nat.mul_le_mul_right _ hpd

/-- **addressed cells**: the entry of `positions` at the row-major offset of output coordinate `o`
is the row-major offset (in the source vector) of the source coordinate `src`. -/
theorem positions_addr {shape : List Nat} {ls : List (List Int)} {o src : List Nat} (h : Addr shape ls o src) :
    ∀ ps, positions shape ls = .ok ps → ps[flatIdx (ls.map List.length) o]? = some (flatIdx shape src) := by
  induction h with
  | nil => intro ps hps; simp [positions] at hps; subst hps; simp [flatIdx]
  | @cons d ds is iss o os p ps' i hi hp hrest ih =>
    intro ps hps
    simp only [positions] at hps
    split at hps
    · cases hps
    · rename_i hw
      have := wrapAll_length d is _ hw
      have ho : o < is.length := getElem?_lt hi
      simp at this; omega
    · rename_i o1 os1 hw
      split at hps
      · cases hps
      · rename_i sub hsub
        cases hps
        have hsublen : sub.length = prod (iss.map List.length) := positions_length ds iss sub hrest.length hsub
        have hk := hrest.flat_lt.1
        have hget := wrapAll_get d is _ o i p hw hi hp
        simp only [List.map_cons, flatIdx]
        rw [← hsublen]
        rw [flatMap_block_get (fun i => sub.map fun q => i * prod ds + q) sub.length (by intro x; simp)
          (o1 :: os1) o p _ hget (by rw [hsublen]; exact hk)]
        rw [List.getElem?_map, ih sub hsub]
        rfl

theorem nodup_nodupB : ∀ l : List String, l.Nodup → nodupB l = true := by
  intro l
  induction l with
  | nil => intro _; rfl
  | cons x xs ih =>
    intro h
    have := List.nodup_cons.mp h
    simp [nodupB, this.1, ih this.2]

end QuantemModel.Vector
