import QuantemModel.Model.PtychoOps
import Mathlib.Algebra.BigOperators.Group.List.Basic
import Mathlib.Algebra.Ring.Defs
import Mathlib.Tactic.Ring
/-!
Helper lemmas for Props/C16.lean, part 1: gather / scatter (index_add) algebra over an
arbitrary commutative semiring — no DFT, no reals.
-/
namespace QuantemModel.PtychoOps
variable {α : Type}

/-- bilinear pairing `Σ_t a[t]·b[t]` (truncating to the shorter list, as `zip`) -/
def dot [Mul α] [Add α] [Zero α] (a b : List α) : α := (List.zipWith (· * ·) a b).sum

/-- the accumulation loop of `index_add_` started from an arbitrary accumulator -/
def scatterFrom [Add α] (acc : List α) (ips : List (Nat × α)) : List α :=
  ips.foldl (fun out ip => out.modify ip.1 (· + ip.2)) acc

theorem scatter_eq_scatterFrom [Add α] (z : α) (n : Nat) (p : List α) (idx : List Nat) :
    scatter z n p idx = scatterFrom (List.replicate n z) (List.zip idx p) := rfl

theorem scatterFrom_length [Add α] (acc : List α) (ips : List (Nat × α)) :
    (scatterFrom acc ips).length = acc.length := by
  induction ips generalizing acc with
  | nil => rfl
  | cons ip rest ih =>
    show (scatterFrom (acc.modify ip.1 (· + ip.2)) rest).length = acc.length
    rw [ih]; simp

theorem scatter_length [Add α] (z : α) (n : Nat) (p : List α) (idx : List Nat) :
    (scatter z n p idx).length = n := by
  rw [scatter_eq_scatterFrom, scatterFrom_length]; simp

section Semiring
variable [CommSemiring α]

theorem dot_modify (d p : α) (o acc : List α) (i : Nat) (hlen : acc.length = o.length) (hi : i < o.length) :
    dot o (acc.modify i (· + p)) = dot o acc + o.getD i d * p := by
  induction o generalizing acc i with
  | nil => simp at hi
  | cons a o ih =>
    cases acc with
    | nil => simp at hlen
    | cons b acc =>
      cases i with
      | zero =>
        simp only [List.modify_zero_cons, dot, List.zipWith_cons_cons, List.sum_cons, List.getD_cons_zero]
        ring
      | succ i =>
        have hl : acc.length = o.length := by simpa using hlen
        have hi' : i < o.length := by simpa using hi
        have := ih acc i hl hi'
        simp only [dot] at this
        simp only [List.modify_succ_cons, dot, List.zipWith_cons_cons, List.sum_cons, List.getD_cons_succ, this]
        ring

theorem dot_scatterFrom (d : α) (o acc : List α) (ips : List (Nat × α)) (hlen : acc.length = o.length)
    (hidx : ∀ ip ∈ ips, ip.1 < o.length) :
    dot o (scatterFrom acc ips) = dot o acc + (ips.map fun ip => o.getD ip.1 d * ip.2).sum := by
  induction ips generalizing acc with
  | nil => simp [scatterFrom]
  | cons ip rest ih =>
    show dot o (scatterFrom (acc.modify ip.1 (· + ip.2)) rest) = _
    rw [ih _ (by simpa using hlen) (fun q hq => hidx q (List.mem_cons_of_mem _ hq)),
      dot_modify d ip.2 o acc ip.1 hlen (hidx ip List.mem_cons_self)]
    simp only [List.map_cons, List.sum_cons]
    ring

theorem dot_replicate_zero (o : List α) (n : Nat) : dot o (List.replicate n (0 : α)) = 0 := by
  induction o generalizing n with
  | nil => simp [dot]
  | cons a o ih =>
    cases n with
    | zero => simp [dot]
    | succ n =>
      have := ih n
      simp only [dot] at this
      simp [dot, List.replicate_succ, this]

theorem sum_zip_eq_dot_gather (d : α) (o p : List α) (idx : List Nat) :
    ((List.zip idx p).map fun ip => o.getD ip.1 d * ip.2).sum = dot (gather d o idx) p := by
  induction idx generalizing p with
  | nil => simp [dot, gather]
  | cons i idx ih =>
    cases p with
    | nil => simp [dot, gather]
    | cons q p =>
      have := ih p
      simp only [dot, gather] at this
      simp only [dot, gather, List.zip_cons_cons, List.map_cons, List.sum_cons, List.zipWith_cons_cons, this]

/-- **adjointness of gather and scatter** (bilinear form): for every flat index list (repeats,
any order, any length), every object and every patch vector over a commutative semiring,
`Σ_t obj[idx[t]]·p[t] = Σ_j obj[j]·(index_add(zeros, idx, p))[j]`. -/
theorem dot_gather_eq_dot_scatter (d : α) (o p : List α) (idx : List Nat) (hidx : ∀ i ∈ idx, i < o.length) :
    dot (gather d o idx) p = dot o (scatter 0 o.length p idx) := by
  rw [scatter_eq_scatterFrom, dot_scatterFrom d o _ _ (by simp), dot_replicate_zero, zero_add,
    sum_zip_eq_dot_gather]
  intro ip hip
  exact hidx ip.1 (List.of_mem_zip hip).1

end Semiring

/-! naturality: gather / scatter commute with maps (used to move between `Cx ℝ`, `ℂ`, parts) -/
theorem gather_map {β : Type} (f : α → β) (d : α) (o : List α) (idx : List Nat) :
    (gather d o idx).map f = gather (f d) (o.map f) idx := by
  simp only [gather, List.map_map]
  apply List.map_congr_left
  intro i _
  simp only [Function.comp, List.getD_eq_getElem?_getD, List.getElem?_map]
  cases o[i]? <;> rfl

theorem modify_map {β : Type} (f : α → β) (g : α → α) (g' : β → β) (h : ∀ a, f (g a) = g' (f a))
    (l : List α) (i : Nat) : (l.modify i g).map f = (l.map f).modify i g' := by
  induction l generalizing i with
  | nil => simp
  | cons a l ih =>
    cases i with
    | zero => simp [h]
    | succ i => simp [ih]

theorem scatterFrom_map {β : Type} [Add α] [Add β] (f : α → β) (hadd : ∀ a b, f (a + b) = f a + f b)
    (acc : List α) (ips : List (Nat × α)) :
    (scatterFrom acc ips).map f = scatterFrom (acc.map f) (ips.map fun ip => (ip.1, f ip.2)) := by
  induction ips generalizing acc with
  | nil => rfl
  | cons ip rest ih =>
    show (scatterFrom (acc.modify ip.1 (· + ip.2)) rest).map f = _
    rw [ih]
    show _ = scatterFrom ((acc.map f).modify ip.1 (· + f ip.2)) _
    rw [modify_map f (· + ip.2) (· + f ip.2) (fun a => hadd a ip.2)]

theorem scatter_map {β : Type} [Add α] [Add β] (f : α → β) (hadd : ∀ a b, f (a + b) = f a + f b)
    (z : α) (n : Nat) (p : List α) (idx : List Nat) :
    (scatter z n p idx).map f = scatter (f z) n (p.map f) idx := by
  rw [scatter_eq_scatterFrom, scatter_eq_scatterFrom, scatterFrom_map f hadd]
  congr 1
  · simp
  · rw [List.zip_map_right]
    exact List.map_congr_left fun ip _ => rfl

end QuantemModel.PtychoOps
