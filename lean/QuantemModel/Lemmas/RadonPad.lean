import QuantemModel.Lemmas.RadonLinear
/-!
C07 — facts about the padded FFT size, filter/row lengths and output shapes.
-/
namespace QuantemModel.Radon
open QuantemModel QuantemModel.NumReal

theorem paddedSize_go_pow2 (N : Nat) : ∀ (fuel p : Nat), (∃ k, p = 2 ^ k) → ∃ k, paddedSize.go N p fuel = 2 ^ k := by
  intro fuel
  induction fuel with
  | zero => intro p hp; simpa [paddedSize.go] using hp
  | succ f ih =>
    intro p hp
    unfold paddedSize.go
    split
    · exact hp
    · obtain ⟨k, hk⟩ := hp
      exact ih (2 * p) ⟨k + 1, by rw [hk, Nat.pow_succ]; omega⟩

theorem paddedSize_go_ge2 (N : Nat) : ∀ (fuel p : Nat), 2 * N ≤ p * 2 ^ fuel → 2 * N ≤ paddedSize.go N p fuel := by
  intro fuel
  induction fuel with
  | zero => intro p hp; simpa [paddedSize.go] using hp
  | succ f ih =>
    intro p hp
    unfold paddedSize.go
    split
    · assumption
    · apply ih (2 * p)
      rw [Nat.pow_succ] at hp
      calc 2 * N ≤ p * (2 ^ f * 2) := hp
        _ = 2 * p * 2 ^ f := by ring

theorem paddedSize_go_min (N : Nat) : ∀ (fuel p : Nat), (p = 64 ∨ p < 4 * N) →
    (paddedSize.go N p fuel = 64 ∨ paddedSize.go N p fuel < 4 * N) := by
  intro fuel
  induction fuel with
  | zero => intro p hp; simpa [paddedSize.go] using hp
  | succ f ih =>
    intro p hp
    unfold paddedSize.go
    split
    · exact hp
    · exact ih (2 * p) (Or.inr (by omega))

/-- `paddedSize N = max(64, 2^ceil(log2(2N)))`: a power of two … -/
theorem paddedSize_pow2 (N : Nat) : ∃ k, paddedSize N = 2 ^ k :=
  paddedSize_go_pow2 N _ 64 ⟨6, by norm_num⟩

/-- … at least twice the detector size (so the `P - N` zeros are a genuine padding) … -/
theorem paddedSize_ge_two_mul (N : Nat) : 2 * N ≤ paddedSize N := by
  apply paddedSize_go_ge2
  have : 2 * N < 2 ^ (2 * N) := Nat.lt_two_pow_self
  nlinarith

/-- … and the smallest such (it is 64 or its half is below `2N`). -/
theorem paddedSize_minimal (N : Nat) : paddedSize N = 64 ∨ paddedSize N < 4 * N :=
  paddedSize_go_min N _ 64 (Or.inl rfl)

theorem fourierFilterTorch_length (name : FilterName) (P : Nat) : (fourierFilterTorch name P : List ℝ).length = P := by
  cases name <;> simp [fourierFilterTorch, fourierFilterWith, rampFilter, rampSpatial]

theorem filterRow_length_eq (filt : List ℝ) (P N : Nat) (row : List ℝ) (hr : row.length = N) (hf : filt.length = P)
    (hP : N ≤ P) : (filterRow filt P N row).length = N := by
  simp [filterRow, hr, hf]; omega

theorem backproject_shape (interp : Nat → (Int → ℝ) → ℝ → ℝ) (D : Nat) (F : List (List ℝ)) (th : List ℝ) (out : Nat) (circle : Bool) :
    (backproject interp D F th out circle).length = out ∧ ∀ row ∈ backproject interp D F th out circle, row.length = out := by
  unfold backproject
  constructor
  · simp
  · intro row hrow
    simp only [List.mem_map, List.mem_range] at hrow
    obtain ⟨r, _, rfl⟩ := hrow
    simp

theorem iradonTorch_shape (sino : List (List ℝ)) (thetas : Option (List ℝ)) (name : FilterName) (circle : Bool) :
    (iradonTorch sino thetas name circle).length = outputSize (R := ℝ) (sino.headD []).length circle ∧
    ∀ row ∈ iradonTorch sino thetas name circle, row.length = outputSize (R := ℝ) (sino.headD []).length circle := by
  unfold iradonTorch iradonTorchOut
  exact backproject_shape _ _ _ _ _ _

theorem iradonTorchOut_shape (sino : List (List ℝ)) (thetas : Option (List ℝ)) (name : FilterName) (circle : Bool)
    (out : Nat) :
    (iradonTorchOut sino thetas name circle out).length = out ∧
    ∀ row ∈ iradonTorchOut sino thetas name circle out, row.length = out := by
  unfold iradonTorchOut
  exact backproject_shape _ _ _ _ _ _

end QuantemModel.Radon
