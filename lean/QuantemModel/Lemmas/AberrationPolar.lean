import QuantemModel.Lemmas.AberrationFit
/-!
C12 — uniqueness of the polar decomposition for real 2×2 matrices (in the form: the closed form `polar2`
returns the factors of ANY decomposition M = U·P with UᵀU = 1, P symmetric positive definite), the
factors of `R_{−θ}·A`, exact recovery of the matrix by the normal equations for a full-column-rank
basis, lateral shifts as `basis @ (R_{−θ}·A)`, and the end-to-end fit round trip on the model.
-/
namespace QuantemModel.Aberration
open QuantemModel QuantemModel.Generated.Aberration

theorem M2.ext' {x y : M2 ℝ} (ha : x.a = y.a) (hb : x.b = y.b) (hc : x.c = y.c) (hd : x.d = y.d) : x = y := by
  cases x; cases y; simp_all

theorem polar2_eq (m : M2 ℝ) :
    polar2 m =
      (let q := M2.mul (M2.transpose m) m
       let s := |M2.det m|
       let t := √(q.a + q.d + 2 * s)
       let p : M2 ℝ := ⟨(q.a + s) / t, q.b / t, q.c / t, (q.d + s) / t⟩
       (M2.mul m (M2.inv p), p)) := by
  unfold polar2
  simp only [NumReal.abs_eq]
  num_real

/-- **uniqueness of the polar decomposition (real 2×2)**: whenever `M = U·P` with `UᵀU = 1` and `P`
symmetric positive definite, the closed form `polar2 M` returns exactly these factors. -/
theorem polar2_unique (u1 u2 u3 u4 a b d : ℝ)
    (h1 : u1 * u1 + u3 * u3 = 1) (h2 : u1 * u2 + u3 * u4 = 0) (h3 : u2 * u2 + u4 * u4 = 1)
    (htr : 0 < a + d) (hdet : 0 < a * d - b * b) :
    polar2 (M2.mul ⟨u1, u2, u3, u4⟩ ⟨a, b, b, d⟩) = (⟨u1, u2, u3, u4⟩, ⟨a, b, b, d⟩) := by
  have hq : M2.mul (M2.transpose (M2.mul ⟨u1, u2, u3, u4⟩ ⟨a, b, b, d⟩)) (M2.mul ⟨u1, u2, u3, u4⟩ ⟨a, b, b, d⟩)
      = (⟨a * a + b * b, b * (a + d), b * (a + d), b * b + d * d⟩ : M2 ℝ) := by
    simp only [M2.mul, M2.transpose]; num_real
    apply M2.ext' <;> simp only
    · linear_combination (a * a) * h1 + (2 * a * b) * h2 + (b * b) * h3
    · linear_combination (a * b) * h1 + (a * d + b * b) * h2 + (b * d) * h3
    · linear_combination (a * b) * h1 + (a * d + b * b) * h2 + (b * d) * h3
    · linear_combination (b * b) * h1 + (2 * b * d) * h2 + (d * d) * h3
  have hdU : (u1 * u4 - u2 * u3) ^ 2 = 1 := by
    linear_combination (u2 * u2 + u4 * u4) * h1 - (u1 * u2 + u3 * u4) * h2 + h3
  have habsU : |u1 * u4 - u2 * u3| = 1 := by
    have h := abs_nonneg (u1 * u4 - u2 * u3)
    have hsq : |u1 * u4 - u2 * u3| ^ 2 = 1 := by rw [sq_abs]; exact hdU
    nlinarith [sq_nonneg (|u1 * u4 - u2 * u3| - 1), sq_nonneg (|u1 * u4 - u2 * u3| + 1)]
  have hd : |M2.det (M2.mul ⟨u1, u2, u3, u4⟩ ⟨a, b, b, d⟩)| = a * d - b * b := by
    have : M2.det (M2.mul ⟨u1, u2, u3, u4⟩ ⟨a, b, b, d⟩) = (u1 * u4 - u2 * u3) * (a * d - b * b) := by
      simp only [M2.mul, M2.det]; num_real; ring
    rw [this, abs_mul, habsU, one_mul, abs_of_pos hdet]
  rw [polar2_eq]
  simp only [hq, hd]
  have ht : √(a * a + b * b + (b * b + d * d) + 2 * (a * d - b * b)) = a + d := by
    rw [show a * a + b * b + (b * b + d * d) + 2 * (a * d - b * b) = (a + d) ^ 2 by ring]
    exact Real.sqrt_sq htr.le
  rw [ht]
  have hne : a + d ≠ 0 := htr.ne'
  have hp : (⟨(a * a + b * b + (a * d - b * b)) / (a + d), b * (a + d) / (a + d), b * (a + d) / (a + d),
      (b * b + d * d + (a * d - b * b)) / (a + d)⟩ : M2 ℝ) = ⟨a, b, b, d⟩ := by
    apply M2.ext' <;> simp only <;> field_simp <;> ring
  rw [hp]
  have hne2 : a * d - b * b ≠ 0 := hdet.ne'
  have hne3 : a * d - b ^ 2 ≠ 0 := by rw [pow_two]; exact hne2
  have hne4 : -b ^ 2 + a * d ≠ 0 := by rw [neg_add_eq_sub]; exact hne3
  refine Prod.ext ?_ rfl
  simp only [M2.mul, M2.inv, M2.det]; num_real
  apply M2.ext' <;> simp only <;> field_simp <;> ring

/-- rotation special case -/
theorem polar2_rot_spd (c s a b d : ℝ) (hcs : c ^ 2 + s ^ 2 = 1) (htr : 0 < a + d) (hdet : 0 < a * d - b * b) :
    polar2 (M2.mul ⟨c, s, -s, c⟩ ⟨a, b, b, d⟩) = (⟨c, s, -s, c⟩, ⟨a, b, b, d⟩) :=
  polar2_unique c s (-s) c a b d (by linear_combination hcs) (by ring) (by linear_combination hcs) htr hdet

theorem rotNeg_real (θ : ℝ) : rotNeg θ = ⟨Real.cos θ, Real.sin θ, -Real.sin θ, Real.cos θ⟩ := by
  simp only [rotNeg]; num_real

theorem aberrationMatrix_real (C10 C12 φ : ℝ) :
    aberrationMatrix C10 C12 φ = ⟨C10 + C12 * Real.cos (2 * φ), C12 * Real.sin (2 * φ),
      C12 * Real.sin (2 * φ), C10 - C12 * Real.cos (2 * φ)⟩ := by
  simp only [aberrationMatrix]; num_real

/-- positive-definite aberration matrix (C10 > |C12|): the polar factors of `R_{−θ}·A` are `(R_{−θ}, A)` -/
theorem polar2_rotNeg_pos (θ C10 C12 φ : ℝ) (h1 : C12 < C10) (h2 : -C10 < C12) :
    polar2 (M2.mul (rotNeg θ) (aberrationMatrix C10 C12 φ)) = (rotNeg θ, aberrationMatrix C10 C12 φ) := by
  rw [rotNeg_real, aberrationMatrix_real]
  have hcs := Real.cos_sq_add_sin_sq θ
  have hcs2 := Real.cos_sq_add_sin_sq (2 * φ)
  apply polar2_rot_spd _ _ _ _ _ hcs
  · linarith
  · have : (C10 + C12 * Real.cos (2 * φ)) * (C10 - C12 * Real.cos (2 * φ))
        - C12 * Real.sin (2 * φ) * (C12 * Real.sin (2 * φ)) = C10 ^ 2 - C12 ^ 2 := by
      linear_combination (-(C12 ^ 2)) * hcs2
    rw [this]; nlinarith

/-- negative-definite aberration matrix (C10 < −|C12|): the polar factors are `(−R_{−θ}, −A)` -/
theorem polar2_rotNeg_neg (θ C10 C12 φ : ℝ) (h1 : C10 < C12) (h2 : C12 < -C10) :
    polar2 (M2.mul (rotNeg θ) (aberrationMatrix C10 C12 φ)) =
      (M2.neg (rotNeg θ), M2.neg (aberrationMatrix C10 C12 φ)) := by
  rw [rotNeg_real, aberrationMatrix_real]
  have hcs := Real.cos_sq_add_sin_sq θ
  have hcs2 := Real.cos_sq_add_sin_sq (2 * φ)
  have hm : M2.mul (⟨Real.cos θ, Real.sin θ, -Real.sin θ, Real.cos θ⟩ : M2 ℝ)
        ⟨C10 + C12 * Real.cos (2 * φ), C12 * Real.sin (2 * φ), C12 * Real.sin (2 * φ), C10 - C12 * Real.cos (2 * φ)⟩
      = M2.mul ⟨-Real.cos θ, -Real.sin θ, -(-Real.sin θ), -Real.cos θ⟩
        ⟨-(C10 + C12 * Real.cos (2 * φ)), -(C12 * Real.sin (2 * φ)), -(C12 * Real.sin (2 * φ)),
          -(C10 - C12 * Real.cos (2 * φ))⟩ := by
    simp only [M2.mul]; num_real
    apply M2.ext' <;> simp only <;> ring
  rw [hm]
  have hneg1 : M2.neg (⟨Real.cos θ, Real.sin θ, -Real.sin θ, Real.cos θ⟩ : M2 ℝ)
      = ⟨-Real.cos θ, -Real.sin θ, -(-Real.sin θ), -Real.cos θ⟩ := by
    simp only [M2.neg]
  have hneg2 : M2.neg (⟨C10 + C12 * Real.cos (2 * φ), C12 * Real.sin (2 * φ), C12 * Real.sin (2 * φ),
        C10 - C12 * Real.cos (2 * φ)⟩ : M2 ℝ)
      = ⟨-(C10 + C12 * Real.cos (2 * φ)), -(C12 * Real.sin (2 * φ)), -(C12 * Real.sin (2 * φ)),
          -(C10 - C12 * Real.cos (2 * φ))⟩ := by
    simp only [M2.neg]
  rw [hneg1, hneg2]
  apply polar2_rot_spd
  · linear_combination hcs
  · linarith
  · have : -(C10 + C12 * Real.cos (2 * φ)) * -(C10 - C12 * Real.cos (2 * φ))
        - -(C12 * Real.sin (2 * φ)) * -(C12 * Real.sin (2 * φ)) = C10 ^ 2 - C12 ^ 2 := by
      linear_combination (-(C12 ^ 2)) * hcs2
    rw [this]; nlinarith

/-- **fit from the exact matrix**: polar decomposition + extraction return the generating values for
every |θ| < π/2, |C10| > C12 > 0, φ12 ∈ (−π/2, π/2] (both signs of C10). -/
theorem fit_of_matrix (θ C10 C12 φ : ℝ) (hθ1 : -Real.pi / 2 < θ) (hθ2 : θ < Real.pi / 2)
    (hC : 0 < C12) (hdef : C12 < |C10|) (h1 : -Real.pi / 2 < φ) (h2 : φ ≤ Real.pi / 2) :
    let up := polar2 (M2.mul (rotNeg θ) (aberrationMatrix C10 C12 φ))
    fitExtract up.1 up.2 = (C10, C12, φ, θ) := by
  intro up
  by_cases hpos : 0 ≤ C10
  · rw [abs_of_nonneg hpos] at hdef
    have : up = (rotNeg θ, aberrationMatrix C10 C12 φ) := polar2_rotNeg_pos θ C10 C12 φ hdef (by linarith)
    rw [this]
    exact fitExtract_rot_pos θ C10 C12 φ hθ1 hθ2 hC h1 h2
  · have hneg : C10 < 0 := not_le.mp hpos
    rw [abs_of_neg hneg] at hdef
    have : up = (M2.neg (rotNeg θ), M2.neg (aberrationMatrix C10 C12 φ)) :=
      polar2_rotNeg_neg θ C10 C12 φ (by linarith) hdef
    rw [this]
    exact fitExtract_rot_neg θ C10 C12 φ hθ1 hθ2 hC h1 h2

/-- see `Props.C12.shifts_linear` -/
theorem shifts_linear_lemma (α φ : ℝ) (c : String → ℝ) (hz : ∀ k ∈ POLAR_SYMBOLS.drop 3, c k = 0) :
    let A := aberrationMatrix (c "C10") (c "C12") (c "phi12")
    (aberration_surface_cartesian_gradients α φ c).1 / 2 / Real.pi = A.a * (α * Real.cos φ) + A.b * (α * Real.sin φ) ∧
    (aberration_surface_cartesian_gradients α φ c).2 / 2 / Real.pi = A.c * (α * Real.cos φ) + A.d * (α * Real.sin φ) := by
  have h_C21 := hz "C21" (by decide)
  have h_phi21 := hz "phi21" (by decide)
  have h_C23 := hz "C23" (by decide)
  have h_phi23 := hz "phi23" (by decide)
  have h_C30 := hz "C30" (by decide)
  have h_C32 := hz "C32" (by decide)
  have h_phi32 := hz "phi32" (by decide)
  have h_C34 := hz "C34" (by decide)
  have h_phi34 := hz "phi34" (by decide)
  have h_C41 := hz "C41" (by decide)
  have h_phi41 := hz "phi41" (by decide)
  have h_C43 := hz "C43" (by decide)
  have h_phi43 := hz "phi43" (by decide)
  have h_C45 := hz "C45" (by decide)
  have h_phi45 := hz "phi45" (by decide)
  have h_C50 := hz "C50" (by decide)
  have h_C52 := hz "C52" (by decide)
  have h_phi52 := hz "phi52" (by decide)
  have h_C54 := hz "C54" (by decide)
  have h_phi54 := hz "phi54" (by decide)
  have h_C56 := hz "C56" (by decide)
  have h_phi56 := hz "phi56" (by decide)
  have hpi : (2 : ℝ) * Real.pi ≠ 0 := by positivity
  have key1 : Real.cos φ * Real.cos (2 * (φ - c "phi12")) + Real.sin φ * Real.sin (2 * (φ - c "phi12"))
      = Real.cos (2 * c "phi12") * Real.cos φ + Real.sin (2 * c "phi12") * Real.sin φ := by
    rw [← Real.cos_sub, ← Real.cos_sub]; congr 1; ring
  have key2 : Real.sin φ * Real.cos (2 * (φ - c "phi12")) - Real.cos φ * Real.sin (2 * (φ - c "phi12"))
      = Real.sin (2 * c "phi12") * Real.cos φ - Real.cos (2 * c "phi12") * Real.sin φ := by
    rw [← Real.sin_sub, ← Real.sin_sub]; congr 1; ring
  simp only [aberrationMatrix]
  aberr_unfold
  num_real
  push_cast
  simp only [h_C21, h_phi21, h_C23, h_phi23, h_C30, h_C32, h_phi32, h_C34, h_phi34, h_C41, h_phi41, h_C43, h_phi43, h_C45, h_phi45, h_C50, h_C52, h_phi52, h_C54, h_phi54, h_C56, h_phi56, zero_mul, mul_zero, add_zero, sub_zero]
  constructor
  · rw [div_div, div_eq_iff hpi]
    linear_combination (2 * Real.pi * α * c "C12") * key1
  · rw [div_div, div_eq_iff hpi]
    linear_combination (2 * Real.pi * α * c "C12") * key2


/-- row vector times matrix: one row of `basis @ M` -/
def rowMul (b : ℝ × ℝ) (m : M2 ℝ) : ℝ × ℝ := (b.1 * m.a + b.2 * m.c, b.1 * m.b + b.2 * m.d)

/-- Σ over the rows of the basis -/
def rsum (l : List (ℝ × ℝ)) (f : ℝ × ℝ → ℝ) : ℝ := (l.map f).sum

theorem foldl_zip_map (l : List (ℝ × ℝ)) (f : ℝ × ℝ → ℝ × ℝ) (g : (ℝ × ℝ) × (ℝ × ℝ) → ℝ) (z : ℝ) :
    (l.zip (l.map f)).foldl (fun s p => s + g p) z = z + rsum l (fun b => g (b, f b)) := by
  induction l generalizing z with
  | nil => simp [rsum]
  | cons h t ih =>
    simp only [List.map_cons, List.zip_cons_cons, List.foldl_cons, ih, rsum, List.sum_cons]
    ring

theorem rsum_lin (l : List (ℝ × ℝ)) (u v w : ℝ × ℝ → ℝ) (α β : ℝ) (h : ∀ b, u b = α * v b + β * w b) :
    rsum l u = α * rsum l v + β * rsum l w := by
  induction l with
  | nil => simp [rsum]
  | cons hd t ih =>
    simp only [rsum, List.map_cons, List.sum_cons] at ih ⊢
    rw [ih, h hd]; ring

/-- Gram determinant of the 2-column design matrix -/
def gramDet (l : List (ℝ × ℝ)) : ℝ :=
  rsum l (fun b => b.1 * b.1) * rsum l (fun b => b.2 * b.2) - rsum l (fun b => b.1 * b.2) * rsum l (fun b => b.1 * b.2)

/-- **exact least squares**: if the shifts are exactly `basis @ M` and the Gram determinant is non-zero, the
normal equations return `M`. -/
theorem lstsq2_exact (basis : List (ℝ × ℝ)) (m : M2 ℝ) (hG : gramDet basis ≠ 0) :
    lstsq2 basis (basis.map (fun b => rowMul b m)) = m := by
  unfold lstsq2
  simp only [NumReal.add_eq, NumReal.mul_eq, NumReal.zero_eq]
  rw [foldl_zip_map basis (fun b => rowMul b m) (fun p => p.1.1 * p.1.1),
    foldl_zip_map basis (fun b => rowMul b m) (fun p => p.1.1 * p.1.2),
    foldl_zip_map basis (fun b => rowMul b m) (fun p => p.1.2 * p.1.2),
    foldl_zip_map basis (fun b => rowMul b m) (fun p => p.1.1 * p.2.1),
    foldl_zip_map basis (fun b => rowMul b m) (fun p => p.1.1 * p.2.2),
    foldl_zip_map basis (fun b => rowMul b m) (fun p => p.1.2 * p.2.1),
    foldl_zip_map basis (fun b => rowMul b m) (fun p => p.1.2 * p.2.2)]
  simp only [zero_add, rowMul]
  set g11 := rsum basis (fun b => b.1 * b.1) with hg11
  set g12 := rsum basis (fun b => b.1 * b.2) with hg12
  set g22 := rsum basis (fun b => b.2 * b.2) with hg22
  have h11 : rsum basis (fun b => b.1 * (b.1 * m.a + b.2 * m.c)) = m.a * g11 + m.c * g12 :=
    rsum_lin _ _ _ _ _ _ (fun b => by ring)
  have h12 : rsum basis (fun b => b.1 * (b.1 * m.b + b.2 * m.d)) = m.b * g11 + m.d * g12 :=
    rsum_lin _ _ _ _ _ _ (fun b => by ring)
  have h21 : rsum basis (fun b => b.2 * (b.1 * m.a + b.2 * m.c)) = m.a * g12 + m.c * g22 :=
    rsum_lin _ _ _ _ _ _ (fun b => by ring)
  have h22 : rsum basis (fun b => b.2 * (b.1 * m.b + b.2 * m.d)) = m.b * g12 + m.d * g22 :=
    rsum_lin _ _ _ _ _ _ (fun b => by ring)
  rw [h11, h12, h21, h22]
  have hd : g11 * g22 - g12 * g12 ≠ 0 := hG
  have hd2 : g22 * g11 - g12 ^ 2 ≠ 0 := by convert hd using 1; ring
  have hd3 : g11 * g22 - g12 ^ 2 ≠ 0 := by convert hd using 1; ring
  simp only [M2.mul, M2.inv, M2.det]; num_real
  apply M2.ext' <;> simp only <;> field_simp <;> ring


/-- the 2-column design matrix has full column rank -/
def FullRank (l : List (ℝ × ℝ)) : Prop :=
  ∀ u v : ℝ, (∀ b ∈ l, u * b.1 + v * b.2 = 0) → u = 0 ∧ v = 0

theorem rsum_sq_eq_zero (l : List (ℝ × ℝ)) (f : ℝ × ℝ → ℝ) (h : rsum l (fun b => f b * f b) = 0) :
    ∀ b ∈ l, f b = 0 := by
  induction l with
  | nil => intro b hb; cases hb
  | cons hd t ih =>
    simp only [rsum, List.map_cons, List.sum_cons] at h ih
    have h1 : 0 ≤ f hd * f hd := mul_self_nonneg _
    have h2 : 0 ≤ (t.map (fun b => f b * f b)).sum :=
      List.sum_nonneg (by intro x hx; simp only [List.mem_map] at hx; obtain ⟨b, _, rfl⟩ := hx; exact mul_self_nonneg _)
    intro b hb
    rcases List.mem_cons.mp hb with rfl | hb
    · exact mul_self_eq_zero.mp (by linarith)
    · exact ih (by linarith) b hb

/-- **full column rank ⇒ the normal equations are uniquely solvable** (Gram determinant ≠ 0) -/
theorem gramDet_ne_zero_of_fullRank (l : List (ℝ × ℝ)) (h : FullRank l) : gramDet l ≠ 0 := by
  intro hdet
  unfold gramDet at hdet
  set g11 := rsum l (fun b => b.1 * b.1) with hg11
  set g12 := rsum l (fun b => b.1 * b.2) with hg12
  set g22 := rsum l (fun b => b.2 * b.2) with hg22
  by_cases h22 : g22 = 0
  · -- all second components vanish: (0, 1) annihilates every row
    have hy := rsum_sq_eq_zero l (fun b => b.2) (by rw [← hg22]; exact h22)
    have := h 0 1 (fun b hb => by rw [hy b hb]; ring)
    exact one_ne_zero this.2
  · -- (g22, −g12) annihilates every row
    have hq : rsum l (fun b => (g22 * b.1 + -g12 * b.2) * (g22 * b.1 + -g12 * b.2)) = 0 := by
      have e1 : rsum l (fun b => (g22 * b.1 + -g12 * b.2) * (g22 * b.1 + -g12 * b.2))
          = (g22 * g22) * g11 + 1 * rsum l (fun b => -2 * g22 * g12 * (b.1 * b.2) + g12 * g12 * (b.2 * b.2)) :=
        rsum_lin _ _ _ _ _ _ (fun b => by ring)
      have e2 : rsum l (fun b => -2 * g22 * g12 * (b.1 * b.2) + g12 * g12 * (b.2 * b.2))
          = (-2 * g22 * g12) * g12 + (g12 * g12) * g22 := rsum_lin _ _ _ _ _ _ (fun b => by ring)
      rw [e1, e2]
      linear_combination g22 * hdet
    have hz := rsum_sq_eq_zero l (fun b => g22 * b.1 + -g12 * b.2) hq
    exact h22 (h g22 (-g12) hz).1

theorem norm_mk' (a b : ℝ) : √(a * a + b * b) = ‖(⟨a, b⟩ : ℂ)‖ := by
  rw [Complex.norm_def, Complex.normSq_mk]

/-- **lateral shifts are `basis @ (R_{−θ}·A)`**: `_return_lateral_shifts` at a detector pixel (kx, ky), grid
rotation θ, quadratic coefficient set, equals the row (kx·λ, ky·λ) times `R_{−θ}·A(C10, C12, φ12)`. -/
theorem lateralShift_eq (kx ky lam θ : ℝ) (c : String → ℝ) (hz : ∀ k ∈ POLAR_SYMBOLS.drop 3, c k = 0) :
    lateralShift kx ky lam (some θ) c =
      rowMul (kx * lam, ky * lam) (M2.mul (rotNeg θ) (aberrationMatrix (c "C10") (c "C12") (c "phi12"))) := by
  have hs := shifts_linear_lemma
    (√((rotateGrid kx ky θ).1 * (rotateGrid kx ky θ).1 + (rotateGrid kx ky θ).2 * (rotateGrid kx ky θ).2) * lam)
    (Complex.arg ⟨(rotateGrid kx ky θ).1, (rotateGrid kx ky θ).2⟩) c hz
  simp only at hs
  unfold lateralShift
  simp only [polar_coordinates, atan2_eq]
  num_real
  rw [Prod.ext_iff]
  simp only
  rw [hs.1, hs.2, rotNeg_real, aberrationMatrix_real]
  have hx : √((rotateGrid kx ky θ).1 * (rotateGrid kx ky θ).1 + (rotateGrid kx ky θ).2 * (rotateGrid kx ky θ).2) * lam
      * Real.cos (Complex.arg ⟨(rotateGrid kx ky θ).1, (rotateGrid kx ky θ).2⟩) = lam * (rotateGrid kx ky θ).1 := by
    rw [norm_mk', mul_right_comm, Complex.norm_mul_cos_arg]; ring
  have hy : √((rotateGrid kx ky θ).1 * (rotateGrid kx ky θ).1 + (rotateGrid kx ky θ).2 * (rotateGrid kx ky θ).2) * lam
      * Real.sin (Complex.arg ⟨(rotateGrid kx ky θ).1, (rotateGrid kx ky θ).2⟩) = lam * (rotateGrid kx ky θ).2 := by
    rw [norm_mk', mul_right_comm, Complex.norm_mul_sin_arg]; ring
  rw [hx, hy]
  simp only [rotateGrid, passively_rotate_grid, rowMul, M2.mul]
  num_real
  simp only [Real.cos_neg, Real.sin_neg]
  constructor <;> ring

theorem lateralShift_none (kx ky lam : ℝ) (c : String → ℝ) :
    lateralShift kx ky lam none c = lateralShift kx ky lam (some 0) c := by
  unfold lateralShift rotateGrid
  simp only [passively_rotate_grid]
  num_real
  simp

/-- **fit round trip, end to end on the model**: for every set of bright-field pixels whose basis
`(kx·λ, ky·λ)` has full column rank, every grid rotation |θ| < π/2 (or none) and every quadratic coefficient
set with |C10| > C12 > 0, φ12 ∈ (−π/2, π/2], fitting the shifts predicted by `_return_lateral_shifts`
returns exactly (C10, C12, φ12, θ). -/
theorem fit_roundtrip_lemma (pix : List (ℝ × ℝ)) (lam : ℝ) (theta : Option ℝ) (c : String → ℝ)
    (hz : ∀ k ∈ POLAR_SYMBOLS.drop 3, c k = 0)
    (hrank : FullRank (pix.map fun k => (k.1 * lam, k.2 * lam)))
    (hθ1 : -Real.pi / 2 < theta.getD 0) (hθ2 : theta.getD 0 < Real.pi / 2)
    (hC : 0 < c "C12") (hdef : c "C12" < |c "C10"|)
    (h1 : -Real.pi / 2 < c "phi12") (h2 : c "phi12" ≤ Real.pi / 2) :
    fit (pix.map fun k => (k.1 * lam, k.2 * lam)) (pix.map fun k => lateralShift k.1 k.2 lam theta c)
      = (c "C10", c "C12", c "phi12", theta.getD 0) := by
  have hsh : (pix.map fun k => lateralShift k.1 k.2 lam theta c) =
      (pix.map fun k => (k.1 * lam, k.2 * lam)).map (fun b =>
        rowMul b (M2.mul (rotNeg (theta.getD 0)) (aberrationMatrix (c "C10") (c "C12") (c "phi12")))) := by
    rw [List.map_map]
    apply List.map_congr_left
    intro k _
    cases theta with
    | none => simp only [Function.comp, Option.getD_none]; rw [lateralShift_none, lateralShift_eq _ _ _ _ _ hz]
    | some t => simp only [Function.comp, Option.getD_some]; rw [lateralShift_eq _ _ _ _ _ hz]
  unfold fit
  rw [hsh, lstsq2_exact _ _ (gramDet_ne_zero_of_fullRank _ hrank)]
  exact fit_of_matrix _ _ _ _ hθ1 hθ2 hC hdef h1 h2

def I2 : M2 ℝ := ⟨1, 0, 0, 1⟩
def M2.tr (x : M2 ℝ) : ℝ := x.a + x.d

theorem M2.mul_assoc' (x y z : M2 ℝ) : M2.mul (M2.mul x y) z = M2.mul x (M2.mul y z) := by
  simp only [M2.mul]; num_real; apply M2.ext' <;> simp only <;> ring
theorem M2.transpose_mul (x y : M2 ℝ) : M2.transpose (M2.mul x y) = M2.mul (M2.transpose y) (M2.transpose x) := by
  simp only [M2.mul, M2.transpose]; num_real; apply M2.ext' <;> simp only <;> ring
theorem M2.transpose_transpose (x : M2 ℝ) : M2.transpose (M2.transpose x) = x := by
  cases x; rfl
theorem M2.one_mul' (x : M2 ℝ) : M2.mul I2 x = x := by
  simp only [M2.mul, I2]; num_real; apply M2.ext' <;> simp
theorem M2.mul_one' (x : M2 ℝ) : M2.mul x I2 = x := by
  simp only [M2.mul, I2]; num_real; apply M2.ext' <;> simp
theorem M2.transpose_diag (s : ℝ × ℝ) : M2.transpose (M2.diag s) = M2.diag s := by
  simp only [M2.transpose, M2.diag]
theorem M2.det_mul (x y : M2 ℝ) : M2.det (M2.mul x y) = M2.det x * M2.det y := by
  simp only [M2.mul, M2.det]; num_real; ring
theorem M2.det_transpose (x : M2 ℝ) : M2.det (M2.transpose x) = M2.det x := by
  simp only [M2.transpose, M2.det]; num_real; ring
theorem M2.det_diag (s : ℝ × ℝ) : M2.det (M2.diag s) = s.1 * s.2 := by
  simp only [M2.diag, M2.det]; num_real; ring
theorem M2.det_I2 : M2.det I2 = 1 := by simp only [I2, M2.det]; num_real; ring
theorem M2.tr_mul_comm (x y : M2 ℝ) : M2.tr (M2.mul x y) = M2.tr (M2.mul y x) := by
  simp only [M2.mul, M2.tr]; num_real; ring
theorem M2.tr_diag (s : ℝ × ℝ) : M2.tr (M2.diag s) = s.1 + s.2 := by
  simp only [M2.diag, M2.tr]

/-- what `torch.linalg.svd` is assumed to return for a non-singular real 2×2 matrix `m`:
`m = U·diag(S)·Vh`, `U` and `Vh` orthogonal, singular values positive -/
def IsSVD (svd : M2 ℝ → M2 ℝ × (ℝ × ℝ) × M2 ℝ) (m : M2 ℝ) : Prop :=
  M2.mul (M2.mul (svd m).1 (M2.diag (svd m).2.1)) (svd m).2.2 = m ∧
  M2.mul (M2.transpose (svd m).1) (svd m).1 = I2 ∧
  M2.mul (M2.transpose (svd m).2.2) (svd m).2.2 = I2 ∧
  M2.mul (svd m).2.2 (M2.transpose (svd m).2.2) = I2 ∧
  0 < (svd m).2.1.1 ∧ 0 < (svd m).2.1.2

/-- **the translated `_torch_polar` is the polar decomposition the model uses**: for ANY svd routine that meets
its specification at `m`, the pair the source computes (`U @ Vh`, `Vh.T @ diag(S) @ Vh` — the RIGHT factor)
equals the closed form `polar2 m`. -/
theorem torch_polar_eq_polar2 (svd : M2 ℝ → M2 ℝ × (ℝ × ℝ) × M2 ℝ) (m : M2 ℝ) (h : IsSVD svd m) :
    torch_polar svd m = polar2 m := by
  obtain ⟨hm, hU, hV, hV', hs1, hs2⟩ := h
  simp only [torch_polar]
  generalize (svd m).1 = U at *
  generalize (svd m).2.1 = S at *
  generalize (svd m).2.2 = V at *
  set u := M2.mul U V with hu
  set p := M2.mul (M2.mul (M2.transpose V) (M2.diag S)) V with hp
  have hup : M2.mul u p = m := by
    rw [hu, hp, M2.mul_assoc' U V, ← M2.mul_assoc' V _ V, ← M2.mul_assoc' V _ (M2.diag S), hV', M2.one_mul',
      ← M2.mul_assoc' U, hm]
  have huo : M2.mul (M2.transpose u) u = I2 := by
    rw [hu, M2.transpose_mul, M2.mul_assoc' _ _ (M2.mul U V), ← M2.mul_assoc' _ U V, hU, M2.one_mul', hV]
  have hps : M2.transpose p = p := by
    rw [hp, M2.transpose_mul, M2.transpose_mul, M2.transpose_diag, M2.transpose_transpose, M2.mul_assoc']
  have hdV : M2.det V * M2.det V = 1 := by
    have := congrArg M2.det hV
    rwa [M2.det_mul, M2.det_transpose, M2.det_I2] at this
  have hdet : M2.det p = S.1 * S.2 := by
    rw [hp, M2.det_mul, M2.det_mul, M2.det_transpose, M2.det_diag]
    linear_combination (S.1 * S.2) * hdV
  have htr : M2.tr p = S.1 + S.2 := by
    rw [hp, M2.tr_mul_comm, ← M2.mul_assoc', hV', M2.one_mul', M2.tr_diag]
  have hbc : p.c = p.b := by
    have := congrArg M2.b hps
    simpa [M2.transpose] using this
  have hpe : p = ⟨p.a, p.b, p.b, p.d⟩ := by
    apply M2.ext' <;> simp only [hbc]
  have hue : u = ⟨u.a, u.b, u.c, u.d⟩ := by cases u; rfl
  have h1 : u.a * u.a + u.c * u.c = 1 := by
    have := congrArg M2.a huo; simpa [M2.mul, M2.transpose, I2] using this
  have h2 : u.a * u.b + u.c * u.d = 0 := by
    have := congrArg M2.b huo; simpa [M2.mul, M2.transpose, I2] using this
  have h3 : u.b * u.b + u.d * u.d = 1 := by
    have := congrArg M2.d huo; simpa [M2.mul, M2.transpose, I2] using this
  have htr' : 0 < p.a + p.d := by
    have : p.a + p.d = S.1 + S.2 := htr
    rw [this]; linarith
  have hdet' : 0 < p.a * p.d - p.b * p.b := by
    have : p.a * p.d - p.b * p.c = S.1 * S.2 := by
      have h := hdet; simp only [M2.det, NumReal.mul_eq, NumReal.sub_eq] at h; exact h
    rw [hbc] at this; rw [this]; positivity
  rw [← hup]
  conv_rhs => rw [hue, hpe]
  rw [polar2_unique u.a u.b u.c u.d p.a p.b p.d h1 h2 h3 htr' hdet', ← hue, ← hpe]


theorem det_rotNeg_mul (θ C10 C12 φ : ℝ) :
    M2.det (M2.mul (rotNeg θ) (aberrationMatrix C10 C12 φ)) = C10 ^ 2 - C12 ^ 2 := by
  rw [M2.det_mul, rotNeg_real, aberrationMatrix_real]
  simp only [M2.det]; num_real
  linear_combination (C10 ^ 2 - C12 ^ 2 * (Real.cos (2 * φ) ^ 2 + Real.sin (2 * φ) ^ 2)) * Real.cos_sq_add_sin_sq θ
    + (-(C12 ^ 2)) * Real.cos_sq_add_sin_sq (2 * φ)

/-- **fit round trip with the translated `_torch_polar`** (any svd routine meeting its specification) -/
theorem fit_roundtrip_svd_lemma (svd : M2 ℝ → M2 ℝ × (ℝ × ℝ) × M2 ℝ) (hsvd : ∀ m, M2.det m ≠ 0 → IsSVD svd m)
    (pix : List (ℝ × ℝ)) (lam : ℝ) (theta : Option ℝ) (c : String → ℝ)
    (hz : ∀ k ∈ POLAR_SYMBOLS.drop 3, c k = 0)
    (hrank : FullRank (pix.map fun k => (k.1 * lam, k.2 * lam)))
    (hθ1 : -Real.pi / 2 < theta.getD 0) (hθ2 : theta.getD 0 < Real.pi / 2)
    (hC : 0 < c "C12") (hdef : c "C12" < |c "C10"|)
    (h1 : -Real.pi / 2 < c "phi12") (h2 : c "phi12" ≤ Real.pi / 2) :
    fitTranslated svd (pix.map fun k => (k.1 * lam, k.2 * lam)) (pix.map fun k => lateralShift k.1 k.2 lam theta c)
      = (c "C10", c "C12", c "phi12", theta.getD 0) := by
  have hsh : (pix.map fun k => lateralShift k.1 k.2 lam theta c) =
      (pix.map fun k => (k.1 * lam, k.2 * lam)).map (fun b =>
        rowMul b (M2.mul (rotNeg (theta.getD 0)) (aberrationMatrix (c "C10") (c "C12") (c "phi12")))) := by
    rw [List.map_map]
    apply List.map_congr_left
    intro k _
    cases theta with
    | none => simp only [Function.comp, Option.getD_none]; rw [lateralShift_none, lateralShift_eq _ _ _ _ _ hz]
    | some t => simp only [Function.comp, Option.getD_some]; rw [lateralShift_eq _ _ _ _ _ hz]
  unfold fitTranslated
  rw [hsh, lstsq2_exact _ _ (gramDet_ne_zero_of_fullRank _ hrank)]
  have hdet : M2.det (M2.mul (rotNeg (theta.getD 0)) (aberrationMatrix (c "C10") (c "C12") (c "phi12"))) ≠ 0 := by
    rw [det_rotNeg_mul]
    have : (c "C12") ^ 2 < (c "C10") ^ 2 := by
      rw [← sq_abs (c "C10")]; exact pow_lt_pow_left₀ hdef hC.le (by norm_num)
    linarith
  rw [torch_polar_eq_polar2 svd _ (hsvd _ hdet)]
  exact fit_of_matrix _ _ _ _ hθ1 hθ2 hC hdef h1 h2

end QuantemModel.Aberration
