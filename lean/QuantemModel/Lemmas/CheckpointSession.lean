/-
Helper lemmas for the call-level session model (Model/CheckpointSession.lean): every stage of a `reconstruct` call —
also the ones that raise part-way — keeps every optimizer bound to the live parameters.
-/
import QuantemModel.Lemmas.Checkpoint
import QuantemModel.Model.CheckpointSession
import Mathlib.Logic.Function.Iterate

namespace QuantemModel.Checkpoint

theorem iterN_eq {α : Type} (f : α → α) : ∀ (n : Nat) (a : α), iterN f n a = f^[n] a
  | 0, _ => rfl
  | n + 1, a => by simp [iterN, iterN_eq f n, Function.iterate_succ_apply]

/-! ### one model -/

/-- a model a checkpoint can hold: optimizer (if any) bound to the live parameters, which exist -/
def ModelSt.ok {θ μ σ : Type} (m : ModelSt θ μ σ) : Prop := m.wf ∧ m.params ≠ []

theorem ok_of_same {θ μ σ : Type} {m m' : ModelSt θ μ σ} (h : m.ok) (hp : m'.params = m.params) (ho : m'.opt = m.opt) : m'.ok := by
  refine ⟨?_, by rw [hp]; exact h.2⟩
  intro o ho'
  rw [ho] at ho'
  have := h.1 o ho'
  rw [hp]; exact this

theorem ok_no_opt {θ μ σ : Type} {m : ModelSt θ μ σ} (hp : m.params ≠ []) (ho : m.opt = none) : m.ok :=
  ⟨(by intro o h; rw [ho] at h; cases h), hp⟩

theorem ok_fresh_opt {θ μ σ : Type} {m : ModelSt θ μ σ} (hp : m.params ≠ []) (lr hyper : Nat)
    (ho : m.opt = some { params := m.params.map (·.1), state := [], lr := lr, hyper := hyper }) : m.ok := by
  refine ⟨?_, hp⟩
  intro o h
  rw [ho] at h
  cases h
  exact ⟨rfl, by simpa using hp, by simp, by simp⟩

/-- a successful `set_optimizer` leaves a consistently bound model WHATEVER the optimizer was bound to before -/
theorem setOptimizer_ok_of_success {θ μ σ : Type} (m : ModelSt θ μ σ) (hp : m.params ≠ []) (h : (setOptimizer m).2 = false) :
    (setOptimizer m).1.ok := by
  unfold setOptimizer at h ⊢
  cases hc : m.optCfg with
  | none => exact ok_no_opt (by simpa using hp) rfl
  | some c =>
      simp only [hc] at h ⊢
      cases hk : c.kind with
      | none_ => simp only [hk]; exact ok_no_opt (by simpa [removeOptimizer] using hp) rfl
      | unknown => simp [hk] at h
      | badkw => simp [hk] at h
      | ok => simp only [hk]; exact ok_fresh_opt (by simpa using hp) c.lr c.hyper rfl

theorem setOptimizer_params {θ μ σ : Type} (m : ModelSt θ μ σ) : (setOptimizer m).1.params = m.params := by
  unfold setOptimizer
  cases m.optCfg with
  | none => rfl
  | some c => simp only; cases hk : c.kind <;> simp [removeOptimizer]

/-- … and a rejected one leaves the model as it was -/
theorem setOptimizer_ok {θ μ σ : Type} (m : ModelSt θ μ σ) (h : m.ok) : (setOptimizer m).1.ok := by
  cases hr : (setOptimizer m).2 with
  | false => exact setOptimizer_ok_of_success m h.2 hr
  | true =>
      have : (setOptimizer m).1 = m := by
        unfold setOptimizer at hr ⊢
        cases hc : m.optCfg with
        | none => simp [hc] at hr
        | some c =>
            simp only [hc] at hr ⊢
            cases hk : c.kind <;> simp [hk] at hr ⊢
      rw [this]; exact h

theorem buildSched_params {θ μ σ : Type} (mk : Nat → Nat → σ × Nat) (m : ModelSt θ μ σ) : (buildSched mk m).params = m.params := by
  unfold buildSched
  split <;> rfl

theorem buildSched_ok {θ μ σ : Type} (mk : Nat → Nat → σ × Nat) (m : ModelSt θ μ σ) (h : m.ok) : (buildSched mk m).ok := by
  unfold buildSched
  split
  · rename_i code o hs ho
    refine ⟨?_, h.2⟩
    intro o' ho'
    simp only [Option.some.injEq] at ho'
    subst ho'
    exact h.1 o ho
  · exact ok_of_same h rfl rfl

theorem resetOptimizer_params {θ μ σ : Type} (mk : Nat → Nat → σ × Nat) (m : ModelSt θ μ σ) :
    (resetOptimizer mk m).1.params = m.params := by
  unfold resetOptimizer
  by_cases h : (setOptimizer m).2 = true
  · simp [h, setOptimizer_params]
  · simp [h, buildSched_params, setOptimizer_params]

theorem resetOptimizer_ok_of_success {θ μ σ : Type} (mk : Nat → Nat → σ × Nat) (m : ModelSt θ μ σ) (hp : m.params ≠ [])
    (h : (resetOptimizer mk m).2 = false) : (resetOptimizer mk m).1.ok := by
  unfold resetOptimizer at h ⊢
  by_cases hs : (setOptimizer m).2 = true
  · simp [hs] at h
  · have hs' : (setOptimizer m).2 = false := by simpa using hs
    simp only [hs', Bool.false_eq_true, if_false]
    exact buildSched_ok mk _ (setOptimizer_ok_of_success m hp hs')

/-! ### re-binding makes any optimizer consistent -/

theorem target_mem (cur old : List PId) (k k' : PId) (h : target cur old k = some k') : k' ∈ cur := by
  unfold target at h
  by_cases hc : cur.contains k = true
  · simp only [hc, if_true, Option.some.injEq] at h; subst h; simpa using hc
  · simp only [hc, Bool.false_eq_true, if_false] at h
    cases hi : idxOf k old with
    | none => simp [hi] at h
    | some i =>
        simp only [hi] at h
        exact List.mem_of_getElem? h

theorem rekey_keys {μ : Type} (cur old : List PId) :
    ∀ (st acc : List (PId × μ)), (acc.map (·.1)).Nodup → (∀ k ∈ acc.map (·.1), k ∈ cur) →
      ((rekey cur old st acc).map (·.1)).Nodup ∧ ∀ k ∈ (rekey cur old st acc).map (·.1), k ∈ cur
  | [], acc, hnd, hin => by rw [rekey]; exact ⟨hnd, hin⟩
  | (k, m) :: rest, acc, hnd, hin => by
      rw [rekey]
      cases ht : target cur old k with
      | none => exact rekey_keys cur old rest acc hnd hin
      | some k' =>
          simp only
          apply rekey_keys cur old rest (setKey k' m acc) (setKey_nodup k' m acc hnd)
          intro a ha
          rcases setKey_mem_keys k' m acc a ha with h1 | h1
          · exact hin a h1
          · subst h1; exact target_mem cur old k a ht

/-- `reconnect_optimizer_to_parameters` binds ANY optimizer to the live parameters (state entries follow their tensor,
else their position; the rest is dropped) -/
theorem toModel_reconnect_ok {θ μ σ : Type} (m : ModelSt θ μ σ) (hp : m.params ≠ []) : (toModel reconnect m).ok := by
  unfold toModel
  cases ho : m.opt with
  | none => exact ok_no_opt hp ho
  | some o =>
      have he : (m.params.map (·.1)).isEmpty = false := by cases hm : m.params <;> simp_all
      simp only [reconnect, he, Bool.false_eq_true, if_false]
      refine ⟨?_, hp⟩
      intro o' ho'
      simp only [Option.some.injEq] at ho'
      subst ho'
      have hk := rekey_keys (m.params.map (·.1)) o.params o.state [] (by simp) (by simp)
      exact ⟨rfl, by simpa using hp, hk.1, hk.2⟩

theorem toModel_reconnect_params {θ μ σ : Type} (m : ModelSt θ μ σ) : (toModel reconnect m).params = m.params := by
  unfold toModel
  split
  · rfl
  · split <;> rfl

/-! ### the three models -/

theorem swf_iff {θ μ σ : Type} (r : Recon θ μ σ) : r.swf ↔ r.object.ok ∧ r.probe.ok ∧ r.dataset.ok := by
  unfold Recon.swf Recon.wf Recon.nonempty ModelSt.ok
  constructor
  · rintro ⟨⟨a, b, c⟩, d, e, f⟩; exact ⟨⟨a, d⟩, ⟨b, e⟩, ⟨c, f⟩⟩
  · rintro ⟨⟨a, d⟩, ⟨b, e⟩, ⟨c, f⟩⟩; exact ⟨⟨a, b, c⟩, d, e, f⟩

theorem get_ok {θ μ σ : Type} {r : Recon θ μ σ} (h : r.swf) (k : Key) : (r.get k).ok := by
  rw [swf_iff] at h
  cases k
  · exact h.1
  · exact h.2.1
  · exact h.2.2

theorem set_swf {θ μ σ : Type} {r : Recon θ μ σ} (h : r.swf) (k : Key) {m : ModelSt θ μ σ} (hm : m.ok) : (r.set k m).swf := by
  rw [swf_iff] at h ⊢
  cases k
  · exact ⟨hm, h.2.1, h.2.2⟩
  · exact ⟨h.1, hm, h.2.2⟩
  · exact ⟨h.1, h.2.1, hm⟩

theorem overKeys_swf {θ μ σ : Type} (f : ModelSt θ μ σ → ModelSt θ μ σ × Bool) (hf : ∀ m, m.ok → (f m).1.ok) :
    ∀ (ks : List Key) (r : Recon θ μ σ), r.swf → (overKeys f ks r).1.swf
  | [], _, h => h
  | k :: ks, r, h => by
      unfold overKeys
      have hs := set_swf h k (hf _ (get_ok h k))
      by_cases hx : (f (r.get k)).2 = true
      · simp only [hx, if_true]; exact hs
      · simp only [hx, Bool.false_eq_true, if_false]; exact overKeys_swf f hf ks _ hs

theorem andThen_pres {α : Type} (P : α → Prop) (x : α × Bool) (g : α → α × Bool) (hx : P x.1) (hg : ∀ a, P a → P (g a).1) :
    P (andThen x g).1 := by
  unfold andThen
  by_cases h : x.2 = true
  · simp only [h, if_true]; exact hx
  · simp only [h, Bool.false_eq_true, if_false]; exact hg _ hx

/-! ### `reset_recon` -/

theorem renew_ne_nil {θ : Type} (b : Nat) : ∀ (ps : List (PId × θ)) (xs : List θ) (keep : List Bool), ps ≠ [] → renew b ps xs keep ≠ []
  | [], _, _, h => absurd rfl h
  | (_, _) :: _, _, _, _ => by simp [renew]

theorem nonempty_baseReset {θ μ σ : Type} (dflt : List (String × Nat)) (r : Recon θ μ σ) (h : r.nonempty) :
    (baseReset dflt r).nonempty := by
  obtain ⟨a, b, c⟩ := h
  exact ⟨renew_ne_nil _ _ _ _ a, renew_ne_nil _ _ _ _ b, renew_ne_nil _ _ _ _ c⟩

/-- over the models in `ks`: if nothing raised, every model in `ks` went through a successful `reset_optimizer` -/
theorem overKeys_reset_success {θ μ σ : Type} (mk : Nat → Nat → σ × Nat) :
    ∀ (ks : List Key) (r : Recon θ μ σ), r.nonempty → (overKeys (resetOptimizer mk) ks r).2 = false →
      (overKeys (resetOptimizer mk) ks r).1.nonempty ∧
      (∀ k, k ∈ ks → ((overKeys (resetOptimizer mk) ks r).1.get k).ok) ∧
      (∀ k, k ∉ ks → (overKeys (resetOptimizer mk) ks r).1.get k = r.get k)
  | [], r, hn, _ => ⟨hn, by simp, fun _ _ => rfl⟩
  | k :: ks, r, hn, h => by
      unfold overKeys at h ⊢
      by_cases hx : (resetOptimizer mk (r.get k)).2 = true
      · simp [hx] at h
      · have hx' : (resetOptimizer mk (r.get k)).2 = false := by simpa using hx
        simp only [hx', Bool.false_eq_true, if_false] at h ⊢
        have hk : (r.get k).params ≠ [] := by
          obtain ⟨a, b, c⟩ := hn
          cases k <;> assumption
        have hm := resetOptimizer_ok_of_success mk (r.get k) hk hx'
        have hn' : (r.set k (resetOptimizer mk (r.get k)).1).nonempty := by
          obtain ⟨a, b, c⟩ := hn
          cases k
          · exact ⟨hm.2, b, c⟩
          · exact ⟨a, hm.2, c⟩
          · exact ⟨a, b, hm.2⟩
        have ih := overKeys_reset_success mk ks _ hn' h
        refine ⟨ih.1, ?_, ?_⟩
        · intro k' hk'
          by_cases hin : k' ∈ ks
          · exact ih.2.1 k' hin
          · rw [ih.2.2 k' hin]
            have : k' = k := by simpa [hin] using hk'
            subst this
            cases k' <;> exact hm
        · intro k' hk'
          have h1 : k' ≠ k := fun e => hk' (by simp [e])
          have h2 : k' ∉ ks := fun e => hk' (by simp [e])
          rw [ih.2.2 k' h2]
          cases k <;> cases k' <;> first | rfl | exact absurd rfl h1

theorem overKeys_nonempty {θ μ σ : Type} (f : ModelSt θ μ σ → ModelSt θ μ σ × Bool) (hf : ∀ m, (f m).1.params = m.params) :
    ∀ (ks : List Key) (r : Recon θ μ σ), r.nonempty → (overKeys f ks r).1.nonempty
  | [], _, h => h
  | k :: ks, r, h => by
      unfold overKeys
      have hs : (r.set k (f (r.get k)).1).nonempty := by
        obtain ⟨a, b, c⟩ := h
        cases k
        · exact ⟨by show (f r.object).1.params ≠ []; rw [hf]; exact a, b, c⟩
        · exact ⟨a, by show (f r.probe).1.params ≠ []; rw [hf]; exact b, c⟩
        · exact ⟨a, b, by show (f r.dataset).1.params ≠ []; rw [hf]; exact c⟩
      by_cases hx : (f (r.get k)).2 = true
      · simp only [hx, if_true]; exact hs
      · simp only [hx, Bool.false_eq_true, if_false]; exact overKeys_nonempty f hf ks _ hs

theorem toDevice_reconnect_swf {θ μ σ : Type} (r : Recon θ μ σ) (h : r.nonempty) : (toDevice reconnect r).swf := by
  rw [swf_iff]
  obtain ⟨a, b, c⟩ := h
  exact ⟨toModel_reconnect_ok _ a, toModel_reconnect_ok _ b, toModel_reconnect_ok _ c⟩

/-- **`reset_recon` is exception safe**: whether or not rebuilding an optimizer is rejected, and whatever the
optimizers were bound to before, afterwards every optimizer is bound to the live parameters -/
theorem resetRecon_swf {θ μ σ : Type} (mk : Nat → Nat → σ × Nat) (dflt : List (String × Nat)) (r : Recon θ μ σ)
    (h : r.nonempty) : (resetRecon mk dflt r).1.swf := by
  unfold resetRecon
  have hb := nonempty_baseReset dflt r h
  by_cases hx : (overKeys (resetOptimizer mk) allKeys (baseReset dflt r)).2 = true
  · simp only [hx, if_true]
    exact toDevice_reconnect_swf _ (overKeys_nonempty _ (resetOptimizer_params mk) _ _ hb)
  · have hx' : (overKeys (resetOptimizer mk) allKeys (baseReset dflt r)).2 = false := by simpa using hx
    simp only [hx', Bool.false_eq_true, if_false]
    have hs := overKeys_reset_success mk allKeys _ hb hx'
    rw [swf_iff]
    exact ⟨hs.2.1 .object (by simp [allKeys]), hs.2.1 .probe (by simp [allKeys]), hs.2.1 .dataset (by simp [allKeys])⟩

/-! ### the other stages -/

theorem setConstraints_swf {θ μ σ : Type} : ∀ (es : List ConsEntry) (r : Recon θ μ σ), r.swf → (setConstraints es r).1.swf
  | [], _, h => h
  | e :: rest, r, h => by
      unfold setConstraints
      cases hk : Key.ofString e.category with
      | some k =>
          simp only
          have hs : (r.set k { r.get k with cons := (addItems e.items (r.get k).cons).1 }).swf :=
            set_swf h k (ok_of_same (get_ok h k) rfl rfl)
          by_cases hx : (addItems e.items (r.get k).cons).2 = true
          · simp only [hx, if_true]; exact hs
          · simp only [hx, Bool.false_eq_true, if_false]; exact setConstraints_swf rest _ hs
      | none =>
          simp only
          by_cases hd : e.category = "detector"
          · simp only [hd, if_true]; exact setConstraints_swf rest r h
          · simp only [hd, if_false]; exact h

theorem storeOpts_swf {θ μ σ : Type} : ∀ (d : List (String × OptCfg)) (r : Recon θ μ σ), r.swf → (storeOpts d r).1.swf
  | [], _, h => h
  | (k, c) :: rest, r, h => by
      unfold storeOpts
      cases hk : Key.ofString k with
      | some key => exact storeOpts_swf rest _ (set_swf h key (ok_of_same (get_ok h key) rfl rfl))
      | none => exact h

theorem setOptimizers_swf {θ μ σ : Type} (r : Recon θ μ σ) (h : r.swf) : (setOptimizers r).1.swf :=
  overKeys_swf setOptimizer setOptimizer_ok _ r h

theorem storeSched_ok {θ μ σ : Type} (a : SchedArg) (m : ModelSt θ μ σ) (h : m.ok) : (storeSched a m).1.ok := by
  cases a <;> exact ok_of_same h rfl rfl

theorem storeScheds_swf {θ μ σ : Type} : ∀ (d : List (String × SchedArg)) (r : Recon θ μ σ), r.swf → (storeScheds d r).1.swf
  | [], _, h => h
  | (k, a) :: rest, r, h => by
      unfold storeScheds
      cases hk : Key.ofString k with
      | some key =>
          simp only
          have hs := set_swf h key (storeSched_ok a _ (get_ok h key))
          by_cases hx : (storeSched a (r.get key)).2 = true
          · simp only [hx, if_true]; exact hs
          · simp only [hx, Bool.false_eq_true, if_false]; exact storeScheds_swf rest _ hs
      | none => exact h

theorem setSchedulers_swf {θ μ σ : Type} (mk : Nat → Nat → σ × Nat) (r : Recon θ μ σ) (h : r.swf) : (setSchedulers mk r).swf := by
  rw [swf_iff] at h ⊢
  exact ⟨buildSched_ok mk _ h.1, buildSched_ok mk _ h.2.1, buildSched_ok mk _ h.2.2⟩

theorem stepModel_params {θ γ μ σ : Type} (S : Step θ γ μ σ) (v : View θ) (key : String) (m : ModelSt θ μ σ) (h : m.wf) :
    (stepModel S v key m).params.map (·.1) = m.params.map (·.1) := by
  unfold stepModel
  cases ho : m.opt with
  | none => rfl
  | some o =>
      obtain ⟨hp, _, hnd, hin⟩ := h o ho
      have hin' : ∀ k ∈ o.state.map (·.1), k ∈ o.params := by rw [hp]; exact hin
      exact (stepParams_spec S v key o m.params o.state hnd hin').1

theorem schedModel_params {θ γ μ σ : Type} (S : Step θ γ μ σ) (loss : Nat) (m : ModelSt θ μ σ) :
    (schedModel S loss m).params = m.params := by
  unfold schedModel
  split <;> rfl

theorem iter_swf {θ γ μ σ : Type} (S : Step θ γ μ σ) (r : Recon θ μ σ) (h : r.swf) : (iter S r).swf := by
  refine ⟨iter_wf S r h.1, ?_⟩
  obtain ⟨⟨w1, w2, w3⟩, a, b, c⟩ := h
  have ne : ∀ (key : String) (m : ModelSt θ μ σ) (loss : Nat), m.wf → m.params ≠ [] →
      (schedModel S loss (stepModel S r.view key m)).params ≠ [] := by
    intro key m loss hw hne
    rw [schedModel_params]
    intro e
    have := stepModel_params S r.view key m hw
    rw [e] at this
    cases hm : m.params with
    | nil => exact hne hm
    | cons x xs => simp [hm] at this
  exact ⟨ne _ _ _ w1 a, ne _ _ _ w2 b, ne _ _ _ w3 c⟩

theorem iterN_swf {θ γ μ σ : Type} (S : Step θ γ μ σ) : ∀ (n : Nat) (r : Recon θ μ σ), r.swf → (iterN (iter S) n r).swf
  | 0, _, h => h
  | n + 1, r, h => iterN_swf S n _ (iter_swf S r h)

/-- **every `reconstruct` call — accepted or rejected at any stage — keeps the session invariant** -/
theorem exec_swf {θ γ μ σ : Type} (S : Step θ γ μ σ) (mk : Nat → Nat → σ × Nat) (dflt : List (String × Nat)) (c : Call)
    (r : Recon θ μ σ) (h : r.swf) : (exec S mk dflt c r).1.swf := by
  unfold exec
  by_cases hb : c.batchOk = true
  · simp only [hb, Bool.not_true, Bool.false_eq_true, if_false]
    apply andThen_pres Recon.swf
    · by_cases hr : c.reset = true
      · simp only [hr, if_true]; exact resetRecon_swf mk dflt r h.2
      · simp only [hr, Bool.false_eq_true, if_false]; exact h
    intro r1 h1
    apply andThen_pres Recon.swf _ _ (setConstraints_swf c.cons r1 h1)
    intro r2 h2
    apply andThen_pres Recon.swf
    · cases c.opt with
      | none => exact h2
      | some d => exact andThen_pres Recon.swf _ _ (storeOpts_swf d r2 h2) setOptimizers_swf
    intro r3 h3
    apply andThen_pres Recon.swf
    · cases c.sched with
      | none => exact h3
      | some d => exact storeScheds_swf _ r3 h3
    intro r4 h4
    have h5 : (if (c.reset || c.opt.isSome || c.sched.isSome) = true then setSchedulers mk r4 else r4).swf := by
      split
      · exact setSchedulers_swf mk r4 h4
      · exact h4
    by_cases hl : c.lossOk = true
    · simp only [hl, Bool.not_true, Bool.false_eq_true, if_false]; exact iterN_swf S c.n _ h5
    · simp only [hl, Bool.not_false, if_true]; exact h5
  · simp only [hb, Bool.not_false, if_true]; exact h

theorem runCalls_swf {θ γ μ σ : Type} (S : Step θ γ μ σ) (mk : Nat → Nat → σ × Nat) (dflt : List (String × Nat)) :
    ∀ (cs : List Call) (r : Recon θ μ σ), r.swf → (runCalls S mk dflt cs r).swf
  | [], _, h => h
  | c :: cs, r, h => by
      unfold runCalls
      simp only [List.foldl_cons]
      exact runCalls_swf S mk dflt cs _ (exec_swf S mk dflt c r h)

theorem runCalls_append {θ γ μ σ : Type} (S : Step θ γ μ σ) (mk : Nat → Nat → σ × Nat) (dflt : List (String × Nat))
    (pre post : List Call) (r : Recon θ μ σ) :
    runCalls S mk dflt (pre ++ post) r = runCalls S mk dflt post (runCalls S mk dflt pre r) := by
  simp [runCalls, List.foldl_append]

end QuantemModel.Checkpoint
