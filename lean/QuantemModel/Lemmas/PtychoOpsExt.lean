import QuantemModel.Model.PtychoOpsExt
import QuantemModel.Lemmas.PtychoOpsForward
/-!
Helper lemmas for the growth-5 part of Props/C16.lean: checked scatter (IndexError semantics),
the back-propagation chain of `ObjectPixelated.backward`, constraint dictionaries as state.
-/
namespace QuantemModel.PtychoOps
open QuantemModel

/-! ### A. checked scatter -/
section Checked
variable {α : Type}

def idxOk (n : Nat) (i : Int) : Prop := 0 ≤ i ∧ i.toNat < n

instance (n : Nat) (i : Int) : Decidable (idxOk n i) := by unfold idxOk; infer_instance

theorem indexAddSeq_ok [Add α] (out : List α) (ips : List (Int × α))
    (h : ∀ ip ∈ ips, idxOk out.length ip.1) :
    indexAddSeq out ips = (scatterFrom out (ips.map fun ip => (ip.1.toNat, ip.2)), false) := by
  induction ips generalizing out with
  | nil => rfl
  | cons ip rest ih =>
    obtain ⟨i, w⟩ := ip
    have hi : 0 ≤ i ∧ i.toNat < out.length := h (i, w) (by simp)
    unfold indexAddSeq
    rw [if_pos hi, ih]
    · rfl
    · intro ip hip
      have := h ip (by simp [hip])
      unfold idxOk at this ⊢
      simpa using this

theorem indexAddSeq_raised [Add α] (out : List α) (ips : List (Int × α))
    (h : ∃ ip ∈ ips, ¬ idxOk out.length ip.1) : (indexAddSeq out ips).2 = true := by
  induction ips generalizing out with
  | nil => obtain ⟨ip, hip, _⟩ := h; simp at hip
  | cons ip rest ih =>
    obtain ⟨i, w⟩ := ip
    unfold indexAddSeq
    by_cases hi : 0 ≤ i ∧ i.toNat < out.length
    · rw [if_pos hi]
      apply ih
      obtain ⟨ip', hip', hbad⟩ := h
      rcases List.mem_cons.1 hip' with rfl | hmem
      · exact absurd hi hbad
      · refine ⟨ip', hmem, ?_⟩
        unfold idxOk at hbad ⊢
        simpa using hbad
    · rw [if_neg hi]

theorem zip_map_toNat (idx : List Int) (p : List α) :
    (List.zip idx p).map (fun ip => (ip.1.toNat, ip.2)) = List.zip (idx.map Int.toNat) p := by
  induction idx generalizing p with
  | nil => rfl
  | cons i rest ih =>
    cases p with
    | nil => rfl
    | cons a p' => simp [ih]

/-- a call whose arguments pass torch's checks returns the `index_add` scatter of the model -/
theorem sumPatchesBaseChecked_ok [Add α] (z : α) (n : Nat) (p : List α) (idx : List Int)
    (hlen : idx.length = p.length) (hidx : ∀ i ∈ idx, idxOk n i) :
    sumPatchesBaseChecked z n p idx = .ok (scatter z n p (idx.map Int.toNat)) := by
  unfold sumPatchesBaseChecked
  have h1 : (idx.length != p.length) = false := by simp [hlen]
  rw [h1]
  simp only [Bool.false_eq_true, if_false]
  rw [indexAddSeq_ok]
  · simp only [Bool.false_eq_true, if_false]
    rw [zip_map_toNat, scatter_eq_scatterFrom]
  · intro ip hip
    have := hidx ip.1 (List.of_mem_zip hip).1
    simpa using this

theorem mem_zip_of_mem_left {β : Type} (l : List Int) (p : List β) (hlen : l.length = p.length) {i : Int} (hi : i ∈ l) :
    ∃ ip ∈ List.zip l p, ip.1 = i := by
  induction l generalizing p with
  | nil => simp at hi
  | cons a rest ih =>
    cases p with
    | nil => simp at hlen
    | cons b p' =>
      rcases List.mem_cons.1 hi with rfl | hmem
      · exact ⟨(i, b), by simp, rfl⟩
      · obtain ⟨ip, hip, hfst⟩ := ih p' (by simpa using hlen) hmem
        exact ⟨ip, by simp [hip], hfst⟩

/-- the checks, exactly: a call is accepted iff the lengths agree and every index is in `[0, n)` -/
theorem sumPatchesBaseChecked_ok_iff [Add α] (z : α) (n : Nat) (p : List α) (idx : List Int) :
    (∃ out, sumPatchesBaseChecked z n p idx = .ok out) ↔
      (idx.length = p.length ∧ ∀ i ∈ idx, idxOk n i) := by
  constructor
  · rintro ⟨out, h⟩
    by_cases hlen : idx.length = p.length
    · refine ⟨hlen, ?_⟩
      intro i hi
      by_contra hbad
      obtain ⟨ip, hip, hfst⟩ := mem_zip_of_mem_left idx p hlen hi
      have hr : (indexAddSeq (List.replicate n z) (List.zip idx p)).2 = true :=
        indexAddSeq_raised _ _ ⟨ip, hip, by simpa [hfst] using hbad⟩
      unfold sumPatchesBaseChecked at h
      have h1 : (idx.length != p.length) = false := by simp [hlen]
      rw [h1] at h
      simp only [Bool.false_eq_true, if_false] at h
      rw [hr] at h
      simp at h
    · unfold sumPatchesBaseChecked at h
      have h1 : (idx.length != p.length) = true := by simp [hlen]
      rw [h1] at h
      simp at h
  · rintro ⟨hlen, hidx⟩
    exact ⟨_, sumPatchesBaseChecked_ok z n p idx hlen hidx⟩

end Checked

/-! ### B. the back-propagation chain of ObjectPixelated.backward -/

theorem conjImg_build (nr nc : ℕ) (g : ℕ → ℕ → Cx ℝ) :
    conjImg (build nr nc g) = build nr nc (fun i j => Cx.conj (g i j)) := by
  unfold conjImg
  exact build_map nr nc g Cx.conj

theorem mul_conj_unit (z : Cx ℝ) (h : Cx.abs2 z = 1) : z * Cx.conj z = Cx.one := by
  apply toC_injective
  rw [toC_mul, toC_conj, toC_one, Complex.mul_conj]
  rw [abs2_eq] at h
  exact_mod_cast h

theorem rect_conjImg {nr nc : ℕ} {a : Img ℝ} (ha : Rect nr nc a) : Rect nr nc (conjImg a) := by
  obtain ⟨f, rfl⟩ := ha.cx_build
  rw [conjImg_build]; exact rect_build _ _ _

/-- transmit through a unit-modulus patch, then back-transmit: the identity -/
theorem mulImg_conj_cancel {nr nc : ℕ} {O x : Img ℝ} (hO : Rect nr nc O) (hu : UnitModulus O)
    (hx : Rect nr nc x) : mulImg (mulImg O x) (conjImg O) = x := by
  obtain ⟨o, rfl⟩ := hO.cx_build
  obtain ⟨f, rfl⟩ := hx.cx_build
  rw [mulImg_build, conjImg_build, mulImg_build]
  apply build_congr
  intro i hi j hj
  have h1 := mul_conj_unit (o i j) (unitModulus_build.1 hu i hi j hj)
  apply toC_injective
  have h2 : toC (o i j) * toC (Cx.conj (o i j)) = 1 := by rw [← toC_mul, h1, toC_one]
  rw [toC_mul, toC_mul]
  calc toC (o i j) * toC (f i j) * toC (Cx.conj (o i j))
      = toC (f i j) * (toC (o i j) * toC (Cx.conj (o i j))) := by ring
    _ = toC (f i j) := by rw [h2, mul_one]

/-- propagate with a unit-modulus kernel, then with its conjugate: the identity -/
theorem propagate_conj_cancel {nr nc : ℕ} (hr : 0 < nr) (hc : 0 < nc) {w P : Img ℝ} (hw : Rect nr nc w)
    (hP : Rect nr nc P) (hu : UnitModulus P) : propagate (propagate w P) (conjImg P) = w := by
  rw [propagate_propagate hr hc hw hP (rect_conjImg hP)]
  obtain ⟨f, rfl⟩ := hw.cx_build
  obtain ⟨p, rfl⟩ := hP.cx_build
  rw [conjImg_build, mulImg_build]
  exact propagate_one_build hr hc f _ fun k hk l hl => mul_conj_unit _ (unitModulus_build.1 hu k hk l hl)

/-- one forward slice step followed by its backward step -/
theorem slice_step_inverse {nr nc : ℕ} (hr : 0 < nr) (hc : 0 < nc) {w O P : Img ℝ} (hw : Rect nr nc w)
    (hO : Rect nr nc O) (huO : UnitModulus O) (hP : Rect nr nc P) (huP : UnitModulus P) :
    propagate (mulImg (mulImg O (propagate w P)) (conjImg O)) (conjImg P) = w := by
  rw [mulImg_conj_cancel hO huO (rect_propagate hr hc hw hP), propagate_conj_cancel hr hc hw hP huP]

/-- the exit-wave component of the multislice fold does not depend on the list component -/
theorem overlap_foldl_snd (l : List (Img ℝ × Img ℝ)) (acc : List (Img ℝ)) (w : Img ℝ) :
    (l.foldl (fun (a : List (Img ℝ) × Img ℝ) pp =>
        let pr := propagate a.2 pp.1
        (a.1 ++ [pr], mulImg pp.2 pr)) (acc, w)).2
      = l.foldl (fun w pp => mulImg pp.2 (propagate w pp.1)) w := by
  induction l generalizing acc w with
  | nil => rfl
  | cons pp rest ih => simp only [List.foldl_cons]; exact ih _ _

theorem backward_chain {nr nc : ℕ} (hr : 0 < nr) (hc : 0 < nc) (l : List (Img ℝ × Img ℝ))
    (hl : ∀ pp ∈ l, (Rect nr nc pp.1 ∧ UnitModulus pp.1) ∧ (Rect nr nc pp.2 ∧ UnitModulus pp.2))
    (w : Img ℝ) (hw : Rect nr nc w) :
    l.reverse.foldl (fun acc pp => propagate (mulImg acc (conjImg pp.2)) (conjImg pp.1))
        (l.foldl (fun w pp => mulImg pp.2 (propagate w pp.1)) w) = w := by
  induction l generalizing w with
  | nil => rfl
  | cons pp rest ih =>
    have hpp := hl pp (by simp)
    have hw' : Rect nr nc (mulImg pp.2 (propagate w pp.1)) :=
      rect_mulImg hpp.2.1 (rect_propagate hr hc hw hpp.1.1)
    rw [List.reverse_cons, List.foldl_append, List.foldl_cons, List.foldl_nil, List.foldl_cons,
      ih (fun q hq => hl q (by simp [hq])) _ hw']
    exact slice_step_inverse hr hc hw hpp.2.1 hpp.2.2 hpp.1.1 hpp.1.2

/-! ### D. constraint dictionaries -/

theorem CDict.set_keys (d : CDict) (k v : String) (hk : k ∈ d.keys) : (d.set k v).keys = d.keys := by
  unfold CDict.set CDict.keys at *
  have hany : d.any (·.1 == k) = true := by
    rw [List.any_eq_true]
    obtain ⟨kv, hkv, rfl⟩ := List.mem_map.1 hk
    exact ⟨kv, hkv, by simp⟩
  rw [hany]
  simp only [if_true, List.map_map]
  apply List.map_congr_left
  intro kv _
  simp only [Function.comp]
  by_cases h : (kv.1 == k) = true
  · rw [if_pos h]; exact (beq_iff_eq.1 h).symm
  · rw [if_neg h]

theorem CDict.set_mem_self (d : CDict) (k v : String) (hk : k ∈ d.keys) : (k, v) ∈ d.set k v := by
  unfold CDict.set CDict.keys at *
  obtain ⟨kv, hkv, rfl⟩ := List.mem_map.1 hk
  have hany : d.any (·.1 == kv.1) = true := by
    rw [List.any_eq_true]; exact ⟨kv, hkv, by simp⟩
  rw [hany]
  simp only [if_true]
  exact List.mem_map.2 ⟨kv, hkv, by simp⟩

theorem CDict.set_mem_other (d : CDict) (k v : String) (kv : String × String) (hkv : kv ∈ d) (hne : kv.1 ≠ k) :
    kv ∈ d.set k v := by
  unfold CDict.set
  have hany : d.any (·.1 == k) = true ∨ d.any (·.1 == k) = false := by
    cases d.any (·.1 == k) <;> simp
  rcases hany with h | h
  · rw [h]
    simp only [if_true]
    refine List.mem_map.2 ⟨kv, hkv, ?_⟩
    have : (kv.1 == k) = false := by simpa using hne
    rw [this]; simp
  · rw [h]
    simp only [Bool.false_eq_true, if_false]
    exact List.mem_append_left _ hkv

theorem any_key_iff (d : CDict) (k : String) : d.any (·.1 == k) = true ↔ k ∈ d.keys := by
  unfold CDict.keys
  rw [List.any_eq_true, List.mem_map]
  constructor
  · rintro ⟨kv, hkv, h⟩; exact ⟨kv, hkv, beq_iff_eq.1 h⟩
  · rintro ⟨kv, hkv, rfl⟩; exact ⟨kv, hkv, by simp⟩

/-- same keys (no duplicates) and every entry of `a` present in `d`: the dictionaries are equal -/
theorem cdict_eq_of_mem (a d : CDict) (hkeys : d.keys = a.keys) (hnd : a.keys.Nodup)
    (hmem : ∀ kv ∈ a, kv ∈ d) : d = a := by
  induction a generalizing d with
  | nil =>
    unfold CDict.keys at hkeys
    simpa using hkeys
  | cons x a' ih =>
    cases d with
    | nil => simp [CDict.keys] at hkeys
    | cons y d' =>
      have hk : y.1 = x.1 ∧ CDict.keys d' = CDict.keys a' := by
        simpa [CDict.keys] using hkeys
      have hnd' : x.1 ∉ CDict.keys a' ∧ (CDict.keys a').Nodup := by
        simpa [CDict.keys] using hnd
      have hxy : x = y := by
        rcases List.mem_cons.1 (hmem x (by simp)) with h | h
        · exact h
        · exfalso
          apply hnd'.1
          rw [← hk.2]
          exact List.mem_map.2 ⟨x, h, rfl⟩
      subst hxy
      congr 1
      apply ih d' hk.2 hnd'.2
      intro kv hkv
      rcases List.mem_cons.1 (hmem kv (by simp [hkv])) with h | h
      · exfalso
        apply hnd'.1
        rw [← h]
        exact List.mem_map.2 ⟨kv, hkv, rfl⟩
      · exact h

/-- writing every default back, key by key, restores the defaults — from ANY dictionary with the
default key set (the `pre` entries are already in place) -/
theorem applyItems_restore (pre suf d : CDict) (hkeys : d.keys = (pre ++ suf).keys)
    (hnd : (pre ++ suf).keys.Nodup) (hpre : ∀ kv ∈ pre, kv ∈ d) :
    applyItems (pre ++ suf) d suf = (pre ++ suf, false) := by
  induction suf generalizing pre d with
  | nil =>
    unfold applyItems
    rw [cdict_eq_of_mem (pre ++ []) d hkeys hnd (by simpa using hpre)]
  | cons kv suf' ih =>
    obtain ⟨k, v⟩ := kv
    have hkin : k ∈ CDict.keys (pre ++ (k, v) :: suf') := by simp [CDict.keys]
    unfold applyItems
    rw [(any_key_iff _ k).2 hkin]
    simp only [if_true]
    have hkd : k ∈ d.keys := by rw [hkeys]; exact hkin
    have hassoc : pre ++ (k, v) :: suf' = (pre ++ [(k, v)]) ++ suf' := by simp
    rw [hassoc]
    apply ih (pre ++ [(k, v)]) (d.set k v)
    · rw [CDict.set_keys d k v hkd, hkeys, hassoc]
    · rw [← hassoc]; exact hnd
    · intro e he
      rcases List.mem_append.1 he with h | h
      · apply CDict.set_mem_other d k v e (hpre e h)
        intro heq
        have hnd2 : ((pre.map (·.1)) ++ k :: suf'.map (·.1)).Nodup := by
          simpa [CDict.keys] using hnd
        have := (List.nodup_append.1 hnd2).2.2 e.1 (List.mem_map.2 ⟨e, h, rfl⟩) k (by simp)
        exact this heq
      · have : e = (k, v) := by simpa using h
        rw [this]
        exact CDict.set_mem_self d k v hkd

theorem applyItems_keys (allowed d : CDict) (items : List (String × String)) (hkeys : d.keys = allowed.keys) :
    (applyItems allowed d items).1.keys = allowed.keys := by
  induction items generalizing d with
  | nil => exact hkeys
  | cons kv rest ih =>
    obtain ⟨k, v⟩ := kv
    unfold applyItems
    by_cases h : allowed.any (·.1 == k) = true
    · rw [if_pos h]
      apply ih
      rw [CDict.set_keys d k v (by rw [hkeys]; exact (any_key_iff _ k).1 h), hkeys]
    · rw [if_neg h]; exact hkeys

/-- a single rejected key leaves the dictionary untouched -/
theorem applyItems_rejected (allowed d : CDict) (k v : String) (hk : k ∉ allowed.keys) :
    applyItems allowed d [(k, v)] = (d, true) := by
  unfold applyItems
  have : ¬ (allowed.any (·.1 == k) = true) := fun h => hk ((any_key_iff _ k).1 h)
  rw [if_neg this]

/-- what the operations never change: the class-level defaults and the key set of the object's dictionary -/
def SessInv (od : CDict) (s : Session) : Prop := s.objDefaults = od ∧ s.obj.keys = od.keys

theorem ptychoSetEntries_inv (od : CDict) (entries : List CatEntry) (s : Session) (h : SessInv od s) :
    SessInv od (ptychoSetEntries s entries).1 := by
  induction entries generalizing s with
  | nil => exact h
  | cons e rest ih =>
    obtain ⟨cat, val⟩ := e
    unfold ptychoSetEntries
    split
    · -- object
      have hk := applyItems_keys s.objDefaults s.obj ‹_› (by rw [h.2, h.1])
      dsimp only
      split
      · exact ⟨h.1, by rw [hk, h.1]⟩
      · exact ih _ ⟨h.1, by rw [hk, h.1]⟩
    · dsimp only
      split
      · exact h
      · exact ih _ h
    · dsimp only
      split
      · exact h
      · exact ih _ h
    · exact ih _ h
    · exact h

theorem step_inv (od : CDict) (s : Session) (op : SessOp) (h : SessInv od s) : SessInv od (s.step op).1 := by
  cases op with
  | ptychoSet entries => exact ptychoSetEntries_inv od entries s h
  | objSet items =>
    exact ⟨h.1, by
      show (applyItems s.objDefaults s.obj items).1.keys = od.keys
      rw [applyItems_keys _ _ _ (by rw [h.2, h.1]), h.1]⟩
  | objAdd k v =>
    exact ⟨h.1, by
      show (applyItems s.objDefaults s.obj [(k, v)]).1.keys = od.keys
      rw [applyItems_keys _ _ _ (by rw [h.2, h.1]), h.1]⟩
  | resetRecon =>
    exact ⟨h.1, by
      show (applyItems s.objDefaults s.obj s.objDefaults).1.keys = od.keys
      rw [applyItems_keys _ _ _ (by rw [h.2, h.1]), h.1]⟩

theorem run_inv (od : CDict) (ops : List SessOp) (s : Session) (h : SessInv od s) : SessInv od (s.run ops) := by
  induction ops generalizing s with
  | nil => exact h
  | cons op rest ih =>
    unfold Session.run
    rw [List.foldl_cons]
    exact ih _ (step_inv od s op h)

end QuantemModel.PtychoOps
