import QuantemModel.Lemmas.PtychoOpsKernels
/-!
Helper lemmas for Props/C16.lean, part 4: statements on arbitrary rectangular lists
(`Rect nr nc x`), complex adjointness of the code's re/im-split gather/scatter, multislice
energy, detector, Fourier projection.
-/
namespace QuantemModel.PtychoOps
open QuantemModel Finset

/-! ### complex gather / scatter as written in the code (real and imaginary parts separately) -/
theorem zipWith_mk_re_im (l : List (Cx ℝ)) :
    List.zipWith (fun re im => (⟨re, im⟩ : Cx ℝ)) (l.map (·.re)) (l.map (·.im)) = l := by
  induction l with
  | nil => rfl
  | cons a l ih => simp [ih]

theorem getObjPatches_eq (obj : List (List (Cx ℝ))) (idx : List Nat) :
    getObjPatches obj idx = obj.map fun o => gather Cx.zero o idx := by
  unfold getObjPatches
  apply List.map_congr_left
  intro o _
  have h1 : gather (Num.zero : ℝ) (o.map (·.re)) idx = (gather Cx.zero o idx).map (·.re) :=
    (gather_map (·.re) Cx.zero o idx).symm
  have h2 : gather (Num.zero : ℝ) (o.map (·.im)) idx = (gather Cx.zero o idx).map (·.im) :=
    (gather_map (·.im) Cx.zero o idx).symm
  rw [h1, h2, zipWith_mk_re_im]

theorem sumPatchesCx_eq (n : Nat) (p : List (Cx ℝ)) (idx : List Nat) :
    sumPatchesCx n p idx = scatter Cx.zero n p idx := by
  unfold sumPatchesCx
  have h1 : scatter (Num.zero : ℝ) n (p.map (·.re)) idx = (scatter Cx.zero n p idx).map (·.re) :=
    (scatter_map (·.re) (fun _ _ => rfl) Cx.zero n p idx).symm
  have h2 : scatter (Num.zero : ℝ) n (p.map (·.im)) idx = (scatter Cx.zero n p idx).map (·.im) :=
    (scatter_map (·.im) (fun _ _ => rfl) Cx.zero n p idx).symm
  rw [h1, h2, zipWith_mk_re_im]

/-- sesquilinear pairing `Σ_t conj(a[t])·b[t]` of two complex vectors of the model -/
noncomputable def innerC (a b : List (Cx ℝ)) : ℂ :=
  dot ((a.map toC).map (starRingEnd ℂ)) (b.map toC)

/-- **complex adjointness** of the code's patch extraction and `sum_patches` -/
theorem innerC_gather_eq_innerC_scatter (o p : List (Cx ℝ)) (idx : List Nat) (hidx : ∀ i ∈ idx, i < o.length) :
    innerC (gather Cx.zero o idx) p = innerC o (scatter Cx.zero o.length p idx) := by
  unfold innerC
  have h1 : ((gather Cx.zero o idx).map toC).map (starRingEnd ℂ)
      = gather 0 ((o.map toC).map (starRingEnd ℂ)) idx := by
    rw [gather_map, gather_map, toC_zero, map_zero]
  have h2 : (scatter Cx.zero o.length p idx).map toC = scatter 0 o.length (p.map toC) idx := by
    rw [scatter_map toC toC_add, toC_zero]
  rw [h1, h2]
  have := dot_gather_eq_dot_scatter (0 : ℂ) ((o.map toC).map (starRingEnd ℂ)) (p.map toC) idx
    (by simpa using hidx)
  simpa using this

/-! ### statements on rectangular lists -/
theorem Rect.cx_build {nr nc : ℕ} {x : Img ℝ} (h : Rect nr nc x) : ∃ g : ℕ → ℕ → Cx ℝ, x = build nr nc g :=
  h.exists_build

theorem rect_mulImg {nr nc : ℕ} {a b : Img ℝ} (ha : Rect nr nc a) (hb : Rect nr nc b) : Rect nr nc (mulImg a b) := by
  obtain ⟨f, rfl⟩ := ha.cx_build
  obtain ⟨g, rfl⟩ := hb.cx_build
  rw [mulImg_build]; exact rect_build _ _ _

theorem rect_propagate {nr nc : ℕ} (hr : 0 < nr) (hc : 0 < nc) {a P : Img ℝ} (ha : Rect nr nc a) (hP : Rect nr nc P) :
    Rect nr nc (propagate a P) := by
  obtain ⟨f, rfl⟩ := ha.cx_build
  obtain ⟨g, rfl⟩ := hP.cx_build
  rw [propagate_build hr hc]; exact rect_build _ _ _

/-- every entry of the image has unit modulus -/
def UnitModulus (P : Img ℝ) : Prop := ∀ row ∈ P, ∀ z ∈ row, Cx.abs2 z = 1

theorem unitModulus_build {nr nc : ℕ} {g : ℕ → ℕ → Cx ℝ} :
    UnitModulus (build nr nc g) ↔ ∀ k < nr, ∀ l < nc, Cx.abs2 (g k l) = 1 := by
  unfold UnitModulus build vbuild
  constructor
  · intro h k hk l hl
    exact h _ (List.mem_map.2 ⟨k, List.mem_range.2 hk, rfl⟩) _ (List.mem_map.2 ⟨l, List.mem_range.2 hl, rfl⟩)
  · intro h row hrow z hz
    obtain ⟨k, hk, rfl⟩ := List.mem_map.1 hrow
    obtain ⟨l, hl, rfl⟩ := List.mem_map.1 hz
    exact h k (List.mem_range.1 hk) l (List.mem_range.1 hl)

theorem energy_propagate {nr nc : ℕ} (hr : 0 < nr) (hc : 0 < nc) {a P : Img ℝ} (ha : Rect nr nc a)
    (hP : Rect nr nc P) (hu : UnitModulus P) : energy (propagate a P) = energy a := by
  obtain ⟨f, rfl⟩ := ha.cx_build
  obtain ⟨g, rfl⟩ := hP.cx_build
  exact energy_propagate_build hr hc f g (unitModulus_build.1 hu)

theorem energy_mulImg_unit {nr nc : ℕ} {a P : Img ℝ} (ha : Rect nr nc a)
    (hP : Rect nr nc P) (hu : UnitModulus P) : energy (mulImg P a) = energy a := by
  obtain ⟨f, rfl⟩ := ha.cx_build
  obtain ⟨g, rfl⟩ := hP.cx_build
  rw [mulImg_build]
  have := energy_mul_unit (nr := nr) (nc := nc) f g (unitModulus_build.1 hu)
  rw [← this]
  congr 1
  apply build_toC_inj
  intro i _ j _
  simp only [toC_mul]; ring

theorem propagate_propagate {nr nc : ℕ} (hr : 0 < nr) (hc : 0 < nc) {a P Q : Img ℝ} (ha : Rect nr nc a)
    (hP : Rect nr nc P) (hQ : Rect nr nc Q) :
    propagate (propagate a P) Q = propagate a (mulImg P Q) := by
  obtain ⟨f, rfl⟩ := ha.cx_build
  obtain ⟨g, rfl⟩ := hP.cx_build
  obtain ⟨h, rfl⟩ := hQ.cx_build
  exact propagate_propagate_build hr hc f g h

theorem dft2_idft2_model {nr nc : ℕ} (hr : 0 < nr) (hc : 0 < nc) {x : Img ℝ} (hx : Rect nr nc x) :
    Dft.dft2 (Dft.idft2 x) = x := by
  obtain ⟨g, rfl⟩ := hx.cx_build
  rw [idft2_build hr hc, dft2_build hr hc]
  exact build_congr fun k hk l hl => dft2C_idft2C g hk hl

theorem idft2_dft2_model {nr nc : ℕ} (hr : 0 < nr) (hc : 0 < nc) {x : Img ℝ} (hx : Rect nr nc x) :
    Dft.idft2 (Dft.dft2 x) = x := by
  obtain ⟨g, rfl⟩ := hx.cx_build
  rw [dft2_build hr hc, idft2_build hr hc]
  exact build_congr fun k hk l hl => idft2C_dft2C g hk hl

/-- **Parseval for the modelled `fft2`** -/
theorem energy_dft2 {nr nc : ℕ} (hr : 0 < nr) (hc : 0 < nc) {x : Img ℝ} (hx : Rect nr nc x) :
    energy (Dft.dft2 x) = (nr * nc : ℝ) * energy x := by
  obtain ⟨g, rfl⟩ := hx.cx_build
  rw [dft2_build hr hc]
  exact energy_dft2C hr hc g

theorem rect_dft2 {nr nc : ℕ} (hr : 0 < nr) (hc : 0 < nc) {x : Img ℝ} (hx : Rect nr nc x) : Rect nr nc (Dft.dft2 x) := by
  obtain ⟨g, rfl⟩ := hx.cx_build
  rw [dft2_build hr hc]; exact rect_build _ _ _

theorem rect_idft2 {nr nc : ℕ} (hr : 0 < nr) (hc : 0 < nc) {x : Img ℝ} (hx : Rect nr nc x) : Rect nr nc (Dft.idft2 x) := by
  obtain ⟨g, rfl⟩ := hx.cx_build
  rw [idft2_build hr hc]; exact rect_build _ _ _

end QuantemModel.PtychoOps
