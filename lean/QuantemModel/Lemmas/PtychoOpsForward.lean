import QuantemModel.Lemmas.PtychoOpsKernels
/-!
Helper lemmas for Props/C16.lean, part 4: statements on arbitrary rectangular lists
(`Rect nr nc x`), complex adjointness of the code's re/im-split gather/scatter, multislice
energy, detector, Fourier projection.
-/
namespace QuantemModel.PtychoOps
open QuantemModel Finset

/-! ### complex gather / scatter as written in the code (real and imaginary parts separately) -/
theorem zipWith_mk_re_im (l : List (Cx ℝ)) :
    List.zipWith (fun re im => (⟨re, im⟩ : Cx ℝ)) (l.map (·.re)) (l.map (·.im)) = l := by
  induction l with
  | nil => rfl
  | cons a l ih => simp [ih]

theorem getObjPatches_eq (obj : List (List (Cx ℝ))) (idx : List Nat) :
    getObjPatches obj idx = obj.map fun o => gather Cx.zero o idx := by
  unfold getObjPatches
  apply List.map_congr_left
  intro o _
  have h1 : gather (Num.zero : ℝ) (o.map (·.re)) idx = (gather Cx.zero o idx).map (·.re) :=
    (gather_map (·.re) Cx.zero o idx).symm
  have h2 : gather (Num.zero : ℝ) (o.map (·.im)) idx = (gather Cx.zero o idx).map (·.im) :=
    (gather_map (·.im) Cx.zero o idx).symm
  rw [h1, h2, zipWith_mk_re_im]

theorem sumPatchesCx_eq (n : Nat) (p : List (Cx ℝ)) (idx : List Nat) :
    sumPatchesCx n p idx = scatter Cx.zero n p idx := by
  unfold sumPatchesCx
  have h1 : scatter (Num.zero : ℝ) n (p.map (·.re)) idx = (scatter Cx.zero n p idx).map (·.re) :=
    (scatter_map (·.re) (fun _ _ => rfl) Cx.zero n p idx).symm
  have h2 : scatter (Num.zero : ℝ) n (p.map (·.im)) idx = (scatter Cx.zero n p idx).map (·.im) :=
    (scatter_map (·.im) (fun _ _ => rfl) Cx.zero n p idx).symm
  rw [h1, h2, zipWith_mk_re_im]

/-- sesquilinear pairing `Σ_t conj(a[t])·b[t]` of two complex vectors of the model -/
noncomputable def innerC (a b : List (Cx ℝ)) : ℂ :=
  dot ((a.map toC).map (starRingEnd ℂ)) (b.map toC)

/-- **complex adjointness** of the code's patch extraction and `sum_patches` -/
theorem innerC_gather_eq_innerC_scatter (o p : List (Cx ℝ)) (idx : List Nat) (hidx : ∀ i ∈ idx, i < o.length) :
    innerC (gather Cx.zero o idx) p = innerC o (scatter Cx.zero o.length p idx) := by
  unfold innerC
  have h1 : ((gather Cx.zero o idx).map toC).map (starRingEnd ℂ)
      = gather 0 ((o.map toC).map (starRingEnd ℂ)) idx := by
    rw [gather_map, gather_map, toC_zero, map_zero]
  have h2 : (scatter Cx.zero o.length p idx).map toC = scatter 0 o.length (p.map toC) idx := by
    rw [scatter_map toC toC_add, toC_zero]
  rw [h1, h2]
  have := dot_gather_eq_dot_scatter (0 : ℂ) ((o.map toC).map (starRingEnd ℂ)) (p.map toC) idx
    (by simpa using hidx)
  simpa using this

/-! ### statements on rectangular lists -/
theorem Rect.cx_build {nr nc : ℕ} {x : Img ℝ} (h : Rect nr nc x) : ∃ g : ℕ → ℕ → Cx ℝ, x = build nr nc g :=
  h.exists_build

theorem rect_mulImg {nr nc : ℕ} {a b : Img ℝ} (ha : Rect nr nc a) (hb : Rect nr nc b) : Rect nr nc (mulImg a b) := by
  obtain ⟨f, rfl⟩ := ha.cx_build
  obtain ⟨g, rfl⟩ := hb.cx_build
  rw [mulImg_build]; exact rect_build _ _ _

theorem rect_propagate {nr nc : ℕ} (hr : 0 < nr) (hc : 0 < nc) {a P : Img ℝ} (ha : Rect nr nc a) (hP : Rect nr nc P) :
    Rect nr nc (propagate a P) := by
  obtain ⟨f, rfl⟩ := ha.cx_build
  obtain ⟨g, rfl⟩ := hP.cx_build
  rw [propagate_build hr hc]; exact rect_build _ _ _

/-- every entry of the image has unit modulus -/
def UnitModulus (P : Img ℝ) : Prop := ∀ row ∈ P, ∀ z ∈ row, Cx.abs2 z = 1

theorem unitModulus_build {nr nc : ℕ} {g : ℕ → ℕ → Cx ℝ} :
    UnitModulus (build nr nc g) ↔ ∀ k < nr, ∀ l < nc, Cx.abs2 (g k l) = 1 := by
  unfold UnitModulus build vbuild
  constructor
  · intro h k hk l hl
    exact h _ (List.mem_map.2 ⟨k, List.mem_range.2 hk, rfl⟩) _ (List.mem_map.2 ⟨l, List.mem_range.2 hl, rfl⟩)
  · intro h row hrow z hz
    obtain ⟨k, hk, rfl⟩ := List.mem_map.1 hrow
    obtain ⟨l, hl, rfl⟩ := List.mem_map.1 hz
    exact h k (List.mem_range.1 hk) l (List.mem_range.1 hl)

theorem energy_propagate {nr nc : ℕ} (hr : 0 < nr) (hc : 0 < nc) {a P : Img ℝ} (ha : Rect nr nc a)
    (hP : Rect nr nc P) (hu : UnitModulus P) : energy (propagate a P) = energy a := by
  obtain ⟨f, rfl⟩ := ha.cx_build
  obtain ⟨g, rfl⟩ := hP.cx_build
  exact energy_propagate_build hr hc f g (unitModulus_build.1 hu)

theorem energy_mulImg_unit {nr nc : ℕ} {a P : Img ℝ} (ha : Rect nr nc a)
    (hP : Rect nr nc P) (hu : UnitModulus P) : energy (mulImg P a) = energy a := by
  obtain ⟨f, rfl⟩ := ha.cx_build
  obtain ⟨g, rfl⟩ := hP.cx_build
  rw [mulImg_build]
  have := energy_mul_unit (nr := nr) (nc := nc) f g (unitModulus_build.1 hu)
  rw [← this]
  congr 1
  apply build_toC_inj
  intro i _ j _
  simp only [toC_mul]; ring

theorem energy_mulImg_unit_right {nr nc : ℕ} {a P : Img ℝ} (ha : Rect nr nc a)
    (hP : Rect nr nc P) (hu : UnitModulus P) : energy (mulImg a P) = energy a := by
  obtain ⟨f, rfl⟩ := ha.cx_build
  obtain ⟨g, rfl⟩ := hP.cx_build
  rw [mulImg_build]
  exact energy_mul_unit (nr := nr) (nc := nc) f g (unitModulus_build.1 hu)

theorem propagate_propagate {nr nc : ℕ} (hr : 0 < nr) (hc : 0 < nc) {a P Q : Img ℝ} (ha : Rect nr nc a)
    (hP : Rect nr nc P) (hQ : Rect nr nc Q) :
    propagate (propagate a P) Q = propagate a (mulImg P Q) := by
  obtain ⟨f, rfl⟩ := ha.cx_build
  obtain ⟨g, rfl⟩ := hP.cx_build
  obtain ⟨h, rfl⟩ := hQ.cx_build
  exact propagate_propagate_build hr hc f g h

theorem dft2_idft2_model {nr nc : ℕ} (hr : 0 < nr) (hc : 0 < nc) {x : Img ℝ} (hx : Rect nr nc x) :
    Dft.dft2 (Dft.idft2 x) = x := by
  obtain ⟨g, rfl⟩ := hx.cx_build
  rw [idft2_build hr hc, dft2_build hr hc]
  exact build_congr fun k hk l hl => dft2C_idft2C g hk hl

theorem idft2_dft2_model {nr nc : ℕ} (hr : 0 < nr) (hc : 0 < nc) {x : Img ℝ} (hx : Rect nr nc x) :
    Dft.idft2 (Dft.dft2 x) = x := by
  obtain ⟨g, rfl⟩ := hx.cx_build
  rw [dft2_build hr hc, idft2_build hr hc]
  exact build_congr fun k hk l hl => idft2C_dft2C g hk hl

/-- **Parseval for the modelled `fft2`** -/
theorem energy_dft2 {nr nc : ℕ} (hr : 0 < nr) (hc : 0 < nc) {x : Img ℝ} (hx : Rect nr nc x) :
    energy (Dft.dft2 x) = (nr * nc : ℝ) * energy x := by
  obtain ⟨g, rfl⟩ := hx.cx_build
  rw [dft2_build hr hc]
  exact energy_dft2C hr hc g

theorem rect_dft2 {nr nc : ℕ} (hr : 0 < nr) (hc : 0 < nc) {x : Img ℝ} (hx : Rect nr nc x) : Rect nr nc (Dft.dft2 x) := by
  obtain ⟨g, rfl⟩ := hx.cx_build
  rw [dft2_build hr hc]; exact rect_build _ _ _

theorem rect_idft2 {nr nc : ℕ} (hr : 0 < nr) (hc : 0 < nc) {x : Img ℝ} (hx : Rect nr nc x) : Rect nr nc (Dft.idft2 x) := by
  obtain ⟨g, rfl⟩ := hx.cx_build
  rw [idft2_build hr hc]; exact rect_build _ _ _


/-! ### multislice overlap: energy is carried through every slice -/
theorem rect_of_eq_build {β : Type} {nr nc : ℕ} {x : List (List β)} {g : ℕ → ℕ → β} (h : x = build nr nc g) :
    Rect nr nc x := h ▸ rect_build nr nc g

/-- one multislice step: propagate with a unit-modulus kernel, transmit through a unit-modulus slice -/
theorem overlap_foldl_energy {nr nc : ℕ} (hr : 0 < nr) (hc : 0 < nc) (l : List (Img ℝ × Img ℝ))
    (hl : ∀ pp ∈ l, (Rect nr nc pp.1 ∧ UnitModulus pp.1) ∧ (Rect nr nc pp.2 ∧ UnitModulus pp.2))
    (acc : List (Img ℝ) × Img ℝ) (hacc : Rect nr nc acc.2) :
    let out := l.foldl (fun acc pp => (acc.1 ++ [propagate acc.2 pp.1], mulImg pp.2 (propagate acc.2 pp.1))) acc
    Rect nr nc out.2 ∧ energy out.2 = energy acc.2 := by
  induction l generalizing acc with
  | nil => exact ⟨hacc, rfl⟩
  | cons pp rest ih =>
    obtain ⟨⟨hP, hPu⟩, ⟨hO, hOu⟩⟩ := hl pp List.mem_cons_self
    have hprop : Rect nr nc (propagate acc.2 pp.1) := rect_propagate hr hc hacc hP
    have hnext : Rect nr nc (mulImg pp.2 (propagate acc.2 pp.1)) := rect_mulImg hO hprop
    have := ih (fun q hq => hl q (List.mem_cons_of_mem _ hq))
      (acc.1 ++ [propagate acc.2 pp.1], mulImg pp.2 (propagate acc.2 pp.1)) hnext
    simp only [List.foldl_cons]
    refine ⟨this.1, ?_⟩
    rw [this.2]
    show energy (mulImg pp.2 (propagate acc.2 pp.1)) = energy acc.2
    rw [energy_mulImg_unit hprop hO hOu, energy_propagate hr hc hacc hP hPu]

theorem overlapProjection1_energy {nr nc : ℕ} (hr : 0 < nr) (hc : 0 < nc) (patches props : List (Img ℝ))
    (probe : Img ℝ) (hprobe : Rect nr nc probe)
    (hpatch : ∀ O ∈ patches, Rect nr nc O ∧ UnitModulus O)
    (hprops : ∀ P ∈ props, Rect nr nc P ∧ UnitModulus P) :
    Rect nr nc (overlapProjection1 patches props probe).2
      ∧ energy (overlapProjection1 patches props probe).2 = energy probe := by
  cases patches with
  | nil => exact ⟨hprobe, rfl⟩
  | cons p0 rest =>
    obtain ⟨h0, h0u⟩ := hpatch p0 List.mem_cons_self
    have hstart : Rect nr nc (mulImg p0 probe) := rect_mulImg h0 hprobe
    have := overlap_foldl_energy hr hc (List.zip props rest)
      (fun pp hpp => ⟨hprops _ (List.of_mem_zip hpp).1,
        hpatch _ (List.mem_cons_of_mem _ (List.of_mem_zip hpp).2)⟩)
      ([probe], mulImg p0 probe) hstart
    exact ⟨this.1, this.2.trans (energy_mulImg_unit hprobe h0 h0u)⟩

/-! ### absorbing objects (`|O| ≤ 1`, e.g. the clamped amplitude of `obj_type = "complex"`): energy can only decrease -/
/-- every entry of the image has modulus at most one -/
def SubUnit (P : Img ℝ) : Prop := ∀ row ∈ P, ∀ z ∈ row, Cx.abs2 z ≤ 1

theorem subUnit_build {nr nc : ℕ} {g : ℕ → ℕ → Cx ℝ} :
    SubUnit (build nr nc g) ↔ ∀ k < nr, ∀ l < nc, Cx.abs2 (g k l) ≤ 1 := by
  unfold SubUnit build vbuild
  constructor
  · intro h k hk l hl
    exact h _ (List.mem_map.2 ⟨k, List.mem_range.2 hk, rfl⟩) _ (List.mem_map.2 ⟨l, List.mem_range.2 hl, rfl⟩)
  · intro h row hrow z hz
    obtain ⟨k, hk, rfl⟩ := List.mem_map.1 hrow
    obtain ⟨l, hl, rfl⟩ := List.mem_map.1 hz
    exact h k (List.mem_range.1 hk) l (List.mem_range.1 hl)

theorem UnitModulus.subUnit {P : Img ℝ} (h : UnitModulus P) : SubUnit P :=
  fun row hrow z hz => (h row hrow z hz).le

theorem energy_mulImg_le {nr nc : ℕ} {a P : Img ℝ} (ha : Rect nr nc a)
    (hP : Rect nr nc P) (hu : SubUnit P) : energy (mulImg P a) ≤ energy a := by
  obtain ⟨f, rfl⟩ := ha.cx_build
  obtain ⟨g, rfl⟩ := hP.cx_build
  rw [mulImg_build, energy_build, energy_build]
  refine sum_le_sum fun k hk => sum_le_sum fun l hl => ?_
  rw [← abs2_eq, ← abs2_eq, abs2_mul]
  have h1 := subUnit_build.1 hu k (mem_range.1 hk) l (mem_range.1 hl)
  have h0 : 0 ≤ Cx.abs2 (f k l) := by rw [abs2_eq]; exact Complex.normSq_nonneg _
  nlinarith

theorem overlap_foldl_energy_le {nr nc : ℕ} (hr : 0 < nr) (hc : 0 < nc) (l : List (Img ℝ × Img ℝ))
    (hl : ∀ pp ∈ l, (Rect nr nc pp.1 ∧ UnitModulus pp.1) ∧ (Rect nr nc pp.2 ∧ SubUnit pp.2))
    (acc : List (Img ℝ) × Img ℝ) (hacc : Rect nr nc acc.2) :
    let out := l.foldl (fun acc pp => (acc.1 ++ [propagate acc.2 pp.1], mulImg pp.2 (propagate acc.2 pp.1))) acc
    Rect nr nc out.2 ∧ energy out.2 ≤ energy acc.2 := by
  induction l generalizing acc with
  | nil => exact ⟨hacc, le_refl _⟩
  | cons pp rest ih =>
    obtain ⟨⟨hP, hPu⟩, ⟨hO, hOu⟩⟩ := hl pp List.mem_cons_self
    have hprop : Rect nr nc (propagate acc.2 pp.1) := rect_propagate hr hc hacc hP
    have hnext : Rect nr nc (mulImg pp.2 (propagate acc.2 pp.1)) := rect_mulImg hO hprop
    have := ih (fun q hq => hl q (List.mem_cons_of_mem _ hq))
      (acc.1 ++ [propagate acc.2 pp.1], mulImg pp.2 (propagate acc.2 pp.1)) hnext
    simp only [List.foldl_cons]
    refine ⟨this.1, le_trans this.2 ?_⟩
    show energy (mulImg pp.2 (propagate acc.2 pp.1)) ≤ energy acc.2
    exact le_trans (energy_mulImg_le hprop hO hOu) (energy_propagate hr hc hacc hP hPu).le

theorem overlapProjection1_energy_le {nr nc : ℕ} (hr : 0 < nr) (hc : 0 < nc) (patches props : List (Img ℝ))
    (probe : Img ℝ) (hprobe : Rect nr nc probe)
    (hpatch : ∀ O ∈ patches, Rect nr nc O ∧ SubUnit O)
    (hprops : ∀ P ∈ props, Rect nr nc P ∧ UnitModulus P) :
    Rect nr nc (overlapProjection1 patches props probe).2
      ∧ energy (overlapProjection1 patches props probe).2 ≤ energy probe := by
  cases patches with
  | nil => exact ⟨hprobe, le_refl _⟩
  | cons p0 rest =>
    obtain ⟨h0, h0u⟩ := hpatch p0 List.mem_cons_self
    have hstart : Rect nr nc (mulImg p0 probe) := rect_mulImg h0 hprobe
    have := overlap_foldl_energy_le hr hc (List.zip props rest)
      (fun pp hpp => ⟨hprops _ (List.of_mem_zip hpp).1,
        hpatch _ (List.mem_cons_of_mem _ (List.of_mem_zip hpp).2)⟩)
      ([probe], mulImg p0 probe) hstart
    exact ⟨this.1, le_trans this.2 (energy_mulImg_le hprobe h0 h0u)⟩

/-! ### detector: summed intensity = total exit-wave energy -/
theorem rsum_eq (x : RImg ℝ) : rsum x = (x.map List.sum).sum := by
  unfold rsum
  rw [numSum_eq]
  congr 1
  exact List.map_congr_left fun row _ => numSum_eq row

theorem sum_map_fftshift {β : Type} (f : β → ℝ) (l : List β) : ((Dft.fftshift l).map f).sum = (l.map f).sum := by
  unfold Dft.fftshift
  simp only [List.map_append, List.sum_append]
  rw [add_comm, ← List.sum_append, ← List.map_append, List.take_append_drop]

theorem rsum_fftshift2 (x : RImg ℝ) : rsum (fftshift2 x) = rsum x := by
  rw [rsum_eq, rsum_eq]
  unfold fftshift2
  rw [sum_map_fftshift, List.map_map]
  congr 1
  apply List.map_congr_left
  intro row _
  have := sum_map_fftshift (fun a : ℝ => a) row
  simpa using this

theorem rsum_build (nr nc : ℕ) (g : ℕ → ℕ → ℝ) : rsum (build nr nc g) = ∑ i ∈ range nr, ∑ j ∈ range nc, g i j := by
  rw [rsum_eq]
  unfold build
  rw [vbuild_map, sum_vbuild]
  exact sum_congr rfl fun i _ => sum_vbuild nc (g i)

theorem sumModes_rsum {nr nc : ℕ} (l : List (RImg ℝ)) (hl : ∀ x ∈ l, Rect nr nc x) (z : RImg ℝ) (hz : Rect nr nc z) :
    Rect nr nc (sumModes z l) ∧ rsum (sumModes z l) = rsum z + (l.map rsum).sum := by
  induction l generalizing z with
  | nil => exact ⟨hz, by simp [sumModes]⟩
  | cons x rest ih =>
    obtain ⟨f, rfl⟩ := hz.exists_build
    obtain ⟨g, rfl⟩ := (hl x List.mem_cons_self).exists_build
    have hstep : List.zipWith (List.zipWith (· + ·)) (build nr nc f) (build nr nc g)
        = build nr nc (fun i j => f i j + g i j) := zipWith_build nr nc _ f g
    have := ih (fun y hy => hl y (List.mem_cons_of_mem _ hy)) _ (rect_of_eq_build hstep)
    unfold sumModes at this ⊢
    simp only [List.foldl_cons, List.map_cons, List.sum_cons]
    refine ⟨this.1, ?_⟩
    rw [this.2, hstep, rsum_build, rsum_build, rsum_build]
    simp only [NumReal.add_eq, sum_add_distrib]
    ring

theorem fft2Ortho_build {nr nc : ℕ} (hr : 0 < nr) (hc : 0 < nc) (g : ℕ → ℕ → Cx ℝ) :
    fft2Ortho (build nr nc g)
      = build nr nc (fun k l => Cx.smul (1 / Real.sqrt ((nr * nc : ℕ) : ℝ)) (dft2C nr nc g k l)) := by
  unfold fft2Ortho scaleImg
  rw [nrows_build, ncols_build hr, dft2_build hr hc, build_map]
  apply build_congr
  intro k _ l _
  simp [dft2C]

theorem ifft2Ortho_build {nr nc : ℕ} (hr : 0 < nr) (hc : 0 < nc) (g : ℕ → ℕ → Cx ℝ) :
    ifft2Ortho (build nr nc g)
      = build nr nc (fun k l => Cx.smul (Real.sqrt ((nr * nc : ℕ) : ℝ)) (idft2C nr nc g k l)) := by
  unfold ifft2Ortho scaleImg
  rw [nrows_build, ncols_build hr, idft2_build hr hc, build_map]
  apply build_congr
  intro k _ l _
  simp [idft2C]

theorem sqrt_size_ne_zero {nr nc : ℕ} (hr : 0 < nr) (hc : 0 < nc) : Real.sqrt ((nr * nc : ℕ) : ℝ) ≠ 0 := by
  have : (0 : ℝ) < ((nr * nc : ℕ) : ℝ) := by exact_mod_cast Nat.mul_pos hr hc
  exact (Real.sqrt_pos.2 this).ne'

/-- pixel intensities `|fft2_ortho w|²` (as written: `sqrt(re²+im²)²`) of one mode -/
noncomputable def modeIntensity (w : Img ℝ) : RImg ℝ := (fft2Ortho w).map (·.map fun z => Num.sq (Cx.abs z))

theorem modeIntensity_build {nr nc : ℕ} (hr : 0 < nr) (hc : 0 < nc) (g : ℕ → ℕ → Cx ℝ) :
    modeIntensity (build nr nc g)
      = build nr nc (fun k l => Complex.normSq (toC (dft2C nr nc g k l)) / ((nr * nc : ℕ) : ℝ)) := by
  unfold modeIntensity
  rw [fft2Ortho_build hr hc, build_map]
  apply build_congr
  intro k _ l _
  rw [sq_abs, toC_smul, Complex.normSq_mul, Complex.normSq_ofReal]
  have hpos : (0 : ℝ) ≤ ((nr * nc : ℕ) : ℝ) := Nat.cast_nonneg _
  have hs := Real.mul_self_sqrt hpos
  have h : (1 / Real.sqrt ((nr * nc : ℕ) : ℝ)) * (1 / Real.sqrt ((nr * nc : ℕ) : ℝ)) = 1 / ((nr * nc : ℕ) : ℝ) := by
    rw [div_mul_div_comm, one_mul, hs]
  rw [h]; ring

theorem rsum_modeIntensity {nr nc : ℕ} (hr : 0 < nr) (hc : 0 < nc) {w : Img ℝ} (hw : Rect nr nc w) :
    Rect nr nc (modeIntensity w) ∧ rsum (modeIntensity w) = energy w := by
  obtain ⟨g, rfl⟩ := hw.cx_build
  rw [modeIntensity_build hr hc]
  refine ⟨rect_build _ _ _, ?_⟩
  rw [rsum_build]
  have hpar := energy_dft2C hr hc g
  rw [energy_build] at hpar
  have hne : ((nr * nc : ℕ) : ℝ) ≠ 0 := by exact_mod_cast Nat.ne_of_gt (Nat.mul_pos hr hc)
  simp only [div_eq_mul_inv, ← sum_mul]
  rw [hpar]
  push_cast
  push_cast at hne
  field_simp

theorem zerosLike_build {β : Type} (nr nc : ℕ) (g : ℕ → ℕ → β) :
    (zerosLike (build nr nc g) : RImg ℝ) = build nr nc (fun _ _ => (0 : ℝ)) := by
  unfold zerosLike
  rw [build_map]
  apply build_congr
  intro _ _ _ _
  simp

/-- **summed detector intensity = total exit-wave intensity** (Parseval through the
ortho-normalised FFT, the mode sum and the `fftshift`) -/
theorem rsum_detector {nr nc : ℕ} (hr : 0 < nr) (hc : 0 < nc) (ws : List (Img ℝ)) (hws : ∀ w ∈ ws, Rect nr nc w) :
    rsum (detector ws) = (ws.map energy).sum := by
  unfold detector
  rw [rsum_fftshift2]
  unfold intensitiesCorner
  cases ws with
  | nil => simp [sumModes, zerosLike, rsum_eq]
  | cons w rest =>
    have hw := hws w List.mem_cons_self
    obtain ⟨g, hg⟩ := hw.cx_build
    have hz : Rect nr nc (zerosLike ((w :: rest).headD []) : RImg ℝ) := by
      simp only [List.headD_cons]
      rw [hg, zerosLike_build]; exact rect_build _ _ _
    have hz0 : rsum (zerosLike ((w :: rest).headD []) : RImg ℝ) = 0 := by
      simp only [List.headD_cons]
      rw [hg, zerosLike_build, rsum_build]; simp
    have hmodes : ∀ x ∈ (w :: rest).map modeIntensity, Rect nr nc x := by
      intro x hx
      obtain ⟨v, hv, rfl⟩ := List.mem_map.1 hx
      exact (rsum_modeIntensity hr hc (hws v hv)).1
    have := (sumModes_rsum _ hmodes _ hz).2
    show rsum (sumModes _ ((w :: rest).map modeIntensity)) = _
    rw [this, hz0, zero_add, List.map_map]
    congr 1
    apply List.map_congr_left
    intro v hv
    exact (rsum_modeIntensity hr hc (hws v hv)).2

end QuantemModel.PtychoOps
