import QuantemModel.Lemmas.PtychoOpsForward
/-!
Helper lemmas for Props/C16.lean, part 5: the Fourier magnitude projection
(`fourier_projection`, single and mixed state).
-/
namespace QuantemModel.PtychoOps
open QuantemModel Finset

/-! ### fftshift / ifftshift bookkeeping -/
theorem fftshift_ifftshift {β : Type} (l : List β) : Dft.fftshift (Dft.ifftshift l) = l := by
  unfold Dft.fftshift Dft.ifftshift
  dsimp only
  have hlen : (List.drop (l.length / 2) l ++ List.take (l.length / 2) l).length = l.length := by
    simp; omega
  rw [hlen]
  have h1 : (List.drop (l.length / 2) l).length = l.length - l.length / 2 := by simp
  rw [List.drop_left' h1, List.take_left' h1, List.take_append_drop]

theorem ifftshift_map {β γ : Type} (f : β → γ) (l : List β) : (Dft.ifftshift l).map f = Dft.ifftshift (l.map f) := by
  unfold Dft.ifftshift; simp [List.map_drop, List.map_take]

theorem fftshift_map {β γ : Type} (f : β → γ) (l : List β) : (Dft.fftshift l).map f = Dft.fftshift (l.map f) := by
  unfold Dft.fftshift; simp [List.map_drop, List.map_take]

theorem fftshift2_ifftshift2 {β : Type} (x : List (List β)) : fftshift2 (ifftshift2 x) = x := by
  unfold fftshift2 ifftshift2
  rw [ifftshift_map, fftshift_ifftshift, List.map_map]
  conv_rhs => rw [← List.map_id x]
  apply List.map_congr_left
  intro row _
  exact fftshift_ifftshift row

theorem fftshift2_map {β γ : Type} (f : β → γ) (x : List (List β)) :
    fftshift2 (x.map (·.map f)) = (fftshift2 x).map (·.map f) := by
  unfold fftshift2
  rw [fftshift_map, List.map_map, List.map_map]
  congr 1
  apply List.map_congr_left
  intro row _
  simp [fftshift_map]

theorem mem_ifftshift {β : Type} {l : List β} {a : β} (h : a ∈ Dft.ifftshift l) : a ∈ l := by
  unfold Dft.ifftshift at h
  rcases List.mem_append.1 h with h | h
  · exact List.mem_of_mem_drop h
  · exact List.mem_of_mem_take h

theorem ifftshift_length {β : Type} (l : List β) : (Dft.ifftshift l).length = l.length := by
  unfold Dft.ifftshift; simp; omega

theorem rect_ifftshift2 {β : Type} {nr nc : ℕ} {x : List (List β)} (h : Rect nr nc x) : Rect nr nc (ifftshift2 x) := by
  unfold ifftshift2
  refine ⟨by rw [ifftshift_length, List.length_map]; exact h.1, ?_⟩
  intro row hrow
  obtain ⟨r0, hr0, rfl⟩ := List.mem_map.1 (mem_ifftshift hrow)
  rw [ifftshift_length]; exact h.2 r0 hr0

/-- all entries non-negative -/
def NonNeg (A : RImg ℝ) : Prop := ∀ row ∈ A, ∀ a ∈ row, 0 ≤ a

theorem nonNeg_ifftshift2 {A : RImg ℝ} (h : NonNeg A) : NonNeg (ifftshift2 A) := by
  intro row hrow a ha
  unfold ifftshift2 at hrow
  obtain ⟨r0, hr0, rfl⟩ := List.mem_map.1 (mem_ifftshift hrow)
  exact h r0 hr0 a (mem_ifftshift ha)

theorem nonNeg_build {nr nc : ℕ} {g : ℕ → ℕ → ℝ} (h : NonNeg (build nr nc g)) : ∀ k < nr, ∀ l < nc, 0 ≤ g k l := by
  intro k hk l hl
  unfold build vbuild at h
  exact h _ (List.mem_map.2 ⟨k, List.mem_range.2 hk, rfl⟩) _ (List.mem_map.2 ⟨l, List.mem_range.2 hl, rfl⟩)

/-! ### ortho-normalised transforms invert each other -/
theorem toC_dft2C_smul {nr nc : ℕ} (hr : 0 < nr) (hc : 0 < nc) (c : ℝ) (g : ℕ → ℕ → Cx ℝ) (k l : ℕ) :
    toC (dft2C nr nc (fun m n => Cx.smul c (g m n)) k l) = (c : ℂ) * toC (dft2C nr nc g k l) := by
  rw [toC_dft2C hr hc, toC_dft2C hr hc, ← Spectral.dft2_smul]
  congr 1
  funext m n
  exact toC_smul c _

theorem fft2Ortho_ifft2Ortho_build {nr nc : ℕ} (hr : 0 < nr) (hc : 0 < nc) (Y : ℕ → ℕ → Cx ℝ) :
    fft2Ortho (ifft2Ortho (build nr nc Y)) = build nr nc Y := by
  rw [ifft2Ortho_build hr hc, fft2Ortho_build hr hc]
  apply build_toC_inj
  intro k hk l hl
  rw [toC_smul, toC_dft2C_smul hr hc, dft2C_idft2C Y hk hl]
  have hne := sqrt_size_ne_zero hr hc
  have hne' : ((Real.sqrt ((nr * nc : ℕ) : ℝ) : ℝ) : ℂ) ≠ 0 := by exact_mod_cast hne
  rw [Complex.ofReal_div, Complex.ofReal_one]
  field_simp

/-! ### single state -/
/-- the replaced far field of the single-state branch: `A'·exp(i·angle F)` -/
noncomputable def singleY (a' : ℕ → ℕ → ℝ) (F : ℕ → ℕ → Cx ℝ) (k l : ℕ) : Cx ℝ :=
  Cx.smul (a' k l) (Cx.cis (Cx.angle (F k l)))

theorem fourierProjectionSingle_build {nr nc : ℕ} (hr : 0 < nr) (hc : 0 < nc) {A : RImg ℝ} (a' : ℕ → ℕ → ℝ)
    (hA : ifftshift2 A = build nr nc a') (g : ℕ → ℕ → Cx ℝ) :
    fourierProjectionSingle A (build nr nc g)
      = ifft2Ortho (build nr nc (singleY a' fun k l => Cx.smul (1 / Real.sqrt ((nr * nc : ℕ) : ℝ)) (dft2C nr nc g k l))) := by
  unfold fourierProjectionSingle
  simp only
  rw [hA, fft2Ortho_build hr hc, zipWith_build]
  rfl

theorem normSq_singleY (a' : ℕ → ℕ → ℝ) (F : ℕ → ℕ → Cx ℝ) (k l : ℕ) :
    Complex.normSq (toC (singleY a' F k l)) = a' k l * a' k l := by
  unfold singleY
  rw [toC_smul, Complex.normSq_mul, Complex.normSq_ofReal, ← abs2_eq, abs2_cis, mul_one]

theorem toC_cis_angle (z : Cx ℝ) : toC (Cx.cis (Cx.angle z)) = Complex.exp ((Complex.arg (toC z) : ℂ) * Complex.I) := by
  rw [toC_cis]
  rfl

/-- re-projecting the replaced far field changes nothing when the amplitude is non-negative -/
theorem singleY_idem (a' : ℕ → ℕ → ℝ) (F : ℕ → ℕ → Cx ℝ) (k l : ℕ) (ha : 0 ≤ a' k l) :
    singleY a' (singleY a' F) k l = singleY a' F k l := by
  apply toC_injective
  show toC (Cx.smul (a' k l) (Cx.cis (Cx.angle (singleY a' F k l)))) = toC (singleY a' F k l)
  rw [toC_smul, toC_cis_angle]
  rcases eq_or_lt_of_le ha with h0 | hpos
  · unfold singleY
    rw [toC_smul, ← h0]; simp
  · set Y := toC (singleY a' F k l) with hY
    have hnorm : ‖Y‖ = a' k l := by
      rw [Complex.norm_def, hY, normSq_singleY, Real.sqrt_mul_self ha]
    have := Complex.norm_mul_exp_arg_mul_I Y
    rw [hnorm] at this
    exact this

theorem modeIntensity_ifft2Ortho_build {nr nc : ℕ} (hr : 0 < nr) (hc : 0 < nc) (Y : ℕ → ℕ → Cx ℝ) :
    modeIntensity (ifft2Ortho (build nr nc Y)) = build nr nc (fun k l => Complex.normSq (toC (Y k l))) := by
  unfold modeIntensity
  rw [fft2Ortho_ifft2Ortho_build hr hc, build_map]
  exact build_congr fun k _ l _ => sq_abs _

/-- **single-state exactness**: the detector sees exactly `A²` behind the projected wave, at every
pixel (zeros of `A` and zeros of the current far field included) -/
theorem detector_fourierProjectionSingle {nr nc : ℕ} (hr : 0 < nr) (hc : 0 < nc) {A : RImg ℝ} (hA : Rect nr nc A)
    {x : Img ℝ} (hx : Rect nr nc x) :
    detector [fourierProjectionSingle A x] = A.map (·.map fun a => a * a) := by
  obtain ⟨g, rfl⟩ := hx.cx_build
  obtain ⟨a', ha'⟩ := (rect_ifftshift2 hA).exists_build
  rw [fourierProjectionSingle_build hr hc a' ha']
  unfold detector intensitiesCorner
  simp only [List.map_cons, List.map_nil, List.headD_cons]
  show fftshift2 (sumModes _ [modeIntensity _]) = _
  rw [modeIntensity_ifft2Ortho_build hr hc, ifft2Ortho_build hr hc, zerosLike_build]
  unfold sumModes
  simp only [List.foldl_cons, List.foldl_nil]
  rw [zipWith_build]
  have : build nr nc (fun i j => (0 : ℝ) + Complex.normSq (toC (singleY a' (fun k l =>
      Cx.smul (1 / Real.sqrt ((nr * nc : ℕ) : ℝ)) (dft2C nr nc g k l)) i j)))
      = (build nr nc a').map (·.map fun a => a * a) := by
    rw [build_map]
    apply build_congr
    intro k _ l _
    rw [normSq_singleY]; simp
  rw [this, ← ha', fftshift2_map, fftshift2_ifftshift2]

/-- **single-state idempotence** -/
theorem fourierProjectionSingle_idem {nr nc : ℕ} (hr : 0 < nr) (hc : 0 < nc) {A : RImg ℝ} (hA : Rect nr nc A)
    (hpos : NonNeg A) {x : Img ℝ} (hx : Rect nr nc x) :
    fourierProjectionSingle A (fourierProjectionSingle A x) = fourierProjectionSingle A x := by
  obtain ⟨g, rfl⟩ := hx.cx_build
  obtain ⟨a', ha'⟩ := (rect_ifftshift2 hA).exists_build
  have hnn : ∀ k < nr, ∀ l < nc, 0 ≤ a' k l := nonNeg_build (ha' ▸ nonNeg_ifftshift2 hpos)
  rw [fourierProjectionSingle_build hr hc a' ha']
  set Y := singleY a' fun k l => Cx.smul (1 / Real.sqrt ((nr * nc : ℕ) : ℝ)) (dft2C nr nc g k l) with hY
  unfold fourierProjectionSingle
  simp only
  rw [ha', fft2Ortho_ifft2Ortho_build hr hc, zipWith_build]
  congr 1
  apply build_congr
  intro k hk l hl
  exact singleY_idem a' _ k l (hnn k hk l hl)


/-! ### mixed state -/
theorem isZero_iff (x : ℝ) : isZero x = true ↔ x = 0 := by
  unfold isZero
  simp only [Bool.not_eq_true', Bool.or_eq_false_iff, NumReal.zero_eq]
  constructor
  · rintro ⟨h1, h2⟩
    have h1' : ¬ x < 0 := by intro h; rw [(NumReal.ltb_eq x 0).2 h] at h1; exact Bool.noConfusion h1
    have h2' : ¬ 0 < x := by intro h; rw [(NumReal.ltb_eq 0 x).2 h] at h2; exact Bool.noConfusion h2
    exact le_antisymm (not_lt.1 h2') (not_lt.1 h1')
  · rintro rfl
    constructor
    · cases h : Num.ltb (0 : ℝ) 0
      · rfl
      · exact absurd ((NumReal.ltb_eq 0 0).1 h) (lt_irrefl 0)
    · cases h : Num.ltb (0 : ℝ) 0
      · rfl
      · exact absurd ((NumReal.ltb_eq 0 0).1 h) (lt_irrefl 0)

theorem sumModes_builds (nr nc : ℕ) (gs : List (ℕ → ℕ → ℝ)) (z : ℕ → ℕ → ℝ) :
    sumModes (build nr nc z) (gs.map (build nr nc))
      = build nr nc (fun i j => z i j + (gs.map fun g => g i j).sum) := by
  induction gs generalizing z with
  | nil => simp [sumModes]
  | cons g rest ih =>
    unfold sumModes at ih ⊢
    simp only [List.map_cons, List.foldl_cons]
    rw [zipWith_build, ih]
    apply build_congr
    intro i _ j _
    simp only [NumReal.add_eq, List.sum_cons]
    ring

theorem exists_builds {nr nc : ℕ} (xs : List (Img ℝ)) (h : ∀ x ∈ xs, Rect nr nc x) :
    ∃ gs : List (ℕ → ℕ → Cx ℝ), xs = gs.map (build nr nc) := by
  induction xs with
  | nil => exact ⟨[], rfl⟩
  | cons x rest ih =>
    obtain ⟨g, hg⟩ := (h x List.mem_cons_self).cx_build
    obtain ⟨gs, hgs⟩ := ih (fun y hy => h y (List.mem_cons_of_mem _ hy))
    exact ⟨g :: gs, by rw [hg, hgs]; rfl⟩

/-- `Σ_modes |F_m(k,l)|²` -/
noncomputable def sumSq (Gs : List (ℕ → ℕ → Cx ℝ)) (k l : ℕ) : ℝ := (Gs.map fun G => Complex.normSq (toC (G k l))).sum
/-- entry of `farfieldAmplitudes` -/
noncomputable def ffC (Gs : List (ℕ → ℕ → Cx ℝ)) (k l : ℕ) : ℝ := Real.sqrt (0 + sumSq Gs k l)
/-- entry of `amplitude_modification` (with the `0 ↦ ∞` guard) -/
noncomputable def modfC (a' : ℕ → ℕ → ℝ) (Gs : List (ℕ → ℕ → Cx ℝ)) (k l : ℕ) : ℝ :=
  if ffC Gs k l = 0 then 0 else a' k l / ffC Gs k l
/-- replaced far field of one mode -/
noncomputable def mixedY (a' : ℕ → ℕ → ℝ) (Gs : List (ℕ → ℕ → Cx ℝ)) (G : ℕ → ℕ → Cx ℝ) (k l : ℕ) : Cx ℝ :=
  Cx.smul (modfC a' Gs k l) (G k l)

theorem sumSq_nonneg (Gs : List (ℕ → ℕ → Cx ℝ)) (k l : ℕ) : 0 ≤ sumSq Gs k l := by
  unfold sumSq
  apply List.sum_nonneg
  intro x hx
  obtain ⟨G, _, rfl⟩ := List.mem_map.1 hx
  exact Complex.normSq_nonneg _

theorem farfieldAmplitudes_builds {nr nc : ℕ} (G0 : ℕ → ℕ → Cx ℝ) (Gr : List (ℕ → ℕ → Cx ℝ)) :
    farfieldAmplitudes ((G0 :: Gr).map (build nr nc)) = build nr nc (ffC (G0 :: Gr)) := by
  unfold farfieldAmplitudes
  simp only [List.map_cons, List.headD_cons]
  rw [zerosLike_build]
  have h : (build nr nc G0).map (·.map fun z => Num.sq (Cx.abs z)) ::
      (Gr.map (build nr nc)).map (fun F => F.map (·.map fun z => Num.sq (Cx.abs z)))
      = ((G0 :: Gr).map fun G => fun k l => Complex.normSq (toC (G k l))).map (build nr nc) := by
    simp only [List.map_cons, List.map_map]
    congr 1
    · rw [build_map]; exact build_congr fun k _ l _ => sq_abs _
    · apply List.map_congr_left
      intro G _
      simp only [Function.comp]
      rw [build_map]; exact build_congr fun k _ l _ => sq_abs _
  rw [h, sumModes_builds, build_map]
  apply build_congr
  intro k _ l _
  simp only [NumReal.sqrt_eq, ffC, sumSq, List.map_map]
  rfl

theorem mixed_core {nr nc : ℕ} (a' : ℕ → ℕ → ℝ) (G0 : ℕ → ℕ → Cx ℝ) (Gr : List (ℕ → ℕ → Cx ℝ)) :
    (let Fs := (G0 :: Gr).map (build nr nc)
     let ff := farfieldAmplitudes Fs
     let modf : RImg ℝ := List.zipWith (List.zipWith fun a f => if isZero f then Num.zero else a / f) (build nr nc a') ff
     Fs.map fun F => ifft2Ortho (List.zipWith (List.zipWith fun m f => Cx.smul m f) modf F))
      = (G0 :: Gr).map fun G => ifft2Ortho (build nr nc (mixedY a' (G0 :: Gr) G)) := by
  simp only
  rw [farfieldAmplitudes_builds, zipWith_build, List.map_map]
  apply List.map_congr_left
  intro G _
  simp only [Function.comp]
  rw [zipWith_build]
  congr 1
  apply build_congr
  intro k _ l _
  unfold mixedY modfC
  congr 1
  by_cases h : ffC (G0 :: Gr) k l = 0
  · rw [if_pos ((isZero_iff _).2 h), if_pos h]; simp
  · rw [if_neg (fun hh => h ((isZero_iff _).1 hh)), if_neg h]

theorem normSq_mixedY (a' : ℕ → ℕ → ℝ) (Gs : List (ℕ → ℕ → Cx ℝ)) (G : ℕ → ℕ → Cx ℝ) (k l : ℕ) :
    Complex.normSq (toC (mixedY a' Gs G k l)) = modfC a' Gs k l * modfC a' Gs k l * Complex.normSq (toC (G k l)) := by
  unfold mixedY
  rw [toC_smul, Complex.normSq_mul, Complex.normSq_ofReal]

theorem sumSq_mixedY (a' : ℕ → ℕ → ℝ) (Gs : List (ℕ → ℕ → Cx ℝ)) (k l : ℕ) :
    sumSq (Gs.map (mixedY a' Gs)) k l = modfC a' Gs k l * modfC a' Gs k l * sumSq Gs k l := by
  unfold sumSq
  rw [List.map_map, ← List.sum_map_mul_left]
  congr 1
  apply List.map_congr_left
  intro G _
  simp only [Function.comp]
  exact normSq_mixedY a' Gs G k l

/-- the projected incoherent intensity: `A'²` wherever the current far field is non-zero, `0` elsewhere -/
theorem sumSq_projected (a' : ℕ → ℕ → ℝ) (Gs : List (ℕ → ℕ → Cx ℝ)) (k l : ℕ) :
    sumSq (Gs.map (mixedY a' Gs)) k l = if ffC Gs k l = 0 then 0 else a' k l * a' k l := by
  rw [sumSq_mixedY]
  unfold modfC
  by_cases h : ffC Gs k l = 0
  · rw [if_pos h, if_pos h]; simp
  · rw [if_neg h, if_neg h]
    have hS : ffC Gs k l * ffC Gs k l = 0 + sumSq Gs k l := by
      unfold ffC
      exact Real.mul_self_sqrt (by have := sumSq_nonneg Gs k l; linarith)
    have : sumSq Gs k l = ffC Gs k l * ffC Gs k l := by linarith
    rw [this]
    field_simp

/-- re-projection leaves the replaced far field unchanged (non-negative amplitudes) -/
theorem mixedY_idem (a' : ℕ → ℕ → ℝ) (Gs : List (ℕ → ℕ → Cx ℝ)) (G : ℕ → ℕ → Cx ℝ) (k l : ℕ) (ha : 0 ≤ a' k l) :
    mixedY a' (Gs.map (mixedY a' Gs)) (mixedY a' Gs G) k l = mixedY a' Gs G k l := by
  have hproj := sumSq_projected a' Gs k l
  apply toC_injective
  show toC (Cx.smul (modfC a' (Gs.map (mixedY a' Gs)) k l) (mixedY a' Gs G k l)) = _
  rw [toC_smul]
  have hff' : ffC (Gs.map (mixedY a' Gs)) k l = if ffC Gs k l = 0 then 0 else a' k l := by
    unfold ffC at hproj ⊢
    rw [hproj]
    split_ifs
    · simp
    · rw [zero_add, Real.sqrt_mul_self ha]
  by_cases h : ffC Gs k l = 0
  · -- current far field vanishes: everything is zero
    have : toC (mixedY a' Gs G k l) = 0 := by
      unfold mixedY modfC; rw [if_pos h, toC_smul]; simp
    rw [this, mul_zero]
  · rw [if_neg h] at hff'
    rcases eq_or_lt_of_le ha with h0 | hpos
    · have : toC (mixedY a' Gs G k l) = 0 := by
        unfold mixedY modfC; rw [if_neg h, toC_smul, ← h0]; simp
      rw [this, mul_zero]
    · have hm : modfC a' (Gs.map (mixedY a' Gs)) k l = 1 := by
        unfold modfC
        rw [hff', if_neg hpos.ne', div_self hpos.ne']
      rw [hm]; simp


theorem fourierProjectionMixed_of_Fs {nr nc : ℕ} {A : RImg ℝ} (a' : ℕ → ℕ → ℝ) (hA : ifftshift2 A = build nr nc a')
    (xs : List (Img ℝ)) (G0 : ℕ → ℕ → Cx ℝ) (Gr : List (ℕ → ℕ → Cx ℝ))
    (hFs : xs.map fft2Ortho = (G0 :: Gr).map (build nr nc)) :
    fourierProjectionMixed A xs
      = (G0 :: Gr).map fun G => ifft2Ortho (build nr nc (mixedY a' (G0 :: Gr) G)) := by
  unfold fourierProjectionMixed
  simp only
  rw [hA, hFs]
  exact mixed_core a' G0 Gr

/-- far fields of a non-empty list of rectangular modes, as builds -/
theorem map_fft2Ortho_builds {nr nc : ℕ} (hr : 0 < nr) (hc : 0 < nc) (gs : List (ℕ → ℕ → Cx ℝ)) :
    (gs.map (build nr nc)).map fft2Ortho
      = (gs.map fun g => fun k l => Cx.smul (1 / Real.sqrt ((nr * nc : ℕ) : ℝ)) (dft2C nr nc g k l)).map (build nr nc) := by
  rw [List.map_map, List.map_map]
  apply List.map_congr_left
  intro g _
  exact fft2Ortho_build hr hc g

theorem intensitiesCorner_eq (ws : List (Img ℝ)) :
    intensitiesCorner ws = sumModes (zerosLike (ws.headD [])) (ws.map modeIntensity) := rfl

theorem intensitiesCorner_mixed {nr nc : ℕ} (hr : 0 < nr) (hc : 0 < nc) (a' : ℕ → ℕ → ℝ)
    (G0 : ℕ → ℕ → Cx ℝ) (Gr : List (ℕ → ℕ → Cx ℝ)) :
    intensitiesCorner ((G0 :: Gr).map fun G => ifft2Ortho (build nr nc (mixedY a' (G0 :: Gr) G)))
      = build nr nc (fun k l => if ffC (G0 :: Gr) k l = 0 then 0 else a' k l * a' k l) := by
  rw [intensitiesCorner_eq]
  have hhead : (((G0 :: Gr).map fun G => ifft2Ortho (build nr nc (mixedY a' (G0 :: Gr) G))).headD [])
      = ifft2Ortho (build nr nc (mixedY a' (G0 :: Gr) G0)) := rfl
  rw [hhead, ifft2Ortho_build hr hc, zerosLike_build, List.map_map]
  have hm : (G0 :: Gr).map (modeIntensity ∘ fun G => ifft2Ortho (build nr nc (mixedY a' (G0 :: Gr) G)))
      = ((G0 :: Gr).map fun G => fun k l => Complex.normSq (toC (mixedY a' (G0 :: Gr) G k l))).map (build nr nc) := by
    rw [List.map_map]
    apply List.map_congr_left
    intro G _
    simp only [Function.comp]
    exact modeIntensity_ifft2Ortho_build hr hc _
  rw [hm, sumModes_builds]
  apply build_congr
  intro k _ l _
  have := sumSq_projected a' (G0 :: Gr) k l
  rw [← this, zero_add]
  unfold sumSq
  rw [List.map_map, List.map_map]
  rfl

theorem mem_build {β : Type} {nr nc : ℕ} {g : ℕ → ℕ → β} {k l : ℕ} (hk : k < nr) (hl : l < nc) :
    ∃ row ∈ build nr nc g, g k l ∈ row := by
  refine ⟨vbuild nc (g k), ?_, ?_⟩
  · exact List.mem_map.2 ⟨k, List.mem_range.2 hk, rfl⟩
  · exact List.mem_map.2 ⟨l, List.mem_range.2 hl, rfl⟩

/-- **mixed-state exactness**, pixel by pixel in the corner-centred convention: the incoherent
intensity of the projected modes is `A'²` wherever the current far field is non-zero and `0`
where it vanishes (the code's `0 ↦ ∞` guard). -/
theorem intensitiesCorner_fourierProjectionMixed {nr nc : ℕ} (hr : 0 < nr) (hc : 0 < nc) {A : RImg ℝ}
    (hA : Rect nr nc A) (xs : List (Img ℝ)) (hxs : ∀ x ∈ xs, Rect nr nc x) (hne : xs ≠ []) :
    intensitiesCorner (fourierProjectionMixed A xs)
      = List.zipWith (List.zipWith fun a f => if f = 0 then 0 else a * a) (ifftshift2 A)
          (farfieldAmplitudes (xs.map fft2Ortho)) := by
  obtain ⟨gs, rfl⟩ := exists_builds xs hxs
  obtain ⟨a', ha'⟩ := (rect_ifftshift2 hA).exists_build
  cases gs with
  | nil => exact absurd rfl hne
  | cons g0 gr =>
    have hFs : ((g0 :: gr).map (build nr nc)).map fft2Ortho
        = ((fun k l => Cx.smul (1 / Real.sqrt ((nr * nc : ℕ) : ℝ)) (dft2C nr nc g0 k l)) ::
            gr.map fun g => fun k l => Cx.smul (1 / Real.sqrt ((nr * nc : ℕ) : ℝ)) (dft2C nr nc g k l)).map
            (build nr nc) := map_fft2Ortho_builds hr hc (g0 :: gr)
    rw [fourierProjectionMixed_of_Fs a' ha' _ _ _ hFs, intensitiesCorner_mixed hr hc, hFs,
      farfieldAmplitudes_builds, ha', zipWith_build]

/-- mixed-state exactness in the detector convention when no far-field pixel vanishes -/
theorem detector_fourierProjectionMixed {nr nc : ℕ} (hr : 0 < nr) (hc : 0 < nc) {A : RImg ℝ}
    (hA : Rect nr nc A) (xs : List (Img ℝ)) (hxs : ∀ x ∈ xs, Rect nr nc x) (hne : xs ≠ [])
    (hff : ∀ row ∈ farfieldAmplitudes (xs.map fft2Ortho), ∀ f ∈ row, f ≠ 0) :
    detector (fourierProjectionMixed A xs) = A.map (·.map fun a => a * a) := by
  unfold detector
  rw [intensitiesCorner_fourierProjectionMixed hr hc hA xs hxs hne]
  obtain ⟨gs, rfl⟩ := exists_builds xs hxs
  obtain ⟨a', ha'⟩ := (rect_ifftshift2 hA).exists_build
  cases gs with
  | nil => exact absurd rfl hne
  | cons g0 gr =>
    have hFs : ((g0 :: gr).map (build nr nc)).map fft2Ortho
        = ((fun k l => Cx.smul (1 / Real.sqrt ((nr * nc : ℕ) : ℝ)) (dft2C nr nc g0 k l)) ::
            gr.map fun g => fun k l => Cx.smul (1 / Real.sqrt ((nr * nc : ℕ) : ℝ)) (dft2C nr nc g k l)).map
            (build nr nc) := map_fft2Ortho_builds hr hc (g0 :: gr)
    rw [hFs, farfieldAmplitudes_builds] at hff ⊢
    rw [ha', zipWith_build]
    have key : ∀ Gs : List (ℕ → ℕ → Cx ℝ), (∀ row ∈ build nr nc (ffC Gs), ∀ f ∈ row, f ≠ 0) →
        build nr nc (fun i j => if ffC Gs i j = 0 then 0 else a' i j * a' i j)
          = (build nr nc a').map (·.map fun a => a * a) := by
      intro Gs hGs
      rw [build_map]
      apply build_congr
      intro k hk l hl
      obtain ⟨row, hrow, hmem⟩ := mem_build (g := ffC Gs) hk hl
      rw [if_neg (hGs row hrow _ hmem)]
    rw [key _ hff, ← ha', fftshift2_map, fftshift2_ifftshift2]

/-- **mixed-state idempotence** -/
theorem fourierProjectionMixed_idem {nr nc : ℕ} (hr : 0 < nr) (hc : 0 < nc) {A : RImg ℝ}
    (hA : Rect nr nc A) (hpos : NonNeg A) (xs : List (Img ℝ)) (hxs : ∀ x ∈ xs, Rect nr nc x) :
    fourierProjectionMixed A (fourierProjectionMixed A xs) = fourierProjectionMixed A xs := by
  obtain ⟨gs, rfl⟩ := exists_builds xs hxs
  obtain ⟨a', ha'⟩ := (rect_ifftshift2 hA).exists_build
  have hnn : ∀ k < nr, ∀ l < nc, 0 ≤ a' k l := nonNeg_build (ha' ▸ nonNeg_ifftshift2 hpos)
  cases gs with
  | nil => rfl
  | cons g0 gr =>
    have hFs : ((g0 :: gr).map (build nr nc)).map fft2Ortho
        = ((fun k l => Cx.smul (1 / Real.sqrt ((nr * nc : ℕ) : ℝ)) (dft2C nr nc g0 k l)) ::
            gr.map fun g => fun k l => Cx.smul (1 / Real.sqrt ((nr * nc : ℕ) : ℝ)) (dft2C nr nc g k l)).map
            (build nr nc) := map_fft2Ortho_builds hr hc (g0 :: gr)
    rw [fourierProjectionMixed_of_Fs a' ha' _ _ _ hFs]
    set G0 := fun k l => Cx.smul (1 / Real.sqrt ((nr * nc : ℕ) : ℝ)) (dft2C nr nc g0 k l) with hG0
    set Gr := gr.map fun g => fun k l => Cx.smul (1 / Real.sqrt ((nr * nc : ℕ) : ℝ)) (dft2C nr nc g k l) with hGr
    have hFs2 : ((G0 :: Gr).map fun G => ifft2Ortho (build nr nc (mixedY a' (G0 :: Gr) G))).map fft2Ortho
        = (mixedY a' (G0 :: Gr) G0 :: Gr.map (mixedY a' (G0 :: Gr))).map (build nr nc) := by
      rw [List.map_map, ← List.map_cons (f := mixedY a' (G0 :: Gr)), List.map_map]
      apply List.map_congr_left
      intro G _
      simp only [Function.comp]
      exact fft2Ortho_ifft2Ortho_build hr hc _
    rw [fourierProjectionMixed_of_Fs a' ha' _ _ _ hFs2, ← List.map_cons (f := mixedY a' (G0 :: Gr)), List.map_map]
    apply List.map_congr_left
    intro G _
    simp only [Function.comp]
    congr 1
    apply build_congr
    intro k hk l hl
    exact mixedY_idem a' (G0 :: Gr) G k l (hnn k hk l hl)

end QuantemModel.PtychoOps
