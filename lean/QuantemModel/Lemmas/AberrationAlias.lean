import QuantemModel.Lemmas.Aberration
/-!
C12 — alias handling: whichever of the three implementations processes a dict holding
`defocus = x` (and no later writer of C10), the resulting coefficient dict has C10 = −x.
-/
namespace QuantemModel.Aberration
open QuantemModel QuantemModel.Generated.Aberration

/-! ### alias handling -/
section aliasLemmas
variable {R : Type} [Num R]

theorem dget_dset_same (d : List (String × R)) (k : String) (v : R) : dget (dset d k v) k = some v := by
  induction d with
  | nil => simp [dset, dget]
  | cons h t ih =>
    obtain ⟨a, x⟩ := h
    by_cases hak : a = k
    · simp [dset, dget, hak]
    · simp [dset, dget, hak, ih]

theorem dget_dset_other (d : List (String × R)) (k k' : String) (v : R) (h : k ≠ k') :
    dget (dset d k v) k' = dget d k' := by
  induction d with
  | nil => simp [dset, dget, h]
  | cons hd t ih =>
    obtain ⟨a, x⟩ := hd
    by_cases hak : a = k
    · subst hak; simp [dset, dget, h]
    · by_cases hak' : a = k'
      · subst hak'; simp [dset, dget, hak]
      · simp [dset, dget, hak, hak', ih]

/-- the key written by one `process_polar_params` iteration for key `k` (if any) -/
def writes (syms : List String) (aliases : List (String × String)) (k : String) : Option String :=
  if syms.contains k then some k else if k = "defocus" then some "C10" else aliasTarget aliases k

theorem processStep_preserves (syms : List String) (aliases : List (String × String))
    (out : List (String × R)) (k : String) (v : Option R) (t : String)
    (h : v ≠ none → writes syms aliases k ≠ some t) :
    dget (processStep syms aliases out k v) t = dget out t := by
  unfold processStep
  cases v with
  | none => rfl
  | some x =>
    have h' := h (by simp)
    unfold writes at h'
    by_cases h1 : syms.contains k = true
    · simp only [h1, if_true] at h' ⊢
      exact dget_dset_other _ _ _ _ (fun e => h' (by rw [e]))
    · simp only [h1, if_false, Bool.false_eq_true] at h' ⊢
      by_cases h2 : k = "defocus"
      · simp only [h2, if_true] at h' ⊢
        exact dget_dset_other _ _ _ _ (fun e => h' (by rw [e]))
      · simp only [h2, if_false] at h' ⊢
        cases ha : aliasTarget aliases k with
        | none => rfl
        | some tt =>
          simp only [ha] at h' ⊢
          exact dget_dset_other _ _ _ _ (fun e => h' (by rw [e]))

theorem processFrom_preserves (syms : List String) (aliases : List (String × String)) (t : String) :
    ∀ (l : List (String × Option R)) (out : List (String × R)),
      (∀ kv ∈ l, kv.2 ≠ none → writes syms aliases kv.1 ≠ some t) →
      dget (processFrom syms aliases out l) t = dget out t := by
  intro l
  induction l with
  | nil => intro out _; rfl
  | cons hd tl ih =>
    intro out h
    obtain ⟨k, v⟩ := hd
    simp only [processFrom]
    rw [ih _ (fun kv hkv => h kv (by simp [hkv]))]
    exact processStep_preserves _ _ _ _ _ _ (h (k, v) (by simp))

theorem processFrom_append (syms : List String) (aliases : List (String × String)) :
    ∀ (l1 l2 : List (String × Option R)) (out : List (String × R)),
      processFrom syms aliases out (l1 ++ l2) = processFrom syms aliases (processFrom syms aliases out l1) l2 := by
  intro l1
  induction l1 with
  | nil => intro l2 out; rfl
  | cons hd tl ih => intro l2 out; obtain ⟨k, v⟩ := hd; simp only [List.cons_append, processFrom]; exact ih _ _

/-- `process_polar_params` on a dict holding `defocus = x`, no later entry writing C10:
the result has C10 = −x (whatever came before, including an explicit C10). -/
theorem processFrom_defocus (syms : List String) (aliases : List (String × String))
    (hs : syms.contains "defocus" = false)
    (l1 l2 : List (String × Option R)) (out : List (String × R)) (x : R)
    (h2 : ∀ kv ∈ l2, kv.2 ≠ none → writes syms aliases kv.1 ≠ some "C10") :
    dget (processFrom syms aliases out (l1 ++ ("defocus", some x) :: l2)) "C10" = some (-x) := by
  rw [processFrom_append]
  simp only [processFrom]
  rw [processFrom_preserves _ _ _ _ _ h2]
  simp only [processStep, hs, Bool.false_eq_true, if_false, if_true]
  exact dget_dset_same _ _ _


theorem validate_defocus (syms : List String) (aliases : List (String × String))
    (hs : syms.contains "defocus" = false)
    (l1 l2 : List (String × Option R)) (x : R) (out : List (String × R))
    (h2 : ∀ kv ∈ l2, kv.2 ≠ none → writes syms aliases kv.1 ≠ some "C10")
    (h : validate syms aliases (l1 ++ ("defocus", some x) :: l2) = .ok out) :
    dget out "C10" = some (-x) := by
  unfold validate at h
  split at h
  · injection h with h; subst h
    exact processFrom_defocus syms aliases hs l1 l2 [] x h2
  · cases h

/-! probe_params setter -/

/-- an entry of the probe_params dict that does not write key `t` -/
def NonWriterTop (syms : List String) (aliases : List (String × String)) (t : String) :
    String × PVal R → Prop
  | (k, .num _) => writes syms aliases k ≠ some t
  | (_, .dict items) => ∀ kv ∈ items, kv.2 ≠ none → writes syms aliases kv.1 ≠ some t
  | _ => True

theorem processTop_preserves (syms : List String) (aliases : List (String × String)) (t : String) :
    ∀ (l : List (String × PVal R)) (out : List (String × R)),
      (∀ kv ∈ l, NonWriterTop syms aliases t kv) →
      dget (processTop syms aliases out l) t = dget out t := by
  intro l
  induction l with
  | nil => intro out _; rfl
  | cons hd tl ih =>
    intro out h
    obtain ⟨k, v⟩ := hd
    have hh := h (k, v) (by simp)
    have ht := fun kv hkv => h kv (List.mem_cons_of_mem _ hkv)
    cases v with
    | none => simp only [processTop]; exact ih _ ht
    | other => simp only [processTop]; exact ih _ ht
    | num x =>
      simp only [processTop]
      rw [ih _ ht]
      exact processStep_preserves _ _ _ _ _ _ (fun _ => hh)
    | dict items =>
      simp only [processTop]
      rw [ih _ ht]
      exact processFrom_preserves _ _ _ _ _ hh

theorem processTop_append (syms : List String) (aliases : List (String × String)) :
    ∀ (l1 l2 : List (String × PVal R)) (out : List (String × R)),
      processTop syms aliases out (l1 ++ l2) = processTop syms aliases (processTop syms aliases out l1) l2 := by
  intro l1
  induction l1 with
  | nil => intro l2 out; rfl
  | cons hd tl ih =>
    intro l2 out
    obtain ⟨k, v⟩ := hd
    cases v <;> simp only [List.cons_append, processTop] <;> exact ih _ _

theorem fillZeros_preserves (syms : List String) (mo : Nat) (t : String) :
    ∀ (ss : List String) (out : List (String × R)), (dget out t).isSome →
      dget (fillZeros syms mo out ss) t = dget out t := by
  intro ss
  induction ss with
  | nil => intro out _; rfl
  | cons s rest ih =>
    intro out h
    simp only [fillZeros]
    split
    · rename_i hc
      have hst : s ≠ t := by
        intro e; subst e
        simp only [Bool.and_eq_true, decide_eq_true_eq] at hc
        cases hd : dget out s <;> simp_all
      rw [ih _ (by rw [dget_dset_other _ _ _ _ hst]; exact h), dget_dset_other _ _ _ _ hst]
    · exact ih _ h

/-- the setter's result for a top-level `defocus = x` (no later writer of C10, nested dicts included) -/
theorem probeParams_defocus (defaults syms : List String) (aliases : List (String × String))
    (hs : syms.contains "defocus" = false) (mo : Option Nat)
    (l1 l2 : List (String × PVal R)) (x : R) (out : List (String × R))
    (h2 : ∀ kv ∈ l2, NonWriterTop syms aliases "C10" kv)
    (h : probeParams defaults syms aliases mo (l1 ++ ("defocus", .num x) :: l2) = .ok out) :
    dget out "C10" = some (-x) := by
  have key : dget (processTop syms aliases [] (l1 ++ ("defocus", PVal.num x) :: l2)) "C10" = some (-x) := by
    rw [processTop_append]
    simp only [processTop]
    rw [processTop_preserves _ _ _ _ _ h2]
    simp only [processStep, hs, Bool.false_eq_true, if_false, if_true]
    exact dget_dset_same _ _ _
  unfold probeParams at h
  split at h
  · cases mo with
    | none => simp only at h; injection h with h; subst h; exact key
    | some m =>
      simp only at h; injection h with h; subst h
      rw [fillZeros_preserves _ _ _ _ _ (by rw [key]; rfl)]; exact key
  · cases h

/-- … and for a `defocus = x` inside a nested dict (e.g. `aberration_coefs`) -/
theorem probeParams_defocus_nested (defaults syms : List String) (aliases : List (String × String))
    (hs : syms.contains "defocus" = false) (mo : Option Nat)
    (l1 l2 : List (String × PVal R)) (kd : String) (i1 i2 : List (String × Option R)) (x : R)
    (out : List (String × R))
    (hi : ∀ kv ∈ i2, kv.2 ≠ none → writes syms aliases kv.1 ≠ some "C10")
    (h2 : ∀ kv ∈ l2, NonWriterTop syms aliases "C10" kv)
    (h : probeParams defaults syms aliases mo (l1 ++ (kd, .dict (i1 ++ ("defocus", some x) :: i2)) :: l2) = .ok out) :
    dget out "C10" = some (-x) := by
  have key : dget (processTop syms aliases [] (l1 ++ (kd, PVal.dict (i1 ++ ("defocus", some x) :: i2)) :: l2)) "C10"
      = some (-x) := by
    rw [processTop_append]
    simp only [processTop]
    rw [processTop_preserves _ _ _ _ _ h2]
    exact processFrom_defocus syms aliases hs i1 i2 _ x hi
  unfold probeParams at h
  split at h
  · cases mo with
    | none => simp only at h; injection h with h; subst h; exact key
    | some m =>
      simp only at h; injection h with h; subst h
      rw [fillZeros_preserves _ _ _ _ _ (by rw [key]; rfl)]; exact key
  · cases h

/-! complex_probe.standardize_aberration_coefs -/

/-- the key written by one `standardize_aberration_coefs` iteration -/
def swrites (aliases : List (String × String)) (k : String) : String :=
  if k = "defocus" then "C10" else (aliasTarget aliases k).getD k

theorem standardizeStep_preserves (syms : List String) (aliases : List (String × String))
    (out out' : List (String × R)) (k : String) (v : Option R) (t : String)
    (hw : swrites aliases k ≠ t) (h : standardizeStep syms aliases out k v = .ok out') :
    dget out' t = dget out t := by
  unfold standardizeStep at h
  unfold swrites at hw
  by_cases h1 : k = "defocus"
  · simp only [h1, if_true] at h hw
    cases v with
    | none => cases h
    | some x => simp only at h; injection h with h; subst h; exact dget_dset_other _ _ _ _ hw
  · simp only [h1, if_false] at h hw
    split at h
    · cases v with
      | none => cases h
      | some x => simp only at h; injection h with h; subst h; exact dget_dset_other _ _ _ _ hw
    · cases h

theorem standardizeFrom_preserves (syms : List String) (aliases : List (String × String)) (t : String) :
    ∀ (l : List (String × Option R)) (out r : List (String × R)),
      (∀ kv ∈ l, swrites aliases kv.1 ≠ t) → standardizeFrom syms aliases out l = .ok r →
      dget r t = dget out t := by
  intro l
  induction l with
  | nil => intro out r _ h; simp only [standardizeFrom] at h; injection h with h; subst h; rfl
  | cons hd tl ih =>
    intro out r hn h
    obtain ⟨k, v⟩ := hd
    simp only [standardizeFrom] at h
    split at h
    · cases h
    · rename_i out' hstep
      rw [ih _ _ (fun kv hkv => hn kv (List.mem_cons_of_mem _ hkv)) h]
      exact standardizeStep_preserves _ _ _ _ _ _ _ (hn (k, v) (by simp)) hstep

theorem standardizeFrom_defocus (syms : List String) (aliases : List (String × String)) :
    ∀ (l1 l2 : List (String × Option R)) (out r : List (String × R)) (x : R),
      (∀ kv ∈ l2, swrites aliases kv.1 ≠ "C10") →
      standardizeFrom syms aliases out (l1 ++ ("defocus", some x) :: l2) = .ok r →
      dget r "C10" = some (-x) := by
  intro l1
  induction l1 with
  | nil =>
    intro l2 out r x hn h
    simp only [List.nil_append, standardizeFrom, standardizeStep, if_true] at h
    rw [standardizeFrom_preserves _ _ _ _ _ _ hn h]
    exact dget_dset_same _ _ _
  | cons hd tl ih =>
    intro l2 out r x hn h
    obtain ⟨k, v⟩ := hd
    simp only [List.cons_append, standardizeFrom] at h
    split at h
    · cases h
    · exact ih _ _ _ _ hn h

theorem standardize_defocus (syms : List String) (aliases : List (String × String))
    (l1 l2 : List (String × Option R)) (r : List (String × R)) (x : R)
    (hn : ∀ kv ∈ l2, swrites aliases kv.1 ≠ "C10")
    (h : standardize syms aliases (l1 ++ ("defocus", some x) :: l2) = .ok r) :
    dget r "C10" = some (-x) :=
  standardizeFrom_defocus syms aliases l1 l2 [] r x hn h

end aliasLemmas
set_option maxHeartbeats 1600000 in
/-- the translated loop body of `standardize_aberration_coefs` is the hand model's step, for EVERY key and value -/
theorem standardize_step_translated (out : List (String × ℝ)) (k : String) (v : Option (TVal ℝ)) :
    standardize_aberration_coefs_step out k v
      = standardizeStep POLAR_SYMBOLS POLAR_ALIASES out k (v.map TVal.toFloat) := by
  by_cases hk : k ∈ ALIAS_KEY_UNIVERSE
  · simp only [ALIAS_KEY_UNIVERSE, List.mem_cons, List.not_mem_nil, or_false] at hk
    rcases hk with rfl | rfl | rfl | rfl | rfl | rfl | rfl | rfl | rfl | rfl | rfl | rfl | rfl | rfl | rfl | rfl |
      rfl | rfl | rfl | rfl | rfl | rfl | rfl | rfl | rfl | rfl | rfl | rfl | rfl | rfl | rfl | rfl <;>
    cases v <;> rfl
  · simp only [ALIAS_KEY_UNIVERSE, List.mem_cons, List.not_mem_nil, or_false, not_or] at hk
    simp only [standardize_aberration_coefs_step, standardizeStep, POLAR_SYMBOLS, POLAR_ALIASES, aliasTarget, hk,
      if_false, Option.getD_none, List.contains_cons, List.contains_nil, Bool.or_false, beq_iff_eq, Bool.or_eq_true,
      or_self, or_false, Ne.symm, false_or]
    cases v <;> simp [hk, eq_comm]


set_option maxHeartbeats 1600000 in
/-- the translated loop body of `validators.validate_aberration_coefficients` (its own table copies) -/
theorem validate_step_translated (out : List (String × ℝ)) (k : String) (v : Option (TVal ℝ)) :
    validate_aberration_coefficients_step out k v
      = .ok (processStep VALIDATORS_POLAR_SYMBOLS VALIDATORS_POLAR_ALIASES out k (v.map TVal.toFloat)) := by
  by_cases hk : k ∈ ALIAS_KEY_UNIVERSE
  · simp only [ALIAS_KEY_UNIVERSE, List.mem_cons, List.not_mem_nil, or_false] at hk
    rcases hk with rfl | rfl | rfl | rfl | rfl | rfl | rfl | rfl | rfl | rfl | rfl | rfl | rfl | rfl | rfl | rfl |
      rfl | rfl | rfl | rfl | rfl | rfl | rfl | rfl | rfl | rfl | rfl | rfl | rfl | rfl | rfl | rfl <;>
    cases v <;> rfl
  · simp only [ALIAS_KEY_UNIVERSE, List.mem_cons, List.not_mem_nil, or_false, not_or] at hk
    simp only [validate_aberration_coefficients_step, hk, if_false]
    cases v <;>
      simp [processStep, VALIDATORS_POLAR_SYMBOLS, VALIDATORS_POLAR_ALIASES, aliasTarget, hk, eq_comm]

set_option maxHeartbeats 1600000 in
/-- the translated loop body of the `ProbeBase.probe_params` setter (non-dict values) -/
theorem probe_params_step_translated (out : List (String × ℝ)) (k : String) (v : Option (TVal ℝ)) :
    probe_params_setter_step out k v
      = .ok (processStep POLAR_SYMBOLS POLAR_ALIASES out k (v.map TVal.toFloat)) := by
  by_cases hk : k ∈ ALIAS_KEY_UNIVERSE
  · simp only [ALIAS_KEY_UNIVERSE, List.mem_cons, List.not_mem_nil, or_false] at hk
    rcases hk with rfl | rfl | rfl | rfl | rfl | rfl | rfl | rfl | rfl | rfl | rfl | rfl | rfl | rfl | rfl | rfl |
      rfl | rfl | rfl | rfl | rfl | rfl | rfl | rfl | rfl | rfl | rfl | rfl | rfl | rfl | rfl | rfl <;>
    cases v <;> rfl
  · simp only [ALIAS_KEY_UNIVERSE, List.mem_cons, List.not_mem_nil, or_false, not_or] at hk
    simp only [probe_params_setter_step, hk, if_false]
    cases v <;>
      simp [processStep, POLAR_SYMBOLS, POLAR_ALIASES, aliasTarget, hk, eq_comm]

end QuantemModel.Aberration
