import QuantemModel.Lemmas.Dataset
import QuantemModel.Lemmas.Resample
/-! `Dataset.crop` on all axes never fails once `crop_widths` has one entry per axis:
the all-slice index expression it builds is always accepted by `plan`. -/
namespace QuantemModel.Dataset
open QuantemModel.Nd QuantemModel.Resample

/-- the slice `Dataset.crop` builds for one `(before, after)` entry -/
def cropSliceI (p : Int × Int) : Item :=
  Item.slice (some p.1) (if p.2 ≠ 0 then some p.2 else none) none

theorem cropItems_all (ws : List (Int × Int)) :
    cropItems ws.length (dictZip ((List.range ws.length).map Int.ofNat) ws) = ws.map cropSliceI := by
  unfold cropItems
  have hn : ((List.range ws.length).map Int.ofNat).Nodup :=
    List.Nodup.map (fun a b h => by simpa using h) List.nodup_range
  rw [dictZip_eq_zip _ _ hn]
  apply List.ext_getElem
  · simp
  · intro i h1 h2
    have hi : i < ws.length := by simpa using h2
    simp only [List.getElem_map, List.getElem_range]
    have := dictGet_zip ((List.range ws.length).map Int.ofNat) ws i hn (by simpa using hi) hi
    simp only [List.getElem_map, List.getElem_range] at this
    rw [this]
    rfl

theorem selOf_cropSliceI (n : Nat) (p : Int × Int) : ∃ s st l, selOf n (cropSliceI p) = .ok (Sel.rng s st l) := by
  unfold selOf cropSliceI
  simp only
  cases h : sliceIndices n (some p.1) (if p.2 ≠ 0 then some p.2 else none) none with
  | none =>
    exfalso
    unfold sliceIndices at h
    simp at h
  | some r =>
    obtain ⟨s, st, l⟩ := r
    exact ⟨s, st, l, rfl⟩

/-- an all-slice crop expression is always accepted and keeps every axis -/
theorem plan_cropSlices (shape : List Nat) (ws : List (Int × Int)) (hw : ws.length = shape.length) :
    ∃ p, plan shape (ws.map cropSliceI) = .ok p ∧ p.shape.length = shape.length := by
  have hslice : ∀ it ∈ ws.map cropSliceI, it.isInt = false ∧ it.isList = false ∧ it.isEllipsis = false := by
    intro it hit
    simp only [List.mem_map] at hit
    obtain ⟨p, _, rfl⟩ := hit
    simp [cropSliceI, Item.isInt, Item.isList, Item.isEllipsis]
  have hexp : expandItems shape.length (ws.map cropSliceI) = .ok (ws.map cropSliceI) := by
    unfold expandItems
    have hf : (ws.map cropSliceI).filter Item.isEllipsis = [] := by
      rw [List.filter_eq_nil_iff]; intro a ha; simp [(hslice a ha).2.2]
    simp [hf, hw]
  let g : Nat × Item → Sel := fun x => match selOf x.1 x.2 with | .ok s => s | .error _ => default
  have hsel : ∀ x ∈ shape.zip (ws.map cropSliceI),
      selOf x.1 x.2 = .ok (g x) ∧ selOfBasic x.1 x.2 = selOf x.1 x.2 ∧ ∃ s st l, g x = Sel.rng s st l := by
    intro x hx
    have hx2 := (List.of_mem_zip hx).2
    simp only [List.mem_map] at hx2
    obtain ⟨p, _, hp⟩ := hx2
    obtain ⟨s, st, l, h⟩ := selOf_cropSliceI x.1 p
    rw [hp] at h
    refine ⟨by simp only [g, h], ?_, s, st, l, by simp only [g, h]⟩
    rw [← hp]; rfl
  have hsel2 : ∀ x ∈ shape.zip (ws.map cropSliceI), ∀ u, selOf2 u x.1 x.2 = selOf x.1 x.2 := by
    intro x hx u
    have hx2 := (List.of_mem_zip hx).2
    simp only [List.mem_map] at hx2
    obtain ⟨p, _, hp⟩ := hx2
    rw [← hp]; rfl
  unfold plan
  rw [hexp]
  simp only
  rw [mapMExcept_ok (fun (p : Nat × Item) => selOfBasic p.1 p.2) g _
    (fun x hx => by rw [(hsel x hx).2.1]; exact (hsel x hx).1)]
  simp only
  rw [mapMExcept_ok (fun (p : Nat × Item) => selOf2 _ p.1 p.2) g _ (fun x hx => by rw [hsel2 x hx]; exact (hsel x hx).1)]
  simp only
  have hl : lstLens ((shape.zip (ws.map cropSliceI)).map g) = [] := by
    unfold lstLens
    rw [List.filterMap_eq_nil_iff]
    intro a ha
    simp only [List.mem_map] at ha
    obtain ⟨x, hx, rfl⟩ := ha
    obtain ⟨s, st, l, h⟩ := (hsel x hx).2.2
    rw [h]
  rw [hl]
  simp only
  refine ⟨_, rfl, ?_⟩
  have hla := listAxes_none (ws.map cropSliceI) (fun it hit => (hslice it hit).2.1)
  simp only [Plan.shape, List.length_map]
  unfold npOrder advSeparated
  rw [hla]
  simp only [Bool.false_eq_true, if_false]
  rw [keptAxes_all _ (fun it hit => (hslice it hit).1)]
  simp [hw]

/-- `crop` without `axes` raises exactly when `crop_widths` does not have one entry per axis -/
theorem crop_all_error_iff' {d : Ds} (ws : List (Int × Int)) (ip : Bool) (hi : Inv d) :
    (∃ e, crop d ws .all ip = .error e) ↔ ws.length ≠ d.ndim := by
  constructor
  · rintro ⟨e, he⟩ hl
    rw [crop_normal hi ws .all ip] at he
    have hcore : ∃ a r, crop d ws .all true = .ok (a, r) := by
      unfold crop cropArgs
      simp only [hl, ne_eq, not_true_eq_false, if_false]
      unfold cropPlan
      rw [← hl, cropItems_all ws]
      obtain ⟨p, hp, hps⟩ := plan_cropSlices d.shape ws hl
      rw [hp]
      simp only [if_true]
      rw [setArray_same_ndim (by rw [hps]; rfl)]
      exact ⟨_, _, rfl⟩
    obtain ⟨a, r, hc⟩ := hcore
    rw [hc] at he
    cases ip <;> simp at he
  · intro hl
    exact ⟨.value, by unfold crop cropArgs; simp [hl]⟩

end QuantemModel.Dataset
