import QuantemModel.Model.DatasetHeap
import Mathlib.Data.List.Pairwise
/-! Invariant of the heap layer: calibration cells are private to their dataset. -/
namespace QuantemModel.DatasetHeap

/-- two objects hold disjoint calibration cells -/
def Sep (a b : Obj) : Prop := a.org ≠ b.org ∧ a.org ≠ b.smp ∧ a.smp ≠ b.org ∧ a.smp ≠ b.smp

theorem Sep.symm {a b : Obj} (h : Sep a b) : Sep b a :=
  ⟨fun e => h.1 e.symm, fun e => h.2.2.1 e.symm, fun e => h.2.1 e.symm, fun e => h.2.2.2 e.symm⟩

/-- the no-sharing invariant: every cell id is allocated, origin and sampling of one object are
different cells, different objects hold disjoint calibration cells, and no calibration cell is
anybody's data buffer -/
def HInv (s : St) : Prop :=
  (∀ o ∈ s.objs, o.buf < s.next ∧ o.org < s.next ∧ o.smp < s.next ∧ o.org ≠ o.smp) ∧
  s.objs.Pairwise Sep ∧
  (∀ a ∈ s.objs, ∀ b ∈ s.objs, a.org ≠ b.buf ∧ a.smp ≠ b.buf)

theorem pairwise_get {l : List Obj} (h : l.Pairwise Sep) {i k : Nat} {a b : Obj}
    (ha : l[i]? = some a) (hb : l[k]? = some b) (hik : i ≠ k) : Sep a b := by
  rw [List.pairwise_iff_getElem] at h
  obtain ⟨hi, rfl⟩ := List.getElem?_eq_some_iff.mp ha
  obtain ⟨hk, rfl⟩ := List.getElem?_eq_some_iff.mp hb
  rcases Nat.lt_or_gt_of_ne hik with hlt | hgt
  · exact h i k hi hk hlt
  · exact (h k i hk hi hgt).symm

theorem pairwise_set {l : List Obj} (h : l.Pairwise Sep) (i : Nat) (o : Obj)
    (ho : ∀ k b, l[k]? = some b → k ≠ i → Sep o b) : (l.set i o).Pairwise Sep := by
  rw [List.pairwise_iff_getElem]
  intro a b ha hb hab
  simp only [List.length_set] at ha hb
  rw [List.getElem_set, List.getElem_set]
  by_cases h1 : i = a
  · have h2 : i ≠ b := by omega
    simp only [h1, if_true, if_neg (by omega : ¬ a = b)]
    exact ho b _ (List.getElem?_eq_getElem hb) (by omega)
  · by_cases h2 : i = b
    · subst h2
      rw [if_neg h1, if_pos rfl]
      exact (ho a _ (List.getElem?_eq_getElem ha) (by omega)).symm
    · simp only [if_neg h1, if_neg h2]
      exact (List.pairwise_iff_getElem.mp h) a b ha hb hab

theorem mem_set_cases {l : List Obj} {i : Nat} {o x : Obj} (h : x ∈ l.set i o) : x = o ∨ x ∈ l := by
  rcases List.mem_or_eq_of_mem_set h with h | h
  · exact Or.inr h
  · exact Or.inl h

theorem hinv_init : HInv init := by
  refine ⟨by intro o ho; simp [init] at ho, by simp [init], by intro a ha; simp [init] at ha⟩

/-- allocating a whole new object keeps the invariant -/
theorem hinv_allocAll {s : St} (h : HInv s) : HInv (allocAll s) := by
  obtain ⟨hb, hp, hc⟩ := h
  unfold allocAll
  refine ⟨?_, ?_, ?_⟩
  · intro o ho
    simp only [List.mem_append, List.mem_singleton] at ho
    rcases ho with ho | rfl
    · have := hb o ho; simp only; omega
    · simp only; omega
  · simp only
    rw [List.pairwise_append]
    refine ⟨hp, by simp, ?_⟩
    intro a ha b hb'
    simp only [List.mem_singleton] at hb'
    subst hb'
    have := hb a ha
    simp only [Sep]; omega
  · intro a ha b hb'
    simp only [List.mem_append, List.mem_singleton] at ha hb'
    rcases ha with ha | rfl <;> rcases hb' with hb' | rfl
    · exact hc a ha b hb'
    · have := hb a ha; simp only; omega
    · have := hb b hb'; simp only; omega
    · simp only; omega

/-- rebinding some references of object `i` to fresh cells keeps the invariant -/
theorem hinv_rebind {s : St} (h : HInv s) {i : Nat} {o o' : Obj} {k : Nat} (hi : s.objs[i]? = some o)
    (hbuf : o'.buf = o.buf ∨ (s.next ≤ o'.buf ∧ o'.buf < s.next + k))
    (horg : o'.org = o.org ∨ (s.next ≤ o'.org ∧ o'.org < s.next + k))
    (hsmp : o'.smp = o.smp ∨ (s.next ≤ o'.smp ∧ o'.smp < s.next + k))
    (hne : o'.org ≠ o'.smp) (hnb : o'.org ≠ o'.buf ∧ o'.smp ≠ o'.buf) :
    HInv { s with objs := setAt s.objs i o', next := s.next + k } := by
  obtain ⟨hb, hp, hc⟩ := h
  have hom : o ∈ s.objs := List.mem_of_getElem? hi
  have hbo := hb o hom
  refine ⟨?_, ?_, ?_⟩
  · intro x hx
    rcases mem_set_cases hx with rfl | hx
    · simp only; refine ⟨?_, ?_, ?_, hne⟩ <;> omega
    · have := hb x hx; simp only; omega
  · apply pairwise_set hp
    intro k' b hk hki
    have hbm : b ∈ s.objs := List.mem_of_getElem? hk
    have hbb := hb b hbm
    have hs : Sep o b := pairwise_get hp hi hk (Ne.symm hki)
    simp only [Sep] at hs ⊢
    refine ⟨?_, ?_, ?_, ?_⟩ <;> omega
  · intro a ha b hb'
    have hco := hc o hom
    rcases mem_set_cases ha with rfl | ha2 <;> rcases mem_set_cases hb' with rfl | hb2
    · exact hnb
    · have := hb b hb2; have := hco b hb2; constructor <;> omega
    · have := hb a ha2; have := hc a ha2 o hom; constructor <;> omega
    · exact hc a ha2 b hb2

theorem hinv_view {s : St} (h : HInv s) {i : Nat} {o : Obj} (hi : s.objs[i]? = some o) :
    HInv { s with objs := s.objs ++ [⟨o.buf, s.next, s.next + 1⟩], next := s.next + 2 } := by
  obtain ⟨hb, hp, hc⟩ := h
  have hom : o ∈ s.objs := List.mem_of_getElem? hi
  refine ⟨?_, ?_, ?_⟩
  · intro x hx
    simp only [List.mem_append, List.mem_singleton] at hx
    rcases hx with hx | rfl
    · have := hb x hx; simp only; omega
    · have := hb o hom; simp only; omega
  · simp only
    rw [List.pairwise_append]
    refine ⟨hp, by simp, ?_⟩
    intro a ha b hb'
    simp only [List.mem_singleton] at hb'
    subst hb'
    have := hb a ha
    simp only [Sep]; omega
  · intro a ha b hb'
    simp only [List.mem_append, List.mem_singleton] at ha hb'
    rcases ha with ha | rfl <;> rcases hb' with hb' | rfl
    · exact hc a ha b hb'
    · exact hc a ha o hom
    · have := hb b hb'; simp only; omega
    · have := hb o hom; simp only; omega

/-- **every operation keeps the no-sharing invariant** -/
theorem hinv_step {s : St} (h : HInv s) (op : HOp) : HInv (step s op) := by
  cases op with
  | new => exact hinv_allocAll h
  | copy i =>
    simp only [step]; split
    · exact hinv_allocAll h
    · exact h
  | padCp i =>
    simp only [step]; split
    · exact hinv_allocAll h
    · exact h
  | cropCp i =>
    simp only [step]; split
    · exact hinv_allocAll h
    · exact h
  | binCp i =>
    simp only [step]; split
    · exact hinv_allocAll h
    · exact h
  | resampleCp i =>
    simp only [step]; split
    · exact hinv_allocAll h
    · exact h
  | getitemCopy i =>
    simp only [step]; split
    · exact hinv_allocAll h
    · exact h
  | derived i =>
    simp only [step]; split
    · exact hinv_allocAll h
    · exact h
  | getitemView i =>
    simp only [step]; split
    · exact h
    · rename_i o ho; exact hinv_view h ho
  | padIp i =>
    simp only [step]; split
    · exact h
    · rename_i o ho
      have hom := h.1 o (List.mem_of_getElem? ho)
      have hcb := h.2.2 o (List.mem_of_getElem? ho) o (List.mem_of_getElem? ho)
      exact hinv_rebind (k := 1) h ho (Or.inr ⟨by simp, by simp⟩) (Or.inl rfl) (Or.inl rfl) hom.2.2.2
        ⟨by simp only; omega, by simp only; omega⟩
  | setArray i =>
    simp only [step]; split
    · exact h
    · rename_i o ho
      have hom := h.1 o (List.mem_of_getElem? ho)
      exact hinv_rebind (k := 1) h ho (Or.inr ⟨by simp, by simp⟩) (Or.inl rfl) (Or.inl rfl) hom.2.2.2
        ⟨by simp only; omega, by simp only; omega⟩
  | cropIp i => exact h
  | binIp i =>
    simp only [step]; split
    · exact h
    · rename_i o ho
      exact hinv_rebind (k := 3) h ho (Or.inr ⟨by simp, by simp⟩) (Or.inr ⟨by simp, by simp⟩)
        (Or.inr ⟨by simp, by simp⟩) (by simp) ⟨by simp, by simp⟩
  | resampleIp i =>
    simp only [step]; split
    · exact h
    · rename_i o ho
      exact hinv_rebind (k := 3) h ho (Or.inr ⟨by simp, by simp⟩) (Or.inr ⟨by simp, by simp⟩)
        (Or.inr ⟨by simp, by simp⟩) (by simp) ⟨by simp, by simp⟩
  | setOrigin i =>
    simp only [step]; split
    · exact h
    · rename_i o ho
      have hom := h.1 o (List.mem_of_getElem? ho)
      have hcb := h.2.2 o (List.mem_of_getElem? ho) o (List.mem_of_getElem? ho)
      exact hinv_rebind (k := 1) h ho (Or.inl rfl) (Or.inr ⟨by simp, by simp⟩) (Or.inl rfl)
        (by simp only; omega) ⟨by simp only; omega, hcb.2⟩
  | setSampling i =>
    simp only [step]; split
    · exact h
    · rename_i o ho
      have hom := h.1 o (List.mem_of_getElem? ho)
      have hcb := h.2.2 o (List.mem_of_getElem? ho) o (List.mem_of_getElem? ho)
      exact hinv_rebind (k := 1) h ho (Or.inl rfl) (Or.inl rfl) (Or.inr ⟨by simp, by simp⟩)
        (by simp only; omega) ⟨hcb.1, by simp only; omega⟩
  | writeOrigin i v => simp only [step]; split <;> exact h
  | writeSampling i v => simp only [step]; split <;> exact h
  | writeArray i v => simp only [step]; split <;> exact h

theorem hinv_run (ops : List HOp) : ∀ s, HInv s → HInv (run s ops) := by
  induction ops with
  | nil => intro s h; exact h
  | cons op t ih => intro s h; exact ih _ (hinv_step h op)

/-- the object an operation acts on -/
def recv : HOp → Option Nat
  | .new => none
  | .copy i | .padIp i | .padCp i | .cropIp i | .cropCp i | .binIp i | .binCp i | .resampleIp i
  | .resampleCp i | .getitemView i | .getitemCopy i | .derived i | .setOrigin i | .setSampling i
  | .setArray i | .writeOrigin i _ | .writeSampling i _ | .writeArray i _ => some i

theorem obs_append (s : St) (x : Obj) (n : Nat) (j : Nat) (hj : j < s.objs.length) :
    obsCal { s with objs := s.objs ++ [x], next := n } j = obsCal s j ∧
    obsArr { s with objs := s.objs ++ [x], next := n } j = obsArr s j := by
  simp [obsCal, obsArr, List.getElem?_append_left hj]

theorem obs_allocAll (s : St) (j : Nat) (hj : j < s.objs.length) :
    obsCal (allocAll s) j = obsCal s j ∧ obsArr (allocAll s) j = obsArr s j :=
  obs_append s _ _ j hj

theorem obs_set (s : St) (i : Nat) (x : Obj) (n : Nat) (j : Nat) (hij : j ≠ i) :
    obsCal { s with objs := setAt s.objs i x, next := n } j = obsCal s j ∧
    obsArr { s with objs := setAt s.objs i x, next := n } j = obsArr s j := by
  simp [obsCal, obsArr, setAt, List.getElem?_set_ne (Ne.symm hij)]

/-- **no operation on one dataset changes what another dataset shows** — except an element
write into the data buffer, which is seen exactly by the objects holding that buffer -/
theorem step_frame {s : St} (h : HInv s) (op : HOp) (j : Nat) (hj : j < s.objs.length)
    (hr : recv op ≠ some j) :
    obsCal (step s op) j = obsCal s j ∧
    (obsArr (step s op) j = obsArr s j ∨
      ∃ i v oi oj, op = .writeArray i v ∧ s.objs[i]? = some oi ∧ s.objs[j]? = some oj ∧ oi.buf = oj.buf) := by
  have hne : ∀ i, recv op = some i → j ≠ i := fun i hi hji => hr (hji ▸ hi)
  cases op with
  | new => exact ⟨(obs_allocAll s j hj).1, Or.inl (obs_allocAll s j hj).2⟩
  | copy i => simp only [step]; split <;> simp [obs_allocAll s j hj]
  | padCp i => simp only [step]; split <;> simp [obs_allocAll s j hj]
  | cropCp i => simp only [step]; split <;> simp [obs_allocAll s j hj]
  | binCp i => simp only [step]; split <;> simp [obs_allocAll s j hj]
  | resampleCp i => simp only [step]; split <;> simp [obs_allocAll s j hj]
  | getitemCopy i => simp only [step]; split <;> simp [obs_allocAll s j hj]
  | derived i => simp only [step]; split <;> simp [obs_allocAll s j hj]
  | cropIp i => simp [step]
  | getitemView i =>
    simp only [step]; split
    · simp
    · exact ⟨(obs_append s _ _ j hj).1, Or.inl (obs_append s _ _ j hj).2⟩
  | padIp i =>
    simp only [step]; split
    · simp
    · exact ⟨(obs_set s i _ _ j (hne i rfl)).1, Or.inl (obs_set s i _ _ j (hne i rfl)).2⟩
  | setArray i =>
    simp only [step]; split
    · simp
    · exact ⟨(obs_set s i _ _ j (hne i rfl)).1, Or.inl (obs_set s i _ _ j (hne i rfl)).2⟩
  | binIp i =>
    simp only [step]; split
    · simp
    · exact ⟨(obs_set s i _ _ j (hne i rfl)).1, Or.inl (obs_set s i _ _ j (hne i rfl)).2⟩
  | resampleIp i =>
    simp only [step]; split
    · simp
    · exact ⟨(obs_set s i _ _ j (hne i rfl)).1, Or.inl (obs_set s i _ _ j (hne i rfl)).2⟩
  | setOrigin i =>
    simp only [step]; split
    · simp
    · exact ⟨(obs_set s i _ _ j (hne i rfl)).1, Or.inl (obs_set s i _ _ j (hne i rfl)).2⟩
  | setSampling i =>
    simp only [step]; split
    · simp
    · exact ⟨(obs_set s i _ _ j (hne i rfl)).1, Or.inl (obs_set s i _ _ j (hne i rfl)).2⟩
  | writeOrigin i v =>
    simp only [step]; split
    · simp
    · rename_i oi hoi
      obtain ⟨oj, hoj⟩ : ∃ oj, s.objs[j]? = some oj := ⟨_, List.getElem?_eq_getElem hj⟩
      have hs := pairwise_get h.2.1 hoj hoi (hne i rfl)
      have hc := h.2.2 oi (List.mem_of_getElem? hoi) oj (List.mem_of_getElem? hoj)
      simp only [obsCal, obsArr, hoj, Option.map_some, write]
      refine ⟨?_, Or.inl ?_⟩
      · rw [if_neg hs.1, if_neg hs.2.2.1]
      · rw [if_neg (Ne.symm hc.1)]
  | writeSampling i v =>
    simp only [step]; split
    · simp
    · rename_i oi hoi
      obtain ⟨oj, hoj⟩ : ∃ oj, s.objs[j]? = some oj := ⟨_, List.getElem?_eq_getElem hj⟩
      have hs := pairwise_get h.2.1 hoj hoi (hne i rfl)
      have hc := h.2.2 oi (List.mem_of_getElem? hoi) oj (List.mem_of_getElem? hoj)
      simp only [obsCal, obsArr, hoj, Option.map_some, write]
      refine ⟨?_, Or.inl ?_⟩
      · rw [if_neg hs.2.1, if_neg hs.2.2.2]
      · rw [if_neg (Ne.symm hc.2)]
  | writeArray i v =>
    simp only [step]; split
    · simp
    · rename_i oi hoi
      obtain ⟨oj, hoj⟩ : ∃ oj, s.objs[j]? = some oj := ⟨_, List.getElem?_eq_getElem hj⟩
      have hc := h.2.2 oj (List.mem_of_getElem? hoj) oi (List.mem_of_getElem? hoi)
      simp only [obsCal, obsArr, hoj, Option.map_some, write]
      refine ⟨?_, ?_⟩
      · rw [if_neg hc.1, if_neg hc.2]
      · by_cases hb : oj.buf = oi.buf
        · exact Or.inr ⟨i, v, oi, oj, rfl, hoi, by first | exact hoj | rfl, hb.symm⟩
        · exact Or.inl (by rw [if_neg hb])

/-- which cells the dataset returned by an operation holds (the last object), relative to the
objects that existed before: everything fresh, except the buffer of a `__getitem__` view -/
theorem returned_cells {s : St} (h : HInv s) (i : Nat) (oi : Obj) (hi : s.objs[i]? = some oi) :
    (∀ op ∈ [HOp.copy i, .padCp i, .cropCp i, .binCp i, .resampleCp i, .getitemCopy i, .derived i],
      (step s op).objs = s.objs ++ [⟨s.next, s.next + 1, s.next + 2⟩] ∧
      ∀ o ∈ s.objs, o.buf < s.next ∧ o.org < s.next ∧ o.smp < s.next) ∧
    ((step s (.getitemView i)).objs = s.objs ++ [⟨oi.buf, s.next, s.next + 1⟩] ∧
      ∀ o ∈ s.objs, o.org < s.next ∧ o.smp < s.next ∧ o.buf ≠ s.next ∧ o.buf ≠ s.next + 1) := by
  have hlt : i < s.objs.length := (List.getElem?_eq_some_iff.mp hi).1
  have hb : ∀ o ∈ s.objs, o.buf < s.next ∧ o.org < s.next ∧ o.smp < s.next :=
    fun o ho => ⟨(h.1 o ho).1, (h.1 o ho).2.1, (h.1 o ho).2.2.1⟩
  refine ⟨?_, ?_, ?_⟩
  · intro op hop
    simp only [List.mem_cons, List.mem_nil_iff, or_false] at hop
    rcases hop with rfl | rfl | rfl | rfl | rfl | rfl | rfl <;> exact ⟨by simp [step, hlt, allocAll], hb⟩
  · simp [step, hi]
  · intro o ho; have := hb o ho; omega

end QuantemModel.DatasetHeap
