import QuantemModel.Lemmas.Norm
/-!
C20 — the modelled NumPy `quantile(method="linear")` (`Model/Norm.lean: quantileSorted`) over ℝ:
on a sorted list it lies between the first and the last element and is non-decreasing in `q`.
-/
namespace QuantemModel.NormLemmas
open QuantemModel QuantemModel.Norm

theorem getD_eq_getElem' (s : List ℝ) (i : Nat) (h : i < s.length) : s.getD i 0 = s[i] := by
  simp [List.getD_eq_getElem?_getD, List.getElem?_eq_getElem h]

theorem getD_mem (s : List ℝ) (i : Nat) (h : i < s.length) : s.getD i 0 ∈ s := by
  rw [getD_eq_getElem' s i h]; exact List.getElem_mem h

/-- a sorted list is non-decreasing along its indices -/
theorem sorted_getD {s : List ℝ} (hs : s.Pairwise (· ≤ ·)) {i j : Nat} (hij : i ≤ j) (hj : j < s.length) :
    s.getD i 0 ≤ s.getD j 0 := by
  rcases Nat.eq_or_lt_of_le hij with rfl | hlt
  · exact le_rfl
  · rw [getD_eq_getElem' s i (lt_trans hlt hj), getD_eq_getElem' s j hj]
    exact (List.pairwise_iff_getElem.mp hs) i j _ _ hlt

/-- NumPy's two-branch `_lerp` is the one affine formula over ℝ -/
theorem lerp_eq (a b t : ℝ) : lerp a b t = a + (b - a) * t := by
  unfold lerp
  simp only [NumReal.sub_eq, NumReal.mul_eq, NumReal.add_eq, NumReal.ofRat_eq]
  split <;> (push_cast; ring)

/-- `floorIdx vi m` is the largest index `≤ m` below `vi` (for `0 ≤ vi`) -/
theorem floorIdx_spec (vi : ℝ) (h0 : 0 ≤ vi) : ∀ m : Nat,
    floorIdx vi m ≤ m ∧ ((floorIdx vi m : Nat) : ℝ) ≤ vi ∧ ∀ j : Nat, j ≤ m → (j : ℝ) ≤ vi → j ≤ floorIdx vi m := by
  intro m
  induction m with
  | zero =>
    refine ⟨le_rfl, by simpa [floorIdx] using h0, ?_⟩
    intro j hj _; simpa [floorIdx] using hj
  | succ k ih =>
    unfold floorIdx
    by_cases h : ((k + 1 : Nat) : ℝ) ≤ vi
    · have hb : Num.leb (Num.ofNat (k + 1) : ℝ) vi = true := by rw [NumReal.leb_eq, NumReal.ofNat_eq]; exact h
      simp only [hb, if_true]
      exact ⟨le_rfl, h, fun j hj _ => hj⟩
    · have hb : Num.leb (Num.ofNat (k + 1) : ℝ) vi = false := by
        rw [← Bool.not_eq_true, NumReal.leb_eq, NumReal.ofNat_eq]; exact h
      simp only [hb, Bool.false_eq_true, if_false]
      obtain ⟨h1, h2, h3⟩ := ih
      refine ⟨Nat.le_succ_of_le h1, h2, ?_⟩
      intro j hj hjv
      rcases Nat.eq_or_lt_of_le hj with rfl | hlt
      · exact absurd hjv h
      · exact h3 j (Nat.lt_succ_iff.mp hlt) hjv

/-- the quantile as a function of the virtual index `vi = (n-1) q` -/
noncomputable def quantAt (s : List ℝ) (vi : ℝ) : ℝ :=
  if ((s.length - 1 : Nat) : ℝ) ≤ vi then s.getD (s.length - 1) 0
  else if vi < 0 then s.getD 0 0
  else
    s.getD (floorIdx vi (s.length - 1)) 0 +
      (s.getD (floorIdx vi (s.length - 1) + 1) 0 - s.getD (floorIdx vi (s.length - 1)) 0) *
        (vi - ((floorIdx vi (s.length - 1) : Nat) : ℝ))

theorem quantileSorted_eq (s : List ℝ) (q : ℝ) :
    quantileSorted s q = quantAt s (((s.length - 1 : Nat) : ℝ) * q) := by
  unfold quantileSorted quantAt
  simp only [NumReal.ofNat_eq, NumReal.mul_eq, NumReal.sub_eq, NumReal.ofRat_eq, Rat.cast_zero, lerp_eq]
  by_cases h1 : ((s.length - 1 : Nat) : ℝ) ≤ ((s.length - 1 : Nat) : ℝ) * q
  · have : Num.leb (((s.length - 1 : Nat) : ℝ)) (((s.length - 1 : Nat) : ℝ) * q) = true := by
      rw [NumReal.leb_eq]; exact h1
    simp [this, h1]
  · have hb : Num.leb (((s.length - 1 : Nat) : ℝ)) (((s.length - 1 : Nat) : ℝ) * q) = false := by
      rw [← Bool.not_eq_true, NumReal.leb_eq]; exact h1
    by_cases h2 : ((s.length - 1 : Nat) : ℝ) * q < 0
    · have hc : Num.ltb (((s.length - 1 : Nat) : ℝ) * q) 0 = true := by rw [NumReal.ltb_eq]; exact h2
      simp [hb, h1, hc, h2]
    · have hc : Num.ltb (((s.length - 1 : Nat) : ℝ) * q) 0 = false := by
        rw [← Bool.not_eq_true, NumReal.ltb_eq]; exact h2
      simp [hb, h1, hc, h2]

/-- facts about the interpolation branch `0 ≤ vi < n-1` -/
theorem interp_facts (s : List ℝ) (vi : ℝ) (h0 : 0 ≤ vi) (hN : vi < ((s.length - 1 : Nat) : ℝ)) :
    let k := floorIdx vi (s.length - 1)
    k + 1 < s.length ∧ (k : ℝ) ≤ vi ∧ vi < (k : ℝ) + 1 := by
  intro k
  obtain ⟨h1, h2, h3⟩ := floorIdx_spec vi h0 (s.length - 1)
  have hk : k < s.length - 1 := by
    have : (k : ℝ) < ((s.length - 1 : Nat) : ℝ) := lt_of_le_of_lt h2 hN
    exact_mod_cast this
  refine ⟨by omega, h2, ?_⟩
  by_contra hcon
  have hle : ((k + 1 : Nat) : ℝ) ≤ vi := by push_cast; exact not_lt.mp hcon
  have := h3 (k + 1) (by omega) hle
  omega

theorem quantAt_bounds {s : List ℝ} (hs : s.Pairwise (· ≤ ·)) (hne : 0 < s.length) (vi : ℝ) :
    s.getD 0 0 ≤ quantAt s vi ∧ quantAt s vi ≤ s.getD (s.length - 1) 0 := by
  have hlast : s.length - 1 < s.length := by omega
  have h0N : s.getD 0 0 ≤ s.getD (s.length - 1) 0 := sorted_getD hs (Nat.zero_le _) hlast
  unfold quantAt
  split
  · exact ⟨h0N, le_rfl⟩
  · rename_i hN
    split
    · exact ⟨le_rfl, h0N⟩
    · rename_i hneg
      have hvi0 : 0 ≤ vi := not_lt.mp hneg
      obtain ⟨hk1, hk2, hk3⟩ := interp_facts s vi hvi0 (not_le.mp hN)
      set k := floorIdx vi (s.length - 1) with hkdef
      have ha : s.getD 0 0 ≤ s.getD k 0 := sorted_getD hs (Nat.zero_le _) (by omega)
      have hab : s.getD k 0 ≤ s.getD (k + 1) 0 := sorted_getD hs (Nat.le_succ _) hk1
      have hb : s.getD (k + 1) 0 ≤ s.getD (s.length - 1) 0 := sorted_getD hs (by omega) hlast
      have ht0 : 0 ≤ vi - (k : ℝ) := by linarith
      have ht1 : vi - (k : ℝ) ≤ 1 := by linarith
      constructor
      · nlinarith
      · nlinarith

/-- value of the interpolation branch lies between its two neighbours -/
theorem quantAt_interp (s : List ℝ) (vi : ℝ) (h0 : 0 ≤ vi)
    (hN : vi < ((s.length - 1 : Nat) : ℝ)) :
    quantAt s vi = s.getD (floorIdx vi (s.length - 1)) 0 +
      (s.getD (floorIdx vi (s.length - 1) + 1) 0 - s.getD (floorIdx vi (s.length - 1)) 0) *
        (vi - ((floorIdx vi (s.length - 1) : Nat) : ℝ)) := by
  unfold quantAt
  rw [if_neg (not_le.mpr hN), if_neg (not_lt.mpr h0)]

theorem quantAt_mono {s : List ℝ} (hs : s.Pairwise (· ≤ ·)) (hne : 0 < s.length) {vi vi' : ℝ} (h : vi ≤ vi') :
    quantAt s vi ≤ quantAt s vi' := by
  by_cases hN : ((s.length - 1 : Nat) : ℝ) ≤ vi
  · have hN' : ((s.length - 1 : Nat) : ℝ) ≤ vi' := le_trans hN h
    unfold quantAt; rw [if_pos hN, if_pos hN']
  · by_cases hneg : vi < 0
    · have : quantAt s vi = s.getD 0 0 := by unfold quantAt; rw [if_neg hN, if_pos hneg]
      rw [this]; exact (quantAt_bounds hs hne vi').1
    · have hvi0 : 0 ≤ vi := not_lt.mp hneg
      by_cases hN' : ((s.length - 1 : Nat) : ℝ) ≤ vi'
      · have : quantAt s vi' = s.getD (s.length - 1) 0 := by unfold quantAt; rw [if_pos hN']
        rw [this]; exact (quantAt_bounds hs hne vi).2
      · have hvi0' : 0 ≤ vi' := le_trans hvi0 h
        rw [quantAt_interp s vi hvi0 (not_le.mp hN), quantAt_interp s vi' hvi0' (not_le.mp hN')]
        obtain ⟨hk1, hk2, hk3⟩ := interp_facts s vi hvi0 (not_le.mp hN)
        obtain ⟨hk1', hk2', hk3'⟩ := interp_facts s vi' hvi0' (not_le.mp hN')
        obtain ⟨_, _, hmax'⟩ := floorIdx_spec vi' hvi0' (s.length - 1)
        obtain ⟨hkle, _, _⟩ := floorIdx_spec vi hvi0 (s.length - 1)
        set k := floorIdx vi (s.length - 1) with hkdef
        set k' := floorIdx vi' (s.length - 1) with hkdef'
        have hkk : k ≤ k' := hmax' k hkle (le_trans hk2 h)
        have hab : s.getD k 0 ≤ s.getD (k + 1) 0 := sorted_getD hs (Nat.le_succ _) hk1
        have hab' : s.getD k' 0 ≤ s.getD (k' + 1) 0 := sorted_getD hs (Nat.le_succ _) hk1'
        rcases Nat.eq_or_lt_of_le hkk with heq | hlt
        · rw [← heq]
          have : vi - (k : ℝ) ≤ vi' - (k : ℝ) := by linarith
          nlinarith
        · have hmid : s.getD (k + 1) 0 ≤ s.getD k' 0 := sorted_getD hs hlt (by omega)
          have ht1 : vi - (k : ℝ) ≤ 1 := by linarith
          have ht0 : 0 ≤ vi - (k : ℝ) := by linarith
          have ht0' : 0 ≤ vi' - (k' : ℝ) := by linarith
          nlinarith

/-- the sorted finite values the quantile interval works on -/
theorem sortedFinite_pairwise (f : List ℝ) :
    (f.mergeSort (fun a b => Num.leb a b)).Pairwise (· ≤ ·) := by
  have hp := List.pairwise_mergeSort (le := fun (a b : ℝ) => Num.leb a b)
    (by
      intro a b c hab hbc
      simp only [NumReal.leb_eq] at hab hbc ⊢
      exact le_trans hab hbc)
    (by
      intro a b
      rcases le_total a b with h | h
      · simp [(NumReal.leb_eq a b).mpr h]
      · simp [(NumReal.leb_eq b a).mpr h]) f
  exact hp.imp (fun {a b} h => (NumReal.leb_eq a b).mp h)

end QuantemModel.NormLemmas
