import QuantemModel.Model.DirectPtycho
/-!
Helper lemmas for C04 that need no analysis: the store written by the two loops of
`reconstruct`, the power accumulator as a sum over the flattened schedule, the index mapping
of `_return_bf_context`.  Everything here is generic in the carrier `R`; the only algebra used is
that `+` on `R` is a commutative monoid (`AddLaws`), which holds at `ℝ`, `Rat`, … and is exactly
what float32 summation does *not* satisfy (measured by the harness instead).
-/
namespace QuantemModel.DirectPtycho
open QuantemModel

/-- the laws of `+` the batch-invariance proof needs -/
structure AddLaws (R : Type) [Num R] : Prop where
  add_comm : ∀ a b : R, a + b = b + a
  add_assoc : ∀ a b c : R, a + b + c = a + (b + c)
  zero_add : ∀ a : R, (Num.zero : R) + a = a
  add_zero : ∀ a : R, a + (Num.zero : R) = a

/-! ## store -/

theorem Store.ext' {α : Type} {s t : Store α} (h : ∀ j, s.get j = t.get j) : s = t := by
  cases s; cases t; congr; funext j; exact h j

@[simp] theorem Store.get_set {α : Type} (s : Store α) (i : Nat) (v : Option α) (j : Nat) :
    (s.set i v).get j = if j = i then v else s.get j := rfl

@[simp] theorem Store.get_empty {α : Type} (j : Nat) : (Store.empty : Store α).get j = none := rfl

/-- writing `f i` at every index of `l` (in any order, with repetitions) -/
theorem foldl_set_get {α : Type} (f : Nat → Option α) (l : List Nat) (s : Store α) (j : Nat) :
    (l.foldl (fun s i => s.set i (f i)) s).get j = if j ∈ l then f j else s.get j := by
  induction l generalizing s with
  | nil => simp
  | cons i l ih =>
    simp only [List.foldl_cons, ih, Store.get_set, List.mem_cons]
    by_cases hjl : j ∈ l
    · simp [hjl]
    · by_cases hji : j = i
      · subst hji; simp [hjl]
      · simp [hjl, hji]

section Carrier
variable {R : Type} [Num R]

/-! ## pointwise addition of real images -/

theorem addI_comm (h : AddLaws R) (a b : Img R) : addI a b = addI b a := by
  unfold addI
  exact List.zipWith_comm_of_comm (fun x y => h.add_comm x y)

theorem addI_assoc (h : AddLaws R) (a b c : Img R) : addI (addI a b) c = addI a (addI b c) := by
  unfold addI
  induction a generalizing b c with
  | nil => simp
  | cons x a ih =>
    cases b with
    | nil => simp
    | cons y b =>
      cases c with
      | nil => simp
      | cons z c => simp [List.zipWith_cons_cons, h.add_assoc, ih]

@[simp] theorem length_zeros (n : Nat) : (zeros n : Img R).length = n := by simp [zeros]

theorem length_addI (a b : Img R) : (addI a b).length = min a.length b.length := by
  simp [addI]

theorem addI_zeros (h : AddLaws R) (a : Img R) : addI a (zeros a.length) = a := by
  unfold addI zeros
  induction a with
  | nil => simp
  | cons x a ih => simp [List.replicate_succ, h.add_zero, ih]

theorem zeros_addI (h : AddLaws R) (a : Img R) : addI (zeros a.length) a = a := by
  rw [addI_comm h, addI_zeros h]

/-! ## the power accumulator -/

/-- `Σ_{i∈l} P i` accumulated into `p0`, one pixel at a time -/
def sumP (pb : Problem R) (l : List Nat) (p0 : Img R) : Img R :=
  l.foldl (fun p i => addI p (pb.P i)) p0

theorem addI_sumP (h : AddLaws R) (pb : Problem R) (l : List Nat) (a b : Img R) :
    addI a (sumP pb l b) = sumP pb l (addI a b) := by
  unfold sumP
  induction l generalizing b with
  | nil => simp
  | cons i l ih => simp only [List.foldl_cons]; rw [ih, addI_assoc h]

theorem length_sumP (pb : Problem R) (npx : Nat) (l : List Nat) (hP : ∀ i ∈ l, (pb.P i).length = npx)
    (p0 : Img R) (h0 : p0.length = npx) : (sumP pb l p0).length = npx := by
  unfold sumP
  induction l generalizing p0 with
  | nil => simpa using h0
  | cons i l ih =>
    simp only [List.foldl_cons]
    exact ih (fun j hj => hP j (List.mem_cons_of_mem _ hj)) _
      (by simp [length_addI, h0, hP i List.mem_cons_self])

theorem batchPower_eq (pb : Problem R) (B : List Nat) :
    batchPower pb B = sumP pb B (zeros (pb.rows * pb.cols)) := rfl

/-- the batched accumulation `power += pow` equals the pixel-by-pixel sum over the flattened schedule -/
theorem power_flatten (h : AddLaws R) (pb : Problem R) (batches : List (List Nat))
    (hP : ∀ i ∈ batches.flatten, (pb.P i).length = pb.rows * pb.cols) (p0 : Img R)
    (h0 : p0.length = pb.rows * pb.cols) :
    batches.foldl (fun p B => addI p (batchPower pb B)) p0 = sumP pb batches.flatten p0 := by
  induction batches generalizing p0 with
  | nil => simp [sumP]
  | cons B rest ih =>
    simp only [List.foldl_cons, List.flatten_cons]
    simp only [List.flatten_cons, List.mem_append] at hP
    have e : addI p0 (batchPower pb B) = sumP pb B p0 := by
      rw [batchPower_eq, addI_sumP h]
      have := addI_zeros h p0
      rw [h0] at this
      rw [this]
    rw [e, ih (fun i hi => hP i (Or.inr hi)) _
      (length_sumP pb _ B (fun i hi => hP i (Or.inl hi)) p0 h0)]
    simp [sumP, List.foldl_append]

/-- the accumulated power does not depend on the order of the pixels -/
theorem sumP_perm (h : AddLaws R) (pb : Problem R) {l₁ l₂ : List Nat} (p : l₁.Perm l₂) (p0 : Img R) :
    sumP pb l₁ p0 = sumP pb l₂ p0 := by
  unfold sumP
  apply List.Perm.foldl_eq' p
  intro x _ y _ z
  rw [addI_assoc h, addI_comm h (pb.P x), ← addI_assoc h]

/-! ## the two loops -/

/-- the value the first loop leaves in row `i` -/
def firstVal (F : Fourier R) (k : Kernel) (pb : Problem R) (i : Nat) : Img (Cx R) :=
  if k.twoPass then pb.G i else singlePassValue F pb i

theorem firstPass_fst (F : Fourier R) (k : Kernel) (pb : Problem R) (batches : List (List Nat))
    (st : Store (Img (Cx R)) × Img R) (j : Nat) :
    (batches.foldl (firstPass F k pb) st).1.get j =
      if j ∈ batches.flatten then some (firstVal F k pb j) else st.1.get j := by
  induction batches generalizing st with
  | nil => simp
  | cons B rest ih =>
    simp only [List.foldl_cons, List.flatten_cons, List.mem_append]
    rw [ih]
    by_cases hr : j ∈ rest.flatten
    · simp [hr]
    · simp only [hr, if_false, or_false]
      unfold firstPass firstVal
      cases k.twoPass <;> simp [foldl_set_get]

theorem firstPass_snd_two (F : Fourier R) (k : Kernel) (pb : Problem R) (hk : k.twoPass = true)
    (batches : List (List Nat)) (st : Store (Img (Cx R)) × Img R) :
    (batches.foldl (firstPass F k pb) st).2 = batches.foldl (fun p B => addI p (batchPower pb B)) st.2 := by
  induction batches generalizing st with
  | nil => simp
  | cons B rest ih =>
    simp only [List.foldl_cons]
    rw [ih]
    simp [firstPass, hk]

/-- one batch of the second loop, reading the store as it was when the batch started -/
theorem secondPass_get (F : Fourier R) (pb : Problem R) (nrm : Img R) (s : Store (Img (Cx R)))
    (B : List Nat) (j : Nat) :
    (secondPass F pb nrm s B).get j =
      if j ∈ B then (s.get j).map (secondPassValue F pb nrm) else s.get j := by
  unfold secondPass
  exact foldl_set_get (fun i => (s.get i).map (secondPassValue F pb nrm)) B s j

/-- the whole second loop over a duplicate-free schedule -/
theorem secondLoop_get (F : Fourier R) (pb : Problem R) (nrm : Img R) (batches : List (List Nat))
    (hnd : batches.flatten.Nodup) (s : Store (Img (Cx R))) (j : Nat) :
    (batches.foldl (secondPass F pb nrm) s).get j =
      if j ∈ batches.flatten then (s.get j).map (secondPassValue F pb nrm) else s.get j := by
  induction batches generalizing s with
  | nil => simp
  | cons B rest ih =>
    simp only [List.flatten_cons] at hnd
    obtain ⟨_, hrest, hdis⟩ := List.nodup_append.mp hnd
    simp only [List.foldl_cons, List.flatten_cons, List.mem_append]
    rw [ih hrest, secondPass_get]
    by_cases hr : j ∈ rest.flatten
    · have hB : j ∉ B := fun hB => hdis j hB j hr rfl
      simp [hr, hB]
    · simp [hr]

/-- closed form of the corrected stack: row `i` is written iff `i` occurs in the schedule, with a
value that depends on the schedule only through the accumulated power -/
def itemValue (F : Fourier R) (k : Kernel) (pb : Problem R) (power : Img R) (i : Nat) : Img R :=
  finish pb (if k.twoPass then secondPassValue F pb (normOf k pb power) (pb.G i)
             else singlePassValue F pb i)

theorem reconstruct_eq (F : Fourier R) (k : Kernel) (pb : Problem R) (batches : List (List Nat))
    (hnd : batches.flatten.Nodup) :
    reconstruct F k pb batches =
      (List.range pb.n).map fun i =>
        if i ∈ batches.flatten then
          some (itemValue F k pb
            (batches.foldl (fun p B => addI p (batchPower pb B)) (zeros (pb.rows * pb.cols))) i)
        else none := by
  unfold reconstruct readout
  apply List.map_congr_left
  intro i _
  cases hk : k.twoPass with
  | false =>
    simp only [if_false, Bool.false_eq_true]
    rw [firstPass_fst]
    by_cases hi : i ∈ batches.flatten
    · simp [hi, itemValue, firstVal, hk]
    · simp [hi]
  | true =>
    simp only [if_true]
    rw [secondLoop_get F pb _ batches hnd, firstPass_fst, firstPass_snd_two F k pb hk]
    by_cases hi : i ∈ batches.flatten
    · simp [hi, itemValue, firstVal, hk]
    · simp [hi]

end Carrier

/-! ## `_return_bf_context`: the index mapping -/

theorem positionsFrom_shift (k : Nat) (m : List Bool) :
    positionsFrom (k + 1) m = (positionsFrom k m).map (· + 1) := by
  induction m generalizing k with
  | nil => rfl
  | cons b bs ih =>
    unfold positionsFrom
    cases b <;> simp [ih]

/-- pointwise `sub ⊆ cmask` on flattened masks of the same shape -/
def SubMask : List Bool → List Bool → Prop
  | [], [] => True
  | c :: cs, s :: ss => (s = true → c = true) ∧ SubMask cs ss
  | _, _ => False

theorem getElem!_map_succ (l : List Nat) (x : Nat) (t : Nat) :
    (x :: l)[t + 1]! = l[t]! := by
  simp

/-- the `j`-th pixel of the sub-mask is the `mapping[j]`-th pixel of the construction mask -/
theorem mapping_positions (k : Nat) (c s : List Bool) (h : SubMask c s) :
    (positions (select c s)).map (fun t => (positionsFrom k c)[t]!) = positionsFrom k s := by
  induction c generalizing s k with
  | nil =>
    cases s with
    | nil => simp [select, positions, positionsFrom]
    | cons _ _ => exact absurd h (by simp [SubMask])
  | cons cb cs ih =>
    cases s with
    | nil => exact absurd h (by simp [SubMask])
    | cons sb ss =>
      obtain ⟨himp, hrest⟩ := h
      cases cb with
      | false =>
        have hsb : sb = false := by
          cases sb with
          | false => rfl
          | true => exact absurd (himp rfl) (by simp)
        subst hsb
        simp only [select, positionsFrom, Bool.false_eq_true, if_false]
        exact ih (k + 1) ss hrest
      | true =>
        have ih' := ih (k + 1) ss hrest
        cases sb with
        | false =>
          simp only [select, positionsFrom, if_true, Bool.false_eq_true, if_false]
          -- positions (false :: select cs ss) = map (+1) (positions (select cs ss))
          unfold positions
          simp only [positionsFrom, Bool.false_eq_true, if_false]
          rw [positionsFrom_shift 0, List.map_map, ← ih']
          apply List.map_congr_left
          intro t _
          simp
        | true =>
          simp only [select, positionsFrom, if_true]
          unfold positions
          simp only [positionsFrom, if_true, List.map_cons]
          rw [positionsFrom_shift 0, List.map_map, ← ih']
          simp only [positions]
          congr 1

theorem length_positionsFrom (k k' : Nat) (m : List Bool) :
    (positionsFrom k m).length = (positionsFrom k' m).length := by
  induction m generalizing k k' with
  | nil => rfl
  | cons b bs ih =>
    unfold positionsFrom
    cases b
    · simpa using ih (k + 1) (k' + 1)
    · simpa using ih (k + 1) (k' + 1)

/-- every mapping entry is a valid stack row -/
theorem mapping_lt (c s : List Bool) :
    ∀ t ∈ positions (select c s), t < (positions c).length := by
  unfold positions
  suffices H : ∀ (k : Nat), ∀ t ∈ positionsFrom k (select c s), t < k + (positionsFrom 0 c).length by
    intro t ht; simpa using H 0 t ht
  induction c generalizing s with
  | nil => intro k t ht; cases s <;> simp [select, positionsFrom] at ht
  | cons cb cs ih =>
    intro k t ht
    cases s with
    | nil => simp [select, positionsFrom] at ht
    | cons sb ss =>
      cases cb with
      | false =>
        simp only [select, Bool.false_eq_true, if_false] at ht
        simp only [positionsFrom, Bool.false_eq_true, if_false]
        rw [length_positionsFrom 1 0]
        exact ih ss k t ht
      | true =>
        simp only [select, if_true] at ht
        simp only [positionsFrom, if_true, List.length_cons]
        rw [length_positionsFrom 1 0]
        cases sb with
        | false =>
          simp only [positionsFrom, Bool.false_eq_true, if_false] at ht
          have := ih ss (k + 1) t ht
          omega
        | true =>
          simp only [positionsFrom, if_true, List.mem_cons] at ht
          rcases ht with rfl | ht
          · omega
          · have := ih ss (k + 1) t ht
            omega

/-! ## `SimpleBatcher` schedules -/

theorem chunksAux_flatten (b : Nat) (hb : 0 < b) :
    ∀ (fuel : Nat) (l : List Nat), l.length ≤ fuel → (chunksAux b fuel l).flatten = l
  | 0, l, h => by
    have : l = [] := List.length_eq_zero_iff.mp (Nat.le_zero.mp h)
    subst this
    simp [chunksAux]
  | fuel + 1, l, h => by
    unfold chunksAux
    cases l with
    | nil => simp
    | cons x xs =>
      have hlen : ((x :: xs).drop b).length ≤ fuel := by
        simp only [List.length_drop, List.length_cons] at *
        omega
      simp only [List.isEmpty_cons, Bool.false_eq_true, if_false, List.flatten_cons]
      rw [chunksAux_flatten b hb fuel _ hlen, List.take_append_drop]

/-- every batch size `b ≥ 1` yields a schedule that visits `0..n-1` exactly once, in order -/
theorem chunkSchedule_flatten (n b : Nat) (hb : 0 < b) : (chunkSchedule n b).flatten = List.range n := by
  unfold chunkSchedule
  have : b ≠ 0 := by omega
  simp only [this, if_false]
  exact chunksAux_flatten b hb n (List.range n) (by simp)

/-! ## `HyperparameterState`: dictionaries and call histories -/

theorem Dict.get?_set {α : Type} (d : Dict α) (k : String) (v : α) (k' : String) :
    (d.set k v).get? k' = if k' = k then some v else d.get? k' := by
  induction d with
  | nil =>
    simp only [Dict.set, Dict.get?]
    by_cases h : k' = k
    · simp [h]
    · have : ¬ k = k' := fun e => h e.symm
      simp [h, this]
  | cons p t ih =>
    obtain ⟨a, b⟩ := p
    simp only [Dict.set]
    by_cases hak : a = k
    · subst hak
      simp only [if_true, Dict.get?]
      by_cases h : k' = a
      · subst h; simp
      · have : ¬ a = k' := fun e => h e.symm
        simp [h, this]
    · simp only [hak, if_false, Dict.get?, ih]
      by_cases h : a = k'
      · subst h
        simp [hak]
      · simp [h]

/-- the value the last entry of `e` with key `k` carries -/
def lastVal {α : Type} (e : Dict α) (k : String) : Option α :=
  e.foldl (fun acc kv => if kv.1 = k then some kv.2 else acc) none

theorem Dict.get?_update_aux {α : Type} (e : Dict α) (d : Dict α) (k : String) :
    (e.foldl (fun a kv => a.set kv.1 kv.2) d).get? k =
      match e.foldl (fun a kv => if kv.1 = k then some kv.2 else a) none with
      | some v => some v
      | none => d.get? k := by
  induction e generalizing d with
  | nil => simp
  | cons p t ih =>
    simp only [List.foldl_cons]
    rw [ih]
    by_cases hk : p.1 = k
    · simp only [hk, if_true]
      -- the accumulator is `some p.2` from here on: it can only be replaced by a later `some`
      have key : ∀ (l : Dict α) (a : α),
          (l.foldl (fun acc kv => if kv.1 = k then some kv.2 else acc) (some a)) =
            match l.foldl (fun acc kv => if kv.1 = k then some kv.2 else acc) none with
            | some v => some v
            | none => some a := by
        intro l
        induction l with
        | nil => intro a; simp
        | cons q l ihl =>
          intro a
          simp only [List.foldl_cons]
          by_cases hq : q.1 = k
          · simp only [hq, if_true]
            rw [ihl q.2]
            cases List.foldl (fun acc kv => if kv.1 = k then some kv.2 else acc) none l <;> rfl
          · simp only [hq, if_false]
            exact ihl a
      rw [key t p.2]
      cases t.foldl (fun acc kv => if kv.1 = k then some kv.2 else acc) none with
      | some v => rfl
      | none => simp [Dict.get?_set, ← hk]
    · simp only [hk, if_false]
      cases t.foldl (fun acc kv => if kv.1 = k then some kv.2 else acc) none with
      | some v => rfl
      | none =>
        have : ¬ k = p.1 := fun e => hk e.symm
        simp [Dict.get?_set, this]

/-- `d.update(e)[k]` is the last value `e` gives to `k`, else `d[k]` -/
theorem Dict.get?_update {α : Type} (d e : Dict α) (k : String) :
    (d.update e).get? k = match lastVal e k with
      | some v => some v
      | none => d.get? k :=
  Dict.get?_update_aux e d k

section History
variable {α ρ : Type}

theorem stepState_initial (neg : α → α) (st : HState α ρ) (s : Step α ρ) :
    (stepState neg st s).initialAb = st.initialAb ∧ (stepState neg st s).initialRot = st.initialRot := by
  cases s with
  | call ab rot => exact ⟨rfl, rfl⟩
  | grid ab rot =>
    simp only [stepState]
    split <;> exact ⟨rfl, rfl⟩

theorem grid_initial_only (neg : α → α) (st st' : HState α ρ) (ab : Dict α) (rot : Option ρ)
    (h1 : st.initialAb = st'.initialAb) (h2 : st.initialRot = st'.initialRot) :
    stepState neg st (.grid ab rot) = stepState neg st' (.grid ab rot) := by
  have : st.cleared = st'.cleared := by
    cases st; cases st'; simp_all [HState.cleared]
  simp only [stepState, this]

/-- the last fixed-value grid search of a history, if any -/
def lastGrid (h : List (Step α ρ)) : Option (Dict α × Option ρ) :=
  h.foldl (fun acc s => match s with
    | .grid a r => some (a, r)
    | .call _ _ => acc) none

/-- the state a history leads to, as a function of the object's initial hyper-parameters and the last grid search only -/
def stateOf (neg : α → α) (st : HState α ρ) : Option (Dict α × Option ρ) → HState α ρ
  | none => st
  | some (a, r) => stepState neg st (.grid a r)

theorem stateOf_initial (neg : α → α) (st : HState α ρ) (g : Option (Dict α × Option ρ)) :
    (stateOf neg st g).initialAb = st.initialAb ∧ (stateOf neg st g).initialRot = st.initialRot := by
  cases g with
  | none => exact ⟨rfl, rfl⟩
  | some p => exact stepState_initial neg st _

theorem runHistory_aux (neg : α → α) (st : HState α ρ) (h : List (Step α ρ))
    (g : Option (Dict α × Option ρ)) :
    h.foldl (stepState neg) (stateOf neg st g) =
      stateOf neg st (h.foldl (fun acc s => match s with
        | .grid a r => some (a, r)
        | .call _ _ => acc) g) := by
  induction h generalizing g with
  | nil => rfl
  | cons s t ih =>
    simp only [List.foldl_cons]
    cases s with
    | call ab rot => exact ih g
    | grid ab rot =>
      have e : stepState neg (stateOf neg st g) (.grid ab rot) = stateOf neg st (some (ab, rot)) := by
        obtain ⟨h1, h2⟩ := stateOf_initial neg st g
        exact grid_initial_only neg _ st ab rot h1 h2
      rw [e]
      exact ih (some (ab, rot))

end History

end QuantemModel.DirectPtycho
