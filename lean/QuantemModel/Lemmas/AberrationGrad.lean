import QuantemModel.Lemmas.AberrationConv
import Mathlib.Analysis.SpecialFunctions.Complex.LogDeriv
import Mathlib.Analysis.SpecialFunctions.Sqrt
/-!
C12 — the chain rule through (x, y) ↦ (k, φ) = (sqrt(x² + y²), atan2(y, x)): the Cartesian gradients of the
source are λ times the true partial derivatives of the surface in x and y, at every point but the origin
(the branch cut of atan2 on the negative real axis is handled through the 2π-periodicity of the surface).
-/
namespace QuantemModel.Aberration
open QuantemModel QuantemModel.Generated.Aberration

/-- chain rule for one term along a curve (ρ(t), ψ(t)) -/
theorem term_hasDerivAt_curve (n m : Nat) (C p0 : ℝ) (ρ ψ : ℝ → ℝ) (ρ' ψ' t : ℝ)
    (hρ : HasDerivAt ρ ρ' t) (hψ : HasDerivAt ψ ψ' t) :
    HasDerivAt (fun s => term n m C p0 (ρ s) (ψ s))
      (termDAlpha n m C p0 (ρ t) (ψ t) * ρ' + termDPhi n m C p0 (ρ t) (ψ t) * ψ') t := by
  have h0 : HasDerivAt (fun s : ℝ => (m : ℝ) * (ψ s - p0)) ((m : ℝ) * ψ') t :=
    (hψ.sub_const p0).const_mul (m : ℝ)
  have hA := ((hρ.pow (n + 1)).div_const (((n + 1 : ℕ) : ℝ)))
  have hB := (h0.cos).const_mul C
  have h := hA.mul hB
  have hf : (fun s : ℝ => term n m C p0 (ρ s) (ψ s)) =
      (fun s => (ρ ^ (n + 1)) s / ((n + 1 : ℕ) : ℝ)) * (fun s => C * Real.cos ((m : ℝ) * (ψ s - p0))) := by
    funext s; simp only [term, Pi.mul_apply, Pi.pow_apply]; num_real
  rw [hf]
  refine h.congr_deriv ?_
  simp only [termDAlpha, termDPhi, Pi.pow_apply]; num_real
  have : ((n + 1 : ℕ) : ℝ) ≠ 0 := by positivity
  simp only [Nat.add_sub_cancel]
  field_simp

theorem chi_hasDerivAt_curve (lam : ℝ) (c : String → ℝ) (ρ ψ : ℝ → ℝ) (ρ' ψ' t : ℝ)
    (hρ : HasDerivAt ρ ρ' t) (hψ : HasDerivAt ψ ψ' t) :
    HasDerivAt (fun s => chi (ρ s) (ψ s) lam c)
      (chiDAlpha (ρ t) (ψ t) lam c * ρ' + chiDPhi (ρ t) (ψ t) lam c * ψ') t := by
  have h := (hasDerivAt_sumOver table
    (fun tt s => term tt.1 tt.2.1 (c tt.2.2.1) (phase0 c tt) (ρ s) (ψ s))
    (fun tt => termDAlpha tt.1 tt.2.1 (c tt.2.2.1) (phase0 c tt) (ρ t) (ψ t) * ρ'
      + termDPhi tt.1 tt.2.1 (c tt.2.2.1) (phase0 c tt) (ρ t) (ψ t) * ψ') t
    (fun tt _ => term_hasDerivAt_curve _ _ _ _ ρ ψ ρ' ψ' t hρ hψ)).const_mul (2 * Real.pi / lam)
  have hf : (fun s => chi (ρ s) (ψ s) lam c) = fun s => 2 * Real.pi / lam *
      sumOver table (fun tt => term tt.1 tt.2.1 (c tt.2.2.1) (phase0 c tt) (ρ s) (ψ s)) := by
    funext s; simp only [chi]; num_real
  rw [hf]
  refine h.congr_deriv ?_
  simp only [chiDAlpha, chiDPhi, table, sumOver]; num_real
  ring


/-- radial coordinate along the x-line through (x, y) ≠ 0 -/
theorem hasDerivAt_r_x (x y : ℝ) (h : x * x + y * y ≠ 0) :
    HasDerivAt (fun t => √(t * t + y * y)) (x / √(x * x + y * y)) x := by
  have h1 : HasDerivAt (fun t : ℝ => t * t + y * y) (1 * x + x * 1) x :=
    ((hasDerivAt_id x).mul (hasDerivAt_id x)).add_const _
  have := h1.sqrt h
  refine this.congr_deriv ?_
  field_simp
  ring

theorem hasDerivAt_r_y (x y : ℝ) (h : x * x + y * y ≠ 0) :
    HasDerivAt (fun t => √(x * x + t * t)) (y / √(x * x + y * y)) y := by
  have h1 : HasDerivAt (fun t : ℝ => x * x + t * t) (1 * y + y * 1) y :=
    ((hasDerivAt_id y).mul (hasDerivAt_id y)).const_add _
  have := h1.sqrt h
  refine this.congr_deriv ?_
  field_simp
  ring

/-- azimuth along the x-line, with an optional point reflection ε = ±1 (ε = −1 is used on the negative real axis) -/
theorem hasDerivAt_arg_x (ε x y : ℝ) (hε : ε * ε = 1) (hs : (⟨ε * x, ε * y⟩ : ℂ) ∈ Complex.slitPlane) :
    HasDerivAt (fun t => Complex.arg ⟨ε * t, ε * y⟩) (-y / (x * x + y * y)) x := by
  have hγ : HasDerivAt (fun t : ℝ => ((ε * t : ℝ) : ℂ) + ((ε * y : ℝ) : ℂ) * Complex.I) ((ε * 1 : ℝ) : ℂ) x :=
    (((hasDerivAt_id x).const_mul ε).ofReal_comp).add_const _
  have hs' : ((ε * x : ℝ) : ℂ) + ((ε * y : ℝ) : ℂ) * Complex.I ∈ Complex.slitPlane := by
    rw [← Complex.mk_eq_add_mul_I]; exact hs
  have hl := hγ.clog_real hs'
  have him := Complex.imCLM.hasFDerivAt.comp_hasDerivAt x hl
  have hf : (fun t => Complex.arg ⟨ε * t, ε * y⟩) =
      (Complex.imCLM ∘ fun t : ℝ => Complex.log (((ε * t : ℝ) : ℂ) + ((ε * y : ℝ) : ℂ) * Complex.I)) := by
    funext t; simp only [Function.comp, Complex.imCLM_apply, Complex.log_im, ← Complex.mk_eq_add_mul_I]
  rw [hf]
  refine him.congr_deriv ?_
  rw [← Complex.mk_eq_add_mul_I]
  simp only [Complex.imCLM_apply, Complex.div_im, Complex.ofReal_re, Complex.ofReal_im, Complex.normSq_mk]
  have hn : x * x + y * y ≠ 0 := by
    intro h0
    have hx : x = 0 := by nlinarith [mul_self_nonneg x, mul_self_nonneg y]
    have hy : y = 0 := by nlinarith [mul_self_nonneg x, mul_self_nonneg y]
    subst hx; subst hy
    simp [Complex.mem_slitPlane_iff] at hs
  have hn2 : ε * x * (ε * x) + ε * y * (ε * y) = x * x + y * y := by
    linear_combination (x * x + y * y) * hε
  rw [hn2, ← sub_div]
  congr 1
  linear_combination (-y) * hε


/-- azimuth along the y-line (same reflection parameter) -/
theorem hasDerivAt_arg_y (ε x y : ℝ) (hε : ε * ε = 1) (hs : (⟨ε * x, ε * y⟩ : ℂ) ∈ Complex.slitPlane) :
    HasDerivAt (fun t => Complex.arg ⟨ε * x, ε * t⟩) (x / (x * x + y * y)) y := by
  have hγ : HasDerivAt (fun t : ℝ => ((ε * x : ℝ) : ℂ) + ((ε * t : ℝ) : ℂ) * Complex.I)
      (((ε * 1 : ℝ) : ℂ) * Complex.I) y :=
    ((((hasDerivAt_id y).const_mul ε).ofReal_comp).mul_const Complex.I).const_add _
  have hs' : ((ε * x : ℝ) : ℂ) + ((ε * y : ℝ) : ℂ) * Complex.I ∈ Complex.slitPlane := by
    rw [← Complex.mk_eq_add_mul_I]; exact hs
  have hl := hγ.clog_real hs'
  have him := Complex.imCLM.hasFDerivAt.comp_hasDerivAt y hl
  have hf : (fun t => Complex.arg ⟨ε * x, ε * t⟩) =
      (Complex.imCLM ∘ fun t : ℝ => Complex.log (((ε * x : ℝ) : ℂ) + ((ε * t : ℝ) : ℂ) * Complex.I)) := by
    funext t; simp only [Function.comp, Complex.imCLM_apply, Complex.log_im, ← Complex.mk_eq_add_mul_I]
  rw [hf]
  refine him.congr_deriv ?_
  rw [← Complex.mk_eq_add_mul_I]
  simp only [Complex.imCLM_apply, Complex.div_im, Complex.mul_re, Complex.mul_im, Complex.I_re, Complex.I_im,
    Complex.ofReal_re, Complex.ofReal_im, Complex.normSq_mk]
  have hn2 : ε * x * (ε * x) + ε * y * (ε * y) = x * x + y * y := by
    linear_combination (x * x + y * y) * hε
  rw [hn2, ← sub_div]
  congr 1
  linear_combination x * hε

theorem term_periodic (n m : Nat) (C p0 α φ : ℝ) :
    term n m C p0 α (φ + 2 * Real.pi) = term n m C p0 α φ := by
  simp only [term]; num_real
  rw [show (m : ℝ) * (φ + 2 * Real.pi - p0) = (m : ℝ) * (φ - p0) + m * (2 * Real.pi) by ring,
    Real.cos_add_nat_mul_two_pi]

/-- the surface is 2π-periodic in the azimuth -/
theorem chi_periodic (α φ lam : ℝ) (c : String → ℝ) : chi α (φ + 2 * Real.pi) lam c = chi α φ lam c := by
  simp only [chi, term_periodic]

theorem chi_zero (φ lam : ℝ) (c : String → ℝ) : chi 0 φ lam c = 0 := by
  simp only [chi, table, sumOver, term]; num_real; simp

/-- reading the azimuth from the point-reflected pixel: `χ(r, arg z) = χ(r, arg(−z) + π)` -/
theorem chi_arg_neg (x y lam : ℝ) (c : String → ℝ) :
    chi (√(x * x + y * y)) (Complex.arg ⟨x, y⟩) lam c
      = chi (√(x * x + y * y)) (Complex.arg ⟨-x, -y⟩ + Real.pi) lam c := by
  have hneg : (⟨-x, -y⟩ : ℂ) = -⟨x, y⟩ := by apply Complex.ext <;> simp
  rw [hneg]
  rcases lt_trichotomy y 0 with hy | hy | hy
  · rw [Complex.arg_neg_eq_arg_add_pi_of_im_neg (x := ⟨x, y⟩) hy,
      show Complex.arg ⟨x, y⟩ + Real.pi + Real.pi = Complex.arg ⟨x, y⟩ + 2 * Real.pi by ring, chi_periodic]
  · subst hy
    have hz : (⟨x, 0⟩ : ℂ) = (x : ℂ) := rfl
    rcases lt_trichotomy x 0 with hx | hx | hx
    · rw [hz, ← Complex.ofReal_neg, Complex.arg_ofReal_of_neg hx, Complex.arg_ofReal_of_nonneg (by linarith), zero_add]
    · subst hx; simp [chi_zero]
    · rw [hz, ← Complex.ofReal_neg, Complex.arg_ofReal_of_nonneg hx.le, Complex.arg_ofReal_of_neg (by linarith),
        show Real.pi + Real.pi = 0 + 2 * Real.pi by ring, chi_periodic]
  · rw [Complex.arg_neg_eq_arg_sub_pi_of_im_pos (x := ⟨x, y⟩) hy, sub_add_cancel]


theorem cart_value_x (r φ x y lam : ℝ) (c : String → ℝ) (hr : r ≠ 0) (hr2 : r * r = x * x + y * y)
    (hc : Real.cos φ = x / r) (hs : Real.sin φ = y / r) :
    chiDAlpha r φ lam c * (x / r) + chiDPhi r φ lam c * (-y / (x * x + y * y))
      = (aberration_surface_cartesian_gradients r φ c).1 / lam := by
  rw [← dk_eq, ← dphi_eq, ← hr2]
  simp only [aberration_surface_cartesian_gradients]; num_real
  rw [hc, hs]
  field_simp
  try ring          -- (whether `field_simp` already closes the goal depends on the operand order of the generated text)

theorem cart_value_y (r φ x y lam : ℝ) (c : String → ℝ) (hr : r ≠ 0) (hr2 : r * r = x * x + y * y)
    (hc : Real.cos φ = x / r) (hs : Real.sin φ = y / r) :
    chiDAlpha r φ lam c * (y / r) + chiDPhi r φ lam c * (x / (x * x + y * y))
      = (aberration_surface_cartesian_gradients r φ c).2 / lam := by
  rw [← dk_eq, ← dphi_eq, ← hr2]
  simp only [aberration_surface_cartesian_gradients]; num_real
  rw [hc, hs]
  field_simp
  try ring

/-- **Cartesian gradient = λ·∇_{x,y}χ** at every pixel other than the origin: with the polar coordinates the
source computes (`k = sqrt(kx² + ky²)`, `phi = arctan2(ky, kx)`), the partial derivatives of
`(x, y) ↦ aberration_surface(k(x,y), phi(x,y))` are `dchi_dx / λ` and `dchi_dy / λ`. -/
theorem cartesian_gradient_true_lemma (x y lam : ℝ) (c : String → ℝ) (h0 : x * x + y * y ≠ 0) :
    HasDerivAt (fun t => aberration_surface (√(t * t + y * y)) (Complex.arg ⟨t, y⟩) lam c)
      ((aberration_surface_cartesian_gradients (√(x * x + y * y)) (Complex.arg ⟨x, y⟩) c).1 / lam) x ∧
    HasDerivAt (fun t => aberration_surface (√(x * x + t * t)) (Complex.arg ⟨x, t⟩) lam c)
      ((aberration_surface_cartesian_gradients (√(x * x + y * y)) (Complex.arg ⟨x, y⟩) c).2 / lam) y := by
  have hpos : 0 < x * x + y * y := lt_of_le_of_ne (by nlinarith [mul_self_nonneg x, mul_self_nonneg y]) (Ne.symm h0)
  have hr : √(x * x + y * y) ≠ 0 := (Real.sqrt_pos.mpr hpos).ne'
  have hr2 : √(x * x + y * y) * √(x * x + y * y) = x * x + y * y := Real.mul_self_sqrt hpos.le
  have hz : (⟨x, y⟩ : ℂ) ≠ 0 := by
    intro h; have h1 := congrArg Complex.re h; have h2 := congrArg Complex.im h
    simp only [Complex.zero_re, Complex.zero_im] at h1 h2; subst h1; subst h2; simp at h0
  have hc : Real.cos (Complex.arg ⟨x, y⟩) = x / √(x * x + y * y) := by
    rw [Complex.cos_arg hz, Complex.norm_def, Complex.normSq_mk]
  have hs : Real.sin (Complex.arg ⟨x, y⟩) = y / √(x * x + y * y) := by
    rw [Complex.sin_arg, Complex.norm_def, Complex.normSq_mk]
  by_cases hsl : (⟨x, y⟩ : ℂ) ∈ Complex.slitPlane
  · -- off the non-positive real axis: differentiate arg directly
    have hsl' : (⟨1 * x, 1 * y⟩ : ℂ) ∈ Complex.slitPlane := by simpa using hsl
    have hx := chi_hasDerivAt_curve lam c _ _ _ _ x (hasDerivAt_r_x x y h0) (hasDerivAt_arg_x 1 x y (by norm_num) hsl')
    have hy := chi_hasDerivAt_curve lam c _ _ _ _ y (hasDerivAt_r_y x y h0) (hasDerivAt_arg_y 1 x y (by norm_num) hsl')
    simp only [one_mul] at hx hy
    rw [cart_value_x _ _ x y lam c hr hr2 hc hs] at hx
    rw [cart_value_y _ _ x y lam c hr hr2 hc hs] at hy
    constructor
    · rw [show (fun t => aberration_surface (√(t * t + y * y)) (Complex.arg ⟨t, y⟩) lam c) =
        fun t => chi (√(t * t + y * y)) (Complex.arg ⟨t, y⟩) lam c from funext fun t => surface_eq_chi _ _ _ _]
      exact hx
    · rw [show (fun t => aberration_surface (√(x * x + t * t)) (Complex.arg ⟨x, t⟩) lam c) =
        fun t => chi (√(x * x + t * t)) (Complex.arg ⟨x, t⟩) lam c from funext fun t => surface_eq_chi _ _ _ _]
      exact hy
  · -- on the negative real axis: read the azimuth from the reflected pixel, `arg z = arg(−z) + π` (mod 2π)
    have hneg : (⟨-1 * x, -1 * y⟩ : ℂ) ∈ Complex.slitPlane := by
      rcases Complex.mem_slitPlane_or_neg_mem_slitPlane hz with h | h
      · exact absurd h hsl
      · have : (⟨-1 * x, -1 * y⟩ : ℂ) = -⟨x, y⟩ := by apply Complex.ext <;> simp
        rw [this]; exact h
    have hφ : Complex.arg ⟨x, y⟩ = Complex.arg ⟨-1 * x, -1 * y⟩ + Real.pi := by
      rw [Complex.mem_slitPlane_iff, not_or, not_lt, not_not] at hsl
      obtain ⟨hx0, hy0⟩ := hsl
      simp only at hx0 hy0
      subst hy0
      have hxneg : x < 0 := lt_of_le_of_ne hx0 (by intro h; subst h; simp at h0)
      have e1 : (⟨x, 0⟩ : ℂ) = (x : ℂ) := rfl
      have e2 : (⟨-1 * x, -1 * 0⟩ : ℂ) = ((-x : ℝ) : ℂ) := by apply Complex.ext <;> simp
      rw [e1, e2, Complex.arg_ofReal_of_neg hxneg, Complex.arg_ofReal_of_nonneg (by linarith), zero_add]
    have hx := chi_hasDerivAt_curve lam c _ _ _ _ x (hasDerivAt_r_x x y h0)
      ((hasDerivAt_arg_x (-1) x y (by norm_num) hneg).add_const Real.pi)
    have hy := chi_hasDerivAt_curve lam c _ _ _ _ y (hasDerivAt_r_y x y h0)
      ((hasDerivAt_arg_y (-1) x y (by norm_num) hneg).add_const Real.pi)
    rw [← hφ, cart_value_x _ _ x y lam c hr hr2 hc hs] at hx
    rw [← hφ, cart_value_y _ _ x y lam c hr hr2 hc hs] at hy
    constructor
    · rw [show (fun t => aberration_surface (√(t * t + y * y)) (Complex.arg ⟨t, y⟩) lam c) =
        fun t => chi (√(t * t + y * y)) (Complex.arg ⟨-1 * t, -1 * y⟩ + Real.pi) lam c from
        funext fun t => by rw [surface_eq_chi, chi_arg_neg]; simp only [neg_one_mul]]
      exact hx
    · rw [show (fun t => aberration_surface (√(x * x + t * t)) (Complex.arg ⟨x, t⟩) lam c) =
        fun t => chi (√(x * x + t * t)) (Complex.arg ⟨-1 * x, -1 * t⟩ + Real.pi) lam c from
        funext fun t => by rw [surface_eq_chi, chi_arg_neg]; simp only [neg_one_mul]]
      exact hy

end QuantemModel.Aberration
