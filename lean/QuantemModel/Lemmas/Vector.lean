import QuantemModel.Model.Vector
/-!
Invariant of the Vector state machine (Model/Vector.lean) and its preservation by every
operation.  Core Lean only.
-/
namespace QuantemModel.Vector

/-! ### the invariant -/

/-- `x` is an integer value -/
def IsIntQ (x : Rat) : Prop := ∃ k : Int, x = (k : Rat)

/-- well-formed array: rectangular (every row has exactly `ncols` entries) and well-typed (an
int64 array holds integers only) -/
structure Arr.WF (a : Arr) : Prop where
  rect : ∀ r ∈ a.rows, r.length = a.ncols
  typed : a.isInt = true → ∀ r ∈ a.rows, ∀ x ∈ r, IsIntQ x

/-- a populated cell refers to a live array with exactly `nf` columns -/
@[reducible] def CellOK (heap : List Arr) (nf : Nat) (c : Option Ref) : Prop :=
  ∀ r : Nat, c = some r → ∃ a, heap[r]? = some a ∧ a.ncols = nf

structure VecOK (heap : List Arr) (nmeta : Nat) (v : Vec) : Prop where
  nodup : v.fields.Nodup
  units : v.units.length = v.fields.length
  ncells : v.cells.length = prod v.shape
  cells : ∀ c ∈ v.cells, CellOK heap v.fields.length c
  mref : v.mref < nmeta
  pos : ∀ d ∈ v.shape, 0 < d

structure Inv (s : State) : Prop where
  wf : ∀ a ∈ s.heap, a.WF
  vecs : ∀ v ∈ s.vecs, VecOK s.heap s.metas.length v

/-- in-place writes never change an array's shape or dtype kind -/
@[reducible] def SameShape (a' a : Arr) : Prop := a'.ncols = a.ncols ∧ a'.nrows = a.nrows ∧ a'.isInt = a.isInt

/-- every live reference of `h` is live in `h'` and still has the same number of columns, the same
number of rows and the same dtype kind -/
@[reducible] def HeapExt (h h' : List Arr) : Prop :=
  ∀ (r : Nat) (a : Arr), h[r]? = some a → ∃ a', h'[r]? = some a' ∧ SameShape a' a

theorem HeapExt.refl (h : List Arr) : HeapExt h h := fun _ a ha => ⟨a, ha, rfl, rfl, rfl⟩

theorem HeapExt.trans {h1 h2 h3 : List Arr} (a : HeapExt h1 h2) (b : HeapExt h2 h3) : HeapExt h1 h3 := by
  intro r x hx
  obtain ⟨y, hy, e1, e2, e3⟩ := a r x hx
  obtain ⟨z, hz, f1, f2, f3⟩ := b r y hy
  exact ⟨z, hz, f1.trans e1, f2.trans e2, f3.trans e3⟩

theorem HeapExt.append (h l : List Arr) : HeapExt h (h ++ l) := by
  intro r a ha
  refine ⟨a, ?_, rfl, rfl, rfl⟩
  have hlt : r < h.length := by
    rcases Nat.lt_or_ge r h.length with hlt | hge
    · exact hlt
    · rw [List.getElem?_eq_none hge] at ha; cases ha
  rw [List.getElem?_append_left hlt]; exact ha

theorem HeapExt.set {h : List Arr} {r : Nat} {a a' : Arr} (ha : h[r]? = some a) (hc : SameShape a' a) :
    HeapExt h (h.set r a') := by
  intro r2 b hb
  by_cases e : r = r2
  · subst e
    rw [ha] at hb; cases hb
    refine ⟨a', ?_, hc⟩
    have hlt : r < h.length := by
      rcases Nat.lt_or_ge r h.length with hlt | hge
      · exact hlt
      · rw [List.getElem?_eq_none hge] at ha; cases ha
    simp [List.getElem?_set_self hlt]
  · refine ⟨b, ?_, rfl, rfl, rfl⟩
    rw [List.getElem?_set_ne e]; exact hb

theorem CellOK.mono {h h' : List Arr} {nf : Nat} {c : Option Ref} (e : HeapExt h h') (hc : CellOK h nf c) :
    CellOK h' nf c := by
  intro r hr
  obtain ⟨a, ha, hn⟩ := hc r hr
  obtain ⟨a', ha', hn', _, _⟩ := e r a ha
  exact ⟨a', ha', hn'.trans hn⟩

theorem CellOK.none (h : List Arr) (nf : Nat) : CellOK h nf none := by
  intro r hr; cases hr

theorem VecOK.mono {h h' : List Arr} {n n' : Nat} {v : Vec} (e : HeapExt h h') (hn : n ≤ n')
    (hv : VecOK h n v) : VecOK h' n' v :=
  ⟨hv.nodup, hv.units, hv.ncells, fun c hc => (hv.cells c hc).mono e, Nat.lt_of_lt_of_le hv.mref hn, hv.pos⟩

/-- the workhorse: a new state whose heap extends the old one, stays rectangular, and whose
vectors are old ones or satisfy the vector invariant in the new heap -/
theorem Inv.update {s : State} (hI : Inv s) {heap' : List Arr} {vecs' : List Vec} {metas' : List (List (String × Int))}
    (hwf : ∀ a ∈ heap', a.WF) (hext : HeapExt s.heap heap') (hm : s.metas.length ≤ metas'.length)
    (hv : ∀ v ∈ vecs', v ∈ s.vecs ∨ VecOK heap' metas'.length v) :
    Inv { heap := heap', vecs := vecs', metas := metas' } := by
  refine ⟨hwf, ?_⟩
  intro v hvm
  rcases hv v hvm with h | h
  · exact (hI.vecs v h).mono hext hm
  · exact h

theorem mem_set_cases {α} {l : List α} {i : Nat} {a b : α} (h : b ∈ l.set i a) : b ∈ l ∨ b = a := by
  rcases List.mem_or_eq_of_mem_set h with h | h
  · exact Or.inl h
  · exact Or.inr h

theorem getVec_mem {s : State} {vid : Nat} {v : Vec} (h : s.getVec vid = .ok v) : v ∈ s.vecs := by
  unfold State.getVec at h
  split at h
  · rename_i v' hv'
    cases h
    exact List.mem_of_getElem? hv'
  · cases h

/-! ### arrays stay rectangular and well-typed -/

theorem fitRow_length (n : Nat) (r : List Rat) : (fitRow n r).length = n := by
  simp [fitRow]

theorem isIntQ_truncQ (x : Rat) : IsIntQ (truncQ x) := ⟨_, rfl⟩

theorem isIntQ_zero : IsIntQ 0 := ⟨0, by simp⟩

theorem truncQ_intCast (k : Int) : truncQ (k : Rat) = (k : Rat) := by
  simp [truncQ, Rat.num_intCast, Rat.den_intCast]

/-- casting to the array's dtype changes nothing on values that already have it -/
theorem castTo_of_isIntQ {t : Bool} {x : Rat} (h : t = true → IsIntQ x) : castTo t x = x := by
  unfold castTo
  split
  · rename_i ht
    obtain ⟨k, rfl⟩ := h ht
    exact truncQ_intCast k
  · rfl

theorem castTo_typed (t : Bool) (x : Rat) : t = true → IsIntQ (castTo t x) := by
  intro ht; subst ht; exact isIntQ_truncQ x

theorem Arr.lit_wf (n : Nat) (rows : List (List Rat)) (t : Bool) : (Arr.lit n rows t).WF := by
  constructor
  · intro r hr
    simp only [Arr.lit, List.mem_map] at hr
    obtain ⟨x, _, rfl⟩ := hr
    simp [fitRow_length, Arr.lit]
  · intro ht r hr x hx
    simp only [Arr.lit, List.mem_map] at hr
    obtain ⟨r0, _, rfl⟩ := hr
    simp only [List.mem_map] at hx
    obtain ⟨y, _, rfl⟩ := hx
    exact castTo_typed t y ht

theorem setColRows_wf (j n : Nat) : ∀ (rows : List (List Rat)) (xs : List Rat),
    (∀ r ∈ rows, r.length = n) → ∀ r ∈ setColRows j rows xs, r.length = n := by
  intro rows
  induction rows with
  | nil => intro xs _ r hr; simp [setColRows] at hr
  | cons r0 rs ih =>
    intro xs h r hr
    cases xs with
    | nil => simp only [setColRows] at hr; exact h r hr
    | cons x xs =>
      simp only [setColRows, List.mem_cons] at hr
      rcases hr with rfl | hr
      · simp [h r0 (List.mem_cons_self)]
      · exact ih xs (fun r hr => h r (List.mem_cons_of_mem _ hr)) r hr

theorem mem_set_elem {α} {l : List α} {i : Nat} {a b : α} (h : b ∈ l.set i a) : b ∈ l ∨ b = a := by
  rcases List.mem_or_eq_of_mem_set h with h | h
  · exact Or.inl h
  · exact Or.inr h

theorem setColRows_all (j : Nat) (P : Rat → Prop) : ∀ (rows : List (List Rat)) (xs : List Rat),
    (∀ r ∈ rows, ∀ x ∈ r, P x) → (∀ x ∈ xs, P x) → ∀ r ∈ setColRows j rows xs, ∀ x ∈ r, P x := by
  intro rows
  induction rows with
  | nil => intro xs _ _ r hr; simp [setColRows] at hr
  | cons r0 rs ih =>
    intro xs h hx r hr
    cases xs with
    | nil => simp only [setColRows] at hr; exact h r hr
    | cons x0 xs =>
      simp only [setColRows, List.mem_cons] at hr
      rcases hr with rfl | hr
      · intro x hxm
        rcases mem_set_elem hxm with h1 | h1
        · exact h r0 List.mem_cons_self x h1
        · subst h1; exact hx _ List.mem_cons_self
      · exact ih xs (fun r hr => h r (List.mem_cons_of_mem _ hr)) (fun x hm => hx x (List.mem_cons_of_mem _ hm)) r hr

theorem setColRows_length (j : Nat) : ∀ (rows : List (List Rat)) (xs : List Rat),
    (setColRows j rows xs).length = rows.length := by
  intro rows
  induction rows with
  | nil => intro xs; simp [setColRows]
  | cons r0 rs ih =>
    intro xs
    cases xs with
    | nil => simp [setColRows]
    | cons x xs => simp [setColRows, ih]

theorem Arr.setCol_same (a : Arr) (j : Nat) (xs : List Rat) : SameShape (a.setCol j xs) a :=
  ⟨rfl, by simp [Arr.setCol, Arr.nrows, setColRows_length], rfl⟩

theorem Arr.mapCol_same (a : Arr) (j : Nat) (f : Rat → Rat) : SameShape (a.mapCol j f) a :=
  ⟨rfl, by simp [Arr.mapCol, Arr.nrows], rfl⟩

theorem Arr.setRow_same (a : Arr) (k : Nat) (row : List Rat) : SameShape (a.setRow k row) a :=
  ⟨rfl, by simp [Arr.setRow, Arr.nrows], rfl⟩

theorem Arr.setCol_wf {a : Arr} (h : a.WF) (j : Nat) (xs : List Rat) : (a.setCol j xs).WF := by
  constructor
  · exact setColRows_wf j a.ncols a.rows _ h.rect
  · intro ht
    have ht' : a.isInt = true := ht
    refine setColRows_all j IsIntQ a.rows _ (h.typed ht') ?_
    intro x hx
    simp only [List.mem_map] at hx
    obtain ⟨y, _, rfl⟩ := hx
    exact castTo_typed _ y ht'

theorem Arr.mapCol_wf {a : Arr} (h : a.WF) (j : Nat) (f : Rat → Rat) : (a.mapCol j f).WF := by
  constructor
  · intro r hr
    simp only [Arr.mapCol, List.mem_map] at hr
    obtain ⟨x, hx, rfl⟩ := hr
    simp [h.rect x hx, Arr.mapCol]
  · intro ht r hr x hx
    have ht' : a.isInt = true := ht
    simp only [Arr.mapCol, List.mem_map] at hr
    obtain ⟨r0, hr0, rfl⟩ := hr
    rcases mem_set_elem hx with h1 | h1
    · exact h.typed ht' r0 hr0 x h1
    · subst h1; exact castTo_typed _ _ ht'

theorem Arr.setRow_wf {a : Arr} (h : a.WF) (k : Nat) (row : List Rat) : (a.setRow k row).WF := by
  constructor
  · intro r hr
    simp only [Arr.setRow] at hr
    rcases mem_set_elem hr with h1 | h1
    · exact h.rect r h1
    · subst h1; simp [fitRow_length, Arr.setRow]
  · intro ht r hr x hx
    have ht' : a.isInt = true := ht
    simp only [Arr.setRow] at hr
    rcases mem_set_elem hr with h1 | h1
    · exact h.typed ht' r h1 x hx
    · subst h1
      simp only [List.mem_map] at hx
      obtain ⟨y, _, rfl⟩ := hx
      exact castTo_typed _ y ht'

theorem Arr.addCols_wf {a : Arr} (h : a.WF) (k : Nat) : (a.addCols k).WF := by
  constructor
  · intro r hr
    simp only [Arr.addCols, List.mem_map] at hr
    obtain ⟨x, hx, rfl⟩ := hr
    simp [h.rect x hx, Arr.addCols]
  · intro ht; simp [Arr.addCols] at ht

theorem Arr.keepCols_wf {a : Arr} (h : a.WF) (keep : List Nat) : (a.keepCols keep).WF := by
  constructor
  · intro r hr
    simp only [Arr.keepCols, List.mem_map] at hr
    obtain ⟨x, _, rfl⟩ := hr
    simp [Arr.keepCols]
  · intro ht r hr x hx
    have ht' : a.isInt = true := ht
    simp only [Arr.keepCols, List.mem_map] at hr
    obtain ⟨r0, hr0, rfl⟩ := hr
    simp only [List.mem_map] at hx
    obtain ⟨i, _, rfl⟩ := hx
    rw [List.getD_eq_getElem?_getD]
    cases hi : r0[i]? with
    | none => simpa using isIntQ_zero
    | some y => simpa using h.typed ht' r0 hr0 y (List.mem_of_getElem? hi)

theorem wf_append {h : List Arr} {a : Arr} (hh : ∀ x ∈ h, x.WF) (ha : a.WF) : ∀ x ∈ h ++ [a], x.WF := by
  intro x hx
  rcases List.mem_append.mp hx with hx | hx
  · exact hh x hx
  · simp at hx; subst hx; exact ha

theorem wf_set {h : List Arr} {a : Arr} (hh : ∀ x ∈ h, x.WF) (ha : a.WF) (r : Nat) : ∀ x ∈ h.set r a, x.WF := by
  intro x hx
  rcases mem_set_cases hx with hx | hx
  · exact hh x hx
  · subst hx; exact ha

theorem getElem?_lt {α} {l : List α} {r : Nat} {a : α} (h : l[r]? = some a) : r < l.length := by
  rcases Nat.lt_or_ge r l.length with hlt | hge
  · exact hlt
  · rw [List.getElem?_eq_none hge] at h; cases h


/-! ### generic state updates -/

theorem Inv.putVec {s : State} (hI : Inv s) {heap' : List Arr} (vid : Nat) {v' : Vec}
    (hwf : ∀ a ∈ heap', a.WF) (hext : HeapExt s.heap heap')
    (hv : VecOK heap' s.metas.length v') :
    Inv (({ s with heap := heap' } : State).putVec vid v') := by
  unfold State.putVec
  refine hI.update hwf hext (Nat.le_refl _) ?_
  intro v hvm
  rcases mem_set_cases hvm with h | h
  · exact Or.inl h
  · subst h; exact Or.inr hv

theorem Inv.mkVec {s : State} (hI : Inv s) {heap' : List Arr}
    (hwf : ∀ a ∈ heap', a.WF) (hext : HeapExt s.heap heap')
    (shape : List Nat) (cells : List (Option Ref)) (fields units : List String)
    (hn : fields.Nodup) (hu : units.length = fields.length) (hc : cells.length = prod shape)
    (hcells : ∀ c ∈ cells, CellOK heap' fields.length c) (hp : ∀ d ∈ shape, 0 < d) :
    Inv ((({ s with heap := heap' } : State).mkVec shape cells fields units).1) := by
  unfold State.mkVec
  refine hI.update hwf hext (by simp) ?_
  intro v hvm
  rcases List.mem_append.mp hvm with h | h
  · exact Or.inl h
  · simp at h; subst h
    exact Or.inr ⟨hn, hu, hc, hcells, by simp, hp⟩

/-! ### validators -/

theorem nodupB_nodup : ∀ l : List String, nodupB l = true → l.Nodup := by
  intro l
  induction l with
  | nil => intro _; exact List.nodup_nil
  | cons x xs ih =>
    intro h
    simp only [nodupB, Bool.and_eq_true, Bool.not_eq_true', List.contains_eq_mem, decide_eq_false_iff_not] at h
    exact List.nodup_cons.mpr ⟨h.1, ih h.2⟩

theorem validateFields_ok {fs fs' : List String} (h : validateFields fs = .ok fs') : fs' = fs ∧ fs.Nodup := by
  unfold validateFields at h
  split at h
  · rename_i hb; cases h; exact ⟨rfl, nodupB_nodup _ hb⟩
  · cases h

theorem resolveFields_ok {nf : Option Int} {fields : Option (List String)} {fs : List String}
    (h : resolveFields nf fields = .ok fs) : fs.Nodup := by
  unfold resolveFields at h
  split at h
  · split at h
    · cases h
    · rename_i fs0 hv
      have := validateFields_ok hv
      split at h
      · split at h
        · cases h
        · cases h; exact this.1 ▸ this.2
      · cases h; exact this.1 ▸ this.2
  · split at h
    · split at h
      · cases h
      · have := validateFields_ok h; exact this.1 ▸ this.2
    · cases h

theorem validateUnits_ok {units : Option (List String)} {nf : Nat} {us : List String}
    (h : validateUnits units nf = .ok us) : us.length = nf := by
  unfold validateUnits at h
  split at h
  · cases h; simp
  · split at h
    · cases h
    · rename_i hne; cases h; simpa using hne

/-! ### creation -/

theorem inv_alloc {s : State} (hI : Inv s) (n : Nat) (rows : List (List Rat)) (t : Bool) :
    Inv { s with heap := s.heap ++ [Arr.lit n rows t] } :=
  hI.update (wf_append hI.wf (Arr.lit_wf n rows t)) (HeapExt.append _ _) (Nat.le_refl _) (fun _ h => Or.inl h)

theorem validateShape_pos {shape : List Int} {sh : List Nat} (h : validateShape shape = .ok sh) :
    ∀ d ∈ sh, 0 < d := by
  unfold validateShape at h
  split at h
  · cases h
  · rename_i hany
    cases h
    intro d hd
    simp only [List.mem_map] at hd
    obtain ⟨x, hx, rfl⟩ := hd
    have : ¬ (x ≤ 0) := by
      intro hle
      exact hany (List.any_eq_true.mpr ⟨x, hx, by simpa using hle⟩)
    omega

theorem inv_fromShape {s : State} (hI : Inv s) (shape : List Int) (nf : Option Int) (fields units : Option (List String)) :
    Inv (opFromShape s shape nf fields units).1 := by
  unfold opFromShape
  split
  · exact hI
  · rename_i sh hsh
    split
    · exact hI
    · rename_i fs hfs
      split
      · exact hI
      · rename_i us hus
        exact hI.mkVec hI.wf (HeapExt.refl _) _ _ fs us (resolveFields_ok hfs) (validateUnits_ok hus) (by simp)
          (by intro c hc; rw [List.eq_of_mem_replicate hc]; exact CellOK.none _ _) (validateShape_pos hsh)

theorem store_spec {heap heap1 : List Arr} {nf : Nat} {it : DItem} {r : Ref}
    (hwf : ∀ a ∈ heap, a.WF) (h : it.store heap nf = .ok (heap1, r)) :
    (∀ a ∈ heap1, a.WF) ∧ HeapExt heap heap1 ∧ CellOK heap1 nf (some r) := by
  unfold DItem.store at h
  split at h
  · split at h
    · rename_i a ha
      split at h
      · rename_i hc
        cases h
        refine ⟨hwf, HeapExt.refl _, ?_⟩
        intro r' hr'; cases hr'; exact ⟨a, ha, hc⟩
      · cases h
    · cases h
  · cases h
  · cases h
  · cases h
  · rename_i n rows t
    split at h
    · rename_i hc
      cases h
      refine ⟨wf_append hwf (Arr.lit_wf n rows t), HeapExt.append _ _, ?_⟩
      intro r' hr'; cases hr'
      exact ⟨Arr.lit n rows t, by simp, by simpa [Arr.lit] using hc⟩
    · cases h
  · cases h

theorem storeItems_spec (nf : Nat) : ∀ (items : List DItem) (heap heap' : List Arr) (cs : List (Option Ref)),
    (∀ a ∈ heap, a.WF) → storeItems nf heap items = .ok (heap', cs) →
    (∀ a ∈ heap', a.WF) ∧ HeapExt heap heap' ∧ cs.length = items.length ∧ ∀ c ∈ cs, CellOK heap' nf c := by
  intro items
  induction items with
  | nil =>
    intro heap heap' cs hwf h
    simp only [storeItems] at h
    cases h
    exact ⟨hwf, HeapExt.refl _, rfl, by intro c hc; cases hc⟩
  | cons it its ih =>
    intro heap heap' cs hwf h
    simp only [storeItems] at h
    split at h
    · cases h
    · rename_i heap1 r hst
      obtain ⟨hwf1, hext1, hc1⟩ := store_spec hwf hst
      split at h
      · cases h
      · rename_i h2 cs2 hrest
        cases h
        obtain ⟨hwf2, hext2, hlen, hcs⟩ := ih heap1 _ _ hwf1 hrest
        refine ⟨hwf2, hext1.trans hext2, by simp [hlen], ?_⟩
        intro c hc
        rcases List.mem_cons.mp hc with rfl | hc
        · exact hc1.mono hext2
        · exact hcs c hc

theorem inv_fromData {s : State} (hI : Inv s) (items : List DItem) (nf : Option Int) (fields units : Option (List String)) :
    Inv (opFromData s items nf fields units).1 := by
  unfold opFromData
  split
  · exact hI
  · split
    · exact hI
    · split
      · exact hI
      · split
        · exact hI
        · split
          · exact hI
          · split
            · exact hI
            · rename_i fs hfs
              split
              · exact hI
              · rename_i us hus
                split
                · exact hI
                · rename_i heap' cs hst
                  obtain ⟨hwf, hext, hlen, hcs⟩ := storeItems_spec _ _ _ _ _ hI.wf hst
                  exact hI.mkVec hwf hext _ cs fs us (resolveFields_ok hfs) (validateUnits_ok hus)
                    (by simp [prod, hlen]) hcs (by intro d hd; simp at hd; subst hd; simp)

theorem inv_setDataAttr {s : State} (hI : Inv s) (vid : Nat) (lens : List Nat) (items : List DItem) :
    Inv (opSetDataAttr s vid lens items).1 := by
  unfold opSetDataAttr
  split
  · exact hI
  · rename_i v hv
    have hvok := hI.vecs v (getVec_mem hv)
    split
    · exact hI
    · split
      · exact hI
      · split
        · exact hI
        · split
          · exact hI
          · split
            · exact hI
            · rename_i h0 h1 h2 h3 h4
              split
              · exact hI
              · rename_i heap' cs hst
                obtain ⟨hwf, hext, hlen, hcs⟩ := storeItems_spec _ _ _ _ _ hI.wf hst
                refine hI.putVec vid hwf hext ⟨hvok.nodup, hvok.units, ?_, hcs, hvok.mref, hvok.pos⟩
                have e1 : lens.length = v.shape.length := by omega
                have e2 : lens = v.shape := by
                  have := Classical.not_not.mp h2
                  rw [this, e1]; simp
                simp only [hlen]
                rw [← e2]; exact Classical.not_not.mp h4

/-! ### index resolution and addressed positions -/

theorem resolveAll_length (chk : Bool) : ∀ (shape : List Nat) (idx : List Ix) (ls : List (List Int)),
    resolveAll chk shape idx = .ok ls → ls.length = min shape.length idx.length := by
  intro shape
  induction shape with
  | nil => intro idx ls h; simp [resolveAll] at h; subst h; simp
  | cons d ds ih =>
    intro idx ls h
    cases idx with
    | nil => simp [resolveAll] at h; subst h; simp
    | cons ix ixs =>
      simp only [resolveAll] at h
      split at h
      · cases h
      · split at h
        · cases h
        · rename_i ls' hls
          cases h
          simp [ih ixs ls' hls, Nat.succ_min_succ]

theorem wrapAll_length (d : Nat) : ∀ (is : List Int) (ps : List Nat), wrapAll d is = .ok ps → ps.length = is.length := by
  intro is
  induction is with
  | nil => intro ps h; simp [wrapAll] at h; subst h; rfl
  | cons i is ih =>
    intro ps h
    simp only [wrapAll] at h
    split at h
    · cases h
    · split at h
      · cases h
      · rename_i ps' hps
        cases h
        simp [ih ps' hps]

theorem length_flatMap_const {α β} (f : α → List β) (n : Nat) (hf : ∀ x, (f x).length = n) :
    ∀ l : List α, (l.flatMap f).length = l.length * n := by
  intro l
  induction l with
  | nil => simp
  | cons x xs ih => simp [List.flatMap_cons, ih, hf, Nat.succ_mul, Nat.add_comm]

theorem positions_length : ∀ (shape : List Nat) (ls : List (List Int)) (ps : List Nat),
    ls.length = shape.length → positions shape ls = .ok ps → ps.length = prod (ls.map List.length) := by
  intro shape
  induction shape with
  | nil =>
    intro ls ps hl h
    have : ls = [] := List.eq_nil_of_length_eq_zero hl
    subst this
    simp [positions] at h; subst h; simp [prod]
  | cons d ds ih =>
    intro ls ps hl h
    cases ls with
    | nil => simp at hl
    | cons is iss =>
      simp only [positions] at h
      split at h
      · cases h
      · rename_i hw
        cases h
        have := wrapAll_length d is _ hw
        simp at this
        simp [prod, ← this]
      · rename_i o os hw
        split at h
        · cases h
        · rename_i sub hsub
          cases h
          have hl' : iss.length = ds.length := by simpa using hl
          have e1 := ih iss sub hl' hsub
          have e2 := wrapAll_length d is _ hw
          rw [length_flatMap_const _ sub.length (by intro x; simp)]
          simp only [List.map_cons, prod]
          rw [e2, e1]

theorem padIdx_length (nd : Nat) (idx : List Ix) (h : idx.length ≤ nd) : (padIdx nd idx).length = nd := by
  simp [padIdx]; omega

theorem join_getElem?_cases {l : List (Option Ref)} {p : Nat} : (l[p]?).join = none ∨ (l[p]?).join ∈ l := by
  cases h : l[p]? with
  | none => left; rfl
  | some c => right; simp only [Option.join]; exact List.mem_of_getElem? h

/-! ### retrieval -/

theorem getData_state (s : State) (vid : Nat) (idx : List Ix) : (opGetData s vid idx).1 = s := by
  unfold opGetData
  repeat' split
  all_goals rfl

theorem inv_getItemCore {s : State} (hI : Inv s) {v : Vec} (hvok : VecOK s.heap s.metas.length v)
    (idx : List Ix) (hle : idx.length ≤ v.shape.length) : Inv (getItemCore s v idx).1 := by
  unfold getItemCore
  simp only
  split
  · split
    · exact hI
    · split
      · exact hI
      · exact hI
  · split
    · exact hI
    · rename_i ls hls
      split
      · exact hI
      · rename_i ps hps
        split
        · exact hI
        · rename_i hany
          split
          · exact hI
          · rename_i fs hfs
            split
            · exact hI
            · rename_i us hus
              obtain ⟨e, _⟩ := validateFields_ok hfs
              subst e
              have hlen : ls.length = v.shape.length := by
                have := resolveAll_length _ _ _ _ hls
                rw [padIdx_length _ _ hle] at this
                simpa using this
              refine hI.mkVec hI.wf (HeapExt.refl _) _ _ _ us hvok.nodup (validateUnits_ok hus) ?_ ?_ ?_
              rotate_left 2
              · intro d hd
                rcases Nat.eq_zero_or_pos d with h0 | h0
                · subst h0
                  exact absurd (List.any_eq_true.mpr ⟨0, hd, by simp⟩) hany
                · exact h0
              · simp [positions_length _ _ _ hlen hps]
              · intro c hc
                simp only [List.mem_map] at hc
                obtain ⟨p, _, rfl⟩ := hc
                rcases join_getElem?_cases (l := v.cells) (p := p) with h | h
                · rw [h]; exact CellOK.none _ _
                · exact hvok.cells _ h

/-- indexing INTO a cell array only reads -/
theorem getItemLong_state (s : State) (v : Vec) (idx : List Ix) : (getItemLong s v idx).1 = s := by
  unfold getItemLong
  simp only
  repeat' split
  all_goals rfl

theorem inv_getItem {s : State} (hI : Inv s) (vid : Nat) (idx : List Ix) : Inv (opGetItem s vid idx).1 := by
  unfold opGetItem
  split
  · exact hI
  · rename_i v hv
    have hvok := hI.vecs v (getVec_mem hv)
    simp only
    split
    · split
      · rw [getItemLong_state]; exact hI
      · exact inv_getItemCore hI hvok _ (by simp [List.length_take]; omega)
    · exact inv_getItemCore hI hvok _ (by omega)

/-! ### assignment -/

theorem checkVal_ok {heap : List Arr} {nf : Nat} {x : Val} {r : Ref} (h : checkVal heap nf x = .ok r) :
    CellOK heap nf (some r) := by
  unfold checkVal at h
  split at h
  · split at h
    · rename_i a ha
      split at h
      · rename_i hc; cases h
        intro r' hr'; cases hr'; exact ⟨a, ha, hc⟩
      · cases h
    · cases h
  · cases h
  · cases h
  · cases h

theorem setCells_spec (heap : List Arr) (nf : Nat) : ∀ (ps : List Nat) (xs : List Val) (cells : List (Option Ref)),
    (∀ c ∈ cells, CellOK heap nf c) →
    (setCells heap nf cells ps xs).1.length = cells.length ∧
      ∀ c ∈ (setCells heap nf cells ps xs).1, CellOK heap nf c := by
  intro ps
  induction ps with
  | nil => intro xs cells h; simp only [setCells]; exact ⟨trivial, h⟩
  | cons p ps ih =>
    intro xs cells h
    cases xs with
    | nil => simp only [setCells]; exact ⟨trivial, h⟩
    | cons x xs =>
      simp only [setCells]
      split
      · rename_i r hr
        have h' : ∀ c ∈ cells.set p (some r), CellOK heap nf c := by
          intro c hc
          rcases mem_set_cases hc with hc | hc
          · exact h c hc
          · subst hc; exact checkVal_ok hr
        have := ih xs (cells.set p (some r)) h'
        simpa using this
      · exact ⟨rfl, h⟩

theorem inv_finish {s : State} (hI : Inv s) (vid : Nat) {v : Vec} (hv : VecOK s.heap s.metas.length v)
    (r : List (Option Ref) × Option Err) (hl : r.1.length = v.cells.length)
    (hc : ∀ c ∈ r.1, CellOK s.heap v.fields.length c) : Inv (finish s vid v r).1 := by
  unfold finish
  exact hI.putVec (heap' := s.heap) vid hI.wf (HeapExt.refl _) ⟨hv.nodup, hv.units, by simp [hl, hv.ncells], hc, hv.mref, hv.pos⟩

theorem inv_setData {s : State} (hI : Inv s) (vid : Nat) (idx : List Ix) (val : SetVal) :
    Inv (opSetData s vid idx val).1 := by
  unfold opSetData
  split
  · exact hI
  · rename_i v hv
    have hvok := hI.vecs v (getVec_mem hv)
    split
    · exact hI
    · split
      · exact hI
      · split
        · exact hI
        · rename_i ps hps
          split
          · split
            · rename_i x
              split
              · split
                · exact hI
                · exact hI
              · have := setCells_spec s.heap v.fields.length ps [x] v.cells hvok.cells
                exact inv_finish hI vid hvok _ this.1 this.2
            · exact hI
          · split
            · rename_i xs
              split
              · exact hI
              · have := setCells_spec s.heap v.fields.length ps xs v.cells hvok.cells
                exact inv_finish hI vid hvok _ this.1 this.2
            · exact hI

theorem inv_setItemCore {s : State} (hI : Inv s) (vid : Nat) {v : Vec} (hvok : VecOK s.heap s.metas.length v)
    (idx : List Ix) (val : SetVal) : Inv (setItemCore s vid v idx val).1 := by
  unfold setItemCore
  simp only
  split
  · split
    · exact hI
    · rename_i xs _
      split
      · exact hI
      · split
        · exact hI
        · rename_i ps hps
          split
          · exact hI
          · have := setCells_spec s.heap v.fields.length ps xs v.cells hvok.cells
            exact inv_finish hI vid hvok _ this.1 this.2
  · split
    · rename_i x
      split
      · exact hI
      · rename_i r hr
        split
        · exact hI
        · split
          · exact hI
          · rename_i p hp
            refine hI.putVec (heap' := s.heap) vid hI.wf (HeapExt.refl _)
              ⟨hvok.nodup, hvok.units, by simp [hvok.ncells], ?_, hvok.mref, hvok.pos⟩
            intro c hc
            rcases mem_set_cases hc with hc | hc
            · exact hvok.cells c hc
            · subst hc; exact checkVal_ok hr
    · exact hI

theorem Inv.withHeap {s : State} (hI : Inv s) {heap' : List Arr} (hwf : ∀ a ∈ heap', a.WF)
    (hext : HeapExt s.heap heap') : Inv { s with heap := heap' } :=
  hI.update hwf hext (Nat.le_refl _) (fun _ h => Or.inl h)

/-- `v[i…, k] = row` overwrites one row of a live array in place: same shape, same dtype -/
theorem inv_setItemLong {s : State} (hI : Inv s) (v : Vec) (idx : List Ix) (val : SetVal) :
    Inv (setItemLong s v idx val).1 := by
  unfold setItemLong
  simp only
  split
  · split
    · exact hI
    · split
      · exact hI
      · split
        · exact hI
        · rename_i r hr
          split
          · rename_i a b ha hb
            split
            · exact hI
            · exact hI
            · split
              · exact hI
              · split
                · exact hI
                · exact hI.withHeap (wf_set hI.wf (Arr.setRow_wf (hI.wf a (List.mem_of_getElem? ha)) _ _) r)
                    (HeapExt.set ha (Arr.setRow_same _ _ _))
            · split
              · exact hI
              · split
                · exact hI
                · exact hI
            · split
              · exact hI
              · split
                · exact hI
                · split
                  · exact hI
                  · exact hI
          · exact hI
  · exact hI

theorem inv_setItem {s : State} (hI : Inv s) (vid : Nat) (idx : List Ix) (val : SetVal) :
    Inv (opSetItem s vid idx val).1 := by
  unfold opSetItem
  split
  · exact hI
  · rename_i v hv
    have hvok := hI.vecs v (getVec_mem hv)
    simp only
    split
    · split
      · exact inv_setItemCore hI vid hvok _ val
      · exact inv_setItemLong hI v idx val
    · exact inv_setItemCore hI vid hvok _ val

/-! ### field views: in-place writes keep every array's shape -/

theorem applyOp_spec (j : Nat) (f : Rat → Rat) : ∀ (cells : List (Option Ref)) (heap : List Arr),
    (∀ a ∈ heap, a.WF) → (∀ a ∈ applyOp j f heap cells, a.WF) ∧ HeapExt heap (applyOp j f heap cells) := by
  intro cells
  induction cells with
  | nil => intro heap h; exact ⟨h, HeapExt.refl _⟩
  | cons c cs ih =>
    intro heap h
    cases c with
    | none => simpa [applyOp] using ih heap h
    | some r =>
      simp only [applyOp]
      split
      · rename_i a ha
        have hwf : ∀ x ∈ heap.set r (a.mapCol j f), x.WF :=
          wf_set h (Arr.mapCol_wf (h a (List.mem_of_getElem? ha)) j f) r
        have := ih _ hwf
        exact ⟨this.1, (HeapExt.set ha (Arr.mapCol_same _ _ _)).trans this.2⟩
      · exact ih heap h

theorem fill_spec (j : Nat) : ∀ (cells : List (Option Ref)) (heap : List Arr) (xs : List Rat),
    (∀ a ∈ heap, a.WF) → (∀ a ∈ fill j heap cells xs, a.WF) ∧ HeapExt heap (fill j heap cells xs) := by
  intro cells
  induction cells with
  | nil => intro heap xs h; exact ⟨h, HeapExt.refl _⟩
  | cons c cs ih =>
    intro heap xs h
    cases c with
    | none => simpa [fill] using ih heap xs h
    | some r =>
      simp only [fill]
      split
      · rename_i a ha
        have hwf : ∀ x ∈ heap.set r (a.setCol j (xs.take a.nrows)), x.WF :=
          wf_set h (Arr.setCol_wf (h a (List.mem_of_getElem? ha)) j _) r
        have := ih _ (xs.drop a.nrows) hwf
        exact ⟨this.1, (HeapExt.set ha (Arr.setCol_same _ _ _)).trans this.2⟩
      · exact ih heap xs h

theorem inv_setFlat {s : State} (hI : Inv s) (v : Vec) (j : Nat) (vals : FlatVal) : Inv (setFlat s v j vals).1 := by
  unfold setFlat
  split
  · exact hI
  · split
    · exact hI
    · rename_i xs _
      have := fill_spec j v.cells s.heap xs hI.wf
      exact hI.withHeap this.1 this.2

theorem inv_setFlattened {s : State} (hI : Inv s) (vid : Nat) (name : String) (vals : FlatVal) :
    Inv (opSetFlattened s vid name vals).1 := by
  unfold opSetFlattened
  split
  · exact hI
  · split
    · exact hI
    · exact inv_setFlat hI _ _ _

theorem inv_writeBack {s : State} (hI : Inv s) (vid : Nat) (name : String) : Inv (opWriteBack s vid name).1 := by
  unfold opWriteBack
  split
  · exact hI
  · split
    · exact hI
    · exact inv_setFlat hI _ _ _

theorem inv_fieldOp {s : State} (hI : Inv s) (vid : Nat) (name : String) (f : Rat → Rat) :
    Inv (opFieldOp s vid name f).1 := by
  unfold opFieldOp
  split
  · exact hI
  · split
    · exact hI
    · rename_i v _ _ j _
      have := applyOp_spec j f v.cells s.heap hI.wf
      exact inv_setFlat (hI.withHeap this.1 this.2) _ _ _

/-- general field arithmetic: every write is an in-place column assignment -/
theorem applyGen_spec (j : Nat) (g : Rat → Rat → Rat) (neg : Bool) (rhs : RhsR) :
    ∀ (cells : List (Option Ref)) (heap : List Arr), (∀ a ∈ heap, a.WF) →
      (∀ a ∈ (applyGen j g neg rhs heap cells).1, a.WF) ∧ HeapExt heap (applyGen j g neg rhs heap cells).1 := by
  intro cells
  induction cells with
  | nil => intro heap h; exact ⟨h, HeapExt.refl _⟩
  | cons c cs ih =>
    intro heap h
    cases c with
    | none => simpa [applyGen] using ih heap h
    | some r =>
      simp only [applyGen]
      split
      · exact ih heap h
      · rename_i a ha
        split
        · exact ⟨h, HeapExt.refl _⟩
        · split
          · exact ⟨h, HeapExt.refl _⟩
          · rename_i ys _
            have hwf : ∀ x ∈ heap.set r (a.setCol j (List.zipWith g (a.col j) ys)), x.WF :=
              wf_set h (Arr.setCol_wf (h a (List.mem_of_getElem? ha)) j _) r
            have := ih _ hwf
            exact ⟨this.1, (HeapExt.set ha (Arr.setCol_same _ _ _)).trans this.2⟩

theorem inv_fieldOpGen {s : State} (hI : Inv s) (vid : Nat) (name : String) (g : Rat → Rat → Rat) (neg : Bool)
    (rhs : Rhs) : Inv (opFieldOpGen s vid name g neg rhs).1 := by
  unfold opFieldOpGen
  split
  · exact hI
  · split
    · exact hI
    · rename_i v _ _ j _
      simp only
      split
      · exact hI
      · rename_i r _
        have := applyGen_spec j g neg r v.cells s.heap hI.wf
        split
        · rename_i heap' e he
          rw [he] at this
          exact hI.withHeap this.1 this.2
        · rename_i heap' he
          rw [he] at this
          exact inv_setFlat (hI.withHeap this.1 this.2) _ _ _

theorem inv_fieldGet {s : State} (hI : Inv s) (vid : Nat) (name : String) (idx : List Ix) :
    Inv (opFieldGet s vid name idx).1 := by
  have h := inv_getItem hI vid idx
  unfold opFieldGet
  split
  · exact hI
  · split
    · exact hI
    · split <;> (try split) <;> simp_all

/-! ### adding / removing fields: every populated cell gets a NEW array of the new width -/

theorem rebuildCells_spec (g : Arr → Arr) (bad : Arr → Bool) (n' : Nat)
    (hg : ∀ a, a.WF → bad a = false → (g a).WF ∧ (g a).ncols = n') :
    ∀ (cells : List (Option Ref)) (heap heap' : List Arr) (out : List (Option Ref)),
      (∀ a ∈ heap, a.WF) → rebuildCells g bad heap cells = .ok (heap', out) →
      (∀ a ∈ heap', a.WF) ∧ HeapExt heap heap' ∧ out.length = cells.length ∧ ∀ c ∈ out, CellOK heap' n' c := by
  intro cells
  induction cells with
  | nil =>
    intro heap heap' out hwf h
    simp only [rebuildCells] at h; cases h
    exact ⟨hwf, HeapExt.refl _, rfl, by intro c hc; cases hc⟩
  | cons c cs ih =>
    intro heap heap' out hwf h
    cases c with
    | none =>
      simp only [rebuildCells] at h
      split at h
      · cases h
      · rename_i h2 out2 hrest
        cases h
        obtain ⟨a1, a2, a3, a4⟩ := ih heap _ _ hwf hrest
        refine ⟨a1, a2, by simp [a3], ?_⟩
        intro c hc
        rcases List.mem_cons.mp hc with rfl | hc
        · exact CellOK.none _ _
        · exact a4 c hc
    | some r =>
      simp only [rebuildCells] at h
      split at h
      · cases h
      · rename_i a ha
        split at h
        · cases h
        · rename_i hb
          split at h
          · cases h
          · rename_i h2 out2 hrest
            cases h
            have hga := hg a (hwf a (List.mem_of_getElem? ha)) (by simpa using hb)
            obtain ⟨a1, a2, a3, a4⟩ := ih (heap ++ [g a]) _ _ (wf_append hwf hga.1) hrest
            refine ⟨a1, (HeapExt.append _ _).trans a2, by simp [a3], ?_⟩
            intro c hc
            rcases List.mem_cons.mp hc with rfl | hc
            · have : CellOK (heap ++ [g a]) n' (some heap.length) := by
                intro r' hr'; cases hr'; exact ⟨g a, by simp, hga.2⟩
              exact this.mono a2
            · exact a4 c hc

theorem rebuildCells_ok (g : Arr → Arr) (bad : Arr → Bool) (nf : Nat) (hbad : ∀ a : Arr, a.ncols = nf → bad a = false) :
    ∀ (cells : List (Option Ref)) (heap : List Arr), (∀ c ∈ cells, CellOK heap nf c) →
      ∃ r, rebuildCells g bad heap cells = .ok r := by
  intro cells
  induction cells with
  | nil => intro heap _; exact ⟨_, rfl⟩
  | cons c cs ih =>
    intro heap h
    have hcs : ∀ c ∈ cs, CellOK heap nf c := fun c hc => h c (List.mem_cons_of_mem _ hc)
    cases c with
    | none =>
      obtain ⟨r, hr⟩ := ih heap hcs
      exact ⟨(r.1, none :: r.2), by simp only [rebuildCells, hr]⟩
    | some r =>
      obtain ⟨a, ha, hn⟩ := h (some r) List.mem_cons_self r rfl
      obtain ⟨r2, hr2⟩ := ih (heap ++ [g a]) (fun c hc => (hcs c hc).mono (HeapExt.append _ _))
      exact ⟨(r2.1, some heap.length :: r2.2), by simp only [rebuildCells, ha, hbad a hn, hr2]; rfl⟩

theorem inv_addFields {s : State} (hI : Inv s) (vid : Nat) (names : List String) :
    Inv (opAddFields s vid names).1 := by
  unfold opAddFields
  split
  · exact hI
  · rename_i v hv
    have hvok := hI.vecs v (getVec_mem hv)
    split
    · exact hI
    · rename_i hex
      split
      · exact hI
      · rename_i hdup
        simp only
        have hnd : (v.fields ++ names).Nodup := by
          refine List.nodup_append.mpr ⟨hvok.nodup, nodupB_nodup _ (by simpa using hdup), ?_⟩
          intro a ha b hb e
          subst e
          have : names.any (fun x => v.fields.contains x) = true :=
            List.any_eq_true.mpr ⟨a, hb, by simpa using ha⟩
          exact hex this
        obtain ⟨r, hr⟩ := rebuildCells_ok (fun a => a.addCols names.length) (fun a => a.ncols != v.fields.length)
          v.fields.length (by intro a ha; simp [ha]) v.cells s.heap hvok.cells
        rw [hr]
        obtain ⟨heap', cs⟩ := r
        obtain ⟨a1, a2, a3, a4⟩ := rebuildCells_spec _ _ (v.fields.length + names.length)
          (by
            intro a hwf hb
            refine ⟨Arr.addCols_wf hwf _, ?_⟩
            have : a.ncols = v.fields.length := by simpa using hb
            simp [Arr.addCols, this]) v.cells s.heap heap' cs hI.wf hr
        exact hI.putVec vid a1 a2 ⟨hnd, by simp [hvok.units], by simp [a3, hvok.ncells], by simpa using a4, hvok.mref, hvok.pos⟩

theorem map_getD_range (l : List String) : (List.range l.length).map (l.getD · "") = l := by
  apply List.ext_getElem
  · simp
  · intro i h1 h2
    simp [List.getD_eq_getElem?_getD, List.getElem?_eq_getElem h2]

theorem inv_removeFields {s : State} (hI : Inv s) (vid : Nat) (names : List String) :
    Inv (opRemoveFields s vid names).1 := by
  unfold opRemoveFields
  split
  · exact hI
  · rename_i v hv
    have hvok := hI.vecs v (getVec_mem hv)
    simp only
    split
    · exact hI
    · generalize hrm : (names.filter (v.fields.contains ·)).map (v.fields.idxOf ·) = rm
      generalize hkeep : (List.range v.fields.length).filter (fun i => !rm.contains i) = keep
      have hnd : (keep.map (v.fields.getD · "")).Nodup := by
        have hs : (keep.map (v.fields.getD · "")).Sublist ((List.range v.fields.length).map (v.fields.getD · "")) := by
          rw [← hkeep]; exact List.Sublist.map _ List.filter_sublist
        rw [map_getD_range] at hs
        exact hvok.nodup.sublist hs
      have hrmlt : ∀ i ∈ rm, i < v.fields.length := by
        intro i hi
        rw [← hrm] at hi
        simp only [List.mem_map, List.mem_filter] at hi
        obtain ⟨nm, ⟨_, hc⟩, rfl⟩ := hi
        exact List.idxOf_lt_length_of_mem (by simpa using hc)
      obtain ⟨r, hr⟩ := rebuildCells_ok (fun a => a.keepCols keep) (fun a => rm.any (fun i => a.ncols < i + 1))
        v.fields.length (by
          intro a ha
          rw [List.any_eq_false]
          intro i hi
          have := hrmlt i hi
          simp; omega) v.cells s.heap hvok.cells
      rw [hr]
      obtain ⟨heap', cs⟩ := r
      obtain ⟨a1, a2, a3, a4⟩ := rebuildCells_spec _ _ keep.length
        (by intro a hwf _; exact ⟨Arr.keepCols_wf hwf keep, by simp [Arr.keepCols]⟩) v.cells s.heap heap' cs hI.wf hr
      exact hI.putVec vid a1 a2 ⟨hnd, by simp, by simp [a3, hvok.ncells], by simpa using a4, hvok.mref, hvok.pos⟩

/-! ### deep copy -/

/-- pointwise relation between two lists of equal length -/
inductive All2 {α β : Type} (R : α → β → Prop) : List α → List β → Prop
  | nil : All2 R [] []
  | cons {a b as bs} : R a b → All2 R as bs → All2 R (a :: as) (b :: bs)

theorem All2.imp {α β : Type} {R S : α → β → Prop} (h : ∀ a b, R a b → S a b) :
    ∀ {l₁ : List α} {l₂ : List β}, All2 R l₁ l₂ → All2 S l₁ l₂ := by
  intro l₁ l₂ hr
  induction hr with
  | nil => exact .nil
  | cons h1 _ ih => exact .cons (h _ _ h1) ih

theorem All2.imp_mem {α β : Type} {R S : α → β → Prop} :
    ∀ {l₁ : List α} {l₂ : List β}, (∀ a ∈ l₁, ∀ b, R a b → S a b) → All2 R l₁ l₂ → All2 S l₁ l₂ := by
  intro l₁ l₂ h hr
  induction hr with
  | nil => exact .nil
  | cons h1 _ ih =>
    exact .cons (h _ List.mem_cons_self _ h1) (ih (fun a ha b hab => h a (List.mem_cons_of_mem _ ha) b hab))

theorem All2.length_eq {α β : Type} {R : α → β → Prop} {l₁ : List α} {l₂ : List β} (h : All2 R l₁ l₂) :
    l₁.length = l₂.length := by
  induction h with
  | nil => rfl
  | cons _ _ ih => simp [ih]

theorem All2.get {α β : Type} {R : α → β → Prop} {l₁ : List α} {l₂ : List β} (h : All2 R l₁ l₂) :
    ∀ (i : Nat) (a : α) (b : β), l₁[i]? = some a → l₂[i]? = some b → R a b := by
  induction h with
  | nil => intro i a b h1; simp at h1
  | cons h1 _ ih =>
    intro i a b ha hb
    cases i with
    | zero => simp at ha hb; subst ha; subst hb; exact h1
    | succ i => simp at ha hb; exact ih i a b ha hb

theorem All2.mem_right {α β : Type} {R : α → β → Prop} {l₁ : List α} {l₂ : List β} (h : All2 R l₁ l₂) :
    ∀ b ∈ l₂, ∃ a ∈ l₁, R a b := by
  induction h with
  | nil => intro b hb; cases hb
  | cons h1 _ ih =>
    intro b hb
    rcases List.mem_cons.mp hb with rfl | hb
    · exact ⟨_, List.mem_cons_self, h1⟩
    · obtain ⟨a, ha, hr⟩ := ih b hb
      exact ⟨a, List.mem_cons_of_mem _ ha, hr⟩

/-- what `deepcopy` guarantees for one cell: unset stays unset; a populated cell gets a reference
`r' ≥ H0` (allocated during this copy) whose array equals the source array -/
def CopyRel (H0 : Nat) (heap heap' : List Arr) (c o : Option Ref) : Prop :=
  match c with
  | none => o = none
  | some r => ∃ (r' : Nat) (a : Arr), o = some r' ∧ H0 ≤ r' ∧ heap[r]? = some a ∧ heap'[r']? = some a

def MemoOK (H0 : Nat) (heap : List Arr) (memo : List (Ref × Ref)) : Prop :=
  ∀ (r r' : Nat), memo.lookup r = some r' → H0 ≤ r' ∧ ∃ a, heap[r]? = some a ∧ heap[r']? = some a

theorem getElem?_append_some {α} {l : List α} {r : Nat} {a : α} (h : l[r]? = some a) (ext : List α) :
    (l ++ ext)[r]? = some a := by
  rw [List.getElem?_append_left (getElem?_lt h)]; exact h

theorem CopyRel.weaken {H0 : Nat} {heap heap' : List Arr} {x : Arr} {ext : List Arr} {c o : Option Ref}
    (hlive : ∀ r, c = some r → r < heap.length)
    (h : CopyRel H0 (heap ++ [x]) (heap ++ [x] ++ ext) c o) (e : heap' = heap ++ [x] ++ ext) :
    CopyRel H0 heap heap' c o := by
  subst e
  cases c with
  | none => exact h
  | some r =>
    obtain ⟨r', a, h1, h2, h3, h4⟩ := h
    refine ⟨r', a, h1, h2, ?_, h4⟩
    rw [List.getElem?_append_left (hlive r rfl)] at h3
    exact h3

theorem deepCopy_spec (H0 : Nat) : ∀ (cells : List (Option Ref)) (heap : List Arr) (memo : List (Ref × Ref)),
    H0 ≤ heap.length → MemoOK H0 heap memo → (∀ c ∈ cells, ∀ r, c = some r → r < heap.length) →
    ∃ ext, (deepCopyCells heap memo cells).1 = heap ++ ext ∧ (∀ a ∈ ext, a ∈ heap) ∧
      All2 (CopyRel H0 heap (heap ++ ext)) cells (deepCopyCells heap memo cells).2 := by
  intro cells
  induction cells with
  | nil =>
    intro heap memo _ _ _
    exact ⟨[], by simp [deepCopyCells], (by intro a ha; cases ha), (by simp only [deepCopyCells]; exact .nil)⟩
  | cons c cs ih =>
    intro heap memo hH hmemo hlive
    have hlive' : ∀ c ∈ cs, ∀ r, c = some r → r < heap.length :=
      fun c hc => hlive c (List.mem_cons_of_mem _ hc)
    cases c with
    | none =>
      obtain ⟨ext, e1, e2, e3⟩ := ih heap memo hH hmemo hlive'
      refine ⟨ext, by simp only [deepCopyCells]; exact e1, e2, ?_⟩
      simp only [deepCopyCells]
      exact All2.cons rfl e3
    | some r =>
      have hr : r < heap.length := hlive _ List.mem_cons_self r rfl
      simp only [deepCopyCells]
      cases hl : memo.lookup r with
      | some r' =>
        obtain ⟨ext, e1, e2, e3⟩ := ih heap memo hH hmemo hlive'
        obtain ⟨m1, a, m2, m3⟩ := hmemo r r' hl
        refine ⟨ext, by simp only []; exact e1, e2, ?_⟩
        simp only []
        exact All2.cons ⟨r', a, rfl, m1, m2, getElem?_append_some m3 ext⟩ e3
      | none =>
        simp only []
        have ha : heap[r]? = some heap[r] := List.getElem?_eq_getElem hr
        rw [ha]
        simp only []
        have hmemo' : MemoOK H0 (heap ++ [heap[r]]) ((r, heap.length) :: memo) := by
          intro r2 r2' hl2
          rw [List.lookup_cons] at hl2
          split at hl2
          · rename_i heq
            have : r2 = r := by simpa using heq
            subst this
            cases hl2
            exact ⟨hH, heap[r2], getElem?_append_some ha _, by simp⟩
          · obtain ⟨m1, a, m2, m3⟩ := hmemo r2 r2' hl2
            exact ⟨m1, a, getElem?_append_some m2 _, getElem?_append_some m3 _⟩
        obtain ⟨ext, e1, e2, e3⟩ := ih (heap ++ [heap[r]]) ((r, heap.length) :: memo)
          (Nat.le_trans hH (by simp)) hmemo' (fun c hc r hr => Nat.lt_of_lt_of_le (hlive' c hc r hr) (by simp))
        refine ⟨heap[r] :: ext, by rw [e1]; simp, ?_, ?_⟩
        · intro a ha'
          rcases List.mem_cons.mp ha' with rfl | ha'
          · exact List.getElem_mem hr
          · have := e2 a ha'
            rcases List.mem_append.mp this with h | h
            · exact h
            · simp at h; subst h; exact List.getElem_mem hr
        · have hcat : heap ++ heap[r] :: ext = heap ++ [heap[r]] ++ ext := by simp
          refine All2.cons ⟨heap.length, heap[r], rfl, hH, ha, ?_⟩ ?_
          · simp
          · rw [hcat]
            exact All2.imp_mem (fun c hc o hco => CopyRel.weaken (hlive' c hc) hco rfl) e3

theorem cells_live {heap : List Arr} {nf : Nat} {cells : List (Option Ref)} (h : ∀ c ∈ cells, CellOK heap nf c) :
    ∀ c ∈ cells, ∀ r, c = some r → r < heap.length := by
  intro c hc r hr
  obtain ⟨a, ha, _⟩ := h c hc r hr
  exact getElem?_lt ha

theorem memoOK_nil (H0 : Nat) (heap : List Arr) : MemoOK H0 heap [] := by
  intro r r' h; simp at h

theorem inv_copy {s : State} (hI : Inv s) (vid : Nat) : Inv (opCopy s vid).1 := by
  unfold opCopy
  split
  · exact hI
  · rename_i v hv
    have hvok := hI.vecs v (getVec_mem hv)
    split
    · exact hI
    · split
      · exact hI
      · rename_i fs hfs
        split
        · exact hI
        · rename_i us hus
          obtain ⟨e, _⟩ := validateFields_ok hfs
          subst e
          obtain ⟨ext, e1, e2, e3⟩ := deepCopy_spec s.heap.length v.cells s.heap [] (Nat.le_refl _)
            (memoOK_nil _ _) (cells_live hvok.cells)
          generalize hdc : deepCopyCells s.heap [] v.cells = dc at e1 e3
          obtain ⟨heap', cs⟩ := dc
          simp only at e1 e3 ⊢
          subst e1
          refine hI.mkVec ?_ (HeapExt.append _ _) _ cs _ us hvok.nodup (validateUnits_ok hus) ?_ ?_ hvok.pos
          · intro a ha
            rcases List.mem_append.mp ha with h | h
            · exact hI.wf a h
            · exact hI.wf a (e2 a h)
          · rw [← e3.length_eq]; exact hvok.ncells
          · intro o ho
            obtain ⟨c, hc, hrel⟩ := e3.mem_right o ho
            cases c with
            | none => simp only [CopyRel] at hrel; subst hrel; exact CellOK.none _ _
            | some r =>
              obtain ⟨r', a, h1, _, h3, h4⟩ := hrel
              subst h1
              obtain ⟨a0, ha0, hn⟩ := hvok.cells _ hc r rfl
              rw [ha0] at h3
              have e : a0 = a := by cases h3; rfl
              subst e
              intro r2 hr2; cases hr2
              exact ⟨a0, h4, hn⟩

theorem inv_metaSet {s : State} (hI : Inv s) (vid : Nat) (k : String) (x : Int) : Inv (opMetaSet s vid k x).1 := by
  unfold opMetaSet
  split
  · exact hI
  · split
    · exact hI.update hI.wf (HeapExt.refl _) (by simp) (fun _ h => Or.inl h)
    · exact hI

/-! ### the machine -/

theorem inv_step {s : State} (hI : Inv s) (op : Op) : Inv (step s op).1 := by
  cases op with
  | alloc n rows t => exact inv_alloc hI n rows t
  | fromShape sh nf fs us => exact inv_fromShape hI sh nf fs us
  | fromData items nf fs us => exact inv_fromData hI items nf fs us
  | getData v idx => simp only [step]; rw [getData_state]; exact hI
  | setData v idx val => exact inv_setData hI v idx val
  | getItem v idx => exact inv_getItem hI v idx
  | setItem v idx val => exact inv_setItem hI v idx val
  | fieldOp v name f => exact inv_fieldOp hI v name f
  | fieldOpGen v name g neg rhs => exact inv_fieldOpGen hI v name g neg rhs
  | fieldGet v name idx => exact inv_fieldGet hI v name idx
  | setFlattened v name vals => exact inv_setFlattened hI v name vals
  | writeBack v name => exact inv_writeBack hI v name
  | addFields v names => exact inv_addFields hI v names
  | removeFields v names => exact inv_removeFields hI v names
  | copy v => exact inv_copy hI v
  | setDataAttr v lens items => exact inv_setDataAttr hI v lens items
  | metaSet v k x => exact inv_metaSet hI v k x

theorem inv_init : Inv init := ⟨(by intro a ha; cases ha), (by intro v hv; cases hv)⟩

theorem inv_run_from {s : State} (hI : Inv s) (ops : List Op) : Inv (run s ops) := by
  unfold run
  induction ops generalizing s with
  | nil => exact hI
  | cons op ops ih => exact ih (inv_step hI op)

end QuantemModel.Vector
