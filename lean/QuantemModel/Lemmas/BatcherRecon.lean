/-
Helper lemmas for C09: the bookkeeping of `reconstruct` and `reset_recon`.
-/
import QuantemModel.Lemmas.Batcher

namespace QuantemModel.Batcher

section
variable {P R : Type} [Num R]
variable (draw : Gen → List Nat → List Nat)
variable (stepFn : P → List Nat → P × R) (valFn : P → List Nat → R)

theorem runBatches_length_aux (batches : List (List Nat)) :
    ∀ (acc : P × List R),
      (batches.foldl (fun acc B => let r := stepFn acc.1 B; (r.1, acc.2 ++ [r.2])) acc).2.length
        = acc.2.length + batches.length := by
  induction batches with
  | nil => intro acc; simp
  | cons B Bs ih =>
    intro acc
    rw [List.foldl_cons, ih]
    simp only [List.length_append, List.length_cons, List.length_nil]; omega

/-- one loss is recorded per yielded batch -/
theorem runBatches_length (batches : List (List Nat)) (p : P) :
    (runBatches stepFn batches p).2.length = batches.length := by
  unfold runBatches
  rw [runBatches_length_aux]; simp

theorem recordedValLoss_isSome (b : Nat) (hb : 0 < b) (val : List Nat) (p : P) :
    (recordedValLoss valFn b val p).isSome = decide (val ≠ []) := by
  unfold recordedValLoss
  by_cases h : val.length > 0
  · have hne : val ≠ [] := List.length_pos_iff.mp h
    have hl : (iterVal b val).length > 0 := by
      rw [(show (iterVal b val).length = valLen b val from by
        unfold iterVal valLen
        have h0 : ¬ (val.length = 0) := by omega
        simp only [beq_iff_eq, h0, if_false, h, if_true]
        exact chunks_length b hb val)]
      unfold valLen
      rw [if_pos h]
      have := ceilDiv_step val.length b hb h
      omega
    simp [h, hl, hne]
  · have : val = [] := List.length_eq_zero_iff.mp (by omega)
    subst this; simp

theorem iterate_spec (b : Nat) (sp : Split) (k : Nat) :
    ∀ (st : LoopState P R),
      (iterate draw stepFn valFn b sp k st).gen.pos = st.gen.pos + k ∧
      (iterate draw stepFn valFn b sp k st).gen.seed = st.gen.seed := by
  induction k with
  | zero => intro st; simp [iterate]
  | succ k ih =>
    intro st
    rw [iterate]
    obtain ⟨h4, h5⟩ := ih (iterStep draw stepFn valFn b sp st)
    refine ⟨?_, ?_⟩
    · rw [h4]; simp only [iterStep]; omega
    · rw [h5]; simp only [iterStep]

theorem iterStep_valLosses_length (b : Nat) (hb : 0 < b) (sp : Split) (st : LoopState P R) :
    (iterStep draw stepFn valFn b sp st).valLosses.length
      = st.valLosses.length + (if sp.val ≠ [] then 1 else 0) := by
  have hs := recordedValLoss_isSome valFn b hb sp.val
    (runBatches stepFn (epoch b (draw st.gen sp.train)) st.params).1
  simp only [iterStep]
  by_cases hv : sp.val ≠ []
  · rw [if_pos hv]
    rw [decide_eq_true hv] at hs
    obtain ⟨v, hvv⟩ := Option.isSome_iff_exists.mp hs
    rw [hvv]
    simp only [List.length_append, List.length_cons, List.length_nil]
  · rw [if_neg hv]
    rw [decide_eq_false hv] at hs
    cases h : recordedValLoss valFn b sp.val
        (runBatches stepFn (epoch b (draw st.gen sp.train)) st.params).1 with
    | none => simp
    | some v => rw [h] at hs; simp at hs

theorem iterate_valLosses_length (b : Nat) (hb : 0 < b) (sp : Split) (k : Nat) :
    ∀ (st : LoopState P R),
      (iterate draw stepFn valFn b sp k st).valLosses.length
        = st.valLosses.length + (if sp.val ≠ [] then k else 0) := by
  induction k with
  | zero => intro st; simp [iterate]
  | succ k ih =>
    intro st
    rw [iterate, ih, iterStep_valLosses_length draw stepFn valFn b hb]
    by_cases hv : sp.val ≠ []
    · rw [if_pos hv, if_pos hv, if_pos hv]; omega
    · rw [if_neg hv, if_neg hv, if_neg hv]

/-- what one iteration contributes: its batches are the slices of a draw from the generator, one
loss was recorded per yielded batch, and the recorded epoch loss is their sum over `len(batcher)` -/
def IterRel (b : Nat) (train : List Nat) (t : List (List Nat) × List R × R) : Prop :=
  (∃ g, t.1 = epoch b (draw g train)) ∧ t.2.1.length = t.1.length ∧ t.2.2 = recordedEpochLoss b train t.2.1

theorem iterate_trace (b : Nat) (sp : Split) (k : Nat) :
    ∀ (st : LoopState P R), ∃ (X : List (List (List Nat))) (Y : List (List R)) (Z : List R),
      (iterate draw stepFn valFn b sp k st).schedule = st.schedule ++ X ∧
      (iterate draw stepFn valFn b sp k st).batchLosses = st.batchLosses ++ Y ∧
      (iterate draw stepFn valFn b sp k st).iterLosses = st.iterLosses ++ Z ∧
      X.length = k ∧ Y.length = k ∧ Z.length = k ∧
      ∀ t ∈ List.zip X (List.zip Y Z), IterRel draw b sp.train t := by
  induction k with
  | zero => intro st; exact ⟨[], [], [], by simp [iterate]⟩
  | succ k ih =>
    intro st
    rw [iterate]
    obtain ⟨X, Y, Z, h1, h2, h3, hx, hy, hz, hrel⟩ := ih (iterStep draw stepFn valFn b sp st)
    refine ⟨epoch b (draw st.gen sp.train) :: X,
      (runBatches stepFn (epoch b (draw st.gen sp.train)) st.params).2 :: Y,
      recordedEpochLoss b sp.train (runBatches stepFn (epoch b (draw st.gen sp.train)) st.params).2 :: Z,
      ?_, ?_, ?_, by simp [hx], by simp [hy], by simp [hz], ?_⟩
    · rw [h1]; simp [iterStep]
    · rw [h2]; simp [iterStep]
    · rw [h3]; simp [iterStep]
    · intro t ht
      simp only [List.zip_cons_cons, List.mem_cons] at ht
      rcases ht with rfl | ht
      · exact ⟨⟨st.gen, rfl⟩, runBatches_length stepFn _ _, rfl⟩
      · exact hrel t ht

/-! ### reset -/

omit [Num R] in
theorem resetRecon_eq (s s' : Recon P R) (k : Nat) (h1 : s.rng.rngSeed = some k)
    (h2 : s'.rng.rngSeed = some k) (h3 : s.initParams = s'.initParams) :
    resetRecon s = resetRecon s' := by
  cases s with
  | mk rng params initParams il vl =>
    cases s' with
    | mk rng' params' initParams' il' vl' =>
      cases rng with
      | mk sd g =>
        cases rng' with
        | mk sd' g' =>
          simp only at h1 h2 h3
          subst h1; subst h2; subst h3
          rfl

theorem reconstruct_preserves (cfg : RunCfg) (s : Recon P R) :
    (reconstruct draw stepFn valFn cfg s).1.rng.rngSeed = s.rng.rngSeed ∧
      (reconstruct draw stepFn valFn cfg s).1.initParams = s.initParams := by
  unfold reconstruct
  by_cases h : cfg.reset
  · simp only [h, if_true, resetRecon, resetRng]
    cases hs : s.rng.rngSeed <;> simp [hs]
  · simp only [h]
    exact ⟨rfl, rfl⟩

theorem runHistory_preserves (hist : List RunCfg) :
    ∀ (s : Recon P R), (runHistory draw stepFn valFn hist s).rng.rngSeed = s.rng.rngSeed ∧
      (runHistory draw stepFn valFn hist s).initParams = s.initParams := by
  induction hist with
  | nil => intro s; exact ⟨rfl, rfl⟩
  | cons c cs ih =>
    intro s
    unfold runHistory
    rw [List.foldl_cons]
    have h := ih (reconstruct draw stepFn valFn c s).1
    unfold runHistory at h
    have hp := reconstruct_preserves draw stepFn valFn c s
    exact ⟨h.1.trans hp.1, h.2.trans hp.2⟩

end
end QuantemModel.Batcher
