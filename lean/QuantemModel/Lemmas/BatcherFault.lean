/-
Helper lemmas for C09 (growth round 5): `SimpleBatcher` with Python integers, `reconstruct` interrupted by an
exception (`Model/BatcherExt.lean`), schedules of whole `reconstruct` calls.
-/
import QuantemModel.Lemmas.BatcherRecon
import QuantemModel.Model.BatcherExt

namespace QuantemModel.Batcher

/-! ### Python integers as batch sizes -/

theorem iterPy_pos (b : Int) (hb : 0 < b) (order : List Nat) : iterPy b order = .ok (epoch b.toNat order) := by
  unfold iterPy epoch
  have h0 : ¬ b = 0 := by omega
  have h1 : ¬ b < 0 := by omega
  simp [h0, h1]

theorem lenPy_pos (b : Int) (hb : 0 < b) (train : List Nat) : lenPy b train = .ok (numBatches b.toNat train) := by
  unfold lenPy ceilDivPy numBatches
  have h0 : ¬ b = 0 := by omega
  simp only [h0, if_false, hb, if_true]
  have : ¬ (Int.ofNat (ceilDiv train.length b.toNat) < 0) := by
    have := Int.natCast_nonneg (ceilDiv train.length b.toNat)
    simp only [Int.ofNat_eq_natCast]; omega
  rw [if_neg this]
  simp

/-- a batch size that is at least the number of patterns yields the whole (non-empty) order as ONE batch -/
theorem chunks_whole {α : Type} (b : Nat) (l : List α) (hne : l ≠ []) (hle : l.length ≤ b) : chunks b l = [l] := by
  have hb : 0 < b := Nat.lt_of_lt_of_le (List.length_pos_iff.mpr hne) hle
  rw [chunks_of_ne_nil b hb l hne, List.take_of_length_le hle, List.drop_of_length_le hle]
  rfl

/-! ### schedules of a whole `reconstruct` call -/

section
variable {P R : Type} [Num R]
variable (draw : Gen → List Nat → List Nat)
variable (stepFn : P → List Nat → P × R) (valFn : P → List Nat → R)

/-- every epoch the loop adds to the schedule is the slicing of a draw from the generator -/
theorem iterate_schedule_mem (b : Nat) (sp : Split) (k : Nat) :
    ∀ (st : LoopState P R), ∀ X ∈ (iterate draw stepFn valFn b sp k st).schedule,
      X ∈ st.schedule ∨ ∃ g, X = epoch b (draw g sp.train) := by
  induction k with
  | zero => intro st X hX; exact Or.inl (by simpa [iterate] using hX)
  | succ k ih =>
    intro st X hX
    rw [iterate] at hX
    rcases ih _ X hX with h | h
    · simp only [iterStep, List.mem_append, List.mem_singleton] at h
      rcases h with h | h
      · exact Or.inl h
      · exact Or.inr ⟨st.gen, h⟩
    · exact Or.inr h

omit [Num R] in
/-- when no permutation is drawn for the split (no validation set, or grid mode) the split does not depend on it -/
theorem split_perm_irrelevant (n : Nat) (ratio : Float) (mode : Mode) (perm perm' : List Nat)
    (h : ¬ (nValOf n (cleanRatio ratio) > 0 ∧ mode = .random)) :
    split n ratio mode perm = split n ratio mode perm' := by
  unfold split splitWith
  by_cases hn : nValOf n (cleanRatio ratio) > 0
  · have hm : mode ≠ .random := fun hm => h ⟨hn, hm⟩
    cases mode with
    | random => exact absurd rfl hm
    | grid => rfl
  · simp only [hn, if_false]

omit [Num R] in
/-- the split the batcher of a `reconstruct` call works with is the split of SOME permutation of all patterns -/
theorem makeBatcher_split (hdraw : ∀ g l, (draw g l).Perm l) (g : Gen) (n : Nat) (ratio : Float) (mode : Mode) :
    ∃ perm, perm.Perm (List.range n) ∧ (makeBatcher draw g n ratio mode).1 = split n ratio mode perm := by
  unfold makeBatcher
  by_cases h : nValOf n (cleanRatio ratio) > 0 ∧ mode = .random
  · rw [if_pos h]
    exact ⟨draw g (List.range n), hdraw _ _, rfl⟩
  · rw [if_neg h]
    exact ⟨List.range n, List.Perm.refl _, split_perm_irrelevant n ratio mode _ _ h⟩

/-! ### interrupted calls -/

theorem iterateF_none (b : Nat) (sp : Split) (k : Nat) (st : LoopState P R) (h : sp.train ≠ [] ∨ k = 0) :
    iterateF draw stepFn valFn b sp k none st = (iterate draw stepFn valFn b sp k st, false) := by
  unfold iterateF
  have : ¬ (sp.train = [] ∧ 0 < k) := by
    rintro ⟨h1, h2⟩
    rcases h with h | h
    · exact h h1
    · omega
  rw [if_neg this]

/-- what an interrupted iteration leaves in the two histories: nothing, unless the exception comes after the
iteration was recorded -/
theorem iterStepFault_losses (b : Nat) (sp : Split) (st : LoopState P R) (kind : FaultKind)
    (hk : kind ≠ .afterRecord) (hr : (iterStepFault draw stepFn valFn b sp st kind).2 = true) :
    (iterStepFault draw stepFn valFn b sp st kind).1.iterLosses = st.iterLosses ∧
    (iterStepFault draw stepFn valFn b sp st kind).1.valLosses = st.valLosses ∧
    (iterStepFault draw stepFn valFn b sp st kind).1.gen = { seed := st.gen.seed, pos := st.gen.pos + 1 } := by
  cases kind with
  | afterRecord => exact absurd rfl hk
  | train j =>
    simp only [iterStepFault] at hr ⊢
    split at hr
    · rename_i hj; simp [hj]
    · simp at hr
  | val k =>
    simp only [iterStepFault] at hr ⊢
    split at hr
    · rename_i hj; simp [hj]
    · simp at hr

/-- the loop with a fault that fires in the training or validation pass of iteration `f.iter`: both histories are
those after `f.iter` complete iterations, the generator has made one more draw -/
theorem iterateF_fault_losses (b : Nat) (sp : Split) (k : Nat) (f : Fault) (st : LoopState P R)
    (hk : f.kind ≠ .afterRecord) (hne : sp.train ≠ [])
    (hraised : (iterateF draw stepFn valFn b sp k (some f) st).2 = true) :
    (iterateF draw stepFn valFn b sp k (some f) st).1.iterLosses = (iterate draw stepFn valFn b sp f.iter st).iterLosses ∧
    (iterateF draw stepFn valFn b sp k (some f) st).1.valLosses = (iterate draw stepFn valFn b sp f.iter st).valLosses ∧
    (iterateF draw stepFn valFn b sp k (some f) st).1.gen
      = { seed := (iterate draw stepFn valFn b sp f.iter st).gen.seed,
          pos := (iterate draw stepFn valFn b sp f.iter st).gen.pos + 1 } ∧
    f.iter < k := by
  unfold iterateF at hraised ⊢
  have hcond : ¬ (sp.train = [] ∧ 0 < k) := fun h => hne h.1
  rw [if_neg hcond] at hraised ⊢
  by_cases hi : f.iter < k
  · simp only [hi, if_true] at hraised ⊢
    by_cases hr : (iterStepFault draw stepFn valFn b sp (iterate draw stepFn valFn b sp f.iter st) f.kind).2 = true
    · rw [if_pos hr]
      obtain ⟨h1, h2, h3⟩ := iterStepFault_losses draw stepFn valFn b sp _ f.kind hk hr
      exact ⟨h1, h2, h3, trivial⟩
    · rw [if_neg hr] at hraised
      simp at hraised
  · simp [hi] at hraised

omit [Num R] in
theorem resetRecon_rng (s : Recon P R) :
    (resetRecon s).rng.rngSeed = s.rng.rngSeed ∧ (resetRecon s).initParams = s.initParams := by
  unfold resetRecon resetRng
  cases hs : s.rng.rngSeed <;> simp [hs]

theorem reconstructF_preserves (cfg : RunCfg) (f : Option Fault) (s : Recon P R) :
    (reconstructF draw stepFn valFn cfg f s).1.rng.rngSeed = s.rng.rngSeed ∧
      (reconstructF draw stepFn valFn cfg f s).1.initParams = s.initParams := by
  unfold reconstructF
  by_cases h : cfg.reset
  · simp only [h, if_true]
    exact resetRecon_rng s
  · simp only [h]
    exact ⟨rfl, rfl⟩

theorem runHistoryF_preserves (hist : List (RunCfg × Option Fault)) :
    ∀ (s : Recon P R), (runHistoryF draw stepFn valFn hist s).rng.rngSeed = s.rng.rngSeed ∧
      (runHistoryF draw stepFn valFn hist s).initParams = s.initParams := by
  induction hist with
  | nil => intro s; exact ⟨rfl, rfl⟩
  | cons c cs ih =>
    intro s
    unfold runHistoryF
    rw [List.foldl_cons]
    have h := ih (reconstructF draw stepFn valFn c.1 c.2 s).1
    unfold runHistoryF at h
    have hp := reconstructF_preserves draw stepFn valFn c.1 c.2 s
    exact ⟨h.1.trans hp.1, h.2.trans hp.2⟩

end
end QuantemModel.Batcher
