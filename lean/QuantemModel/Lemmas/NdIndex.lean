import QuantemModel.Model.NdIndex
/-! Lemmas about row-major arrays (`Model/NdIndex.lean`): `build`/`get`, index boxes. -/
namespace QuantemModel.Nd

/-- `j` is a valid multi-index of `shape` -/
def InBox : List Nat → List Nat → Prop
  | [], [] => True
  | n :: r, i :: j => i < n ∧ InBox r j
  | _, _ => False

theorem InBox.length_eq : ∀ {s j : List Nat}, InBox s j → j.length = s.length
  | [], [], _ => rfl
  | _ :: r, _ :: j, h => by simp [InBox.length_eq (s := r) (j := j) h.2]
  | [], _ :: _, h => by simp [InBox] at h
  | _ :: _, [], h => by simp [InBox] at h

theorem sum_map_const_range (n p : Nat) : (List.map (fun _ => p) (List.range n)).sum = n * p := by
  induction n with
  | zero => simp
  | succ k ih => simp [List.range_succ, ih, Nat.add_mul]

theorem allIdx_length (s : List Nat) : (allIdx s).length = prod s := by
  induction s with
  | nil => rfl
  | cons n r ih =>
    simp only [allIdx, prod, List.length_flatMap, List.length_map, ih]
    exact sum_map_const_range n (prod r)

theorem build_shape {α : Type} (s : List Nat) (f : List Nat → α) : (build s f).shape = s := rfl

theorem build_data_length {α : Type} (s : List Nat) (f : List Nat → α) :
    (build s f).data.length = prod s := by
  simp [build, allIdx_length]

theorem getElem?_flatMap_uniform {α β : Type} (f : α → List β) (p : Nat) :
    ∀ (l : List α), (∀ a ∈ l, (f a).length = p) → ∀ (i q : Nat) (hi : i < l.length), q < p →
      (l.flatMap f)[i * p + q]? = (f l[i])[q]? := by
  intro l
  induction l with
  | nil => intro _ i q hi; simp at hi
  | cons a t ih =>
    intro hf i q hi hq
    have ha : (f a).length = p := hf a (by simp)
    cases i with
    | zero =>
      simp only [List.flatMap_cons, Nat.zero_mul, Nat.zero_add, List.getElem_cons_zero]
      rw [List.getElem?_append_left (by omega)]
    | succ i' =>
      simp only [List.flatMap_cons, List.getElem_cons_succ]
      have hidx : (i' + 1) * p + q = (f a).length + (i' * p + q) := by
        rw [ha, Nat.add_mul]; omega
      rw [hidx, List.getElem?_append_right (by omega)]
      simp only [Nat.add_sub_cancel_left]
      exact ih (fun b hb => hf b (by simp [hb])) i' q (by simpa using hi) hq

theorem ravel_lt : ∀ {s j : List Nat}, InBox s j → ravel s j < prod s
  | [], [], _ => by simp [ravel, prod]
  | n :: r, i :: j, h => by
    have h2 := ravel_lt (s := r) (j := j) h.2
    have h1 : i < n := h.1
    simp only [ravel, prod]
    calc i * prod r + ravel r j < i * prod r + prod r := by omega
      _ = (i + 1) * prod r := by rw [Nat.add_mul]; omega
      _ ≤ n * prod r := Nat.mul_le_mul_right _ h1
  | [], _ :: _, h => by simp [InBox] at h
  | _ :: _, [], h => by simp [InBox] at h

theorem allIdx_getElem?_ravel : ∀ {s j : List Nat}, InBox s j → (allIdx s)[ravel s j]? = some j
  | [], [], _ => by simp [allIdx, ravel]
  | n :: r, i :: j, h => by
    have h1 : i < n := h.1
    have ih := allIdx_getElem?_ravel (s := r) (j := j) h.2
    have hq := ravel_lt (s := r) (j := j) h.2
    simp only [allIdx, ravel]
    rw [getElem?_flatMap_uniform _ (prod r) (List.range n)
      (by intro a _; simp [allIdx_length]) i (ravel r j) (by simpa using h1) hq]
    simp [ih]
  | [], _ :: _, h => by simp [InBox] at h
  | _ :: _, [], h => by simp [InBox] at h

/-- element access of a built array: the defining property of `build` -/
theorem build_get {α : Type} [Inhabited α] (s : List Nat) (f : List Nat → α) {j : List Nat}
    (h : InBox s j) : (build s f).get j = f j := by
  unfold Arr.get build
  simp only [List.getD_eq_getElem?_getD, List.getElem?_map, allIdx_getElem?_ravel h]
  rfl

/-- membership in `allIdx` is exactly being a valid multi-index -/
theorem mem_allIdx : ∀ {s j : List Nat}, j ∈ allIdx s ↔ InBox s j
  | [], j => by
    cases j <;> simp [allIdx, InBox]
  | n :: r, j => by
    cases j with
    | nil => simp [allIdx, InBox]
    | cons i j' =>
      simp only [allIdx, List.mem_flatMap, List.mem_range, List.mem_map, InBox]
      constructor
      · rintro ⟨a, ha, b, hb, hab⟩
        simp only [List.cons.injEq] at hab
        obtain ⟨rfl, rfl⟩ := hab
        exact ⟨ha, mem_allIdx.mp hb⟩
      · rintro ⟨hi, hj⟩
        exact ⟨i, hi, j', mem_allIdx.mpr hj, rfl⟩

end QuantemModel.Nd
