import QuantemModel.Model.NdIndex
import Mathlib.Data.List.Nodup
/-! Lemmas about row-major arrays (`Model/NdIndex.lean`): `build`/`get`, index boxes. -/
namespace QuantemModel.Nd

/-- `j` is a valid multi-index of `shape` -/
def InBox : List Nat → List Nat → Prop
  | [], [] => True
  | n :: r, i :: j => i < n ∧ InBox r j
  | _, _ => False

theorem InBox.length_eq : ∀ {s j : List Nat}, InBox s j → j.length = s.length
  | [], [], _ => rfl
  | _ :: r, _ :: j, h => by simp [InBox.length_eq (s := r) (j := j) h.2]
  | [], _ :: _, h => by simp [InBox] at h
  | _ :: _, [], h => by simp [InBox] at h

theorem sum_map_const_range (n p : Nat) : (List.map (fun _ => p) (List.range n)).sum = n * p := by
  induction n with
  | zero => simp
  | succ k ih => simp [List.range_succ, ih, Nat.add_mul]

theorem allIdx_length (s : List Nat) : (allIdx s).length = prod s := by
  induction s with
  | nil => rfl
  | cons n r ih =>
    simp only [allIdx, prod, List.length_flatMap, List.length_map, ih]
    exact sum_map_const_range n (prod r)

theorem build_shape {α : Type} (s : List Nat) (f : List Nat → α) : (build s f).shape = s := rfl

theorem build_data_length {α : Type} (s : List Nat) (f : List Nat → α) :
    (build s f).data.length = prod s := by
  simp [build, allIdx_length]

theorem getElem?_flatMap_uniform {α β : Type} (f : α → List β) (p : Nat) :
    ∀ (l : List α), (∀ a ∈ l, (f a).length = p) → ∀ (i q : Nat) (hi : i < l.length), q < p →
      (l.flatMap f)[i * p + q]? = (f l[i])[q]? := by
  intro l
  induction l with
  | nil => intro _ i q hi; simp at hi
  | cons a t ih =>
    intro hf i q hi hq
    have ha : (f a).length = p := hf a (by simp)
    cases i with
    | zero =>
      simp only [List.flatMap_cons, Nat.zero_mul, Nat.zero_add, List.getElem_cons_zero]
      rw [List.getElem?_append_left (by omega)]
    | succ i' =>
      simp only [List.flatMap_cons, List.getElem_cons_succ]
      have hidx : (i' + 1) * p + q = (f a).length + (i' * p + q) := by
        rw [ha, Nat.add_mul]; omega
      rw [hidx, List.getElem?_append_right (by omega)]
      simp only [Nat.add_sub_cancel_left]
      exact ih (fun b hb => hf b (by simp [hb])) i' q (by simpa using hi) hq

theorem ravel_lt : ∀ {s j : List Nat}, InBox s j → ravel s j < prod s
  | [], [], _ => by simp [ravel, prod]
  | n :: r, i :: j, h => by
    have h2 := ravel_lt (s := r) (j := j) h.2
    have h1 : i < n := h.1
    simp only [ravel, prod]
    calc i * prod r + ravel r j < i * prod r + prod r := by omega
      _ = (i + 1) * prod r := by rw [Nat.add_mul]; omega
      _ ≤ n * prod r := Nat.mul_le_mul_right _ h1
  | [], _ :: _, h => by simp [InBox] at h
  | _ :: _, [], h => by simp [InBox] at h

theorem allIdx_getElem?_ravel : ∀ {s j : List Nat}, InBox s j → (allIdx s)[ravel s j]? = some j
  | [], [], _ => by simp [allIdx, ravel]
  | n :: r, i :: j, h => by
    have h1 : i < n := h.1
    have ih := allIdx_getElem?_ravel (s := r) (j := j) h.2
    have hq := ravel_lt (s := r) (j := j) h.2
    simp only [allIdx, ravel]
    rw [getElem?_flatMap_uniform _ (prod r) (List.range n)
      (by intro a _; simp [allIdx_length]) i (ravel r j) (by simpa using h1) hq]
    simp [ih]
  | [], _ :: _, h => by simp [InBox] at h
  | _ :: _, [], h => by simp [InBox] at h

/-- element access of a built array: the defining property of `build` -/
theorem build_get {α : Type} [Inhabited α] (s : List Nat) (f : List Nat → α) {j : List Nat}
    (h : InBox s j) : (build s f).get j = f j := by
  unfold Arr.get build
  simp only [List.getD_eq_getElem?_getD, List.getElem?_map, allIdx_getElem?_ravel h]
  rfl

/-- membership in `allIdx` is exactly being a valid multi-index -/
theorem mem_allIdx : ∀ {s j : List Nat}, j ∈ allIdx s ↔ InBox s j
  | [], j => by
    cases j <;> simp [allIdx, InBox]
  | n :: r, j => by
    cases j with
    | nil => simp [allIdx, InBox]
    | cons i j' =>
      simp only [allIdx, List.mem_flatMap, List.mem_range, List.mem_map, InBox]
      constructor
      · rintro ⟨a, ha, b, hb, hab⟩
        simp only [List.cons.injEq] at hab
        obtain ⟨rfl, rfl⟩ := hab
        exact ⟨ha, mem_allIdx.mp hb⟩
      · rintro ⟨hi, hj⟩
        exact ⟨i, hi, j', mem_allIdx.mpr hj, rfl⟩


/-! ### the axis order of an index expression -/

theorem keptAxes_nodup (its : List Item) : (keptAxes its).Nodup :=
  List.Nodup.filter _ List.nodup_range

theorem listAxes_nodup (its : List Item) : (listAxes its).Nodup :=
  List.Nodup.filter _ List.nodup_range

theorem mem_keptAxes {its : List Item} {a : Nat} :
    a ∈ keptAxes its ↔ a < its.length ∧ (its.getD a default).isInt = false := by
  simp [keptAxes]

theorem mem_listAxes {its : List Item} {a : Nat} :
    a ∈ listAxes its ↔ a < its.length ∧ (its.getD a default).isList = true := by
  simp [listAxes]

theorem isList_not_isInt {it : Item} (h : it.isList = true) : it.isInt = false := by
  cases it <;> simp_all [Item.isList, Item.isInt]

theorem npOrder_nodup (sep : Bool) (its : List Item) : (npOrder sep its).Nodup := by
  unfold npOrder
  split
  · rw [List.nodup_append]
    refine ⟨listAxes_nodup its, List.Nodup.filter _ (keptAxes_nodup its), ?_⟩
    intro a ha b hb hab
    subst hab
    have h1 := (mem_listAxes.mp ha).2
    simp only [List.mem_filter] at hb
    rw [h1] at hb
    simp at hb
  · exact keptAxes_nodup its

theorem mem_npOrder {sep : Bool} {its : List Item} {a : Nat} :
    a ∈ npOrder sep its ↔ a < its.length ∧ (its.getD a default).isInt = false := by
  unfold npOrder
  split
  · simp only [List.mem_append, List.mem_filter, mem_listAxes, mem_keptAxes]
    constructor
    · rintro (⟨h1, h2⟩ | ⟨⟨h1, h2⟩, _⟩)
      · exact ⟨h1, isList_not_isInt h2⟩
      · exact ⟨h1, h2⟩
    · rintro ⟨h1, h2⟩
      by_cases hl : (its.getD a default).isList = true
      · exact Or.inl ⟨h1, hl⟩
      · exact Or.inr ⟨⟨h1, h2⟩, by simpa using hl⟩
  · exact mem_keptAxes

theorem npOrder_sorted (its : List Item) : (npOrder false its).Pairwise (· < ·) := by
  unfold npOrder keptAxes
  simp only [Bool.false_eq_true, if_false]
  exact List.Pairwise.filter _ List.pairwise_lt_range

/-- what a successful `plan` returns -/
theorem plan_ok {shape : List Nat} {ix : List Item} {p : Plan} (h : plan shape ix = .ok p) :
    expandItems shape.length ix = .ok p.items ∧
    (p.multiList = false → p.order = npOrder (advSeparated ix) p.items) := by
  unfold plan at h
  split at h
  · simp at h
  · rename_i its hits
    split at h
    · simp at h
    · split at h
      · simp at h
      · rename_i sels hsels
        simp only at h
        split at h
        · split at h
          · simp at h; subst h
            refine ⟨hits, ?_⟩
            intro hm
            exfalso
            rename_i l0 l1 rest hlens _
            simp [Plan.multiList, hlens] at hm
          · simp at h
        · simp at h; subst h
          exact ⟨hits, fun _ => rfl⟩

theorem expandItems_length {nd : Nat} {ix its : List Item} (h : expandItems nd ix = .ok its) :
    its.length = nd := by
  unfold expandItems at h
  simp only at h
  split at h
  · simp at h
  · split at h
    · simp at h
    · rename_i h1 h2
      simp at h
      subst h
      split
      · rename_i hE
        have hex : ∃ x ∈ ix, Item.isEllipsis x = true := by
          by_contra hne
          have : ix.filter Item.isEllipsis = [] := by
            rw [List.filter_eq_nil_iff]
            intro a ha hia
            exact hne ⟨a, ha, hia⟩
          rw [this] at hE
          simp at hE
        have hpos : List.findIdx Item.isEllipsis ix < ix.length := by
          obtain ⟨x, hx, hxe⟩ := hex
          exact List.findIdx_lt_length_of_exists ⟨x, hx, hxe⟩
        simp only [List.length_append, List.length_take, List.length_replicate, List.length_drop]
        omega
      · simp only [List.length_append, List.length_replicate]
        have hle : (ix.filter Item.isEllipsis).length ≤ ix.length := List.length_filter_le _ _
        omega

theorem srcIdx_axis (sels : List Sel) (order j : List Nat) (hn : order.Nodup) (k : Nat)
    (hk : k < order.length) (ha : order[k] < sels.length) :
    (srcIdx sels order j)[order[k]]? = some ((sels.getD order[k] default).at (j.getD k 0)) := by
  unfold srcIdx
  rw [List.getElem?_map, List.getElem?_range ha]
  simp only [Option.map_some]
  rw [hn.idxOf_getElem k hk]

/-! ### Ellipsis expansion -/

theorem ell_true : Item.isEllipsis Item.ellipsis = true := rfl

theorem filter_ell (pre post : List Item)
    (hpre : ∀ it ∈ pre, it.isEllipsis = false) (hpost : ∀ it ∈ post, it.isEllipsis = false) :
    (pre ++ [Item.ellipsis] ++ post).filter Item.isEllipsis = [Item.ellipsis] := by
  have fpre : pre.filter Item.isEllipsis = [] := by
    rw [List.filter_eq_nil_iff]; intro a ha; simp [hpre a ha]
  have fpost : post.filter Item.isEllipsis = [] := by
    rw [List.filter_eq_nil_iff]; intro a ha; simp [hpost a ha]
  rw [List.filter_append, List.filter_append, fpre, fpost]
  simp [List.filter_cons, ell_true]

theorem find_ell (pre post : List Item) (hpre : ∀ it ∈ pre, it.isEllipsis = false) :
    List.findIdx Item.isEllipsis (pre ++ [Item.ellipsis] ++ post) = pre.length := by
  induction pre with
  | nil => simp [List.findIdx_cons, ell_true]
  | cons a t ih =>
    have ha : a.isEllipsis = false := hpre a (by simp)
    simp only [List.cons_append, List.findIdx_cons, ha, cond_false, List.length_cons]
    rw [ih (fun it hit => hpre it (by simp [hit]))]

theorem ellipsis_one (nd : Nat) (pre post : List Item)
    (hpre : ∀ it ∈ pre, it.isEllipsis = false) (hpost : ∀ it ∈ post, it.isEllipsis = false)
    (hle : pre.length + post.length ≤ nd) :
    expandItems nd (pre ++ [Item.ellipsis] ++ post)
      = .ok (pre ++ List.replicate (nd - pre.length - post.length) Item.full ++ post) := by
  unfold expandItems
  simp only [filter_ell pre post hpre hpost, find_ell pre post hpre]
  have hlen : (pre ++ [Item.ellipsis] ++ post).length - [Item.ellipsis].length = pre.length + post.length := by
    simp
  rw [hlen]
  have h1 : ¬ ([Item.ellipsis].length > 1) := by simp
  have h2 : ¬ (pre.length + post.length > nd) := by omega
  rw [if_neg h1, if_neg h2]
  simp only [List.length_singleton, if_true]
  have e1 : (pre ++ [Item.ellipsis] ++ post).take pre.length = pre := by
    rw [List.append_assoc, List.take_left']; rfl
  have e2 : (pre ++ [Item.ellipsis] ++ post).drop (pre.length + 1) = post := by
    have : pre.length + 1 = (pre ++ [Item.ellipsis]).length := by simp
    rw [this, List.drop_left']; rfl
  rw [e1, e2]
  have e3 : nd - (pre ++ List.replicate (nd - (pre.length + post.length)) Item.full ++ post).length = 0 := by
    simp; omega
  rw [e3]
  simp [Nat.sub_sub]

theorem ellipsis_none (nd : Nat) (pre : List Item) (hpre : ∀ it ∈ pre, it.isEllipsis = false) :
    (pre.length ≤ nd → expandItems nd pre = .ok (pre ++ List.replicate (nd - pre.length) Item.full)) ∧
    (nd < pre.length → expandItems nd pre = .error .index) := by
  have fpre : pre.filter Item.isEllipsis = [] := by
    rw [List.filter_eq_nil_iff]; intro a ha; simp [hpre a ha]
  constructor
  · intro hle
    unfold expandItems
    simp only [fpre, List.length_nil, Nat.sub_zero]
    rw [if_neg (by simp), if_neg (by omega)]
    simp
  · intro hlt
    unfold expandItems
    simp only [fpre, List.length_nil, Nat.sub_zero]
    rw [if_neg (by simp), if_pos (by omega)]

theorem ellipsis_two (nd : Nat) (pre mid post : List Item)
    (hpre : ∀ it ∈ pre, it.isEllipsis = false) (hmid : ∀ it ∈ mid, it.isEllipsis = false)
    (hpost : ∀ it ∈ post, it.isEllipsis = false) :
    expandItems nd (pre ++ [Item.ellipsis] ++ mid ++ [Item.ellipsis] ++ post) = .error .index := by
  have f : ∀ l : List Item, (∀ it ∈ l, it.isEllipsis = false) → l.filter Item.isEllipsis = [] := by
    intro l hl; rw [List.filter_eq_nil_iff]; intro a ha; simp [hl a ha]
  unfold expandItems
  have hf : (pre ++ [Item.ellipsis] ++ mid ++ [Item.ellipsis] ++ post).filter Item.isEllipsis
      = [Item.ellipsis, Item.ellipsis] := by
    simp only [List.filter_append, f pre hpre, f mid hmid, f post hpost]
    simp [List.filter_cons, ell_true]
  simp only [hf]
  rw [if_pos (by simp)]

end QuantemModel.Nd
