import QuantemModel.Model.PtychoOps
import QuantemModel.Real.NumReal
import QuantemModel.Lemmas.Spectral
import QuantemModel.Lemmas.PtychoOps
/-!
Helper lemmas for Props/C16.lean, part 2: the bridge from the executable list model at the
real-number instance (`Cx ℝ`, `Core/Dft.lean`) to `ℂ` and the Finset-indexed spectral core
(`Lemmas/Spectral.lean`).

Technique: every rectangular image is `build nr nc g` for a total function `g`; each model
operator maps builds to builds, and `toC` of the resulting entry function is the
corresponding `Spectral` expression.
-/
namespace QuantemModel.PtychoOps
open QuantemModel Finset

/-! ### `Cx ℝ → ℂ` -/
/-- the carrier's complex numbers at `ℝ` are Mathlib's `ℂ` -/
def toC (z : Cx ℝ) : ℂ := ⟨z.re, z.im⟩

@[simp] theorem toC_re (z : Cx ℝ) : (toC z).re = z.re := rfl
@[simp] theorem toC_im (z : Cx ℝ) : (toC z).im = z.im := rfl

theorem toC_injective : Function.Injective toC := by
  intro a b h
  cases a; cases b
  simp only [toC, Complex.mk.injEq] at h
  obtain ⟨h1, h2⟩ := h
  subst h1; subst h2; rfl

@[simp] theorem add_re (a b : Cx ℝ) : (a + b).re = a.re + b.re := rfl
@[simp] theorem add_im (a b : Cx ℝ) : (a + b).im = a.im + b.im := rfl
@[simp] theorem sub_re (a b : Cx ℝ) : (a - b).re = a.re - b.re := rfl
@[simp] theorem sub_im (a b : Cx ℝ) : (a - b).im = a.im - b.im := rfl
@[simp] theorem mul_re (a b : Cx ℝ) : (a * b).re = a.re * b.re - a.im * b.im := rfl
@[simp] theorem mul_im (a b : Cx ℝ) : (a * b).im = a.re * b.im + a.im * b.re := rfl

@[simp] theorem toC_add (a b : Cx ℝ) : toC (a + b) = toC a + toC b := by
  apply Complex.ext <;> simp
@[simp] theorem toC_sub (a b : Cx ℝ) : toC (a - b) = toC a - toC b := by
  apply Complex.ext <;> simp
@[simp] theorem toC_mul (a b : Cx ℝ) : toC (a * b) = toC a * toC b := by
  apply Complex.ext <;> simp
@[simp] theorem toC_zero : toC (Cx.zero : Cx ℝ) = 0 := by
  apply Complex.ext <;> simp [Cx.zero]
@[simp] theorem toC_one : toC (Cx.one : Cx ℝ) = 1 := by
  apply Complex.ext <;> simp [Cx.one]
@[simp] theorem toC_smul (s : ℝ) (z : Cx ℝ) : toC (Cx.smul s z) = (s : ℂ) * toC z := by
  apply Complex.ext <;> simp [Cx.smul]
@[simp] theorem toC_ofReal (s : ℝ) : toC (Cx.ofReal s) = (s : ℂ) := by
  apply Complex.ext <;> simp [Cx.ofReal]
theorem toC_conj (z : Cx ℝ) : toC (Cx.conj z) = (starRingEnd ℂ) (toC z) := by
  apply Complex.ext <;> simp [Cx.conj]
theorem toC_cis (θ : ℝ) : toC (Cx.cis θ) = Complex.exp ((θ : ℂ) * Complex.I) := by
  rw [Complex.exp_mul_I]
  apply Complex.ext
  · simp [Cx.cis, ← Complex.ofReal_cos, ← Complex.ofReal_sin]
  · simp [Cx.cis, ← Complex.ofReal_cos, ← Complex.ofReal_sin]
theorem abs2_eq (z : Cx ℝ) : Cx.abs2 z = Complex.normSq (toC z) := by
  simp [Cx.abs2, Complex.normSq_apply]
theorem abs_eq (z : Cx ℝ) : Cx.abs z = ‖toC z‖ := by
  simp [Cx.abs, Complex.norm_def, abs2_eq]
theorem sq_abs (z : Cx ℝ) : Num.sq (Cx.abs z) = Complex.normSq (toC z) := by
  rw [abs_eq, Complex.normSq_eq_norm_sq]; simp [Num.sq, pow_two]
theorem abs2_cis (θ : ℝ) : Cx.abs2 (Cx.cis θ) = 1 := by
  simp only [Cx.abs2, Cx.cis, NumReal.add_eq, NumReal.mul_eq, NumReal.cos_eq, NumReal.sin_eq]
  have := Real.cos_sq_add_sin_sq θ
  nlinarith [this]
theorem abs2_mul (a b : Cx ℝ) : Cx.abs2 (a * b) = Cx.abs2 a * Cx.abs2 b := by
  simp only [Cx.abs2, mul_re, mul_im, NumReal.add_eq, NumReal.mul_eq]
  ring

/-! ### sums -/
theorem numSum_eq (l : List ℝ) : Num.sum l = l.sum := by
  unfold Num.sum
  rw [List.sum_eq_foldl]
  simp

theorem toC_foldl (acc : Cx ℝ) (l : List (Cx ℝ)) :
    toC (l.foldl (· + ·) acc) = toC acc + (l.map toC).sum := by
  induction l generalizing acc with
  | nil => simp
  | cons a l ih => simp [ih, add_assoc]

theorem toC_sum (l : List (Cx ℝ)) : toC (Cx.sum l) = (l.map toC).sum := by
  unfold Cx.sum; rw [toC_foldl]; simp

/-- `List.range`-indexed vector -/
def vbuild {β : Type} (n : ℕ) (g : ℕ → β) : List β := (List.range n).map g

@[simp] theorem vbuild_length {β : Type} (n : ℕ) (g : ℕ → β) : (vbuild n g).length = n := by simp [vbuild]

theorem sum_vbuild {M : Type} [AddCommMonoid M] (n : ℕ) (g : ℕ → M) :
    (vbuild n g).sum = ∑ i ∈ range n, g i := by
  induction n with
  | zero => simp [vbuild]
  | succ n ih =>
    unfold vbuild at ih ⊢
    rw [List.range_succ, List.map_append, List.sum_append, ih, sum_range_succ]
    simp

theorem vbuild_map {β γ : Type} (n : ℕ) (g : ℕ → β) (f : β → γ) : (vbuild n g).map f = vbuild n (fun i => f (g i)) := by
  simp [vbuild]

theorem vbuild_congr {β : Type} {n : ℕ} {g h : ℕ → β} (H : ∀ i < n, g i = h i) : vbuild n g = vbuild n h := by
  unfold vbuild
  exact List.map_congr_left fun i hi => H i (List.mem_range.1 hi)

theorem zipWith_vbuild {β γ δ : Type} (n : ℕ) (f : β → γ → δ) (g : ℕ → β) (h : ℕ → γ) :
    List.zipWith f (vbuild n g) (vbuild n h) = vbuild n (fun i => f (g i) (h i)) := by
  simp [vbuild, List.zipWith_map]

theorem zipWith_range_vbuild {β γ : Type} (n : ℕ) (f : ℕ → β → γ) (g : ℕ → β) :
    List.zipWith f (List.range n) (vbuild n g) = vbuild n (fun i => f i (g i)) := by
  have := zipWith_vbuild n f (fun i => i) g
  simpa [vbuild] using this

theorem getD_vbuild {β : Type} (n : ℕ) (g : ℕ → β) (d : β) {i : ℕ} (hi : i < n) : (vbuild n g).getD i d = g i := by
  simp [vbuild, List.getD_eq_getElem?_getD, hi]

theorem eq_vbuild {β : Type} (d : β) (l : List β) : l = vbuild l.length (fun i => l.getD i d) := by
  apply List.ext_getElem
  · simp
  · intro i h1 h2
    simp [vbuild, List.getD_eq_getElem?_getD, h1]

/-- `range × range`-indexed image -/
def build {β : Type} (nr nc : ℕ) (g : ℕ → ℕ → β) : List (List β) := vbuild nr fun i => vbuild nc (g i)

/-- rectangular `nr × nc` list of rows -/
def Rect {β : Type} (nr nc : ℕ) (x : List (List β)) : Prop := x.length = nr ∧ ∀ row ∈ x, row.length = nc

theorem rect_build {β : Type} (nr nc : ℕ) (g : ℕ → ℕ → β) : Rect nr nc (build nr nc g) := by
  refine ⟨by simp [build], ?_⟩
  intro row hrow
  simp only [build, vbuild, List.mem_map] at hrow
  obtain ⟨i, _, rfl⟩ := hrow
  simp

theorem Rect.eq_build {β : Type} (d : β) {nr nc : ℕ} {x : List (List β)} (h : Rect nr nc x) :
    x = build nr nc (fun i j => (x.getD i []).getD j d) := by
  obtain ⟨h1, h2⟩ := h
  subst h1
  conv_lhs => rw [eq_vbuild [] x]
  unfold build
  apply vbuild_congr
  intro i hi
  have hmem : x.getD i [] ∈ x := by
    simp only [List.getD_eq_getElem?_getD, List.getElem?_eq_getElem hi, Option.getD_some]
    exact List.getElem_mem hi
  conv_lhs => rw [eq_vbuild d (x.getD i [])]
  rw [h2 _ hmem]

theorem Rect.exists_build {β : Type} [Inhabited β] {nr nc : ℕ} {x : List (List β)} (h : Rect nr nc x) :
    ∃ g : ℕ → ℕ → β, x = build nr nc g := ⟨_, h.eq_build default⟩

theorem build_congr {β : Type} {nr nc : ℕ} {g h : ℕ → ℕ → β} (H : ∀ i < nr, ∀ j < nc, g i j = h i j) :
    build nr nc g = build nr nc h :=
  vbuild_congr fun i hi => vbuild_congr fun j hj => H i hi j hj

theorem build_map {β γ : Type} (nr nc : ℕ) (g : ℕ → ℕ → β) (f : β → γ) :
    (build nr nc g).map (·.map f) = build nr nc (fun i j => f (g i j)) := by
  simp [build, vbuild_map]

theorem zipWith_build {β γ δ : Type} (nr nc : ℕ) (f : β → γ → δ) (g : ℕ → ℕ → β) (h : ℕ → ℕ → γ) :
    List.zipWith (List.zipWith f) (build nr nc g) (build nr nc h) = build nr nc (fun i j => f (g i j) (h i j)) := by
  simp [build, zipWith_vbuild]

theorem nrows_build {β : Type} (nr nc : ℕ) (g : ℕ → ℕ → β) : nrows (build nr nc g) = nr := by
  simp [nrows, build]

theorem ncols_build {β : Type} {nr : ℕ} (hr : 0 < nr) (nc : ℕ) (g : ℕ → ℕ → β) : ncols (build nr nc g) = nc := by
  obtain ⟨n, rfl⟩ := Nat.exists_eq_succ_of_ne_zero (Nat.ne_of_gt hr)
  simp [ncols, build, vbuild, List.range_succ_eq_map]

theorem build_toC_inj {nr nc : ℕ} {g h : ℕ → ℕ → Cx ℝ} (H : ∀ i < nr, ∀ j < nc, toC (g i j) = toC (h i j)) :
    build nr nc g = build nr nc h :=
  build_congr fun i hi j hj => toC_injective (H i hi j hj)


/-! ### the modelled DFT is the defining Finset sum -/
theorem toC_twiddle {N : ℕ} (hN : N ≠ 0) (sign : ℤ) (k n : ℕ) :
    toC (Dft.twiddle sign N k n) = Spectral.e N (sign * ((k : ℤ) * n)) := by
  unfold Dft.twiddle
  rw [toC_cis]
  have hper : Spectral.e N (sign * ((k : ℤ) * n)) = Spectral.e N (sign * ((k * n % N : ℕ) : ℤ)) := by
    apply Spectral.e_congr hN
    have h := Int.emod_add_mul_ediv ((k : ℤ) * n) N
    refine ⟨sign * (((k : ℤ) * n) / N), ?_⟩
    push_cast
    linear_combination (-sign) * h
  rw [hper, Spectral.e_eq_exp_ofReal]
  congr 2
  have hN' : (N : ℝ) ≠ 0 := by exact_mod_cast hN
  simp only [NumReal.mul_eq, NumReal.ofRat_eq, NumReal.pi_eq]
  push_cast
  field_simp

/-- entry `k` of the modelled forward DFT of `vbuild N g` -/
noncomputable def dftC (N : ℕ) (g : ℕ → Cx ℝ) (k : ℕ) : Cx ℝ :=
  Cx.sum (vbuild N fun n => g n * Dft.twiddle (-1) N k n)

noncomputable def idftC (N : ℕ) (g : ℕ → Cx ℝ) (n : ℕ) : Cx ℝ :=
  Cx.smul (Num.ofRat (1 / (N : Rat))) (Cx.sum (vbuild N fun k => g k * Dft.twiddle 1 N k n))

theorem dft_vbuild (N : ℕ) (g : ℕ → Cx ℝ) : Dft.dft (vbuild N g) = vbuild N (dftC N g) := by
  unfold Dft.dft
  simp only [vbuild_length]
  unfold dftC
  show vbuild N _ = _
  apply vbuild_congr
  intro k _
  rw [zipWith_range_vbuild]

theorem idft_vbuild (N : ℕ) (g : ℕ → Cx ℝ) : Dft.idft (vbuild N g) = vbuild N (idftC N g) := by
  unfold Dft.idft
  simp only [vbuild_length]
  unfold idftC
  show vbuild N _ = _
  apply vbuild_congr
  intro k _
  rw [zipWith_range_vbuild]

theorem toC_dftC {N : ℕ} (hN : N ≠ 0) (g : ℕ → Cx ℝ) (k : ℕ) :
    toC (dftC N g k) = Spectral.dft N (fun n => toC (g n)) k := by
  unfold dftC Spectral.dft
  rw [toC_sum, vbuild_map, sum_vbuild]
  refine sum_congr rfl fun n _ => ?_
  rw [toC_mul, toC_twiddle hN]
  congr 2
  ring

theorem toC_idftC {N : ℕ} (hN : N ≠ 0) (g : ℕ → Cx ℝ) (n : ℕ) :
    toC (idftC N g n) = Spectral.idft N (fun k => toC (g k)) n := by
  unfold idftC Spectral.idft
  rw [toC_smul, toC_sum, vbuild_map, sum_vbuild]
  congr 1
  · simp
  · refine sum_congr rfl fun k _ => ?_
    rw [toC_mul, toC_twiddle hN]
    congr 2
    ring

/-! ### transpose and the 2-D transforms on builds -/
theorem transpose_build {nr : ℕ} (hr : 0 < nr) (nc : ℕ) (g : ℕ → ℕ → Cx ℝ) :
    Dft.transpose (build nr nc g) = build nc nr (fun j i => g i j) := by
  obtain ⟨n, rfl⟩ := Nat.exists_eq_succ_of_ne_zero (Nat.ne_of_gt hr)
  have hb : build (n + 1) nc g = vbuild nc (g 0) :: (List.range n).map (fun i => vbuild nc (g (i + 1))) := by
    simp [build, vbuild, List.range_succ_eq_map, Function.comp_def]
  unfold Dft.transpose
  rw [hb]
  simp only [vbuild_length]
  rw [← hb]
  show vbuild nc _ = _
  unfold build
  apply vbuild_congr
  intro j hj
  show (vbuild (n + 1) fun i => vbuild nc (g i)).map _ = _
  rw [vbuild_map]
  apply vbuild_congr
  intro i _
  rw [List.getElem!_eq_getElem?_getD, ← List.getD_eq_getElem?_getD, getD_vbuild _ _ _ hj]

theorem dft2_build {nr nc : ℕ} (hr : 0 < nr) (hc : 0 < nc) (g : ℕ → ℕ → Cx ℝ) :
    Dft.dft2 (build nr nc g) = build nr nc (fun k l => dftC nr (fun m => dftC nc (g m) l) k) := by
  unfold Dft.dft2
  have h1 : (build nr nc g).map Dft.dft = build nr nc (fun m l => dftC nc (g m) l) := by
    unfold build; rw [vbuild_map]; exact vbuild_congr fun i _ => dft_vbuild nc (g i)
  rw [h1, transpose_build hr]
  have h2 : (build nc nr (fun l m => dftC nc (g m) l)).map Dft.dft
      = build nc nr (fun l k => dftC nr (fun m => dftC nc (g m) l) k) := by
    unfold build; rw [vbuild_map]; exact vbuild_congr fun l _ => dft_vbuild nr _
  rw [h2, transpose_build hc]

theorem idft2_build {nr nc : ℕ} (hr : 0 < nr) (hc : 0 < nc) (g : ℕ → ℕ → Cx ℝ) :
    Dft.idft2 (build nr nc g) = build nr nc (fun m n => idftC nr (fun k => idftC nc (g k) n) m) := by
  unfold Dft.idft2
  have h1 : (build nr nc g).map Dft.idft = build nr nc (fun k n => idftC nc (g k) n) := by
    unfold build; rw [vbuild_map]; exact vbuild_congr fun i _ => idft_vbuild nc (g i)
  rw [h1, transpose_build hr]
  have h2 : (build nc nr (fun n k => idftC nc (g k) n)).map Dft.idft
      = build nc nr (fun n m => idftC nr (fun k => idftC nc (g k) n) m) := by
    unfold build; rw [vbuild_map]; exact vbuild_congr fun l _ => idft_vbuild nr _
  rw [h2, transpose_build hc]

/-- entry function of the modelled 2-D DFT -/
noncomputable def dft2C (nr nc : ℕ) (g : ℕ → ℕ → Cx ℝ) (k l : ℕ) : Cx ℝ := dftC nr (fun m => dftC nc (g m) l) k
noncomputable def idft2C (nr nc : ℕ) (g : ℕ → ℕ → Cx ℝ) (m n : ℕ) : Cx ℝ := idftC nr (fun k => idftC nc (g k) n) m

theorem toC_dft2C {nr nc : ℕ} (hr : 0 < nr) (hc : 0 < nc) (g : ℕ → ℕ → Cx ℝ) (k l : ℕ) :
    toC (dft2C nr nc g k l) = Spectral.dft2 nr nc (fun m n => toC (g m n)) k l := by
  unfold dft2C Spectral.dft2
  rw [toC_dftC (Nat.ne_of_gt hr)]
  congr 1
  funext m
  exact toC_dftC (Nat.ne_of_gt hc) _ _

theorem toC_idft2C {nr nc : ℕ} (hr : 0 < nr) (hc : 0 < nc) (g : ℕ → ℕ → Cx ℝ) (m n : ℕ) :
    toC (idft2C nr nc g m n) = Spectral.idft2 nr nc (fun k l => toC (g k l)) m n := by
  unfold idft2C Spectral.idft2
  rw [toC_idftC (Nat.ne_of_gt hr)]
  congr 1
  funext k
  exact toC_idftC (Nat.ne_of_gt hc) _ _


/-! ### inversion / Parseval for the modelled transforms -/
theorem idftC_congr {N : ℕ} {g h : ℕ → Cx ℝ} (H : ∀ k < N, g k = h k) (n : ℕ) : idftC N g n = idftC N h n := by
  unfold idftC
  rw [vbuild_congr (g := fun k => g k * Dft.twiddle 1 N k n) (h := fun k => h k * Dft.twiddle 1 N k n)
    (fun k hk => by rw [H k hk])]

theorem dftC_congr {N : ℕ} {g h : ℕ → Cx ℝ} (H : ∀ k < N, g k = h k) (n : ℕ) : dftC N g n = dftC N h n := by
  unfold dftC
  rw [vbuild_congr (g := fun k => g k * Dft.twiddle (-1) N n k) (h := fun k => h k * Dft.twiddle (-1) N n k)
    (fun k hk => by rw [H k hk])]

theorem idft2C_congr {nr nc : ℕ} {g h : ℕ → ℕ → Cx ℝ} (H : ∀ k < nr, ∀ l < nc, g k l = h k l) (m n : ℕ) :
    idft2C nr nc g m n = idft2C nr nc h m n :=
  idftC_congr (fun k hk => idftC_congr (H k hk) n) m

theorem dft2C_congr {nr nc : ℕ} {g h : ℕ → ℕ → Cx ℝ} (H : ∀ k < nr, ∀ l < nc, g k l = h k l) (m n : ℕ) :
    dft2C nr nc g m n = dft2C nr nc h m n :=
  dftC_congr (fun k hk => dftC_congr (H k hk) n) m

theorem idft2C_dft2C {nr nc : ℕ} (g : ℕ → ℕ → Cx ℝ) {m n : ℕ} (hm : m < nr) (hn : n < nc) :
    idft2C nr nc (dft2C nr nc g) m n = g m n := by
  have hr : 0 < nr := Nat.zero_lt_of_lt hm
  have hc : 0 < nc := Nat.zero_lt_of_lt hn
  apply toC_injective
  rw [toC_idft2C hr hc]
  have : (fun k l => toC (dft2C nr nc g k l)) = Spectral.dft2 nr nc (fun m n => toC (g m n)) := by
    funext k l; exact toC_dft2C hr hc g k l
  rw [this, Spectral.idft2_dft2 _ hm hn]

theorem dft2C_idft2C {nr nc : ℕ} (g : ℕ → ℕ → Cx ℝ) {k l : ℕ} (hk : k < nr) (hl : l < nc) :
    dft2C nr nc (idft2C nr nc g) k l = g k l := by
  have hr : 0 < nr := Nat.zero_lt_of_lt hk
  have hc : 0 < nc := Nat.zero_lt_of_lt hl
  apply toC_injective
  rw [toC_dft2C hr hc]
  have : (fun m n => toC (idft2C nr nc g m n)) = Spectral.idft2 nr nc (fun k l => toC (g k l)) := by
    funext m n; exact toC_idft2C hr hc g m n
  rw [this, Spectral.dft2_idft2 _ hk hl]

theorem energy_build (nr nc : ℕ) (g : ℕ → ℕ → Cx ℝ) :
    energy (build nr nc g) = ∑ i ∈ range nr, ∑ j ∈ range nc, Complex.normSq (toC (g i j)) := by
  unfold energy build
  rw [numSum_eq, vbuild_map, sum_vbuild]
  refine sum_congr rfl fun i _ => ?_
  rw [numSum_eq, vbuild_map, sum_vbuild]
  exact sum_congr rfl fun j _ => abs2_eq _

theorem energy_dft2C {nr nc : ℕ} (hr : 0 < nr) (hc : 0 < nc) (g : ℕ → ℕ → Cx ℝ) :
    energy (build nr nc (dft2C nr nc g)) = (nr * nc : ℝ) * energy (build nr nc g) := by
  rw [energy_build, energy_build]
  have h := Spectral.parseval2 nr nc (fun m n => toC (g m n))
  rw [← h]
  exact sum_congr rfl fun k _ => sum_congr rfl fun l _ => by rw [toC_dft2C hr hc]

theorem energy_idft2C {nr nc : ℕ} (hr : 0 < nr) (hc : 0 < nc) (g : ℕ → ℕ → Cx ℝ) :
    (nr * nc : ℝ) * energy (build nr nc (idft2C nr nc g)) = energy (build nr nc g) := by
  rw [energy_build, energy_build]
  have h := Spectral.parseval2_idft nr nc (fun k l => toC (g k l))
  rw [← h]
  congr 1
  exact sum_congr rfl fun k _ => sum_congr rfl fun l _ => by rw [toC_idft2C hr hc]

/-! ### elementwise products, propagation -/
theorem mulImg_build (nr nc : ℕ) (f g : ℕ → ℕ → Cx ℝ) :
    mulImg (build nr nc f) (build nr nc g) = build nr nc (fun i j => f i j * g i j) :=
  zipWith_build nr nc _ f g

theorem propagate_build {nr nc : ℕ} (hr : 0 < nr) (hc : 0 < nc) (a P : ℕ → ℕ → Cx ℝ) :
    propagate (build nr nc a) (build nr nc P)
      = build nr nc (idft2C nr nc fun k l => dft2C nr nc a k l * P k l) := by
  unfold propagate
  rw [dft2_build hr hc, mulImg_build, idft2_build hr hc]
  rfl

theorem energy_mul_unit {nr nc : ℕ} (f P : ℕ → ℕ → Cx ℝ) (hP : ∀ k < nr, ∀ l < nc, Cx.abs2 (P k l) = 1) :
    energy (build nr nc fun k l => f k l * P k l) = energy (build nr nc f) := by
  rw [energy_build, energy_build]
  refine sum_congr rfl fun k hk => sum_congr rfl fun l hl => ?_
  rw [← abs2_eq, ← abs2_eq, abs2_mul, hP k (mem_range.1 hk) l (mem_range.1 hl), mul_one]

/-- propagation with a unit-modulus kernel preserves `Σ|·|²` -/
theorem energy_propagate_build {nr nc : ℕ} (hr : 0 < nr) (hc : 0 < nc) (a P : ℕ → ℕ → Cx ℝ)
    (hP : ∀ k < nr, ∀ l < nc, Cx.abs2 (P k l) = 1) :
    energy (propagate (build nr nc a) (build nr nc P)) = energy (build nr nc a) := by
  rw [propagate_build hr hc]
  have hN : (nr * nc : ℝ) ≠ 0 := by
    have h1 : (nr : ℝ) ≠ 0 := by exact_mod_cast Nat.ne_of_gt hr
    have h2 : (nc : ℝ) ≠ 0 := by exact_mod_cast Nat.ne_of_gt hc
    exact mul_ne_zero h1 h2
  have h1 := energy_idft2C hr hc (fun k l => dft2C nr nc a k l * P k l)
  rw [energy_mul_unit _ P hP, energy_dft2C hr hc] at h1
  exact mul_left_cancel₀ hN h1

theorem propagate_propagate_build {nr nc : ℕ} (hr : 0 < nr) (hc : 0 < nc) (a P Q : ℕ → ℕ → Cx ℝ) :
    propagate (propagate (build nr nc a) (build nr nc P)) (build nr nc Q)
      = propagate (build nr nc a) (mulImg (build nr nc P) (build nr nc Q)) := by
  rw [propagate_build hr hc, propagate_build hr hc, mulImg_build, propagate_build hr hc]
  apply build_congr
  intro m _ n _
  apply idft2C_congr
  intro k hk l hl
  rw [dft2C_idft2C _ hk hl]
  apply toC_injective
  simp only [toC_mul]
  ring

theorem propagate_one_build {nr nc : ℕ} (hr : 0 < nr) (hc : 0 < nc) (a P : ℕ → ℕ → Cx ℝ)
    (hP : ∀ k < nr, ∀ l < nc, P k l = Cx.one) :
    propagate (build nr nc a) (build nr nc P) = build nr nc a := by
  rw [propagate_build hr hc]
  apply build_congr
  intro m hm n hn
  rw [idft2C_congr (h := dft2C nr nc a), idft2C_dft2C _ hm hn]
  intro k hk l hl
  rw [hP k hk l hl]
  apply toC_injective
  simp

theorem cis_add (a b : ℝ) : Cx.cis (a + b) = Cx.cis a * Cx.cis b := by
  apply toC_injective
  rw [toC_mul, toC_cis, toC_cis, toC_cis, ← Complex.exp_add]
  congr 1
  push_cast
  ring

theorem cis_zero : Cx.cis (0 : ℝ) = Cx.one := by
  apply toC_injective
  rw [toC_cis, toC_one]; simp

end QuantemModel.PtychoOps
