import QuantemModel.Lemmas.Drift
import QuantemModel.Model.DriftBatch
/-!
Helper lemmas for the batch loop of `bilinear_kde` (Model/DriftBatch.lean), read at ℝ.
-/
namespace QuantemModel.Drift
open QuantemModel QuantemModel.Registration QuantemModel.NumReal Finset

theorem sumSlice_eq (f : ℕ → ℝ) (s len : ℕ) : sumSlice f s len = ∑ p ∈ Ico s (s + len), f p := by
  induction len with
  | zero => simp [sumSlice]
  | succ k ih =>
    simp only [sumSlice, add_eq, ih]
    rw [← Nat.add_assoc, Finset.sum_Ico_succ_top (by omega)]

/-- consecutive slices tile `[s, s + Σ sizes)` -/
theorem foldl_batches (g : ℕ → ℝ) (sizes : List ℕ) (s : ℕ) (acc : ℝ) :
    (generateBatches sizes s).foldl (fun acc b => acc + sumSlice g b.1 (b.2 - b.1)) acc
      = acc + ∑ p ∈ Ico s (s + sizes.sum), g p := by
  induction sizes generalizing s acc with
  | nil => simp [generateBatches]
  | cons a rest ih =>
    simp only [generateBatches, List.foldl_cons, List.sum_cons]
    rw [ih, sumSlice_eq]
    have e : s + a - s = a := by omega
    rw [e, add_assoc, ← Nat.add_assoc, Finset.sum_Ico_consecutive _ (by omega) (by omega)]

theorem weightMapBatched_eq (rows cols : ℕ) (sizes : List ℕ) (pt : ℕ → ℝ × ℝ) (i j : ℕ) :
    weightMapBatched rows cols (generateBatches sizes 0) pt i j = weightMapAt rows cols sizes.sum pt i j := by
  unfold weightMapBatched weightMapAt
  simp only [add_eq, zero_eq]
  rw [foldl_batches, sumN_eq]
  simp [Nat.Ico_zero_eq_range]

theorem numBatches_mul_ge {n mb : ℕ} (hmb : 0 < mb) : n ≤ numBatches n mb * mb := by
  unfold numBatches
  obtain ⟨m, rfl⟩ : ∃ m, mb = m + 1 := ⟨mb - 1, by omega⟩
  have e : n + (m + 1) - 1 = n + m := by omega
  rw [e]
  have h := Nat.lt_mul_div_succ (n + m) (Nat.succ_pos m)
  -- n + m < (m+1) * ((n+m)/(m+1) + 1)
  generalize (n + m) / (m + 1) = q at h ⊢
  nlinarith

theorem numBatches_le {n mb : ℕ} (hmb : 0 < mb) (hn : 0 < n) : numBatches n mb ≤ n := by
  unfold numBatches
  apply Nat.div_le_of_le_mul
  obtain ⟨m, rfl⟩ : ∃ m, mb = m + 1 := ⟨mb - 1, by omega⟩
  obtain ⟨k, rfl⟩ : ∃ k, n = k + 1 := ⟨n - 1, by omega⟩
  have e : k + 1 + (m + 1) - 1 = k + m + 1 := by omega
  rw [e]
  nlinarith [Nat.zero_le (m * k)]

theorem numBatches_pos {n mb : ℕ} (hmb : 0 < mb) (hn : 0 < n) : 0 < numBatches n mb := by
  have h := numBatches_mul_ge (n := n) hmb
  rcases Nat.eq_zero_or_pos (numBatches n mb) with h0 | h0
  · rw [h0] at h; omega
  · exact h0

end QuantemModel.Drift
