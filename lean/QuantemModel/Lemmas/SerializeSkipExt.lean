import QuantemModel.Model.SerializeSkipExt
import QuantemModel.Lemmas.SerializeInd
/-! Helper lemmas for Props/C14.lean about the extended skip model (Model/SerializeSkipExt.lean). -/
namespace QuantemModel.SerializeSkip
open QuantemModel.Serialize

def isObjV : Val → Bool
  | .obj .. => true
  | _ => false

/-- induction over attribute lists that descends into attribute-nested objects -/
theorem attrs_ind (P : List (String × Val) → Prop) (hnil : P [])
    (hobj : ∀ k cls sub rest, P sub → P rest → P ((k, .obj cls sub) :: rest))
    (hother : ∀ k v rest, isObjV v = false → P rest → P ((k, v) :: rest)) :
    ∀ attrs, P attrs
  | [] => hnil
  | (k, .obj cls sub) :: rest =>
      hobj k cls sub rest (attrs_ind P hnil hobj hother sub) (attrs_ind P hnil hobj hother rest)
  | (k, .scalar s) :: rest => hother k _ rest rfl (attrs_ind P hnil hobj hother rest)
  | (k, .npScalar dt s) :: rest => hother k _ rest rfl (attrs_ind P hnil hobj hother rest)
  | (k, .path p) :: rest => hother k _ rest rfl (attrs_ind P hnil hobj hother rest)
  | (k, .ndarray dt sh d) :: rest => hother k _ rest rfl (attrs_ind P hnil hobj hother rest)
  | (k, .torch tk c t) :: rest => hother k _ rest rfl (attrs_ind P hnil hobj hother rest)
  | (k, .fallback c t) :: rest => hother k _ rest rfl (attrs_ind P hnil hobj hother rest)
  | (k, .rawBytes p) :: rest => hother k _ rest rfl (attrs_ind P hnil hobj hother rest)
  | (k, .npRng b) :: rest => hother k _ rest rfl (attrs_ind P hnil hobj hother rest)
  | (k, .torchRng) :: rest => hother k _ rest rfl (attrs_ind P hnil hobj hother rest)
  | (k, .pyLogger n l) :: rest => hother k _ rest rfl (attrs_ind P hnil hobj hother rest)
  | (k, .list xs) :: rest => hother k _ rest rfl (attrs_ind P hnil hobj hother rest)
  | (k, .tuple xs) :: rest => hother k _ rest rfl (attrs_ind P hnil hobj hother rest)
  | (k, .set xs) :: rest => hother k _ rest rfl (attrs_ind P hnil hobj hother rest)
  | (k, .dict kvs) :: rest => hother k _ rest rfl (attrs_ind P hnil hobj hother rest)

theorem nonobj_stripG (inst : Val → String → Bool) (ns ts : List String) (v : Val) (h : isObjV v = false) :
    stripG inst ns ts v = v ∧ typeFreeG inst ts v = true ∧ attrNested v = noObj v ∧ stripA ns v = v := by
  cases v <;> simp [isObjV] at h <;> simp [stripG, typeFreeG, attrNested, stripA]

/-- inside a value that holds no object the skip lists (and the instance relation) are never consulted -/
theorem encodeG_noObj (inst : Val → String → Bool) (sk : Skip) :
    (∀ v, noObj v = true → encodeG inst sk v = encode {} v) ∧
    (∀ xs, noObjList xs = true → encodeItemsG inst sk xs = encodeItems {} xs) ∧
    (∀ kvs, noObjKvs kvs = true → encodeKidsG inst sk kvs = encodeKids {} kvs) := by
  apply vals_induction
  · intro v hv _
    cases v <;> simp at hv <;> simp [encodeG, encode]
  · intro xs ih h
    have := ih (by simpa [noObj] using h)
    simp [encodeG, encode, encodeSeqG, encodeSeq, this]
  · intro xs ih h
    have := ih (by simpa [noObj] using h)
    simp [encodeG, encode, encodeSeqG, encodeSeq, this]
  · intro xs ih h
    have := ih (by simpa [noObj] using h)
    by_cases hf : (xs.all isNumeric && !xs.isEmpty) = true <;> simp [encodeG, encode, encodeSeqG, encodeSeq, hf, this]
  · intro kvs ih h
    have := ih (by simpa [noObj] using h)
    simp [encodeG, encode, this]
  · intro cls kvs _ h
    simp [noObj] at h
  · intro _; simp [encodeItemsG, encodeItems]
  · intro v xs ihv ihs h
    have h' : noObj v = true ∧ noObjList xs = true := by simpa [noObjList] using h
    simp [encodeItemsG, encodeItems, ihv h'.1, ihs h'.2]
  · intro _; simp [encodeKidsG, encodeKids]
  · intro k v kvs ihv ihs h
    have h' : noObj v = true ∧ noObjKvs kvs = true := by simpa [noObjKvs] using h
    simp [encodeKidsG, encodeKids, ihv h'.1, ihs h'.2]

/-- inside a value that holds no object the traversal raises or not whatever the skip lists are -/
theorem raisesG_noObj (inst : Val → String → Bool) (sk : Skip) :
    (∀ v, noObj v = true → raisesG inst sk v = raisesG inst {} v) ∧
    (∀ xs, noObjList xs = true → raisesItemsG inst sk xs = raisesItemsG inst {} xs) ∧
    (∀ kvs, noObjKvs kvs = true → raisesKidsG inst sk kvs = raisesKidsG inst {} kvs) := by
  apply vals_induction
  · intro v hv _
    cases v <;> simp at hv <;> simp [raisesG]
  · intro xs ih h
    have := ih (by simpa [noObj] using h)
    simp [raisesG, this]
  · intro xs ih h
    have := ih (by simpa [noObj] using h)
    simp [raisesG, this]
  · intro xs ih h
    have := ih (by simpa [noObj] using h)
    simp [raisesG, this]
  · intro kvs ih h
    have := ih (by simpa [noObj] using h)
    simp [raisesG, this]
  · intro cls kvs _ h
    simp [noObj] at h
  · intro _; simp [raisesItemsG]
  · intro v xs ihv ihs h
    have h' : noObj v = true ∧ noObjList xs = true := by simpa [noObjList] using h
    simp [raisesItemsG, ihv h'.1, ihs h'.2]
  · intro _; simp [raisesKidsG]
  · intro k v kvs ihv ihs h
    have h' : noObj v = true ∧ noObjKvs kvs = true := by simpa [noObjKvs] using h
    simp [raisesKidsG, ihv h'.1, ihs h'.2]

/-- the parametric encoder at the base instance relation is the base encoder -/
theorem encodeG_isInstance (sk : Skip) :
    (∀ v, encodeG isInstance sk v = encode sk v) ∧
    (∀ xs, encodeItemsG isInstance sk xs = encodeItems sk xs) ∧
    (∀ kvs, encodeKidsG isInstance sk kvs = encodeKids sk kvs ∧ encodeAttrsG isInstance sk kvs = encodeAttrs sk kvs) := by
  apply vals_induction
  · intro v hv
    cases v <;> simp at hv <;> simp [encodeG, encode]
  · intro xs ih; simp [encodeG, encode, encodeSeqG, encodeSeq, ih]
  · intro xs ih; simp [encodeG, encode, encodeSeqG, encodeSeq, ih]
  · intro xs ih
    by_cases hf : (xs.all isNumeric && !xs.isEmpty) = true <;> simp [encodeG, encode, encodeSeqG, encodeSeq, hf, ih]
  · intro kvs ih; simp [encodeG, encode, ih.1]
  · intro cls kvs ih; simp [encodeG, encode, ih.2]
  · simp [encodeItemsG, encodeItems]
  · intro v xs ihv ihs; simp [encodeItemsG, encodeItems, ihv, ihs]
  · simp [encodeKidsG, encodeKids, encodeAttrsG, encodeAttrs]
  · intro k v kvs ihv ihs
    simp [encodeKidsG, encodeKids, encodeAttrsG, encodeAttrs, ihv, ihs.1, ihs.2]

/-- the membership view of a name list is all that the name strip uses -/
theorem stripAttrs_congr (N N' : List String) (h : ∀ k, k ∈ N ↔ k ∈ N') :
    ∀ attrs, stripAttrs N attrs = stripAttrs N' attrs := by
  apply attrs_ind
  · simp [stripAttrs]
  · intro k cls sub rest ih1 ih2
    simp [stripAttrs, stripA, h k, ih1, ih2]
  · intro k v rest hno ih
    simp [stripAttrs, h k, ih, (nonobj_stripG isInstance N [] v hno).2.2.2, (nonobj_stripG isInstance N' [] v hno).2.2.2]

theorem stripAttrsG_congr (inst : Val → String → Bool) (N N' ts : List String) (h : ∀ k, k ∈ N ↔ k ∈ N') :
    ∀ attrs, stripAttrsG inst N ts attrs = stripAttrsG inst N' ts attrs := by
  apply attrs_ind
  · simp [stripAttrsG]
  · intro k cls sub rest ih1 ih2
    simp [stripAttrsG, stripG, h k, ih1, ih2]
  · intro k v rest hno ih
    simp [stripAttrsG, h k, ih, (nonobj_stripG inst N ts v hno).1, (nonobj_stripG inst N' ts v hno).1]

/-- name strip after the name/type strip is one name/type strip -/
theorem strip_strip (inst : Val → String → Bool) (N ns1 ns2 ts : List String)
    (h : ∀ k, k ∈ N ↔ (k ∈ ns2 ∨ k ∈ ns1)) :
    ∀ attrs, stripAttrs N (stripAttrsG inst ns1 ts attrs) = stripAttrsG inst (ns2 ++ ns1) ts attrs := by
  apply attrs_ind
  · simp [stripAttrs, stripAttrsG]
  · intro k cls sub rest ih1 ih2
    by_cases h1 : k ∈ ns1
    · simp [stripAttrsG, h1, ih2]
    · by_cases ht : ts.any (inst (.obj cls sub)) = true
      · simp at ht
        simp [stripAttrsG, ht, ih2]
      · have ht : ¬ ∃ x, x ∈ ts ∧ inst (.obj cls sub) x = true := by simpa using ht
        by_cases h2 : k ∈ ns2
        · have hN : k ∈ N := (h k).2 (Or.inl h2)
          simp [stripAttrsG, stripAttrs, h1, h2, hN, ht, ih2]
        · have hN : k ∉ N := fun hk => (h k).1 hk |>.elim h2 h1
          simp [stripAttrsG, stripAttrs, stripA, stripG, h1, h2, hN, ht, ih1, ih2]
  · intro k v rest hno ih
    have hs := nonobj_stripG inst ns1 ts v hno
    have hs' := nonobj_stripG inst (ns2 ++ ns1) ts v hno
    have hs'' := nonobj_stripG inst N ts v hno
    by_cases h1 : k ∈ ns1
    · simp [stripAttrsG, h1, ih]
    · by_cases ht : ts.any (inst v) = true
      · simp at ht
        simp [stripAttrsG, ht, ih]
      · have ht : ¬ ∃ x, x ∈ ts ∧ inst v x = true := by simpa using ht
        by_cases h2 : k ∈ ns2
        · have hN : k ∈ N := (h k).2 (Or.inl h2)
          simp [stripAttrsG, stripAttrs, h1, h2, hN, ht, ih]
        · have hN : k ∉ N := fun hk => (h k).1 hk |>.elim h2 h1
          simp [stripAttrsG, stripAttrs, h1, h2, hN, ht, ih, hs.1, hs'.1, hs''.2.2.2]


/-! ### load side -/

/-- the keep test of `dropTypesX` -/
def keepX (ts : List String) (x : String × Ns × Val) : Bool :=
  x.2.1 == .attr || isRng x.2.2 || !ts.any (exactType x.2.2)

theorem dropTypesX_eq_self (ts : List String) (L : List (String × Ns × Val)) (h : ∀ x ∈ L, keepX ts x = true) :
    dropTypesX ts L = L := by
  unfold dropTypesX
  exact List.filter_eq_self.2 (fun x hx => by simpa [keepX] using h x hx)

theorem loadX_obj (ns2 ns1 ts : List String) (cls : String) (kids : List (String × Node)) :
    loadX ⟨ns2, []⟩ ⟨.map [("_autoserialize", .str cls)] kids, ns1, ts⟩ =
      match decodeAttrsX ⟨ns2 ++ ns1.filter (fun n => !ns2.contains n), ts⟩ kids with
      | .error e => .error e
      | .ok xs => .ok (.obj cls (reorder (dropTypesX ts xs))) := by
  have ht : ts.filter (fun t => !([] : List String).contains t) = ts := by simp
  simp only [loadX, fget, ht, List.nil_append]
  cases h : decodeAttrsX ⟨ns2 ++ ns1.filter (fun n => !ns2.contains n), ts⟩ kids <;> simp [bind, Except.bind]

/-! ### histories -/

theorem sfsGet_sfsSet (fs : SFs) (p q : String) (s : Saved) :
    sfsGet (sfsSet fs p s) q = if p = q then some s else sfsGet fs q := by
  induction fs with
  | nil =>
      by_cases h : p = q <;> simp [sfsSet, sfsGet, h]
  | cons x rest ih =>
      obtain ⟨r, t⟩ := x
      by_cases hr : r = p
      · by_cases h : p = q
        · simp [sfsSet, sfsGet, hr, h]
        · simp [sfsSet, sfsGet, hr, h]
      · by_cases h : p = q
        · subst h
          simp [sfsSet, sfsGet, hr, ih]
        · by_cases hq : r = q
          · subst hq
            simp [sfsSet, sfsGet, hr]
            intro hpr; exact absurd hpr h
          · simp [sfsSet, sfsGet, hr, h, hq, ih]

theorem srun_append (inst : Val → String → Bool) (pool : List Val) (fs : SFs) (a b : List SOp) :
    srun inst pool fs (a ++ b) =
      ((srun inst pool (srun inst pool fs a).1 b).1, (srun inst pool fs a).2 ++ (srun inst pool (srun inst pool fs a).1 b).2) := by
  induction a generalizing fs with
  | nil => simp [srun]
  | cons op rest ih => simp [srun, ih]

end QuantemModel.SerializeSkip
