import QuantemModel.Model.DriftSession
import QuantemModel.Lemmas.Drift
/-!
Helper lemmas for the history theorems of Props/C15.lean (Model/DriftSession.lean).
The exception-safety / history lemmas are carrier-independent (`[Num R] [NumFloor R]`: they hold of the
executed `Float` instance as well as of `ℝ`); the equivariance lemmas are at `ℝ`.
-/
namespace QuantemModel.DriftSession
open QuantemModel QuantemModel.Registration QuantemModel.Drift

section generic
set_option linter.unusedSectionVars false
variable {R : Type} [Num R] [NumFloor R]

/-- the geometry `preprocess` makes is pristine by construction -/
theorem pristine_fresh (Hc Wc nk : Nat) (shapes : List (Nat × Nat)) (angles : List R) :
    Pristine (freshGeom Hc Wc nk shapes angles) := by
  intro im him
  simp only [freshGeom, List.mem_map] at him
  obtain ⟨p, _, rfl⟩ := him
  rfl

theorem finish_geom (s : St R) (a : Attrs R) (g : Geom R) (o : Option Err) : (finish s a g o).1.geom = some g := by
  cases o <;> rfl

theorem finish_ok (s : St R) (a : Attrs R) (g : Geom R) (o : Option Err) : (finish s a g o).2 = .ok ↔ o = none := by
  cases o <;> simp [finish]

/-- every state carries either no geometry or a pristine one -/
def Inv (s : St R) : Prop := ∀ g, s.geom = some g → Pristine g

/-- what `preprocess` can do to the geometry: leave it, or replace it by the fresh one of the call -/
theorem preprocess_geom (s : St R) (pad : NumArg R) (pv : PadArg R) (sigma nk : NumArg R) :
    (preprocess s pad pv sigma nk).1.geom = s.geom ∨
    ∃ Hc Wc k, (preprocess s pad pv sigma nk).1.geom = some (freshGeom Hc Wc k s.shapes s.angles) := by
  unfold preprocess
  repeat' split
  all_goals first | exact Or.inl rfl | exact Or.inr ⟨_, _, _, finish_geom _ _ _ _⟩

theorem preprocess_inv (s : St R) (h : Inv s) (pad : NumArg R) (pv : PadArg R) (sigma nk : NumArg R) :
    Inv (preprocess s pad pv sigma nk).1 := by
  intro g hg
  rcases preprocess_geom s pad pv sigma nk with h1 | ⟨Hc, Wc, k, h1⟩
  · exact h g (h1 ▸ hg)
  · rw [h1] at hg
    cases hg
    exact pristine_fresh _ _ _ _ _

/-- a `preprocess` that succeeds has replaced the geometry by the fresh one -/
theorem preprocess_ok_geom (s : St R) (pad : NumArg R) (pv : PadArg R) (sigma nk : NumArg R)
    (h : (preprocess s pad pv sigma nk).2 = .ok) :
    ∃ Hc Wc k, (preprocess s pad pv sigma nk).1.geom = some (freshGeom Hc Wc k s.shapes s.angles) := by
  revert h
  unfold preprocess
  repeat' split
  all_goals intro h
  all_goals first | exact ⟨_, _, _, finish_geom _ _ _ _⟩ | (exfalso; simp at h)

/-- `align_translation` that raises: the geometry is the one before the call, or — when there were no knots —
the pristine one of the implicit default `preprocess()` -/
theorem alignTranslation_raised (s : St R) (up ms : RegArg) (mn : Option R) (f : Bool) (raw : List (R × R))
    (h : (alignTranslation s up ms mn f raw).2 ≠ .ok) :
    (alignTranslation s up ms mn f raw).1 = s ∨
    (s.geom = none ∧ (alignTranslation s up ms mn f raw).1
        = (preprocess s (.num (Num.ofRat (1/4))) (.str "median") (.num (Num.ofRat (1/2))) (.num Num.one)).1) := by
  unfold alignTranslation at h ⊢
  cases hg : s.geom with
  | some g =>
    simp only [hg] at h ⊢
    split
    · exact Or.inl rfl
    · split
      · exact Or.inl rfl
      · rename_i h1 h2
        simp only [h1, h2, if_false] at h
        exact absurd rfl h
  | none =>
    refine Or.inr ⟨rfl, ?_⟩
    simp only [hg] at h ⊢
    generalize preprocess s (.num (Num.ofRat (1/4))) (.str "median") (.num (Num.ofRat (1/2))) (.num Num.one) = q at h ⊢
    obtain ⟨s1, o1⟩ := q
    cases o1 with
    | raised e => rfl
    | ok =>
      simp only at h ⊢
      cases hg1 : s1.geom with
      | none => rfl
      | some g =>
        simp only [hg1] at h ⊢
        split
        · rfl
        · split
          · rfl
          · rename_i h1 h2
            simp only [h1, h2, if_false] at h
            exact absurd rfl h

/-- `align_affine` that raises leaves the object exactly as it was -/
theorem alignAffine_raised (s : St R) (stp : R) (nt : Int) (rf : Bool) (up ms : RegArg) (f : Bool) (m : AffineMeas R)
    (h : (alignAffine s stp nt rf up ms f m).2 ≠ .ok) :
    (alignAffine s stp nt rf up ms f m).1 = s := by
  revert h
  unfold alignAffine
  repeat' split
  all_goals intro h
  all_goals first | rfl | exact absurd rfl h

/-- one step keeps the invariant unless it is an alignment call that succeeds -/
theorem step_inv (s : St R) (hs : Inv s) (op : Op R) (h : op.isAlign = true → (step s op).2 ≠ .ok) :
    Inv (step s op).1 := by
  cases op with
  | setAngles a => exact hs
  | preprocess pad pv sigma nk => exact preprocess_inv s hs pad pv sigma nk
  | alignTranslation up ms mn f raw =>
    have h' := h rfl
    simp only [step] at h' ⊢
    rcases alignTranslation_raised s up ms mn f raw h' with e | ⟨_, e⟩
    · rw [e]; exact hs
    · rw [e]; exact preprocess_inv s hs _ _ _ _
  | alignAffine stp nt rf up ms f m =>
    have h' := h rfl
    simp only [step] at h' ⊢
    rw [alignAffine_raised s stp nt rf up ms f m h']
    exact hs

theorem run_inv (ops : List (Op R)) : ∀ (s : St R), Inv s → noDrift s ops → Inv (run s ops) := by
  induction ops with
  | nil => intro s hs _; exact hs
  | cons op ops ih =>
    intro s hs h
    exact ih _ (step_inv s hs op h.1) h.2

theorem fromData_inv (shapes : List (Nat × Nat)) (angles : List R) : Inv (fromData shapes angles) := by
  intro g hg
  simp [fromData] at hg

end generic

/-! ### translation / shear equivariance of `transform_rows` at ℝ -/

/-- adding a constant to every knot of a scan line adds it to every sample: the interpolation weights of
`transform_rows` add up to one for 1, 2, 3 and 4 knots (arbitrary knots, inside or outside `[0, 1]`) -/
theorem transformRow_add_const (nk W : ℕ) (hnk : 1 ≤ nk ∧ nk ≤ 4) (kn : ℕ → ℝ) (a f u : ℝ) :
    transformRow nk W (fun k => kn k + a) f u = transformRow nk W kn f u + a := by
  obtain ⟨h1, h4⟩ := hnk
  interval_cases nk
  · simp only [transformRow, if_true, NumReal.add_eq, NumReal.mul_eq]
    ring
  · obtain ⟨t0, t1⟩ := basis2
    simp only [transformRow, show (2 : ℕ) ≠ 1 by norm_num, if_false, if_true, NumReal.zero_eq, NumReal.one_eq,
      NumReal.add_eq, NumReal.mul_eq, NumReal.sub_eq, NumReal.div_eq, t0, t1]
    ring
  · obtain ⟨t0, t1, t2⟩ := basis3
    simp only [transformRow, show (3 : ℕ) ≠ 1 by norm_num, show (3 : ℕ) ≠ 2 by norm_num, if_false,
      NumReal.zero_eq, NumReal.one_eq, lagrange3, t0, t1, t2]
    ring
  · obtain ⟨t0, t1, t2, t3⟩ := basis4
    simp only [transformRow, show (4 : ℕ) ≠ 1 by norm_num, show (4 : ℕ) ≠ 2 by norm_num, if_false,
      NumReal.zero_eq, NumReal.one_eq, lagrange4, t0, t1, t2, t3]
    ring

theorem sumPairs_fst_snd (d : List (ℝ × ℝ)) :
    sumPairs d = ((d.map Prod.fst).sum, (d.map Prod.snd).sum) := by
  induction d with
  | nil => simp [sumPairs]
  | cons v vs ih => simp [sumPairs, ih]

/-- `dxy -= mean(dxy)`: the shifts that are applied add up to zero -/
theorem removeMean_sum (d : List (ℝ × ℝ)) (hd : d ≠ []) : sumPairs (removeMean d) = (0, 0) := by
  have hn : (d.length : ℝ) ≠ 0 := by
    have : 0 < d.length := List.length_pos_of_ne_nil hd
    exact_mod_cast this.ne'
  have key : ∀ (l : List (ℝ × ℝ)) (a b : ℝ),
      sumPairs (l.map fun v => (v.1 - a, v.2 - b)) = ((sumPairs l).1 - l.length * a, (sumPairs l).2 - l.length * b) := by
    intro l a b
    induction l with
    | nil => simp [sumPairs]
    | cons v vs ih =>
      simp only [List.map_cons, sumPairs, ih, List.length_cons, NumReal.add_eq]
      push_cast
      ext <;> simp <;> ring
  unfold removeMean
  simp only [NumReal.ofNat_eq, NumReal.sub_eq, NumReal.div_eq]
  rw [key]
  ext <;> simp <;> field_simp <;> ring

theorem zipApply_translate_zero (imgs : List (ImgGeom ℝ)) (k : ℕ) :
    zipApply translateImg imgs (List.replicate k ((0 : ℝ), (0 : ℝ))) = imgs := by
  induction imgs generalizing k with
  | nil => simp [zipApply]
  | cons g gs ih =>
    cases k with
    | zero => simp [zipApply]
    | succ k =>
      simp only [List.replicate_succ, zipApply, ih]
      congr 1
      cases g
      simp [translateImg, moveKnot]

theorem applyMinShift_zero (mn : Option ℝ) (k : ℕ) :
    applyMinShift mn (List.replicate k ((0 : ℝ), (0 : ℝ))) = List.replicate k ((0 : ℝ), (0 : ℝ)) := by
  cases mn with
  | none => rfl
  | some m =>
    cases k with
    | zero => simp [applyMinShift]
    | succ k =>
      have hl : (List.replicate (k + 1) ((0 : ℝ), (0 : ℝ))).getLast? = some (0, 0) := by
        simp [List.getLast?_replicate]
      simp only [applyMinShift, hl]
      split
      · simp only [NumReal.zero_eq]
        rw [List.dropLast_replicate]
        simp [List.replicate_succ']
      · rfl

end QuantemModel.DriftSession
