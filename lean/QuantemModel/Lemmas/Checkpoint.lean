/-
Helper lemmas for Props/C05.lean: insertion-ordered dicts, re-keying, LR bookkeeping.
-/
import QuantemModel.Model.Checkpoint

namespace QuantemModel.Checkpoint

/-! ### dicts -/

theorem setKey_of_not_mem {κ ν : Type} [DecidableEq κ] (k : κ) (v : ν) :
    ∀ (d : List (κ × ν)), k ∉ d.map (·.1) → setKey k v d = d ++ [(k, v)]
  | [], _ => rfl
  | (k', v') :: rest, h => by
      have h1 : k' ≠ k := by intro e; apply h; simp [e]
      have h2 : k ∉ rest.map (·.1) := by intro e; apply h; simp [e]
      simp [setKey, h1, setKey_of_not_mem k v rest h2]

theorem setKey_keys {κ ν : Type} [DecidableEq κ] (k : κ) (v : ν) :
    ∀ (d : List (κ × ν)), (setKey k v d).map (·.1) = if k ∈ d.map (·.1) then d.map (·.1) else d.map (·.1) ++ [k]
  | [] => by simp [setKey]
  | (k', v') :: rest => by
      by_cases h : k' = k
      · simp [setKey, h]
      · have ih := setKey_keys k v rest
        have h' : ¬ k = k' := fun e => h e.symm
        by_cases hm : k ∈ rest.map (·.1)
        · simp only [hm, if_true] at ih
          simp [setKey, h, h', ih, hm]
        · simp only [hm, if_false] at ih
          simp [setKey, h, h', ih, hm]

theorem lookup_append {κ ν : Type} [DecidableEq κ] (k : κ) :
    ∀ (a b : List (κ × ν)), lookup k (a ++ b) = match lookup k a with | some v => some v | none => lookup k b
  | [], b => by simp [lookup]
  | (k', v) :: rest, b => by
      by_cases h : k' = k
      · simp [lookup, h]
      · simp [lookup, h, lookup_append k rest b]

theorem lookup_none_of_not_mem {κ ν : Type} [DecidableEq κ] (k : κ) :
    ∀ (d : List (κ × ν)), k ∉ d.map (·.1) → lookup k d = none
  | [], _ => rfl
  | (k', v) :: rest, h => by
      have h1 : k' ≠ k := by intro e; apply h; simp [e]
      have h2 : k ∉ rest.map (·.1) := by intro e; apply h; simp [e]
      simp [lookup, h1, lookup_none_of_not_mem k rest h2]

/-! ### re-binding by parameter -/

theorem target_of_mem (cur old : List PId) (k : PId) (h : k ∈ cur) : target cur old k = some k := by
  simp [target, h]

/-- re-keying entries whose keys are current parameters (distinct, not yet present) appends them unchanged -/
theorem rekey_of_mem {μ : Type} (cur old : List PId) :
    ∀ (st acc : List (PId × μ)), (∀ k ∈ st.map (·.1), k ∈ cur) → (st.map (·.1)).Nodup →
      (∀ k ∈ st.map (·.1), k ∉ acc.map (·.1)) → rekey cur old st acc = acc ++ st
  | [], acc, _, _, _ => by simp [rekey]
  | (k, m) :: rest, acc, hin, hnd, hdis => by
      have hk : k ∈ cur := hin k (by simp)
      have hnd' : k ∉ rest.map (·.1) ∧ (rest.map (·.1)).Nodup := by simpa using hnd
      have hka : k ∉ acc.map (·.1) := hdis k (by simp)
      rw [rekey, target_of_mem cur old k hk]
      simp only
      rw [setKey_of_not_mem k m acc hka]
      rw [rekey_of_mem cur old rest (acc ++ [(k, m)]) (fun k' h' => hin k' (by simp [h'])) hnd'.2]
      · simp
      · intro k' h' hmem
        have : k' ∈ acc.map (·.1) ∨ k' = k := by simpa using hmem
        rcases this with h1 | h1
        · exact hdis k' (by simp [h']) h1
        · subst h1; exact hnd'.1 (by simpa using h')

/-! ### positional re-keying -/

theorem zip_map_prefix {μ : Type} :
    ∀ (st : List (PId × μ)) (rest : List PId), (st.map (·.1) ++ rest).zip (st.map (·.2)) = st
  | [], rest => by simp
  | (k, m) :: st, rest => by simp [zip_map_prefix st rest]

/-! ### LR bookkeeping -/

theorem hasKey_iff {ν : Type} (k : String) (d : List (String × ν)) : hasKey k d = true ↔ k ∈ d.map (·.1) := by
  simp [hasKey, List.any_eq_true]

theorem recordIter_losses_length (opts : List (String × Nat)) (loss : Nat) (b : Book) :
    (recordIter opts loss b).iterLosses.length = b.iterLosses.length + 1 := by
  simp [recordIter]

theorem recordIter_inv (opts : List (String × Nat)) (loss : Nat) (b : Book)
    (h : ∀ kl ∈ b.iterLrs, kl.2.length = b.iterLosses.length) :
    ∀ kl ∈ (recordIter opts loss b).iterLrs, kl.2.length = (recordIter opts loss b).iterLosses.length := by
  intro kl hkl
  simp only [recordIter, List.mem_append, List.mem_map, List.mem_filter] at hkl
  rcases hkl with ⟨a, ha, rfl⟩ | ⟨a, _, rfl⟩
  · simp [recordIter, h a ha]
  · simp [recordIter]

theorem lookup_map_snd {ν ν' : Type} (k : String) (f : String → ν → ν') :
    ∀ (d : List (String × ν)), lookup k (d.map (fun kl => (kl.1, f kl.1 kl.2))) = (lookup k d).map (f k)
  | [] => rfl
  | (k', v) :: rest => by
      by_cases h : k' = k
      · simp [lookup, h]
      · simp [lookup, h, lookup_map_snd k f rest]

theorem lookup_filter_map_fresh (k : String) (n : Nat) (old : List (String × List Nat)) (hk : hasKey k old = false) :
    ∀ (opts : List (String × Nat)),
      lookup k ((opts.filter (fun kv => !hasKey kv.1 old)).map (fun kv => (kv.1, List.replicate n 0 ++ [kv.2])))
        = (lookup k opts).map (fun lr => List.replicate n 0 ++ [lr])
  | [] => rfl
  | (k', lr) :: rest => by
      by_cases h : k' = k
      · subst h; simp [List.filter, hk, lookup]
      · by_cases hf : hasKey k' old = true
        · simp [List.filter, hf, lookup, h, lookup_filter_map_fresh k n old hk rest]
        · have hf' : hasKey k' old = false := by simpa using hf
          simp [List.filter, hf', lookup, h, lookup_filter_map_fresh k n old hk rest]

theorem lookup_isSome_iff_hasKey {ν : Type} (k : String) :
    ∀ (d : List (String × ν)), (lookup k d).isSome = hasKey k d
  | [] => rfl
  | (k', v) :: rest => by
      by_cases h : k' = k
      · simp [lookup, hasKey, h]
      · have ih := lookup_isSome_iff_hasKey k rest
        have hb : (k' == k) = false := by simpa using h
        simp [lookup, hasKey, h, hb] at ih ⊢
        exact ih

/-- the LR history of key `k` after one more `_record_iter` -/
theorem lookup_recordIter (k : String) (opts : List (String × Nat)) (loss : Nat) (b : Book) :
    lookup k (recordIter opts loss b).iterLrs =
      match lookup k b.iterLrs with
      | some l => some (l ++ [(lookup k opts).getD 0])
      | none => (lookup k opts).map (fun lr => List.replicate b.iterLosses.length 0 ++ [lr]) := by
  simp only [recordIter]
  rw [lookup_append]
  have h1 := lookup_map_snd k (fun k' (l : List Nat) => l ++ [(lookup k' opts).getD 0]) b.iterLrs
  rw [h1]
  cases hl : lookup k b.iterLrs with
  | some l => simp
  | none =>
      have hk : hasKey k b.iterLrs = false := by
        have := lookup_isSome_iff_hasKey k b.iterLrs
        rw [hl] at this; simpa using this.symm
      simp only [Option.map_none]
      exact lookup_filter_map_fresh k _ b.iterLrs hk opts

/-! ### well-formed states: device moves are the identity, iterations keep well-formedness -/

theorem reconnect_of_wf {μ : Type} (cur : List PId) (o : Optim μ) (h : o.wf cur) : reconnect cur o = some o := by
  obtain ⟨hp, hne, hnd, hin⟩ := h
  have he : cur.isEmpty = false := by cases cur <;> simp_all
  have hr := rekey_of_mem cur o.params o.state [] hin hnd (by simp)
  simp only [reconnect, he, hr, List.nil_append]
  cases o
  simp_all

theorem toModel_of_wf {θ μ σ : Type} (m : ModelSt θ μ σ) (h : m.wf) : toModel reconnect m = m := by
  unfold toModel
  cases ho : m.opt with
  | none => rfl
  | some o =>
      simp only [reconnect_of_wf _ o (h o ho)]
      cases m
      simp_all

theorem toDevice_of_wf {θ μ σ : Type} (r : Recon θ μ σ) (h : r.wf) : toDevice reconnect r = r := by
  obtain ⟨h1, h2, h3⟩ := h
  simp [toDevice, toModel_of_wf _ h1, toModel_of_wf _ h2, toModel_of_wf _ h3]

theorem setKey_nodup {κ ν : Type} [DecidableEq κ] (k : κ) (v : ν) (d : List (κ × ν)) (h : (d.map (·.1)).Nodup) :
    ((setKey k v d).map (·.1)).Nodup := by
  rw [setKey_keys]
  by_cases hm : k ∈ d.map (·.1)
  · simp only [hm, if_true]; exact h
  · simp only [hm, if_false]
    rw [List.nodup_append]
    refine ⟨h, by simp, ?_⟩
    intro a ha b hb
    have : b = k := by simpa using hb
    subst this
    intro e; subst e; exact hm ha

theorem setKey_mem_keys {κ ν : Type} [DecidableEq κ] (k : κ) (v : ν) (d : List (κ × ν)) (a : κ)
    (h : a ∈ (setKey k v d).map (·.1)) : a ∈ d.map (·.1) ∨ a = k := by
  rw [setKey_keys] at h
  by_cases hm : k ∈ d.map (·.1)
  · simp only [hm, if_true] at h; exact Or.inl h
  · simp only [hm, if_false] at h
    rcases List.mem_append.mp h with h1 | h1
    · exact Or.inl h1
    · exact Or.inr (by simpa using h1)

theorem stepParams_spec {θ γ μ σ : Type} (S : Step θ γ μ σ) (v : View θ) (key : String) (o : Optim μ) :
    ∀ (ps : List (PId × θ)) (st : List (PId × μ)), (st.map (·.1)).Nodup → (∀ k ∈ st.map (·.1), k ∈ o.params) →
      (stepParams S v key o ps st).1.map (·.1) = ps.map (·.1) ∧
      ((stepParams S v key o ps st).2.map (·.1)).Nodup ∧
      ∀ k ∈ (stepParams S v key o ps st).2.map (·.1), k ∈ o.params
  | [], st, hnd, hin => by
      unfold stepParams
      exact ⟨rfl, hnd, hin⟩
  | (p, x) :: rest, st, hnd, hin => by
      unfold stepParams
      by_cases hc : o.params.contains p = true
      · simp only [hc, if_true]
        cases hg : S.grad v key p with
        | none =>
            have ih := stepParams_spec S v key o rest st hnd hin
            simp only [List.map_cons]
            exact ⟨by rw [ih.1], ih.2.1, ih.2.2⟩
        | some g =>
            simp only
            cases hu : (S.upd o.hyper o.lr (lookup p st) x g).1 with
            | none =>
                have ih := stepParams_spec S v key o rest st hnd hin
                simp only [List.map_cons]
                exact ⟨by rw [ih.1], ih.2.1, ih.2.2⟩
            | some s =>
                have hnd' := setKey_nodup p s st hnd
                have hin' : ∀ k ∈ (setKey p s st).map (·.1), k ∈ o.params := by
                  intro k hk
                  rcases setKey_mem_keys p s st k hk with h1 | h1
                  · exact hin k h1
                  · subst h1; simpa using hc
                have ih := stepParams_spec S v key o rest (setKey p s st) hnd' hin'
                simp only [List.map_cons]
                exact ⟨by rw [ih.1], ih.2.1, ih.2.2⟩
      · simp only [hc]
        have ih := stepParams_spec S v key o rest st hnd hin
        simp only [List.map_cons, Bool.false_eq_true, if_false]
        exact ⟨by rw [ih.1], ih.2.1, ih.2.2⟩

theorem stepModel_wf {θ γ μ σ : Type} (S : Step θ γ μ σ) (v : View θ) (key : String) (m : ModelSt θ μ σ) (h : m.wf) :
    (stepModel S v key m).wf := by
  unfold stepModel
  cases ho : m.opt with
  | none => simpa [ho] using h
  | some o =>
      obtain ⟨hp, hne, hnd, hin⟩ := h o ho
      have hin' : ∀ k ∈ o.state.map (·.1), k ∈ o.params := by rw [hp]; exact hin
      have sp := stepParams_spec S v key o m.params o.state hnd hin'
      intro o' ho'
      simp only [Option.some.injEq] at ho'
      subst ho'
      refine ⟨?_, ?_, sp.2.1, ?_⟩
      · simp only; rw [sp.1]; exact hp
      · simp only; rw [sp.1]; exact hne
      · simp only; rw [sp.1, ← hp]; exact sp.2.2

theorem schedModel_wf {θ γ μ σ : Type} (S : Step θ γ μ σ) (loss : Nat) (m : ModelSt θ μ σ) (h : m.wf) :
    (schedModel S loss m).wf := by
  unfold schedModel
  cases ho : m.opt with
  | none => simpa [ho] using h
  | some o =>
      cases hs : m.sched with
      | none => simpa [ho, hs] using h
      | some s =>
          intro o' ho'
          simp only [Option.some.injEq] at ho'
          subst ho'
          exact h o ho

theorem iter_wf {θ γ μ σ : Type} (S : Step θ γ μ σ) (r : Recon θ μ σ) (h : r.wf) : (iter S r).wf := by
  obtain ⟨h1, h2, h3⟩ := h
  exact ⟨schedModel_wf S _ _ (stepModel_wf S _ _ _ h1), schedModel_wf S _ _ (stepModel_wf S _ _ _ h2),
         schedModel_wf S _ _ (stepModel_wf S _ _ _ h3)⟩

/-! ### re-binding onto new tensors (the fallback branch: position in the previous param group) -/

theorem lookup_setKey {κ ν : Type} [DecidableEq κ] (k b : κ) (v : ν) :
    ∀ (d : List (κ × ν)), lookup b (setKey k v d) = if k = b then some v else lookup b d
  | [] => by simp [setKey, lookup]
  | (k', v') :: rest => by
      by_cases h : k' = k
      · subst h
        by_cases hb : k' = b <;> simp [setKey, lookup, hb]
      · by_cases hb : k' = b
        · subst hb
          have : ¬ k = k' := fun e => h e.symm
          simp [setKey, lookup, h, this]
        · simp [setKey, lookup, h, hb, lookup_setKey k b v rest]

/-- the fallback of `target`: position in the previous param group = lookup in `old.zip cur` -/
theorem fallback_eq_lookup_zip (k : PId) : ∀ (old cur : List PId),
    (match idxOf k old with | some i => cur[i]? | none => none) = lookup k (old.zip cur)
  | [], cur => by simp [idxOf, lookup]
  | p :: rest, [] => by
      simp only [List.zip_nil_right, lookup]
      cases idxOf k (p :: rest) <;> simp
  | p :: rest, c :: cs => by
      by_cases h : p = k
      · simp [idxOf, lookup, h]
      · have ih := fallback_eq_lookup_zip k rest cs
        simp only [idxOf, h, if_false, List.zip_cons_cons, lookup]
        cases hi : idxOf k rest with
        | none => simp [hi] at ih ⊢; exact ih
        | some i => simp [hi] at ih ⊢; exact ih

theorem lookup_zip_of_mem : ∀ (old cur : List PId) (a b : PId), old.Nodup → (a, b) ∈ old.zip cur →
    lookup a (old.zip cur) = some b
  | [], _, _, _, _, h => by simp at h
  | _ :: _, [], _, _, _, h => by simp at h
  | p :: rest, c :: cs, a, b, hnd, h => by
      have hnd' : p ∉ rest ∧ rest.Nodup := by simpa using hnd
      simp only [List.zip_cons_cons, List.mem_cons, Prod.mk.injEq] at h
      rcases h with ⟨h1, h2⟩ | h
      · simp [lookup, h1, h2]
      · have ha : a ∈ rest := (List.of_mem_zip h).1
        have hp : p ≠ a := fun e => hnd'.1 (e ▸ ha)
        simp [lookup, hp, lookup_zip_of_mem rest cs a b hnd'.2 h]

theorem exists_partner : ∀ (old cur : List PId) (k : PId), k ∈ old → old.length ≤ cur.length →
    ∃ b, (k, b) ∈ old.zip cur
  | [], _, _, h, _ => by simp at h
  | _ :: _, [], _, _, hl => by simp at hl
  | p :: rest, c :: cs, k, h, hl => by
      rcases List.mem_cons.mp h with h1 | h1
      · exact ⟨c, by simp [h1]⟩
      · obtain ⟨b, hb⟩ := exists_partner rest cs k h1 (by simpa using hl)
        exact ⟨b, by simp [hb]⟩

theorem zip_snd_inj : ∀ (old cur : List PId) (k a b : PId), cur.Nodup → (k, b) ∈ old.zip cur → (a, b) ∈ old.zip cur → k = a
  | [], _, _, _, _, _, h, _ => by simp at h
  | _ :: _, [], _, _, _, _, h, _ => by simp at h
  | p :: rest, c :: cs, k, a, b, hnd, h1, h2 => by
      have hnd' : c ∉ cs ∧ cs.Nodup := by simpa using hnd
      simp only [List.zip_cons_cons, List.mem_cons, Prod.mk.injEq] at h1 h2
      rcases h1 with ⟨e1, e2⟩ | h1 <;> rcases h2 with ⟨f1, f2⟩ | h2
      · rw [e1, f1]
      · exact absurd (e2 ▸ (List.of_mem_zip h2).2) hnd'.1
      · exact absurd (f2 ▸ (List.of_mem_zip h1).2) hnd'.1
      · exact zip_snd_inj rest cs k a b hnd'.2 h1 h2

theorem rekey_moved {μ : Type} (cur old : List PId) (hlen : old.length ≤ cur.length) (hndo : old.Nodup) (hndc : cur.Nodup) :
    ∀ (st acc : List (PId × μ)), (st.map (·.1)).Nodup → (∀ k ∈ st.map (·.1), k ∈ old ∧ k ∉ cur) →
      ∀ a b, (a, b) ∈ old.zip cur →
        lookup b (rekey cur old st acc) = match lookup a st with | some m => some m | none => lookup b acc
  | [], acc, _, _, a, b, _ => by simp [rekey, lookup]
  | (k, m) :: rest, acc, hnd, hin, a, b, hab => by
      have hnd' : k ∉ rest.map (·.1) ∧ (rest.map (·.1)).Nodup := by simpa using hnd
      have hk := hin k (by simp)
      obtain ⟨k', hk'⟩ := exists_partner old cur k hk.1 hlen
      have ht : target cur old k = some k' := by
        have hc : cur.contains k = false := by simpa using hk.2
        simp only [target, hc, Bool.false_eq_true, if_false]
        exact (fallback_eq_lookup_zip k old cur).trans (lookup_zip_of_mem old cur k k' hndo hk')
      rw [rekey, ht]
      simp only
      rw [rekey_moved cur old hlen hndo hndc rest (setKey k' m acc) hnd'.2 (fun x hx => hin x (by simp [hx])) a b hab,
        lookup_setKey]
      by_cases hak : k = a
      · subst hak
        have hb : k' = b := by
          have h1 := lookup_zip_of_mem old cur k k' hndo hk'
          have h2 := lookup_zip_of_mem old cur k b hndo hab
          rw [h1] at h2; exact Option.some.inj h2
        have hn : lookup k rest = none := lookup_none_of_not_mem k rest hnd'.1
        simp [lookup, hn, hb]
      · have hb : k' ≠ b := fun e => hak (zip_snd_inj old cur k a b hndc (e ▸ hk') hab)
        simp [lookup, hak, hb]

end QuantemModel.Checkpoint
