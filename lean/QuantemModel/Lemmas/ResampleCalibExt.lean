import QuantemModel.Lemmas.ResampleCalib
import Mathlib.Data.Rat.Floor
import Mathlib.Tactic.Linarith
/-! C06, growth round 6: N-D calibration update of `bin` (`Dataset.binCalib`, a fold over
`axis_to_factor.items()` that READS the accumulator), order independence of the calibration folds
of `bin` and `fourier_resample` (the dict / zip order of the axes is immaterial), and the
rounding of the `factors=` entry point. -/
namespace QuantemModel.Dataset
open QuantemModel.Nd QuantemModel.Resample

/-- the fold of `binCalib` started from an arbitrary accumulator -/
def binFold (acc : List Rat × List Rat) (d : List (Int × Int)) : List Rat × List Rat :=
  d.foldl (fun (acc : List Rat × List Rat) (p : Int × Int) =>
    let ax := p.1.toNat
    let m := binMeta (acc.1.getD ax 0) (acc.2.getD ax 0) p.2.toNat
    (acc.1.set ax m.1, acc.2.set ax m.2)) acc

theorem binCalib_eq (o s : List Rat) (d : List (Int × Int)) : binCalib o s d = binFold (o, s) d := rfl

theorem binFold_cons (acc : List Rat × List Rat) (p : Int × Int) (t : List (Int × Int)) :
    binFold acc (p :: t) = binFold
      (acc.1.set p.1.toNat (binMeta (acc.1.getD p.1.toNat 0) (acc.2.getD p.1.toNat 0) p.2.toNat).1,
       acc.2.set p.1.toNat (binMeta (acc.1.getD p.1.toNat 0) (acc.2.getD p.1.toNat 0) p.2.toNat).2) t := rfl

theorem binFold_length : ∀ (d : List (Int × Int)) (acc : List Rat × List Rat),
    (binFold acc d).1.length = acc.1.length ∧ (binFold acc d).2.length = acc.2.length := by
  intro d
  induction d with
  | nil => intro acc; exact ⟨rfl, rfl⟩
  | cons p t ih =>
    intro acc
    rw [binFold_cons]
    have := ih (acc.1.set p.1.toNat (binMeta (acc.1.getD p.1.toNat 0) (acc.2.getD p.1.toNat 0) p.2.toNat).1,
       acc.2.set p.1.toNat (binMeta (acc.1.getD p.1.toNat 0) (acc.2.getD p.1.toNat 0) p.2.toNat).2)
    simpa using this

/-- an axis that is not binned keeps its calibration -/
theorem binFold_other (ax : Nat) : ∀ (d : List (Int × Int)) (acc : List Rat × List Rat),
    (∀ p ∈ d, p.1.toNat ≠ ax) →
      (binFold acc d).1.getD ax 0 = acc.1.getD ax 0 ∧ (binFold acc d).2.getD ax 0 = acc.2.getD ax 0 := by
  intro d
  induction d with
  | nil => intro acc _; exact ⟨rfl, rfl⟩
  | cons p t ih =>
    intro acc h
    have hp : p.1.toNat ≠ ax := h p (by simp)
    rw [binFold_cons]
    obtain ⟨e1, e2⟩ := ih (acc.1.set p.1.toNat (binMeta (acc.1.getD p.1.toNat 0) (acc.2.getD p.1.toNat 0) p.2.toNat).1,
       acc.2.set p.1.toNat (binMeta (acc.1.getD p.1.toNat 0) (acc.2.getD p.1.toNat 0) p.2.toNat).2)
       (fun q hq => h q (by simp [hq]))
    rw [e1, e2]
    exact ⟨getD_set_ne' _ _ _ _ hp, getD_set_ne' _ _ _ _ hp⟩

/-- a binned axis (distinct axes) gets exactly the 1-D update of its ORIGINAL calibration -/
theorem binFold_mem : ∀ (d : List (Int × Int)) (acc : List Rat × List Rat),
    (d.map fun p => p.1.toNat).Nodup → ∀ p ∈ d, p.1.toNat < acc.1.length → p.1.toNat < acc.2.length →
      (binFold acc d).1.getD p.1.toNat 0
          = (binMeta (acc.1.getD p.1.toNat 0) (acc.2.getD p.1.toNat 0) p.2.toNat).1 ∧
      (binFold acc d).2.getD p.1.toNat 0
          = (binMeta (acc.1.getD p.1.toNat 0) (acc.2.getD p.1.toNat 0) p.2.toNat).2 := by
  intro d
  induction d with
  | nil => intro acc _ p hp; simp at hp
  | cons q t ih =>
    intro acc hnd p hp h1 h2
    simp only [List.map_cons, List.nodup_cons] at hnd
    rw [binFold_cons]
    rcases List.mem_cons.mp hp with rfl | hpt
    · obtain ⟨e1, e2⟩ := binFold_other p.1.toNat t
        (acc.1.set p.1.toNat (binMeta (acc.1.getD p.1.toNat 0) (acc.2.getD p.1.toNat 0) p.2.toNat).1,
         acc.2.set p.1.toNat (binMeta (acc.1.getD p.1.toNat 0) (acc.2.getD p.1.toNat 0) p.2.toNat).2)
        (fun r hr heq => hnd.1 (List.mem_map.mpr ⟨r, hr, heq⟩))
      rw [e1, e2]
      exact ⟨getD_set_eq' _ _ _ h1, getD_set_eq' _ _ _ h2⟩
    · have hne : q.1.toNat ≠ p.1.toNat := fun heq => hnd.1 (List.mem_map.mpr ⟨p, hpt, heq.symm⟩)
      obtain ⟨e1, e2⟩ := ih
        (acc.1.set q.1.toNat (binMeta (acc.1.getD q.1.toNat 0) (acc.2.getD q.1.toNat 0) q.2.toNat).1,
         acc.2.set q.1.toNat (binMeta (acc.1.getD q.1.toNat 0) (acc.2.getD q.1.toNat 0) q.2.toNat).2)
        hnd.2 p hpt (by simpa using h1) (by simpa using h2)
      rw [e1, e2]
      dsimp only
      rw [getD_set_ne' _ _ _ _ hne, getD_set_ne' _ _ _ _ hne]
      exact ⟨rfl, rfl⟩

/-- two lists of rationals of equal length with equal `getD` are equal -/
theorem list_ext_getD (l1 l2 : List Rat) (hl : l1.length = l2.length)
    (h : ∀ i, l1.getD i 0 = l2.getD i 0) : l1 = l2 := by
  apply List.ext_getElem hl
  intro i h1 h2
  have := h i
  simpa [List.getD_eq_getElem?_getD, h1, h2] using this

/-- **order independence of the calibration fold of `fourier_resample`**: permuting the
(axis, new length) pairs (distinct valid axes) does not change the resulting origin / sampling. -/
theorem resampleCalib_perm (shape : List Nat) (o s : List Rat) (p1 p2 : List (Nat × Nat)) (hp : p1.Perm p2)
    (hnd : (p1.map Prod.fst).Nodup) (hv : ∀ p ∈ p1, p.1 < o.length ∧ p.1 < s.length) :
    resampleCalib shape o s p1 = resampleCalib shape o s p2 := by
  have hnd2 : (p2.map Prod.fst).Nodup := (hp.map Prod.fst).nodup_iff.mp hnd
  rw [resampleCalib_eq, resampleCalib_eq]
  have key : ∀ ax,
      (calibFold shape o s (o, s) p1).1.getD ax 0 = (calibFold shape o s (o, s) p2).1.getD ax 0 ∧
      (calibFold shape o s (o, s) p1).2.getD ax 0 = (calibFold shape o s (o, s) p2).2.getD ax 0 := by
    intro ax
    by_cases h : ∃ p ∈ p1, p.1 = ax
    · obtain ⟨p, hp1, rfl⟩ := h
      have a := calibFold_mem shape o s p1 (o, s) hnd p hp1 (hv p hp1).1 (hv p hp1).2
      have b := calibFold_mem shape o s p2 (o, s) hnd2 p (hp.mem_iff.mp hp1) (hv p hp1).1 (hv p hp1).2
      exact ⟨a.1.trans b.1.symm, a.2.trans b.2.symm⟩
    · have h' : ∀ p ∈ p1, p.1 ≠ ax := fun p hp1 he => h ⟨p, hp1, he⟩
      have a := calibFold_other shape o s ax p1 (o, s) h'
      have b := calibFold_other shape o s ax p2 (o, s) (fun p hp2 => h' p (hp.mem_iff.mpr hp2))
      exact ⟨a.1.trans b.1.symm, a.2.trans b.2.symm⟩
  have l1 := calibFold_length shape o s p1 (o, s)
  have l2 := calibFold_length shape o s p2 (o, s)
  apply Prod.ext
  · exact list_ext_getD _ _ (l1.1.trans l2.1.symm) (fun i => (key i).1)
  · exact list_ext_getD _ _ (l1.2.trans l2.2.symm) (fun i => (key i).2)

/-- **order independence of the calibration fold of `bin`** (which reads the accumulator):
permuting the items of `axis_to_factor` (distinct valid axes) does not change origin / sampling. -/
theorem binCalib_perm (o s : List Rat) (d1 d2 : List (Int × Int)) (hp : d1.Perm d2)
    (hnd : (d1.map fun p => p.1.toNat).Nodup) (hv : ∀ p ∈ d1, p.1.toNat < o.length ∧ p.1.toNat < s.length) :
    binCalib o s d1 = binCalib o s d2 := by
  have hnd2 : (d2.map fun p => p.1.toNat).Nodup := (hp.map _).nodup_iff.mp hnd
  rw [binCalib_eq, binCalib_eq]
  have key : ∀ ax,
      (binFold (o, s) d1).1.getD ax 0 = (binFold (o, s) d2).1.getD ax 0 ∧
      (binFold (o, s) d1).2.getD ax 0 = (binFold (o, s) d2).2.getD ax 0 := by
    intro ax
    by_cases h : ∃ p ∈ d1, p.1.toNat = ax
    · obtain ⟨p, hp1, rfl⟩ := h
      have a := binFold_mem d1 (o, s) hnd p hp1 (hv p hp1).1 (hv p hp1).2
      have b := binFold_mem d2 (o, s) hnd2 p (hp.mem_iff.mp hp1) (hv p hp1).1 (hv p hp1).2
      exact ⟨a.1.trans b.1.symm, a.2.trans b.2.symm⟩
    · have h' : ∀ p ∈ d1, p.1.toNat ≠ ax := fun p hp1 he => h ⟨p, hp1, he⟩
      have a := binFold_other ax d1 (o, s) h'
      have b := binFold_other ax d2 (o, s) (fun p hp2 => h' p (hp.mem_iff.mpr hp2))
      exact ⟨a.1.trans b.1.symm, a.2.trans b.2.symm⟩
  have l1 := binFold_length d1 (o, s)
  have l2 := binFold_length d2 (o, s)
  apply Prod.ext
  · exact list_ext_getD _ _ (l1.1.trans l2.1.symm) (fun i => (key i).1)
  · exact list_ext_getD _ _ (l1.2.trans l2.2.symm) (fun i => (key i).2)

/-- the shape fold of `fourier_resample` is order independent too -/
theorem resampleShape_getD (ax : Nat) : ∀ (pairs : List (Nat × Nat)) (acc : List Nat),
    (∀ p ∈ pairs, p.1 ≠ ax) →
      (pairs.foldl (fun (acc : List Nat) (p : Nat × Nat) => acc.set p.1 p.2) acc).getD ax 0 = acc.getD ax 0 := by
  intro pairs
  induction pairs with
  | nil => intro acc _; rfl
  | cons p t ih =>
    intro acc h
    have hp : p.1 ≠ ax := h p (by simp)
    rw [List.foldl_cons, ih _ (fun q hq => h q (by simp [hq]))]
    simp [List.getD_eq_getElem?_getD, List.getElem?_set_ne hp]

/-! ### rounding of the `factors=` entry point -/

theorem floor_eq' (q : ℚ) : q.floor = ⌊q⌋ := rfl

theorem round_cases (q : ℚ) :
    (roundHalfEven q = q.floor ∧ q - (q.floor : ℚ) ≤ 1 / 2)
      ∨ (roundHalfEven q = q.floor + 1 ∧ 1 / 2 ≤ q - (q.floor : ℚ)) := by
  unfold roundHalfEven
  dsimp only
  split_ifs with ha hb hc
  · left; exact ⟨rfl, ha.le⟩
  · right; exact ⟨rfl, hb.le⟩
  · left; exact ⟨rfl, (le_antisymm (not_lt.mp hb) (not_lt.mp ha)).le⟩
  · right; exact ⟨rfl, (le_antisymm (not_lt.mp hb) (not_lt.mp ha)).ge⟩

/-- Python's `round` returns a nearest integer: `|round(q) - q| ≤ 1/2` -/
theorem round_nearest (q : ℚ) :
    -(1 / 2 : ℚ) ≤ ((roundHalfEven q : ℤ) : ℚ) - q ∧ ((roundHalfEven q : ℤ) : ℚ) - q ≤ 1 / 2 := by
  have h1 : (q.floor : ℚ) ≤ q := Int.floor_le q
  have h2 : q < (q.floor : ℚ) + 1 := Int.lt_floor_add_one q
  rcases round_cases q with ⟨hr, hd⟩ | ⟨hr, hd⟩
  · rw [hr]; constructor <;> linarith
  · rw [hr]; push_cast; constructor <;> linarith

/-- an integer is its own rounding -/
theorem round_int (k : ℤ) : roundHalfEven (k : ℚ) = k := by
  have h := round_nearest (k : ℚ)
  have h1 : ((roundHalfEven (k : ℚ) - k : ℤ) : ℚ) ≤ 1 / 2 := by push_cast; exact h.2
  have h2 : -(1 / 2 : ℚ) ≤ ((roundHalfEven (k : ℚ) - k : ℤ) : ℚ) := by push_cast; exact h.1
  have h3 : roundHalfEven (k : ℚ) - k < 1 := by
    have : ((roundHalfEven (k : ℚ) - k : ℤ) : ℚ) < ((1 : ℤ) : ℚ) := by push_cast at h1 ⊢; linarith
    exact_mod_cast this
  have h4 : -1 < roundHalfEven (k : ℚ) - k := by
    have : ((-1 : ℤ) : ℚ) < ((roundHalfEven (k : ℚ) - k : ℤ) : ℚ) := by push_cast at h2 ⊢; linarith
    exact_mod_cast this
  omega

end QuantemModel.Dataset
