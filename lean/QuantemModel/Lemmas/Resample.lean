import QuantemModel.Model.Resample
import QuantemModel.Lemmas.NdIndex
import Mathlib.Tactic.SplitIfs
import Mathlib.Tactic.Ring
import Mathlib.Tactic.FieldSimp
import Mathlib.Algebra.BigOperators.Group.Finset.Basic
import Mathlib.Algebra.Order.Field.Rat
import Mathlib.Algebra.BigOperators.Group.List.Basic
/-! Lemmas for Props/C06.lean, exact part: the frequency index map of `fourier_resample`
(pointwise closed form of fftshift / centred crop-pad / ifftshift), slices that undo a pad. -/
namespace QuantemModel.Resample
open QuantemModel QuantemModel.Dft QuantemModel.Nd

theorem shiftCenter_eq (n : Nat) : shiftCenter n = n / 2 := by
  unfold shiftCenter; split <;> omega

theorem length_fftshift {β : Type} (x : List β) : (fftshift x).length = x.length := by
  unfold fftshift; simp

theorem length_ifftshift {β : Type} (x : List β) : (ifftshift x).length = x.length := by
  unfold ifftshift; simp; omega

theorem getElem?_fftshift {β : Type} (x : List β) (p : Nat) (hp : p < x.length) :
    (fftshift x)[p]? =
      if p < x.length / 2 then x[p + (x.length - x.length / 2)]? else x[p - x.length / 2]? := by
  unfold fftshift
  simp only
  by_cases h : p < x.length / 2
  · rw [if_pos h, List.getElem?_append_left (by simp; omega), List.getElem?_drop]
    congr 1; omega
  · rw [if_neg h, List.getElem?_append_right (by simp; omega), List.getElem?_take]
    simp only [List.length_drop]
    have : p - (x.length - (x.length - x.length / 2)) = p - x.length / 2 := by omega
    rw [this, if_pos (by omega)]

theorem getElem?_ifftshift {β : Type} (y : List β) (q : Nat) (hq : q < y.length) :
    (ifftshift y)[q]? =
      if q < y.length - y.length / 2 then y[q + y.length / 2]? else y[q - (y.length - y.length / 2)]? := by
  unfold ifftshift
  simp only
  by_cases h : q < y.length - y.length / 2
  · rw [if_pos h, List.getElem?_append_left (by simp; omega), List.getElem?_drop]
    congr 1; omega
  · rw [if_neg h, List.getElem?_append_right (by simp; omega), List.getElem?_take]
    simp only [List.length_drop]
    rw [if_pos (by omega)]

theorem length_cropPad {β : Type} (z : β) (n m : Nat) (F : List β) (hF : F.length = n) :
    (cropPad z n m F).length = m := by
  unfold cropPad
  simp only [shiftCenter_eq]
  split
  · simp; omega
  · split
    · simp; omega
    · omega

/-- position in the fftshift-ed input axis read by position `q` of the fftshift-ed output axis -/
def shiftedSrc (n m q : Nat) : Option Nat :=
  if m < n then some (q + (n / 2 - m / 2))
  else if n < m then
    (if q < m / 2 - n / 2 then none else if q < m / 2 - n / 2 + n then some (q - (m / 2 - n / 2)) else none)
  else some q

theorem getElem?_cropPad {β : Type} (z : β) (n m : Nat) (F : List β) (hF : F.length = n) (q : Nat)
    (hq : q < m) :
    (cropPad z n m F)[q]? = match shiftedSrc n m q with
      | some p => F[p]?
      | none => some z := by
  unfold cropPad shiftedSrc
  simp only [shiftCenter_eq]
  by_cases h1 : m < n
  · simp only [if_pos h1]
    rw [List.getElem?_take, if_pos hq, List.getElem?_drop]
    congr 1; omega
  · simp only [if_neg h1]
    by_cases h2 : n < m
    · simp only [if_pos h2]
      by_cases h3 : q < m / 2 - n / 2
      · simp only [if_pos h3]
        rw [List.append_assoc, List.getElem?_append_left (by simpa using h3)]
        simp [h3]
      · simp only [if_neg h3]
        rw [List.append_assoc, List.getElem?_append_right (by simp; omega)]
        simp only [List.length_replicate]
        by_cases h4 : q < m / 2 - n / 2 + n
        · simp only [if_pos h4]
          rw [List.getElem?_append_left (by omega)]
        · simp only [if_neg h4]
          rw [List.getElem?_append_right (by omega)]
          rw [List.getElem?_replicate, if_pos (by omega)]
    · simp only [if_neg h2]

/-- closed form of the frequency index map: the input bin (NumPy order) whose coefficient
output bin `k'` receives, `none` for a zero-filled bin -/
def srcBin (n m k' : Nat) : Option Nat :=
  let q := if k' < m - m / 2 then k' + m / 2 else k' - (m - m / 2)
  match shiftedSrc n m q with
  | none => none
  | some p => some (if p < n / 2 then p + (n - n / 2) else p - n / 2)

theorem shiftedSrc_lt {n m q p : Nat} (hq : q < m) (h : shiftedSrc n m q = some p) : p < n := by
  unfold shiftedSrc at h
  split at h
  · simp at h; omega
  · split at h
    · split at h
      · simp at h
      · split at h
        · simp at h; omega
        · simp at h
    · simp at h; omega

theorem srcBin_lt {n m k' k : Nat} (hk : k' < m) (h : srcBin n m k' = some k) : k < n := by
  unfold srcBin at h
  simp only at h
  split at h
  · simp at h
  · rename_i p hp
    have hq : (if k' < m - m / 2 then k' + m / 2 else k' - (m - m / 2)) < m := by split <;> omega
    have := shiftedSrc_lt hq hp
    simp at h
    split at h <;> omega

/-- pointwise description of `ifftshift ∘ cropPad ∘ fftshift` on any list (data or bin numbers) -/
theorem getElem?_spectrumMap {β : Type} (z : β) (n m : Nat) (F : List β) (hF : F.length = n)
    (k' : Nat) (hk : k' < m) :
    (spectrumMap z n m F)[k']? = match srcBin n m k' with
      | some k => F[k]?
      | none => some z := by
  unfold spectrumMap
  have hl : (cropPad z n m (fftshift F)).length = m :=
    length_cropPad z n m _ (by rw [length_fftshift, hF])
  rw [getElem?_ifftshift _ _ (by rw [hl]; exact hk), hl]
  unfold srcBin
  simp only
  have hq : (if k' < m - m / 2 then k' + m / 2 else k' - (m - m / 2)) < m := by split <;> omega
  have key : ∀ q, q < m → (cropPad z n m (fftshift F))[q]? = match shiftedSrc n m q with
      | none => some z
      | some p => F[if p < n / 2 then p + (n - n / 2) else p - n / 2]? := by
    intro q hq
    rw [getElem?_cropPad z n m _ (by rw [length_fftshift, hF]) q hq]
    cases hs : shiftedSrc n m q with
    | none => rfl
    | some p =>
      simp only
      have hp := shiftedSrc_lt hq hs
      rw [getElem?_fftshift _ _ (by rw [hF]; exact hp), hF]
      split <;> rfl
  by_cases h : k' < m - m / 2
  · simp only [if_pos h]
    rw [key _ (by omega)]
    cases shiftedSrc n m (k' + m / 2) <;> rfl
  · simp only [if_neg h]
    rw [key _ (by omega)]
    cases shiftedSrc n m (k' - (m - m / 2)) <;> rfl

theorem length_spectrumMap {β : Type} (z : β) (n m : Nat) (F : List β) (hF : F.length = n) :
    (spectrumMap z n m F).length = m := by
  unfold spectrumMap
  rw [length_ifftshift, length_cropPad z n m _ (by rw [length_fftshift, hF])]

theorem length_freqMap (n m : Nat) : (freqMap n m).length = m :=
  length_spectrumMap _ _ _ _ (by simp)

/-- the executable index map equals the closed form -/
theorem getElem?_freqMap (n m k' : Nat) (hk : k' < m) : (freqMap n m)[k']? = some (srcBin n m k') := by
  unfold freqMap
  rw [getElem?_spectrumMap none n m _ (by simp) k' hk]
  cases h : srcBin n m k' with
  | none => rfl
  | some k =>
    have := srcBin_lt hk h
    simp [this]


/-! ### arithmetic facts about the closed form (all by case split + linear arithmetic) -/

theorem srcBin_freq {n m k' k : Nat} (_hn : 1 ≤ n) (_hm : 1 ≤ m) (hk : k' < m)
    (h : srcBin n m k' = some k) : fftfreqInt n k = fftfreqInt m k' := by
  unfold srcBin at h
  simp only at h
  split at h
  · simp at h
  · rename_i p hp
    unfold shiftedSrc at hp
    unfold fftfreqInt
    simp only [Option.some.injEq] at h
    split_ifs at hp h ⊢ <;> simp at hp <;> omega

theorem srcBin_self {n k : Nat} (hk : k < n) : srcBin n n k = some k := by
  unfold srcBin shiftedSrc
  simp only [Nat.lt_irrefl, if_false]
  congr 1
  split_ifs <;> omega

theorem srcBin_dc {n m : Nat} (hn : 1 ≤ n) (hm : 1 ≤ m) : srcBin n m 0 = some 0 := by
  unfold srcBin shiftedSrc
  simp only
  split_ifs <;> (try simp) <;> (try split_ifs) <;> first | omega | (simp <;> omega) | simp

theorem srcBin_inj {n m k1 k2 k : Nat} (_hn : 1 ≤ n) (_hm : 1 ≤ m) (h1k : k1 < m) (h2k : k2 < m)
    (h1 : srcBin n m k1 = some k) (h2 : srcBin n m k2 = some k) : k1 = k2 := by
  unfold srcBin at h1 h2
  simp only at h1 h2
  split at h1
  · simp at h1
  · rename_i p1 hp1
    split at h2
    · simp at h2
    · rename_i p2 hp2
      unfold shiftedSrc at hp1 hp2
      simp only [Option.some.injEq] at h1 h2
      split_ifs at hp1 hp2 h1 h2 <;> simp at hp1 hp2 <;> omega

/-- a bin is zero-filled exactly when its signed frequency lies outside the input band -/
theorem srcBin_none_iff {n m k' : Nat} (hn : 1 ≤ n) (hm : 1 ≤ m) (hk : k' < m) :
    srcBin n m k' = none ↔
      (fftfreqInt m k' < -((n / 2 : Nat) : Int) ∨ ((n - 1 - n / 2 : Nat) : Int) < fftfreqInt m k') := by
  unfold srcBin shiftedSrc fftfreqInt
  simp only
  split_ifs <;> (try simp) <;> (try split_ifs) <;> first | omega | (simp <;> omega) | simp

theorem srcBin_up_down {n m k : Nat} (hn : 1 ≤ n) (hnm : n ≤ m) (hk : k < n) :
    ∃ k', k' < m ∧ srcBin n m k' = some k ∧ srcBin m n k = some k' := by
  refine ⟨if 2 * k < n + n % 2 then k else k + m - n, ?_, ?_, ?_⟩
  · split_ifs <;> omega
  · unfold srcBin shiftedSrc
    simp only
    split_ifs <;> (try simp) <;> (try split_ifs) <;> first | omega | (simp <;> omega) | simp
  · unfold srcBin shiftedSrc
    simp only
    split_ifs <;> (try simp) <;> (try split_ifs) <;> first | omega | (simp <;> omega) | simp

/-! ### binning -/

/-- the region a bin by `facs` covers: `f * (n / f)` leading entries per axis -/
def coveredShape (shape facs : List Nat) : List Nat := List.zipWith (fun n f => f * (n / f)) shape facs

theorem binSrc_inBox : ∀ {shape facs j t : List Nat}, shape.length = facs.length →
    InBox (binShape shape facs) j → InBox facs t → InBox (coveredShape shape facs) (binSrc j facs t)
  | [], [], [], [], _, _, _ => by simp [coveredShape, binSrc, InBox]
  | n :: ns, f :: fs, i :: j, t :: ts, hl, hj, ht => by
    simp only [binShape, List.zipWith_cons_cons, InBox] at hj
    simp only [InBox] at ht
    simp only [coveredShape, List.zipWith_cons_cons, binSrc, InBox]
    refine ⟨?_, binSrc_inBox (by simpa using hl) hj.2 ht.2⟩
    have h1 : (i + 1) * f ≤ (n / f) * f := Nat.mul_le_mul_right f hj.1
    rw [Nat.add_mul] at h1
    rw [Nat.mul_comm f (n / f)]
    omega
  | [], _ :: _, _, _, hl, _, _ => by simp at hl
  | _ :: _, [], _, _, hl, _, _ => by simp at hl
  | _ :: _, _ :: _, [], _, _, hj, _ => by simp [binShape, InBox] at hj
  | _ :: _, _ :: _, _ :: _, [], _, _, ht => by simp [InBox] at ht
  | [], [], _ :: _, _, _, hj, _ => by simp [binShape, InBox] at hj
  | [], [], [], _ :: _, _, _, ht => by simp [InBox] at ht

/-- the covered region lies inside the array and misses less than one block per axis -/
theorem covered_le : ∀ {shape facs : List Nat}, shape.length = facs.length → (∀ f ∈ facs, 0 < f) →
    List.Forall₂ (fun c n => c ≤ n ∧ ∃ f ∈ facs, n < c + f) (coveredShape shape facs) shape
  | [], [], _, _ => by simp [coveredShape]
  | n :: ns, f :: fs, hl, hf => by
    simp only [coveredShape, List.zipWith_cons_cons]
    refine List.Forall₂.cons ⟨Nat.mul_div_le n f, f, by simp, ?_⟩ ?_
    · have hfpos : 0 < f := hf f (by simp)
      have := Nat.div_add_mod n f
      have := Nat.mod_lt n hfpos
      omega
    · have := covered_le (shape := ns) (facs := fs) (by simpa using hl) (fun g hg => hf g (by simp [hg]))
      exact this.imp (fun _ _ h => ⟨h.1, h.2.choose, by simp [h.2.choose_spec.1], h.2.choose_spec.2⟩)
  | [], _ :: _, hl, _ => by simp at hl
  | _ :: _, [], hl, _ => by simp at hl

/-- every index of the covered region is read by exactly the block `(i / f, i % f)` -/
theorem binSrc_div_mod : ∀ {shape facs i : List Nat}, shape.length = facs.length → (∀ f ∈ facs, 0 < f) →
    InBox (coveredShape shape facs) i →
    InBox (binShape shape facs) (List.zipWith (· / ·) i facs) ∧ InBox facs (List.zipWith (· % ·) i facs) ∧
      binSrc (List.zipWith (· / ·) i facs) facs (List.zipWith (· % ·) i facs) = i
  | [], [], [], _, _, _ => by simp [binShape, binSrc, InBox]
  | n :: ns, f :: fs, i :: is, hl, hf, hi => by
    simp only [coveredShape, List.zipWith_cons_cons, InBox] at hi
    have hfpos : 0 < f := hf f (by simp)
    have ih := binSrc_div_mod (shape := ns) (facs := fs) (i := is) (by simpa using hl)
      (fun g hg => hf g (by simp [hg])) hi.2
    simp only [binShape, List.zipWith_cons_cons, InBox, binSrc]
    refine ⟨⟨?_, ih.1⟩, ⟨Nat.mod_lt i hfpos, ih.2.1⟩, ?_⟩
    · rw [Nat.div_lt_iff_lt_mul hfpos, Nat.mul_comm]; exact hi.1
    · rw [ih.2.2, Nat.div_add_mod']
  | [], _ :: _, _, hl, _, _ => by simp at hl
  | _ :: _, [], _, hl, _, _ => by simp at hl
  | [], [], _ :: _, _, _, hi => by simp [coveredShape, InBox] at hi
  | _ :: _, _ :: _, [], _, _, hi => by simp [coveredShape, InBox] at hi

/-- different (block, offset) pairs read different pixels -/
theorem binSrc_inj : ∀ {facs j t j' t' : List Nat}, InBox facs t → InBox facs t' →
    j.length = facs.length → j'.length = facs.length →
    binSrc j facs t = binSrc j' facs t' → j = j' ∧ t = t'
  | [], [], [], [], [], _, _, _, _, _ => ⟨rfl, rfl⟩
  | f :: fs, i :: j, t :: ts, i' :: j', t' :: ts', ht, ht', hl, hl', h => by
    simp only [InBox] at ht ht'
    simp only [binSrc, List.cons.injEq] at h
    have ih := binSrc_inj ht.2 ht'.2 (by simpa using hl) (by simpa using hl') h.2
    have h1 : (i * f + t) / f = (i' * f + t') / f := by rw [h.1]
    have h2 : (i * f + t) % f = (i' * f + t') % f := by rw [h.1]
    have hfpos : 0 < f := by omega
    rw [Nat.mul_comm i f, Nat.mul_comm i' f, Nat.mul_add_div hfpos, Nat.mul_add_div hfpos,
      Nat.div_eq_of_lt ht.1, Nat.div_eq_of_lt ht'.1] at h1
    rw [Nat.mul_comm i f, Nat.mul_comm i' f, Nat.mul_add_mod, Nat.mul_add_mod,
      Nat.mod_eq_of_lt ht.1, Nat.mod_eq_of_lt ht'.1] at h2
    simp at h1
    subst h1 h2
    exact ⟨by rw [ih.1], by rw [ih.2]⟩
  | [], _ :: _, _, _, _, _, _, hl, _, _ => by simp at hl
  | [], [], _ :: _, _, _, ht, _, _, _, _ => by simp [InBox] at ht
  | [], [], [], _ :: _, _, _, _, _, hl', _ => by simp at hl'
  | [], [], [], [], _ :: _, _, ht', _, _, _ => by simp [InBox] at ht'
  | _ :: _, [], _, _, _, _, _, hl, _, _ => by simp at hl
  | _ :: _, _ :: _, [], _, _, ht, _, _, _, _ => by simp [InBox] at ht
  | _ :: _, _ :: _, _ :: _, [], _, _, _, _, hl', _ => by simp at hl'
  | _ :: _, _ :: _, _ :: _, _ :: _, [], _, ht', _, _, _ => by simp [InBox] at ht'

/-- mean coordinate of the `f` pixels of block `j` -/
theorem block_mean_coord (o s : Rat) (f : Nat) (hf : 0 < f) (j : Nat) :
    (∑ i ∈ Finset.range f, (o + (((j * f + i : Nat) : Rat)) * s)) / (f : Rat)
      = o + ((j : Rat) * f + ((f : Rat) - 1) / 2) * s := by
  have hsum : ∀ g : Nat, (∑ i ∈ Finset.range g, (o + (((j * f + i : Nat) : Rat)) * s))
      = (g : Rat) * o + ((g : Rat) * ((j : Rat) * f) + (g : Rat) * ((g : Rat) - 1) / 2) * s := by
    intro g
    induction g with
    | zero => simp
    | succ g ih =>
      rw [Finset.sum_range_succ, ih]
      push_cast
      ring
  rw [hsum f]
  have : (f : Rat) ≠ 0 := by exact_mod_cast Nat.pos_iff_ne_zero.mp hf
  field_simp

/-! ### padding / cropping -/

theorem padWidths_sum (out : Int) (n : Nat) :
    ((padWidths out n).1 + (padWidths out n).2 : Nat) = (out - n).toNat ∧
      (padWidths out n).1 ≤ (padWidths out n).2 ∧ (padWidths out n).2 ≤ (padWidths out n).1 + 1 := by
  unfold padWidths
  simp only
  omega

/-- the slice `Dataset.crop` builds from `(before, -after)` selects exactly the original
positions of an axis padded by `(before, after)` — including `after = 0`, where `-0 = 0` is
mapped to `None` -/
theorem crop_slice_of_pad (b n e : Nat) :
    sliceIndices (b + n + e) (some (b : Int)) (if (-(e : Int)) ≠ 0 then some (-(e : Int)) else none) none
      = some ((b : Int), 1, n) := by
  unfold sliceIndices
  by_cases he : e = 0
  · subst he
    simp
    constructor
    · omega
    · split_ifs <;> omega
  · have hne : (-(e : Int)) ≠ 0 := by omega
    simp only [hne, ne_eq, not_false_eq_true, if_true]
    simp
    constructor
    · omega
    · split_ifs <;> omega


/-! ### N-D: pad then crop, arrays as builds of their accessor -/

theorem range_blocks (n P : Nat) :
    (List.range n).flatMap (fun i => (List.range P).map (fun q => i * P + q)) = List.range (n * P) := by
  induction n with
  | zero => simp
  | succ k ih =>
    rw [List.range_succ, List.flatMap_append, ih, Nat.succ_mul, List.range_add]
    simp

theorem map_ravel_allIdx : ∀ s : List Nat, (allIdx s).map (ravel s) = List.range (prod s)
  | [] => by simp [allIdx, ravel, prod]
  | n :: r => by
    have ih := map_ravel_allIdx r
    simp only [allIdx, prod, List.map_flatMap, List.map_map]
    rw [← range_blocks n (prod r)]
    congr 1
    funext i
    have : (ravel (n :: r) ∘ fun x => i :: x) = (fun q => i * prod r + q) ∘ ravel r := by
      funext x; simp [ravel]
    rw [this, ← List.map_map, ih]

/-- a well-formed array is the `build` of its own accessor -/
theorem build_get_self {α : Type} [Inhabited α] (a : Arr α) (h : a.data.length = prod a.shape) :
    build a.shape a.get = a := by
  cases a with
  | mk shape data =>
    simp only [build, Arr.get] at *
    congr 1
    have : (allIdx shape).map (fun j => data.getD (ravel shape j) default)
        = ((allIdx shape).map (ravel shape)).map (fun k => data.getD k default) := by
      rw [List.map_map]; rfl
    have e0 : (⟨shape, data⟩ : Arr α).get = fun j => data.getD (ravel shape j) default := by
      funext j; rfl
    rw [e0, this, map_ravel_allIdx, ← h]
    apply List.ext_getElem?
    intro i
    simp only [List.getElem?_map, List.getElem?_range]
    by_cases hi : i < data.length
    · simp [hi, List.getD_eq_getElem?_getD]
    · simp [hi]

theorem build_congr {α : Type} (s : List Nat) (f g : List Nat → α) (h : ∀ j, InBox s j → f j = g j) :
    build s f = build s g := by
  unfold build
  congr 1
  apply List.map_congr_left
  intro j hj
  exact h j (mem_allIdx.mp hj)

theorem idxOf_range {L ax : Nat} (h : ax < L) : (List.range L).idxOf ax = ax := by
  have := (List.nodup_range (n := L)).idxOf_getElem ax (by simpa using h)
  simpa using this

/-- with the identity axis order, `srcIdx` reads axis by axis -/
theorem srcIdx_range (sels : List Sel) (j : List Nat) (hj : j.length = sels.length) :
    srcIdx sels (List.range sels.length) j = List.zipWith Sel.at sels j := by
  unfold srcIdx
  apply List.ext_getElem
  · simp [hj]
  · intro i h1 h2
    have hi : i < sels.length := by simpa using h1
    simp only [List.getElem_map, List.getElem_range, List.getElem_zipWith]
    rw [idxOf_range hi]
    simp [List.getD_eq_getElem?_getD, hi, hj ▸ hi]

/-- the explicit plan of `crop(((before, -after), …))` on an array padded by `w` (what `plan`
computes from `cropItems`, axis by axis, by `crop_slice_of_pad`) -/
def padCropPlan (shape : List Nat) (w : List (Nat × Nat)) : Plan :=
  ⟨List.replicate shape.length Item.full,
   List.zipWith (fun n (p : Nat × Nat) => Sel.rng (p.1 : Int) 1 n) shape w,
   List.range shape.length⟩

theorem padCrop_zip : ∀ (shape : List Nat) (w : List (Nat × Nat)) (j : List Nat),
    w.length = shape.length → InBox shape j →
    InBox (padShape shape w)
      (List.zipWith Sel.at (List.zipWith (fun n (p : Nat × Nat) => Sel.rng (p.1 : Int) 1 n) shape w) j) ∧
    padSrc shape w
      (List.zipWith Sel.at (List.zipWith (fun n (p : Nat × Nat) => Sel.rng (p.1 : Int) 1 n) shape w) j) = some j
  | [], [], [], _, _ => by simp [padShape, InBox, padSrc]
  | n :: ns, (b, e) :: ws, i :: j, hl, hj => by
    simp only [InBox] at hj
    have ih := padCrop_zip ns ws j (by simpa using hl) hj.2
    have hat : (Sel.rng (b : Int) 1 n).at i = b + i := by simp only [Sel.at]; omega
    simp only [List.zipWith_cons_cons, padShape, InBox, padSrc, hat]
    refine ⟨⟨by omega, ih.1⟩, ?_⟩
    rw [if_pos (by omega)]
    rw [ih.2]
    simp
  | [], _ :: _, _, hl, _ => by simp at hl
  | _ :: _, [], _, hl, _ => by simp at hl
  | [], [], _ :: _, _, hj => by simp [InBox] at hj
  | _ :: _, _ :: _, [], _, hj => by simp [InBox] at hj

/-- **pad then crop the pad widths = identity (N-D)** -/
theorem pad_crop_nd {α : Type} [Inhabited α] (z : α) (a : Arr α) (w : List (Nat × Nat))
    (hw : w.length = a.shape.length) (ha : a.data.length = prod a.shape) :
    applyPlan (padNd z a w) (padCropPlan a.shape w) = a := by
  have hsl : (padCropPlan a.shape w).sels.length = a.shape.length := by simp [padCropPlan, hw]
  have hshape : (padCropPlan a.shape w).shape = a.shape := by
    unfold Plan.shape padCropPlan
    simp only
    apply List.ext_getElem
    · simp
    · intro i h1 h2
      have hi : i < a.shape.length := h2
      have hiw : i < w.length := hw ▸ hi
      simp [List.getD_eq_getElem?_getD, hi, hiw, Sel.len]
  unfold applyPlan
  rw [hshape]
  have key : ∀ j, InBox a.shape j →
      (padNd z a w).get (srcIdx (padCropPlan a.shape w).sels (padCropPlan a.shape w).order j) = a.get j := by
    intro j hj
    have hjl : j.length = (padCropPlan a.shape w).sels.length := by rw [hsl]; exact hj.length_eq
    have horder : (padCropPlan a.shape w).order = List.range (padCropPlan a.shape w).sels.length := by
      rw [hsl]; rfl
    rw [horder, srcIdx_range _ _ hjl]
    obtain ⟨h1, h2⟩ := padCrop_zip a.shape w j hw hj
    unfold padNd
    have hs : (padCropPlan a.shape w).sels
        = List.zipWith (fun n (p : Nat × Nat) => Sel.rng (p.1 : Int) 1 n) a.shape w := rfl
    rw [hs, build_get _ _ h1, h2]
  rw [build_congr _ _ _ key]
  exact build_get_self a ha

/-! ### what `plan` makes of the crop that undoes a pad -/

theorem mapMExcept_ok {β γ : Type} (f : β → Except Err γ) (g : β → γ) :
    ∀ l : List β, (∀ x ∈ l, f x = .ok (g x)) → mapMExcept f l = .ok (l.map g)
  | [], _ => rfl
  | x :: t, h => by
    simp only [mapMExcept, h x (by simp), mapMExcept_ok f g t (fun y hy => h y (by simp [hy]))]
    rfl

theorem dictSet_fresh {β : Type} : ∀ (d : List (Int × β)) (k : Int) (v : β),
    (∀ p ∈ d, p.1 ≠ k) → dictSet d k v = d ++ [(k, v)]
  | [], _, _, _ => rfl
  | (k', v') :: r, k, v, h => by
    have h1 : k' ≠ k := h (k', v') (by simp)
    simp only [dictSet, if_neg h1, List.cons_append]
    rw [dictSet_fresh r k v (fun p hp => h p (by simp [hp]))]

theorem dictZip_fold {β : Type} : ∀ (keys : List Int) (vals : List β) (acc : List (Int × β)),
    keys.Nodup → (∀ k ∈ keys, ∀ p ∈ acc, p.1 ≠ k) →
    (keys.zip vals).foldl (fun d (p : Int × β) => dictSet d p.1 p.2) acc = acc ++ keys.zip vals
  | [], _, acc, _, _ => by simp
  | _ :: _, [], acc, _, _ => by simp
  | k :: ks, v :: vs, acc, hn, hacc => by
    simp only [List.zip_cons_cons, List.foldl_cons]
    rw [dictSet_fresh acc k v (fun p hp => hacc k (by simp) p hp)]
    have hn' := List.nodup_cons.mp hn
    rw [dictZip_fold ks vs (acc ++ [(k, v)]) hn'.2 ?_]
    · simp
    · intro k2 hk2 p hp
      simp only [List.mem_append, List.mem_singleton] at hp
      rcases hp with hp | hp
      · exact hacc k2 (by simp [hk2]) p hp
      · subst hp
        simp only
        intro heq; subst heq
        exact hn'.1 hk2

theorem dictZip_eq_zip {β : Type} (keys : List Int) (vals : List β) (hn : keys.Nodup) :
    dictZip keys vals = keys.zip vals := by
  unfold dictZip
  rw [dictZip_fold keys vals [] hn (by simp)]
  simp

theorem dictGet_zip {β : Type} : ∀ (keys : List Int) (vals : List β) (i : Nat), keys.Nodup →
    (hk : i < keys.length) → (hv : i < vals.length) → dictGet (keys.zip vals) keys[i] = some vals[i]
  | k :: ks, v :: vs, 0, _, _, _ => by simp [dictGet]
  | k :: ks, v :: vs, i + 1, hn, hk, hv => by
    have hn' := List.nodup_cons.mp hn
    simp only [List.zip_cons_cons, dictGet, List.getElem_cons_succ]
    have hne : k ≠ ks[i]'(by simpa using hk) := by
      intro heq
      exact hn'.1 (heq ▸ List.getElem_mem _)
    rw [if_neg hne]
    exact dictGet_zip ks vs i hn'.2 _ _
  | [], _, _, _, hk, _ => by simp at hk
  | _ :: _, [], _, _, _, hv => by simp at hv

/-- the slice `Dataset.crop` builds for crop width `(before, -after)` -/
def cropSlice (p : Nat × Nat) : Item :=
  Item.slice (some (p.1 : Int)) (if (-(p.2 : Int)) ≠ 0 then some (-(p.2 : Int)) else none) none

/-- `crop_widths = ((before, -after), …)` for pad widths `w`, on all axes -/
def cropIxOfPad (w : List (Nat × Nat)) : List Item :=
  cropItems w.length (dictZip ((List.range w.length).map Int.ofNat)
    (w.map fun p => ((p.1 : Int), -(p.2 : Int))))

theorem cropIxOfPad_eq (w : List (Nat × Nat)) : cropIxOfPad w = w.map cropSlice := by
  unfold cropIxOfPad cropItems
  have hn : ((List.range w.length).map Int.ofNat).Nodup :=
    List.Nodup.map (fun a b h => by simpa using h) List.nodup_range
  rw [dictZip_eq_zip _ _ hn]
  apply List.ext_getElem
  · simp
  · intro i h1 h2
    have hi : i < w.length := by simpa using h2
    simp only [List.getElem_map, List.getElem_range]
    have := dictGet_zip ((List.range w.length).map Int.ofNat)
      (w.map fun p => ((p.1 : Int), -(p.2 : Int))) i hn (by simpa using hi) (by simpa using hi)
    simp only [List.getElem_map, List.getElem_range] at this
    rw [this]
    rfl

theorem selOf_cropSlice (b n e : Nat) : selOf (b + n + e) (cropSlice (b, e)) = .ok (Sel.rng (b : Int) 1 n) := by
  unfold selOf cropSlice
  simp only
  rw [crop_slice_of_pad b n e]

theorem keptAxes_all (its : List Item) (h : ∀ it ∈ its, it.isInt = false) :
    keptAxes its = List.range its.length := by
  unfold keptAxes
  rw [List.filter_eq_self]
  intro a ha
  have ha' : a < its.length := by simpa using ha
  have : its.getD a default ∈ its := by
    rw [List.getD_eq_getElem?_getD, List.getElem?_eq_getElem ha']
    exact List.getElem_mem _
  simpa [List.getD_eq_getElem?_getD] using h _ this

theorem listAxes_none (its : List Item) (h : ∀ it ∈ its, it.isList = false) : listAxes its = [] := by
  unfold listAxes
  rw [List.filter_eq_nil_iff]
  intro a ha
  have ha' : a < its.length := by simpa using ha
  have : its.getD a default ∈ its := by
    rw [List.getD_eq_getElem?_getD, List.getElem?_eq_getElem ha']
    exact List.getElem_mem _
  simpa [List.getD_eq_getElem?_getD] using h _ this

/-- **what `plan` makes of cropping the pad widths**: on the padded shape, the index expression
`Dataset.crop` builds from `((before, -after), …)` normalises to exactly the explicit plan of
`pad_crop` (selections `start = before, step = 1, length = n`, identity axis order). -/
theorem plan_crop_of_pad (shape : List Nat) (w : List (Nat × Nat)) (hw : w.length = shape.length) :
    plan (padShape shape w) (cropIxOfPad w)
      = .ok ⟨w.map cropSlice, (padCropPlan shape w).sels, (padCropPlan shape w).order⟩ := by
  rw [cropIxOfPad_eq]
  have hslice : ∀ it ∈ w.map cropSlice, it.isInt = false ∧ it.isList = false ∧ it.isEllipsis = false := by
    intro it hit
    simp only [List.mem_map] at hit
    obtain ⟨p, _, rfl⟩ := hit
    simp [cropSlice, Item.isInt, Item.isList, Item.isEllipsis]
  have hpl : (padShape shape w).length = shape.length := by simp [padShape, hw]
  -- expandItems is the identity here
  have hexp : expandItems (padShape shape w).length (w.map cropSlice) = .ok (w.map cropSlice) := by
    unfold expandItems
    have hf : (w.map cropSlice).filter Item.isEllipsis = [] := by
      rw [List.filter_eq_nil_iff]; intro a ha; simp [(hslice a ha).2.2]
    simp [hf, hpl, hw]
  -- every selector is the slice of `crop_slice_of_pad`
  have hsel : ∀ x ∈ (padShape shape w).zip (w.map cropSlice),
      selOf x.1 x.2 = .ok ((fun (x : Nat × Item) => match selOf x.1 x.2 with
        | .ok s => s | .error _ => default) x) ∧ selOfBasic x.1 x.2 = selOf x.1 x.2 := by
    intro x hx
    obtain ⟨i, hi, rfl⟩ := List.mem_iff_getElem.mp hx
    have hi1 : i < shape.length := by simp [padShape, hw] at hi; omega
    have hi2 : i < w.length := hw ▸ hi1
    simp only [List.getElem_zip, List.getElem_map, padShape, List.getElem_zipWith]
    have := selOf_cropSlice (w[i]).1 shape[i] (w[i]).2
    have e1 : ((w[i]).1 + shape[i] + (w[i]).2) = (w[i]).1 + shape[i] + (w[i]).2 := rfl
    constructor
    · rw [show (w[i]) = ((w[i]).1, (w[i]).2) from rfl] at *
      simp only [this]
    · rfl
  have hsel2 : ∀ x ∈ (padShape shape w).zip (w.map cropSlice), ∀ u, selOf2 u x.1 x.2 = selOf x.1 x.2 := by
    intro x hx u
    have hx2 := (List.of_mem_zip hx).2
    simp only [List.mem_map] at hx2
    obtain ⟨p, _, hp⟩ := hx2
    rw [← hp]; rfl
  unfold plan
  rw [hexp]
  simp only
  rw [mapMExcept_ok (fun (p : Nat × Item) => selOfBasic p.1 p.2) _ _ (fun x hx => by rw [(hsel x hx).2]; exact (hsel x hx).1)]
  simp only
  rw [mapMExcept_ok (fun (p : Nat × Item) => selOf2 _ p.1 p.2) _ _ (fun x hx => by rw [hsel2 x hx]; exact (hsel x hx).1)]
  simp only
  -- the selectors, as a list
  have hsels : ((padShape shape w).zip (w.map cropSlice)).map (fun (x : Nat × Item) =>
      match selOf x.1 x.2 with | .ok s => s | .error _ => default) = (padCropPlan shape w).sels := by
    apply List.ext_getElem
    · simp [padCropPlan, padShape, hw]
    · intro i h1 h2
      have hi1 : i < shape.length := by simp [padCropPlan, hw] at h2; omega
      have hi2 : i < w.length := hw ▸ hi1
      simp only [List.getElem_map, List.getElem_zip, padShape, List.getElem_zipWith, padCropPlan]
      have := selOf_cropSlice (w[i]).1 shape[i] (w[i]).2
      rw [show ((w[i]).1, (w[i]).2) = w[i] from rfl] at this
      rw [this]
  rw [hsels]
  have hl : lstLens (padCropPlan shape w).sels = [] := by
    unfold lstLens padCropPlan
    rw [List.filterMap_eq_nil_iff]
    intro a ha
    simp only [List.mem_iff_getElem, List.getElem_zipWith] at ha
    obtain ⟨i, _, rfl⟩ := ha
    rfl
  rw [hl]
  simp only
  have hord : npOrder (advSeparated (w.map cropSlice)) (w.map cropSlice) = (padCropPlan shape w).order := by
    have hla := listAxes_none (w.map cropSlice) (fun it hit => (hslice it hit).2.1)
    unfold npOrder advSeparated
    rw [hla]
    simp only [Bool.false_eq_true, if_false]
    rw [keptAxes_all _ (fun it hit => (hslice it hit).1)]
    simp [padCropPlan, hw]
  rw [hord]

/-! ### N-D: total of the block sums -/

section Total
variable {α : Type} [AddCommMonoid α]

theorem sum_flatMap_map {β γ : Type} (l : List β) (f : β → List γ) (G : γ → α) :
    ((l.flatMap f).map G).sum = (l.map fun b => ((f b).map G).sum).sum := by
  induction l with
  | nil => simp
  | cons b t ih => simp [List.flatMap_cons, List.map_append, List.sum_append, ih]

theorem sum_allIdx_cons (n : Nat) (r : List Nat) (G : List Nat → α) :
    ((allIdx (n :: r)).map G).sum
      = ((List.range n).map fun i => ((allIdx r).map fun idx => G (i :: idx)).sum).sum := by
  simp only [allIdx]
  rw [sum_flatMap_map]
  simp only [List.map_map]
  rfl

theorem list_sum_comm {β γ : Type} (l : List β) (m : List γ) (F : β → γ → α) :
    (l.map fun a => (m.map fun b => F a b).sum).sum = (m.map fun b => (l.map fun a => F a b).sum).sum := by
  induction l with
  | nil => simp
  | cons a t ih =>
    simp only [List.map_cons, List.sum_cons, ih]
    rw [← List.sum_map_add]

theorem sum_range_blocks (h : Nat → α) (nb f : Nat) :
    ((List.range nb).map fun j => ((List.range f).map fun t => h (j * f + t)).sum).sum
      = ((List.range (f * nb)).map h).sum := by
  induction nb with
  | zero => simp
  | succ k ih =>
    rw [List.range_succ, List.map_append, List.sum_append, ih, Nat.mul_succ, List.range_add,
      List.map_append, List.sum_append]
    simp only [List.map_map, List.map_cons, List.map_nil, List.sum_cons, List.sum_nil, add_zero,
      Nat.mul_comm k f]
    rfl

/-- N-D: the block sums add up to the sum over the covered region -/
theorem sum_bin_blocks : ∀ (shape facs : List Nat), shape.length = facs.length → ∀ (g : List Nat → α),
    ((allIdx (binShape shape facs)).map fun j => ((allIdx facs).map fun t => g (binSrc j facs t)).sum).sum
      = ((allIdx (coveredShape shape facs)).map g).sum
  | [], [], _, g => by simp [binShape, coveredShape, allIdx, binSrc]
  | n :: ns, f :: fs, hl, g => by
    have ih := sum_bin_blocks ns fs (by simpa using hl)
    simp only [binShape, coveredShape, List.zipWith_cons_cons]
    rw [sum_allIdx_cons, sum_allIdx_cons]
    rw [← sum_range_blocks (fun c => ((allIdx (List.zipWith (fun n f => f * (n / f)) ns fs)).map
      fun idx => g (c :: idx)).sum) (n / f) f]
    apply congrArg
    apply List.map_congr_left
    intro j0 _
    -- inner: Σ_{j'} Σ_{t ∈ allIdx (f :: fs)} g (binSrc (j0 :: j') (f :: fs) t)
    have h1 : ∀ j', ((allIdx (f :: fs)).map fun t => g (binSrc (j0 :: j') (f :: fs) t)).sum
        = ((List.range f).map fun t0 => ((allIdx fs).map fun t' =>
            g ((j0 * f + t0) :: binSrc j' fs t')).sum).sum := by
      intro j'
      rw [sum_allIdx_cons]
      simp [binSrc]
    simp only [h1]
    rw [list_sum_comm]
    apply congrArg
    apply List.map_congr_left
    intro t0 _
    exact ih (fun idx => g ((j0 * f + t0) :: idx))
  | [], _ :: _, hl, _ => by simp at hl
  | _ :: _, [], hl, _ => by simp at hl

end Total

end QuantemModel.Resample
