import QuantemModel.Model.Resample
import QuantemModel.Lemmas.NdIndex
import Mathlib.Tactic.SplitIfs
import Mathlib.Tactic.Ring
import Mathlib.Tactic.FieldSimp
import Mathlib.Algebra.BigOperators.Group.Finset.Basic
import Mathlib.Algebra.Order.Field.Rat
/-! Lemmas for Props/C06.lean, exact part: the frequency index map of `fourier_resample`
(pointwise closed form of fftshift / centred crop-pad / ifftshift), slices that undo a pad. -/
namespace QuantemModel.Resample
open QuantemModel QuantemModel.Dft QuantemModel.Nd

theorem shiftCenter_eq (n : Nat) : shiftCenter n = n / 2 := by
  unfold shiftCenter; split <;> omega

theorem length_fftshift {β : Type} (x : List β) : (fftshift x).length = x.length := by
  unfold fftshift; simp

theorem length_ifftshift {β : Type} (x : List β) : (ifftshift x).length = x.length := by
  unfold ifftshift; simp; omega

theorem getElem?_fftshift {β : Type} (x : List β) (p : Nat) (hp : p < x.length) :
    (fftshift x)[p]? =
      if p < x.length / 2 then x[p + (x.length - x.length / 2)]? else x[p - x.length / 2]? := by
  unfold fftshift
  simp only
  by_cases h : p < x.length / 2
  · rw [if_pos h, List.getElem?_append_left (by simp; omega), List.getElem?_drop]
    congr 1; omega
  · rw [if_neg h, List.getElem?_append_right (by simp; omega), List.getElem?_take]
    simp only [List.length_drop]
    have : p - (x.length - (x.length - x.length / 2)) = p - x.length / 2 := by omega
    rw [this, if_pos (by omega)]

theorem getElem?_ifftshift {β : Type} (y : List β) (q : Nat) (hq : q < y.length) :
    (ifftshift y)[q]? =
      if q < y.length - y.length / 2 then y[q + y.length / 2]? else y[q - (y.length - y.length / 2)]? := by
  unfold ifftshift
  simp only
  by_cases h : q < y.length - y.length / 2
  · rw [if_pos h, List.getElem?_append_left (by simp; omega), List.getElem?_drop]
    congr 1; omega
  · rw [if_neg h, List.getElem?_append_right (by simp; omega), List.getElem?_take]
    simp only [List.length_drop]
    rw [if_pos (by omega)]

theorem length_cropPad {β : Type} (z : β) (n m : Nat) (F : List β) (hF : F.length = n) :
    (cropPad z n m F).length = m := by
  unfold cropPad
  simp only [shiftCenter_eq]
  split
  · simp; omega
  · split
    · simp; omega
    · omega

/-- position in the fftshift-ed input axis read by position `q` of the fftshift-ed output axis -/
def shiftedSrc (n m q : Nat) : Option Nat :=
  if m < n then some (q + (n / 2 - m / 2))
  else if n < m then
    (if q < m / 2 - n / 2 then none else if q < m / 2 - n / 2 + n then some (q - (m / 2 - n / 2)) else none)
  else some q

theorem getElem?_cropPad {β : Type} (z : β) (n m : Nat) (F : List β) (hF : F.length = n) (q : Nat)
    (hq : q < m) :
    (cropPad z n m F)[q]? = match shiftedSrc n m q with
      | some p => F[p]?
      | none => some z := by
  unfold cropPad shiftedSrc
  simp only [shiftCenter_eq]
  by_cases h1 : m < n
  · simp only [if_pos h1]
    rw [List.getElem?_take, if_pos hq, List.getElem?_drop]
    congr 1; omega
  · simp only [if_neg h1]
    by_cases h2 : n < m
    · simp only [if_pos h2]
      by_cases h3 : q < m / 2 - n / 2
      · simp only [if_pos h3]
        rw [List.append_assoc, List.getElem?_append_left (by simpa using h3)]
        simp [h3]
      · simp only [if_neg h3]
        rw [List.append_assoc, List.getElem?_append_right (by simp; omega)]
        simp only [List.length_replicate]
        by_cases h4 : q < m / 2 - n / 2 + n
        · simp only [if_pos h4]
          rw [List.getElem?_append_left (by omega)]
        · simp only [if_neg h4]
          rw [List.getElem?_append_right (by omega)]
          rw [List.getElem?_replicate, if_pos (by omega)]
    · simp only [if_neg h2]

/-- closed form of the frequency index map: the input bin (NumPy order) whose coefficient
output bin `k'` receives, `none` for a zero-filled bin -/
def srcBin (n m k' : Nat) : Option Nat :=
  let q := if k' < m - m / 2 then k' + m / 2 else k' - (m - m / 2)
  match shiftedSrc n m q with
  | none => none
  | some p => some (if p < n / 2 then p + (n - n / 2) else p - n / 2)

theorem shiftedSrc_lt {n m q p : Nat} (hq : q < m) (h : shiftedSrc n m q = some p) : p < n := by
  unfold shiftedSrc at h
  split at h
  · simp at h; omega
  · split at h
    · split at h
      · simp at h
      · split at h
        · simp at h; omega
        · simp at h
    · simp at h; omega

theorem srcBin_lt {n m k' k : Nat} (hk : k' < m) (h : srcBin n m k' = some k) : k < n := by
  unfold srcBin at h
  simp only at h
  split at h
  · simp at h
  · rename_i p hp
    have hq : (if k' < m - m / 2 then k' + m / 2 else k' - (m - m / 2)) < m := by split <;> omega
    have := shiftedSrc_lt hq hp
    simp at h
    split at h <;> omega

/-- pointwise description of `ifftshift ∘ cropPad ∘ fftshift` on any list (data or bin numbers) -/
theorem getElem?_spectrumMap {β : Type} (z : β) (n m : Nat) (F : List β) (hF : F.length = n)
    (k' : Nat) (hk : k' < m) :
    (spectrumMap z n m F)[k']? = match srcBin n m k' with
      | some k => F[k]?
      | none => some z := by
  unfold spectrumMap
  have hl : (cropPad z n m (fftshift F)).length = m :=
    length_cropPad z n m _ (by rw [length_fftshift, hF])
  rw [getElem?_ifftshift _ _ (by rw [hl]; exact hk), hl]
  unfold srcBin
  simp only
  have hq : (if k' < m - m / 2 then k' + m / 2 else k' - (m - m / 2)) < m := by split <;> omega
  have key : ∀ q, q < m → (cropPad z n m (fftshift F))[q]? = match shiftedSrc n m q with
      | none => some z
      | some p => F[if p < n / 2 then p + (n - n / 2) else p - n / 2]? := by
    intro q hq
    rw [getElem?_cropPad z n m _ (by rw [length_fftshift, hF]) q hq]
    cases hs : shiftedSrc n m q with
    | none => rfl
    | some p =>
      simp only
      have hp := shiftedSrc_lt hq hs
      rw [getElem?_fftshift _ _ (by rw [hF]; exact hp), hF]
      split <;> rfl
  by_cases h : k' < m - m / 2
  · simp only [if_pos h]
    rw [key _ (by omega)]
    cases shiftedSrc n m (k' + m / 2) <;> rfl
  · simp only [if_neg h]
    rw [key _ (by omega)]
    cases shiftedSrc n m (k' - (m - m / 2)) <;> rfl

theorem length_spectrumMap {β : Type} (z : β) (n m : Nat) (F : List β) (hF : F.length = n) :
    (spectrumMap z n m F).length = m := by
  unfold spectrumMap
  rw [length_ifftshift, length_cropPad z n m _ (by rw [length_fftshift, hF])]

theorem length_freqMap (n m : Nat) : (freqMap n m).length = m :=
  length_spectrumMap _ _ _ _ (by simp)

/-- the executable index map equals the closed form -/
theorem getElem?_freqMap (n m k' : Nat) (hk : k' < m) : (freqMap n m)[k']? = some (srcBin n m k') := by
  unfold freqMap
  rw [getElem?_spectrumMap none n m _ (by simp) k' hk]
  cases h : srcBin n m k' with
  | none => rfl
  | some k =>
    have := srcBin_lt hk h
    simp [this]


/-! ### arithmetic facts about the closed form (all by case split + linear arithmetic) -/

theorem srcBin_freq {n m k' k : Nat} (_hn : 1 ≤ n) (_hm : 1 ≤ m) (hk : k' < m)
    (h : srcBin n m k' = some k) : fftfreqInt n k = fftfreqInt m k' := by
  unfold srcBin at h
  simp only at h
  split at h
  · simp at h
  · rename_i p hp
    unfold shiftedSrc at hp
    unfold fftfreqInt
    simp only [Option.some.injEq] at h
    split_ifs at hp h ⊢ <;> simp at hp <;> omega

theorem srcBin_self {n k : Nat} (hk : k < n) : srcBin n n k = some k := by
  unfold srcBin shiftedSrc
  simp only [Nat.lt_irrefl, if_false]
  congr 1
  split_ifs <;> omega

theorem srcBin_dc {n m : Nat} (hn : 1 ≤ n) (hm : 1 ≤ m) : srcBin n m 0 = some 0 := by
  unfold srcBin shiftedSrc
  simp only
  split_ifs <;> (try simp) <;> (try split_ifs) <;> first | omega | (simp <;> omega) | simp

theorem srcBin_inj {n m k1 k2 k : Nat} (_hn : 1 ≤ n) (_hm : 1 ≤ m) (h1k : k1 < m) (h2k : k2 < m)
    (h1 : srcBin n m k1 = some k) (h2 : srcBin n m k2 = some k) : k1 = k2 := by
  unfold srcBin at h1 h2
  simp only at h1 h2
  split at h1
  · simp at h1
  · rename_i p1 hp1
    split at h2
    · simp at h2
    · rename_i p2 hp2
      unfold shiftedSrc at hp1 hp2
      simp only [Option.some.injEq] at h1 h2
      split_ifs at hp1 hp2 h1 h2 <;> simp at hp1 hp2 <;> omega

/-- a bin is zero-filled exactly when its signed frequency lies outside the input band -/
theorem srcBin_none_iff {n m k' : Nat} (hn : 1 ≤ n) (hm : 1 ≤ m) (hk : k' < m) :
    srcBin n m k' = none ↔
      (fftfreqInt m k' < -((n / 2 : Nat) : Int) ∨ ((n - 1 - n / 2 : Nat) : Int) < fftfreqInt m k') := by
  unfold srcBin shiftedSrc fftfreqInt
  simp only
  split_ifs <;> (try simp) <;> (try split_ifs) <;> first | omega | (simp <;> omega) | simp

theorem srcBin_up_down {n m k : Nat} (hn : 1 ≤ n) (hnm : n ≤ m) (hk : k < n) :
    ∃ k', k' < m ∧ srcBin n m k' = some k ∧ srcBin m n k = some k' := by
  refine ⟨if 2 * k < n + n % 2 then k else k + m - n, ?_, ?_, ?_⟩
  · split_ifs <;> omega
  · unfold srcBin shiftedSrc
    simp only
    split_ifs <;> (try simp) <;> (try split_ifs) <;> first | omega | (simp <;> omega) | simp
  · unfold srcBin shiftedSrc
    simp only
    split_ifs <;> (try simp) <;> (try split_ifs) <;> first | omega | (simp <;> omega) | simp

/-! ### binning -/

/-- the region a bin by `facs` covers: `f * (n / f)` leading entries per axis -/
def coveredShape (shape facs : List Nat) : List Nat := List.zipWith (fun n f => f * (n / f)) shape facs

theorem binSrc_inBox : ∀ {shape facs j t : List Nat}, shape.length = facs.length →
    InBox (binShape shape facs) j → InBox facs t → InBox (coveredShape shape facs) (binSrc j facs t)
  | [], [], [], [], _, _, _ => by simp [coveredShape, binSrc, InBox]
  | n :: ns, f :: fs, i :: j, t :: ts, hl, hj, ht => by
    simp only [binShape, List.zipWith_cons_cons, InBox] at hj
    simp only [InBox] at ht
    simp only [coveredShape, List.zipWith_cons_cons, binSrc, InBox]
    refine ⟨?_, binSrc_inBox (by simpa using hl) hj.2 ht.2⟩
    have h1 : (i + 1) * f ≤ (n / f) * f := Nat.mul_le_mul_right f hj.1
    rw [Nat.add_mul] at h1
    rw [Nat.mul_comm f (n / f)]
    omega
  | [], _ :: _, _, _, hl, _, _ => by simp at hl
  | _ :: _, [], _, _, hl, _, _ => by simp at hl
  | _ :: _, _ :: _, [], _, _, hj, _ => by simp [binShape, InBox] at hj
  | _ :: _, _ :: _, _ :: _, [], _, _, ht => by simp [InBox] at ht
  | [], [], _ :: _, _, _, hj, _ => by simp [binShape, InBox] at hj
  | [], [], [], _ :: _, _, _, ht => by simp [InBox] at ht

/-- the covered region lies inside the array and misses less than one block per axis -/
theorem covered_le : ∀ {shape facs : List Nat}, shape.length = facs.length → (∀ f ∈ facs, 0 < f) →
    List.Forall₂ (fun c n => c ≤ n ∧ ∃ f ∈ facs, n < c + f) (coveredShape shape facs) shape
  | [], [], _, _ => by simp [coveredShape]
  | n :: ns, f :: fs, hl, hf => by
    simp only [coveredShape, List.zipWith_cons_cons]
    refine List.Forall₂.cons ⟨Nat.mul_div_le n f, f, by simp, ?_⟩ ?_
    · have hfpos : 0 < f := hf f (by simp)
      have := Nat.div_add_mod n f
      have := Nat.mod_lt n hfpos
      omega
    · have := covered_le (shape := ns) (facs := fs) (by simpa using hl) (fun g hg => hf g (by simp [hg]))
      exact this.imp (fun _ _ h => ⟨h.1, h.2.choose, by simp [h.2.choose_spec.1], h.2.choose_spec.2⟩)
  | [], _ :: _, hl, _ => by simp at hl
  | _ :: _, [], hl, _ => by simp at hl

/-- every index of the covered region is read by exactly the block `(i / f, i % f)` -/
theorem binSrc_div_mod : ∀ {shape facs i : List Nat}, shape.length = facs.length → (∀ f ∈ facs, 0 < f) →
    InBox (coveredShape shape facs) i →
    InBox (binShape shape facs) (List.zipWith (· / ·) i facs) ∧ InBox facs (List.zipWith (· % ·) i facs) ∧
      binSrc (List.zipWith (· / ·) i facs) facs (List.zipWith (· % ·) i facs) = i
  | [], [], [], _, _, _ => by simp [binShape, binSrc, InBox]
  | n :: ns, f :: fs, i :: is, hl, hf, hi => by
    simp only [coveredShape, List.zipWith_cons_cons, InBox] at hi
    have hfpos : 0 < f := hf f (by simp)
    have ih := binSrc_div_mod (shape := ns) (facs := fs) (i := is) (by simpa using hl)
      (fun g hg => hf g (by simp [hg])) hi.2
    simp only [binShape, List.zipWith_cons_cons, InBox, binSrc]
    refine ⟨⟨?_, ih.1⟩, ⟨Nat.mod_lt i hfpos, ih.2.1⟩, ?_⟩
    · rw [Nat.div_lt_iff_lt_mul hfpos, Nat.mul_comm]; exact hi.1
    · rw [ih.2.2, Nat.div_add_mod']
  | [], _ :: _, _, hl, _, _ => by simp at hl
  | _ :: _, [], _, hl, _, _ => by simp at hl
  | [], [], _ :: _, _, _, hi => by simp [coveredShape, InBox] at hi
  | _ :: _, _ :: _, [], _, _, hi => by simp [coveredShape, InBox] at hi

/-- different (block, offset) pairs read different pixels -/
theorem binSrc_inj : ∀ {facs j t j' t' : List Nat}, InBox facs t → InBox facs t' →
    j.length = facs.length → j'.length = facs.length →
    binSrc j facs t = binSrc j' facs t' → j = j' ∧ t = t'
  | [], [], [], [], [], _, _, _, _, _ => ⟨rfl, rfl⟩
  | f :: fs, i :: j, t :: ts, i' :: j', t' :: ts', ht, ht', hl, hl', h => by
    simp only [InBox] at ht ht'
    simp only [binSrc, List.cons.injEq] at h
    have ih := binSrc_inj ht.2 ht'.2 (by simpa using hl) (by simpa using hl') h.2
    have h1 : (i * f + t) / f = (i' * f + t') / f := by rw [h.1]
    have h2 : (i * f + t) % f = (i' * f + t') % f := by rw [h.1]
    have hfpos : 0 < f := by omega
    rw [Nat.mul_comm i f, Nat.mul_comm i' f, Nat.mul_add_div hfpos, Nat.mul_add_div hfpos,
      Nat.div_eq_of_lt ht.1, Nat.div_eq_of_lt ht'.1] at h1
    rw [Nat.mul_comm i f, Nat.mul_comm i' f, Nat.mul_add_mod, Nat.mul_add_mod,
      Nat.mod_eq_of_lt ht.1, Nat.mod_eq_of_lt ht'.1] at h2
    simp at h1
    subst h1 h2
    exact ⟨by rw [ih.1], by rw [ih.2]⟩
  | [], _ :: _, _, _, _, _, _, hl, _, _ => by simp at hl
  | [], [], _ :: _, _, _, ht, _, _, _, _ => by simp [InBox] at ht
  | [], [], [], _ :: _, _, _, _, _, hl', _ => by simp at hl'
  | [], [], [], [], _ :: _, _, ht', _, _, _ => by simp [InBox] at ht'
  | _ :: _, [], _, _, _, _, _, hl, _, _ => by simp at hl
  | _ :: _, _ :: _, [], _, _, ht, _, _, _, _ => by simp [InBox] at ht
  | _ :: _, _ :: _, _ :: _, [], _, _, _, _, hl', _ => by simp at hl'
  | _ :: _, _ :: _, _ :: _, _ :: _, [], _, ht', _, _, _ => by simp [InBox] at ht'

/-- mean coordinate of the `f` pixels of block `j` -/
theorem block_mean_coord (o s : Rat) (f : Nat) (hf : 0 < f) (j : Nat) :
    (∑ i ∈ Finset.range f, (o + (((j * f + i : Nat) : Rat)) * s)) / (f : Rat)
      = o + ((j : Rat) * f + ((f : Rat) - 1) / 2) * s := by
  have hsum : ∀ g : Nat, (∑ i ∈ Finset.range g, (o + (((j * f + i : Nat) : Rat)) * s))
      = (g : Rat) * o + ((g : Rat) * ((j : Rat) * f) + (g : Rat) * ((g : Rat) - 1) / 2) * s := by
    intro g
    induction g with
    | zero => simp
    | succ g ih =>
      rw [Finset.sum_range_succ, ih]
      push_cast
      ring
  rw [hsum f]
  have : (f : Rat) ≠ 0 := by exact_mod_cast Nat.pos_iff_ne_zero.mp hf
  field_simp

/-! ### padding / cropping -/

theorem padWidths_sum (out : Int) (n : Nat) :
    ((padWidths out n).1 + (padWidths out n).2 : Nat) = (out - n).toNat ∧
      (padWidths out n).1 ≤ (padWidths out n).2 ∧ (padWidths out n).2 ≤ (padWidths out n).1 + 1 := by
  unfold padWidths
  simp only
  omega

/-- the slice `Dataset.crop` builds from `(before, -after)` selects exactly the original
positions of an axis padded by `(before, after)` — including `after = 0`, where `-0 = 0` is
mapped to `None` -/
theorem crop_slice_of_pad (b n e : Nat) :
    sliceIndices (b + n + e) (some (b : Int)) (if (-(e : Int)) ≠ 0 then some (-(e : Int)) else none) none
      = some ((b : Int), 1, n) := by
  unfold sliceIndices
  by_cases he : e = 0
  · subst he
    simp
    constructor
    · omega
    · split_ifs <;> omega
  · have hne : (-(e : Int)) ≠ 0 := by omega
    simp only [hne, ne_eq, not_false_eq_true, if_true]
    simp
    constructor
    · omega
    · split_ifs <;> omega

end QuantemModel.Resample
