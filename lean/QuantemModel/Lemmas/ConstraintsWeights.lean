import QuantemModel.Lemmas.GramSchmidt
import Mathlib.Algebra.Order.BigOperators.Group.List
import Mathlib.Tactic.FieldSimp
/-!
`_apply_weights` (Model/Constraints.lean `applyWeights`) at ℝ: real-space mode intensities of the
output, weight normalisation.
-/
namespace QuantemModel.Constraints
open QuantemModel

theorem energy_eq_norm2 (p : Img ℝ) : energy p = norm2 p.flatten := by
  rw [← intensity_eq_norm2]; rfl

theorem energy_nonneg (p : Img ℝ) : 0 ≤ energy p := by
  rw [energy_eq_norm2]; exact norm2_nonneg _

theorem energy_scaleImg (a : ℝ) (p : Img ℝ) : energy (scaleImg a p) = a * a * energy p := by
  rw [energy_eq_norm2, energy_eq_norm2, ← norm2_map_smul]
  congr 1
  simp [scaleImg, List.map_flatten]

theorem zipWith_zipWith_map {α β γ δ ε ζ : Type} (f : δ → ε → ζ) (g : α → γ → δ) (h1 : β → γ)
    (h2 : β → ε) : ∀ (w : List α) (l : List β),
    List.zipWith f (List.zipWith g w (l.map h1)) (l.map h2)
      = List.zipWith (fun a p => f (g a (h1 p)) (h2 p)) w l := by
  intro w
  induction w with
  | nil => intro l; simp
  | cons a w ih =>
    intro l
    cases l with
    | nil => simp
    | cons p l => simp [ih]

theorem zipWith_const_right {α β γ : Type} (f : α → γ) : ∀ (w : List α) (l : List β),
    w.length = l.length → List.zipWith (fun a _ => f a) w l = w.map f := by
  intro w
  induction w with
  | nil => intro l _; simp
  | cons a w ih =>
    intro l h
    cases l with
    | nil => simp at h
    | cons p l => simp [ih l (by simpa using h)]

/-- real-space intensity of every mode after `_apply_weights`, no Parseval needed:
`I_k = w_k · (M / D) · S` with `D` the total diffraction intensity and `S` the total real-space
intensity of the input stack. -/
theorem applyWeights_energy (M : ℝ) (w : List ℝ) (probes : List (Img ℝ))
    (hMD : 0 < M / diffIntensity probes) (hw : ∀ x ∈ w, 0 ≤ x)
    (hE : ∀ p ∈ probes, 0 < energy p) (hlen : w.length = probes.length) :
    (applyWeights M w probes).map energy
      = w.map (· * (M / diffIntensity probes * (probes.map energy).sum)) := by
  unfold applyWeights
  simp only [NumReal.sqrt_eq, NumReal.div_eq, numSum_eq, List.map_map]
  set s := Real.sqrt (M / diffIntensity probes) with hs
  have hss : s * s = M / diffIntensity probes := Real.mul_self_sqrt hMD.le
  rw [List.map_zipWith]
  have e1 : (List.map ((fun x => x / (List.map (energy ∘ scaleImg s) probes).sum) ∘ energy ∘ scaleImg s) probes)
      = probes.map (fun p => energy (scaleImg s p) / (List.map (energy ∘ scaleImg s) probes).sum) := by
    apply List.map_congr_left; intro p _; rfl
  rw [e1, zipWith_zipWith_map]
  have htot : (List.map (energy ∘ scaleImg s) probes).sum = s * s * (probes.map energy).sum := by
    rw [← List.sum_map_mul_left]
    congr 1
    apply List.map_congr_left; intro p _
    simp [energy_scaleImg]
  rw [htot, ← zipWith_const_right (β := Img ℝ) _ w probes hlen]
  apply zipWith_congr_mem
  intro wk hwk p hp
  have hEp := hE p hp
  have hS : energy p ≤ (probes.map energy).sum :=
    List.single_le_sum (fun x hx => by
      simp only [List.mem_map] at hx; obtain ⟨q, _, rfl⟩ := hx; exact energy_nonneg q) _
      (List.mem_map_of_mem hp)
  have hSpos : 0 < (probes.map energy).sum := lt_of_lt_of_le hEp hS
  have hsspos : 0 < s * s := by rw [hss]; exact hMD
  rw [energy_scaleImg, energy_scaleImg]
  have hc : 0 ≤ wk / (s * s * energy p / (s * s * (probes.map energy).sum)) := by
    apply div_nonneg (hw wk hwk)
    positivity
  rw [Real.mul_self_sqrt hc, ← hss]
  field_simp

theorem normWeights_sum (w : List ℝ) (h : Num.sum w ≠ 0) : Num.sum (normWeights w) = 1 := by
  unfold normWeights
  simp only [numSum_eq] at *
  have : (w.map fun x => x / w.sum) = w.map (· * (w.sum)⁻¹) := by
    apply List.map_congr_left; intro x _; simp [div_eq_mul_inv]
  simp only [NumReal.div_eq]
  rw [this, List.sum_map_mul_right]
  simp [h]

theorem defaultWeights_sum (n : Nat) (hn : 1 ≤ n) : Num.sum (defaultWeights n : List ℝ) = 1 := by
  unfold defaultWeights
  rw [numSum_eq, List.sum_cons, List.sum_replicate]
  simp only [NumReal.ofRat_eq, nsmul_eq_mul]
  push_cast
  rw [Nat.cast_sub hn]
  push_cast
  ring

/-- Parseval's identity for the model's unitary 2-D DFT on the images of a stack -/
def ParsevalOn (ps : List (Img ℝ)) : Prop := ∀ p ∈ ps, energy (fft2Ortho p) = energy p

theorem diffIntensity_of_parseval (ps : List (Img ℝ)) (hP : ParsevalOn ps) :
    diffIntensity ps = (ps.map energy).sum := by
  unfold diffIntensity
  rw [numSum_eq]
  congr 1
  exact List.map_congr_left hP


/-- Parseval for the model's `fft2Ortho` on every 1×2 image (used for the non-vacuity example) -/
theorem parseval_1x2 (a b : Cx ℝ) : energy (fft2Ortho [[a, b]]) = energy [[a, b]] := by
  rw [energy_eq_norm2, energy_eq_norm2, norm2_eq, norm2_eq]
  simp [fft2Ortho, Dft.dft2, Dft.dft, Dft.transpose, Dft.twiddle, Cx.sum, Cx.cis, cdivR, cx_add, cx_mul, Cx.zero,
    List.range, List.range.loop]
  have hne : Real.sqrt 2 ≠ 0 := by positivity
  field_simp
  rw [Real.sq_sqrt (by norm_num : (0 : ℝ) ≤ 2)]
  ring

end QuantemModel.Constraints
