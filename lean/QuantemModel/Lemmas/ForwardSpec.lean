import QuantemModel.Lemmas.Forward
/-!
Helper lemmas for Props/C02.lean, part 2: every operation of the reference specification
(`Forward.Spec.*`, centred conventions) is `fftshift2` of the corresponding library operation
(`PtychoOps.*`, corner conventions) applied to `ifftshift2` of its inputs — kernels, window,
translation, propagation, multislice loop (induction on the slices), far field.
All at the real-number instance; every ROI size (even, odd, non-square).
-/
namespace QuantemModel.Forward
open QuantemModel QuantemModel.PtychoOps

variable {nr nc : ℕ}

/-! ### products and transforms -/
theorem mulImg_fftshift2 {a b : Img ℝ} (ha : Rect nr nc a) (hb : Rect nr nc b) :
    mulImg (fftshift2 a) (fftshift2 b) = fftshift2 (mulImg a b) := zipWith2_fftshift2 _ ha hb

theorem mulImg_ifftshift2 {a b : Img ℝ} (ha : Rect nr nc a) (hb : Rect nr nc b) :
    mulImg (ifftshift2 a) (ifftshift2 b) = ifftshift2 (mulImg a b) := zipWith2_ifftshift2 _ ha hb

theorem cfft2_fftshift2 {y : Img ℝ} (hy : Rect nr nc y) : Spec.cfft2 (fftshift2 y) = fftshift2 (Dft.dft2 y) := by
  unfold Spec.cfft2; rw [ifftshift2_fftshift2 hy]

/-- centred propagation = `fftshift2` of the corner-convention propagation -/
theorem spec_propagate (hr : 0 < nr) (hc : 0 < nc) {a K : Img ℝ} (ha : Rect nr nc a) (hK : Rect nr nc K) :
    Spec.propagate (fftshift2 a) (fftshift2 K) = fftshift2 (propagate a K) := by
  unfold Spec.propagate Spec.cifft2
  rw [cfft2_fftshift2 ha, mulImg_fftshift2 (rect_dft2 hr hc ha) hK,
    ifftshift2_fftshift2 (rect_mulImg (rect_dft2 hr hc ha) hK)]
  rfl

theorem nrows_of_rect {β : Type} [Inhabited β] {x : List (List β)} (h : Rect nr nc x) : nrows x = nr := h.1

theorem ncols_of_rect {β : Type} [Inhabited β] (hr : 0 < nr) {x : List (List β)} (h : Rect nr nc x) : ncols x = nc := by
  obtain ⟨g, rfl⟩ := h.exists_build
  exact ncols_build hr nc g

theorem fourierShift_eq_propagate (hr : 0 < nr) {p : Img ℝ} (hp : Rect nr nc p) (r c : ℝ) :
    fourierShift p r c = propagate p (translationOperator nr nc r c) := by
  unfold fourierShift propagate
  rw [nrows_of_rect hp, ncols_of_rect hr hp]

theorem rect_translationOperator (r c : ℝ) : Rect nr nc (translationOperator nr nc r c) := by
  rw [translationOperator_eq]; exact rect_build _ _ _

theorem rect_propagator (sr sc lam dz thr thc : ℝ) : Rect nr nc (propagator nr nc sr sc lam dz thr thc) := by
  rw [propagator_eq]; exact rect_build _ _ _

/-! ### kernels: FFT order ↔ centred order -/
/-- the centred translation transfer function is `fftshift2` of the library's phase ramp -/
theorem translationKernel_eq (sr sc : ℝ) :
    Spec.translationKernel nr nc sr sc = fftshift2 (translationOperator nr nc sr sc) := by
  rw [translationOperator_eq, fftshift2_build]
  show build nr nc _ = _
  apply build_congr
  intro k hk l hl
  unfold rampC Spec.kappa
  rw [fftfreqInt_sh hk, fftfreqInt_sh hl]

theorem isZero_zero : isZero (0 : ℝ) = true := by
  have h : Num.ltb (0 : ℝ) 0 = false := by
    rw [Bool.eq_false_iff]; simp
  simp [isZero, h]

/-- the centred Fresnel transfer function is `fftshift2` of the library's propagator (no tilt) -/
theorem fresnelKernel_eq (dr dc lam dz : ℝ) :
    Spec.fresnelKernel nr nc dr dc lam dz = fftshift2 (propagator nr nc dr dc lam dz 0 0) := by
  rw [propagator_eq, fftshift2_build]
  show build nr nc _ = _
  apply build_congr
  intro k hk l hl
  unfold propC kC Spec.kappa
  simp only [isZero_zero, if_true]
  rw [fftfreqInt_sh hk, fftfreqInt_sh hl]

theorem rect_fresnelKernel (dr dc lam dz : ℝ) : Rect nr nc (Spec.fresnelKernel nr nc dr dc lam dz) := by
  rw [fresnelKernel_eq]; exact rect_fftshift2 (rect_propagator ..)

/-- `_compute_propagator_arrays` (no tilt) = the specification's Fresnel kernels moved to FFT order -/
theorem propagatorArrays_eq_kernels (dr dc e : ℝ) (n : ℕ) (dzs : List ℝ) (h1 : n = 1 → dzs = []) :
    propagatorArrays nr nc dr dc e 0 0 n dzs = (Spec.kernels nr nc dr dc e dzs).map ifftshift2 := by
  unfold propagatorArrays Spec.kernels
  by_cases hn : n = 1
  · simp [hn, h1 hn]
  · have : (n == 1) = false := by simpa using hn
    rw [this]
    simp only [Bool.false_eq_true, if_false, List.map_map]
    apply List.map_congr_left
    intro dz _
    simp only [Function.comp]
    rw [fresnelKernel_eq, ifftshift2_fftshift2 (rect_propagator ..)]

/-! ### object window: FFT-ordered periodic patch indices ↔ natural-order window -/
theorem gatherPatch_eq (t : List (Cx ℝ)) (idx2 : List (List ℕ)) :
    gatherPatch t idx2 = idx2.map fun row => row.map fun i => t.getD i Cx.zero := by
  unfold gatherPatch
  apply List.map_congr_left
  intro row _
  rw [getObjPatches_eq]
  simp [gather]

/-- **fftfreq-ordered patch indices ↔ natural-order window**: gathering the object at the library's
flat patch indices is `ifftshift2` of the natural-order periodic window around `round(position)`,
for every ROI size and every object shape -/
theorem gatherPatch_patchIndices (t : List (Cx ℝ)) (pr pc : ℚ) (R0 R1 H W : ℕ) :
    gatherPatch t (patchIndices2 pr pc R0 R1 H W)
      = ifftshift2 (Spec.window t H W (roundHalfEven pr) (roundHalfEven pc) R0 R1) := by
  rw [gatherPatch_eq]
  show (build R0 R1 _).map _ = ifftshift2 (build R0 R1 _)
  rw [build_map, ifftshift2_build]
  apply build_congr
  intro i hi j hj
  rw [fftfreqInt_eq_ish hi, fftfreqInt_eq_ish hj]
  have e : ∀ (r a b : ℤ), r + (a - b) = r - b + a := fun r a b => by ring
  rw [e, e]

theorem rect_window (t : List (Cx ℝ)) (H W : ℕ) (pr pc : ℤ) (R0 R1 : ℕ) : Rect R0 R1 (Spec.window t H W pr pc R0 R1) :=
  rect_build _ _ _

/-! ### the multislice loop -/
/-- the library's slice loop on the exit wave alone -/
noncomputable def libFold (a : Img ℝ) (pairs : List (Img ℝ × Img ℝ)) : Img ℝ :=
  pairs.foldl (fun a pp => mulImg pp.2 (propagate a pp.1)) a

noncomputable def specFold (a : Img ℝ) (pairs : List (Img ℝ × Img ℝ)) : Img ℝ :=
  pairs.foldl (fun a pp => mulImg pp.2 (Spec.propagate a pp.1)) a

theorem foldl_snd (l : List (Img ℝ × Img ℝ)) (acc : List (Img ℝ) × Img ℝ) :
    (l.foldl (fun acc pp => (acc.1 ++ [propagate acc.2 pp.1], mulImg pp.2 (propagate acc.2 pp.1))) acc).2
      = libFold acc.2 l := by
  induction l generalizing acc with
  | nil => rfl
  | cons pp rest ih =>
    simp only [List.foldl_cons, libFold]
    rw [ih]
    rfl

theorem overlapProjection1_snd (p0 : Img ℝ) (rest props : List (Img ℝ)) (probe : Img ℝ) :
    (overlapProjection1 (p0 :: rest) props probe).2 = libFold (mulImg p0 probe) (List.zip props rest) := by
  unfold overlapProjection1
  exact foldl_snd _ _

theorem exitWave_cons (t : Img ℝ) (ts Ks : List (Img ℝ)) (psi : Img ℝ) :
    Spec.exitWave (t :: ts) Ks psi = specFold (mulImg t psi) (List.zip Ks ts) := by
  induction ts generalizing t Ks psi with
  | nil => simp [Spec.exitWave, specFold]
  | cons t' ts ih =>
    cases Ks with
    | nil => simp [Spec.exitWave, specFold]
    | cons K Ks =>
      rw [Spec.exitWave, ih]
      simp [specFold]

/-- one step / the whole loop: centred loop = `fftshift2` of the corner loop -/
theorem specFold_shift (hr : 0 < nr) (hc : 0 < nc) (l : List (Img ℝ × Img ℝ))
    (hl : ∀ pp ∈ l, Rect nr nc pp.1 ∧ Rect nr nc pp.2) (a : Img ℝ) (ha : Rect nr nc a) :
    specFold (fftshift2 a) (l.map fun pp => (fftshift2 pp.1, fftshift2 pp.2)) = fftshift2 (libFold a l)
      ∧ Rect nr nc (libFold a l) := by
  induction l generalizing a with
  | nil => exact ⟨rfl, ha⟩
  | cons pp rest ih =>
    obtain ⟨hK, ht⟩ := hl pp List.mem_cons_self
    have hprop : Rect nr nc (propagate a pp.1) := rect_propagate hr hc ha hK
    have hnext : Rect nr nc (mulImg pp.2 (propagate a pp.1)) := rect_mulImg ht hprop
    have := ih (fun q hq => hl q (List.mem_cons_of_mem _ hq)) _ hnext
    simp only [List.map_cons, specFold, libFold, List.foldl_cons] at this ⊢
    rw [spec_propagate hr hc ha hK, mulImg_fftshift2 ht hprop]
    exact this

/-- **multislice, any number of slices** (induction): the exit wave of the specification for centred
inputs is `fftshift2` of the library's `overlap_projection` exit wave for the `ifftshift2`-ed inputs -/
theorem exitWave_eq_overlap (hr : 0 < nr) (hc : 0 < nc) (windows kernels : List (Img ℝ)) (psi : Img ℝ)
    (hw : ∀ w ∈ windows, Rect nr nc w) (hk : ∀ K ∈ kernels, Rect nr nc K) (hpsi : Rect nr nc psi) :
    Spec.exitWave windows kernels psi
        = fftshift2 (overlapProjection1 (windows.map ifftshift2) (kernels.map ifftshift2) (ifftshift2 psi)).2
      ∧ Rect nr nc (overlapProjection1 (windows.map ifftshift2) (kernels.map ifftshift2) (ifftshift2 psi)).2 := by
  cases windows with
  | nil =>
    have h := rect_ifftshift2 hpsi
    exact ⟨by simp [Spec.exitWave, overlapProjection1, fftshift2_ifftshift2 hpsi], by simpa [overlapProjection1] using h⟩
  | cons t ts =>
    have ht : Rect nr nc t := hw t List.mem_cons_self
    rw [List.map_cons, overlapProjection1_snd, exitWave_cons, List.zip_map]
    have hl : ∀ pp ∈ (List.zip kernels ts).map (Prod.map ifftshift2 ifftshift2), Rect nr nc pp.1 ∧ Rect nr nc pp.2 := by
      intro pp hpp
      obtain ⟨q, hq, rfl⟩ := List.mem_map.1 hpp
      exact ⟨rect_ifftshift2 (hk _ (List.of_mem_zip hq).1),
        rect_ifftshift2 (hw _ (List.mem_cons_of_mem _ (List.of_mem_zip hq).2))⟩
    have h0 : Rect nr nc (mulImg (ifftshift2 t) (ifftshift2 psi)) := rect_mulImg (rect_ifftshift2 ht) (rect_ifftshift2 hpsi)
    have := specFold_shift hr hc _ hl _ h0
    refine ⟨?_, this.2⟩
    have hid : List.map ((fun pp : Img ℝ × Img ℝ => (fftshift2 pp.1, fftshift2 pp.2)) ∘ Prod.map ifftshift2 ifftshift2)
        (kernels.zip ts) = kernels.zip ts := by
      conv_rhs => rw [← List.map_id (kernels.zip ts)]
      apply List.map_congr_left
      intro q hq
      have h1 := hk _ (List.of_mem_zip hq).1
      have h2 := hw _ (List.mem_cons_of_mem _ (List.of_mem_zip hq).2)
      simp only [Function.comp, Prod.map, id]
      rw [fftshift2_ifftshift2 h1, fftshift2_ifftshift2 h2]
    rw [← this.1, mulImg_ifftshift2 ht hpsi, fftshift2_ifftshift2 (rect_mulImg ht hpsi), List.map_map, hid]

/-- sub-pixel probe placement: the specification's explicit translation of the centred probe is
`fftshift2` of the library's Fourier shift of the corner-centred probe -/
theorem translate_eq_fourierShift (hr : 0 < nr) (hc : 0 < nc) {psi : Img ℝ} (hpsi : Rect nr nc psi) (sr sc : ℝ) :
    Spec.translate psi sr sc = fftshift2 (fourierShift (ifftshift2 psi) sr sc)
      ∧ Rect nr nc (fourierShift (ifftshift2 psi) sr sc) := by
  have hp := rect_ifftshift2 hpsi
  have hT : Rect nr nc (translationOperator nr nc sr sc) := rect_translationOperator sr sc
  refine ⟨?_, ?_⟩
  · unfold Spec.translate
    rw [nrows_of_rect hpsi, ncols_of_rect hr hpsi, translationKernel_eq, fourierShift_eq_propagate hr hp]
    have := spec_propagate hr hc hp hT
    rw [fftshift2_ifftshift2 hpsi] at this
    exact this
  · rw [fourierShift_eq_propagate hr hp]; exact rect_propagate hr hc hp hT

/-! ### far field -/
theorem rect_zipWith2 {β γ δ : Type} [Inhabited β] [Inhabited γ] (f : β → γ → δ)
    {a : List (List β)} {b : List (List γ)} (ha : Rect nr nc a) (hb : Rect nr nc b) :
    Rect nr nc (List.zipWith (List.zipWith f) a b) := by
  obtain ⟨g, rfl⟩ := ha.exists_build
  obtain ⟨h, rfl⟩ := hb.exists_build
  rw [zipWith_build]; exact rect_build _ _ _

theorem sumModes_fftshift2 (xs : List (RImg ℝ)) (hxs : ∀ x ∈ xs, Rect nr nc x) (z : RImg ℝ) (hz : Rect nr nc z) :
    sumModes (fftshift2 z) (xs.map fftshift2) = fftshift2 (sumModes z xs) := by
  induction xs generalizing z with
  | nil => rfl
  | cons x rest ih =>
    have hx := hxs x List.mem_cons_self
    have := ih (fun y hy => hxs y (List.mem_cons_of_mem _ hy)) _ (rect_zipWith2 (· + ·) hz hx)
    unfold sumModes at this ⊢
    simp only [List.map_cons, List.foldl_cons]
    rw [zipWith2_fftshift2 _ hz hx]
    exact this

/-- pixel intensities of one mode: `|fft2_ortho w|²` = `|fft2 w|² / (nr·nc)` -/
theorem modeIntensity_eq (hr : 0 < nr) (hc : 0 < nc) {w : Img ℝ} (hw : Rect nr nc w) :
    modeIntensity w = (Dft.dft2 w).map (·.map fun z => Cx.abs2 z / Num.ofNat (nr * nc)) := by
  obtain ⟨g, rfl⟩ := hw.cx_build
  rw [modeIntensity_build hr hc, dft2_build hr hc, build_map]
  apply build_congr
  intro k _ l _
  rw [abs2_eq]
  simp [dft2C]

theorem zerosLike_fftshift2 {β : Type} (x : List (List β)) :
    (zerosLike (fftshift2 x) : RImg ℝ) = fftshift2 (zerosLike x) := by
  unfold zerosLike
  rw [fftshift2_map]

/-- **fftshift of the intensities ↔ centred detector**: the specification's far field of centred exit
waves is the library's `DetectorPixelated.forward` of the corner-convention exit waves -/
theorem farField_eq_detector (hr : 0 < nr) (hc : 0 < nc) (ws : List (Img ℝ)) (hws : ∀ w ∈ ws, Rect nr nc w) :
    Spec.farField nr nc (ws.map fftshift2) = detector ws := by
  unfold Spec.farField detector intensitiesCorner
  have hmodes : (ws.map fftshift2).map (fun w => (Spec.cfft2 w).map (·.map fun z => Cx.abs2 z / Num.ofNat (nr * nc)))
      = (ws.map modeIntensity).map fftshift2 := by
    rw [List.map_map, List.map_map]
    apply List.map_congr_left
    intro w hw
    simp only [Function.comp]
    rw [cfft2_fftshift2 (hws w hw), ← fftshift2_map, modeIntensity_eq hr hc (hws w hw)]
  rw [hmodes]
  cases ws with
  | nil => rfl
  | cons w rest =>
    have hw := hws w List.mem_cons_self
    simp only [List.map_cons, List.headD_cons]
    rw [zerosLike_fftshift2]
    have hz : Rect nr nc (zerosLike w : RImg ℝ) := by
      obtain ⟨g, rfl⟩ := hw.cx_build
      rw [zerosLike_build]; exact rect_build _ _ _
    have hm : ∀ x ∈ (w :: rest).map modeIntensity, Rect nr nc x := by
      intro x hx
      obtain ⟨v, hv, rfl⟩ := List.mem_map.1 hx
      exact (rsum_modeIntensity hr hc (hws v hv)).1
    exact sumModes_fftshift2 _ hm _ hz

/-- one probe mode through the whole real-space part of the pipeline: placement + multislice -/
theorem mode_exit (hr : 0 < nr) (hc : 0 < nc) (windows kernels : List (Img ℝ)) (hw : ∀ w ∈ windows, Rect nr nc w)
    (hk : ∀ K ∈ kernels, Rect nr nc K) {psi : Img ℝ} (hpsi : Rect nr nc psi) (fr fc : ℝ) :
    Spec.exitWave windows kernels (Spec.translate psi fr fc)
        = fftshift2 (overlapProjection1 (windows.map ifftshift2) (kernels.map ifftshift2)
            (fourierShift (ifftshift2 psi) fr fc)).2
      ∧ Rect nr nc (overlapProjection1 (windows.map ifftshift2) (kernels.map ifftshift2)
            (fourierShift (ifftshift2 psi) fr fc)).2 := by
  obtain ⟨h1, h2⟩ := translate_eq_fourierShift hr hc hpsi fr fc
  have := exitWave_eq_overlap hr hc windows kernels _ hw hk (rect_fftshift2 h2)
  rw [ifftshift2_fftshift2 h2] at this
  rw [h1]
  exact this

/-- the detector output is rectangular (at least one mode) -/
theorem rect_detector (hr : 0 < nr) (hc : 0 < nc) (ws : List (Img ℝ)) (hws : ∀ w ∈ ws, Rect nr nc w) (hne : ws ≠ []) :
    Rect nr nc (detector ws) := by
  unfold detector intensitiesCorner
  apply rect_fftshift2
  cases ws with
  | nil => exact absurd rfl hne
  | cons w rest =>
    have hw := hws w List.mem_cons_self
    have hz : Rect nr nc (zerosLike ((w :: rest).headD []) : RImg ℝ) := by
      simp only [List.headD_cons]
      obtain ⟨g, rfl⟩ := hw.cx_build
      rw [zerosLike_build]; exact rect_build _ _ _
    have hm : ∀ x ∈ (w :: rest).map modeIntensity, Rect nr nc x := by
      intro x hx
      obtain ⟨v, hv, rfl⟩ := List.mem_map.1 hx
      exact (rsum_modeIntensity hr hc (hws v hv)).1
    exact (sumModes_rsum _ hm _ hz).1

end QuantemModel.Forward
