import QuantemModel.Lemmas.VectorLaws
import QuantemModel.Model.VectorView
/-!
Lemmas for the growth-round-5 theorems of C11:

* `heapExt_step` / `heapExt_run`: NO operation — successful or raising — ever changes the row count,
  the column count or the dtype kind of an array that already exists, and no array ever disappears
  (arrays are only written in place or newly allocated).
* the layer of objects the caller keeps (Model/VectorView.lean): `inv_vstep`, `heapExt_vstep`.
* `castFlat` of values that already have the cells' dtype kinds is the identity.
-/
namespace QuantemModel.Vector

/-! ### shapes and dtype kinds of existing arrays are stable under every operation -/

theorem hx_setFlat {s : State} (hI : Inv s) (v : Vec) (j : Nat) (vals : FlatVal) :
    HeapExt s.heap (setFlat s v j vals).1.heap := by
  unfold setFlat
  split
  · exact HeapExt.refl _
  · split
    · exact HeapExt.refl _
    · exact (fill_spec j v.cells s.heap _ hI.wf).2

theorem heap_getItemCore (s : State) (v : Vec) (idx : List Ix) : (getItemCore s v idx).1.heap = s.heap := by
  unfold getItemCore
  simp only
  repeat' split
  all_goals rfl

theorem heap_getItem (s : State) (vid : Nat) (idx : List Ix) : (opGetItem s vid idx).1.heap = s.heap := by
  unfold opGetItem
  split
  · rfl
  · simp only
    split
    · split
      · rw [getItemLong_state]
      · exact heap_getItemCore _ _ _
    · exact heap_getItemCore _ _ _

theorem heap_finish (s : State) (vid : Nat) (v : Vec) (r : List (Option Ref) × Option Err) :
    (finish s vid v r).1.heap = s.heap := rfl

theorem heap_setData (s : State) (vid : Nat) (idx : List Ix) (val : SetVal) : (opSetData s vid idx val).1.heap = s.heap := by
  unfold opSetData
  repeat' split
  all_goals first | rfl | exact heap_finish _ _ _ _

theorem heap_setItemCore (s : State) (vid : Nat) (v : Vec) (idx : List Ix) (val : SetVal) :
    (setItemCore s vid v idx val).1.heap = s.heap := by
  unfold setItemCore
  simp only
  repeat' split
  all_goals first | rfl | exact heap_finish _ _ _ _

theorem hx_setItemLong {s : State} (v : Vec) (idx : List Ix) (val : SetVal) :
    HeapExt s.heap (setItemLong s v idx val).1.heap := by
  unfold setItemLong
  simp only
  repeat' split
  all_goals first
    | exact HeapExt.refl _
    | exact HeapExt.set (by assumption) (Arr.setRow_same _ _ _)

theorem hx_storeItems {heap heap' : List Arr} {nf : Nat} {items : List DItem} {cs : List (Option Ref)}
    (hwf : ∀ a ∈ heap, a.WF) (h : storeItems nf heap items = .ok (heap', cs)) : HeapExt heap heap' :=
  (storeItems_spec nf items heap heap' cs hwf h).2.1

theorem hx_rebuild_add {heap heap' : List Arr} {k nf : Nat} {cells out : List (Option Ref)}
    (hwf : ∀ a ∈ heap, a.WF)
    (h : rebuildCells (·.addCols k) (fun a => a.ncols != nf) heap cells = .ok (heap', out)) : HeapExt heap heap' :=
  (rebuildCells_spec _ _ (nf + k)
    (fun a hwf hb => ⟨Arr.addCols_wf hwf _, by
      have : a.ncols = nf := by simpa using hb
      simp [Arr.addCols, this]⟩) _ _ _ _ hwf h).2.1

theorem hx_rebuild_keep {heap heap' : List Arr} {keep : List Nat} {bad : Arr → Bool} {cells out : List (Option Ref)}
    (hwf : ∀ a ∈ heap, a.WF)
    (h : rebuildCells (·.keepCols keep) bad heap cells = .ok (heap', out)) : HeapExt heap heap' :=
  (rebuildCells_spec _ _ keep.length (fun a hwf _ => ⟨Arr.keepCols_wf hwf _, rfl⟩) _ _ _ _ hwf h).2.1

theorem heapExt_step {s : State} (hI : Inv s) (op : Op) : HeapExt s.heap (step s op).1.heap := by
  cases op with
  | alloc n rows t => exact HeapExt.append _ _
  | fromShape sh nf fs us =>
    show HeapExt s.heap (opFromShape s sh nf fs us).1.heap
    unfold opFromShape
    simp only [State.mkVec]
    repeat' split
    all_goals exact HeapExt.refl _
  | fromData items nf fs us =>
    show HeapExt s.heap (opFromData s items nf fs us).1.heap
    unfold opFromData
    simp only [State.mkVec]
    repeat' split
    all_goals first
      | exact HeapExt.refl _
      | exact hx_storeItems hI.wf (by assumption)
  | getData v idx => show HeapExt s.heap (opGetData s v idx).1.heap; rw [getData_state]; exact HeapExt.refl _
  | setData v idx val => show HeapExt s.heap (opSetData s v idx val).1.heap; rw [heap_setData]; exact HeapExt.refl _
  | getItem v idx => show HeapExt s.heap (opGetItem s v idx).1.heap; rw [heap_getItem]; exact HeapExt.refl _
  | setItem v idx val =>
    show HeapExt s.heap (opSetItem s v idx val).1.heap
    unfold opSetItem
    split
    · exact HeapExt.refl _
    · simp only
      split
      · split
        · rw [heap_setItemCore]; exact HeapExt.refl _
        · exact hx_setItemLong _ _ _
      · rw [heap_setItemCore]; exact HeapExt.refl _
  | fieldOp v name f =>
    show HeapExt s.heap (opFieldOp s v name f).1.heap
    unfold opFieldOp
    cases hv : s.getVec v with
    | error e => exact HeapExt.refl _
    | ok vec =>
      simp only
      cases hj : fieldIndex vec name with
      | error e => exact HeapExt.refl _
      | ok j =>
        simp only
        have h1 := applyOp_spec j f vec.cells s.heap hI.wf
        exact h1.2.trans (hx_setFlat (s := { s with heap := applyOp j f s.heap vec.cells }) (hI.withHeap h1.1 h1.2) _ _ _)
  | fieldOpGen v name g neg rhs =>
    show HeapExt s.heap (opFieldOpGen s v name g neg rhs).1.heap
    unfold opFieldOpGen
    cases hv : s.getVec v with
    | error e => exact HeapExt.refl _
    | ok vec =>
      simp only
      cases hj : fieldIndex vec name with
      | error e => exact HeapExt.refl _
      | ok j =>
        simp only
        split
        · exact HeapExt.refl _
        · rename_i r _
          have h1 := applyGen_spec j g neg r vec.cells s.heap hI.wf
          generalize hag : applyGen j g neg r s.heap vec.cells = res at h1
          obtain ⟨heap', oe⟩ := res
          cases oe with
          | some e => exact h1.2
          | none =>
            exact h1.2.trans (hx_setFlat (s := { s with heap := heap' }) (hI.withHeap h1.1 h1.2) _ _ _)
  | fieldGet v name idx =>
    show HeapExt s.heap (opFieldGet s v name idx).1.heap
    have hg := heap_getItem s v idx
    unfold opFieldGet
    cases hv : s.getVec v with
    | error e => exact HeapExt.refl _
    | ok vec =>
      simp only
      cases hj : fieldIndex vec name with
      | error e => exact HeapExt.refl _
      | ok j =>
        simp only
        generalize opGetItem s v idx = res at hg
        repeat' split
        all_goals (simp only at hg ⊢; rw [hg]; exact HeapExt.refl _)
  | setFlattened v name vals =>
    show HeapExt s.heap (opSetFlattened s v name vals).1.heap
    unfold opSetFlattened
    repeat' split
    all_goals first | exact HeapExt.refl _ | exact hx_setFlat hI _ _ _
  | writeBack v name =>
    show HeapExt s.heap (opWriteBack s v name).1.heap
    unfold opWriteBack
    repeat' split
    all_goals first | exact HeapExt.refl _ | exact hx_setFlat hI _ _ _
  | addFields v names =>
    show HeapExt s.heap (opAddFields s v names).1.heap
    unfold opAddFields
    cases hv : s.getVec v with
    | error e => exact HeapExt.refl _
    | ok vec =>
    simp only
    repeat' split
    all_goals first
      | exact HeapExt.refl _
      | exact hx_rebuild_add hI.wf (by assumption)
  | removeFields v names =>
    show HeapExt s.heap (opRemoveFields s v names).1.heap
    unfold opRemoveFields
    cases hv : s.getVec v with
    | error e => exact HeapExt.refl _
    | ok vec =>
    simp only
    repeat' split
    all_goals first
      | exact HeapExt.refl _
      | exact hx_rebuild_keep hI.wf (by assumption)
  | copy v =>
    show HeapExt s.heap (opCopy s v).1.heap
    unfold opCopy
    cases hv : s.getVec v with
    | error e => exact HeapExt.refl _
    | ok vec =>
      simp only
      have hvok := hI.vecs vec (getVec_mem hv)
      obtain ⟨ext, e1, _, _⟩ := deepCopy_spec s.heap.length vec.cells s.heap [] (Nat.le_refl _)
        (memoOK_nil _ _) (cells_live hvok.cells)
      generalize deepCopyCells s.heap [] vec.cells = dc at e1
      obtain ⟨heap', cs⟩ := dc
      simp only at e1
      subst e1
      simp only [State.mkVec]
      repeat' split
      all_goals first
        | exact HeapExt.refl _
        | exact HeapExt.append _ _
  | setDataAttr v lens items =>
    show HeapExt s.heap (opSetDataAttr s v lens items).1.heap
    unfold opSetDataAttr
    repeat' split
    all_goals first
      | exact HeapExt.refl _
      | exact hx_storeItems hI.wf (by assumption)
  | metaSet v k x =>
    show HeapExt s.heap (opMetaSet s v k x).1.heap
    unfold opMetaSet
    repeat' split
    all_goals exact HeapExt.refl _

theorem heapExt_run {s : State} (hI : Inv s) (ops : List Op) : HeapExt s.heap (run s ops).heap := by
  induction ops generalizing s with
  | nil => exact HeapExt.refl _
  | cons op ops ih =>
    show HeapExt s.heap (run (step s op).1 ops).heap
    exact (heapExt_step hI op).trans (ih (inv_step hI op))

/-! ### a flattened column taken earlier still fits the cells later -/

theorem flattenField_length_ext {h h' : List Arr} (hext : HeapExt h h') (j nf : Nat) :
    ∀ cells : List (Option Ref), (∀ c ∈ cells, CellOK h nf c) →
      (flattenField h' cells j).length = (flattenField h cells j).length := by
  intro cells
  induction cells with
  | nil => intro _; rfl
  | cons c cs ih =>
    intro hc
    have ih' := ih (fun c h => hc c (List.mem_cons_of_mem _ h))
    cases c with
    | none => simpa [flattenField] using ih'
    | some r =>
      obtain ⟨a, ha, _⟩ := hc (some r) List.mem_cons_self r rfl
      obtain ⟨a', ha', _, hn, _⟩ := hext r a ha
      rw [flattenField_cons_some ha, flattenField_cons_some ha']
      simp only [List.length_append, Arr.col_length, hn, ih']

/-- the values read from the cells EARLIER already have the cells' dtype kinds (shapes and kinds never
change), so the cast of a later `set_flattened` is the identity on them -/
theorem castFlat_restore {h h' : List Arr} (hext : HeapExt h h') (hwf : ∀ a ∈ h, a.WF) (j nf : Nat) :
    ∀ cells : List (Option Ref), (∀ c ∈ cells, CellOK h nf c) →
      castFlat h' cells (flattenField h cells j) = flattenField h cells j := by
  intro cells
  induction cells with
  | nil => intro _; rfl
  | cons c cs ih =>
    intro hc
    have ih' := ih (fun c h => hc c (List.mem_cons_of_mem _ h))
    cases c with
    | none => simpa [castFlat, flattenField] using ih'
    | some r =>
      obtain ⟨a, ha, _⟩ := hc (some r) List.mem_cons_self r rfl
      obtain ⟨a', ha', _, hn, ht⟩ := hext r a ha
      rw [flattenField_cons_some ha]
      simp only [castFlat, ha']
      have hl : (a.col j).length = a'.nrows := by rw [Arr.col_length, hn]
      rw [List.take_left' hl, List.drop_left' hl, ih', ht, Arr.col_cast_self (hwf a (List.mem_of_getElem? ha)) j]

/-! ### the layer of objects the caller keeps -/

theorem viewApply_ok {s : State} (hI : Inv s) (fv : FView) (g : Rat → Rat → Rat) (neg : Bool) (rhs : Rhs) :
    Inv (viewApply s fv g neg rhs).1 ∧ HeapExt s.heap (viewApply s fv g neg rhs).1.heap := by
  unfold viewApply
  cases hv : s.getVec fv.vid with
  | error e => exact ⟨hI, HeapExt.refl _⟩
  | ok vec =>
    simp only
    split
    · exact ⟨hI, HeapExt.refl _⟩
    · rename_i r _
      cases hj : fieldIndex vec fv.name with
      | error e => simp only; split <;> exact ⟨hI, HeapExt.refl _⟩
      | ok j =>
        simp only
        have h1 := applyGen_spec j g neg r vec.cells s.heap hI.wf
        generalize applyGen j g neg r s.heap vec.cells = res at h1
        obtain ⟨heap', oe⟩ := res
        cases oe <;> exact ⟨hI.withHeap h1.1 h1.2, h1.2⟩

theorem viewSetFlat_ok {s : State} (hI : Inv s) (fv : FView) (vals : FlatVal) :
    Inv (viewSetFlat s fv vals).1 ∧ HeapExt s.heap (viewSetFlat s fv vals).1.heap := by
  unfold viewSetFlat
  cases hv : s.getVec fv.vid with
  | error e => exact ⟨hI, HeapExt.refl _⟩
  | ok vec =>
    simp only
    cases vals with
    | notOneD => exact ⟨hI, HeapExt.refl _⟩
    | oneD xs =>
      simp only
      cases hj : fieldIndex vec fv.name with
      | ok j => exact ⟨inv_setFlat hI _ _ _, hx_setFlat hI _ _ _⟩
      | error e => simp only; repeat' split
                   all_goals exact ⟨hI, HeapExt.refl _⟩

theorem viewGetItem_ok {s : State} (hI : Inv s) (fv : FView) (idx : List Ix) :
    Inv (viewGetItem s fv idx).1 ∧ HeapExt s.heap (viewGetItem s fv idx).1.heap := by
  unfold viewGetItem
  cases hv : s.getVec fv.vid with
  | error e => exact ⟨hI, HeapExt.refl _⟩
  | ok vec =>
    simp only
    cases hj : fieldIndex vec fv.name with
    | ok j => exact ⟨inv_step hI (.fieldGet fv.vid fv.name idx), heapExt_step hI (.fieldGet fv.vid fv.name idx)⟩
    | error e =>
      simp only
      generalize opGetItem s fv.vid idx = res
      repeat' split
      all_goals exact ⟨hI, HeapExt.refl _⟩

theorem vstep_ok {st : VState} (hI : Inv st.s) (op : VOp) :
    Inv (vstep st op).1.s ∧ HeapExt st.s.heap (vstep st op).1.s.heap := by
  cases op with
  | base op => exact ⟨inv_step hI op, heapExt_step hI op⟩
  | mkView v name =>
    simp only [vstep]; repeat' split
    all_goals exact ⟨hI, HeapExt.refl _⟩
  | viewFlatten k =>
    simp only [vstep]; repeat' split
    all_goals exact ⟨hI, HeapExt.refl _⟩
  | viewOp k g neg rhs =>
    simp only [vstep]; split
    · exact ⟨hI, HeapExt.refl _⟩
    · exact viewApply_ok hI _ _ _ _
  | viewSet k vals =>
    simp only [vstep]; split
    · exact ⟨hI, HeapExt.refl _⟩
    · exact viewSetFlat_ok hI _ _
  | viewRestore k i =>
    simp only [vstep]; split
    · exact viewSetFlat_ok hI _ _
    · exact ⟨hI, HeapExt.refl _⟩
  | viewGet k idx =>
    simp only [vstep]; split
    · exact ⟨hI, HeapExt.refl _⟩
    · exact viewGetItem_ok hI _ _
  | keptMap i f =>
    simp only [vstep]; repeat' split
    all_goals exact ⟨hI, HeapExt.refl _⟩

theorem vrun_ok {st : VState} (hI : Inv st.s) (ops : List VOp) :
    Inv (vrun st ops).s ∧ HeapExt st.s.heap (vrun st ops).s.heap := by
  induction ops generalizing st with
  | nil => exact ⟨hI, HeapExt.refl _⟩
  | cons op ops ih =>
    have h1 := vstep_ok hI op
    have h2 := ih (st := (vstep st op).1) h1.1
    exact ⟨h2.1, h1.2.trans h2.2⟩

/-- nothing but the caller's own `keptMap i` changes the kept array number `i`; held views are never
forgotten or altered -/
theorem vstep_kept {st : VState} (op : VOp) {i : Nat} (hi : i < st.kept.length)
    (hop : ∀ f, op ≠ .keptMap i f) : (vstep st op).1.kept[i]? = st.kept[i]? := by
  cases op with
  | base op => rfl
  | mkView v name => simp only [vstep]; repeat' split
                     all_goals rfl
  | viewFlatten k =>
    simp only [vstep]; repeat' split
    all_goals first | rfl | exact List.getElem?_append_left hi
  | viewOp k g neg rhs => simp only [vstep]; split <;> rfl
  | viewSet k vals => simp only [vstep]; split <;> rfl
  | viewRestore k i' => simp only [vstep]; split <;> rfl
  | viewGet k idx => simp only [vstep]; split <;> rfl
  | keptMap i' f =>
    have hne : i' ≠ i := by intro e; subst e; exact hop f rfl
    simp only [vstep]; repeat' split
    all_goals first | rfl | exact List.getElem?_set_ne hne

theorem vstep_kept_length (st : VState) (op : VOp) : st.kept.length ≤ (vstep st op).1.kept.length := by
  cases op with
  | base op => exact Nat.le_refl _
  | mkView v name => simp only [vstep]; repeat' split
                     all_goals exact Nat.le_refl _
  | viewFlatten k =>
    simp only [vstep]; repeat' split
    all_goals first | exact Nat.le_refl _ | simp
  | viewOp k g neg rhs => simp only [vstep]; split <;> exact Nat.le_refl _
  | viewSet k vals => simp only [vstep]; split <;> exact Nat.le_refl _
  | viewRestore k i' => simp only [vstep]; split <;> exact Nat.le_refl _
  | viewGet k idx => simp only [vstep]; split <;> exact Nat.le_refl _
  | keptMap i' f =>
    simp only [vstep]; repeat' split
    all_goals first | exact Nat.le_refl _ | simp

theorem vstep_views {st : VState} (op : VOp) {k : Nat} {fv : FView} (hk : st.views[k]? = some fv) :
    (vstep st op).1.views[k]? = some fv := by
  have hlt := getElem?_lt hk
  cases op with
  | base op => exact hk
  | mkView v name =>
    simp only [vstep]; repeat' split
    all_goals first | exact hk | (rw [List.getElem?_append_left hlt]; exact hk)
  | viewFlatten k' => simp only [vstep]; repeat' split
                      all_goals exact hk
  | viewOp k' g neg rhs => simp only [vstep]; split <;> exact hk
  | viewSet k' vals => simp only [vstep]; split <;> exact hk
  | viewRestore k' i' => simp only [vstep]; split <;> exact hk
  | viewGet k' idx => simp only [vstep]; split <;> exact hk
  | keptMap i' f => simp only [vstep]; repeat' split
                    all_goals exact hk

theorem vrun_kept {st : VState} (ops : List VOp) {i : Nat} (hi : i < st.kept.length)
    (hop : ∀ op ∈ ops, ∀ f, op ≠ .keptMap i f) : (vrun st ops).kept[i]? = st.kept[i]? := by
  induction ops generalizing st with
  | nil => rfl
  | cons op ops ih =>
    show (vrun (vstep st op).1 ops).kept[i]? = _
    rw [ih (st := (vstep st op).1) (Nat.lt_of_lt_of_le hi (vstep_kept_length st op))
      (fun o ho => hop o (List.mem_cons_of_mem _ ho))]
    exact vstep_kept op hi (hop op List.mem_cons_self)

theorem vrun_views {st : VState} (ops : List VOp) {k : Nat} {fv : FView} (hk : st.views[k]? = some fv) :
    (vrun st ops).views[k]? = some fv := by
  induction ops generalizing st with
  | nil => exact hk
  | cons op ops ih => exact ih (st := (vstep st op).1) (vstep_views op hk)

end QuantemModel.Vector
