import QuantemModel.Model.Registration
import QuantemModel.Real.NumReal
import Mathlib.Algebra.BigOperators.Group.Finset.Basic
import Mathlib.Algebra.Order.BigOperators.Ring.Finset
import Mathlib.Algebra.Order.Floor.Ring
import Mathlib.Tactic.Ring
import Mathlib.Tactic.Linarith
import Mathlib.Tactic.Positivity
import Mathlib.Tactic.FieldSimp
/-!
Helper lemmas for Props/C13.lean: the registration model (Model/Registration.lean) read at
the carrier `ℝ`.
-/
namespace QuantemModel

noncomputable instance : NumFloor ℝ := ⟨Int.floor⟩

namespace Registration
open Finset

@[simp] theorem floor_real (x : ℝ) : NumFloor.floor x = ⌊x⌋ := rfl

/-! ### sums -/
theorem sumN_eq (n : ℕ) (f : ℕ → ℝ) : sumN n f = ∑ i ∈ range n, f i := by
  induction n with
  | zero => simp [sumN]
  | succ n ih => simp [sumN, ih, Finset.sum_range_succ]

/-! ### `wrap` -/
theorem wrap_lt {N : ℕ} (hN : 0 < N) (i : ℤ) : wrap N i < N := by
  unfold wrap
  have h1 : 0 ≤ i % (N : ℤ) := Int.emod_nonneg _ (by omega)
  have h2 : i % (N : ℤ) < N := Int.emod_lt_of_pos _ (by omega)
  omega

theorem wrap_cast {N : ℕ} (hN : 0 < N) (i : ℤ) : ((wrap N i : ℕ) : ℤ) = i % (N : ℤ) := by
  unfold wrap
  exact Int.toNat_of_nonneg (Int.emod_nonneg _ (by omega))

theorem wrap_of_lt {N i : ℕ} (h : i < N) : wrap N (i : ℤ) = i := by
  unfold wrap
  rw [Int.emod_eq_of_lt (by omega) (by omega)]
  simp

theorem wrap_emod (N : ℕ) (i : ℤ) : wrap N (i % (N : ℤ)) = wrap N i := by
  unfold wrap; rw [Int.emod_emod_of_dvd _ (dvd_refl _)]

theorem wrap_congr {N : ℕ} {i j : ℤ} (h : i % (N : ℤ) = j % (N : ℤ)) : wrap N i = wrap N j := by
  unfold wrap; rw [h]

/-- `(((i - s) % N) - a) % N = (i - (s + a)) % N` -/
theorem wrap_wrap_sub {N : ℕ} (hN : 0 < N) (i s a : ℤ) :
    wrap N (((wrap N (i - s) : ℕ) : ℤ) - a) = wrap N (i - (s + a)) := by
  apply wrap_congr
  rw [wrap_cast hN, sub_eq_add_neg, Int.emod_add_emod]
  congr 1; ring

theorem wrap_add_mul (N : ℕ) (i k : ℤ) : wrap N (i + (N : ℤ) * k) = wrap N i := by
  apply wrap_congr; exact Int.add_mul_emod_self_left _ _ _

/-- re-indexing a sum over the cell by a circular shift -/
theorem sum_wrap (N : ℕ) (s : ℤ) (h : ℕ → ℝ) :
    ∑ i ∈ range N, h (wrap N ((i : ℤ) - s)) = ∑ i ∈ range N, h i := by
  rcases Nat.eq_zero_or_pos N with rfl | hN
  · simp
  refine Finset.sum_nbij' (fun i => wrap N ((i : ℤ) - s)) (fun j => wrap N ((j : ℤ) + s)) ?_ ?_ ?_ ?_ ?_
  · intro i _; exact mem_range.mpr (wrap_lt hN _)
  · intro j _; exact mem_range.mpr (wrap_lt hN _)
  · intro i hi
    have hi' := mem_range.mp hi
    have : wrap N (((wrap N ((i : ℤ) - s) : ℕ) : ℤ) + s) = wrap N (i : ℤ) := by
      have := wrap_wrap_sub hN (i : ℤ) s (-s)
      simpa [sub_neg_eq_add] using this
    rw [this, wrap_of_lt hi']
  · intro j hj
    have hj' := mem_range.mp hj
    have : wrap N (((wrap N ((j : ℤ) + s) : ℕ) : ℤ) - s) = wrap N (j : ℤ) := by
      have := wrap_wrap_sub hN (j : ℤ) (-s) s
      simpa [sub_neg_eq_add] using this
    rw [this, wrap_of_lt hj']
  · intro i _; rfl

/-- 2-D version -/
theorem sum_wrap2 (M N : ℕ) (s t : ℤ) (g : ℕ → ℕ → ℝ) :
    ∑ i ∈ range M, ∑ j ∈ range N, g (wrap M ((i : ℤ) - s)) (wrap N ((j : ℤ) - t))
      = ∑ i ∈ range M, ∑ j ∈ range N, g i j := by
  have h1 : ∀ i, ∑ j ∈ range N, g (wrap M ((i : ℤ) - s)) (wrap N ((j : ℤ) - t))
      = ∑ j ∈ range N, g (wrap M ((i : ℤ) - s)) j := fun i => sum_wrap N t _
  simp_rw [h1]
  exact sum_wrap M s (fun i => ∑ j ∈ range N, g i j)

/-! ### the correlation at `ℝ` -/
theorem cc_eq (M N : ℕ) (ref im : ℕ → ℕ → ℝ) (s t : ℤ) :
    cc M N ref im s t
      = ∑ i ∈ range M, ∑ j ∈ range N, ref i j * im (wrap M ((i : ℤ) - s)) (wrap N ((j : ℤ) - t)) := by
  unfold cc
  rw [sumN_eq]
  refine Finset.sum_congr rfl fun i _ => ?_
  rw [sumN_eq]

theorem cc_zero (M N : ℕ) (x : ℕ → ℕ → ℝ) :
    cc M N x x 0 0 = ∑ i ∈ range M, ∑ j ∈ range N, x i j * x i j := by
  rw [cc_eq]
  refine Finset.sum_congr rfl fun i hi => Finset.sum_congr rfl fun j hj => ?_
  rw [sub_zero, sub_zero, wrap_of_lt (mem_range.mp hi), wrap_of_lt (mem_range.mp hj)]

/-- `ac[0] - ac[s,t] = ½ Σ (x[n] - x[n - (s,t)])²` -/
theorem autocorr_gap (M N : ℕ) (x : ℕ → ℕ → ℝ) (s t : ℤ) :
    cc M N x x 0 0 - cc M N x x s t
      = (1 / 2) * ∑ i ∈ range M, ∑ j ∈ range N,
          (x i j - x (wrap M ((i : ℤ) - s)) (wrap N ((j : ℤ) - t))) ^ 2 := by
  have hsq : ∑ i ∈ range M, ∑ j ∈ range N,
        x (wrap M ((i : ℤ) - s)) (wrap N ((j : ℤ) - t)) * x (wrap M ((i : ℤ) - s)) (wrap N ((j : ℤ) - t))
      = ∑ i ∈ range M, ∑ j ∈ range N, x i j * x i j :=
    sum_wrap2 M N s t (fun i j => x i j * x i j)
  have hexp : ∀ i j, (x i j - x (wrap M ((i : ℤ) - s)) (wrap N ((j : ℤ) - t))) ^ 2
      = x i j * x i j
        + x (wrap M ((i : ℤ) - s)) (wrap N ((j : ℤ) - t)) * x (wrap M ((i : ℤ) - s)) (wrap N ((j : ℤ) - t))
        - 2 * (x i j * x (wrap M ((i : ℤ) - s)) (wrap N ((j : ℤ) - t))) := fun i j => by ring
  simp_rw [hexp, Finset.sum_sub_distrib, Finset.sum_add_distrib, ← Finset.mul_sum]
  rw [hsq, cc_zero, cc_eq]
  ring

/-! ### periodicity, shift and swap of the correlation -/
theorem wrap_sub_emod {M : ℕ} (i s : ℤ) : wrap M (i - s % (M : ℤ)) = wrap M (i - s) := by
  apply wrap_congr
  rw [Int.sub_emod, Int.emod_emod_of_dvd _ (dvd_refl _), ← Int.sub_emod]

/-- the correlation only depends on the lag modulo the cell -/
theorem cc_mod {M N : ℕ} (hM : 0 < M) (hN : 0 < N) (x y : ℕ → ℕ → ℝ) (s t : ℤ) :
    cc M N x y s t = cc M N x y (wrap M s) (wrap N t) := by
  rw [cc_eq, cc_eq]
  refine Finset.sum_congr rfl fun i _ => Finset.sum_congr rfl fun j _ => ?_
  rw [wrap_cast hM, wrap_cast hN, wrap_sub_emod, wrap_sub_emod]

/-- correlating with a rolled copy shifts the lag -/
theorem cc_roll {M N : ℕ} (hM : 0 < M) (hN : 0 < N) (x y : ℕ → ℕ → ℝ) (a b s t : ℤ) :
    cc M N x (rollImg M N y a b) s t = cc M N x y (s + a) (t + b) := by
  rw [cc_eq, cc_eq]
  refine Finset.sum_congr rfl fun i _ => Finset.sum_congr rfl fun j _ => ?_
  unfold rollImg
  rw [wrap_wrap_sub hM, wrap_wrap_sub hN]

/-- swapping the two images mirrors the lag -/
theorem cc_swap {M N : ℕ} (hM : 0 < M) (hN : 0 < N) (x y : ℕ → ℕ → ℝ) (s t : ℤ) :
    cc M N y x s t = cc M N x y (-s) (-t) := by
  rw [cc_eq, cc_eq]
  have h := sum_wrap2 M N s t (fun i j => x i j * y (wrap M ((i : ℤ) + s)) (wrap N ((j : ℤ) + t)))
  simp only [sub_neg_eq_add]
  rw [← h]
  refine Finset.sum_congr rfl fun i hi => Finset.sum_congr rfl fun j hj => ?_
  have e1 : wrap M (((wrap M ((i : ℤ) - s) : ℕ) : ℤ) + s) = i := by
    have := wrap_wrap_sub hM (i : ℤ) s (-s)
    simp only [sub_neg_eq_add, add_neg_cancel, sub_zero] at this
    rw [this, wrap_of_lt (mem_range.mp hi)]
  have e2 : wrap N (((wrap N ((j : ℤ) - t) : ℕ) : ℤ) + t) = j := by
    have := wrap_wrap_sub hN (j : ℤ) t (-t)
    simp only [sub_neg_eq_add, add_neg_cancel, sub_zero] at this
    rw [this, wrap_of_lt (mem_range.mp hj)]
  rw [e1, e2]; ring

/-! ### `argmax` with the first-maximum rule -/
theorem argmaxN_succ (n : ℕ) (f : ℕ → ℝ) :
    argmaxN (n + 1) f = if f (argmaxN n f) < f n then n else argmaxN n f := by
  simp [argmaxN]

theorem argmaxN_lt {n : ℕ} (hn : 0 < n) (f : ℕ → ℝ) : argmaxN n f < n := by
  induction n with
  | zero => omega
  | succ n ih =>
    rw [argmaxN_succ]
    split
    · omega
    · rcases Nat.eq_zero_or_pos n with rfl | h
      · simp [argmaxN]
      · have := ih h; omega

theorem argmaxN_max (n : ℕ) (f : ℕ → ℝ) : ∀ i < n, f i ≤ f (argmaxN n f) := by
  induction n with
  | zero => intro i hi; omega
  | succ n ih =>
    intro i hi
    rw [argmaxN_succ]
    rcases Nat.lt_succ_iff_lt_or_eq.mp hi with h | rfl
    · have := ih i h
      split
      · linarith
      · exact this
    · split
      · exact le_refl _
      · linarith

/-- every index before the returned one is strictly smaller (NumPy/torch first-maximum rule) -/
theorem argmaxN_first (n : ℕ) (f : ℕ → ℝ) : ∀ i < argmaxN n f, f i < f (argmaxN n f) := by
  induction n with
  | zero => intro i hi; simp [argmaxN] at hi
  | succ n ih =>
    intro i hi
    rw [argmaxN_succ] at hi ⊢
    split
    · rename_i h
      rw [if_pos h] at hi
      rcases Nat.eq_zero_or_pos n with rfl | hn
      · omega
      · exact lt_of_le_of_lt (argmaxN_max n f i hi) h
    · rename_i h
      rw [if_neg h] at hi
      exact ih i hi

theorem argmaxN_unique {n p : ℕ} (f : ℕ → ℝ) (hp : p < n) (h : ∀ q < n, q ≠ p → f q < f p) :
    argmaxN n f = p := by
  by_contra hne
  have hb : argmaxN n f < n := argmaxN_lt (by omega) f
  have h1 := h _ hb hne
  have h2 := argmaxN_max n f p hp
  linarith

/-- the table `c` has a unique maximum over the cell, at `(p, q)` -/
def UniqueMaxAt (M N : ℕ) (c : ℕ → ℕ → ℝ) (p q : ℕ) : Prop :=
  p < M ∧ q < N ∧ ∀ s t, s < M → t < N → (s ≠ p ∨ t ≠ q) → c s t < c p q

theorem argmax2_unique {M N : ℕ} {c : ℕ → ℕ → ℝ} {p q : ℕ} (h : UniqueMaxAt M N c p q) :
    argmax2 M N c = (p, q) := by
  obtain ⟨hp, hq, hmax⟩ := h
  have hN : 0 < N := by omega
  have key : argmaxN (M * N) (fun r => c (r / N) (r % N)) = p * N + q := by
    apply argmaxN_unique
    · calc p * N + q < p * N + N := by omega
        _ = (p + 1) * N := by ring
        _ ≤ M * N := Nat.mul_le_mul_right _ (by omega)
    · intro r hr hne
      have h1 : (p * N + q) / N = p := by
        rw [Nat.add_comm, Nat.add_mul_div_right _ _ hN, Nat.div_eq_of_lt hq, Nat.zero_add]
      have h2 : (p * N + q) % N = q := by
        rw [Nat.add_comm, Nat.add_mul_mod_self_right, Nat.mod_eq_of_lt hq]
      simp only [h1, h2]
      apply hmax
      · exact (Nat.div_lt_iff_lt_mul hN).mpr hr
      · exact Nat.mod_lt _ hN
      · by_contra hcon
        rw [not_or, not_not, not_not] at hcon
        apply hne
        have := Nat.div_add_mod r N
        rw [hcon.1, hcon.2] at this
        rw [← this]; ring
  unfold argmax2
  simp only [key]
  have h1 : (p * N + q) / N = p := by
    rw [Nat.add_comm, Nat.add_mul_div_right _ _ hN, Nat.div_eq_of_lt hq, Nat.zero_add]
  have h2 : (p * N + q) % N = q := by
    rw [Nat.add_comm, Nat.add_mul_mod_self_right, Nat.mod_eq_of_lt hq]
  rw [h1, h2]

/-! ### Python float modulo and the final centring, at `ℝ` -/
theorem pmod_eq (x : ℝ) (m : ℕ) : pmod x m = x - (m : ℝ) * ⌊x / (m : ℝ)⌋ := by
  simp [pmod]

theorem pmod_of_mem {x : ℝ} {m : ℕ} (h0 : 0 ≤ x) (h1 : x < m) : pmod x m = x := by
  have hm : (0 : ℝ) < m := lt_of_le_of_lt h0 h1
  have : ⌊x / (m : ℝ)⌋ = 0 := by
    rw [Int.floor_eq_iff]
    constructor
    · simpa using div_nonneg h0 hm.le
    · simpa using (div_lt_one hm).mpr h1
  rw [pmod_eq, this]; simp

theorem pmod_add_mul (x : ℝ) {m : ℕ} (hm : 0 < m) (k : ℤ) : pmod (x + (m : ℝ) * k) m = pmod x m := by
  have hm' : (m : ℝ) ≠ 0 := by positivity
  rw [pmod_eq, pmod_eq]
  have : (x + (m : ℝ) * k) / (m : ℝ) = x / (m : ℝ) + (k : ℝ) := by field_simp
  rw [this, Int.floor_add_intCast]
  push_cast; ring

/-- `centre (pmod y M) M = y - M·⌊(y + M/2)/M⌋` : the representative of `y` in `[-M/2, M/2)` -/
theorem centre_pmod (y : ℝ) {M : ℕ} (hM : 0 < M) :
    centre (pmod y M) M = y - (M : ℝ) * ⌊(y + (M : ℝ) / 2) / (M : ℝ)⌋ := by
  have hm' : (M : ℝ) ≠ 0 := by positivity
  unfold centre
  simp only [NumReal.ofRat_eq, NumReal.add_eq, NumReal.sub_eq]
  rw [pmod_eq (pmod y M + _), pmod_eq y]
  have h2 : (((M : ℚ) / 2 : ℚ) : ℝ) = (M : ℝ) / 2 := by push_cast; ring
  rw [h2]
  have : (y - (M : ℝ) * ⌊y / (M : ℝ)⌋ + (M : ℝ) / 2) / (M : ℝ)
      = (y + (M : ℝ) / 2) / (M : ℝ) - ((⌊y / (M : ℝ)⌋ : ℤ) : ℝ) := by field_simp; ring
  rw [this, Int.floor_sub_intCast]
  push_cast; ring

theorem centre_of_mem {y : ℝ} {M : ℕ} (h0 : 0 ≤ y) (h1 : y < M) :
    centre y M = y - (M : ℝ) * ⌊(y + (M : ℝ) / 2) / (M : ℝ)⌋ := by
  have hM : 0 < M := by
    have : (0 : ℝ) < M := lt_of_le_of_lt h0 h1
    exact_mod_cast this
  rw [← centre_pmod y hM, pmod_of_mem h0 h1]

/-- the centring is odd, except at the tie `-M/2` -/
theorem centre_pmod_neg (y : ℝ) {M : ℕ} (hM : 0 < M)
    (htie : centre (pmod y M) M ≠ -((M : ℝ) / 2)) :
    centre (pmod (-y) M) M = -centre (pmod y M) M := by
  have hm : (0 : ℝ) < M := by positivity
  have hm' : (M : ℝ) ≠ 0 := hm.ne'
  rw [centre_pmod _ hM] at htie ⊢
  rw [centre_pmod _ hM]
  set w := (y + (M : ℝ) / 2) / (M : ℝ) with hw
  have hw' : (-y + (M : ℝ) / 2) / (M : ℝ) = 1 - w := by rw [hw]; field_simp; ring
  have hne : w ≠ (⌊w⌋ : ℝ) := by
    intro h
    apply htie
    have : y = (M : ℝ) * w - (M : ℝ) / 2 := by rw [hw]; field_simp; ring
    rw [this, ← h]; ring
  have hfl : ⌊1 - w⌋ = -⌊w⌋ := by
    rw [Int.floor_eq_iff]
    have h1 := Int.floor_le w
    have h2 := Int.lt_floor_add_one w
    have h3 : (⌊w⌋ : ℝ) < w := lt_of_le_of_ne h1 (Ne.symm hne)
    push_cast
    constructor <;> linarith
  rw [hw', hfl]
  push_cast; ring

theorem parabolic_eq (v0 v1 v2 : ℝ) : parabolic v0 v1 v2 = (v2 - v0) / (4 * v1 - 2 * v2 - 2 * v0) := by
  simp [parabolic]

theorem parabolic_symm (v v1 : ℝ) : parabolic v v1 v = 0 := by
  rw [parabolic_eq]; simp

theorem parabolic_swap (v0 v1 v2 : ℝ) : parabolic v2 v1 v0 = -parabolic v0 v1 v2 := by
  rw [parabolic_eq, parabolic_eq]
  have : 4 * v1 - 2 * v0 - 2 * v2 = 4 * v1 - 2 * v2 - 2 * v0 := by ring
  rw [this, ← neg_div]; congr 1; ring

theorem parabolicT_symm (v v1 : ℝ) : parabolicT v v1 v = 0 := by
  unfold parabolicT
  simp

/-! ### the coarse stage on correlation tables -/

/-- `cc_real` as the table the estimators search: `c[s, t]`, `s < M`, `t < N` -/
noncomputable def corrTable (M N : ℕ) (x y : ℕ → ℕ → ℝ) : ℕ → ℕ → ℝ := fun s t => cc M N x y (s : ℤ) (t : ℤ)

/-- "image contents with a unique correlation peak": the autocorrelation attains its maximum
only at zero lag -/
def UniquePeak (M N : ℕ) (x : ℕ → ℕ → ℝ) : Prop :=
  ∀ s t : ℕ, s < M → t < N → (s ≠ 0 ∨ t ≠ 0) → cc M N x x s t < cc M N x x 0 0

/-- `v` is the representative of the integer `k` (mod `M`) in `[-M/2, M/2)` -/
def IsCentredRep (M : ℕ) (k : ℤ) (v : ℝ) : Prop :=
  ∃ r : ℤ, v = (r : ℝ) ∧ (M : ℤ) ∣ (r - k) ∧ -(M : ℤ) ≤ 2 * r ∧ 2 * r < (M : ℤ)

theorem wrap_cast_eq {M : ℕ} (hM : 0 < M) (i : ℤ) : ∃ k : ℤ, ((wrap M i : ℕ) : ℤ) = i + (M : ℤ) * k := by
  refine ⟨-(i / (M : ℤ)), ?_⟩
  rw [wrap_cast hM, Int.emod_def]; ring

theorem wrap_zero {M : ℕ} : wrap M 0 = 0 := by simp [wrap]

theorem wrap_eq_zero_iff {M : ℕ} (hM : 0 < M) (i : ℤ) : wrap M i = 0 ↔ (M : ℤ) ∣ i := by
  constructor
  · intro h
    have := wrap_cast hM i
    rw [h] at this
    exact Int.dvd_of_emod_eq_zero (by simpa using this.symm)
  · intro h
    have := wrap_cast hM i
    rw [Int.emod_eq_zero_of_dvd h] at this
    exact_mod_cast this

theorem eq_wrap_of_dvd {M s : ℕ} (hM : 0 < M) (hs : s < M) (k : ℤ) (h : (M : ℤ) ∣ ((s : ℤ) - k)) :
    s = wrap M k := by
  have h1 : ((s : ℤ)) % (M : ℤ) = k % (M : ℤ) :=
    Int.emod_eq_emod_iff_emod_sub_eq_zero.mpr (Int.emod_eq_zero_of_dvd h)
  have h2 := wrap_cast hM k
  rw [← h1, Int.emod_eq_of_lt (by omega) (by omega)] at h2
  exact_mod_cast h2.symm

/-- the correlation table of an image with its rolled copy has its unique maximum at the
lag `(-a mod M, -b mod N)` -/
theorem corrTable_roll_uniqueMax {M N : ℕ} (hM : 0 < M) (hN : 0 < N) (x : ℕ → ℕ → ℝ)
    (hx : UniquePeak M N x) (a b : ℤ) :
    UniqueMaxAt M N (corrTable M N x (rollImg M N x a b)) (wrap M (-a)) (wrap N (-b)) := by
  have hpk : ∀ s t : ℕ, corrTable M N x (rollImg M N x a b) s t
      = cc M N x x (wrap M ((s : ℤ) + a)) (wrap N ((t : ℤ) + b)) := by
    intro s t
    unfold corrTable
    rw [cc_roll hM hN, cc_mod hM hN]
  have hz1 : wrap M (((wrap M (-a) : ℕ) : ℤ) + a) = 0 := by
    obtain ⟨k, hk⟩ := wrap_cast_eq hM (-a)
    rw [hk, show -a + (M : ℤ) * k + a = 0 + (M : ℤ) * k by ring, wrap_add_mul, wrap_zero]
  have hz2 : wrap N (((wrap N (-b) : ℕ) : ℤ) + b) = 0 := by
    obtain ⟨k, hk⟩ := wrap_cast_eq hN (-b)
    rw [hk, show -b + (N : ℤ) * k + b = 0 + (N : ℤ) * k by ring, wrap_add_mul, wrap_zero]
  refine ⟨wrap_lt hM _, wrap_lt hN _, ?_⟩
  intro s t hs ht hne
  rw [hpk, hpk, hz1, hz2]
  have := hx (wrap M ((s : ℤ) + a)) (wrap N ((t : ℤ) + b)) (wrap_lt hM _) (wrap_lt hN _)
  simp only [Nat.cast_zero] at this ⊢
  apply this
  by_contra hcon
  rw [not_or, not_not, not_not] at hcon
  rcases hne with h | h
  · apply h
    apply eq_wrap_of_dvd hM hs
    have := (wrap_eq_zero_iff hM _).mp hcon.1
    simpa [sub_neg_eq_add] using this
  · apply h
    apply eq_wrap_of_dvd hN ht
    have := (wrap_eq_zero_iff hN _).mp hcon.2
    simpa [sub_neg_eq_add] using this

/-- the autocorrelation is even -/
theorem cc_self_neg {M N : ℕ} (hM : 0 < M) (hN : 0 < N) (x : ℕ → ℕ → ℝ) (s t : ℤ) :
    cc M N x x (-s) (-t) = cc M N x x s t := (cc_swap hM hN x x s t).symm

/-- the two row-neighbours of the peak of the rolled-copy table carry the same value -/
theorem corrTable_roll_row_symm {M N : ℕ} (hM : 0 < M) (hN : 0 < N) (x : ℕ → ℕ → ℝ) (a b : ℤ) :
    corrTable M N x (rollImg M N x a b) (wrap M (((wrap M (-a) : ℕ) : ℤ) - 1)) (wrap N (-b))
      = corrTable M N x (rollImg M N x a b) (wrap M (((wrap M (-a) : ℕ) : ℤ) + 1)) (wrap N (-b)) := by
  unfold corrTable
  rw [cc_roll hM hN, cc_roll hM hN, cc_mod hM hN, cc_mod hM hN x x (_ + a)]
  obtain ⟨k, hk⟩ := wrap_cast_eq hM (-a)
  obtain ⟨k1, hk1⟩ := wrap_cast_eq hM (((wrap M (-a) : ℕ) : ℤ) - 1)
  obtain ⟨k2, hk2⟩ := wrap_cast_eq hM (((wrap M (-a) : ℕ) : ℤ) + 1)
  have e1 : wrap M (((wrap M (((wrap M (-a) : ℕ) : ℤ) - 1) : ℕ) : ℤ) + a) = wrap M (-1) := by
    rw [hk1, hk, show -a + (M : ℤ) * k - 1 + (M : ℤ) * k1 + a = -1 + (M : ℤ) * (k + k1) by ring, wrap_add_mul]
  have e2 : wrap M (((wrap M (((wrap M (-a) : ℕ) : ℤ) + 1) : ℕ) : ℤ) + a) = wrap M 1 := by
    rw [hk2, hk, show -a + (M : ℤ) * k + 1 + (M : ℤ) * k2 + a = 1 + (M : ℤ) * (k + k2) by ring, wrap_add_mul]
  rw [e1, e2, ← cc_mod hM hN x x (-1) _, ← cc_mod hM hN x x 1 _]
  have := cc_self_neg hM hN x 1 (-(((wrap N (-b) : ℕ) : ℤ) + b))
  rw [neg_neg] at this
  rw [this]
  -- the column lag is 0 (mod N), so its sign does not matter
  obtain ⟨l, hl⟩ := wrap_cast_eq hN (-b)
  rw [cc_mod hM hN x x 1 (-_), cc_mod hM hN x x 1 (_ + b)]
  congr 1
  rw [hl]
  rw [show -(-b + (N : ℤ) * l + b) = 0 + (N : ℤ) * (-l) by ring, show -b + (N : ℤ) * l + b = 0 + (N : ℤ) * l by ring,
    wrap_add_mul, wrap_add_mul]

theorem corrTable_roll_col_symm {M N : ℕ} (hM : 0 < M) (hN : 0 < N) (x : ℕ → ℕ → ℝ) (a b : ℤ) :
    corrTable M N x (rollImg M N x a b) (wrap M (-a)) (wrap N (((wrap N (-b) : ℕ) : ℤ) - 1))
      = corrTable M N x (rollImg M N x a b) (wrap M (-a)) (wrap N (((wrap N (-b) : ℕ) : ℤ) + 1)) := by
  unfold corrTable
  rw [cc_roll hM hN, cc_roll hM hN, cc_mod hM hN, cc_mod hM hN x x _ (_ + b)]
  obtain ⟨k, hk⟩ := wrap_cast_eq hN (-b)
  obtain ⟨k1, hk1⟩ := wrap_cast_eq hN (((wrap N (-b) : ℕ) : ℤ) - 1)
  obtain ⟨k2, hk2⟩ := wrap_cast_eq hN (((wrap N (-b) : ℕ) : ℤ) + 1)
  have e1 : wrap N (((wrap N (((wrap N (-b) : ℕ) : ℤ) - 1) : ℕ) : ℤ) + b) = wrap N (-1) := by
    rw [hk1, hk, show -b + (N : ℤ) * k - 1 + (N : ℤ) * k1 + b = -1 + (N : ℤ) * (k + k1) by ring, wrap_add_mul]
  have e2 : wrap N (((wrap N (((wrap N (-b) : ℕ) : ℤ) + 1) : ℕ) : ℤ) + b) = wrap N 1 := by
    rw [hk2, hk, show -b + (N : ℤ) * k + 1 + (N : ℤ) * k2 + b = 1 + (N : ℤ) * (k + k2) by ring, wrap_add_mul]
  rw [e1, e2, ← cc_mod hM hN x x _ (-1), ← cc_mod hM hN x x _ 1]
  have := cc_self_neg hM hN x (-(((wrap M (-a) : ℕ) : ℤ) + a)) 1
  rw [neg_neg] at this
  rw [this]
  obtain ⟨l, hl⟩ := wrap_cast_eq hM (-a)
  rw [cc_mod hM hN x x (-_) 1, cc_mod hM hN x x (_ + a) 1]
  congr 1
  rw [hl]
  rw [show -(-a + (M : ℤ) * l + a) = 0 + (M : ℤ) * (-l) by ring, show -a + (M : ℤ) * l + a = 0 + (M : ℤ) * l by ring,
    wrap_add_mul, wrap_add_mul]

/-- centring an in-cell integer position gives the centred representative -/
theorem centre_nat_isRep {M s : ℕ} (hs : s < M) (k : ℤ) (hk : (M : ℤ) ∣ ((s : ℤ) - k)) :
    IsCentredRep M k (centre (s : ℝ) M) := by
  have hM : 0 < M := by omega
  have hm : (0 : ℝ) < M := by positivity
  have h0 : (0 : ℝ) ≤ (s : ℝ) := by positivity
  have h1 : (s : ℝ) < M := by exact_mod_cast hs
  rw [centre_of_mem h0 h1]
  set n := ⌊((s : ℝ) + (M : ℝ) / 2) / (M : ℝ)⌋ with hn
  have hl := Int.floor_le (((s : ℝ) + (M : ℝ) / 2) / (M : ℝ))
  have hu := Int.lt_floor_add_one (((s : ℝ) + (M : ℝ) / 2) / (M : ℝ))
  rw [← hn] at hl hu
  rw [le_div_iff₀ hm] at hl
  rw [div_lt_iff₀ hm] at hu
  refine ⟨(s : ℤ) - (M : ℤ) * n, by push_cast; ring, ?_, ?_, ?_⟩
  · have : (s : ℤ) - (M : ℤ) * n - k = ((s : ℤ) - k) - (M : ℤ) * n := by ring
    rw [this]
    exact dvd_sub hk (dvd_mul_right _ _)
  · have : (-(M : ℝ)) ≤ 2 * ((s : ℝ) - (M : ℝ) * n) := by linarith
    exact_mod_cast this
  · have : 2 * ((s : ℝ) - (M : ℝ) * n) < (M : ℝ) := by linarith
    exact_mod_cast this

theorem roundHalfEven_int (n : ℤ) : roundHalfEven ((n : ℝ)) = n := by
  unfold roundHalfEven
  simp

theorem wrap_neg_dvd {M : ℕ} (hM : 0 < M) (a : ℤ) : (M : ℤ) ∣ (((wrap M (-a) : ℕ) : ℤ) - -a) := by
  obtain ⟨k, hk⟩ := wrap_cast_eq hM (-a)
  rw [hk]; exact ⟨k, by ring⟩

/-! ### swapping the two images -/
theorem corrTable_swap {M N : ℕ} (hM : 0 < M) (hN : 0 < N) (x y : ℕ → ℕ → ℝ) (s t : ℕ) :
    corrTable M N y x s t = corrTable M N x y (wrap M (-(s : ℤ))) (wrap N (-(t : ℤ))) := by
  unfold corrTable
  rw [cc_swap hM hN, cc_mod hM hN]

theorem wrap_neg_neg {M s : ℕ} (hM : 0 < M) (hs : s < M) : wrap M (-((wrap M (-(s : ℤ)) : ℕ) : ℤ)) = s := by
  obtain ⟨k, hk⟩ := wrap_cast_eq hM (-(s : ℤ))
  rw [hk, show -(-(s : ℤ) + (M : ℤ) * k) = (s : ℤ) + (M : ℤ) * (-k) by ring, wrap_add_mul, wrap_of_lt hs]

/-- mirrored tables have mirrored unique maxima -/
theorem uniqueMax_mirror {M N : ℕ} (hM : 0 < M) (hN : 0 < N) {c c' : ℕ → ℕ → ℝ}
    (hrel : ∀ s t, c' s t = c (wrap M (-(s : ℤ))) (wrap N (-(t : ℤ)))) {p q : ℕ}
    (h : UniqueMaxAt M N c p q) : UniqueMaxAt M N c' (wrap M (-(p : ℤ))) (wrap N (-(q : ℤ))) := by
  obtain ⟨hp, hq, hmax⟩ := h
  refine ⟨wrap_lt hM _, wrap_lt hN _, ?_⟩
  intro s t hs ht hne
  rw [hrel, hrel, wrap_neg_neg hM hp, wrap_neg_neg hN hq]
  apply hmax _ _ (wrap_lt hM _) (wrap_lt hN _)
  by_contra hcon
  rw [not_or, not_not, not_not] at hcon
  rcases hne with h | h
  · apply h; rw [← hcon.1, wrap_neg_neg hM hs]
  · apply h; rw [← hcon.2, wrap_neg_neg hN ht]

/-- **swap, coarse NumPy stage**: if `c'` is the mirrored table of `c` (what swapping the images
does to `cc_real`) and `c` has a unique maximum, the final shifts are negated, except at the
`-M/2` centring tie. -/
theorem shiftNp1_mirror {M N : ℕ} (hM : 0 < M) (hN : 0 < N) {c c' : ℕ → ℕ → ℝ}
    (hrel : ∀ s t, c' s t = c (wrap M (-(s : ℤ))) (wrap N (-(t : ℤ)))) {p q : ℕ}
    (h : UniqueMaxAt M N c p q) :
    ((shiftNp1 M N c c).1 ≠ -((M : ℝ) / 2) → (shiftNp1 M N c' c').1 = -(shiftNp1 M N c c).1) ∧
    ((shiftNp1 M N c c).2 ≠ -((N : ℝ) / 2) → (shiftNp1 M N c' c').2 = -(shiftNp1 M N c c).2) := by
  have h' := uniqueMax_mirror hM hN hrel h
  have hpk : argmax2 M N c = (p, q) := argmax2_unique h
  have hpk' : argmax2 M N c' = (wrap M (-(p : ℤ)), wrap N (-(q : ℤ))) := argmax2_unique h'
  obtain ⟨hp, hq, _⟩ := h
  obtain ⟨k, hk⟩ := wrap_cast_eq hM (-(p : ℤ))
  obtain ⟨l, hl⟩ := wrap_cast_eq hN (-(q : ℤ))
  -- neighbours of the mirrored peak are the mirrored neighbours of the peak
  have n1 : wrap M (-((wrap M (((wrap M (-(p : ℤ)) : ℕ) : ℤ) - 1) : ℕ) : ℤ)) = wrap M ((p : ℤ) + 1) := by
    obtain ⟨k1, hk1⟩ := wrap_cast_eq hM (((wrap M (-(p : ℤ)) : ℕ) : ℤ) - 1)
    rw [hk1, hk, show -(-(p : ℤ) + (M : ℤ) * k - 1 + (M : ℤ) * k1) = (p : ℤ) + 1 + (M : ℤ) * (-k - k1) by ring, wrap_add_mul]
  have n2 : wrap M (-((wrap M (((wrap M (-(p : ℤ)) : ℕ) : ℤ) + 1) : ℕ) : ℤ)) = wrap M ((p : ℤ) - 1) := by
    obtain ⟨k1, hk1⟩ := wrap_cast_eq hM (((wrap M (-(p : ℤ)) : ℕ) : ℤ) + 1)
    rw [hk1, hk, show -(-(p : ℤ) + (M : ℤ) * k + 1 + (M : ℤ) * k1) = (p : ℤ) - 1 + (M : ℤ) * (-k - k1) by ring, wrap_add_mul]
  have m1 : wrap N (-((wrap N (((wrap N (-(q : ℤ)) : ℕ) : ℤ) - 1) : ℕ) : ℤ)) = wrap N ((q : ℤ) + 1) := by
    obtain ⟨k1, hk1⟩ := wrap_cast_eq hN (((wrap N (-(q : ℤ)) : ℕ) : ℤ) - 1)
    rw [hk1, hl, show -(-(q : ℤ) + (N : ℤ) * l - 1 + (N : ℤ) * k1) = (q : ℤ) + 1 + (N : ℤ) * (-l - k1) by ring, wrap_add_mul]
  have m2 : wrap N (-((wrap N (((wrap N (-(q : ℤ)) : ℕ) : ℤ) + 1) : ℕ) : ℤ)) = wrap N ((q : ℤ) - 1) := by
    obtain ⟨k1, hk1⟩ := wrap_cast_eq hN (((wrap N (-(q : ℤ)) : ℕ) : ℤ) + 1)
    rw [hk1, hl, show -(-(q : ℤ) + (N : ℤ) * l + 1 + (N : ℤ) * k1) = (q : ℤ) - 1 + (N : ℤ) * (-l - k1) by ring, wrap_add_mul]
  have hkR : (((wrap M (-(p : ℤ)) : ℕ) : ℝ)) = -(p : ℝ) + (M : ℝ) * k := by exact_mod_cast hk
  have hlR : (((wrap N (-(q : ℤ)) : ℕ) : ℝ)) = -(q : ℝ) + (N : ℝ) * l := by exact_mod_cast hl
  constructor
  · intro htie
    simp only [shiftNp1, coarseNp, hpk, hpk'] at htie ⊢
    rw [hrel, hrel, hrel, n1, n2, wrap_neg_neg hM hp, wrap_neg_neg hN hq, parabolic_swap]
    simp only [NumReal.ofNat_eq, NumReal.add_eq] at htie ⊢
    rw [hkR, show -(p : ℝ) + (M : ℝ) * k + -parabolic (c (wrap M ((p : ℤ) - 1)) q) (c p q) (c (wrap M ((p : ℤ) + 1)) q)
          = -((p : ℝ) + parabolic (c (wrap M ((p : ℤ) - 1)) q) (c p q) (c (wrap M ((p : ℤ) + 1)) q)) + (M : ℝ) * k by ring,
      pmod_add_mul _ hM]
    exact centre_pmod_neg _ hM htie
  · intro htie
    simp only [shiftNp1, coarseNp, hpk, hpk'] at htie ⊢
    rw [hrel, hrel, hrel, m1, m2, wrap_neg_neg hM hp, wrap_neg_neg hN hq, parabolic_swap]
    simp only [NumReal.ofNat_eq, NumReal.add_eq] at htie ⊢
    rw [hlR, show -(q : ℝ) + (N : ℝ) * l + -parabolic (c p (wrap N ((q : ℤ) - 1))) (c p q) (c p (wrap N ((q : ℤ) + 1)))
          = -((q : ℝ) + parabolic (c p (wrap N ((q : ℤ) - 1))) (c p q) (c p (wrap N ((q : ℤ) + 1)))) + (N : ℝ) * l by ring,
      pmod_add_mul _ hN]
    exact centre_pmod_neg _ hN htie

/-- the refined coarse position for a rolled copy is the integer peak itself (the parabolic
term vanishes by symmetry) -/
theorem coarseNp_roll {M N : ℕ} (hM : 0 < M) (hN : 0 < N) (x : ℕ → ℕ → ℝ)
    (hx : UniquePeak M N x) (a b : ℤ) :
    (coarseNp M N (corrTable M N x (rollImg M N x a b)) (corrTable M N x (rollImg M N x a b))).x
        = ((wrap M (-a) : ℕ) : ℝ) ∧
    (coarseNp M N (corrTable M N x (rollImg M N x a b)) (corrTable M N x (rollImg M N x a b))).y
        = ((wrap N (-b) : ℕ) : ℝ) := by
  have hmax := corrTable_roll_uniqueMax hM hN x hx a b
  have hpk := argmax2_unique hmax
  have hrow := corrTable_roll_row_symm hM hN x a b
  have hcol := corrTable_roll_col_symm hM hN x a b
  constructor
  · simp only [coarseNp, hpk]
    rw [hrow, parabolic_symm]
    simp only [NumReal.ofNat_eq, add_zero]
    rw [pmod_of_mem (by positivity) (by exact_mod_cast wrap_lt hM (-a))]
  · simp only [coarseNp, hpk]
    rw [hcol, parabolic_symm]
    simp only [NumReal.ofNat_eq, add_zero]
    rw [pmod_of_mem (by positivity) (by exact_mod_cast wrap_lt hN (-b))]

theorem coarseTorch_roll {M N : ℕ} (hM : 0 < M) (hN : 0 < N) (x : ℕ → ℕ → ℝ)
    (hx : UniquePeak M N x) (a b : ℤ) :
    (coarseTorch M N (corrTable M N x (rollImg M N x a b))).x = ((wrap M (-a) : ℕ) : ℝ) ∧
    (coarseTorch M N (corrTable M N x (rollImg M N x a b))).y = ((wrap N (-b) : ℕ) : ℝ) := by
  have hmax := corrTable_roll_uniqueMax hM hN x hx a b
  have hpk := argmax2_unique hmax
  have hrow := corrTable_roll_row_symm hM hN x a b
  have hcol := corrTable_roll_col_symm hM hN x a b
  have hround : ∀ n : ℕ, ((roundHalfEven (((n : ℝ) + 0) * 2) : ℤ) : ℝ) / 2 = (n : ℝ) := by
    intro n
    have : ((n : ℝ) + 0) * 2 = (((2 * n : ℕ) : ℤ) : ℝ) := by push_cast; ring
    rw [this, roundHalfEven_int]; push_cast; ring
  constructor
  · simp only [coarseTorch, hpk]
    rw [hrow, parabolicT_symm]
    simp only [NumReal.ofNat_eq, NumReal.add_eq, NumReal.mul_eq, NumReal.div_eq, NumReal.two_eq, NumReal.ofInt_eq]
    rw [hround]
  · simp only [coarseTorch, hpk]
    rw [hcol, parabolicT_symm]
    simp only [NumReal.ofNat_eq, NumReal.add_eq, NumReal.mul_eq, NumReal.div_eq, NumReal.two_eq, NumReal.ofInt_eq]
    rw [hround]

/-- a rolled copy by `(0, 0)` has the same correlation table -/
theorem corrTable_roll_zero {M N : ℕ} (hM : 0 < M) (hN : 0 < N) (x : ℕ → ℕ → ℝ) :
    corrTable M N x (rollImg M N x 0 0) = corrTable M N x x := by
  funext s t
  unfold corrTable
  rw [cc_roll hM hN, add_zero, add_zero]

theorem centre_zero {M : ℕ} (hM : 0 < M) : centre (0 : ℝ) M = 0 := by
  have hm : (0 : ℝ) < M := by positivity
  rw [centre_of_mem (le_refl _) hm]
  have : ((0 : ℝ) + (M : ℝ) / 2) / (M : ℝ) = 1 / 2 := by field_simp; ring
  rw [this]
  have : ⌊(1 / 2 : ℝ)⌋ = 0 := by
    rw [Int.floor_eq_iff]; constructor <;> norm_num
  rw [this]; simp

/-! ### the matrix-multiply DFT patch at `ℝ` -/
@[simp] theorem cx_add_re (a b : Cx ℝ) : (a + b).re = a.re + b.re := rfl
@[simp] theorem cx_add_im (a b : Cx ℝ) : (a + b).im = a.im + b.im := rfl
@[simp] theorem cx_mul_re (a b : Cx ℝ) : (a * b).re = a.re * b.re - a.im * b.im := rfl
@[simp] theorem cx_mul_im (a b : Cx ℝ) : (a * b).im = a.re * b.im + a.im * b.re := rfl
@[simp] theorem cx_conj_re (a : Cx ℝ) : (Cx.conj a).re = a.re := rfl
@[simp] theorem cx_conj_im (a : Cx ℝ) : (Cx.conj a).im = -a.im := rfl
@[simp] theorem cx_cis_re (θ : ℝ) : (Cx.cis θ).re = Real.cos θ := rfl
@[simp] theorem cx_cis_im (θ : ℝ) : (Cx.cis θ).im = Real.sin θ := rfl
@[simp] theorem cx_zero_re : (Cx.zero : Cx ℝ).re = 0 := by simp [Cx.zero]
@[simp] theorem cx_zero_im : (Cx.zero : Cx ℝ).im = 0 := by simp [Cx.zero]

theorem csum_re (n : ℕ) (f : ℕ → Cx ℝ) : (csum n f).re = ∑ i ∈ range n, (f i).re := by
  induction n with
  | zero => simp [csum]
  | succ n ih => simp [csum, ih, Finset.sum_range_succ]

theorem csum_im (n : ℕ) (f : ℕ → Cx ℝ) : (csum n f).im = ∑ i ∈ range n, (f i).im := by
  induction n with
  | zero => simp [csum]
  | succ n ih => simp [csum, ih, Finset.sum_range_succ]

/-- phase of one kernel entry -/
noncomputable def kphase (M up : ℕ) (sgn : ℤ) (pos : ℝ) (k : ℕ) : ℝ :=
  ((sgn : ℝ) * (2 * Real.pi) / ((M * up : ℕ) : ℝ)) * (pos * (freq M k : ℝ))

theorem kern_eq (M up : ℕ) (sgn : ℤ) (pos : ℝ) (k : ℕ) :
    kern M up sgn pos k = Cx.cis (kphase M up sgn pos k) := by
  simp [kern, kphase]

theorem kphase_zero (M up : ℕ) (sgn : ℤ) (k : ℕ) : kphase M up sgn 0 k = 0 := by simp [kphase]

theorem kphase_neg (M up : ℕ) (sgn : ℤ) (pos : ℝ) (k : ℕ) :
    kphase M up sgn (-pos) k = -kphase M up sgn pos k := by simp [kphase]

/-- for a real Fourier table (`im = 0`, e.g. `|G|²`) the patch is a cosine sum -/
theorem patchAt_real (M N up : ℕ) (sgn : ℤ) (F : ℕ → ℕ → Cx ℝ) (hF : ∀ k l, (F k l).im = 0) (px py : ℝ) :
    patchAt M N up sgn F px py
      = ∑ l ∈ range N, ∑ k ∈ range M,
          (F k l).re * Real.cos (kphase M up sgn px k + kphase N up sgn py l) := by
  unfold patchAt colStage colStageK rowStage rowStageK
  rw [csum_re]
  refine Finset.sum_congr rfl fun l _ => ?_
  rw [cx_mul_re, csum_re, csum_im, Finset.sum_mul, Finset.sum_mul, ← Finset.sum_sub_distrib]
  refine Finset.sum_congr rfl fun k _ => ?_
  rw [kern_eq, kern_eq]
  simp only [cx_mul_re, cx_mul_im, cx_cis_re, cx_cis_im, hF, Real.cos_add]
  ring

theorem patchAt_le_centre (M N up : ℕ) (sgn : ℤ) (F : ℕ → ℕ → Cx ℝ) (hF : ∀ k l, (F k l).im = 0)
    (hpos : ∀ k l, 0 ≤ (F k l).re) (px py : ℝ) :
    patchAt M N up sgn F px py ≤ patchAt M N up sgn F 0 0 := by
  rw [patchAt_real _ _ _ _ _ hF, patchAt_real _ _ _ _ _ hF]
  refine Finset.sum_le_sum fun l _ => Finset.sum_le_sum fun k _ => ?_
  rw [kphase_zero, kphase_zero, add_zero, Real.cos_zero, mul_one]
  exact mul_le_of_le_one_right (hpos k l) (Real.cos_le_one _)

theorem patchAt_row_even (M N up : ℕ) (sgn : ℤ) (F : ℕ → ℕ → Cx ℝ) (hF : ∀ k l, (F k l).im = 0) (px : ℝ) :
    patchAt M N up sgn F (-px) 0 = patchAt M N up sgn F px 0 := by
  rw [patchAt_real _ _ _ _ _ hF, patchAt_real _ _ _ _ _ hF]
  refine Finset.sum_congr rfl fun l _ => Finset.sum_congr rfl fun k _ => ?_
  rw [kphase_zero, add_zero, add_zero, kphase_neg, Real.cos_neg]

theorem patchAt_col_even (M N up : ℕ) (sgn : ℤ) (F : ℕ → ℕ → Cx ℝ) (hF : ∀ k l, (F k l).im = 0) (py : ℝ) :
    patchAt M N up sgn F 0 (-py) = patchAt M N up sgn F 0 py := by
  rw [patchAt_real _ _ _ _ _ hF, patchAt_real _ _ _ _ _ hF]
  refine Finset.sum_congr rfl fun l _ => Finset.sum_congr rfl fun k _ => ?_
  rw [kphase_zero, zero_add, zero_add, kphase_neg, Real.cos_neg]

/-- `G · conj(G) = |G|²` is real and non-negative (the Fourier-domain product of identical images) -/
theorem ccF_self_im (G : ℕ → ℕ → Cx ℝ) (k l : ℕ) : (ccF G G k l).im = 0 := by
  simp [ccF]; ring

theorem ccF_self_re (G : ℕ → ℕ → Cx ℝ) (k l : ℕ) : 0 ≤ (ccF G G k l).re := by
  simp only [ccF, cx_mul_re, cx_conj_re, cx_conj_im]
  nlinarith [mul_self_nonneg (G k l).re, mul_self_nonneg (G k l).im]

theorem conjF_self_im (G : ℕ → ℕ → Cx ℝ) (k l : ℕ) : (conjF (ccF G G) k l).im = 0 := by
  simp [conjF, ccF]; ring

theorem conjF_self_re (G : ℕ → ℕ → Cx ℝ) (k l : ℕ) : 0 ≤ (conjF (ccF G G) k l).re := by
  simp only [conjF, cx_conj_re]; exact ccF_self_re G k l

/-- grid arithmetic, NumPy: with a zero coarse position the sample position of index `u` is `u - du` -/
theorem posNp_zero (up u : ℕ) : posNp up (0 : ℝ) u = ((u : ℤ) - (du up : ℤ) : ℤ) := by
  simp [posNp]

theorem du_pos {up : ℕ} (h : 1 ≤ up) : 2 ≤ du up := by unfold du; omega

theorem finalNp_centre (up : ℕ) : finalNp up (0 : ℝ) (du up) 0 = 0 := by
  have : (sideNp up / 2 : ℕ) = du up := by unfold sideNp; omega
  simp [finalNp, this]

theorem snapTorch_zero (up : ℕ) : snapTorch up (0 : ℝ) = 0 := by
  have : roundHalfEven ((0 : ℝ)) = 0 := by simpa using roundHalfEven_int 0
  simp [snapTorch, this]

theorem posTorch_centre (up j : ℕ) : posTorch (centerTorch up (0 : ℝ)) j = ((j : ℤ) - (gShift up : ℤ) : ℤ) := by
  simp [posTorch, centerTorch]

theorem finalTorch_centre (up : ℕ) : finalTorch up (0 : ℝ) (gShift up) 0 = 0 := by
  simp [finalTorch]

/-! ### identical images: the whole NumPy pipeline, with an arbitrary search table -/

theorem uniquePeak_uniqueMax {M N : ℕ} (hM : 0 < M) (hN : 0 < N) (x : ℕ → ℕ → ℝ) (hx : UniquePeak M N x) :
    UniqueMaxAt M N (corrTable M N x x) 0 0 := by
  have h := corrTable_roll_uniqueMax hM hN x hx 0 0
  rw [corrTable_roll_zero hM hN] at h
  simpa [wrap_zero] using h

theorem freq_zero {M : ℕ} (hM : 0 < M) : freq M 0 = 0 := by
  unfold freq
  rw [Nat.zero_add, Nat.mod_eq_of_lt (Nat.div_lt_self hM (by norm_num))]
  simp

/-- the `max_shift` mask keeps a positive unique maximum at zero lag -/
theorem masked_uniqueMax_zero {M N : ℕ} (hM : 0 < M) (hN : 0 < N) (c : ℕ → ℕ → ℝ) (ms : Option ℝ)
    (hms : ∀ m, ms = some m → 0 < m) (hc : UniqueMaxAt M N c 0 0) (hpos : 0 < c 0 0) :
    UniqueMaxAt M N (masked M N ms c) 0 0 := by
  cases ms with
  | none =>
    have : masked M N none c = c := by funext s t; simp [masked]
    rw [this]; exact hc
  | some m =>
    have hm := hms m rfl
    obtain ⟨h0, h0', hmax⟩ := hc
    have hz : masked M N (some m) c 0 0 = c 0 0 := by
      simp only [masked, freq_zero hM, freq_zero hN]
      have : (0 : ℝ) < m * m := mul_pos hm hm
      simp [this]
    refine ⟨h0, h0', ?_⟩
    intro s t hs ht hne
    rw [hz]
    simp only [masked]
    split
    · exact hmax s t hs ht hne
    · simpa using hpos

theorem coarseNp_identical {M N : ℕ} (hM : 0 < M) (hN : 0 < N) (x : ℕ → ℕ → ℝ)
    (cs : ℕ → ℕ → ℝ) (hcs : UniqueMaxAt M N cs 0 0) :
    (coarseNp M N cs (corrTable M N x x)).x = 0 ∧ (coarseNp M N cs (corrTable M N x x)).y = 0 := by
  have hpk := argmax2_unique hcs
  have hrow := corrTable_roll_row_symm hM hN x 0 0
  have hcol := corrTable_roll_col_symm hM hN x 0 0
  rw [corrTable_roll_zero hM hN] at hrow hcol
  simp only [neg_zero, wrap_zero] at hrow hcol
  constructor
  · simp only [coarseNp, hpk]
    rw [hrow, parabolic_symm]
    simp only [NumReal.ofNat_eq, add_zero, Nat.cast_zero]
    exact pmod_of_mem (le_refl _) (by positivity)
  · simp only [coarseNp, hpk]
    rw [hcol, parabolic_symm]
    simp only [NumReal.ofNat_eq, add_zero, Nat.cast_zero]
    exact pmod_of_mem (le_refl _) (by positivity)

theorem shiftNp1_identical {M N : ℕ} (hM : 0 < M) (hN : 0 < N) (x : ℕ → ℕ → ℝ)
    (cs : ℕ → ℕ → ℝ) (hcs : UniqueMaxAt M N cs 0 0) :
    shiftNp1 M N cs (corrTable M N x x) = (0, 0) := by
  have h := coarseNp_identical hM hN x cs hcs
  unfold shiftNp1
  simp only [h.1, h.2, centre_zero hM, centre_zero hN]

/-- the two neighbours the sub-pixel parabola reads around the centre of the patch are equal -/
theorem patchNp_identical_sym (M N up : ℕ) (hup : 1 ≤ up) (G : ℕ → ℕ → Cx ℝ) :
    patchNp M N up (ccF G G) 0 0 (du up - 1) (du up) = patchNp M N up (ccF G G) 0 0 (du up + 1) (du up) ∧
    patchNp M N up (ccF G G) 0 0 (du up) (du up - 1) = patchNp M N up (ccF G G) 0 0 (du up) (du up + 1) := by
  have hF := ccF_self_im G
  have hc : posNp up (0 : ℝ) (du up) = 0 := by rw [posNp_zero]; simp
  have h1 : posNp up (0 : ℝ) (du up - 1) = -posNp up (0 : ℝ) (du up + 1) := by
    rw [posNp_zero, posNp_zero]
    have : 1 ≤ du up := by have := du_pos hup; omega
    push_cast [Nat.cast_sub this]; ring
  constructor
  · show patchAt M N up 1 (ccF G G) _ _ = patchAt M N up 1 (ccF G G) _ _
    rw [hc, h1, patchAt_row_even _ _ _ _ _ hF]
  · show patchAt M N up 1 (ccF G G) _ _ = patchAt M N up 1 (ccF G G) _ _
    rw [hc, h1, patchAt_col_even _ _ _ _ _ hF]

theorem upsampledNpOf_identical (M N up : ℕ) (hup : 1 ≤ up) (G : ℕ → ℕ → Cx ℝ)
    (hstrict : UniqueMaxAt (sideNp up) (sideNp up) (patchNp M N up (ccF G G) 0 0) (du up) (du up)) :
    upsampledNpOf up 0 0 (patchNp M N up (ccF G G) 0 0) = (0, 0) := by
  obtain ⟨hsym1, hsym2⟩ := patchNp_identical_sym M N up hup G
  have hdu := du_pos hup
  unfold upsampledNpOf
  simp only [argmax2_unique hstrict]
  have hcond : 1 ≤ du up ∧ du up + 2 ≤ sideNp up ∧ 1 ≤ du up ∧ du up + 2 ≤ sideNp up := by
    unfold sideNp; omega
  simp only [patchRefine, hcond, and_self, if_true]
  rw [hsym1, hsym2, parabolic_symm, parabolic_symm, finalNp_centre]

theorem shiftNpUp_identical {M N : ℕ} (hM : 0 < M) (hN : 0 < N) (x : ℕ → ℕ → ℝ)
    (cs : ℕ → ℕ → ℝ) (hcs : UniqueMaxAt M N cs 0 0) (up : ℕ) (hup : 1 ≤ up) (G : ℕ → ℕ → Cx ℝ)
    (hstrict : UniqueMaxAt (sideNp up) (sideNp up) (patchNp M N up (ccF G G) 0 0) (du up) (du up)) :
    shiftNpUp M N up cs (corrTable M N x x) (ccF G G) = (0, 0) := by
  have h := coarseNp_identical hM hN x cs hcs
  unfold shiftNpUp
  simp only [h.1, h.2]
  rw [upsampledNpOf_identical M N up hup G hstrict, centre_zero hM, centre_zero hN]

/-! ### when is the maximum of the upsampled patch strict? -/

/-- exact characterisation: a patch entry is strictly below the zero-offset entry iff some Fourier
coefficient with positive weight sees a phase that is not a multiple of `2π` -/
theorem patchAt_lt_centre_iff (M N up : ℕ) (sgn : ℤ) (F : ℕ → ℕ → Cx ℝ) (hF : ∀ k l, (F k l).im = 0)
    (hpos : ∀ k l, 0 ≤ (F k l).re) (px py : ℝ) :
    patchAt M N up sgn F px py < patchAt M N up sgn F 0 0 ↔
      ∃ k, k < M ∧ ∃ l, l < N ∧ 0 < (F k l).re ∧
        Real.cos (kphase M up sgn px k + kphase N up sgn py l) ≠ 1 := by
  rw [patchAt_real _ _ _ _ _ hF, patchAt_real _ _ _ _ _ hF]
  simp only [kphase_zero, add_zero, Real.cos_zero, mul_one]
  have hle : ∀ l k, (F k l).re * Real.cos (kphase M up sgn px k + kphase N up sgn py l) ≤ (F k l).re :=
    fun l k => mul_le_of_le_one_right (hpos k l) (Real.cos_le_one _)
  constructor
  · intro hlt
    by_contra hcon
    have hall : ∀ k, k < M → ∀ l, l < N →
        (F k l).re * Real.cos (kphase M up sgn px k + kphase N up sgn py l) = (F k l).re := by
      intro k hk l hl
      by_contra hne
      apply hcon
      refine ⟨k, hk, l, hl, ?_, ?_⟩
      · rcases (hpos k l).lt_or_eq with h | h
        · exact h
        · exfalso; apply hne; rw [← h]; simp
      · intro h1; apply hne; rw [h1, mul_one]
    have : ∑ l ∈ range N, ∑ k ∈ range M, (F k l).re * Real.cos (kphase M up sgn px k + kphase N up sgn py l)
        = ∑ l ∈ range N, ∑ k ∈ range M, (F k l).re :=
      Finset.sum_congr rfl fun l hl => Finset.sum_congr rfl fun k hk => hall k (mem_range.mp hk) l (mem_range.mp hl)
    rw [this] at hlt
    exact lt_irrefl _ hlt
  · rintro ⟨k, hk, l, hl, hc, hne⟩
    apply Finset.sum_lt_sum
    · intro l' _; exact Finset.sum_le_sum fun k' _ => hle l' k'
    · refine ⟨l, mem_range.mpr hl, ?_⟩
      apply Finset.sum_lt_sum
      · intro k' _; exact hle l k'
      · refine ⟨k, mem_range.mpr hk, ?_⟩
        have hlt : Real.cos (kphase M up sgn px k + kphase N up sgn py l) < 1 :=
          lt_of_le_of_ne (Real.cos_le_one _) hne
        nlinarith

/-- for integer offsets `(p, q)` (in upsampled pixels) the phase of coefficient `(k, l)` is a multiple
of `2π` iff `M·N·up ∣ N·p·f_k + M·q·f_l` -/
theorem cos_kphase_eq_one_iff {M N up : ℕ} (hM : 0 < M) (hN : 0 < N) (hup : 0 < up) {sgn : ℤ}
    (hs : sgn = 1 ∨ sgn = -1) (p q : ℤ) (k l : ℕ) :
    Real.cos (kphase M up sgn (p : ℝ) k + kphase N up sgn (q : ℝ) l) = 1 ↔
      ((M * N * up : ℕ) : ℤ) ∣ (N : ℤ) * p * freq M k + (M : ℤ) * q * freq N l := by
  have hMr : (M : ℝ) ≠ 0 := by positivity
  have hNr : (N : ℝ) ≠ 0 := by positivity
  have hur : (up : ℝ) ≠ 0 := by positivity
  have hpi : (2 * Real.pi) ≠ 0 := by positivity
  have hss : sgn * sgn = 1 := by rcases hs with h | h <;> rw [h] <;> norm_num
  set A : ℤ := (N : ℤ) * p * freq M k + (M : ℤ) * q * freq N l with hA
  have hx : kphase M up sgn (p : ℝ) k + kphase N up sgn (q : ℝ) l
      = ((sgn * A : ℤ) : ℝ) / ((M * N * up : ℕ) : ℝ) * (2 * Real.pi) := by
    unfold kphase
    rw [hA]
    push_cast
    field_simp
  rw [Real.cos_eq_one_iff, hx]
  have hD : (((M * N * up : ℕ) : ℝ)) ≠ 0 := by positivity
  constructor
  · rintro ⟨n, hn⟩
    have h1 : (n : ℝ) = ((sgn * A : ℤ) : ℝ) / ((M * N * up : ℕ) : ℝ) := mul_right_cancel₀ hpi hn
    have h2 : ((n * ((M * N * up : ℕ) : ℤ) : ℤ) : ℝ) = ((sgn * A : ℤ) : ℝ) := by
      push_cast at h1 ⊢
      rw [h1]; field_simp
    have h3 : n * ((M * N * up : ℕ) : ℤ) = sgn * A := by exact_mod_cast h2
    refine ⟨sgn * n, ?_⟩
    have : A = sgn * (sgn * A) := by rw [← mul_assoc, hss, one_mul]
    rw [this, ← h3]; ring
  · rintro ⟨m, hm⟩
    refine ⟨sgn * m, ?_⟩
    congr 1
    rw [hm]
    push_cast
    field_simp

theorem freq_one {M : ℕ} (hM : 3 ≤ M) : freq M 1 = 1 := by
  unfold freq
  have : (1 + M / 2) % M = 1 + M / 2 := Nat.mod_eq_of_lt (by omega)
  rw [this]; push_cast; ring

theorem ccF_self_re_pos (G : ℕ → ℕ → Cx ℝ) (k l : ℕ) (h : (G k l).re ≠ 0 ∨ (G k l).im ≠ 0) :
    0 < (ccF G G k l).re := by
  simp only [ccF, cx_mul_re, cx_conj_re, cx_conj_im]
  rcases h with h | h
  · nlinarith [mul_self_nonneg (G k l).im, mul_self_pos.mpr h]
  · nlinarith [mul_self_nonneg (G k l).re, mul_self_pos.mpr h]

theorem ccF_self_re_pos_iff (G : ℕ → ℕ → Cx ℝ) (k l : ℕ) :
    0 < (ccF G G k l).re ↔ ((G k l).re ≠ 0 ∨ (G k l).im ≠ 0) := by
  constructor
  · intro h
    by_contra hcon
    rw [not_or, not_not, not_not] at hcon
    simp only [ccF, cx_mul_re, cx_conj_re, cx_conj_im, hcon.1, hcon.2] at h
    simp at h
  · exact ccF_self_re_pos G k l

/-- strict-maximum criterion for a `P × P` patch sampled at the integer offsets `u - c` -/
theorem uniqueMax_patch_iff {M N up : ℕ} (hM : 0 < M) (hN : 0 < N) (hup : 0 < up) {sgn : ℤ}
    (hs : sgn = 1 ∨ sgn = -1) (F : ℕ → ℕ → Cx ℝ) (hF : ∀ k l, (F k l).im = 0) (hpos : ∀ k l, 0 ≤ (F k l).re)
    (P c : ℕ) (hc : c < P) (pos : ℕ → ℝ) (hp : ∀ u, pos u = (((u : ℤ) - (c : ℤ) : ℤ) : ℝ)) :
    UniqueMaxAt P P (fun u v => patchAt M N up sgn F (pos u) (pos v)) c c ↔
      ∀ u v, u < P → v < P → (u ≠ c ∨ v ≠ c) →
        ∃ k, k < M ∧ ∃ l, l < N ∧ 0 < (F k l).re ∧
          ¬ (((M * N * up : ℕ) : ℤ) ∣ (N : ℤ) * ((u : ℤ) - c) * freq M k + (M : ℤ) * ((v : ℤ) - c) * freq N l) := by
  have hcz : pos c = 0 := by rw [hp]; simp
  unfold UniqueMaxAt
  simp only [hcz]
  constructor
  · rintro ⟨_, _, h⟩ u v hu hv hne
    have := (patchAt_lt_centre_iff M N up sgn F hF hpos (pos u) (pos v)).mp (h u v hu hv hne)
    obtain ⟨k, hk, l, hl, hre, hcos⟩ := this
    refine ⟨k, hk, l, hl, hre, ?_⟩
    rw [hp u, hp v] at hcos
    exact fun hd => hcos ((cos_kphase_eq_one_iff hM hN hup hs _ _ k l).mpr hd)
  · intro h
    refine ⟨hc, hc, ?_⟩
    intro u v hu hv hne
    obtain ⟨k, hk, l, hl, hre, hnd⟩ := h u v hu hv hne
    apply (patchAt_lt_centre_iff M N up sgn F hF hpos (pos u) (pos v)).mpr
    refine ⟨k, hk, l, hl, hre, ?_⟩
    rw [hp u, hp v]
    exact fun hcos => hnd ((cos_kphase_eq_one_iff hM hN hup hs _ _ k l).mp hcos)

/-- an offset smaller than `M·up` in absolute value is not a non-zero multiple of `M·up` -/
theorem not_dvd_axis {M N up : ℕ} (hM : 3 ≤ M) (hN : 0 < N) (p : ℤ) (hp0 : p ≠ 0)
    (hpb : |p| < 3 * (up : ℤ)) : ¬ (((M * N * up : ℕ) : ℤ) ∣ (N : ℤ) * p * 1 + (M : ℤ) * 0 * 0) := by
  intro hd
  have h1 : (N : ℤ) * ((M : ℤ) * up) ∣ (N : ℤ) * p := by
    have : ((M * N * up : ℕ) : ℤ) = (N : ℤ) * ((M : ℤ) * up) := by push_cast; ring
    rw [this] at hd
    simpa using hd
  have h2 : ((M : ℤ) * up) ∣ p := Int.dvd_of_mul_dvd_mul_left (by exact_mod_cast Nat.ne_of_gt hN) h1
  have h3 : |p| < (M : ℤ) * up := by
    have : (3 : ℤ) * up ≤ (M : ℤ) * up := by
      have : (3 : ℤ) ≤ M := by exact_mod_cast hM
      nlinarith [Int.natCast_nonneg up]
    linarith
  exact hp0 (Int.eq_zero_of_abs_lt_dvd h2 h3)

/-! ### swapping the images, torch variant: `torch.round` (half to even) is odd -/
theorem roundHalfEven_eq (x : ℝ) :
    roundHalfEven x = if x - ⌊x⌋ < 1 / 2 then ⌊x⌋ else if 1 / 2 < x - ⌊x⌋ then ⌊x⌋ + 1
      else if ⌊x⌋ % 2 = 0 then ⌊x⌋ else ⌊x⌋ + 1 := by
  simp [roundHalfEven]

theorem roundHalfEven_add_even (x : ℝ) (n : ℤ) : roundHalfEven (x + ((2 * n : ℤ) : ℝ)) = roundHalfEven x + 2 * n := by
  rw [roundHalfEven_eq, roundHalfEven_eq, Int.floor_add_intCast]
  have h1 : x + ((2 * n : ℤ) : ℝ) - ((⌊x⌋ + 2 * n : ℤ) : ℝ) = x - ⌊x⌋ := by push_cast; ring
  have h2 : (⌊x⌋ + 2 * n) % 2 = ⌊x⌋ % 2 := by omega
  rw [h1, h2]
  split_ifs <;> ring

theorem roundHalfEven_neg (x : ℝ) : roundHalfEven (-x) = -roundHalfEven x := by
  have hl := Int.floor_le x
  have hu := Int.lt_floor_add_one x
  by_cases h0 : x = (⌊x⌋ : ℝ)
  · -- integer
    have hx : roundHalfEven x = ⌊x⌋ := by rw [h0]; simpa using roundHalfEven_int ⌊x⌋
    have hnx : roundHalfEven (-x) = -⌊x⌋ := by
      rw [h0]; have := roundHalfEven_int (-⌊x⌋); push_cast at this; simpa using this
    rw [hx, hnx]
  · have hpos : (⌊x⌋ : ℝ) < x := lt_of_le_of_ne hl (Ne.symm h0)
    have hfl : ⌊-x⌋ = -⌊x⌋ - 1 := by
      rw [Int.floor_eq_iff]; push_cast; constructor <;> linarith
    rw [roundHalfEven_eq (-x), roundHalfEven_eq x, hfl]
    have hr : -x - ((-⌊x⌋ - 1 : ℤ) : ℝ) = 1 - (x - ⌊x⌋) := by push_cast; ring
    rw [hr]
    have hpar : (-⌊x⌋ - 1) % 2 = 0 ↔ ¬ (⌊x⌋ % 2 = 0) := by omega
    by_cases c1 : x - ⌊x⌋ < 1 / 2
    · have : ¬ (1 - (x - ⌊x⌋) < 1 / 2) := by linarith
      have : (1 : ℝ) / 2 < 1 - (x - ⌊x⌋) := by linarith
      simp only [c1, if_true]
      rw [if_neg (by linarith), if_pos this]; ring
    · by_cases c2 : 1 / 2 < x - ⌊x⌋
      · have : 1 - (x - ⌊x⌋) < 1 / 2 := by linarith
        rw [if_pos this, if_neg c1, if_pos c2]; ring
      · have heq : x - ⌊x⌋ = 1 / 2 := le_antisymm (not_lt.mp c2) (not_lt.mp c1)
        rw [heq]
        norm_num
        by_cases hp : ⌊x⌋ % 2 = 0
        · rw [if_neg (hpar.not.mpr (not_not.mpr hp)), if_pos hp]; try ring
        · rw [if_pos (hpar.mpr hp), if_neg hp]; try ring

theorem parabolicT_swap (v0 v1 v2 : ℝ) : parabolicT v2 v1 v0 = -parabolicT v0 v1 v2 := by
  unfold parabolicT
  simp only [NumReal.ofRat_eq, NumReal.two_eq, NumReal.zero_eq, NumReal.mul_eq, NumReal.sub_eq, NumReal.div_eq]
  have hd : ((4 : ℚ) : ℝ) * v1 - 2 * v0 - 2 * v2 = ((4 : ℚ) : ℝ) * v1 - 2 * v2 - 2 * v0 := by ring
  rw [hd]
  split
  · rw [← neg_div]; congr 1; ring
  · simp

theorem centre_eq (y : ℝ) (M : ℕ) : centre y M = y - (M : ℝ) * ⌊(y + (M : ℝ) / 2) / (M : ℝ)⌋ := by
  unfold centre
  simp only [NumReal.ofRat_eq, NumReal.add_eq, NumReal.sub_eq]
  have h2 : (((M : ℚ) / 2 : ℚ) : ℝ) = (M : ℝ) / 2 := by push_cast; ring
  rw [pmod_eq, h2]; ring

theorem centre_add_mul (y : ℝ) {M : ℕ} (hM : 0 < M) (k : ℤ) : centre (y + (M : ℝ) * k) M = centre y M := by
  have hm : (M : ℝ) ≠ 0 := by positivity
  rw [centre_eq, centre_eq]
  have : (y + (M : ℝ) * k + (M : ℝ) / 2) / (M : ℝ) = (y + (M : ℝ) / 2) / (M : ℝ) + (k : ℝ) := by field_simp; ring
  rw [this, Int.floor_add_intCast]; push_cast; ring

theorem centre_neg (y : ℝ) {M : ℕ} (hM : 0 < M) (htie : centre y M ≠ -((M : ℝ) / 2)) :
    centre (-y) M = -centre y M := by
  have hm : (0 : ℝ) < M := by positivity
  have hm' : (M : ℝ) ≠ 0 := hm.ne'
  rw [centre_eq] at htie ⊢
  rw [centre_eq]
  set w := (y + (M : ℝ) / 2) / (M : ℝ) with hw
  have hw' : (-y + (M : ℝ) / 2) / (M : ℝ) = 1 - w := by rw [hw]; field_simp; ring
  have hne : w ≠ (⌊w⌋ : ℝ) := by
    intro h
    apply htie
    have : y = (M : ℝ) * w - (M : ℝ) / 2 := by rw [hw]; field_simp; ring
    rw [this, ← h]; ring
  have hfl : ⌊1 - w⌋ = -⌊w⌋ := by
    rw [Int.floor_eq_iff]
    have h1 := Int.floor_le w
    have h2 := Int.lt_floor_add_one w
    have h3 : (⌊w⌋ : ℝ) < w := lt_of_le_of_ne h1 (Ne.symm hne)
    push_cast
    constructor <;> linarith
  rw [hw', hfl]
  push_cast; ring

/-- **swap, torch variant (`upsample_factor ≤ 2`)** -/
theorem shiftTorch2_mirror {M N : ℕ} (hM : 0 < M) (hN : 0 < N) {c c' : ℕ → ℕ → ℝ}
    (hrel : ∀ s t, c' s t = c (wrap M (-(s : ℤ))) (wrap N (-(t : ℤ)))) {p q : ℕ}
    (h : UniqueMaxAt M N c p q) :
    ((shiftTorch2 M N c).1 ≠ -((M : ℝ) / 2) → (shiftTorch2 M N c').1 = -(shiftTorch2 M N c).1) ∧
    ((shiftTorch2 M N c).2 ≠ -((N : ℝ) / 2) → (shiftTorch2 M N c').2 = -(shiftTorch2 M N c).2) := by
  have h' := uniqueMax_mirror hM hN hrel h
  have hpk : argmax2 M N c = (p, q) := argmax2_unique h
  have hpk' : argmax2 M N c' = (wrap M (-(p : ℤ)), wrap N (-(q : ℤ))) := argmax2_unique h'
  obtain ⟨hp, hq, _⟩ := h
  obtain ⟨k, hk⟩ := wrap_cast_eq hM (-(p : ℤ))
  obtain ⟨l, hl⟩ := wrap_cast_eq hN (-(q : ℤ))
  have n1 : wrap M (-((wrap M (((wrap M (-(p : ℤ)) : ℕ) : ℤ) - 1) : ℕ) : ℤ)) = wrap M ((p : ℤ) + 1) := by
    obtain ⟨k1, hk1⟩ := wrap_cast_eq hM (((wrap M (-(p : ℤ)) : ℕ) : ℤ) - 1)
    rw [hk1, hk, show -(-(p : ℤ) + (M : ℤ) * k - 1 + (M : ℤ) * k1) = (p : ℤ) + 1 + (M : ℤ) * (-k - k1) by ring, wrap_add_mul]
  have n2 : wrap M (-((wrap M (((wrap M (-(p : ℤ)) : ℕ) : ℤ) + 1) : ℕ) : ℤ)) = wrap M ((p : ℤ) - 1) := by
    obtain ⟨k1, hk1⟩ := wrap_cast_eq hM (((wrap M (-(p : ℤ)) : ℕ) : ℤ) + 1)
    rw [hk1, hk, show -(-(p : ℤ) + (M : ℤ) * k + 1 + (M : ℤ) * k1) = (p : ℤ) - 1 + (M : ℤ) * (-k - k1) by ring, wrap_add_mul]
  have m1 : wrap N (-((wrap N (((wrap N (-(q : ℤ)) : ℕ) : ℤ) - 1) : ℕ) : ℤ)) = wrap N ((q : ℤ) + 1) := by
    obtain ⟨k1, hk1⟩ := wrap_cast_eq hN (((wrap N (-(q : ℤ)) : ℕ) : ℤ) - 1)
    rw [hk1, hl, show -(-(q : ℤ) + (N : ℤ) * l - 1 + (N : ℤ) * k1) = (q : ℤ) + 1 + (N : ℤ) * (-l - k1) by ring, wrap_add_mul]
  have m2 : wrap N (-((wrap N (((wrap N (-(q : ℤ)) : ℕ) : ℤ) + 1) : ℕ) : ℤ)) = wrap N ((q : ℤ) - 1) := by
    obtain ⟨k1, hk1⟩ := wrap_cast_eq hN (((wrap N (-(q : ℤ)) : ℕ) : ℤ) + 1)
    rw [hk1, hl, show -(-(q : ℤ) + (N : ℤ) * l + 1 + (N : ℤ) * k1) = (q : ℤ) - 1 + (N : ℤ) * (-l - k1) by ring, wrap_add_mul]
  have hkR : (((wrap M (-(p : ℤ)) : ℕ) : ℝ)) = -(p : ℝ) + (M : ℝ) * k := by exact_mod_cast hk
  have hlR : (((wrap N (-(q : ℤ)) : ℕ) : ℝ)) = -(q : ℝ) + (N : ℝ) * l := by exact_mod_cast hl
  -- the half-pixel rounding of the mirrored position
  have hround : ∀ (P : ℕ) (a d : ℝ) (j : ℤ),
      ((roundHalfEven ((-a + (P : ℝ) * j + -d) * 2) : ℤ) : ℝ) / 2
        = -(((roundHalfEven ((a + d) * 2) : ℤ) : ℝ) / 2) + (P : ℝ) * j := by
    intro P a d j
    have : (-a + (P : ℝ) * j + -d) * 2 = -((a + d) * 2) + ((2 * ((P : ℤ) * j) : ℤ) : ℝ) := by push_cast; ring
    rw [this, roundHalfEven_add_even, roundHalfEven_neg]
    push_cast; ring
  constructor
  · intro htie
    simp only [shiftTorch2, coarseTorch, hpk, hpk'] at htie ⊢
    rw [hrel, hrel, hrel, n1, n2, wrap_neg_neg hM hp, wrap_neg_neg hN hq, parabolicT_swap]
    simp only [NumReal.ofNat_eq, NumReal.add_eq, NumReal.mul_eq, NumReal.div_eq, NumReal.two_eq, NumReal.ofInt_eq] at htie ⊢
    rw [hkR, hround, centre_add_mul _ hM]
    exact centre_neg _ hM htie
  · intro htie
    simp only [shiftTorch2, coarseTorch, hpk, hpk'] at htie ⊢
    rw [hrel, hrel, hrel, m1, m2, wrap_neg_neg hM hp, wrap_neg_neg hN hq, parabolicT_swap]
    simp only [NumReal.ofNat_eq, NumReal.add_eq, NumReal.mul_eq, NumReal.div_eq, NumReal.two_eq, NumReal.ofInt_eq] at htie ⊢
    rw [hlR, hround, centre_add_mul _ hN]
    exact centre_neg _ hN htie

/-! ### intensity scale -/
theorem argmaxN_scale {lam : ℝ} (hl : 0 < lam) (n : ℕ) (f : ℕ → ℝ) :
    argmaxN n (fun i => lam * f i) = argmaxN n f := by
  induction n with
  | zero => rfl
  | succ n ih =>
    rw [argmaxN_succ, argmaxN_succ, ih]
    by_cases h : f (argmaxN n f) < f n
    · rw [if_pos h, if_pos ((mul_lt_mul_iff_right₀ hl).mpr h)]
    · rw [if_neg h, if_neg (fun h' => h ((mul_lt_mul_iff_right₀ hl).mp h'))]

theorem argmax2_scale {lam : ℝ} (hl : 0 < lam) (M N : ℕ) (c : ℕ → ℕ → ℝ) :
    argmax2 M N (fun s t => lam * c s t) = argmax2 M N c := by
  unfold argmax2
  rw [argmaxN_scale hl (M * N) (fun p => c (p / N) (p % N))]

theorem parabolic_scale {lam : ℝ} (hl : lam ≠ 0) (v0 v1 v2 : ℝ) :
    parabolic (lam * v0) (lam * v1) (lam * v2) = parabolic v0 v1 v2 := by
  rw [parabolic_eq, parabolic_eq]
  have : 4 * (lam * v1) - 2 * (lam * v2) - 2 * (lam * v0) = lam * (4 * v1 - 2 * v2 - 2 * v0) := by ring
  rw [this, ← mul_sub, mul_div_mul_left _ _ hl]

theorem parabolicT_scale {lam : ℝ} (hl : 0 < lam) (v0 v1 v2 : ℝ) :
    parabolicT (lam * v0) (lam * v1) (lam * v2) = parabolicT v0 v1 v2 := by
  unfold parabolicT
  simp only [NumReal.ofRat_eq, NumReal.two_eq, NumReal.zero_eq, NumReal.mul_eq, NumReal.sub_eq, NumReal.div_eq]
  have hd : ((4 : ℚ) : ℝ) * (lam * v1) - 2 * (lam * v2) - 2 * (lam * v0) = lam * (((4 : ℚ) : ℝ) * v1 - 2 * v2 - 2 * v0) := by ring
  rw [hd, ← mul_sub]
  set d := ((4 : ℚ) : ℝ) * v1 - 2 * v2 - 2 * v0
  have h1 : (lam * d < 0) ↔ d < 0 := by
    constructor
    · intro h; by_contra hc; push Not at hc; nlinarith
    · intro h; nlinarith
  have h2 : (0 < lam * d) ↔ 0 < d := by
    constructor
    · intro h; by_contra hc; push Not at hc; nlinarith
    · intro h; positivity
  simp only [Num.ltb, decide_eq_true_eq, Bool.or_eq_true, h1, h2]
  split
  · rw [mul_div_mul_left _ _ hl.ne']
  · rfl

theorem shiftNp1_scale {lam : ℝ} (hl : 0 < lam) (M N : ℕ) (cs c : ℕ → ℕ → ℝ) :
    shiftNp1 M N (fun s t => lam * cs s t) (fun s t => lam * c s t) = shiftNp1 M N cs c := by
  unfold shiftNp1 coarseNp
  simp only [argmax2_scale hl, parabolic_scale hl.ne']

theorem shiftTorch2_scale {lam : ℝ} (hl : 0 < lam) (M N : ℕ) (c : ℕ → ℕ → ℝ) :
    shiftTorch2 M N (fun s t => lam * c s t) = shiftTorch2 M N c := by
  unfold shiftTorch2 coarseTorch
  simp only [argmax2_scale hl, parabolicT_scale hl]

theorem corrTable_scale (M N : ℕ) (a : ℝ) (x y : ℕ → ℕ → ℝ) :
    corrTable M N (fun i j => a * x i j) (fun i j => a * y i j) = fun s t => (a * a) * corrTable M N x y s t := by
  funext s t
  unfold corrTable
  rw [cc_eq, cc_eq, Finset.mul_sum]
  refine Finset.sum_congr rfl fun i _ => ?_
  rw [Finset.mul_sum]
  exact Finset.sum_congr rfl fun j _ => by ring

end Registration
end QuantemModel
