/-
The serializer round trip (C01 `roundtrip`, C14 `skip_names_at_save`) instantiated at the
attribute view of a Ptychography object (`Checkpoint.toVal`).
-/
import QuantemModel.Model.Checkpoint
import QuantemModel.Props.C14

namespace QuantemModel.Checkpoint
open QuantemModel.Serialize

theorem wfItems_floatList : ∀ (bs : List Nat), wfItems (floatList bs) = true
  | [] => by simp [floatList, wfItems]
  | b :: bs => by
      have ih := wfItems_floatList bs
      simp [floatList] at ih
      simp [floatList, wfItems, containerOk, wfA, ih]

theorem wfKids_lrsDict : ∀ (d : List (String × List Nat)), wfKids (lrsDict d) = true
  | [] => by simp [lrsDict, wfKids]
  | (k, l) :: d => by
      have ih := wfKids_lrsDict d
      simp [lrsDict] at ih
      have := wfItems_floatList l
      simp [lrsDict, wfKids, containerOk, wfA, ih, this]

theorem canonList_floatList : ∀ (bs : List Nat), canonList (floatList bs) = floatList bs
  | [] => by simp [floatList, canonList]
  | b :: bs => by
      have ih := canonList_floatList bs
      simp [floatList] at ih
      simp [floatList, canonList, canon, ih]

theorem all_isNumeric_floatList (bs : List Nat) : (floatList bs).all isNumeric = true := by
  simp [floatList, List.all_map, isNumeric]

theorem canonNumeric_floatList (b : Nat) (bs : List Nat) : canonNumeric (floatList (b :: bs)) = floatList (b :: bs) := by
  -- by computation (robust to how `promote` spells its two class tests): the head is a float
  have hp : promote ((floatList (b :: bs)).map scalarOf) = .float := rfl
  unfold canonNumeric
  simp only [hp]
  simp [floatList, scalarOf, castTo, List.map_map]

theorem canon_floatList (bs : List Nat) : canon (.list (floatList bs)) = .list (floatList bs) := by
  cases bs with
  | nil => simp [canon, floatList, isFast, canonList]
  | cons b bs =>
      have h1 : isFast (floatList (b :: bs)) = true := by
        simp [isFast, floatList, isNumeric]
      rw [canon]
      simp only [h1, if_true, canonNumeric_floatList]

theorem canonKvs_lrsDict : ∀ (d : List (String × List Nat)),
    canonKvs (lrsDict d) = d.map (fun kl => (kl.1, Ns.group, Val.list (floatList kl.2)))
  | [] => by simp [lrsDict, canonKvs]
  | (k, l) :: d => by
      have ih := canonKvs_lrsDict d
      simp only [lrsDict] at ih
      simp only [lrsDict, List.map_cons, canonKvs, nsVal, canon_floatList, ih]

theorem reorder_groups {α : Type} (f : α → String × Val) : ∀ (d : List α),
    reorder (d.map (fun a => ((f a).1, Ns.group, (f a).2))) = d.map f
  | [] => by simp [reorder]
  | a :: d => by
      have ih := reorder_groups f d
      unfold reorder at ih ⊢
      have e1 : (Ns.group == Ns.attr) = false := by decide
      have e2 : (Ns.group == Ns.array) = false := by decide
      have e3 : (Ns.group == Ns.group) = true := by decide
      simp only [List.map_cons, List.filter_cons, e1, e2, e3] at ih ⊢
      have ha : ∀ (l : List α), List.filter (fun x : String × Ns × Val => x.2.1 == Ns.attr) (l.map (fun a => ((f a).1, Ns.group, (f a).2))) = [] := by
        intro l; simp [List.filter_eq_nil_iff]
      have hb : ∀ (l : List α), List.filter (fun x : String × Ns × Val => x.2.1 == Ns.array) (l.map (fun a => ((f a).1, Ns.group, (f a).2))) = [] := by
        intro l; simp [List.filter_eq_nil_iff]
      simp only [ha, hb, List.map_nil, List.nil_append] at ih ⊢
      simp [ih]

theorem canon_lrsDict (d : List (String × List Nat)) : canon (.dict (lrsDict d)) = .dict (lrsDict d) := by
  rw [canon, canonKvs_lrsDict]
  have := reorder_groups (fun kl : String × List Nat => (kl.1, Val.list (floatList kl.2))) d
  simp only at this
  rw [this]
  rfl

theorem parseFloats_floatList : ∀ (bs : List Nat), parseFloats (floatList bs) = some bs
  | [] => by simp [floatList, parseFloats]
  | b :: bs => by
      have ih := parseFloats_floatList bs
      simp only [floatList] at ih
      simp [floatList, parseFloats, ih]

theorem parseLrs_lrsDict : ∀ (d : List (String × List Nat)), parseLrs (lrsDict d) = some d
  | [] => by simp [lrsDict, parseLrs]
  | (k, l) :: d => by
      have ih := parseLrs_lrsDict d
      simp only [lrsDict] at ih
      simp [lrsDict, parseLrs, parseFloats_floatList, ih]

theorem wfA_toVal {θ μ σ : Type} (pk : Pickle (ModelSt θ μ σ)) (r : Recon θ μ σ) : wfA (toVal pk r) = true := by
  simp [toVal, wfA, wfAttrs, wfItems_floatList, wfKids_lrsDict]

theorem attrNested_toVal {θ μ σ : Type} (pk : Pickle (ModelSt θ μ σ)) (r : Recon θ μ σ) : attrNested (toVal pk r) = true := by
  have h1 : ∀ bs, noObjList (floatList bs) = true := by
    intro bs; induction bs with
    | nil => simp [floatList, noObjList]
    | cons b bs ih => simp [floatList] at ih; simp [floatList, noObjList, noObj, ih]
  have h2 : ∀ d, noObjKvs (lrsDict d) = true := by
    intro d; induction d with
    | nil => simp [lrsDict, noObjKvs]
    | cons kl d ih => simp [lrsDict] at ih; simp [lrsDict, noObjKvs, noObj, ih, h1]
  simp [toVal, attrNested, attrNestedAttrs, noObj, h1, h2]

/-- the canonical form of the attribute view: the same attributes in restoration order
(plain attributes, then sub-groups), every value unchanged -/
theorem canon_toVal {θ μ σ : Type} (pk : Pickle (ModelSt θ μ σ)) (r : Recon θ μ σ) :
    canon (toVal pk r) = toVal pk r := by
  unfold toVal
  rw [canon]
  simp only [canonKvs, nsVal, canon_floatList, canon_lrsDict]
  simp [canon, reorder]

/-- reading the attribute view back gives the state -/
theorem ofVal_toVal {θ μ σ : Type} (pk : Pickle (ModelSt θ μ σ)) (r : Recon θ μ σ) :
    ofVal pk (toVal pk r) = some r := by
  simp [toVal, ofVal, lookup, getModule, pk.dec_enc, parseFloats_floatList, parseLrs_lrsDict]

/-- **file round trip of the attribute view** (C01 `roundtrip` at the Ptychography kinds) -/
theorem load_save_toVal {θ μ σ : Type} (pk : Pickle (ModelSt θ μ σ)) (r : Recon θ μ σ) :
    Serialize.load {} (Serialize.save {} (toVal pk r)) = .ok (toVal pk r) := by
  have h := Props.C01.roundtrip "Ptychography" _ (by simpa [toVal] using wfA_toVal pk r)
  have hc := canon_toVal pk r
  simp only [toVal] at h hc ⊢
  rw [h, hc]

end QuantemModel.Checkpoint
