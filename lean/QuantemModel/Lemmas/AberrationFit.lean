import QuantemModel.Lemmas.AberrationConv
import Mathlib.Algebra.Order.Floor.Ring
/-!
C12 — the extraction step of `fit_aberrations_from_shifts` returns the generating values.
-/
namespace QuantemModel.Aberration
open QuantemModel QuantemModel.Generated.Aberration

theorem ltb_real (a b : ℝ) : Num.ltb a b = decide (a < b) := rfl
theorem leb_real (a b : ℝ) : Num.leb a b = decide (a ≤ b) := rfl

theorem rem1_eq (x y : ℝ) : rem1 x y = if x < 0 then x + y else if y ≤ x then x - y else x := by
  unfold rem1
  simp only [ltb_real, leb_real, NumReal.zero_eq, decide_eq_true_eq, NumReal.add_eq, NumReal.sub_eq]

/-- what the extraction computes, as a function of the rotation estimate `ρ = −atan2(U₁₀, U₀₀)` -/
theorem fitExtract_eq (u p : M2 ℝ) :
    fitExtract u p =
      (let ρ := -Complex.arg ⟨u.a, u.c⟩
       let flip : Prop := Real.pi < 2 * |rem1 (ρ + Real.pi) (2 * Real.pi) - Real.pi|
       let ρ' := if flip then rem1 ρ (2 * Real.pi) - Real.pi else ρ
       let q := if flip then M2.neg p else p
       ((q.a + q.d) / 2, √(((q.a - q.d) / 2) ^ 2 + ((q.c + q.b) / 2) ^ 2),
        Complex.arg ⟨(q.a - q.d) / 2, (q.c + q.b) / 2⟩ / 2, ρ')) := by
  unfold fitExtract
  simp only [ltb_real, NumReal.abs_eq, atan2_eq, decide_eq_true_eq]
  num_real

theorem arg_cos_neg_sin (θ : ℝ) (h1 : -Real.pi < θ) (h2 : θ < Real.pi) :
    Complex.arg ⟨Real.cos θ, -Real.sin θ⟩ = -θ := by
  have := arg_polar 1 (-θ) one_pos (by linarith) (by linarith)
  simpa using this

/-- the values generating `A` are read back from `A` -/
theorem extract_aberrationMatrix (C10 C12 φ : ℝ) (hC : 0 < C12) (h1 : -Real.pi / 2 < φ) (h2 : φ ≤ Real.pi / 2) :
    let q := aberrationMatrix C10 C12 φ
    ((q.a + q.d) / 2, √(((q.a - q.d) / 2) ^ 2 + ((q.c + q.b) / 2) ^ 2),
        Complex.arg ⟨(q.a - q.d) / 2, (q.c + q.b) / 2⟩ / 2) = (C10, C12, φ) := by
  simp only [aberrationMatrix]
  num_real
  have e1 : (C10 + C12 * Real.cos (2 * φ) - (C10 - C12 * Real.cos (2 * φ))) / 2 = C12 * Real.cos (2 * φ) := by ring
  have e2 : (C12 * Real.sin (2 * φ) + C12 * Real.sin (2 * φ)) / 2 = C12 * Real.sin (2 * φ) := by ring
  have e3 : (C10 + C12 * Real.cos (2 * φ) + (C10 - C12 * Real.cos (2 * φ))) / 2 = C10 := by ring
  rw [e1, e2, e3, sqrt_polar _ _ hC.le, arg_polar _ _ hC (by linarith) (by linarith)]
  simp


theorem neg_neg_M2 (p : M2 ℝ) : M2.neg (M2.neg p) = p := by
  cases p; simp [M2.neg]

/-- **fit extraction, positive-definite branch**: from `U = R_{−θ}`, `P = A(C10, C12, φ12)` the code
returns exactly the generating values, for every |θ| < π/2, C12 > 0, φ12 ∈ (−π/2, π/2]. -/
theorem fitExtract_rot_pos (θ C10 C12 φ : ℝ) (hθ1 : -Real.pi / 2 < θ) (hθ2 : θ < Real.pi / 2)
    (hC : 0 < C12) (h1 : -Real.pi / 2 < φ) (h2 : φ ≤ Real.pi / 2) :
    fitExtract (rotNeg θ) (aberrationMatrix C10 C12 φ) = (C10, C12, φ, θ) := by
  have hpi := Real.pi_pos
  have hρ : -Complex.arg ⟨(rotNeg θ).a, (rotNeg θ).c⟩ = θ := by
    simp only [rotNeg]; num_real
    rw [arg_cos_neg_sin θ (by linarith) (by linarith)]; ring
  have hrem : rem1 (θ + Real.pi) (2 * Real.pi) = θ + Real.pi := by
    rw [rem1_eq, if_neg (by linarith), if_neg (by linarith)]
  have hflip : ¬ (Real.pi < 2 * |θ + Real.pi - Real.pi|) := by
    rw [add_sub_cancel_right, not_lt]
    have : |θ| ≤ Real.pi / 2 := abs_le.mpr ⟨by linarith, by linarith⟩
    linarith
  rw [fitExtract_eq]
  simp only [hρ, hrem, if_neg hflip]
  have := extract_aberrationMatrix C10 C12 φ hC h1 h2
  simp only [Prod.mk.injEq] at this ⊢
  exact ⟨this.1, this.2.1, this.2.2, trivial⟩

/-- **fit extraction, sign-flip branch**: a negative-definite aberration matrix `A` arrives as
`U = −R_{−θ}`, `P = −A`; the wrap test detects it and the same generating values are returned. -/
theorem fitExtract_rot_neg (θ C10 C12 φ : ℝ) (hθ1 : -Real.pi / 2 < θ) (hθ2 : θ < Real.pi / 2)
    (hC : 0 < C12) (h1 : -Real.pi / 2 < φ) (h2 : φ ≤ Real.pi / 2) :
    fitExtract (M2.neg (rotNeg θ)) (M2.neg (aberrationMatrix C10 C12 φ)) = (C10, C12, φ, θ) := by
  have hpi := Real.pi_pos
  have hext := extract_aberrationMatrix C10 C12 φ hC h1 h2
  simp only [Prod.mk.injEq] at hext
  rw [fitExtract_eq]
  by_cases h0 : 0 ≤ θ
  · have hρ : -Complex.arg ⟨(M2.neg (rotNeg θ)).a, (M2.neg (rotNeg θ)).c⟩ = θ - Real.pi := by
      simp only [rotNeg, M2.neg]; num_real
      have := arg_polar 1 (Real.pi - θ) one_pos (by linarith) (by linarith)
      rw [Real.cos_pi_sub, Real.sin_pi_sub, one_mul, one_mul] at this
      rw [neg_neg, this]; ring
    have hrem : rem1 (θ - Real.pi + Real.pi) (2 * Real.pi) = θ := by
      rw [sub_add_cancel, rem1_eq, if_neg (by linarith), if_neg (by linarith)]
    have hflip : Real.pi < 2 * |θ - Real.pi| := by
      rw [abs_of_neg (by linarith)]; linarith
    have hrem2 : rem1 (θ - Real.pi) (2 * Real.pi) - Real.pi = θ := by
      rw [rem1_eq, if_pos (by linarith)]; ring
    simp only [hρ, hrem, if_pos hflip, hrem2, neg_neg_M2, Prod.mk.injEq]
    exact ⟨hext.1, hext.2.1, hext.2.2, trivial⟩
  · have h0' : θ < 0 := not_le.mp h0
    have hρ : -Complex.arg ⟨(M2.neg (rotNeg θ)).a, (M2.neg (rotNeg θ)).c⟩ = θ + Real.pi := by
      simp only [rotNeg, M2.neg]; num_real
      have := arg_polar 1 (-Real.pi - θ) one_pos (by linarith) (by linarith)
      rw [show -Real.pi - θ = -(θ + Real.pi) by ring, Real.cos_neg, Real.sin_neg, Real.cos_add_pi,
        Real.sin_add_pi, one_mul, one_mul, neg_neg] at this
      rw [neg_neg, this]; ring
    have hrem : rem1 (θ + Real.pi + Real.pi) (2 * Real.pi) = θ + 2 * Real.pi := by
      rw [rem1_eq, if_neg (by linarith), if_neg (by linarith)]; ring
    have hflip : Real.pi < 2 * |θ + 2 * Real.pi - Real.pi| := by
      rw [abs_of_pos (by linarith)]; linarith
    have hrem2 : rem1 (θ + Real.pi) (2 * Real.pi) - Real.pi = θ := by
      rw [rem1_eq, if_neg (by linarith), if_neg (by linarith)]; ring
    simp only [hρ, hrem, if_pos hflip, hrem2, neg_neg_M2, Prod.mk.injEq]
    exact ⟨hext.1, hext.2.1, hext.2.2, trivial⟩

/-- on `[-y, 2y)` the model's `rem1` is Python/torch `remainder(x, y) = x − ⌊x/y⌋·y` -/
theorem rem1_eq_floor (x y : ℝ) (hy : 0 < y) (h1 : -y ≤ x) (h2 : x < 2 * y) :
    rem1 x y = x - (⌊x / y⌋ : ℝ) * y := by
  rw [rem1_eq]
  by_cases hx : x < 0
  · have : ⌊x / y⌋ = -1 := by
      rw [Int.floor_eq_iff]; push_cast
      constructor
      · rw [le_div_iff₀ hy]; linarith
      · rw [div_lt_iff₀ hy]; linarith
    rw [if_pos hx, this]; push_cast; ring
  · rw [if_neg hx]
    by_cases hxy : y ≤ x
    · have : ⌊x / y⌋ = 1 := by
        rw [Int.floor_eq_iff]; push_cast
        constructor
        · rw [le_div_iff₀ hy]; linarith
        · rw [div_lt_iff₀ hy]; linarith
      rw [if_pos hxy, this]; push_cast; ring
    · have : ⌊x / y⌋ = 0 := by
        rw [Int.floor_eq_iff]; push_cast
        constructor
        · rw [le_div_iff₀ hy]; linarith
        · rw [div_lt_iff₀ hy]; linarith
      rw [if_neg hxy, this]; push_cast; ring

/-- both arguments `remainder` receives in `fit_aberrations_from_shifts` lie in that range, whatever `U` is -/
theorem fit_remainder_args_in_range (u : M2 ℝ) :
    let rot := -Complex.arg ⟨u.a, u.c⟩
    (-(2 * Real.pi) ≤ rot + Real.pi ∧ rot + Real.pi < 2 * (2 * Real.pi)) ∧
    (-(2 * Real.pi) ≤ rot ∧ rot < 2 * (2 * Real.pi)) := by
  have h1 := Complex.neg_pi_lt_arg ⟨u.a, u.c⟩
  have h2 := Complex.arg_le_pi ⟨u.a, u.c⟩
  have := Real.pi_pos
  refine ⟨⟨by linarith, by linarith⟩, ⟨by linarith, by linarith⟩⟩
/-- the translated extraction part of `fit_aberrations_from_shifts` is the hand-written `fitExtract` -/
theorem fitExtractTranslated_eq (u p : M2 ℝ) : fitExtractTranslated u p = fitExtract u p := by
  unfold fitExtractTranslated fitExtract
  simp only [fit_aberrations_from_shifts_extract, lookupD, String.reduceEq, if_true, if_false]
  num_real
  push_cast
  split_ifs <;> rfl

end QuantemModel.Aberration
