import QuantemModel.Real.NumReal
import QuantemModel.Model.Constraints
import Mathlib.Analysis.Complex.Norm
import Mathlib.Tactic.Ring
import Mathlib.Tactic.Linarith
/-!
Bridge between the model's explicit complex pairs `Cx ℝ` and Mathlib's `ℂ`, and the basic
facts about sums / amplitudes used by the C10 theorems.
-/
namespace QuantemModel.Constraints
open QuantemModel

/-- the Mathlib complex number of a model pair -/
def toC (z : Cx ℝ) : ℂ := ⟨z.re, z.im⟩

@[simp] theorem toC_re (z : Cx ℝ) : (toC z).re = z.re := rfl
@[simp] theorem toC_im (z : Cx ℝ) : (toC z).im = z.im := rfl
theorem toC_inj {a b : Cx ℝ} (h : toC a = toC b) : a = b := by
  cases a; cases b
  simp only [toC, Complex.mk.injEq] at h
  obtain ⟨h1, h2⟩ := h
  subst h1; subst h2; rfl

@[simp] theorem toC_add (a b : Cx ℝ) : toC (a + b) = toC a + toC b := by
  apply Complex.ext <;> simp [toC, HAdd.hAdd, Add.add, Cx.add]
@[simp] theorem toC_sub (a b : Cx ℝ) : toC (a - b) = toC a - toC b := by
  apply Complex.ext <;> simp [toC, HSub.hSub, Sub.sub, Cx.sub]
@[simp] theorem toC_mul (a b : Cx ℝ) : toC (a * b) = toC a * toC b := by
  apply Complex.ext <;> simp [toC, HMul.hMul, Mul.mul, Cx.mul] <;> rfl
@[simp] theorem toC_conj (a : Cx ℝ) : toC (Cx.conj a) = (starRingEnd ℂ) (toC a) := by
  apply Complex.ext <;> simp [toC, Cx.conj]
@[simp] theorem toC_zero : toC (Cx.zero : Cx ℝ) = 0 := by
  apply Complex.ext <;> simp [toC, Cx.zero]
@[simp] theorem toC_smul (s : ℝ) (a : Cx ℝ) : toC (Cx.smul s a) = (s : ℂ) * toC a := by
  apply Complex.ext <;> simp [toC, Cx.smul]
@[simp] theorem toC_cdivR (a : Cx ℝ) (n : ℝ) : toC (cdivR a n) = toC a / (n : ℂ) := by
  apply Complex.ext <;> simp [toC, cdivR, Complex.div_ofReal_re, Complex.div_ofReal_im]

theorem abs_eq_norm (z : Cx ℝ) : Cx.abs z = ‖toC z‖ := by
  simp [Cx.abs, Cx.abs2, Complex.norm_def, Complex.normSq_apply]

theorem cxAbs_nonneg (z : Cx ℝ) : 0 ≤ Cx.abs z := by rw [abs_eq_norm]; exact norm_nonneg _

/-- `Num.sum` is the ordinary sum -/
theorem numSum_eq (l : List ℝ) : Num.sum l = l.sum := by
  unfold Num.sum
  rw [List.sum_eq_foldl]
  simp

theorem cxSum_eq (l : List (Cx ℝ)) : toC (Cx.sum l) = (l.map toC).sum := by
  unfold Cx.sum
  have : ∀ (acc : Cx ℝ), toC (l.foldl (· + ·) acc) = toC acc + (l.map toC).sum := by
    induction l with
    | nil => intro acc; simp
    | cons x xs ih => intro acc; simp [List.foldl, ih, add_assoc]
  simpa using this Cx.zero

theorem abs_cis (θ : ℝ) : Cx.abs (Cx.cis θ) = 1 := by
  simp [Cx.abs, Cx.abs2, Cx.cis, ← sq, Real.cos_sq_add_sin_sq]

theorem abs_smul (s : ℝ) (z : Cx ℝ) : Cx.abs (Cx.smul s z) = |s| * Cx.abs z := by
  rw [abs_eq_norm, abs_eq_norm, toC_smul, norm_mul, Complex.norm_real, Real.norm_eq_abs]

theorem abs_polar (a φ : ℝ) : Cx.abs (polar a φ) = |a| := by
  rw [polar, abs_smul, abs_cis, mul_one]

theorem abs_cdivR (z : Cx ℝ) (n : ℝ) : Cx.abs (cdivR z n) = Cx.abs z / |n| := by
  rw [abs_eq_norm, abs_eq_norm, toC_cdivR, norm_div, Complex.norm_real, Real.norm_eq_abs]

theorem abs_add_le (a b : Cx ℝ) : Cx.abs (a + b) ≤ Cx.abs a + Cx.abs b := by
  rw [abs_eq_norm, abs_eq_norm, abs_eq_norm, toC_add]; exact norm_add_le _ _

/-- `torch.clamp(x, 0, 1)` at ℝ -/
theorem clip01_eq (x : ℝ) : Num.clip x Num.zero Num.one = min (max x 0) 1 := by
  simp [Num.clip, NumReal.min_eq, NumReal.max_eq]

theorem clip01_nonneg (x : ℝ) : 0 ≤ Num.clip x (Num.zero : ℝ) Num.one := by
  rw [clip01_eq]; exact le_min (le_max_right _ _) zero_le_one
theorem clip01_le_one (x : ℝ) : Num.clip x (Num.zero : ℝ) Num.one ≤ 1 := by
  rw [clip01_eq]; exact min_le_right _ _
theorem clip01_of_mem {x : ℝ} (h0 : 0 ≤ x) (h1 : x ≤ 1) : Num.clip x (Num.zero : ℝ) Num.one = x := by
  rw [clip01_eq, max_eq_left h0, min_eq_left h1]

theorem clampMin0_nonneg (x : ℝ) : 0 ≤ clampMin0 x := by
  simp [clampMin0, NumReal.max_eq]

theorem sq_abs (z : Cx ℝ) : Num.sq (Cx.abs z) = z.re * z.re + z.im * z.im := by
  have h : 0 ≤ z.re * z.re + z.im * z.im := by nlinarith [mul_self_nonneg z.re, mul_self_nonneg z.im]
  simp [Num.sq, Cx.abs, Cx.abs2, Real.mul_self_sqrt h]

/-! structure-level unfolding of the pair operations (for evaluating literal examples) -/
theorem cx_add (a b : Cx ℝ) : a + b = ⟨a.re + b.re, a.im + b.im⟩ := rfl
theorem cx_sub (a b : Cx ℝ) : a - b = ⟨a.re - b.re, a.im - b.im⟩ := rfl
theorem cx_mul (a b : Cx ℝ) : a * b = ⟨a.re * b.re - a.im * b.im, a.re * b.im + a.im * b.re⟩ := rfl

end QuantemModel.Constraints
