/-
Helper lemmas for C09: the train/validation split is a partition; sums over batches.
-/
import QuantemModel.Lemmas.ListPartition
import QuantemModel.Real.NumReal
import Mathlib.Algebra.BigOperators.Group.List.Basic
import Mathlib.Algebra.Module.Defs
import Mathlib.Tactic.FieldSimp

namespace QuantemModel.Batcher
open List (Sublist)

/-! ### the split -/

theorem strideAux_sublist {α : Type} (k : Nat) : ∀ (i : Nat) (l : List α), Sublist (strideAux k i l) l := by
  intro i l
  induction l generalizing i with
  | nil => cases i <;> exact List.Sublist.slnil
  | cons x xs ih =>
    cases i with
    | zero => exact (ih (k - 1)).cons_cons x
    | succ i => exact (ih i).cons x

theorem stride_sublist {α : Type} (k : Nat) (l : List α) : Sublist (stride k l) l := strideAux_sublist k 0 l

/-- a duplicate-free selection from `range n` together with its `setdiff1d` complement is a
rearrangement of `range n` -/
theorem sel_append_setdiff_perm (n : Nat) (sel : List Nat) (hnd : sel.Nodup)
    (hsub : ∀ x ∈ sel, x < n) : (sel ++ setdiff (List.range n) sel).Perm (List.range n) := by
  have h1 : sel.Perm ((List.range n).filter (fun x => sel.contains x)) := by
    rw [List.perm_ext_iff_of_nodup hnd (List.nodup_range.sublist List.filter_sublist)]
    intro a
    simp only [List.mem_filter, List.mem_range, List.contains_eq_mem, decide_eq_true_eq]
    constructor
    · intro ha; exact ⟨hsub a ha, ha⟩
    · intro ha; exact ha.2
  have h2 := List.filter_append_perm (fun x => sel.contains x) (List.range n)
  unfold setdiff
  exact (List.Perm.append_right _ h1).trans h2

theorem setdiff_perm_append (n : Nat) (sel : List Nat) (hnd : sel.Nodup)
    (hsub : ∀ x ∈ sel, x < n) : (setdiff (List.range n) sel ++ sel).Perm (List.range n) :=
  List.perm_append_comm.trans (sel_append_setdiff_perm n sel hnd hsub)

theorem gridSel_props (n nVal k : Nat) :
    let sel := stride k (List.range n)
    let sel := if sel.length > nVal then sel.take nVal else sel
    sel.Nodup ∧ ∀ x ∈ sel, x < n := by
  intro sel sel'
  have hsub : Sublist sel' (List.range n) := by
    show Sublist (if sel.length > nVal then sel.take nVal else sel) _
    split
    · exact (List.take_sublist _ _).trans (stride_sublist k _)
    · exact stride_sublist k _
  exact ⟨hsub.nodup List.nodup_range, fun x hx => List.mem_range.mp (hsub.subset hx)⟩

/-- the split is a partition whatever `n_val`, `k`, `invert`, the mode and the drawn permutation -/
theorem splitWith_perm (n nVal : Nat) (mode : Mode) (k : Nat) (invert : Bool) (perm : List Nat)
    (hperm : perm.Perm (List.range n)) :
    ((splitWith n nVal mode k invert perm).train ++ (splitWith n nVal mode k invert perm).val).Perm
      (List.range n) := by
  unfold splitWith
  by_cases hn : nVal > 0
  · simp only [hn, if_true]
    cases mode with
    | random =>
      simp only
      apply setdiff_perm_append
      · exact (List.take_sublist _ _).nodup (hperm.symm.nodup List.nodup_range)
      · intro x hx
        exact List.mem_range.mp (hperm.mem_iff.mp ((List.take_sublist _ _).subset hx))
    | grid =>
      simp only
      have hp := gridSel_props n nVal k
      simp only at hp
      cases invert with
      | true => simp only [if_true]; exact sel_append_setdiff_perm n _ hp.1 hp.2
      | false =>
        simp only [Bool.false_eq_true, if_false]
        exact setdiff_perm_append n _ hp.1 hp.2
  · simp only [hn, if_false, List.append_nil]
    exact List.Perm.refl _

/-! ### sums over batches -/

theorem sum_chunks {M : Type} [AddCommMonoid M] (b : Nat) (hb : 0 < b) (l : List Nat) (g : Nat → M) :
    ((chunks b l).map (fun B => (B.map g).sum)).sum = (l.map g).sum := by
  conv_rhs => rw [← chunks_flatten b hb l]
  rw [List.map_flatten, List.sum_flatten, List.map_map]
  rfl

theorem ceilDiv_of_dvd (m b : Nat) (hb : 0 < b) (h : b ∣ m) : ceilDiv m b * b = m := by
  obtain ⟨q, rfl⟩ := h
  unfold ceilDiv
  have : (b * q + b - 1) / b = q := by
    have e : b * q + b - 1 = (b - 1) + q * b := by
      rw [Nat.mul_comm]; omega
    rw [e, Nat.add_mul_div_right _ _ hb]
    have : (b - 1) / b = 0 := Nat.div_eq_of_lt (by omega)
    omega
  rw [this, Nat.mul_comm]

namespace NumRealExt
theorem sum_eq (xs : List ℝ) : Num.sum xs = xs.sum := by
  unfold Num.sum
  rw [List.sum_eq_foldl]
  simp only [NumReal.add_eq, NumReal.zero_eq]
end NumRealExt

end QuantemModel.Batcher
