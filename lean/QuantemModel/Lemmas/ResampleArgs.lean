import QuantemModel.Model.ResampleArgs
import QuantemModel.Lemmas.Resample
/-!
C06 (growth round 5) — lemmas about the argument layer (`Model/ResampleArgs.lean`), call
histories with raising calls, padding with an arbitrary fill rule, and the calibration after a
history of bin calls.
-/
namespace QuantemModel.Resample
open QuantemModel QuantemModel.Nd

/-- `padNd` is the constant-fill instance of `padNdWith` -/
theorem padNd_eq_with {α : Type} [Inhabited α] (z : α) (a : Arr α) (w : List (Nat × Nat)) :
    padNd z a w = padNdWith (fun _ => z) a w := rfl

/-- **pad (any fill rule) then crop the pad widths = identity (N-D)** -/
theorem pad_crop_nd_with {α : Type} [Inhabited α] (fill : List Nat → α) (a : Arr α) (w : List (Nat × Nat))
    (hw : w.length = a.shape.length) (ha : a.data.length = prod a.shape) :
    applyPlan (padNdWith fill a w) (padCropPlan a.shape w) = a := by
  have hsl : (padCropPlan a.shape w).sels.length = a.shape.length := by simp [padCropPlan, hw]
  have hshape : (padCropPlan a.shape w).shape = a.shape := by
    unfold Plan.shape padCropPlan
    simp only
    apply List.ext_getElem
    · simp
    · intro i h1 h2
      have hi : i < a.shape.length := h2
      have hiw : i < w.length := hw ▸ hi
      simp [List.getD_eq_getElem?_getD, hi, hiw, Sel.len]
  unfold applyPlan
  rw [hshape]
  have key : ∀ j, InBox a.shape j →
      (padNdWith fill a w).get (srcIdx (padCropPlan a.shape w).sels (padCropPlan a.shape w).order j) = a.get j := by
    intro j hj
    have hjl : j.length = (padCropPlan a.shape w).sels.length := by rw [hsl]; exact hj.length_eq
    have horder : (padCropPlan a.shape w).order = List.range (padCropPlan a.shape w).sels.length := by
      rw [hsl]; rfl
    rw [horder, srcIdx_range _ _ hjl]
    obtain ⟨h1, h2⟩ := padCrop_zip a.shape w j hw hj
    unfold padNdWith
    have hs : (padCropPlan a.shape w).sels
        = List.zipWith (fun n (p : Nat × Nat) => Sel.rng (p.1 : Int) 1 n) a.shape w := rfl
    rw [hs, build_get _ _ h1, h2]
  rw [build_congr _ _ _ key]
  exact build_get_self a ha

/-- iterating the calibration update of `bin` over a list of factors = one update by the product -/
theorem binMeta_foldl (fs : List Nat) (o s : Rat) :
    fs.foldl (fun (p : Rat × Rat) f => binMeta p.1 p.2 f) (o, s) = binMeta o s (fs.foldl (· * ·) 1) := by
  have gen : ∀ (fs : List Nat) (o s : Rat) (F : Nat),
      fs.foldl (fun (p : Rat × Rat) f => binMeta p.1 p.2 f) (binMeta o s F) = binMeta o s (fs.foldl (· * ·) F) := by
    intro fs
    induction fs with
    | nil => intro o s F; rfl
    | cons f t ih =>
      intro o s F
      simp only [List.foldl_cons]
      have : binMeta (binMeta o s F).1 (binMeta o s F).2 f = binMeta o s (F * f) := by
        simp only [binMeta]
        ext
        · simp only; push_cast; ring
        · simp only; push_cast; ring
      rw [this]
      exact ih o s (F * f)
  have h1 : binMeta o s 1 = (o, s) := by simp [binMeta]
  rw [← h1]
  exact gen fs o s 1

end QuantemModel.Resample

namespace QuantemModel.ResampleArgs
open QuantemModel QuantemModel.Nd QuantemModel.Resample QuantemModel.Dataset

theorem stepObj_of_raises {d : Ds} {c : Call} (h : raises d c = true) : stepObj d c = d := by
  unfold raises at h
  unfold stepObj
  split <;> simp_all

/-- erasing the calls that raised does not change the final state of the object -/
theorem runObj_okCalls : ∀ (cs : List Call) (d : Ds), runObj d cs = runObj d (okCalls d cs)
  | [], _ => rfl
  | c :: cs, d => by
    unfold okCalls
    by_cases h : raises d c = true
    · rw [if_pos h]
      show runObj (stepObj d c) cs = _
      rw [stepObj_of_raises h]
      exact runObj_okCalls cs d
    · rw [if_neg h]
      show runObj (stepObj d c) cs = runObj (stepObj d c) (okCalls (stepObj d c) cs)
      exact runObj_okCalls cs (stepObj d c)

/-- no call of `okCalls` raises when it is run -/
theorem okCalls_none_raise : ∀ (cs : List Call) (d : Ds), okCalls d (okCalls d cs) = okCalls d cs
  | [], _ => rfl
  | c :: cs, d => by
    by_cases h : raises d c = true
    · have : okCalls d (c :: cs) = okCalls d cs := by
        show (if raises d c then okCalls d cs else c :: okCalls (stepObj d c) cs) = _
        rw [if_pos h]
      rw [this]
      exact okCalls_none_raise cs d
    · have : okCalls d (c :: cs) = c :: okCalls (stepObj d c) cs := by
        show (if raises d c then okCalls d cs else c :: okCalls (stepObj d c) cs) = _
        rw [if_neg h]
      rw [this]
      show (if raises d c then _ else c :: okCalls (stepObj d c) (okCalls (stepObj d c) cs)) = _
      rw [if_neg h, okCalls_none_raise cs (stepObj d c)]

theorem truncRat_int (a : Int) : truncRat (a : Rat) = a := by
  unfold truncRat
  by_cases h : (0 : Rat) ≤ (a : Rat)
  · rw [if_pos h]; exact Rat.floor_intCast a
  · rw [if_neg h]
    have : (-(a : Rat)) = ((-a : Int) : Rat) := by push_cast; rfl
    rw [this, Rat.floor_intCast]; omega

/-- the scalar forms of one axis agree: `a`, `float(a)`, `np.int64(a)`, `(a,)`, `[a]` -/
theorem normalizeAxes_scalar_forms (nd : Nat) (a : Int) :
    normalizeAxes nd (.sc (.float (a : Rat))) = normalizeAxes nd (.sc (.int a)) ∧
    normalizeAxes nd (.tuple [.int a]) = normalizeAxes nd (.sc (.int a)) ∧
    normalizeAxes nd (.list [.int a]) = normalizeAxes nd (.sc (.int a)) ∧
    normalizeAxes nd (.tuple [.npInt a]) = normalizeAxes nd (.sc (.int a)) ∧
    normalizeAxes nd (.tuple [.float (a : Rat)]) = normalizeAxes nd (.sc (.int a)) := by
  refine ⟨?_, ?_, ?_, ?_, ?_⟩ <;>
    simp [normalizeAxes, Sc.isIntOrFloat, Py.items, mapMExcept, axisOf, Sc.toInt, truncRat_int]

/-- a negative axis counts from the end -/
theorem axisOf_negative (nd : Nat) (a : Nat) (h : a < nd) :
    axisOf nd (.int ((a : Int) - nd)) = .ok a ∧ axisOf nd (.int a) = .ok a := by
  constructor
  · simp only [axisOf, Sc.toInt, normPos]
    rw [if_neg (by omega), if_pos (by omega)]
    congr 1; omega
  · simp only [axisOf, Sc.toInt, normPos]
    rw [if_pos (by omega)]
    congr 1

end QuantemModel.ResampleArgs
