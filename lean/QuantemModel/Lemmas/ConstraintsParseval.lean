import QuantemModel.Lemmas.ConstraintsWeights
import QuantemModel.Lemmas.PtychoOpsForward
/-!
Parseval for `fft2Ortho` (Model/Constraints.lean) on non-empty rectangular images, from the
spectral core's `PtychoOps.energy_dft2` (Lemmas/PtychoOpsForward.lean, shared with C16).
-/
namespace QuantemModel.Constraints
open QuantemModel

/-- a non-empty `nr × nc` image -/
def RectImg (nr nc : Nat) (p : Img ℝ) : Prop :=
  0 < nr ∧ 0 < nc ∧ p.length = nr ∧ ∀ row ∈ p, row.length = nc

theorem energy_eq_ptycho (p : Img ℝ) : energy p = PtychoOps.energy p := by
  unfold energy PtychoOps.energy
  rw [numSum_eq, numSum_eq, List.map_flatten, List.sum_flatten, List.map_map]
  congr 1
  apply List.map_congr_left
  intro row _
  simp only [Function.comp]
  rw [numSum_eq]
  congr 1
  apply List.map_congr_left
  intro z _
  rw [sq_abs]; simp [Cx.abs2]

theorem norm2_map_cdivR (s : ℝ) (l : Vec ℝ) : norm2 (l.map (cdivR · s)) = norm2 l / s / s := by
  have h : ip (l.map (cdivR · s)) (l.map (cdivR · s)) = ip l l / (s : ℂ) / (s : ℂ) := by
    rw [ip_map_cdivR_left, ip_map_cdivR_right]
  rw [ip_self, ip_self] at h
  exact_mod_cast h

theorem parseval_fft2Ortho {nr nc : Nat} (p : Img ℝ) (h : RectImg nr nc p) :
    energy (fft2Ortho p) = energy p := by
  obtain ⟨hr, hc, hlen, hrows⟩ := h
  have hrect : PtychoOps.Rect nr nc p := ⟨hlen, hrows⟩
  have hhead : (p.headD []).length = nc := by
    cases p with
    | nil => simp at hlen; omega
    | cons r rs => simpa using hrows r (by simp)
  have hE := PtychoOps.energy_dft2 hr hc hrect
  rw [← energy_eq_ptycho, ← energy_eq_ptycho] at hE
  unfold fft2Ortho
  simp only [hlen, hhead, NumReal.sqrt_eq, NumReal.ofNat_eq]
  rw [energy_eq_norm2, ← List.map_flatten, norm2_map_cdivR, ← energy_eq_norm2, hE]
  have hpos : (0 : ℝ) < ((nr * nc : ℕ) : ℝ) := by exact_mod_cast Nat.mul_pos hr hc
  have hs : Real.sqrt ((nr * nc : ℕ) : ℝ) * Real.sqrt ((nr * nc : ℕ) : ℝ) = ((nr * nc : ℕ) : ℝ) :=
    Real.mul_self_sqrt hpos.le
  rw [div_div, hs]
  push_cast at hpos ⊢
  field_simp

theorem rectImg_scaleImg {nr nc : Nat} (a : ℝ) (p : Img ℝ) (h : RectImg nr nc p) :
    RectImg nr nc (scaleImg a p) := by
  obtain ⟨hr, hc, hlen, hrows⟩ := h
  refine ⟨hr, hc, by simpa [scaleImg] using hlen, ?_⟩
  intro row hrow
  simp only [scaleImg, List.mem_map] at hrow
  obtain ⟨r, hr', rfl⟩ := hrow
  simpa using hrows r hr'

theorem parsevalOn_of_rect (ps : List (Img ℝ)) (h : ∀ p ∈ ps, ∃ nr nc, RectImg nr nc p) :
    ParsevalOn ps := by
  intro p hp
  obtain ⟨nr, nc, hr⟩ := h p hp
  exact parseval_fft2Ortho p hr

theorem applyWeights_rect (M : ℝ) (w : List ℝ) (probes : List (Img ℝ))
    (h : ∀ p ∈ probes, ∃ nr nc, RectImg nr nc p) :
    ∀ p ∈ applyWeights M w probes, ∃ nr nc, RectImg nr nc p := by
  intro p hp
  unfold applyWeights at hp
  obtain ⟨a, _, q, hq, rfl⟩ := mem_zipWith_imp _ _ _ _ hp
  simp only [List.mem_map] at hq
  obtain ⟨q0, hq0, rfl⟩ := hq
  obtain ⟨nr, nc, hr⟩ := h q0 hq0
  exact ⟨nr, nc, rectImg_scaleImg _ _ (rectImg_scaleImg _ _ hr)⟩

end QuantemModel.Constraints
