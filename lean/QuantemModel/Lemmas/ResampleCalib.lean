import QuantemModel.Model.Dataset
import QuantemModel.Lemmas.Resample
/-! N-D calibration update of `fourier_resample` (`Dataset.resampleCalib`): every resampled
axis gets the 1-D update `resampleMeta`, the other axes keep their calibration. -/
namespace QuantemModel.Dataset
open QuantemModel.Nd QuantemModel.Resample

/-- the fold of `resampleCalib` started from an arbitrary accumulator -/
def calibFold (shape : List Nat) (o s : List Rat) (acc : List Rat × List Rat) (pairs : List (Nat × Nat)) :
    List Rat × List Rat :=
  pairs.foldl (fun (acc : List Rat × List Rat) (p : Nat × Nat) =>
    let m := resampleMeta (o.getD p.1 0) (s.getD p.1 0) (shape.getD p.1 0) p.2
    (acc.1.set p.1 m.1, acc.2.set p.1 m.2)) acc

theorem resampleCalib_eq (shape : List Nat) (o s : List Rat) (pairs : List (Nat × Nat)) :
    resampleCalib shape o s pairs = calibFold shape o s (o, s) pairs := rfl

theorem calibFold_length (shape : List Nat) (o s : List Rat) (pairs : List (Nat × Nat)) :
    ∀ acc, (calibFold shape o s acc pairs).1.length = acc.1.length ∧
      (calibFold shape o s acc pairs).2.length = acc.2.length := by
  induction pairs with
  | nil => intro acc; exact ⟨rfl, rfl⟩
  | cons p t ih =>
    intro acc
    have := ih (acc.1.set p.1 (resampleMeta (o.getD p.1 0) (s.getD p.1 0) (shape.getD p.1 0) p.2).1,
      acc.2.set p.1 (resampleMeta (o.getD p.1 0) (s.getD p.1 0) (shape.getD p.1 0) p.2).2)
    simpa [calibFold] using this

theorem getD_set_ne' (l : List Rat) (a b : Nat) (v : Rat) (h : a ≠ b) : (l.set a v).getD b 0 = l.getD b 0 := by
  simp [List.getD_eq_getElem?_getD, List.getElem?_set_ne h]

theorem getD_set_eq' (l : List Rat) (a : Nat) (v : Rat) (h : a < l.length) : (l.set a v).getD a 0 = v := by
  simp [List.getD_eq_getElem?_getD, h]

/-- an axis that is not resampled keeps its calibration -/
theorem calibFold_other (shape : List Nat) (o s : List Rat) (ax : Nat) (pairs : List (Nat × Nat)) :
    ∀ acc, (∀ p ∈ pairs, p.1 ≠ ax) →
      (calibFold shape o s acc pairs).1.getD ax 0 = acc.1.getD ax 0 ∧
      (calibFold shape o s acc pairs).2.getD ax 0 = acc.2.getD ax 0 := by
  induction pairs with
  | nil => intro acc _; exact ⟨rfl, rfl⟩
  | cons p t ih =>
    intro acc h
    have hp : p.1 ≠ ax := h p (by simp)
    have := ih (acc.1.set p.1 (resampleMeta (o.getD p.1 0) (s.getD p.1 0) (shape.getD p.1 0) p.2).1,
      acc.2.set p.1 (resampleMeta (o.getD p.1 0) (s.getD p.1 0) (shape.getD p.1 0) p.2).2)
      (fun q hq => h q (by simp [hq]))
    simp only [getD_set_ne' _ _ _ _ hp] at this
    simpa [calibFold] using this

/-- a resampled axis gets exactly the 1-D calibration update -/
theorem calibFold_mem (shape : List Nat) (o s : List Rat) (pairs : List (Nat × Nat)) :
    ∀ acc, (pairs.map Prod.fst).Nodup → ∀ p ∈ pairs, p.1 < acc.1.length → p.1 < acc.2.length →
      (calibFold shape o s acc pairs).1.getD p.1 0
          = (resampleMeta (o.getD p.1 0) (s.getD p.1 0) (shape.getD p.1 0) p.2).1 ∧
      (calibFold shape o s acc pairs).2.getD p.1 0
          = (resampleMeta (o.getD p.1 0) (s.getD p.1 0) (shape.getD p.1 0) p.2).2 := by
  induction pairs with
  | nil => intro acc _ p hp; simp at hp
  | cons q t ih =>
    intro acc hnd p hp h1 h2
    simp only [List.map_cons, List.nodup_cons] at hnd
    have hstep : calibFold shape o s acc (q :: t) = calibFold shape o s
        (acc.1.set q.1 (resampleMeta (o.getD q.1 0) (s.getD q.1 0) (shape.getD q.1 0) q.2).1,
         acc.2.set q.1 (resampleMeta (o.getD q.1 0) (s.getD q.1 0) (shape.getD q.1 0) q.2).2) t := rfl
    rw [hstep]
    rcases List.mem_cons.mp hp with rfl | hpt
    · have hoth := calibFold_other shape o s p.1 t
        (acc.1.set p.1 (resampleMeta (o.getD p.1 0) (s.getD p.1 0) (shape.getD p.1 0) p.2).1,
         acc.2.set p.1 (resampleMeta (o.getD p.1 0) (s.getD p.1 0) (shape.getD p.1 0) p.2).2)
        (fun r hr heq => hnd.1 (List.mem_map.mpr ⟨r, hr, heq⟩))
      rw [hoth.1, hoth.2]
      exact ⟨getD_set_eq' _ _ _ h1, getD_set_eq' _ _ _ h2⟩
    · exact ih _ hnd.2 p hpt (by simpa using h1) (by simpa using h2)

end QuantemModel.Dataset
