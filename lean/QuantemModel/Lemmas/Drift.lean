import QuantemModel.Model.Drift
import QuantemModel.Lemmas.Registration
import Mathlib.Tactic.IntervalCases
import Mathlib.Algebra.BigOperators.Intervals
/-!
Helper lemmas for Props/C15.lean: the drift geometry model (Model/Drift.lean) at the carrier ℝ.
-/
namespace QuantemModel.Drift
open QuantemModel QuantemModel.Registration Finset

/-! ### `np.linspace` -/
theorem linspace_one (a b : ℝ) (i : ℕ) : linspace a b 1 i = a := by simp [linspace]

theorem linspace_eq {n : ℕ} (hn : 2 ≤ n) (a b : ℝ) {i : ℕ} (_hi : i < n) :
    linspace a b n i = a + (i : ℝ) * (b - a) / ((n : ℝ) - 1) := by
  have hn1 : ¬ n ≤ 1 := by omega
  have hne : ((n : ℝ) - 1) ≠ 0 := by
    have : (2 : ℝ) ≤ n := by exact_mod_cast hn
    linarith
  unfold linspace
  rw [if_neg hn1]
  by_cases hl : i + 1 = n
  · rw [if_pos hl]
    have : (i : ℝ) = (n : ℝ) - 1 := by
      have : ((i + 1 : ℕ) : ℝ) = n := by exact_mod_cast hl
      push_cast at this; linarith
    rw [this]; field_simp; ring
  · rw [if_neg hl]
    have hc : ((n - 1 : ℕ) : ℝ) = (n : ℝ) - 1 := by
      rw [Nat.cast_sub (by omega)]; simp
    simp only [NumReal.ofNat_eq, NumReal.mul_eq, NumReal.div_eq, NumReal.sub_eq, NumReal.add_eq, hc]
    ring

theorem halfSpan_eq (n : ℕ) : (halfSpan n : ℝ) = ((n : ℝ) - 1) / 2 := by
  simp [halfSpan]

/-- `v_slow[r] = r - (H-1)/2` -/
theorem vslow_eq {H r : ℕ} (hr : r < H) :
    linspace (-(halfSpan H : ℝ)) (halfSpan H) H r = (r : ℝ) - ((H : ℝ) - 1) / 2 := by
  rcases Nat.lt_or_ge H 2 with h | h
  · have hH : H = 1 := by omega
    subst hH
    have : r = 0 := by omega
    subst this
    rw [linspace_one, halfSpan_eq]; simp
  · rw [linspace_eq h _ _ hr, halfSpan_eq]
    have hne : ((H : ℝ) - 1) ≠ 0 := by
      have : (2 : ℝ) ≤ H := by exact_mod_cast h
      linarith
    field_simp; ring

/-- `u[c] · (W - 1) = c` -/
theorem u_mul {W c : ℕ} (hc : c < W) :
    linspace (0 : ℝ) 1 W c * ((W : ℝ) - 1) = (c : ℝ) := by
  rcases Nat.lt_or_ge W 2 with h | h
  · have hW : W = 1 := by omega
    subst hW
    have : c = 0 := by omega
    subst this
    simp [linspace_one]
  · rw [linspace_eq h _ _ hc]
    have hne : ((W : ℝ) - 1) ≠ 0 := by
      have : (2 : ℝ) ≤ W := by exact_mod_cast h
      linarith
    field_simp; ring

/-- `u_fast[k] = -(W-1)/2 + k (W-1)/(nk-1)` -/
theorem ufast_eq {nk : ℕ} (hn : 2 ≤ nk) (W : ℕ) {k : ℕ} (hk : k < nk) :
    linspace (-(halfSpan W : ℝ)) (halfSpan W) nk k
      = -(((W : ℝ) - 1) / 2) + (k : ℝ) * ((W : ℝ) - 1) / ((nk : ℝ) - 1) := by
  rw [linspace_eq hn _ _ hk, halfSpan_eq]; ring

/-! ### Lagrange basis for 3 and 4 nodes, written out -/
theorem lagrange3 (t y : ℕ → ℝ) (u : ℝ) :
    lagrange 3 t y u
      = y 0 * (((u - t 1) / (t 0 - t 1)) * ((u - t 2) / (t 0 - t 2)))
      + y 1 * (((u - t 0) / (t 1 - t 0)) * ((u - t 2) / (t 1 - t 2)))
      + y 2 * (((u - t 0) / (t 2 - t 0)) * ((u - t 1) / (t 2 - t 1))) := by
  simp [lagrange, lagBasis, sumN, List.range, List.range.loop]

theorem lagrange4 (t y : ℕ → ℝ) (u : ℝ) :
    lagrange 4 t y u
      = y 0 * (((u - t 1) / (t 0 - t 1)) * ((u - t 2) / (t 0 - t 2)) * ((u - t 3) / (t 0 - t 3)))
      + y 1 * (((u - t 0) / (t 1 - t 0)) * ((u - t 2) / (t 1 - t 2)) * ((u - t 3) / (t 1 - t 3)))
      + y 2 * (((u - t 0) / (t 2 - t 0)) * ((u - t 1) / (t 2 - t 1)) * ((u - t 3) / (t 2 - t 3)))
      + y 3 * (((u - t 0) / (t 3 - t 0)) * ((u - t 1) / (t 3 - t 1)) * ((u - t 2) / (t 3 - t 2))) := by
  simp [lagrange, lagBasis, sumN, List.range, List.range.loop]

/-- `transform_rows` applied to knots that lie on a straight line `A + u_fast[k]·f` reproduces
that line at every pixel, for 1, 2, 3 and 4 knots -/
theorem transformRow_affine (nk W : ℕ) (hnk : 1 ≤ nk ∧ nk ≤ 4) (A f : ℝ) {c : ℕ} (hc : c < W) :
    transformRow nk W (fun k => A + linspace (-(halfSpan W : ℝ)) (halfSpan W) nk k * f) f (linspace (0 : ℝ) 1 W c)
      = A + ((c : ℝ) - ((W : ℝ) - 1) / 2) * f := by
  have hu := u_mul hc
  set u := linspace (0 : ℝ) 1 W c with hu_def
  obtain ⟨h1, h4⟩ := hnk
  interval_cases nk
  · -- one knot: linear extrapolation along the fast axis
    simp only [transformRow, if_true, linspace_one, halfSpan_eq, NumReal.ofInt_eq, NumReal.add_eq, NumReal.mul_eq]
    push_cast
    linear_combination f * hu
  · -- two knots: interp1d linear
    have t0 : linspace (0 : ℝ) 1 2 0 = 0 := by rw [linspace_eq (le_refl 2) _ _ (by norm_num)]; norm_num
    have t1 : linspace (0 : ℝ) 1 2 1 = 1 := by rw [linspace_eq (le_refl 2) _ _ (by norm_num)]; norm_num
    have k0 := ufast_eq (le_refl 2) W (k := 0) (by norm_num)
    have k1 := ufast_eq (le_refl 2) W (k := 1) (by norm_num)
    simp only [transformRow, show (2 : ℕ) ≠ 1 by norm_num, if_false, if_true, NumReal.zero_eq, NumReal.one_eq,
      NumReal.add_eq, NumReal.mul_eq, NumReal.sub_eq, NumReal.div_eq, t0, t1, k0, k1]
    push_cast
    linear_combination f * hu
  · -- three knots: quadratic through the knots
    have t0 : linspace (0 : ℝ) 1 3 0 = 0 := by rw [linspace_eq (by norm_num) _ _ (by norm_num)]; norm_num
    have t1 : linspace (0 : ℝ) 1 3 1 = 1 / 2 := by rw [linspace_eq (by norm_num) _ _ (by norm_num)]; norm_num
    have t2 : linspace (0 : ℝ) 1 3 2 = 1 := by rw [linspace_eq (by norm_num) _ _ (by norm_num)]; norm_num
    have k0 := ufast_eq (show 2 ≤ 3 by norm_num) W (k := 0) (by norm_num)
    have k1 := ufast_eq (show 2 ≤ 3 by norm_num) W (k := 1) (by norm_num)
    have k2 := ufast_eq (show 2 ≤ 3 by norm_num) W (k := 2) (by norm_num)
    simp only [transformRow, show (3 : ℕ) ≠ 1 by norm_num, show (3 : ℕ) ≠ 2 by norm_num, if_false,
      NumReal.zero_eq, NumReal.one_eq, lagrange3, t0, t1, t2, k0, k1, k2]
    push_cast
    linear_combination f * hu
  · -- four knots: cubic through the knots
    have t0 : linspace (0 : ℝ) 1 4 0 = 0 := by rw [linspace_eq (by norm_num) _ _ (by norm_num)]; norm_num
    have t1 : linspace (0 : ℝ) 1 4 1 = 1 / 3 := by rw [linspace_eq (by norm_num) _ _ (by norm_num)]; norm_num
    have t2 : linspace (0 : ℝ) 1 4 2 = 2 / 3 := by rw [linspace_eq (by norm_num) _ _ (by norm_num)]; norm_num
    have t3 : linspace (0 : ℝ) 1 4 3 = 1 := by rw [linspace_eq (by norm_num) _ _ (by norm_num)]; norm_num
    have k0 := ufast_eq (show 2 ≤ 4 by norm_num) W (k := 0) (by norm_num)
    have k1 := ufast_eq (show 2 ≤ 4 by norm_num) W (k := 1) (by norm_num)
    have k2 := ufast_eq (show 2 ≤ 4 by norm_num) W (k := 2) (by norm_num)
    have k3 := ufast_eq (show 2 ≤ 4 by norm_num) W (k := 3) (by norm_num)
    simp only [transformRow, show (4 : ℕ) ≠ 1 by norm_num, show (4 : ℕ) ≠ 2 by norm_num, if_false,
      NumReal.zero_eq, NumReal.one_eq, lagrange4, t0, t1, t2, t3, k0, k1, k2, k3]
    push_cast
    linear_combination f * hu

/-! ### bilinear splat -/
theorem sum_hit {rows cols : ℕ} (hr : 0 < rows) (hc : 0 < cols) (q : ℤ × ℤ × ℝ) :
    ∑ i ∈ range rows, ∑ j ∈ range cols, hit rows cols q i j = q.2.2 := by
  unfold hit
  have hi : wrap rows q.1 ∈ range rows := mem_range.mpr (wrap_lt hr _)
  have hj : wrap cols q.2.1 ∈ range cols := mem_range.mpr (wrap_lt hc _)
  rw [Finset.sum_eq_single_of_mem _ hi, Finset.sum_eq_single_of_mem _ hj]
  · simp
  · intro j _ hne
    rw [if_neg]; · simp
    intro h; exact hne h.2.symm
  · intro i _ hne
    apply Finset.sum_eq_zero
    intro j _
    rw [if_neg]; · simp
    intro h; exact hne h.1.symm

theorem splatAt_eq (rows cols : ℕ) (xa ya : ℝ) (i j : ℕ) :
    splatAt rows cols xa ya i j
      = hit rows cols (⌊xa⌋, ⌊ya⌋, (1 - (xa - ⌊xa⌋)) * (1 - (ya - ⌊ya⌋))) i j
      + hit rows cols (⌊xa⌋ + 1, ⌊ya⌋, (xa - ⌊xa⌋) * (1 - (ya - ⌊ya⌋))) i j
      + hit rows cols (⌊xa⌋, ⌊ya⌋ + 1, (1 - (xa - ⌊xa⌋)) * (ya - ⌊ya⌋)) i j
      + hit rows cols (⌊xa⌋ + 1, ⌊ya⌋ + 1, (xa - ⌊xa⌋) * (ya - ⌊ya⌋)) i j := by
  simp [splatAt, corners]

/-! ### alignment loop -/
theorem meanUpdate_self (F : FImg ℝ) (ind : ℕ) : meanUpdate F F ind = F := by
  funext k l
  have h : ((ind + 1 : ℕ) : ℝ) ≠ 0 := by positivity
  unfold meanUpdate
  simp only [NumReal.ofNat_eq, NumReal.add_eq, NumReal.mul_eq, NumReal.div_eq]
  have e1 : (F k l).re * (ind : ℝ) / ((ind + 1 : ℕ) : ℝ) + (F k l).re / ((ind + 1 : ℕ) : ℝ) = (F k l).re := by
    field_simp; push_cast; ring
  have e2 : (F k l).im * (ind : ℝ) / ((ind + 1 : ℕ) : ℝ) + (F k l).im / ((ind + 1 : ℕ) : ℝ) = (F k l).im := by
    field_simp; push_cast; ring
  rw [e1, e2]

theorem alignLoop_identical (reg : Reg ℝ) (F : FImg ℝ) (hreg : reg F F = ((0, 0), F)) :
    ∀ (n ind : ℕ), alignLoop reg F ind (List.replicate n F) = List.replicate n ((0 : ℝ), (0 : ℝ)) := by
  intro n
  induction n with
  | zero => intro ind; simp [alignLoop]
  | succ n ih =>
    intro ind
    simp only [List.replicate_succ, alignLoop, hreg, meanUpdate_self]
    rw [ih]

theorem sumPairs_zero (n : ℕ) : sumPairs (List.replicate n ((0 : ℝ), (0 : ℝ))) = (0, 0) := by
  induction n with
  | zero => simp [sumPairs]
  | succ n ih => simp [List.replicate_succ, sumPairs, ih]

theorem removeMean_zero (n : ℕ) :
    removeMean (List.replicate n ((0 : ℝ), (0 : ℝ))) = List.replicate n ((0 : ℝ), (0 : ℝ)) := by
  unfold removeMean
  rw [sumPairs_zero]
  simp

/-- a zero shift leaves the Fourier image untouched: `F_im * exp(-2πi·0) = F_im` -/
theorem rampAt_zero (M N : ℕ) (Fi : FImg ℝ) : rampAt M N Fi 0 0 = Fi := by
  funext k l
  unfold rampAt
  have : (Cx.cis (Num.ofRat (-2) * Num.pi *
      (Num.ofInt (freq M k) / Num.ofNat M * (0 : ℝ) + Num.ofInt (freq N l) / Num.ofNat N * (0 : ℝ))) : Cx ℝ) = ⟨1, 0⟩ := by
    simp [Cx.cis]
  rw [this]
  show Cx.mul (Fi k l) ⟨1, 0⟩ = Fi k l
  unfold Cx.mul
  simp

/-! ### Lagrange interpolation reproduces low-degree polynomials -/

/-- three distinct nodes: every polynomial of degree ≤ 2 is reproduced exactly -/
theorem lagrange3_reproduces (t : ℕ → ℝ) (h01 : t 0 ≠ t 1) (h02 : t 0 ≠ t 2) (h12 : t 1 ≠ t 2)
    (a0 a1 a2 u : ℝ) :
    lagrange 3 t (fun i => a0 + a1 * t i + a2 * t i ^ 2) u = a0 + a1 * u + a2 * u ^ 2 := by
  rw [lagrange3]
  have e01 : t 0 - t 1 ≠ 0 := sub_ne_zero.mpr h01
  have e02 : t 0 - t 2 ≠ 0 := sub_ne_zero.mpr h02
  have e12 : t 1 - t 2 ≠ 0 := sub_ne_zero.mpr h12
  have e10 : t 1 - t 0 ≠ 0 := sub_ne_zero.mpr h01.symm
  have e20 : t 2 - t 0 ≠ 0 := sub_ne_zero.mpr h02.symm
  have e21 : t 2 - t 1 ≠ 0 := sub_ne_zero.mpr h12.symm
  field_simp
  ring

/-- four distinct nodes: every polynomial of degree ≤ 3 is reproduced exactly -/
theorem lagrange4_reproduces (t : ℕ → ℝ) (h01 : t 0 ≠ t 1) (h02 : t 0 ≠ t 2) (h03 : t 0 ≠ t 3)
    (h12 : t 1 ≠ t 2) (h13 : t 1 ≠ t 3) (h23 : t 2 ≠ t 3) (a0 a1 a2 a3 u : ℝ) :
    lagrange 4 t (fun i => a0 + a1 * t i + a2 * t i ^ 2 + a3 * t i ^ 3) u
      = a0 + a1 * u + a2 * u ^ 2 + a3 * u ^ 3 := by
  rw [lagrange4]
  have e01 : t 0 - t 1 ≠ 0 := sub_ne_zero.mpr h01
  have e02 : t 0 - t 2 ≠ 0 := sub_ne_zero.mpr h02
  have e03 : t 0 - t 3 ≠ 0 := sub_ne_zero.mpr h03
  have e12 : t 1 - t 2 ≠ 0 := sub_ne_zero.mpr h12
  have e13 : t 1 - t 3 ≠ 0 := sub_ne_zero.mpr h13
  have e23 : t 2 - t 3 ≠ 0 := sub_ne_zero.mpr h23
  have e10 : t 1 - t 0 ≠ 0 := sub_ne_zero.mpr h01.symm
  have e20 : t 2 - t 0 ≠ 0 := sub_ne_zero.mpr h02.symm
  have e30 : t 3 - t 0 ≠ 0 := sub_ne_zero.mpr h03.symm
  have e21 : t 2 - t 1 ≠ 0 := sub_ne_zero.mpr h12.symm
  have e31 : t 3 - t 1 ≠ 0 := sub_ne_zero.mpr h13.symm
  have e32 : t 3 - t 2 ≠ 0 := sub_ne_zero.mpr h23.symm
  field_simp
  ring

theorem basis2 : linspace (0 : ℝ) 1 2 0 = 0 ∧ linspace (0 : ℝ) 1 2 1 = 1 := by
  constructor <;> (rw [linspace_eq (le_refl 2) _ _ (by norm_num)]; norm_num)

theorem basis3 : linspace (0 : ℝ) 1 3 0 = 0 ∧ linspace (0 : ℝ) 1 3 1 = 1 / 2 ∧ linspace (0 : ℝ) 1 3 2 = 1 := by
  refine ⟨?_, ?_, ?_⟩ <;> (rw [linspace_eq (by norm_num) _ _ (by norm_num)]; norm_num)

theorem basis4 : linspace (0 : ℝ) 1 4 0 = 0 ∧ linspace (0 : ℝ) 1 4 1 = 1 / 3 ∧ linspace (0 : ℝ) 1 4 2 = 2 / 3 ∧
    linspace (0 : ℝ) 1 4 3 = 1 := by
  refine ⟨?_, ?_, ?_, ?_⟩ <;> (rw [linspace_eq (by norm_num) _ _ (by norm_num)]; norm_num)

/-- `np.linspace(a, b, n)` is the affine image of `np.linspace(0, 1, n)` (for every index, also past the end) -/
theorem linspace_affine {n : ℕ} (hn : 2 ≤ n) (a b : ℝ) (k : ℕ) :
    linspace a b n k = a + (b - a) * linspace (0 : ℝ) 1 n k := by
  have hn1 : ¬ n ≤ 1 := by omega
  unfold linspace
  rw [if_neg hn1, if_neg hn1]
  by_cases hl : k + 1 = n
  · rw [if_pos hl, if_pos hl]; ring
  · rw [if_neg hl, if_neg hl]
    simp only [NumReal.ofNat_eq, NumReal.mul_eq, NumReal.div_eq, NumReal.sub_eq, NumReal.add_eq]
    ring

/-! ### bilinear splat: non-negativity and first moment -/
theorem sum_hit_row {rows cols : ℕ} (hr : 0 < rows) (hc : 0 < cols) (q : ℤ × ℤ × ℝ) :
    ∑ i ∈ range rows, ∑ j ∈ range cols, (i : ℝ) * hit rows cols q i j = ((wrap rows q.1 : ℕ) : ℝ) * q.2.2 := by
  unfold hit
  have hi : wrap rows q.1 ∈ range rows := mem_range.mpr (wrap_lt hr _)
  have hj : wrap cols q.2.1 ∈ range cols := mem_range.mpr (wrap_lt hc _)
  rw [Finset.sum_eq_single_of_mem _ hi, Finset.sum_eq_single_of_mem _ hj]
  · simp
  · intro j _ hne
    rw [if_neg]; · simp
    intro h; exact hne h.2.symm
  · intro i _ hne
    apply Finset.sum_eq_zero
    intro j _
    rw [if_neg]; · simp
    intro h; exact hne h.1.symm

theorem sum_hit_col {rows cols : ℕ} (hr : 0 < rows) (hc : 0 < cols) (q : ℤ × ℤ × ℝ) :
    ∑ i ∈ range rows, ∑ j ∈ range cols, (j : ℝ) * hit rows cols q i j = ((wrap cols q.2.1 : ℕ) : ℝ) * q.2.2 := by
  unfold hit
  have hi : wrap rows q.1 ∈ range rows := mem_range.mpr (wrap_lt hr _)
  have hj : wrap cols q.2.1 ∈ range cols := mem_range.mpr (wrap_lt hc _)
  rw [Finset.sum_eq_single_of_mem _ hi, Finset.sum_eq_single_of_mem _ hj]
  · simp
  · intro j _ hne
    rw [if_neg]; · simp
    intro h; exact hne h.2.symm
  · intro i _ hne
    apply Finset.sum_eq_zero
    intro j _
    rw [if_neg]; · simp
    intro h; exact hne h.1.symm

theorem wrap_cast_of_mem {n : ℕ} {z : ℤ} (h0 : 0 ≤ z) (h1 : z < n) : ((wrap n z : ℕ) : ℝ) = (z : ℝ) := by
  have hn : 0 < n := by omega
  have := wrap_cast hn z
  rw [Int.emod_eq_of_lt h0 h1] at this
  exact_mod_cast this

/-! ### Gaussian filter, `mode="wrap"` -/
theorem convWrap_eq (n r : ℕ) (w x : ℕ → ℝ) (i : ℕ) :
    convWrap n r w x i = ∑ d ∈ range (2 * r + 1), w d * x (wrap n ((i : ℤ) + d - r)) := by
  unfold convWrap; rw [sumN_eq]

theorem convWrap_total {n : ℕ} (r : ℕ) (w x : ℕ → ℝ) :
    ∑ i ∈ range n, convWrap n r w x i = (∑ d ∈ range (2 * r + 1), w d) * ∑ i ∈ range n, x i := by
  simp_rw [convWrap_eq]
  rw [Finset.sum_comm, Finset.sum_mul]
  refine Finset.sum_congr rfl fun d _ => ?_
  rw [← Finset.mul_sum]
  congr 1
  have := sum_wrap n ((r : ℤ) - d) x
  rw [← this]
  refine Finset.sum_congr rfl fun i _ => ?_
  congr 2; ring

/-! ### Gaussian filter, `mode="reflect"` (the mode the code uses) -/

/-- the extended signal `X z = x[reflect(z)]` -/
noncomputable def extR (n : ℕ) (x : ℕ → ℝ) (z : ℤ) : ℝ := x (reflIdx n z)

theorem reflIdx_periodic (n : ℕ) (z k : ℤ) : reflIdx n (z + ((2 * n : ℕ) : ℤ) * k) = reflIdx n z := by
  unfold reflIdx; rw [wrap_add_mul]

theorem reflIdx_mirror {n : ℕ} (hn : 0 < n) (z : ℤ) : reflIdx n (-1 - z) = reflIdx n z := by
  have h2 : 0 < 2 * n := by omega
  obtain ⟨k, hk⟩ := wrap_cast_eq h2 z
  have hlt := wrap_lt h2 z
  have hw : wrap (2 * n) (-1 - z) = 2 * n - 1 - wrap (2 * n) z := by
    have e : -1 - z = (((2 * n - 1 - wrap (2 * n) z : ℕ) : ℤ)) + ((2 * n : ℕ) : ℤ) * (k - 1) := by
      rw [Nat.cast_sub (by omega), Nat.cast_sub (by omega), hk]; push_cast; ring
    rw [e, wrap_add_mul, wrap_of_lt (by omega)]
  unfold reflIdx
  simp only [hw]
  split_ifs <;> omega

theorem reflIdx_of_lt {n i : ℕ} (hi : i < n) : reflIdx n (i : ℤ) = i := by
  unfold reflIdx
  rw [wrap_of_lt (by omega : i < 2 * n)]; simp [hi]

theorem reflIdx_upper {n i : ℕ} (hi : i < n) : reflIdx n (((n + i : ℕ) : ℤ)) = n - 1 - i := by
  unfold reflIdx
  rw [wrap_of_lt (by omega : n + i < 2 * n)]
  have : ¬ (n + i < n) := by omega
  simp only [this, if_false]; omega

/-- one period of the reflected extension carries twice the total -/
theorem extR_period_sum (n : ℕ) (x : ℕ → ℝ) :
    ∑ i ∈ range (2 * n), extR n x (i : ℤ) = 2 * ∑ i ∈ range n, x i := by
  rw [two_mul n, Finset.sum_range_add]
  have h1 : ∑ i ∈ range n, extR n x (i : ℤ) = ∑ i ∈ range n, x i :=
    Finset.sum_congr rfl fun i hi => by unfold extR; rw [reflIdx_of_lt (mem_range.mp hi)]
  have h2 : ∑ i ∈ range n, extR n x (((n + i : ℕ) : ℤ)) = ∑ i ∈ range n, x i := by
    rw [← Finset.sum_range_reflect x n]
    exact Finset.sum_congr rfl fun i hi => by unfold extR; rw [reflIdx_upper (mem_range.mp hi)]
  rw [h1, h2]; ring

/-- the filtered extension -/
noncomputable def outR (n r : ℕ) (w x : ℕ → ℝ) (z : ℤ) : ℝ :=
  ∑ d ∈ range (2 * r + 1), w d * extR n x (z + d - r)

theorem convReflect_eq (n r : ℕ) (w x : ℕ → ℝ) (i : ℕ) : convReflect n r w x i = outR n r w x (i : ℤ) := by
  unfold convReflect outR extR; rw [sumN_eq]

/-- shifting the extension by any integer does not change its sum over a period -/
theorem extR_shift_sum {n : ℕ} (hn : 0 < n) (x : ℕ → ℝ) (s : ℤ) :
    ∑ i ∈ range (2 * n), extR n x ((i : ℤ) - s) = ∑ i ∈ range (2 * n), extR n x (i : ℤ) := by
  have h2 : 0 < 2 * n := by omega
  have key : ∀ z : ℤ, extR n x z = (fun j : ℕ => extR n x (j : ℤ)) (wrap (2 * n) z) := by
    intro z
    obtain ⟨k, hk⟩ := wrap_cast_eq h2 z
    simp only [extR]
    rw [hk, reflIdx_periodic]
  have := sum_wrap (2 * n) s (fun j : ℕ => extR n x (j : ℤ))
  rw [← this]
  exact Finset.sum_congr rfl fun i _ => key _

theorem outR_period_sum {n : ℕ} (hn : 0 < n) (r : ℕ) (w x : ℕ → ℝ) :
    ∑ i ∈ range (2 * n), outR n r w x (i : ℤ) = (∑ d ∈ range (2 * r + 1), w d) * (2 * ∑ i ∈ range n, x i) := by
  unfold outR
  rw [Finset.sum_comm, Finset.sum_mul]
  refine Finset.sum_congr rfl fun d _ => ?_
  rw [← Finset.mul_sum]
  congr 1
  rw [← extR_period_sum, ← extR_shift_sum hn x ((r : ℤ) - d)]
  refine Finset.sum_congr rfl fun i _ => ?_
  congr 1; ring

/-- for a symmetric kernel the filtered extension is mirror-symmetric as well -/
theorem outR_mirror {n : ℕ} (hn : 0 < n) (r : ℕ) (w x : ℕ → ℝ) (hw : ∀ d, d ≤ 2 * r → w (2 * r - d) = w d) (i : ℕ) :
    outR n r w x (((n + (n - 1 - i) : ℕ) : ℤ)) = outR n r w x ((i : ℤ)) ∨ n ≤ i := by
  by_cases hi : n ≤ i
  · exact Or.inr hi
  left
  have hi' : i < n := by omega
  unfold outR
  rw [← Finset.sum_range_reflect (fun d => w d * extR n x ((i : ℤ) + d - r)) (2 * r + 1)]
  refine Finset.sum_congr rfl fun d hd => ?_
  have hd' : d ≤ 2 * r := by have := mem_range.mp hd; omega
  have e1 : 2 * r + 1 - 1 - d = 2 * r - d := by omega
  rw [e1, hw d hd']
  congr 1
  unfold extR
  have : (((n + (n - 1 - i) : ℕ) : ℤ)) + d - r = (-1 - ((i : ℤ) + ((2 * r - d : ℕ) : ℤ) - r)) + ((2 * n : ℕ) : ℤ) * 1 := by
    rw [Nat.cast_sub hd']
    have : ((n + (n - 1 - i) : ℕ) : ℤ) = 2 * (n : ℤ) - 1 - i := by omega
    rw [this]; push_cast; ring
  rw [this, reflIdx_periodic, reflIdx_mirror hn]

theorem convReflect_total {n : ℕ} (hn : 0 < n) (r : ℕ) (w x : ℕ → ℝ) (hw : ∀ d, d ≤ 2 * r → w (2 * r - d) = w d) :
    ∑ i ∈ range n, convReflect n r w x i = (∑ d ∈ range (2 * r + 1), w d) * ∑ i ∈ range n, x i := by
  have hS := outR_period_sum hn r w x
  rw [two_mul n, Finset.sum_range_add] at hS
  have h2 : ∑ i ∈ range n, outR n r w x (((n + i : ℕ) : ℤ)) = ∑ i ∈ range n, outR n r w x (i : ℤ) := by
    rw [← Finset.sum_range_reflect (fun i => outR n r w x (((n + i : ℕ) : ℤ))) n]
    refine Finset.sum_congr rfl fun i hi => ?_
    rcases outR_mirror hn r w x hw i with h | h
    · exact h
    · exact absurd (mem_range.mp hi) (by omega)
  rw [h2] at hS
  simp_rw [convReflect_eq]
  linarith

end QuantemModel.Drift
