import QuantemModel.Model.Drift
import QuantemModel.Lemmas.Registration
import Mathlib.Tactic.IntervalCases
/-!
Helper lemmas for Props/C15.lean: the drift geometry model (Model/Drift.lean) at the carrier ℝ.
-/
namespace QuantemModel.Drift
open QuantemModel QuantemModel.Registration Finset

/-! ### `np.linspace` -/
theorem linspace_one (a b : ℝ) (i : ℕ) : linspace a b 1 i = a := by simp [linspace]

theorem linspace_eq {n : ℕ} (hn : 2 ≤ n) (a b : ℝ) {i : ℕ} (_hi : i < n) :
    linspace a b n i = a + (i : ℝ) * (b - a) / ((n : ℝ) - 1) := by
  have hn1 : ¬ n ≤ 1 := by omega
  have hne : ((n : ℝ) - 1) ≠ 0 := by
    have : (2 : ℝ) ≤ n := by exact_mod_cast hn
    linarith
  unfold linspace
  rw [if_neg hn1]
  by_cases hl : i + 1 = n
  · rw [if_pos hl]
    have : (i : ℝ) = (n : ℝ) - 1 := by
      have : ((i + 1 : ℕ) : ℝ) = n := by exact_mod_cast hl
      push_cast at this; linarith
    rw [this]; field_simp; ring
  · rw [if_neg hl]
    have hc : ((n - 1 : ℕ) : ℝ) = (n : ℝ) - 1 := by
      rw [Nat.cast_sub (by omega)]; simp
    simp only [NumReal.ofNat_eq, NumReal.mul_eq, NumReal.div_eq, NumReal.sub_eq, NumReal.add_eq, hc]
    ring

theorem halfSpan_eq (n : ℕ) : (halfSpan n : ℝ) = ((n : ℝ) - 1) / 2 := by
  simp [halfSpan]

/-- `v_slow[r] = r - (H-1)/2` -/
theorem vslow_eq {H r : ℕ} (hr : r < H) :
    linspace (-(halfSpan H : ℝ)) (halfSpan H) H r = (r : ℝ) - ((H : ℝ) - 1) / 2 := by
  rcases Nat.lt_or_ge H 2 with h | h
  · have hH : H = 1 := by omega
    subst hH
    have : r = 0 := by omega
    subst this
    rw [linspace_one, halfSpan_eq]; simp
  · rw [linspace_eq h _ _ hr, halfSpan_eq]
    have hne : ((H : ℝ) - 1) ≠ 0 := by
      have : (2 : ℝ) ≤ H := by exact_mod_cast h
      linarith
    field_simp; ring

/-- `u[c] · (W - 1) = c` -/
theorem u_mul {W c : ℕ} (hc : c < W) :
    linspace (0 : ℝ) 1 W c * ((W : ℝ) - 1) = (c : ℝ) := by
  rcases Nat.lt_or_ge W 2 with h | h
  · have hW : W = 1 := by omega
    subst hW
    have : c = 0 := by omega
    subst this
    simp [linspace_one]
  · rw [linspace_eq h _ _ hc]
    have hne : ((W : ℝ) - 1) ≠ 0 := by
      have : (2 : ℝ) ≤ W := by exact_mod_cast h
      linarith
    field_simp; ring

/-- `u_fast[k] = -(W-1)/2 + k (W-1)/(nk-1)` -/
theorem ufast_eq {nk : ℕ} (hn : 2 ≤ nk) (W : ℕ) {k : ℕ} (hk : k < nk) :
    linspace (-(halfSpan W : ℝ)) (halfSpan W) nk k
      = -(((W : ℝ) - 1) / 2) + (k : ℝ) * ((W : ℝ) - 1) / ((nk : ℝ) - 1) := by
  rw [linspace_eq hn _ _ hk, halfSpan_eq]; ring

/-! ### Lagrange basis for 3 and 4 nodes, written out -/
theorem lagrange3 (t y : ℕ → ℝ) (u : ℝ) :
    lagrange 3 t y u
      = y 0 * (((u - t 1) / (t 0 - t 1)) * ((u - t 2) / (t 0 - t 2)))
      + y 1 * (((u - t 0) / (t 1 - t 0)) * ((u - t 2) / (t 1 - t 2)))
      + y 2 * (((u - t 0) / (t 2 - t 0)) * ((u - t 1) / (t 2 - t 1))) := by
  simp [lagrange, lagBasis, sumN, List.range, List.range.loop]

theorem lagrange4 (t y : ℕ → ℝ) (u : ℝ) :
    lagrange 4 t y u
      = y 0 * (((u - t 1) / (t 0 - t 1)) * ((u - t 2) / (t 0 - t 2)) * ((u - t 3) / (t 0 - t 3)))
      + y 1 * (((u - t 0) / (t 1 - t 0)) * ((u - t 2) / (t 1 - t 2)) * ((u - t 3) / (t 1 - t 3)))
      + y 2 * (((u - t 0) / (t 2 - t 0)) * ((u - t 1) / (t 2 - t 1)) * ((u - t 3) / (t 2 - t 3)))
      + y 3 * (((u - t 0) / (t 3 - t 0)) * ((u - t 1) / (t 3 - t 1)) * ((u - t 2) / (t 3 - t 2))) := by
  simp [lagrange, lagBasis, sumN, List.range, List.range.loop]

/-- `transform_rows` applied to knots that lie on a straight line `A + u_fast[k]·f` reproduces
that line at every pixel, for 1, 2, 3 and 4 knots -/
theorem transformRow_affine (nk W : ℕ) (hnk : 1 ≤ nk ∧ nk ≤ 4) (A f : ℝ) {c : ℕ} (hc : c < W) :
    transformRow nk W (fun k => A + linspace (-(halfSpan W : ℝ)) (halfSpan W) nk k * f) f (linspace (0 : ℝ) 1 W c)
      = A + ((c : ℝ) - ((W : ℝ) - 1) / 2) * f := by
  have hu := u_mul hc
  set u := linspace (0 : ℝ) 1 W c with hu_def
  obtain ⟨h1, h4⟩ := hnk
  interval_cases nk
  · -- one knot: linear extrapolation along the fast axis
    simp only [transformRow, if_true, linspace_one, halfSpan_eq, NumReal.ofInt_eq, NumReal.add_eq, NumReal.mul_eq]
    push_cast
    linear_combination f * hu
  · -- two knots: interp1d linear
    have t0 : linspace (0 : ℝ) 1 2 0 = 0 := by rw [linspace_eq (le_refl 2) _ _ (by norm_num)]; norm_num
    have t1 : linspace (0 : ℝ) 1 2 1 = 1 := by rw [linspace_eq (le_refl 2) _ _ (by norm_num)]; norm_num
    have k0 := ufast_eq (le_refl 2) W (k := 0) (by norm_num)
    have k1 := ufast_eq (le_refl 2) W (k := 1) (by norm_num)
    simp only [transformRow, show (2 : ℕ) ≠ 1 by norm_num, if_false, if_true, NumReal.zero_eq, NumReal.one_eq,
      NumReal.add_eq, NumReal.mul_eq, NumReal.sub_eq, NumReal.div_eq, t0, t1, k0, k1]
    push_cast
    linear_combination f * hu
  · -- three knots: quadratic through the knots
    have t0 : linspace (0 : ℝ) 1 3 0 = 0 := by rw [linspace_eq (by norm_num) _ _ (by norm_num)]; norm_num
    have t1 : linspace (0 : ℝ) 1 3 1 = 1 / 2 := by rw [linspace_eq (by norm_num) _ _ (by norm_num)]; norm_num
    have t2 : linspace (0 : ℝ) 1 3 2 = 1 := by rw [linspace_eq (by norm_num) _ _ (by norm_num)]; norm_num
    have k0 := ufast_eq (show 2 ≤ 3 by norm_num) W (k := 0) (by norm_num)
    have k1 := ufast_eq (show 2 ≤ 3 by norm_num) W (k := 1) (by norm_num)
    have k2 := ufast_eq (show 2 ≤ 3 by norm_num) W (k := 2) (by norm_num)
    simp only [transformRow, show (3 : ℕ) ≠ 1 by norm_num, show (3 : ℕ) ≠ 2 by norm_num, if_false,
      NumReal.zero_eq, NumReal.one_eq, lagrange3, t0, t1, t2, k0, k1, k2]
    push_cast
    linear_combination f * hu
  · -- four knots: cubic through the knots
    have t0 : linspace (0 : ℝ) 1 4 0 = 0 := by rw [linspace_eq (by norm_num) _ _ (by norm_num)]; norm_num
    have t1 : linspace (0 : ℝ) 1 4 1 = 1 / 3 := by rw [linspace_eq (by norm_num) _ _ (by norm_num)]; norm_num
    have t2 : linspace (0 : ℝ) 1 4 2 = 2 / 3 := by rw [linspace_eq (by norm_num) _ _ (by norm_num)]; norm_num
    have t3 : linspace (0 : ℝ) 1 4 3 = 1 := by rw [linspace_eq (by norm_num) _ _ (by norm_num)]; norm_num
    have k0 := ufast_eq (show 2 ≤ 4 by norm_num) W (k := 0) (by norm_num)
    have k1 := ufast_eq (show 2 ≤ 4 by norm_num) W (k := 1) (by norm_num)
    have k2 := ufast_eq (show 2 ≤ 4 by norm_num) W (k := 2) (by norm_num)
    have k3 := ufast_eq (show 2 ≤ 4 by norm_num) W (k := 3) (by norm_num)
    simp only [transformRow, show (4 : ℕ) ≠ 1 by norm_num, show (4 : ℕ) ≠ 2 by norm_num, if_false,
      NumReal.zero_eq, NumReal.one_eq, lagrange4, t0, t1, t2, t3, k0, k1, k2, k3]
    push_cast
    linear_combination f * hu

/-! ### bilinear splat -/
theorem sum_hit {rows cols : ℕ} (hr : 0 < rows) (hc : 0 < cols) (q : ℤ × ℤ × ℝ) :
    ∑ i ∈ range rows, ∑ j ∈ range cols, hit rows cols q i j = q.2.2 := by
  unfold hit
  have hi : wrap rows q.1 ∈ range rows := mem_range.mpr (wrap_lt hr _)
  have hj : wrap cols q.2.1 ∈ range cols := mem_range.mpr (wrap_lt hc _)
  rw [Finset.sum_eq_single_of_mem _ hi, Finset.sum_eq_single_of_mem _ hj]
  · simp
  · intro j _ hne
    rw [if_neg]; · simp
    intro h; exact hne h.2.symm
  · intro i _ hne
    apply Finset.sum_eq_zero
    intro j _
    rw [if_neg]; · simp
    intro h; exact hne h.1.symm

theorem splatAt_eq (rows cols : ℕ) (xa ya : ℝ) (i j : ℕ) :
    splatAt rows cols xa ya i j
      = hit rows cols (⌊xa⌋, ⌊ya⌋, (1 - (xa - ⌊xa⌋)) * (1 - (ya - ⌊ya⌋))) i j
      + hit rows cols (⌊xa⌋ + 1, ⌊ya⌋, (xa - ⌊xa⌋) * (1 - (ya - ⌊ya⌋))) i j
      + hit rows cols (⌊xa⌋, ⌊ya⌋ + 1, (1 - (xa - ⌊xa⌋)) * (ya - ⌊ya⌋)) i j
      + hit rows cols (⌊xa⌋ + 1, ⌊ya⌋ + 1, (xa - ⌊xa⌋) * (ya - ⌊ya⌋)) i j := by
  simp [splatAt, corners]

/-! ### alignment loop -/
theorem meanUpdate_self (F : FImg ℝ) (ind : ℕ) : meanUpdate F F ind = F := by
  funext k l
  have h : ((ind + 1 : ℕ) : ℝ) ≠ 0 := by positivity
  unfold meanUpdate
  simp only [NumReal.ofNat_eq, NumReal.add_eq, NumReal.mul_eq, NumReal.div_eq]
  have e1 : (F k l).re * (ind : ℝ) / ((ind + 1 : ℕ) : ℝ) + (F k l).re / ((ind + 1 : ℕ) : ℝ) = (F k l).re := by
    field_simp; push_cast; ring
  have e2 : (F k l).im * (ind : ℝ) / ((ind + 1 : ℕ) : ℝ) + (F k l).im / ((ind + 1 : ℕ) : ℝ) = (F k l).im := by
    field_simp; push_cast; ring
  rw [e1, e2]

theorem alignLoop_identical (reg : Reg ℝ) (F : FImg ℝ) (hreg : reg F F = ((0, 0), F)) :
    ∀ (n ind : ℕ), alignLoop reg F ind (List.replicate n F) = List.replicate n ((0 : ℝ), (0 : ℝ)) := by
  intro n
  induction n with
  | zero => intro ind; simp [alignLoop]
  | succ n ih =>
    intro ind
    simp only [List.replicate_succ, alignLoop, hreg, meanUpdate_self]
    rw [ih]

theorem sumPairs_zero (n : ℕ) : sumPairs (List.replicate n ((0 : ℝ), (0 : ℝ))) = (0, 0) := by
  induction n with
  | zero => simp [sumPairs]
  | succ n ih => simp [List.replicate_succ, sumPairs, ih]

theorem removeMean_zero (n : ℕ) :
    removeMean (List.replicate n ((0 : ℝ), (0 : ℝ))) = List.replicate n ((0 : ℝ), (0 : ℝ)) := by
  unfold removeMean
  rw [sumPairs_zero]
  simp

/-- a zero shift leaves the Fourier image untouched: `F_im * exp(-2πi·0) = F_im` -/
theorem rampAt_zero (M N : ℕ) (Fi : FImg ℝ) : rampAt M N Fi 0 0 = Fi := by
  funext k l
  unfold rampAt
  have : (Cx.cis (Num.ofRat (-2) * Num.pi *
      (Num.ofInt (freq M k) / Num.ofNat M * (0 : ℝ) + Num.ofInt (freq N l) / Num.ofNat N * (0 : ℝ))) : Cx ℝ) = ⟨1, 0⟩ := by
    simp [Cx.cis]
  rw [this]
  show Cx.mul (Fi k l) ⟨1, 0⟩ = Fi k l
  unfold Cx.mul
  simp

end QuantemModel.Drift
