import QuantemModel.Model.SerializeSpec
/-! Mutual induction principle for the nested value type of the serializer model. -/
namespace QuantemModel.Serialize

/-- simultaneous induction over values, lists of values and key/value lists -/
theorem vals_induction (P : Val → Prop) (Ps : List Val → Prop) (Pk : List (String × Val) → Prop)
    (hleaf : ∀ v, (match v with | .list _ | .tuple _ | .set _ | .dict _ | .obj .. => False | _ => True) → P v)
    (hlist : ∀ xs, Ps xs → P (.list xs)) (htuple : ∀ xs, Ps xs → P (.tuple xs)) (hset : ∀ xs, Ps xs → P (.set xs))
    (hdict : ∀ kvs, Pk kvs → P (.dict kvs)) (hobj : ∀ cls kvs, Pk kvs → P (.obj cls kvs))
    (hsnil : Ps []) (hscons : ∀ v xs, P v → Ps xs → Ps (v :: xs))
    (hknil : Pk []) (hkcons : ∀ k v kvs, P v → Pk kvs → Pk ((k, v) :: kvs)) :
    (∀ v, P v) ∧ (∀ xs, Ps xs) ∧ (∀ kvs, Pk kvs) := by
  have key : (∀ v, P v) ∧ (∀ xs, Ps xs) ∧ (∀ kvs, Pk kvs) := by
    refine ⟨?_, ?_, ?_⟩
    · intro v
      exact Val.rec (motive_1 := P) (motive_2 := Ps) (motive_3 := Pk) (motive_4 := fun kv => P kv.2)
        (fun s => hleaf _ trivial) (fun dt s => hleaf _ trivial) (fun p => hleaf _ trivial)
        (fun dt sh d => hleaf _ trivial) (fun k c t => hleaf _ trivial) (fun c t => hleaf _ trivial)
        (fun p => hleaf _ trivial) (fun b => hleaf _ trivial) (hleaf _ trivial) (fun n l => hleaf _ trivial)
        (fun xs ih => hlist xs ih) (fun xs ih => htuple xs ih) (fun xs ih => hset xs ih)
        (fun kvs ih => hdict kvs ih) (fun cls kvs ih => hobj cls kvs ih)
        hsnil (fun v xs ihv ihs => hscons v xs ihv ihs)
        hknil (fun kv kvs ihv ihs => hkcons kv.1 kv.2 kvs ihv ihs)
        (fun k v ih => ih) v
    · intro xs
      exact Val.rec_1 (motive_1 := P) (motive_2 := Ps) (motive_3 := Pk) (motive_4 := fun kv => P kv.2)
        (fun s => hleaf _ trivial) (fun dt s => hleaf _ trivial) (fun p => hleaf _ trivial)
        (fun dt sh d => hleaf _ trivial) (fun k c t => hleaf _ trivial) (fun c t => hleaf _ trivial)
        (fun p => hleaf _ trivial) (fun b => hleaf _ trivial) (hleaf _ trivial) (fun n l => hleaf _ trivial)
        (fun xs ih => hlist xs ih) (fun xs ih => htuple xs ih) (fun xs ih => hset xs ih)
        (fun kvs ih => hdict kvs ih) (fun cls kvs ih => hobj cls kvs ih)
        hsnil (fun v xs ihv ihs => hscons v xs ihv ihs)
        hknil (fun kv kvs ihv ihs => hkcons kv.1 kv.2 kvs ihv ihs)
        (fun k v ih => ih) xs
    · intro kvs
      exact Val.rec_2 (motive_1 := P) (motive_2 := Ps) (motive_3 := Pk) (motive_4 := fun kv => P kv.2)
        (fun s => hleaf _ trivial) (fun dt s => hleaf _ trivial) (fun p => hleaf _ trivial)
        (fun dt sh d => hleaf _ trivial) (fun k c t => hleaf _ trivial) (fun c t => hleaf _ trivial)
        (fun p => hleaf _ trivial) (fun b => hleaf _ trivial) (hleaf _ trivial) (fun n l => hleaf _ trivial)
        (fun xs ih => hlist xs ih) (fun xs ih => htuple xs ih) (fun xs ih => hset xs ih)
        (fun kvs ih => hdict kvs ih) (fun cls kvs ih => hobj cls kvs ih)
        hsnil (fun v xs ihv ihs => hscons v xs ihv ihs)
        hknil (fun kv kvs ihv ihs => hkcons kv.1 kv.2 kvs ihv ihs)
        (fun k v ih => ih) kvs
  exact key


end QuantemModel.Serialize
