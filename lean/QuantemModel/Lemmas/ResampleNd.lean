import QuantemModel.Lemmas.ResampleSpectral
/-! N-D Fourier resampling as a fold of the 1-D operator over the axes: per-axis access lemma
and the lift of the 1-D laws (identity, linearity, total/mean, round trip). -/
namespace QuantemModel.Resample
open QuantemModel QuantemModel.Dft QuantemModel.Nd Complex

theorem InBox_set : ∀ {s j : List Nat} {ax m i : Nat}, InBox s j → i < m → InBox (s.set ax m) (j.set ax i)
  | [], [], _, _, _, _, _ => by simp [InBox]
  | n :: r, x :: j, 0, m, i, h, hi => by simp only [List.set_cons_zero, InBox]; exact ⟨hi, h.2⟩
  | n :: r, x :: j, ax + 1, m, i, h, hi => by
    simp only [List.set_cons_succ, InBox]; exact ⟨h.1, InBox_set h.2 hi⟩
  | [], _ :: _, _, _, _, h, _ => by simp [InBox] at h
  | _ :: _, [], _, _, _, h, _ => by simp [InBox] at h

theorem InBox_getD_lt : ∀ {s j : List Nat} {ax : Nat}, InBox s j → ax < s.length → j.getD ax 0 < s.getD ax 0
  | n :: r, x :: j, 0, h, _ => by simpa using h.1
  | n :: r, x :: j, ax + 1, h, hax => by
    simpa using InBox_getD_lt (s := r) (j := j) (ax := ax) h.2 (by simpa using hax)
  | [], _, _, _, hax => by simp at hax
  | _ :: _, [], _, h, _ => by simp [InBox] at h

theorem set_getD_self (j : List Nat) (ax : Nat) : j.set ax (j.getD ax 0) = j := by
  apply List.ext_getElem
  · simp
  · intro i h1 h2
    by_cases h : ax = i
    · subst h; simp [List.getD_eq_getElem?_getD, h2]
    · simp [List.getElem_set_ne h]

theorem line_length {β : Type} [Inhabited β] (a : Arr β) (ax : Nat) (j : List Nat) :
    (line a ax j).length = a.shape.getD ax 1 := by simp [line]

theorem line_set {β : Type} [Inhabited β] (a : Arr β) (ax : Nat) (j : List Nat) (i : Nat) :
    line a ax (j.set ax i) = line a ax j := by
  unfold line
  apply List.map_congr_left
  intro k _
  rw [List.set_set]

theorem line_getD {β : Type} [Inhabited β] (a : Arr β) (ax : Nat) (j : List Nat) (i : Nat) (d : β)
    (hi : i < a.shape.getD ax 1) : (line a ax j).getD i d = a.get (j.set ax i) := by
  unfold line
  rw [List.getD_eq_getElem?_getD, List.getElem?_map, List.getElem?_range hi]
  rfl

/-- element access of the per-axis operator: output element `j` is entry `j[ax]` of the
transformed line through `j` -/
theorem alongAxis_get {β : Type} [Inhabited β] (a : Arr β) (ax m : Nat) (f : List β → List β)
    {j : List Nat} (hj : InBox (a.shape.set ax m) j) :
    (alongAxis a ax m f).get j = (f (line a ax j)).getD (j.getD ax 0) default := by
  unfold alongAxis
  simp only
  rw [build_get _ _ hj]
  have h1 : InBox (a.shape.set ax 1) (j.set ax 0) := by
    have := InBox_set (ax := ax) (m := 1) (i := 0) hj (by omega)
    rwa [List.set_set] at this
  rw [build_get _ _ h1, line_set]

theorem alongAxis_shape {β : Type} [Inhabited β] (a : Arr β) (ax m : Nat) (f : List β → List β) :
    (alongAxis a ax m f).shape = a.shape.set ax m := rfl

/-! ### the unscaled 1-D operator -/

theorem length_resample1U (x : List (Cx ℝ)) (m : ℕ) : (resample1U m x).length = m := by
  unfold resample1U
  rw [length_idft, length_spectrumMap _ _ _ _ (length_dft x)]

theorem resample1U_same (x : List (Cx ℝ)) : resample1U x.length x = x := by
  unfold resample1U
  rw [spectrumMap_self _ _ _ (length_dft x), idft_dft]

theorem resample1U_sum (x : List (Cx ℝ)) (m : ℕ) (hn : x.length ≠ 0) (hm : m ≠ 0) :
    toC (Cx.sum (resample1U m x)) = toC (Cx.sum x) := by
  unfold resample1U
  have hY : (spectrumMap Cx.zero x.length m (dft x)).length = m :=
    length_spectrumMap _ _ _ _ (length_dft x)
  rw [sum_idft _ (by rw [hY]; exact hm),
    spectrumMap_dc _ _ _ _ (length_dft x) (Nat.pos_of_ne_zero hn) (Nat.pos_of_ne_zero hm), dft_zero x hn]

theorem resample1U_up_down (x : List (Cx ℝ)) (m : ℕ) (hn : 1 ≤ x.length) (hnm : x.length ≤ m) :
    resample1U x.length (resample1U m x) = x := by
  have hlen := length_resample1U x m
  have outer : ∀ y : List (Cx ℝ), resample1U x.length y
      = idft (spectrumMap Cx.zero y.length x.length (dft y)) := fun _ => rfl
  rw [outer, hlen]
  have hy : resample1U m x = idft (spectrumMap Cx.zero x.length m (dft x)) := rfl
  rw [hy, dft_idft, spectrumMap_up_down _ _ _ _ (length_dft x) hn hnm, idft_dft]

theorem smul_smul_inv (c : ℝ) (hc : c ≠ 0) (z : Cx ℝ) : Cx.smul c⁻¹ (Cx.smul c z) = z := by
  apply toC_inj
  have : (c : ℂ) ≠ 0 := by exact_mod_cast hc
  simp
  field_simp

/-- linearity of the unscaled 1-D operator -/
theorem resample1U_linear (a : Cx ℝ) (x y : List (Cx ℝ)) (m : ℕ) (h : x.length = y.length)
    (hn : x.length ≠ 0) (hm : m ≠ 0) :
    resample1U m (List.zipWith (· + ·) (x.map (a * ·)) y)
      = List.zipWith (· + ·) ((resample1U m x).map (a * ·)) (resample1U m y) := by
  have hL := resample1_linear a x y m h
  have hlen : (List.zipWith (· + ·) (x.map (a * ·)) y).length = x.length := by simp [h]
  set c : ℝ := Num.ofRat ((m : Rat) / (x.length : Rat)) with hc
  have hcne : c ≠ 0 := by
    rw [hc]; simp only [NumReal.ofRat_eq]; push_cast
    have h1 : (x.length : ℝ) ≠ 0 := by exact_mod_cast hn
    have h2 : (m : ℝ) ≠ 0 := by exact_mod_cast hm
    exact div_ne_zero h2 h1
  have e1 : resample1 m (List.zipWith (· + ·) (x.map (a * ·)) y)
      = (resample1U m (List.zipWith (· + ·) (x.map (a * ·)) y)).map (Cx.smul c) := by
    unfold resample1; rw [hlen]
  have e2 : resample1 m x = (resample1U m x).map (Cx.smul c) := rfl
  have e3 : resample1 m y = (resample1U m y).map (Cx.smul c) := by
    unfold resample1; rw [← h]
  rw [e1, e2, e3] at hL
  have hL2 := congrArg (List.map (Cx.smul c⁻¹)) hL
  rw [List.map_map] at hL2
  have hid : ∀ l : List (Cx ℝ), List.map (Cx.smul c⁻¹ ∘ Cx.smul c) l = l := by
    intro l
    conv_rhs => rw [← List.map_id l]
    apply List.map_congr_left; intro z _; exact smul_smul_inv c hcne z
  rw [hid] at hL2
  rw [hL2]
  apply List.ext_getElem
  · simp
  · intro i h1 h2
    simp only [List.getElem_map, List.getElem_zipWith]
    apply toC_inj
    have hcc : (c : ℂ) ≠ 0 := by exact_mod_cast hcne
    simp
    field_simp

/-! ### the N-D fold -/

/-- a NumPy array: the data fills the shape -/
def WFArr {β : Type} (a : Arr β) : Prop := a.data.length = prod a.shape

theorem wf_build {β : Type} (s : List Nat) (f : List Nat → β) : WFArr (build s f) := build_data_length s f

theorem wf_alongAxis {β : Type} [Inhabited β] (a : Arr β) (ax m : Nat) (f : List β → List β) :
    WFArr (alongAxis a ax m f) := by unfold alongAxis; exact wf_build _ _

theorem arr_ext {β : Type} [Inhabited β] {a b : Arr β} (hs : a.shape = b.shape) (ha : WFArr a) (hb : WFArr b)
    (h : ∀ j, InBox a.shape j → a.get j = b.get j) : a = b := by
  rw [← build_get_self a ha, ← build_get_self b hb, ← hs]
  exact build_congr _ _ _ h

theorem getD_one_eq_zero {s : List Nat} {ax : Nat} (h : ax < s.length) : s.getD ax 1 = s.getD ax 0 := by
  simp [List.getD_eq_getElem?_getD, h]

theorem set_getD_self' (s : List Nat) (ax : Nat) : s.set ax (s.getD ax 1) = s := by
  by_cases h : ax < s.length
  · rw [getD_one_eq_zero h]; exact set_getD_self s ax
  · exact List.set_eq_of_length_le (by omega)

/-- **identity along one axis** -/
theorem alongAxis_same (a : Arr (Cx ℝ)) (ax : Nat) (ha : WFArr a) (hax : ax < a.shape.length) :
    alongAxis a ax (a.shape.getD ax 1) (resample1U (a.shape.getD ax 1)) = a := by
  apply arr_ext
  · rw [alongAxis_shape, set_getD_self']
  · exact wf_alongAxis _ _ _ _
  · exact ha
  · intro j hj
    rw [alongAxis_shape] at hj
    rw [alongAxis_get _ _ _ _ hj]
    rw [set_getD_self'] at hj
    have hl : (line a ax j).length = a.shape.getD ax 1 := line_length a ax j
    rw [← hl, resample1U_same]
    have hlt : j.getD ax 0 < a.shape.getD ax 1 := by
      rw [getD_one_eq_zero hax]; exact InBox_getD_lt hj hax
    rw [line_getD a ax j _ _ hlt, set_getD_self]

theorem resampleFold_nil (a : Arr (Cx ℝ)) : resampleFold a [] = a := rfl
theorem resampleFold_cons (a : Arr (Cx ℝ)) (p : Nat × Nat) (t : List (Nat × Nat)) :
    resampleFold a (p :: t) = resampleFold (alongAxis a p.1 p.2 (resample1U p.2)) t := rfl

/-- **identity when the shape is unchanged (N-D)** -/
theorem resampleFold_same (a : Arr (Cx ℝ)) (ha : WFArr a) (pairs : List (Nat × Nat))
    (hp : ∀ p ∈ pairs, p.1 < a.shape.length ∧ p.2 = a.shape.getD p.1 1) : resampleFold a pairs = a := by
  induction pairs with
  | nil => rfl
  | cons p t ih =>
    rw [resampleFold_cons]
    have h1 := hp p (by simp)
    rw [h1.2, alongAxis_same a p.1 ha h1.1]
    exact ih (fun q hq => hp q (by simp [hq]))

/-- sum over an index box, split off one axis -/
theorem sum_allIdx_axis : ∀ (s : List Nat) (ax : Nat), ax < s.length → ∀ (m : Nat) (G : List Nat → ℂ),
    ((allIdx (s.set ax m)).map G).sum
      = ((allIdx (s.set ax 1)).map fun j' => ((List.range m).map fun i => G (j'.set ax i)).sum).sum
  | [], _, h, _, _ => by simp at h
  | n :: r, 0, _, m, G => by
    simp only [List.set_cons_zero]
    rw [sum_allIdx_cons, sum_allIdx_cons]
    simp only [List.range_one, List.map_cons, List.map_nil, List.sum_cons, List.sum_nil, add_zero,
      List.set_cons_zero]
    rw [list_sum_comm]
  | n :: r, ax + 1, h, m, G => by
    simp only [List.set_cons_succ]
    rw [sum_allIdx_cons, sum_allIdx_cons]
    apply congrArg
    apply List.map_congr_left
    intro i0 _
    rw [sum_allIdx_axis r ax (by simpa using h) m (fun j => G (i0 :: j))]
    rfl

/-- the sum of all elements, in ℂ -/
noncomputable def total (a : Arr (Cx ℝ)) : ℂ := ((allIdx a.shape).map fun j => toC (a.get j)).sum

theorem total_eq_sum_data (a : Arr (Cx ℝ)) (ha : WFArr a) : total a = toC (Cx.sum a.data) := by
  unfold total
  rw [toC_sum]
  have := congrArg Arr.data (build_get_self a ha)
  simp only [build] at this
  conv_rhs => rw [← this]
  rw [List.map_map]; rfl

theorem getD_set_self (j : List Nat) (ax i : Nat) (h : ax < j.length) : (j.set ax i).getD ax 0 = i := by
  simp [List.getD_eq_getElem?_getD, h]

/-- **the total is preserved along one axis** (unscaled operator) -/
theorem total_alongAxis (a : Arr (Cx ℝ)) (ax m : Nat) (ha : WFArr a) (hax : ax < a.shape.length)
    (hn : a.shape.getD ax 1 ≠ 0) (hm : m ≠ 0) :
    total (alongAxis a ax m (resample1U m)) = total a := by
  unfold total
  rw [alongAxis_shape, sum_allIdx_axis a.shape ax hax m]
  have hback : (a.shape.set ax 1).set ax (a.shape.getD ax 1) = a.shape := by
    rw [List.set_set, set_getD_self']
  have hax1 : ax < (a.shape.set ax 1).length := by simpa using hax
  conv_rhs => rw [← hback, sum_allIdx_axis (a.shape.set ax 1) ax hax1 (a.shape.getD ax 1)]
  rw [List.set_set]
  apply congrArg
  apply List.map_congr_left
  intro j' hj'
  have hj := mem_allIdx.mp hj'
  have hjl : ax < j'.length := by rw [hj.length_eq]; exact hax1
  have h1 : ∀ i ∈ List.range m, toC ((alongAxis a ax m (resample1U m)).get (j'.set ax i))
      = toC ((resample1U m (line a ax j')).getD i Cx.zero) := by
    intro i hi
    have hi' : i < m := List.mem_range.mp hi
    have hb : InBox (a.shape.set ax m) (j'.set ax i) := by
      have := InBox_set (ax := ax) (m := m) (i := i) hj hi'
      rwa [List.set_set] at this
    rw [alongAxis_get _ _ _ _ hb, line_set, getD_set_self _ _ _ hjl]
    rfl
  rw [List.map_congr_left h1]
  have h2 : ((List.range m).map fun i => toC ((resample1U m (line a ax j')).getD i Cx.zero)).sum
      = toC (Cx.sum (resample1U m (line a ax j'))) := by
    rw [toC_sum, list_sum_getD, length_resample1U, list_sum_range]
  rw [h2, resample1U_sum _ m (by rw [line_length]; exact hn) hm, toC_sum, list_sum_getD, line_length,
    ← list_sum_range]
  apply congrArg
  apply List.map_congr_left
  intro i hi
  rw [line_getD a ax j' i _ (List.mem_range.mp hi)]

/-- the (axis, new length) pairs are applicable in turn: valid axis, non-empty axis, `m ≥ 1` -/
def PairsOk : List Nat → List (Nat × Nat) → Prop
  | _, [] => True
  | s, p :: t => p.1 < s.length ∧ s.getD p.1 1 ≠ 0 ∧ p.2 ≠ 0 ∧ PairsOk (s.set p.1 p.2) t

/-- shape after the fold (same function as `Dataset.resampleShape`) -/
def resampleShapeN (shape : List Nat) (pairs : List (Nat × Nat)) : List Nat :=
  pairs.foldl (fun (acc : List Nat) (p : Nat × Nat) => acc.set p.1 p.2) shape

theorem wf_resampleFold (a : Arr (Cx ℝ)) (ha : WFArr a) (pairs : List (Nat × Nat)) :
    WFArr (resampleFold a pairs) := by
  induction pairs generalizing a with
  | nil => exact ha
  | cons p t ih => rw [resampleFold_cons]; exact ih _ (wf_alongAxis _ _ _ _)

theorem shape_resampleFold (a : Arr (Cx ℝ)) (pairs : List (Nat × Nat)) :
    (resampleFold a pairs).shape = resampleShapeN a.shape pairs := by
  induction pairs generalizing a with
  | nil => rfl
  | cons p t ih => rw [resampleFold_cons, ih]; rfl

theorem total_resampleFold (a : Arr (Cx ℝ)) (ha : WFArr a) (pairs : List (Nat × Nat))
    (h : PairsOk a.shape pairs) : total (resampleFold a pairs) = total a := by
  induction pairs generalizing a with
  | nil => rfl
  | cons p t ih =>
    obtain ⟨h1, h2, h3, h4⟩ := h
    rw [resampleFold_cons, ih _ (wf_alongAxis _ _ _ _) (by rw [alongAxis_shape]; exact h4),
      total_alongAxis a p.1 p.2 ha h1 h2 h3]

theorem get_map_smul (c : ℝ) (a : Arr (Cx ℝ)) (j : List Nat) :
    (⟨a.shape, a.data.map (Cx.smul c)⟩ : Arr (Cx ℝ)).get j = Cx.smul c (a.get j) := by
  unfold Arr.get
  simp only [List.getD_eq_getElem?_getD, List.getElem?_map]
  cases a.data[ravel a.shape j]? with
  | some z => rfl
  | none =>
    simp only [Option.map_none, Option.getD_none]
    apply toC_inj
    show toC (Cx.zero) = toC (Cx.smul c Cx.zero)
    simp

/-- **N-D total**: the N-D operator (complex data) multiplies the sum of all elements by
`N_out / N_in`, exactly the factor by which the number of elements grows -/
theorem total_resampleNd (a : Arr (Cx ℝ)) (ha : WFArr a) (axes outs : List Nat)
    (h : PairsOk a.shape (axes.zip outs)) :
    total (resampleNd a axes outs false)
      = (((prod outs : ℕ) : ℂ) / ((prod (axes.map fun ax => a.shape.getD ax 1) : ℕ) : ℂ)) * total a := by
  unfold resampleNd
  simp only [Bool.false_eq_true, if_false]
  rw [← total_resampleFold a ha _ h]
  unfold total
  simp only
  rw [← List.sum_map_mul_left]
  apply congrArg
  apply List.map_congr_left
  intro j _
  rw [get_map_smul, toC_smul]
  congr 1
  simp [NumReal.div_eq]

theorem prod_set : ∀ (s : List Nat) (ax m : Nat), ax < s.length → prod (s.set ax m) * s.getD ax 1 = prod s * m
  | [], _, _, h => by simp at h
  | n :: r, 0, m, _ => by simp [prod]; ring
  | n :: r, ax + 1, m, h => by
    have ih := prod_set r ax m (by simpa using h)
    simp only [List.set_cons_succ, prod, List.getD_cons_succ]
    calc n * prod (r.set ax m) * r.getD ax 1 = n * (prod (r.set ax m) * r.getD ax 1) := by ring
      _ = n * (prod r * m) := by rw [ih]
      _ = n * prod r * m := by ring

theorem getD_set_ne (s : List Nat) (ax ax' m d : Nat) (h : ax ≠ ax') : (s.set ax m).getD ax' d = s.getD ax' d := by
  simp [List.getD_eq_getElem?_getD, List.getElem?_set_ne h]

/-- sizes: for distinct valid axes the number of elements grows by `N_out / N_in` -/
theorem size_resampleShapeN : ∀ (axes outs : List Nat) (shape : List Nat), axes.Nodup →
    (∀ ax ∈ axes, ax < shape.length) → axes.length = outs.length →
    prod (resampleShapeN shape (axes.zip outs)) * prod (axes.map fun ax => shape.getD ax 1)
      = prod shape * prod outs
  | [], [], shape, _, _, _ => by simp [resampleShapeN, prod]
  | ax :: axes, m :: outs, shape, hnd, hv, hl => by
    have hnd' := List.nodup_cons.mp hnd
    have ih := size_resampleShapeN axes outs (shape.set ax m) hnd'.2
      (fun a ha => by simpa using hv a (by simp [ha])) (by simpa using hl)
    have hsame : (axes.map fun a => (shape.set ax m).getD a 1) = axes.map fun a => shape.getD a 1 := by
      apply List.map_congr_left
      intro a ha
      exact getD_set_ne _ _ _ _ _ (fun h => hnd'.1 (h ▸ ha))
    rw [hsame] at ih
    have hp := prod_set shape ax m (hv ax (by simp))
    simp only [List.zip_cons_cons, List.map_cons, prod]
    show prod (resampleShapeN (shape.set ax m) (axes.zip outs)) * (shape.getD ax 1 * _) = _
    calc prod (resampleShapeN (shape.set ax m) (axes.zip outs)) *
          (shape.getD ax 1 * prod (axes.map fun a => shape.getD a 1))
        = (prod (resampleShapeN (shape.set ax m) (axes.zip outs)) * prod (axes.map fun a => shape.getD a 1))
            * shape.getD ax 1 := by ring
      _ = prod (shape.set ax m) * prod outs * shape.getD ax 1 := by rw [ih]
      _ = (prod (shape.set ax m) * shape.getD ax 1) * prod outs := by ring
      _ = prod shape * m * prod outs := by rw [hp]
      _ = prod shape * (m * prod outs) := by ring
  | [], _ :: _, _, _, _, hl => by simp at hl
  | _ :: _, [], _, _, _, hl => by simp at hl

theorem pairsOk_prod_ne : ∀ (axes outs : List Nat) (shape : List Nat), axes.Nodup → axes.length = outs.length →
    PairsOk shape (axes.zip outs) → prod outs ≠ 0 ∧ prod (axes.map fun ax => shape.getD ax 1) ≠ 0
  | [], [], _, _, _, _ => by simp [prod]
  | ax :: axes, m :: outs, shape, hnd, hl, h => by
    obtain ⟨h1, h2, h3, h4⟩ := h
    have hnd' := List.nodup_cons.mp hnd
    have ih := pairsOk_prod_ne axes outs (shape.set ax m) hnd'.2 (by simpa using hl) h4
    have hsame : (axes.map fun a => (shape.set ax m).getD a 1) = axes.map fun a => shape.getD a 1 := by
      apply List.map_congr_left
      intro a ha
      exact getD_set_ne _ _ _ _ _ (fun h => hnd'.1 (h ▸ ha))
    rw [hsame] at ih
    simp only [List.map_cons, prod]
    exact ⟨Nat.mul_ne_zero h3 ih.1, Nat.mul_ne_zero h2 ih.2⟩
  | [], _ :: _, _, _, hl, _ => by simp at hl
  | _ :: _, [], _, _, hl, _ => by simp at hl

/-- **N-D mean preservation** (complex data, distinct axes) -/
theorem mean_resampleNd (a : Arr (Cx ℝ)) (ha : WFArr a) (axes outs : List Nat) (hnd : axes.Nodup)
    (hl : axes.length = outs.length) (h : PairsOk a.shape (axes.zip outs)) (hv : ∀ ax ∈ axes, ax < a.shape.length) :
    total (resampleNd a axes outs false) / ((prod (resampleNd a axes outs false).shape : ℕ) : ℂ)
      = total a / ((prod a.shape : ℕ) : ℂ) := by
  rw [total_resampleNd a ha axes outs h]
  have hshape : (resampleNd a axes outs false).shape = resampleShapeN a.shape (axes.zip outs) :=
    shape_resampleFold a _
  rw [hshape]
  have hsz := size_resampleShapeN axes outs a.shape hnd hv hl
  obtain ⟨ho, hi⟩ := pairsOk_prod_ne axes outs a.shape hnd hl h
  have hszC : ((prod (resampleShapeN a.shape (axes.zip outs)) : ℕ) : ℂ)
      * ((prod (axes.map fun ax => a.shape.getD ax 1) : ℕ) : ℂ) = ((prod a.shape : ℕ) : ℂ) * ((prod outs : ℕ) : ℂ) := by
    exact_mod_cast hsz
  have hoC : ((prod outs : ℕ) : ℂ) ≠ 0 := by exact_mod_cast ho
  have hiC : ((prod (axes.map fun ax => a.shape.getD ax 1) : ℕ) : ℂ) ≠ 0 := by exact_mod_cast hi
  by_cases hz : ((prod a.shape : ℕ) : ℂ) = 0
  · have : ((prod (resampleShapeN a.shape (axes.zip outs)) : ℕ) : ℂ) = 0 := by
      have h0 : ((prod (resampleShapeN a.shape (axes.zip outs)) : ℕ) : ℂ)
          * ((prod (axes.map fun ax => a.shape.getD ax 1) : ℕ) : ℂ) = 0 := by rw [hszC, hz, zero_mul]
      exact (mul_eq_zero.mp h0).resolve_right hiC
    rw [hz, this]; simp
  · have hne : ((prod (resampleShapeN a.shape (axes.zip outs)) : ℕ) : ℂ) ≠ 0 := by
      intro h0; rw [h0, zero_mul] at hszC
      exact (mul_ne_zero hz hoC) hszC.symm
    rw [div_eq_div_iff hne hz]
    have : ((prod (resampleShapeN a.shape (axes.zip outs)) : ℕ) : ℂ)
        = ((prod a.shape : ℕ) : ℂ) * ((prod outs : ℕ) : ℂ) / ((prod (axes.map fun ax => a.shape.getD ax 1) : ℕ) : ℂ) := by
      rw [eq_div_iff hiC]; exact hszC
    rw [this]; field_simp

theorem list_eq_map_getD {β : Type} (l : List β) (d : β) : (List.range l.length).map (fun i => l.getD i d) = l := by
  apply List.ext_getElem
  · simp
  · intro i h1 h2; simp [List.getD_eq_getElem?_getD, h2]

/-- the line of a per-axis result is the transformed line -/
theorem line_alongAxis (a : Arr (Cx ℝ)) (ax m : Nat) (hax : ax < a.shape.length) {j : List Nat}
    (hj : InBox (a.shape.set ax m) j) :
    line (alongAxis a ax m (resample1U m)) ax j = resample1U m (line a ax j) := by
  have hjl : ax < j.length := by rw [hj.length_eq]; simpa using hax
  have hm : (alongAxis a ax m (resample1U m)).shape.getD ax 1 = m := by
    rw [alongAxis_shape]; simp [List.getD_eq_getElem?_getD, hax]
  unfold line
  rw [hm]
  conv_rhs => rw [← list_eq_map_getD (resample1U m _) default, length_resample1U]
  apply List.map_congr_left
  intro i hi
  have hi' : i < m := List.mem_range.mp hi
  have hb : InBox (a.shape.set ax m) (j.set ax i) := by
    have := InBox_set (ax := ax) (m := m) (i := i) hj hi'
    rwa [List.set_set] at this
  rw [alongAxis_get _ _ _ _ hb, line_set, getD_set_self _ _ _ hjl]
  rfl

/-- **up then down along one axis is the identity** -/
theorem alongAxis_up_down (a : Arr (Cx ℝ)) (ax m : Nat) (ha : WFArr a) (hax : ax < a.shape.length)
    (hn : 1 ≤ a.shape.getD ax 1) (hnm : a.shape.getD ax 1 ≤ m) :
    alongAxis (alongAxis a ax m (resample1U m)) ax (a.shape.getD ax 1) (resample1U (a.shape.getD ax 1)) = a := by
  have hsh : (a.shape.set ax m).set ax (a.shape.getD ax 1) = a.shape := by rw [List.set_set, set_getD_self']
  apply arr_ext
  · rw [alongAxis_shape, alongAxis_shape, hsh]
  · exact wf_alongAxis _ _ _ _
  · exact ha
  · intro j hj
    rw [alongAxis_shape, alongAxis_shape] at hj
    rw [alongAxis_get _ _ _ _ (by rw [alongAxis_shape]; exact hj)]
    rw [hsh] at hj
    have hjm : InBox (a.shape.set ax m) (j.set ax 0) := InBox_set hj (by omega)
    have hl : line (alongAxis a ax m (resample1U m)) ax j = resample1U m (line a ax j) := by
      rw [← line_set _ ax j 0, line_alongAxis a ax m hax hjm, line_set]
    rw [hl]
    have hlen : (line a ax j).length = a.shape.getD ax 1 := line_length a ax j
    rw [← hlen, resample1U_up_down _ m (by rw [hlen]; exact hn) (by rw [hlen]; exact hnm)]
    have hlt : j.getD ax 0 < a.shape.getD ax 1 := by
      rw [getD_one_eq_zero hax]; exact InBox_getD_lt hj hax
    rw [line_getD a ax j _ _ hlt, set_getD_self]

/-- up-sampling pairs: applicable in turn and never shrinking an axis -/
def UpOk : List Nat → List (Nat × Nat) → Prop
  | _, [] => True
  | s, p :: t => p.1 < s.length ∧ 1 ≤ s.getD p.1 1 ∧ s.getD p.1 1 ≤ p.2 ∧ UpOk (s.set p.1 p.2) t

/-- the pairs that bring every axis back to its previous length, last axis first -/
def downPairs : List Nat → List (Nat × Nat) → List (Nat × Nat)
  | _, [] => []
  | s, p :: t => downPairs (s.set p.1 p.2) t ++ [(p.1, s.getD p.1 1)]

theorem resampleFold_append (a : Arr (Cx ℝ)) (l : List (Nat × Nat)) (q : Nat × Nat) :
    resampleFold a (l ++ [q]) = alongAxis (resampleFold a l) q.1 q.2 (resample1U q.2) := by
  unfold resampleFold; rw [List.foldl_append]; rfl

/-- **N-D round trip of the fold**: up-sampling along any list of axes and then
down-sampling the same axes (in reverse order) returns the original array -/
theorem resampleFold_up_down (a : Arr (Cx ℝ)) (ha : WFArr a) (up : List (Nat × Nat)) (h : UpOk a.shape up) :
    resampleFold (resampleFold a up) (downPairs a.shape up) = a := by
  induction up generalizing a with
  | nil => rfl
  | cons p t ih =>
    obtain ⟨h1, h2, h3, h4⟩ := h
    rw [resampleFold_cons]
    simp only [downPairs]
    rw [resampleFold_append]
    have := ih (alongAxis a p.1 p.2 (resample1U p.2)) (wf_alongAxis _ _ _ _) (by rw [alongAxis_shape]; exact h4)
    rw [alongAxis_shape] at this
    rw [this]
    exact alongAxis_up_down a p.1 p.2 ha h1 h2 h3

/-- pointwise linear combination `c·x + y` of two arrays of the same shape -/
noncomputable def linArr (c : Cx ℝ) (x y : Arr (Cx ℝ)) : Arr (Cx ℝ) :=
  ⟨x.shape, List.zipWith (· + ·) (x.data.map (c * ·)) y.data⟩

theorem wf_linArr (c : Cx ℝ) (x y : Arr (Cx ℝ)) (hs : x.shape = y.shape) (hx : WFArr x) (hy : WFArr y) :
    WFArr (linArr c x y) := by
  unfold WFArr linArr at *
  simp [hx, hy, hs]

theorem linArr_get (c : Cx ℝ) (x y : Arr (Cx ℝ)) (hs : x.shape = y.shape) (hx : WFArr x) (hy : WFArr y)
    {j : List Nat} (hj : InBox x.shape j) : (linArr c x y).get j = c * x.get j + y.get j := by
  have hr := ravel_lt hj
  have h1 : ravel x.shape j < x.data.length := by rw [hx]; exact hr
  have h2 : ravel x.shape j < y.data.length := by rw [hy, ← hs]; exact hr
  unfold Arr.get linArr
  simp only
  rw [← hs]
  simp [List.getD_eq_getElem?_getD, List.getElem?_zipWith, List.getElem?_eq_getElem h1,
    List.getElem?_eq_getElem h2]

theorem getD_zipWith_lin (c : Cx ℝ) (u v : List (Cx ℝ)) (i : Nat) (hu : i < u.length) (hv : i < v.length) :
    (List.zipWith (· + ·) (u.map (c * ·)) v).getD i default = c * u.getD i default + v.getD i default := by
  simp [List.getD_eq_getElem?_getD, List.getElem?_zipWith, List.getElem?_eq_getElem hu,
    List.getElem?_eq_getElem hv]

/-- **linearity along one axis** -/
theorem alongAxis_lin (c : Cx ℝ) (x y : Arr (Cx ℝ)) (ax m : Nat) (hs : x.shape = y.shape)
    (hx : WFArr x) (hy : WFArr y) (hax : ax < x.shape.length) (hn : x.shape.getD ax 1 ≠ 0) (hm : m ≠ 0) :
    alongAxis (linArr c x y) ax m (resample1U m)
      = linArr c (alongAxis x ax m (resample1U m)) (alongAxis y ax m (resample1U m)) := by
  have hsxy : (alongAxis x ax m (resample1U m)).shape = (alongAxis y ax m (resample1U m)).shape := by
    rw [alongAxis_shape, alongAxis_shape, hs]
  apply arr_ext
  · rfl
  · exact wf_alongAxis _ _ _ _
  · exact wf_linArr _ _ _ hsxy (wf_alongAxis _ _ _ _) (wf_alongAxis _ _ _ _)
  · intro j hj
    have hj' : InBox (x.shape.set ax m) j := hj
    rw [alongAxis_get _ _ _ _ hj, linArr_get _ _ _ hsxy (wf_alongAxis _ _ _ _) (wf_alongAxis _ _ _ _) hj',
      alongAxis_get _ _ _ _ hj', alongAxis_get _ _ _ _ (by rw [← hs]; exact hj')]
    have hline : line (linArr c x y) ax j
        = List.zipWith (· + ·) ((line x ax j).map (c * ·)) (line y ax j) := by
      unfold line
      show (List.range (x.shape.getD ax 1)).map _ = _
      rw [← hs]
      apply List.ext_getElem
      · simp
      · intro i h1 h2
        have hi : i < x.shape.getD ax 1 := by simpa using h1
        simp only [List.getElem_map, List.getElem_range, List.getElem_zipWith]
        have hb : InBox x.shape (j.set ax i) := by
          have := InBox_set (ax := ax) (m := x.shape.getD ax 1) (i := i) hj' hi
          rwa [List.set_set, set_getD_self'] at this
        exact linArr_get c x y hs hx hy hb
    rw [hline, resample1U_linear c _ _ m (by rw [line_length, line_length, hs])
      (by rw [line_length]; exact hn) hm]
    have hjl : j.getD ax 0 < m := by
      have := InBox_getD_lt hj' (by simpa using hax)
      simpa [List.getD_eq_getElem?_getD, hax] using this
    exact getD_zipWith_lin c _ _ _ (by rw [length_resample1U]; exact hjl) (by rw [length_resample1U]; exact hjl)

/-- **N-D linearity of the fold** -/
theorem resampleFold_lin (c : Cx ℝ) (x y : Arr (Cx ℝ)) (pairs : List (Nat × Nat)) (hs : x.shape = y.shape)
    (hx : WFArr x) (hy : WFArr y) (h : PairsOk x.shape pairs) :
    resampleFold (linArr c x y) pairs = linArr c (resampleFold x pairs) (resampleFold y pairs) := by
  induction pairs generalizing x y with
  | nil => rfl
  | cons p t ih =>
    obtain ⟨h1, h2, h3, h4⟩ := h
    rw [resampleFold_cons, resampleFold_cons, resampleFold_cons, alongAxis_lin c x y p.1 p.2 hs hx hy h1 h2 h3]
    exact ih _ _ (by rw [alongAxis_shape, alongAxis_shape, hs]) (wf_alongAxis _ _ _ _) (wf_alongAxis _ _ _ _)
      (by rw [alongAxis_shape]; exact h4)

/-- **N-D linearity of `fourier_resample` on complex data** (with the `N_out/N_in` rescale) -/
theorem resampleNd_lin (c : Cx ℝ) (x y : Arr (Cx ℝ)) (axes outs : List Nat) (hs : x.shape = y.shape)
    (hx : WFArr x) (hy : WFArr y) (h : PairsOk x.shape (axes.zip outs)) :
    resampleNd (linArr c x y) axes outs false
      = linArr c (resampleNd x axes outs false) (resampleNd y axes outs false) := by
  unfold resampleNd
  simp only [Bool.false_eq_true, if_false]
  rw [resampleFold_lin c x y _ hs hx hy h]
  have hsh : (linArr c x y).shape = x.shape := rfl
  rw [hsh, ← hs]
  unfold linArr
  simp only
  congr 1
  apply List.ext_getElem
  · simp
  · intro i h1 h2
    simp only [List.getElem_map, List.getElem_zipWith]
    apply toC_inj
    simp
    ring

/-- **N-D identity when the shape is unchanged** -/
theorem resampleNd_same (a : Arr (Cx ℝ)) (ha : WFArr a) (axes : List Nat)
    (hv : ∀ ax ∈ axes, ax < a.shape.length) (hne : prod (axes.map fun ax => a.shape.getD ax 1) ≠ 0) :
    resampleNd a axes (axes.map fun ax => a.shape.getD ax 1) false = a := by
  unfold resampleNd
  simp only [Bool.false_eq_true, if_false]
  have hfold : resampleFold a (axes.zip (axes.map fun ax => a.shape.getD ax 1)) = a := by
    apply resampleFold_same a ha
    intro p hp
    rw [List.zip_map_right] at hp
    simp only [List.mem_map] at hp
    obtain ⟨q, hq, rfl⟩ := hp
    have hq' := (List.of_mem_zip hq)
    have : q.1 = q.2 := by
      have := List.mem_iff_getElem.mp hq
      obtain ⟨i, hi, rfl⟩ := this
      simp
    exact ⟨hv _ hq'.1, by simp [this]⟩
  rw [hfold]
  have hsc : ∀ z : Cx ℝ, Cx.smul (Num.ofNat (prod (axes.map fun ax => a.shape.getD ax 1)) /
      Num.ofNat (prod (axes.map fun ax => a.shape.getD ax 1))) z = z := by
    intro z
    apply toC_inj
    have : ((prod (axes.map fun ax => a.shape.getD ax 1) : ℕ) : ℂ) ≠ 0 := by exact_mod_cast hne
    generalize prod (axes.map fun ax => a.shape.getD ax 1) = N at this ⊢
    simp [NumReal.div_eq]
    field_simp
  cases a with
  | mk shape data =>
    simp only
    congr 1
    conv_rhs => rw [← List.map_id data]
    apply List.map_congr_left
    intro z _
    exact hsc z

/-! ### homogeneity and the round trip with the rescales -/

theorem smul_zero' (c : ℝ) : Cx.smul c (Cx.zero : Cx ℝ) = Cx.zero := by apply toC_inj; simp

theorem resample1U_smul (c : ℝ) (x : List (Cx ℝ)) (m : ℕ) :
    resample1U m (x.map (Cx.smul c)) = (resample1U m x).map (Cx.smul c) := by
  unfold resample1U
  rw [List.length_map, dft_smul]
  conv_lhs => rw [← smul_zero' c, spectrumMap_map, idft_smul]

/-- `c · a` for a real scalar -/
noncomputable def scaleArr (c : ℝ) (a : Arr (Cx ℝ)) : Arr (Cx ℝ) := ⟨a.shape, a.data.map (Cx.smul c)⟩

theorem wf_scaleArr (c : ℝ) (a : Arr (Cx ℝ)) (ha : WFArr a) : WFArr (scaleArr c a) := by
  unfold WFArr scaleArr at *; simpa using ha

theorem line_scaleArr (c : ℝ) (a : Arr (Cx ℝ)) (ax : ℕ) (j : List ℕ) :
    line (scaleArr c a) ax j = (line a ax j).map (Cx.smul c) := by
  unfold line
  rw [List.map_map]
  apply List.map_congr_left
  intro i _
  exact get_map_smul c a _

theorem getD_map_smul (c : ℝ) (l : List (Cx ℝ)) (i : ℕ) :
    (l.map (Cx.smul c)).getD i default = Cx.smul c (l.getD i default) := by
  simp only [List.getD_eq_getElem?_getD, List.getElem?_map]
  cases l[i]? with
  | some z => rfl
  | none => exact (smul_zero' c).symm

theorem alongAxis_scale (c : ℝ) (a : Arr (Cx ℝ)) (ax m : ℕ) :
    alongAxis (scaleArr c a) ax m (resample1U m) = scaleArr c (alongAxis a ax m (resample1U m)) := by
  apply arr_ext
  · rfl
  · exact wf_alongAxis _ _ _ _
  · exact wf_scaleArr _ _ (wf_alongAxis _ _ _ _)
  · intro j hj
    have hj' : InBox (a.shape.set ax m) j := hj
    rw [alongAxis_get _ _ _ _ hj, line_scaleArr, resample1U_smul, getD_map_smul]
    show _ = (scaleArr c (alongAxis a ax m (resample1U m))).get j
    unfold scaleArr
    rw [get_map_smul, alongAxis_get _ _ _ _ hj']

theorem resampleFold_scale (c : ℝ) (a : Arr (Cx ℝ)) (pairs : List (ℕ × ℕ)) :
    resampleFold (scaleArr c a) pairs = scaleArr c (resampleFold a pairs) := by
  induction pairs generalizing a with
  | nil => rfl
  | cons p t ih => rw [resampleFold_cons, resampleFold_cons, alongAxis_scale, ih]

theorem resampleNd_eq_scale (a : Arr (Cx ℝ)) (axes outs : List ℕ) :
    resampleNd a axes outs false
      = scaleArr (Num.ofNat (prod outs) / Num.ofNat (prod (axes.map fun ax => a.shape.getD ax 1)))
          (resampleFold a (axes.zip outs)) := by
  unfold resampleNd scaleArr
  simp only [Bool.false_eq_true, if_false]

theorem scale_scale (c d : ℝ) (a : Arr (Cx ℝ)) (h : d * c = 1) : scaleArr d (scaleArr c a) = a := by
  cases a with
  | mk shape data =>
    unfold scaleArr
    simp only [List.map_map]
    congr 1
    conv_rhs => rw [← List.map_id data]
    apply List.map_congr_left
    intro z _
    apply toC_inj
    simp only [Function.comp, toC_smul, id]
    rw [← mul_assoc]
    have : ((d : ℂ) * (c : ℂ)) = 1 := by exact_mod_cast h
    rw [this, one_mul]

theorem downPairs_eq : ∀ (axes outs : List ℕ) (s : List ℕ), axes.Nodup → axes.length = outs.length →
    downPairs s (axes.zip outs) = (axes.zip (axes.map fun ax => s.getD ax 1)).reverse
  | [], [], _, _, _ => rfl
  | ax :: axes, m :: outs, s, hnd, hl => by
    have hnd' := List.nodup_cons.mp hnd
    have hsame : (axes.map fun a => (s.set ax m).getD a 1) = axes.map fun a => s.getD a 1 := by
      apply List.map_congr_left
      intro a ha
      exact getD_set_ne _ _ _ _ _ (fun h => hnd'.1 (h ▸ ha))
    simp only [List.zip_cons_cons, downPairs, List.map_cons, List.reverse_cons]
    rw [downPairs_eq axes outs (s.set ax m) hnd'.2 (by simpa using hl), hsame]
  | [], _ :: _, _, _, hl => by simp at hl
  | _ :: _, [], _, _, hl => by simp at hl

theorem prod_append (l r : List ℕ) : prod (l ++ r) = prod l * prod r := by
  induction l with
  | nil => simp [prod]
  | cons a t ih => simp only [List.cons_append, prod, ih]; ring

theorem prod_reverse (l : List ℕ) : prod l.reverse = prod l := by
  induction l with
  | nil => rfl
  | cons a t ih => rw [List.reverse_cons, prod_append, ih]; simp [prod]; ring

/-- after the fold, a resampled axis has its requested length (distinct valid axes) -/
theorem getD_resampleShapeN : ∀ (axes outs : List ℕ) (s : List ℕ), axes.Nodup → axes.length = outs.length →
    (∀ ax ∈ axes, ax < s.length) →
    (axes.map fun ax => (resampleShapeN s (axes.zip outs)).getD ax 1) = outs
  | [], [], _, _, _, _ => rfl
  | ax :: axes, m :: outs, s, hnd, hl, hv => by
    have hnd' := List.nodup_cons.mp hnd
    have ih := getD_resampleShapeN axes outs (s.set ax m) hnd'.2 (by simpa using hl)
      (fun a ha => by simpa using hv a (by simp [ha]))
    have hstep : resampleShapeN s ((ax :: axes).zip (m :: outs)) = resampleShapeN (s.set ax m) (axes.zip outs) := rfl
    rw [hstep, List.map_cons, ih]
    congr 1
    -- the first axis is not touched by the later pairs
    have hkeep : ∀ (pairs : List (ℕ × ℕ)) (t : List ℕ), (∀ p ∈ pairs, p.1 ≠ ax) →
        (resampleShapeN t pairs).getD ax 1 = t.getD ax 1 := by
      intro pairs
      induction pairs with
      | nil => intro t _; rfl
      | cons p ps ihp =>
        intro t hp
        show (resampleShapeN (t.set p.1 p.2) ps).getD ax 1 = _
        rw [ihp _ (fun q hq => hp q (by simp [hq])), getD_set_ne _ _ _ _ _ (hp p (by simp))]
    rw [hkeep _ _ (fun p hp => fun h => hnd'.1 (h ▸ (List.of_mem_zip hp).1))]
    simp [List.getD_eq_getElem?_getD, hv ax (by simp)]
  | [], _ :: _, _, _, hl, _ => by simp at hl
  | _ :: _, [], _, _, hl, _ => by simp at hl

/-- **N-D round trip of `fourier_resample` on complex data, rescales included**: up-sampling
distinct axes and then resampling the same axes (reverse order) back to their original lengths
returns the original array -/
theorem resampleNd_up_down (a : Arr (Cx ℝ)) (ha : WFArr a) (axes outs : List ℕ) (hnd : axes.Nodup)
    (hl : axes.length = outs.length) (hv : ∀ ax ∈ axes, ax < a.shape.length)
    (h : UpOk a.shape (axes.zip outs)) (hok : PairsOk a.shape (axes.zip outs)) :
    resampleNd (resampleNd a axes outs false) axes.reverse
      (axes.map fun ax => a.shape.getD ax 1).reverse false = a := by
  obtain ⟨ho, hi⟩ := pairsOk_prod_ne axes outs a.shape hnd hl hok
  rw [resampleNd_eq_scale a axes outs, resampleNd_eq_scale]
  have hzip : axes.reverse.zip (axes.map fun ax => a.shape.getD ax 1).reverse
      = downPairs a.shape (axes.zip outs) := by
    rw [downPairs_eq axes outs a.shape hnd hl, List.zip_eq_zipWith, List.zip_eq_zipWith,
      List.reverse_zipWith (by simp)]
  rw [hzip, resampleFold_scale, resampleFold_up_down a ha _ h]
  apply scale_scale
  -- the two rescale factors are inverse to each other
  have hmid : (scaleArr (Num.ofNat (prod outs) / Num.ofNat (prod (axes.map fun ax => a.shape.getD ax 1)))
      (resampleFold a (axes.zip outs))).shape = resampleShapeN a.shape (axes.zip outs) :=
    shape_resampleFold a _
  rw [hmid, List.map_reverse, prod_reverse, prod_reverse, getD_resampleShapeN axes outs a.shape hnd hl hv]
  have h1 : ((prod outs : ℕ) : ℝ) ≠ 0 := by exact_mod_cast ho
  have h2 : ((prod (axes.map fun ax => a.shape.getD ax 1) : ℕ) : ℝ) ≠ 0 := by exact_mod_cast hi
  simp only [NumReal.div_eq, NumReal.ofNat_eq]
  field_simp

/-! ### real arrays in N dimensions -/

/-- every element is real -/
def IsRealArr (a : Arr (Cx ℝ)) : Prop := IsRealList a.data

theorem zero_im : (Cx.zero : Cx ℝ).im = 0 := by simp [Cx.zero]

theorem get_real {a : Arr (Cx ℝ)} (h : IsRealArr a) (j : List ℕ) : (a.get j).im = 0 := by
  unfold Arr.get
  rw [List.getD_eq_getElem?_getD]
  cases hk : a.data[ravel a.shape j]? with
  | none => exact zero_im
  | some z => exact h z (List.mem_of_getElem? hk)

theorem line_real {a : Arr (Cx ℝ)} (h : IsRealArr a) (ax : ℕ) (j : List ℕ) : IsRealList (line a ax j) := by
  intro z hz
  unfold line at hz
  simp only [List.mem_map] at hz
  obtain ⟨i, _, rfl⟩ := hz
  exact get_real h _

theorem resample1U_real (x : List (Cx ℝ)) (m : ℕ) (hn : 1 ≤ x.length) (hnm : x.length ≤ m)
    (hx : IsRealList x) (hny : x.length < m → NoNyquist x) : IsRealList (resample1U m x) := by
  intro z hz
  have hr := resample1_real x m hn hnm hx hny
  have hmem : Cx.smul (Num.ofRat ((m : Rat) / (x.length : Rat))) z ∈ resample1 m x := by
    unfold resample1; exact List.mem_map.mpr ⟨z, hz, rfl⟩
  have := hr _ hmem
  simp only [Cx.smul, NumReal.mul_eq, NumReal.ofRat_eq] at this
  have hc : ((((m : Rat) / (x.length : Rat) : Rat)) : ℝ) ≠ 0 := by
    push_cast
    have h1 : (x.length : ℝ) ≠ 0 := by exact_mod_cast (by omega : x.length ≠ 0)
    have h2 : (m : ℝ) ≠ 0 := by exact_mod_cast (by omega : m ≠ 0)
    exact div_ne_zero h2 h1
  exact (mul_eq_zero.mp this).resolve_left hc

/-- **real, Nyquist-free lines stay real along one axis** -/
theorem alongAxis_real (a : Arr (Cx ℝ)) (ax m : ℕ) (hr : IsRealArr a) (hax : ax < a.shape.length)
    (hn : 1 ≤ a.shape.getD ax 1) (hnm : a.shape.getD ax 1 ≤ m)
    (hny : a.shape.getD ax 1 < m → ∀ j, InBox (a.shape.set ax 1) j → NoNyquist (line a ax j)) :
    IsRealArr (alongAxis a ax m (resample1U m)) := by
  intro z hz
  have hdata : (alongAxis a ax m (resample1U m)).data
      = (allIdx (a.shape.set ax m)).map (alongAxis a ax m (resample1U m)).get := by
    have := congrArg Arr.data (build_get_self (alongAxis a ax m (resample1U m)) (wf_alongAxis _ _ _ _))
    rw [← this]; rfl
  rw [hdata, List.mem_map] at hz
  obtain ⟨j, hj, rfl⟩ := hz
  have hjb : InBox (a.shape.set ax m) j := mem_allIdx.mp hj
  rw [alongAxis_get _ _ _ _ hjb]
  have hlen := line_length a ax j
  have hU : IsRealList (resample1U m (line a ax j)) := by
    apply resample1U_real _ m (by rw [hlen]; exact hn) (by rw [hlen]; exact hnm) (line_real hr ax j)
    intro hlt
    rw [hlen] at hlt
    have h0 : InBox (a.shape.set ax 1) (j.set ax 0) := by
      have := InBox_set (ax := ax) (m := 1) (i := 0) hjb (by omega)
      rwa [List.set_set] at this
    have := hny hlt _ h0
    rwa [line_set] at this
  have hjl : j.getD ax 0 < m := by
    have := InBox_getD_lt hjb (by simpa using hax)
    simpa [List.getD_eq_getElem?_getD, hax] using this
  have hlt : j.getD ax 0 < (resample1U m (line a ax j)).length := by rw [length_resample1U]; exact hjl
  rw [List.getD_eq_getElem?_getD, List.getElem?_eq_getElem hlt]
  exact hU _ (List.getElem_mem _)

/-- the up-sampling pairs are applicable in turn, never shrink an axis, and at each stage the
lines of an axis that is really enlarged carry no Nyquist-frequency content -/
def RealUp : Arr (Cx ℝ) → List (ℕ × ℕ) → Prop
  | _, [] => True
  | a, p :: t => p.1 < a.shape.length ∧ 1 ≤ a.shape.getD p.1 1 ∧ a.shape.getD p.1 1 ≤ p.2 ∧
      (a.shape.getD p.1 1 < p.2 → ∀ j, InBox (a.shape.set p.1 1) j → NoNyquist (line a p.1 j)) ∧
      RealUp (alongAxis a p.1 p.2 (resample1U p.2)) t

theorem RealUp.upOk : ∀ {a : Arr (Cx ℝ)} {pairs : List (ℕ × ℕ)}, RealUp a pairs →
    UpOk a.shape pairs ∧ PairsOk a.shape pairs
  | _, [], _ => ⟨trivial, trivial⟩
  | a, p :: t, h => by
    obtain ⟨h1, h2, h3, _, h5⟩ := h
    have ih := RealUp.upOk h5
    rw [alongAxis_shape] at ih
    exact ⟨⟨h1, h2, h3, ih.1⟩, ⟨h1, by omega, by omega, ih.2⟩⟩

theorem resampleFold_real : ∀ (pairs : List (ℕ × ℕ)) (a : Arr (Cx ℝ)), IsRealArr a → RealUp a pairs →
    IsRealArr (resampleFold a pairs)
  | [], _, hr, _ => hr
  | p :: t, a, hr, h => by
    obtain ⟨h1, h2, h3, h4, h5⟩ := h
    rw [resampleFold_cons]
    exact resampleFold_real t _ (alongAxis_real a p.1 p.2 hr h1 h2 h3 h4) h5

theorem ofReal_re_of_real {z : Cx ℝ} (h : z.im = 0) : Cx.ofReal z.re = z := by
  cases z with
  | mk re im => simp only at h; subst h; simp [Cx.ofReal, Num.zero]

/-- on an array whose fold is real, the `.real` of the real-input path is a no-op -/
theorem resampleNd_real_eq (a : Arr (Cx ℝ)) (axes outs : List ℕ)
    (h : IsRealArr (resampleFold a (axes.zip outs))) :
    resampleNd a axes outs true = resampleNd a axes outs false := by
  unfold resampleNd
  simp only [Bool.false_eq_true, if_false, if_true]
  congr 1
  apply List.map_congr_left
  intro z hz
  rw [ofReal_re_of_real (h z hz)]

theorem scaleArr_real (c : ℝ) {a : Arr (Cx ℝ)} (h : IsRealArr a) : IsRealArr (scaleArr c a) := by
  intro z hz
  unfold scaleArr at hz
  simp only [List.mem_map] at hz
  obtain ⟨w, hw, rfl⟩ := hz
  simp [Cx.smul, h w hw]

/-- **N-D round trip as the code runs it on real arrays** (`.real` after each inverse
transform): for a real array whose lines carry no Nyquist content along the enlarged axes -/
theorem resampleNd_up_down_real (a : Arr (Cx ℝ)) (ha : WFArr a) (hr : IsRealArr a) (axes outs : List ℕ)
    (hnd : axes.Nodup) (hl : axes.length = outs.length) (hv : ∀ ax ∈ axes, ax < a.shape.length)
    (h : RealUp a (axes.zip outs)) :
    resampleNd (resampleNd a axes outs true) axes.reverse
      (axes.map fun ax => a.shape.getD ax 1).reverse true = a := by
  obtain ⟨hup, hok⟩ := h.upOk
  rw [resampleNd_real_eq a axes outs (resampleFold_real _ a hr h)]
  have hzip : axes.reverse.zip (axes.map fun ax => a.shape.getD ax 1).reverse
      = downPairs a.shape (axes.zip outs) := by
    rw [downPairs_eq axes outs a.shape hnd hl, List.zip_eq_zipWith, List.zip_eq_zipWith,
      List.reverse_zipWith (by simp)]
  rw [resampleNd_real_eq]
  · exact resampleNd_up_down a ha axes outs hnd hl hv hup hok
  · rw [hzip, resampleNd_eq_scale a axes outs, resampleFold_scale, resampleFold_up_down a ha _ hup]
    exact scaleArr_real _ hr

end QuantemModel.Resample
