import QuantemModel.Lemmas.ConstraintsParseval
/-!
Histories: the constraints dictionary of `BaseConstraints` as a last-writer-wins map, and repeated
`set_initial_probe` on one probe model (requested weights are never written).
-/
namespace QuantemModel.Constraints
open QuantemModel

/-! ### the constraints dictionary -/
variable {V : Type}

theorem cget_cset_same (d : CDict V) (k : String) (v : V) : cget (cset d k v) k = some v := by
  induction d with
  | nil => simp [cset, cget]
  | cons p rest ih =>
    obtain ⟨k', v'⟩ := p
    by_cases h : k' = k
    · simp [cset, cget, h]
    · simp [cset, cget, h, ih]

theorem cget_cset_other (d : CDict V) (k k' : String) (v : V) (h : k' ≠ k) :
    cget (cset d k v) k' = cget d k' := by
  induction d with
  | nil => simp [cset, cget, Ne.symm h]
  | cons p rest ih =>
    obtain ⟨k0, v0⟩ := p
    by_cases h0 : k0 = k
    · subst h0
      simp [cset, cget, Ne.symm h]
    · by_cases h1 : k0 = k'
      · subst h1
        simp [cset, cget, h0]
      · simp [cset, cget, h0, h1, ih]

/-- the keys of the dictionary never change when an existing key is assigned -/
theorem cset_keys (d : CDict V) (k : String) (v : V) (hk : (cget d k).isSome) :
    (cset d k v).map (·.1) = d.map (·.1) := by
  induction d with
  | nil => simp [cget] at hk
  | cons p rest ih =>
    obtain ⟨k0, v0⟩ := p
    by_cases h0 : k0 = k
    · simp [cset, h0]
    · simp only [cget, h0, if_false] at hk
      simp [cset, h0, ih hk]

/-- the value requested last for key `k` in a sequence of assignments (none if `k` was never assigned) -/
def lastWrite (k : String) : List (String × V) → Option V
  | [] => none
  | (k', v) :: rest =>
      match lastWrite k rest with
      | some x => some x
      | none => if k' = k then some v else none

/-- a sequence of valid `add_constraint` calls -/
def applyAdds (d : CDict V) (ops : List (String × V)) : CDict V :=
  ops.foldl (fun d kv => cset d kv.1 kv.2) d

theorem cget_applyAdds (ops : List (String × V)) : ∀ (d : CDict V) (k : String),
    cget (applyAdds d ops) k = match lastWrite k ops with
                               | some v => some v
                               | none => cget d k := by
  induction ops with
  | nil => intro d k; simp [applyAdds, lastWrite]
  | cons p rest ih =>
    intro d k
    obtain ⟨k', v⟩ := p
    have hstep : applyAdds d ((k', v) :: rest) = applyAdds (cset d k' v) rest := by simp [applyAdds]
    rw [hstep, ih]
    simp only [lastWrite]
    cases hl : lastWrite k rest with
    | some x => simp
    | none =>
      simp only
      by_cases h : k' = k
      · subst h; simp [cget_cset_same]
      · simp [h, cget_cset_other _ _ _ _ (Ne.symm h)]

theorem setConstraints_valid (allowed : List String) (items : List (String × V)) :
    ∀ (d : CDict V), (∀ kv ∈ items, kv.1 ∈ allowed) →
      setConstraints allowed d items = (applyAdds d items, none) := by
  induction items with
  | nil => intro d _; simp [setConstraints, applyAdds]
  | cons p rest ih =>
    intro d h
    obtain ⟨k, v⟩ := p
    have hk : k ∈ allowed := h (k, v) (by simp)
    simp only [setConstraints, addConstraint, hk, if_true]
    rw [ih _ (fun kv hkv => h kv (by simp [hkv]))]
    simp [applyAdds]

/-! ### repeated `set_initial_probe` -/

theorem runProbeHistory_weights (steps : List (ℝ × List (Img ℝ))) : ∀ (st : ProbeState ℝ),
    (runProbeHistory st steps).weights = st.weights := by
  induction steps with
  | nil => intro st; rfl
  | cons s rest ih =>
    intro st
    have : runProbeHistory st (s :: rest) = runProbeHistory (setInitialProbe s.1 s.2 st) rest := by
      simp [runProbeHistory]
    rw [this, ih]
    rfl

theorem runProbeHistory_snoc (st : ProbeState ℝ) (steps : List (ℝ × List (Img ℝ))) (M : ℝ)
    (ramps : List (Img ℝ)) :
    runProbeHistory st (steps ++ [(M, ramps)]) = setInitialProbe M ramps (runProbeHistory st steps) := by
  simp [runProbeHistory, List.foldl_append]

end QuantemModel.Constraints
