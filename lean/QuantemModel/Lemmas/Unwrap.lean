import QuantemModel.Lemmas.UnionFind
import QuantemModel.Real.NumReal
import Mathlib.Tactic.IntervalCases
/-!
Phase-level lemmas for C17 at the carrier `ℝ`: `findWrap` under the Itoh condition, the
assembled output, offsets on connected components of the edge multigraph, grid edges in range.
-/
namespace QuantemModel.Unwrap
open QuantemModel

/-! ### `_find_wrap` over ℝ -/

theorem findWrap_real (half a b : ℝ) :
    findWrap half a b = if half < a - b then -1 else if a - b < -half then 1 else 0 := by
  unfold findWrap
  simp only [NumReal.ltb_eq, NumReal.sub_eq, NumReal.neg_eq]

/-- **Itoh.**  If the true values differ by less than `half` (= π) and the stored values are
the true ones moved by whole multiples of `2·half` into `[-half, half]`, then `_find_wrap`
returns exactly the difference of the wrap counts. -/
theorem itoh_findWrap {half : ℝ} (hh : 0 < half) {pa pb wa wb : ℝ} {na nb : ℤ}
    (ha : wa = pa - 2 * half * na) (hb : wb = pb - 2 * half * nb)
    (hra : -half ≤ wa ∧ wa ≤ half) (hrb : -half ≤ wb ∧ wb ≤ half)
    (hitoh : |pa - pb| < half) :
    findWrap half wa wb = na - nb := by
  rw [findWrap_real]
  obtain ⟨h1, h2⟩ := abs_lt.mp hitoh
  -- k = na - nb is -1, 0 or 1
  have hd : wa - wb = (pa - pb) - 2 * half * ((na - nb : ℤ) : ℝ) := by
    rw [ha, hb]; push_cast; ring
  generalize hk : na - nb = k at hd ⊢
  have hk1 : (k : ℝ) < 2 := by
    by_contra hc
    have hc : (2 : ℝ) ≤ k := not_lt.mp hc
    nlinarith [hra.1, hra.2, hrb.1, hrb.2]
  have hk2 : (-2 : ℝ) < k := by
    by_contra hc
    have hc : (k : ℝ) ≤ -2 := not_lt.mp hc
    nlinarith [hra.1, hra.2, hrb.1, hrb.2]
  have hk1' : k < 2 := by exact_mod_cast hk1
  have hk2' : -2 < k := by exact_mod_cast hk2
  interval_cases k
  · -- k = -1
    have : half < wa - wb := by rw [hd]; push_cast; linarith
    simp [this]
  · -- k = 0
    have h3 : ¬ half < wa - wb := by rw [hd]; push_cast; linarith
    have h4 : ¬ wa - wb < -half := by rw [hd]; push_cast; linarith
    simp [h3, h4]
  · -- k = 1
    have h3 : ¬ half < wa - wb := by rw [hd]; push_cast; linarith
    have h4 : wa - wb < -half := by rw [hd]; push_cast; linarith
    simp [h3, h4]

/-- **Itoh, general form.**  The stored values may be ANY representatives of the true ones
(`w = φ - 2·half·n`, no window at all): `_find_wrap` returns the difference of the wrap counts as
soon as the counts of the two neighbours differ by at most one. -/
theorem itoh_findWrap_step {half : ℝ} (hh : 0 < half) {pa pb wa wb : ℝ} {na nb : ℤ}
    (ha : wa = pa - 2 * half * na) (hb : wb = pb - 2 * half * nb)
    (hstep : -1 ≤ na - nb ∧ na - nb ≤ 1)
    (hitoh : |pa - pb| < half) :
    findWrap half wa wb = na - nb := by
  rw [findWrap_real]
  obtain ⟨h1, h2⟩ := abs_lt.mp hitoh
  have hd : wa - wb = (pa - pb) - 2 * half * ((na - nb : ℤ) : ℝ) := by
    rw [ha, hb]; push_cast; ring
  generalize hk : na - nb = k at hd hstep ⊢
  obtain ⟨hk2', hk1'⟩ := hstep
  have hk1'' : k < 2 := by omega
  have hk2'' : -2 < k := by omega
  interval_cases k
  · have : half < wa - wb := by rw [hd]; push_cast; linarith
    simp [this]
  · have h3 : ¬ half < wa - wb := by rw [hd]; push_cast; linarith
    have h4 : ¬ wa - wb < -half := by rw [hd]; push_cast; linarith
    simp [h3, h4]
  · have h3 : ¬ half < wa - wb := by rw [hd]; push_cast; linarith
    have h4 : wa - wb < -half := by rw [hd]; push_cast; linarith
    simp [h3, h4]

/-- two stored values that lie in one window of width `2·half` (any window: `[-π, π)`, `[0, 2π)`,
…) have wrap counts at most one apart when the true values are Itoh neighbours -/
theorem step_of_window {half : ℝ} (hh : 0 < half) {pa pb wa wb : ℝ} {na nb : ℤ}
    (ha : wa = pa - 2 * half * na) (hb : wb = pb - 2 * half * nb)
    (hwin : |wa - wb| ≤ 2 * half) (hitoh : |pa - pb| < half) :
    -1 ≤ na - nb ∧ na - nb ≤ 1 := by
  obtain ⟨h1, h2⟩ := abs_lt.mp hitoh
  obtain ⟨w1, w2⟩ := abs_le.mp hwin
  have hd : wa - wb = (pa - pb) - 2 * half * ((na - nb : ℤ) : ℝ) := by
    rw [ha, hb]; push_cast; ring
  generalize na - nb = k at hd ⊢
  have hk1 : (k : ℝ) < 2 := by
    by_contra hc
    have hc : (2 : ℝ) ≤ k := not_lt.mp hc
    nlinarith
  have hk2 : (-2 : ℝ) < k := by
    by_contra hc
    have hc : (k : ℝ) ≤ -2 := not_lt.mp hc
    nlinarith
  have hk1' : k < 2 := by exact_mod_cast hk1
  have hk2' : -2 < k := by exact_mod_cast hk2
  omega

/-! ### the assembled output -/

theorem assemble_spec (half : ℝ) (N : Nat) (phi : Nat → ℝ) (incs : List Int) :
    ∃ c : ℝ, (assemble half N phi incs).length = N ∧
      ∀ i, i < N → (assemble half N phi incs).getD i 0 = phi i + 2 * half * ((incs.getD i 0 : ℤ) : ℝ) - c := by
  refine ⟨Num.sum ((List.range N).map fun i => phi i + Num.two * half * Num.ofInt (incs.getD i 0)) / Num.ofNat N, ?_, ?_⟩
  · simp [assemble]
  · intro i hi
    simp only [assemble, List.getD_eq_getElem?_getD, List.getElem?_map, List.getElem?_range, hi,
      Option.map_some, Option.getD_some, NumReal.sub_eq, NumReal.add_eq, NumReal.mul_eq,
      NumReal.two_eq, NumReal.ofInt_eq, Array.getD_eq_getD_getElem?, List.getElem?_toArray]

/-! ### offsets on the components of the edge multigraph -/

/-- adjacency of the edge list (direction forgotten by `EqvGen`) -/
def EdgeAdj (es : List Edge) (a b : Nat) : Prop := ∃ e ∈ es, e.i1 = a ∧ e.i2 = b

open UF in
/-- Everything the integer part of the unwrapper guarantees, for ANY edge list in ANY order:
it terminates; and for every integer field `n` whose differences the increments are, the
offset of a pixel is `n pixel - n (its root)`, where connected pixels share the root. -/
theorem offsets_spec {N : Nat} (es : List Edge) (hin : ∀ e ∈ es, e.i1 < N ∧ e.i2 < N) :
    ∃ (u : UF) (incs : List Int) (root : Nat → Nat),
      unionAll (UF.init N) es = some u ∧ WF u N ∧ finalOffsets u = some incs ∧ incs.length = N ∧
      (∀ a, a < N → ∃ t, u.find a = some (root a, t) ∧ t = incs.getD a 0) ∧
      (∀ a b, a < N → b < N → Relation.EqvGen (EdgeAdj es) a b → root a = root b) ∧
      (∀ n : Nat → Int, (∀ e ∈ es, e.inc = n e.i1 - n e.i2) →
        Consistent u N n ∧ ∀ a, a < N → incs.getD a 0 = n a - n (root a)) := by
  obtain ⟨u, hu, hwf, hcons, _, hedges⟩ := unionAll_spec es (UF.init N) (init_wf N) hin
  obtain ⟨incs, hincs, hlen, hfind⟩ := finalOffsets_spec hwf
  let root : Nat → Nat := fun a => ((u.find a).map (·.1)).getD a
  have hroot : ∀ a, a < N → ∃ t, u.find a = some (root a, t) ∧ t = incs.getD a 0 := by
    intro a ha
    obtain ⟨r, hr⟩ := hfind a ha
    exact ⟨_, by simp [root, hr], rfl⟩
  refine ⟨u, incs, root, hu, hwf, hincs, hlen, hroot, ?_, ?_⟩
  · intro a b ha hb hconn
    have hgen : ∀ a b, Relation.EqvGen (EdgeAdj es) a b → a = b ∨ SameRoot u a b := by
      intro a b h
      induction h with
      | rel x y hxy =>
        obtain ⟨e, he, rfl, rfl⟩ := hxy
        exact Or.inr (hedges e he)
      | refl x => exact Or.inl rfl
      | symm x y _ ih => exact ih.elim (fun e => Or.inl e.symm) (fun s => Or.inr s.symm)
      | trans x y z _ _ ih1 ih2 =>
        rcases ih1 with rfl | s1
        · exact ih2
        · rcases ih2 with rfl | s2
          · exact Or.inr s1
          · exact Or.inr (s1.trans s2)
    rcases hgen a b hconn with rfl | ⟨r, ta, tb, h1, h2⟩
    · rfl
    · simp [root, h1, h2]
  · intro n hn
    have hc := hcons n (init_consistent N n) hn
    refine ⟨hc, ?_⟩
    intro a ha
    obtain ⟨t, ht, hti⟩ := hroot a ha
    rw [← hti]
    exact find_consistent hwf hc ha ht

/-! ### edges of pixel pairs -/

theorem mem_edgesOfPairs {R : Type} [Num R] (half : R) (phi : Nat → R) (pairs : List (Nat × Nat)) (e : Edge) :
    e ∈ edgesOfPairs half phi pairs ↔
      ∃ p ∈ pairs, e = { i1 := p.1, i2 := p.2, inc := findWrap half (phi p.1) (phi p.2) } := by
  simp only [edgesOfPairs, List.mem_map]
  constructor
  · rintro ⟨p, hp, rfl⟩; exact ⟨p, hp, rfl⟩
  · rintro ⟨p, hp, rfl⟩; exact ⟨p, hp, rfl⟩

theorem edgeAdj_edgesOfPairs {R : Type} [Num R] (half : R) (phi : Nat → R) (pairs : List (Nat × Nat))
    (a b : Nat) : EdgeAdj (edgesOfPairs half phi pairs) a b ↔ (a, b) ∈ pairs := by
  unfold EdgeAdj
  constructor
  · rintro ⟨e, he, rfl, rfl⟩
    obtain ⟨p, hp, rfl⟩ := (mem_edgesOfPairs half phi pairs e).mp he
    exact hp
  · intro h
    exact ⟨_, (mem_edgesOfPairs half phi pairs _).mpr ⟨(a, b), h, rfl⟩, rfl, rfl⟩

/-- connectivity in the undirected multigraph of a list of pixel pairs -/
def Conn (pairs : List (Nat × Nat)) : Nat → Nat → Prop :=
  Relation.EqvGen fun a b => (a, b) ∈ pairs

theorem conn_iff_edges {R : Type} [Num R] (half : R) (phi : Nat → R) (pairs : List (Nat × Nat)) (a b : Nat) :
    Conn pairs a b ↔ Relation.EqvGen (EdgeAdj (edgesOfPairs half phi pairs)) a b := by
  unfold Conn
  have : (fun a b => (a, b) ∈ pairs) = EdgeAdj (edgesOfPairs half phi pairs) := by
    funext a b; exact propext (edgeAdj_edgesOfPairs half phi pairs a b).symm
  rw [this]

theorem conn_perm {p q : List (Nat × Nat)} (h : p.Perm q) (a b : Nat) : Conn p a b ↔ Conn q a b := by
  unfold Conn
  have : (fun a b => (a, b) ∈ p) = (fun a b => (a, b) ∈ q) := by
    funext a b; exact propext h.mem_iff
  rw [this]

/-- pixel `i` is an end of some pair -/
def Touched (pairs : List (Nat × Nat)) (i : Nat) : Prop := ∃ p ∈ pairs, p.1 = i ∨ p.2 = i

/-- distinct connected pixels are both ends of pairs -/
theorem conn_touched {pairs : List (Nat × Nat)} {a b : Nat} (h : Conn pairs a b) :
    a = b ∨ (Touched pairs a ∧ Touched pairs b) := by
  unfold Conn at h
  induction h with
  | rel x y hxy => exact Or.inr ⟨⟨(x, y), hxy, Or.inl rfl⟩, ⟨(x, y), hxy, Or.inr rfl⟩⟩
  | refl x => exact Or.inl rfl
  | symm x y _ ih => exact ih.elim (fun e => Or.inl e.symm) (fun t => Or.inr ⟨t.2, t.1⟩)
  | trans x y z _ _ ih1 ih2 =>
    rcases ih1 with rfl | t1
    · exact ih2
    · rcases ih2 with rfl | t2
      · exact Or.inr t1
      · exact Or.inr ⟨t1.1, t2.2⟩

/-! ### the grid graph is the 4-neighbour graph -/

/-- bounded grid: the pairs are exactly "right neighbour" and "lower neighbour" of pixel `(r, c)` -/
theorem mem_edgePairs_bounded (H W a b : Nat) :
    (a, b) ∈ edgePairs H W false ↔
      ∃ r c, r < H ∧ c < W ∧ a = r * W + c ∧
        ((c + 1 < W ∧ b = r * W + (c + 1)) ∨ (r + 1 < H ∧ b = (r + 1) * W + c)) := by
  unfold edgePairs
  simp only [Bool.false_eq_true, if_false, List.mem_append, List.mem_flatMap, List.mem_map,
    List.mem_range, Prod.mk.injEq]
  constructor
  · rintro (⟨r, hr, c, hc, rfl, rfl⟩ | ⟨r, hr, c, hc, rfl, rfl⟩)
    · exact ⟨r, c, hr, by omega, rfl, Or.inl ⟨by omega, by omega⟩⟩
    · exact ⟨r, c, by omega, hc, rfl, Or.inr ⟨by omega, rfl⟩⟩
  · rintro ⟨r, c, hr, hc, rfl, (⟨h1, rfl⟩ | ⟨h1, rfl⟩)⟩
    · exact Or.inl ⟨r, hr, c, by omega, rfl, by omega⟩
    · exact Or.inr ⟨r, by omega, c, hc, rfl, rfl⟩

/-- periodic grid: right and lower neighbour with indices taken modulo the size (so `W = 1` gives
self-loops and `W = 2` gives every horizontal pair twice) -/
theorem mem_edgePairs_periodic (H W a b : Nat) :
    (a, b) ∈ edgePairs H W true ↔
      ∃ r c, r < H ∧ c < W ∧ a = r * W + c ∧
        (b = r * W + (c + 1) % W ∨ b = ((r + 1) % H) * W + c) := by
  unfold edgePairs
  simp only [if_true, List.mem_append, List.mem_map, List.mem_range, Prod.mk.injEq]
  have decomp : ∀ i, i < H * W → 0 < W ∧ i / W < H ∧ i % W < W ∧ i = i / W * W + i % W := by
    intro i hi
    have hW : 0 < W := by
      rcases Nat.eq_zero_or_pos W with h | h
      · subst h; simp at hi
      · exact h
    refine ⟨hW, (Nat.div_lt_iff_lt_mul hW).mpr hi, Nat.mod_lt _ hW, ?_⟩
    have := Nat.div_add_mod i W
    rw [Nat.mul_comm] at this
    omega
  have recomp : ∀ r c, r < H → c < W → r * W + c < H * W ∧ (r * W + c) / W = r ∧ (r * W + c) % W = c := by
    intro r c hr hc
    have h3 : (r + 1) * W ≤ H * W := Nat.mul_le_mul_right W hr
    rw [Nat.succ_mul] at h3
    refine ⟨by omega, ?_, ?_⟩
    · rw [Nat.mul_comm, Nat.mul_add_div (by omega), Nat.div_eq_of_lt hc]; rfl
    · rw [Nat.mul_comm, Nat.mul_add_mod, Nat.mod_eq_of_lt hc]
  constructor
  · rintro (⟨i, hi, rfl, rfl⟩ | ⟨i, hi, rfl, rfl⟩)
    · obtain ⟨_, h1, h2, h3⟩ := decomp i hi
      exact ⟨i / W, i % W, h1, h2, h3, Or.inl rfl⟩
    · obtain ⟨_, h1, h2, h3⟩ := decomp i hi
      exact ⟨i / W, i % W, h1, h2, h3, Or.inr rfl⟩
  · rintro ⟨r, c, hr, hc, rfl, (rfl | rfl)⟩
    · obtain ⟨h1, h2, h3⟩ := recomp r c hr hc
      exact Or.inl ⟨r * W + c, h1, rfl, by rw [h2, h3]⟩
    · obtain ⟨h1, h2, h3⟩ := recomp r c hr hc
      exact Or.inr ⟨r * W + c, h1, rfl, by rw [h2, h3]⟩

/-! ### grid edges stay inside the grid -/

theorem edgePairs_lt (H W : Nat) (wrap : Bool) :
    ∀ p ∈ edgePairs H W wrap, p.1 < H * W ∧ p.2 < H * W := by
  intro p hp
  unfold edgePairs at hp
  cases wrap with
  | true =>
    simp only [if_true, List.mem_append, List.mem_map, List.mem_range] at hp
    rcases hp with ⟨i, hi, rfl⟩ | ⟨i, hi, rfl⟩
    · have hW : 0 < W := by
        rcases Nat.eq_zero_or_pos W with h | h
        · subst h; simp at hi
        · exact h
      refine ⟨hi, ?_⟩
      have h1 : i / W < H := (Nat.div_lt_iff_lt_mul hW).mpr hi
      have h2 : (i % W + 1) % W < W := Nat.mod_lt _ hW
      have h3 : (i / W + 1) * W ≤ H * W := Nat.mul_le_mul_right W h1
      rw [Nat.succ_mul] at h3
      show i / W * W + (i % W + 1) % W < H * W
      omega
    · have hW : 0 < W := by
        rcases Nat.eq_zero_or_pos W with h | h
        · subst h; simp at hi
        · exact h
      have hH : 0 < H := by
        rcases Nat.eq_zero_or_pos H with h | h
        · subst h; simp at hi
        · exact h
      refine ⟨hi, ?_⟩
      have h1 : (i / W + 1) % H < H := Nat.mod_lt _ hH
      have h2 : i % W < W := Nat.mod_lt _ hW
      have h3 : ((i / W + 1) % H + 1) * W ≤ H * W := Nat.mul_le_mul_right W h1
      rw [Nat.succ_mul] at h3
      show (i / W + 1) % H * W + i % W < H * W
      omega
  | false =>
    simp only [Bool.false_eq_true, if_false, List.mem_append, List.mem_flatMap, List.mem_map,
      List.mem_range] at hp
    rcases hp with ⟨r, hr, c, hc, rfl⟩ | ⟨r, hr, c, hc, rfl⟩
    · have h3 : (r + 1) * W ≤ H * W := Nat.mul_le_mul_right W hr
      rw [Nat.succ_mul] at h3
      constructor
      · show r * W + c < H * W
        omega
      · show r * W + c + 1 < H * W
        omega
    · have h3 : (r + 1 + 1) * W ≤ H * W := Nat.mul_le_mul_right W (by omega)
      rw [Nat.succ_mul, Nat.succ_mul] at h3
      constructor
      · show r * W + c < H * W
        omega
      · show (r + 1) * W + c < H * W
        rw [Nat.succ_mul]
        omega

theorem maskedPairs_lt (H W : Nat) (mask : Nat → Bool) (wrap : Bool) :
    ∀ p ∈ maskedPairs H W mask wrap, p.1 < H * W ∧ p.2 < H * W := by
  intro p hp
  unfold maskedPairs at hp
  exact edgePairs_lt H W wrap p (List.mem_filter.mp hp).1

theorem maskedPairs_mask (H W : Nat) (mask : Nat → Bool) (wrap : Bool) :
    ∀ p ∈ maskedPairs H W mask wrap, mask p.1 = true ∧ mask p.2 = true := by
  intro p hp
  unfold maskedPairs at hp
  simpa using (List.mem_filter.mp hp).2

/-! ### `max`/`min` of a list over ℝ (the `phase_grid.max() - phase_grid.min()` test) -/

theorem foldl_max_ge (r : List ℝ) : ∀ init : ℝ,
    init ≤ r.foldl Num.max init ∧ ∀ y ∈ r, y ≤ r.foldl Num.max init := by
  induction r with
  | nil => intro init; simp
  | cons x r ih =>
    intro init
    simp only [List.foldl_cons, List.mem_cons]
    obtain ⟨h1, h2⟩ := ih (Num.max init x)
    rw [NumReal.max_eq] at h1 h2 ⊢
    refine ⟨le_trans (le_max_left _ _) h1, ?_⟩
    rintro y (rfl | hy)
    · exact le_trans (le_max_right _ _) h1
    · exact h2 y hy

theorem foldl_min_le (r : List ℝ) : ∀ init : ℝ,
    r.foldl Num.min init ≤ init ∧ ∀ y ∈ r, r.foldl Num.min init ≤ y := by
  induction r with
  | nil => intro init; simp
  | cons x r ih =>
    intro init
    simp only [List.foldl_cons, List.mem_cons]
    obtain ⟨h1, h2⟩ := ih (Num.min init x)
    rw [NumReal.min_eq] at h1 h2 ⊢
    refine ⟨le_trans h1 (min_le_left _ _), ?_⟩
    rintro y (rfl | hy)
    · exact le_trans h1 (min_le_right _ _)
    · exact h2 y hy

theorem le_maxList {xs : List ℝ} {x : ℝ} (h : x ∈ xs) : x ≤ maxList xs := by
  cases xs with
  | nil => simp at h
  | cons a r =>
    simp only [maxList, List.mem_cons] at h ⊢
    rcases h with rfl | h
    · exact (foldl_max_ge r _).1
    · exact (foldl_max_ge r a).2 x h

theorem minList_le {xs : List ℝ} {x : ℝ} (h : x ∈ xs) : minList xs ≤ x := by
  cases xs with
  | nil => simp at h
  | cons a r =>
    simp only [minList, List.mem_cons] at h ⊢
    rcases h with rfl | h
    · exact (foldl_min_le r _).1
    · exact (foldl_min_le r a).2 x h

end QuantemModel.Unwrap
