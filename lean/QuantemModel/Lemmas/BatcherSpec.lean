/-
Helper lemmas for C09 (growth round 6): the loop of `reconstruct` (`iterate` / `iterateF`) against the closed-form
specification of `Model/BatcherSpec.lean`.
-/
import QuantemModel.Lemmas.BatcherFault
import QuantemModel.Model.BatcherSpec

namespace QuantemModel.Batcher

section
variable {P R : Type} [Num R]
variable (draw : Gen → List Nat → List Nat)
variable (stepFn : P → List Nat → P × R) (valFn : P → List Nat → R)

omit [Num R] in
theorem specEpochs_succ (b : Nat) (train : List Nat) (g : Gen) (k : Nat) :
    specEpochs draw b train g (k + 1) = specEpoch draw b train g 0 :: specEpochs draw b train (g.adv 1) k := by
  unfold specEpochs
  rw [List.range_succ_eq_map, List.map_cons, List.map_map]
  congr 1
  apply List.map_congr_left
  intro i _
  simp only [Function.comp, specEpoch, Gen.adv]
  congr 3
  omega

omit [Num R] in
theorem specEpochs_snoc (b : Nat) (train : List Nat) (g : Gen) (k : Nat) :
    specEpochs draw b train g (k + 1) = specEpochs draw b train g k ++ [specEpoch draw b train g k] := by
  unfold specEpochs
  rw [List.range_succ, List.map_append, List.map_singleton]

/-- the loop without a fault, in closed form: `k` epochs, `k` draws, `k` recorded losses -/
theorem iterate_eq_spec (b : Nat) (sp : Split) (k : Nat) :
    ∀ (st : LoopState P R),
      (iterate draw stepFn valFn b sp k st).schedule = st.schedule ++ specEpochs draw b sp.train st.gen k ∧
      (iterate draw stepFn valFn b sp k st).gen = st.gen.adv k ∧
      (iterate draw stepFn valFn b sp k st).iterLosses.length = st.iterLosses.length + k := by
  induction k with
  | zero => intro st; simp [iterate, specEpochs, Gen.adv]
  | succ k ih =>
    intro st
    rw [iterate]
    obtain ⟨h1, h2, h3⟩ := ih (iterStep draw stepFn valFn b sp st)
    refine ⟨?_, ?_, ?_⟩
    · rw [h1, specEpochs_succ]
      simp only [iterStep, List.append_assoc, List.singleton_append, specEpoch, Gen.adv, Nat.add_zero]
    · rw [h2]
      simp only [iterStep, Gen.adv]
      congr 1
      omega
    · rw [h3]
      simp only [iterStep, List.length_append, List.length_cons, List.length_nil]
      omega

theorem iterate_add (b : Nat) (sp : Split) (a c : Nat) :
    ∀ (st : LoopState P R), iterate draw stepFn valFn b sp (a + c) st
      = iterate draw stepFn valFn b sp c (iterate draw stepFn valFn b sp a st) := by
  induction a with
  | zero => intro st; simp [iterate]
  | succ a ih =>
    intro st
    have : a + 1 + c = (a + c) + 1 := by omega
    rw [this, iterate, ih, iterate]

/-- an iteration whose fault position is never reached is followed by the rest of the loop: the whole loop -/
theorem iterate_resume (b : Nat) (sp : Split) (k i : Nat) (hi : i < k) (st : LoopState P R) :
    iterate draw stepFn valFn b sp (k - i - 1) (iterStep draw stepFn valFn b sp (iterate draw stepFn valFn b sp i st))
      = iterate draw stepFn valFn b sp k st := by
  have h1 : iterStep draw stepFn valFn b sp (iterate draw stepFn valFn b sp i st)
      = iterate draw stepFn valFn b sp 1 (iterate draw stepFn valFn b sp i st) := by simp [iterate]
  rw [h1, ← iterate_add, ← iterate_add]
  congr 1
  omega

/-- **the loop with an optional fault is the closed-form specification**: schedule, generator, number of recorded losses
and whether it raised — for every batch size, split, number of iterations, fault and start state -/
theorem iterateF_eq_spec (b : Nat) (sp : Split) (k : Nat) (fault : Option Fault) (st : LoopState P R) :
    (iterateF draw stepFn valFn b sp k fault st).1.schedule = st.schedule ++ (specLoop draw b sp k fault st.gen).schedule ∧
    (iterateF draw stepFn valFn b sp k fault st).1.gen = (specLoop draw b sp k fault st.gen).gen ∧
    (iterateF draw stepFn valFn b sp k fault st).1.iterLosses.length
      = st.iterLosses.length + (specLoop draw b sp k fault st.gen).recorded ∧
    (iterateF draw stepFn valFn b sp k fault st).2 = (specLoop draw b sp k fault st.gen).raised := by
  have hfull := iterate_eq_spec draw stepFn valFn b sp k st
  unfold iterateF specLoop
  by_cases hE : sp.train = [] ∧ 0 < k
  · simp only [hE, and_self, if_true, Gen.adv]
    exact ⟨trivial, trivial, by simp, trivial⟩
  · simp only [hE, if_false]
    cases fault with
    | none => exact ⟨hfull.1, hfull.2.1, hfull.2.2, rfl⟩
    | some f =>
      simp only
      by_cases hi : f.iter < k
      · simp only [hi, if_true]
        obtain ⟨p1, p2, p3⟩ := iterate_eq_spec draw stepFn valFn b sp f.iter st
        obtain ⟨q1, q2, q3⟩ := iterate_eq_spec draw stepFn valFn b sp (f.iter + 1) st
        have hstep : iterate draw stepFn valFn b sp (f.iter + 1) st
            = iterStep draw stepFn valFn b sp (iterate draw stepFn valFn b sp f.iter st) := by
          rw [iterate_add]; simp [iterate]
        rw [hstep] at q1 q2 q3
        have hres := iterate_resume draw stepFn valFn b sp k f.iter hi st
        cases hk : f.kind with
        | afterRecord =>
          simp only [iterStepFault, if_true]
          exact ⟨q1, q2, q3, trivial⟩
        | train j =>
          simp only [iterStepFault, specEpoch, p2]
          by_cases hj : j < (epoch b (draw (st.gen.adv f.iter) sp.train)).length
          · simp only [hj, if_true]
            refine ⟨?_, ?_, ?_, trivial⟩
            · rw [p1, List.append_assoc]
            · simp only [Gen.adv]; congr 1
            · exact p3
          · simp only [hj, if_false, Bool.false_eq_true]
            rw [hres]
            exact ⟨hfull.1, hfull.2.1, hfull.2.2, trivial⟩
        | val v =>
          simp only [iterStepFault]
          by_cases hv : v < (iterVal b sp.val).length
          · simp only [hv, if_true]
            refine ⟨?_, ?_, ?_, trivial⟩
            · rw [p1, specEpochs_snoc, List.append_assoc, p2]; rfl
            · rw [p2]; simp only [Gen.adv]; congr 1
            · exact p3
          · simp only [hv, if_false, Bool.false_eq_true]
            rw [hres]
            exact ⟨hfull.1, hfull.2.1, hfull.2.2, trivial⟩
      · simp only [hi, if_false]
        exact ⟨hfull.1, hfull.2.1, hfull.2.2, trivial⟩

end
end QuantemModel.Batcher
