import QuantemModel.Lemmas.NormQuantile
/-!
C20 — histories of operations on ONE `CustomNormalization` object (state: interval, stretch, vmin, vmax of
`Model/Norm.lean`).  The step function says which operations change the object: only `_set_limits`, and only when
`get_limits` returned; `__call__`, `inverse` and every REJECTED operation (an assignment of a colour limit that
matplotlib refuses, an argument that cannot be normalised, `_set_limits` on data without finite values) leave it as
it is, whether they return or raise.  The harness stream "nhist" checks exactly this on the real object (valid calls
after rejected operations equal the model of the unchanged object).
-/
namespace QuantemModel.NormHistory
open QuantemModel QuantemModel.Norm QuantemModel.Generated.Stretch

/-- one operation in the life of a normalisation object -/
inductive Op where
  /-- `norm(d)` (returns or raises) -/
  | call (d : List (Ext ℝ))
  /-- `norm.inverse(ys)` (returns or raises) -/
  | inverse (ys : List ℝ)
  /-- `norm._set_limits(d)` — what `data=` at construction does (`isBool`: boolean image) -/
  | setLimits (isBool : Bool) (d : List (Ext ℝ))
  /-- an operation that is rejected before it changes anything -/
  | rejected

/-- the object after one operation -/
noncomputable def step (n : Norm.Norm ℝ) : Op → Norm.Norm ℝ
  | .setLimits b d => match n.setLimits b d with
    | .ok n' => n'
    | .error _ => n            -- `get_limits` raised before anything was assigned
  | _ => n

/-- the object after a history -/
noncomputable def run (n : Norm.Norm ℝ) (ops : List Op) : Norm.Norm ℝ := ops.foldl step n

/-- the part of "lower limit ≤ upper limit" that does not depend on the argument -/
def LimitsStatic : Interval ℝ → Prop
  | .quantile lo hi => lo ≤ hi
  | .centered _ half => ∀ h, half = some h → 0 ≤ h
  | .manual (some a) (some b) => a ≤ b
  | .manual _ _ => True

end QuantemModel.NormHistory
