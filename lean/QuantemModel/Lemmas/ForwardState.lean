import QuantemModel.Model.ForwardState
import QuantemModel.Lemmas.ForwardSpec
import Mathlib.Data.Rat.Floor
import Mathlib.Tactic.Ring
import Mathlib.Tactic.Linarith
/-!
Helper lemmas for the state machines of `Model/ForwardState.lean` (C02, growth round 5): slice-thickness
setter and propagator cache, target selection, scan-position setter and patch-index cache, rounding.
-/
namespace QuantemModel.ForwardState
open QuantemModel QuantemModel.PtychoOps QuantemModel.Forward

/-! ## rounding -/

theorem floor_eq (q : ℚ) : q.floor = ⌊q⌋ := rfl

/-- nearest pixel + sub-pixel remainder = the position; the remainder is at most half a pixel -/
theorem round_add_frac (q : ℚ) : ((roundHalfEven q : ℤ) : ℚ) + fracPos q = q := by
  unfold fracPos; ring

theorem round_cases (q : ℚ) :
    (roundHalfEven q = q.floor ∧ q - (q.floor : ℚ) ≤ 1 / 2)
      ∨ (roundHalfEven q = q.floor + 1 ∧ 1 / 2 ≤ q - (q.floor : ℚ)) := by
  unfold roundHalfEven
  dsimp only
  split_ifs with ha hb hc
  · left; exact ⟨rfl, ha.le⟩
  · right; exact ⟨rfl, hb.le⟩
  · left; exact ⟨rfl, (le_antisymm (not_lt.mp hb) (not_lt.mp ha)).le⟩
  · right; exact ⟨rfl, (le_antisymm (not_lt.mp hb) (not_lt.mp ha)).ge⟩

theorem frac_abs_le (q : ℚ) : -(1 / 2 : ℚ) ≤ fracPos q ∧ fracPos q ≤ 1 / 2 := by
  unfold fracPos
  have h1 : (q.floor : ℚ) ≤ q := Int.floor_le q
  have h2 : q < (q.floor : ℚ) + 1 := Int.lt_floor_add_one q
  rcases round_cases q with ⟨hr, hd⟩ | ⟨hr, hd⟩
  · rw [hr]; constructor <;> linarith
  · rw [hr]; push_cast; constructor <;> linarith

theorem round_int (k : ℤ) : roundHalfEven (k : ℚ) = k := by
  unfold roundHalfEven
  simp only [floor_eq, Int.floor_intCast, sub_self]
  norm_num

/-- exact ties go to the EVEN neighbour (`torch.round` / `np.round`) -/
theorem round_tie (k : ℤ) : roundHalfEven ((k : ℚ) + 1 / 2) = if k % 2 = 0 then k else k + 1 := by
  unfold roundHalfEven
  have hf : ⌊(k : ℚ) + 1 / 2⌋ = k := by
    rw [Int.floor_eq_iff]; constructor <;> linarith
  simp only [floor_eq, hf]
  have : (k : ℚ) + 1 / 2 - (k : ℚ) = 1 / 2 := by ring
  rw [this]
  simp

/-! ## patch-index cache -/

theorem patchIndices2_congr {p p' : ℚ × ℚ} (h : roundPos p = roundPos p') (R0 R1 H W : ℕ) :
    patchIndices2 p.1 p.2 R0 R1 H W = patchIndices2 p'.1 p'.2 R0 R1 H W := by
  unfold roundPos at h
  have h1 : roundHalfEven p.1 = roundHalfEven p'.1 := congrArg Prod.fst h
  have h2 : roundHalfEven p.2 = roundHalfEven p'.2 := congrArg Prod.snd h
  unfold patchIndices2
  rw [h1, h2]

theorem indicesOf_congr {ps ps' : List (ℚ × ℚ)} (h : ps.map roundPos = ps'.map roundPos) (R0 R1 H W : ℕ) :
    indicesOf H W R0 R1 ps = indicesOf H W R0 R1 ps' := by
  unfold indicesOf
  induction ps generalizing ps' with
  | nil =>
    cases ps' with
    | nil => rfl
    | cons a l => simp at h
  | cons a l ih =>
    cases ps' with
    | nil => simp at h
    | cons b l' =>
      simp only [List.map_cons, List.cons.injEq] at h ⊢
      exact ⟨patchIndices2_congr h.1 R0 R1 H W, ih h.2⟩

/-- the cached indices belong to the positions they were last computed for -/
def PosState.Coherent (s : PosState) : Prop := s.idx = indicesOf s.H s.W s.R0 s.R1 s.last

theorem PosState.step_geom (s : PosState) (op : PosOp) :
    (s.step op).1.H = s.H ∧ (s.step op).1.W = s.W ∧ (s.step op).1.R0 = s.R0 ∧ (s.step op).1.R1 = s.R1
      ∧ (s.step op).1.n = s.n := by
  cases op <;> simp only [PosState.step] <;> (try split_ifs) <;> simp

theorem PosState.step_coherent (s : PosState) (h : s.Coherent) (op : PosOp) : (s.step op).1.Coherent := by
  unfold PosState.Coherent at h ⊢
  cases op <;> simp only [PosState.step] <;> (try split_ifs) <;> simp_all

theorem PosState.run_coherent (s : PosState) (h : s.Coherent) (ops : List PosOp) : (s.run ops).Coherent := by
  unfold PosState.run
  induction ops generalizing s with
  | nil => exact h
  | cons op ops ih => exact ih _ (s.step_coherent h op)

theorem PosState.run_append (s : PosState) (a b : List PosOp) : s.run (a ++ b) = (s.run a).run b := by
  unfold PosState.run; rw [List.foldl_append]

/-- after `dset.forward` the indices are those of the CURRENT (clipped) positions, whether they were
recomputed or served from the cache -/
theorem PosState.forward_fresh (s : PosState) (h : s.Coherent) :
    (s.step .forward).1.idx
      = indicesOf s.H s.W s.R0 s.R1 (s.step .forward).1.pos
    ∧ (s.step .forward).1.pos = s.pos.map (clipPosition s.H s.W) := by
  unfold PosState.Coherent at h
  simp only [PosState.step]
  split_ifs with hc
  · refine ⟨?_, rfl⟩
    simp only
    rw [h]
    exact indicesOf_congr (by simpa using hc) ..
  · exact ⟨rfl, rfl⟩

theorem PosState.step_rejected (s : PosState) (op : PosOp) (h : (s.step op).2 = true) : (s.step op).1 = s := by
  cases op <;> simp only [PosState.step] at h ⊢ <;> (try split_ifs at h ⊢) <;> simp_all

/-! ## targets -/

theorem TState.step_rejected {α : Type} (s : TState α) (op : TOp α) (h : (s.step op).2 = true) :
    (s.step op).1 = s := by
  cases op with
  | preprocess new => simp only [TState.step] at h; split at h <;> simp at h
  | preprocessRejected => rfl
  | setTargets fam => simp only [TState.step] at h ⊢; split <;> simp_all
  | assignStack n v ok => simp only [TState.step] at h ⊢; split_ifs at h ⊢ <;> simp_all
  | setFitDescan b => simp [TState.step] at h

theorem TState.run_append {α : Type} (s : TState α) (a b : List (TOp α)) : s.run (a ++ b) = (s.run a).run b := by
  unfold TState.run; rw [List.foldl_append]

/-- calls that leave the stacks and the descan mode alone: rejected calls and `_set_targets` itself -/
def TOp.inert {α : Type} : TOp α → Bool
  | .preprocessRejected => true
  | .setTargets _ => true
  | .assignStack _ _ ok => !ok
  | _ => false

theorem TState.step_inert {α : Type} (s : TState α) (op : TOp α) (h : op.inert = true) :
    (s.step op).1.stacks = s.stacks ∧ (s.step op).1.fitDescan = s.fitDescan := by
  cases op with
  | preprocess new => simp [TOp.inert] at h
  | preprocessRejected => exact ⟨rfl, rfl⟩
  | setTargets fam => simp only [TState.step]; split <;> exact ⟨rfl, rfl⟩
  | assignStack n v ok =>
    simp only [TOp.inert, Bool.not_eq_true'] at h
    subst h; exact ⟨rfl, rfl⟩
  | setFitDescan b => simp [TOp.inert] at h

theorem TState.run_inert {α : Type} (s : TState α) (ops : List (TOp α)) (h : ∀ op ∈ ops, op.inert = true) :
    (s.run ops).stacks = s.stacks ∧ (s.run ops).fitDescan = s.fitDescan := by
  unfold TState.run
  induction ops generalizing s with
  | nil => exact ⟨rfl, rfl⟩
  | cons op ops ih =>
    have h1 := s.step_inert op (h op (by simp))
    have h2 := ih (s.step op).1 (fun o ho => h o (by simp [ho]))
    simp only [List.foldl_cons]
    exact ⟨h2.1.trans h1.1, h2.2.trans h1.2⟩

theorem TState.preprocess_state {α : Type} (s : TState α) (new : Stacks α) :
    (s.step (.preprocess new)).1.stacks = new ∧ (s.step (.preprocess new)).1.fitDescan = s.fitDescan
      ∧ (s.step (.preprocess new)).1.targets = new.get (if s.fitDescan then .amp else .centredAmp) := by
  simp [TState.step, targetSource]

/-! ## slice thicknesses (real numbers) -/

/-- a thickness list a multislice model can hold: one positive entry per gap -/
def ValidThick (n : ℕ) (th : List ℝ) : Prop := th.length = n - 1 ∧ ∀ x ∈ th, 0 < x

theorem nonPositive_iff (x : ℝ) : nonPositive x = true ↔ x ≤ 0 := by
  simp [nonPositive]

theorem thickValue_ok_valid {n : ℕ} {a : ThickArg ℝ} {th : List ℝ} (h : thickValue n a = .ok th) :
    ValidThick n th := by
  unfold thickValue at h
  generalize a.toList = l at h
  match l, h with
  | [], h =>
    simp only at h
    split_ifs at h with hn
    cases h
    exact ⟨by simp; omega, by simp⟩
  | [x], h =>
    simp only at h
    split_ifs at h with hx
    cases h
    refine ⟨by simp, ?_⟩
    intro y hy
    rw [List.eq_of_mem_replicate hy]
    have : ¬ x ≤ 0 := fun hh => hx ((nonPositive_iff x).2 hh)
    exact not_le.mp this
  | x :: y :: l, h =>
    simp only at h
    split_ifs at h with hl hp
    cases h
    refine ⟨by simpa using hl, ?_⟩
    intro z hz
    have : ¬ z ≤ 0 := fun hh => hp (List.any_eq_true.2 ⟨z, hz, (nonPositive_iff z).2 hh⟩)
    exact not_le.mp this

theorem thickValue_seq2 (n : ℕ) (x y : ℝ) (l : List ℝ) :
    thickValue n (.seq (x :: y :: l))
      = if ((x :: y :: l).length != n - 1) = true then .error "ValueError"
        else if (x :: y :: l).any nonPositive = true then .error "ValueError" else .ok (x :: y :: l) := rfl

theorem any_nonPositive_iff (xs : List ℝ) : xs.any nonPositive = true ↔ ∃ x ∈ xs, x ≤ 0 := by
  rw [List.any_eq_true]
  constructor
  · rintro ⟨x, hx, h⟩; exact ⟨x, hx, (nonPositive_iff x).1 h⟩
  · rintro ⟨x, hx, h⟩; exact ⟨x, hx, (nonPositive_iff x).2 h⟩

/-- a per-slice sequence (two or more entries) is accepted EXACTLY when it has one positive entry per gap,
and then it is stored as given -/
theorem thickValue_seq_iff (n : ℕ) (xs : List ℝ) (h2 : 2 ≤ xs.length) :
    thickValue n (.seq xs) = .ok xs ↔ (xs.length = n - 1 ∧ ∀ x ∈ xs, 0 < x) := by
  match xs, h2 with
  | x :: y :: l, _ =>
    rw [thickValue_seq2]
    by_cases hl : ((x :: y :: l).length != n - 1) = true
    · rw [if_pos hl]
      have hne : (x :: y :: l).length ≠ n - 1 := by simpa using hl
      constructor
      · intro h; cases h
      · rintro ⟨h, _⟩; exact absurd h hne
    · rw [if_neg hl]
      have heq : (x :: y :: l).length = n - 1 := by simpa using hl
      by_cases hp : (x :: y :: l).any nonPositive = true
      · rw [if_pos hp]
        obtain ⟨z, hz, hzz⟩ := (any_nonPositive_iff _).1 hp
        constructor
        · intro h; cases h
        · rintro ⟨_, h⟩; exact absurd hzz (not_le.mpr (h z hz))
      · rw [if_neg hp]
        refine ⟨fun _ => ⟨heq, ?_⟩, fun _ => rfl⟩
        intro z hz
        exact not_le.mp fun hh => hp ((any_nonPositive_iff _).2 ⟨z, hz, hh⟩)

theorem thickValue_seq_error (n : ℕ) (xs : List ℝ) (h2 : 2 ≤ xs.length)
    (hbad : xs.length ≠ n - 1 ∨ ∃ x ∈ xs, x ≤ 0) : thickValue n (.seq xs) = .error "ValueError" := by
  match xs, h2 with
  | x :: y :: l, _ =>
    rw [thickValue_seq2]
    by_cases hl : ((x :: y :: l).length != n - 1) = true
    · rw [if_pos hl]
    · rw [if_neg hl]
      have hl' : (x :: y :: l).length = n - 1 := by simpa using hl
      rcases hbad with hb | hex
      · exact absurd hl' hb
      · rw [if_pos ((any_nonPositive_iff _).2 hex)]

theorem Slab.step_numSlices (g : PropGeom ℝ) (s : Slab ℝ) (op : ThickOp ℝ) : (s.step g op).1.numSlices = s.numSlices := by
  cases op <;> simp only [Slab.step] <;> (try split) <;> rfl

theorem Slab.step_rejected (g : PropGeom ℝ) (s : Slab ℝ) (op : ThickOp ℝ) (h : (s.step g op).2 = true) :
    (s.step g op).1 = s := by
  cases op <;> simp only [Slab.step] at h ⊢ <;> (try split at h) <;> simp_all

theorem Slab.step_rejected_iff (g : PropGeom ℝ) (s : Slab ℝ) (op : ThickOp ℝ) :
    (s.step g op).2 = op.rejected s.numSlices := by
  cases op <;> simp only [Slab.step, ThickOp.rejected] <;> (try split) <;> simp_all [Except.toBool]

theorem Slab.step_thick (g : PropGeom ℝ) (s : Slab ℝ) (op : ThickOp ℝ) :
    (s.step g op).1.thick = ((op.value s.numSlices).getD s.thick) := by
  cases op <;> simp only [Slab.step, ThickOp.value] <;> (try split) <;> simp_all [Except.toOption]

theorem Slab.step_valid (g : PropGeom ℝ) (s : Slab ℝ) (h : ValidThick s.numSlices s.thick) (op : ThickOp ℝ) :
    ValidThick (s.step g op).1.numSlices (s.step g op).1.thick := by
  rw [Slab.step_numSlices]
  cases op with
  | assignPtycho a =>
    simp only [Slab.step]
    split
    · exact h
    · next th hth => exact thickValue_ok_valid hth
  | assignObj a =>
    simp only [Slab.step]
    split
    · exact h
    · next th hth => exact thickValue_ok_valid hth
  | rebuild => exact h

theorem Slab.run_numSlices (g : PropGeom ℝ) (s : Slab ℝ) (ops : List (ThickOp ℝ)) : (s.run g ops).numSlices = s.numSlices := by
  unfold Slab.run
  induction ops generalizing s with
  | nil => rfl
  | cons op ops ih => simp only [List.foldl_cons]; rw [ih, Slab.step_numSlices]

theorem Slab.run_valid (g : PropGeom ℝ) (s : Slab ℝ) (h : ValidThick s.numSlices s.thick) (ops : List (ThickOp ℝ)) :
    ValidThick (s.run g ops).numSlices (s.run g ops).thick := by
  unfold Slab.run
  induction ops generalizing s with
  | nil => exact h
  | cons op ops ih => exact ih _ (s.step_valid g h op)

theorem Slab.run_append (g : PropGeom ℝ) (s : Slab ℝ) (a b : List (ThickOp ℝ)) : s.run g (a ++ b) = (s.run g a).run g b := by
  unfold Slab.run; rw [List.foldl_append]

theorem Slab.run_thick_aux (g : PropGeom ℝ) (s : Slab ℝ) (ops : List (ThickOp ℝ)) (acc : Option (List ℝ))
    (init : List ℝ) (hinit : s.thick = acc.getD init) :
    (s.run g ops).thick
      = (ops.foldl (fun acc op => (op.value s.numSlices).or acc) acc).getD init := by
  unfold Slab.run
  induction ops generalizing s acc with
  | nil => exact hinit
  | cons op ops ih =>
    simp only [List.foldl_cons]
    have hn := Slab.step_numSlices g s op
    have := ih (s.step g op).1 ((op.value s.numSlices).or acc) (by
      rw [Slab.step_thick]
      cases hv : op.value s.numSlices with
      | none => simpa using hinit
      | some v => simp)
    rw [hn] at this
    exact this

/-- thicknesses after ANY history = the value of the last accepted assignment (the initial ones when no
assignment was accepted): rejected calls leave no trace -/
theorem Slab.run_thick (g : PropGeom ℝ) (s : Slab ℝ) (ops : List (ThickOp ℝ)) :
    (s.run g ops).thick = (lastAccepted s.numSlices ops).getD s.thick :=
  by unfold lastAccepted; exact Slab.run_thick_aux g s ops none s.thick rfl

/-- a history and the same history with every rejected call removed end in the same state -/
theorem Slab.run_filter_rejected (g : PropGeom ℝ) (s : Slab ℝ) (ops : List (ThickOp ℝ)) :
    s.run g ops = s.run g (ops.filter fun op => !op.rejected s.numSlices) := by
  unfold Slab.run
  induction ops generalizing s with
  | nil => rfl
  | cons op ops ih =>
    simp only [List.foldl_cons, List.filter_cons]
    by_cases hr : op.rejected s.numSlices = true
    · have hs : (s.step g op).1 = s := s.step_rejected g op (by rw [Slab.step_rejected_iff]; exact hr)
      simp only [hr, Bool.not_true, Bool.false_eq_true, if_false]
      rw [hs]; exact ih s
    · simp only [Bool.not_eq_true] at hr
      simp only [hr, Bool.not_false, if_true, List.foldl_cons]
      have := ih (s.step g op).1
      rw [Slab.step_numSlices] at this
      exact this

end QuantemModel.ForwardState
