import QuantemModel.Lemmas.Config
/-! frame property of `update`: keys not mentioned in `new` (in either spelling) keep their value -/
namespace QuantemModel.Config

theorem canonicalName_mem (k : Key) (d : Dict) : canonicalName k d = k ∨ canonicalName k d = altKey k := by
  rcases canonicalName_cases k d with h | ⟨h, _, _⟩
  · exact Or.inl h
  · exact Or.inr h

theorem updateLeaf_frame (prio : Priority) (old old' : Dict) (defs : Option Tree) (k dk k' : Key) (v : Tree)
    (hne : k' ≠ k) (h : updateLeaf prio old defs k dk v = .ok old') : dget old' k' = dget old k' := by
  unfold updateLeaf at h
  split at h
  · simp at h; subst h; exact dget_dset_other _ _ _ _ hne
  · split at h
    · simp at h; subst h; exact dget_dset_other _ _ _ _ hne
    · split at h
      · simp only [bind, Except.bind] at h
        split at h
        · simp at h
        · split at h
          · simp at h; subst h; exact dget_dset_other _ _ _ _ hne
          · simp at h; subst h; rfl
      · simp at h; subst h; rfl

theorem update_frame (env : Env) (prio : Priority) (k' : Key) :
    ∀ (new : List (Key × Tree)) (nested : Bool) (old : Dict) (defs : Option Tree),
      (∀ kv ∈ new, kv.1 ≠ k' ∧ altKey kv.1 ≠ k') →
      dget (updateP env prio nested old defs new).1 k' = dget old k' := by
  intro new
  induction new with
  | nil => intro nested old defs _; simp [updateP]
  | cons kv rest ih =>
    intro nested old defs h
    obtain ⟨k0, v⟩ := kv
    have hk0 := h (k0, v) (by simp)
    have hrest : ∀ kv ∈ rest, kv.1 ≠ k' ∧ altKey kv.1 ≠ k' := fun kv hkv => h kv (by simp [hkv])
    have hne : k' ≠ canonicalName k0 old := by
      rcases canonicalName_mem k0 old with e | e <;> rw [e]
      · exact Ne.symm hk0.1
      · exact Ne.symm hk0.2
    cases v with
    | node sub =>
      rw [updateP]
      split
      · rfl
      · have tail : ∀ (old1 : Dict) (cur : Dict) (dk : Key), dget old1 k' = dget old k' →
            dget (match defaultsGet defs dk with
              | Except.error e => (old1, some e)
              | Except.ok sd =>
                match (updateP env prio true cur sd sub).snd with
                | some e => (dset old1 (canonicalName k0 old) (Tree.node (updateP env prio true cur sd sub).fst), some e)
                | none => updateP env prio nested (dset old1 (canonicalName k0 old) (Tree.node (updateP env prio true cur sd sub).fst)) defs rest).fst k'
              = dget old k' := by
          intro old1 cur dk hp1
          split
          · exact hp1
          · split
            · simp [dget_dset_other _ _ _ _ hne, hp1]
            · rw [ih _ _ _ hrest]; simp [dget_dset_other _ _ _ _ hne, hp1]
        simp only []
        rcases hg : dget old (canonicalName k0 old) with _ | t
        · simp only []
          exact tail _ _ _ (by simp [dget_dset_other _ _ _ _ hne])
        · cases t with
          | leaf a => simp only []; exact tail _ _ _ (by simp [dget_dset_other _ _ _ _ hne])
          | node cur => simp only []; exact tail _ _ _ rfl
    | leaf a =>
      rw [updateP]
      split
      · rfl
      · simp only []
        split
        · rfl
        · rename_i old' hl
          rw [ih _ _ _ hrest]
          exact updateLeaf_frame _ _ _ _ _ _ _ _ hne hl

theorem normaliseTop_keys (env : Env) : ∀ (new new' : List (Key × Tree)), normaliseTop env new = .ok new' →
    new'.map (·.1) = new.map (·.1) := by
  intro new
  induction new with
  | nil => intro new' h; simp [normaliseTop] at h; subst h; rfl
  | cons kv rest ih =>
    intro new' h
    obtain ⟨k, v⟩ := kv
    simp only [normaliseTop, bind, Except.bind] at h
    split at h
    · simp at h
    · split at h
      · simp at h
      · rename_i v' _ _ rest' hr
        simp at h; subst h
        simp [ih _ hr]

end QuantemModel.Config
