import QuantemModel.Model.DirectKernel
import QuantemModel.Lemmas.DirectPtychoReal
import Mathlib.Tactic.Ring
import Mathlib.Tactic.FieldSimp
import Mathlib.Tactic.Linarith
/-!
C04 lemmas about `Generated/DirectKernel.lean` (the kernel formulas as translated from the current source) at the
real-number instance.  The proofs unfold the generated definitions with `simp only [...]` (SSA `let`s are
zeta-reduced) and close with `ring` / `simp`, so that renamed locals, new temporaries and reordered independent
statements in the source do not break them, while a changed formula does.
-/
namespace QuantemModel.DirectPtycho
open QuantemModel
open QuantemModel.Generated.DirectKernel

/-! ## more complex-pair simp lemmas over ℝ -/

@[simp] theorem cx_sub_re (p q : Cx ℝ) : (p - q).re = p.re - q.re := rfl
@[simp] theorem cx_sub_im (p q : Cx ℝ) : (p - q).im = p.im - q.im := rfl
@[simp] theorem cx_conj_re (p : Cx ℝ) : (Cx.conj p).re = p.re := rfl
@[simp] theorem cx_conj_im (p : Cx ℝ) : (Cx.conj p).im = -p.im := rfl
@[simp] theorem cx_one_re : (Cx.one : Cx ℝ).re = 1 := by simp [Cx.one]
@[simp] theorem cx_one_im : (Cx.one : Cx ℝ).im = 0 := by simp [Cx.one]
@[simp] theorem cx_cis_re (t : ℝ) : (Cx.cis t).re = Real.cos t := rfl
@[simp] theorem cx_cis_im (t : ℝ) : (Cx.cis t).im = Real.sin t := rfl
@[simp] theorem cdivR_re (z : Cx ℝ) (s : ℝ) : (cdivR z s).re = z.re / s := rfl
@[simp] theorem cdivR_im (z : Cx ℝ) (s : ℝ) : (cdivR z s).im = z.im / s := rfl

/-- `torch.exp(-1j * x)` as translated is `cis(-x)` -/
theorem cexp_neg_i (x : ℝ) : cexp (⟨Num.zero, (Num.ofRat (-1)) * x⟩ : Cx ℝ) = Cx.cis (-x) := by
  apply cx_ext <;> simp [cexp]

theorem cx_abs_smul_cis (a t : ℝ) : Cx.abs (Cx.smul a (Cx.cis t)) = |a| := by
  simp only [Cx.abs, Cx.abs2, cx_smul_re, cx_smul_im, cx_cis_re, cx_cis_im, NumReal.sqrt_eq, NumReal.mul_eq, NumReal.add_eq]
  have : a * Real.cos t * (a * Real.cos t) + a * Real.sin t * (a * Real.sin t) = a ^ 2 := by
    have h := Real.cos_sq_add_sin_sq t
    calc a * Real.cos t * (a * Real.cos t) + a * Real.sin t * (a * Real.sin t)
        = a ^ 2 * (Real.cos t ^ 2 + Real.sin t ^ 2) := by ring
      _ = a ^ 2 := by rw [h]; ring
  rw [this, Real.sqrt_sq_eq_abs]

/-! ## probe and gamma factor: the translated bodies are their closed forms -/

/-- `evaluate_probe = aperture · exp(-i χ)` -/
theorem evaluate_probe_eq (α φ sa as0 as1 lam : ℝ) (soft : Bool) (coefs : List (String × ℝ)) :
    evaluate_probe α φ sa as0 as1 lam soft coefs =
      Cx.smul (aperture α φ sa as0 as1 soft) (Cx.cis (-(aberration_surface α φ lam coefs))) := by
  simp only [evaluate_probe, cexp_neg_i]

/-- `gamma_factor(asymmetric_version=True, normalize=False) = ψ(q−k) ψ̄(k) − ψ̄(q+k) ψ(k)` with the two probes evaluated
at the polar coordinates of `q ∓ k` -/
theorem gamma_factor_eq (qm0 qm1 qp0 qp1 : ℝ) (pk : Cx ℝ) (lam sa : ℝ) (soft : Bool) (coefs : List (String × ℝ))
    (as0 as1 : ℝ) :
    gamma_factor qm0 qm1 qp0 qp1 pk lam sa soft coefs as0 as1 true false =
      evaluate_probe ((polar_coordinates qm0 qm1).1 * lam) (polar_coordinates qm0 qm1).2 sa as0 as1 lam soft coefs *
          Cx.conj pk -
        Cx.conj (evaluate_probe ((polar_coordinates qp0 qp1).1 * lam) (polar_coordinates qp0 qp1).2 sa as0 as1 lam soft coefs) *
          pk := by
  simp [gamma_factor]

/-- the gamma factor at `(q, k)` for the hyper-parameters `g` -/
noncomputable def gammaAt (g : KGeom ℝ) (kx ky qx qy : ℝ) (pk : Cx ℝ) : Cx ℝ :=
  gamma_factor (qx - kx) (qy - ky) (qx + kx) (qy + ky) pk g.wavelength g.semiangle g.soft g.coefs g.as0 g.as1 true false

/-! ## `_return_kernel_contributions`: every kernel is `spectrum × (a factor that does not depend on the spectrum)` -/

theorem ssb_factor_eq (g : KGeom ℝ) (v : Cx ℝ) (kx ky qx qy : ℝ) (pk : Cx ℝ) (gx gy sg : ℝ) (dc : Bool) :
    pointFactor .ssb v kx ky qx qy pk gx gy sg dc g =
      cdivR (((⟨0, -1⟩ : Cx ℝ) * v) * Cx.conj (gammaAt g kx ky qx qy pk))
        (max (Cx.abs (gammaAt g kx ky qx qy pk)) (1 / 100000000)) := by
  simp only [pointFactor, kernel_ssb_factor, gammaAt, NumReal.max_eq, NumReal.ofRat_eq]
  norm_num

theorem obf_factor_eq (g : KGeom ℝ) (v : Cx ℝ) (kx ky qx qy : ℝ) (pk : Cx ℝ) (gx gy sg : ℝ) (dc : Bool) :
    pointFactor .obf v kx ky qx qy pk gx gy sg dc g = ((⟨0, -1⟩ : Cx ℝ) * v) * Cx.conj (gammaAt g kx ky qx qy pk) := by
  simp only [pointFactor, kernel_obf_factor, gammaAt, NumReal.ofRat_eq]
  norm_num

theorem mf_factor_eq (g : KGeom ℝ) (v : Cx ℝ) (kx ky qx qy : ℝ) (pk : Cx ℝ) (gx gy sg : ℝ) (dc : Bool) :
    pointFactor .mf v kx ky qx qy pk gx gy sg dc g = ((⟨0, -1⟩ : Cx ℝ) * v) * Cx.conj (gammaAt g kx ky qx qy pk) := by
  simp only [pointFactor, kernel_mf_factor, gammaAt, NumReal.ofRat_eq]
  norm_num

theorem prlx_factor_eq (g : KGeom ℝ) (v : Cx ℝ) (kx ky qx qy : ℝ) (pk : Cx ℝ) (gx gy sg : ℝ) (dc : Bool) :
    pointFactor .prlx v kx ky qx qy pk gx gy sg dc g = v * Cx.smul sg (Cx.cis (-(gx * qx + gy * qy))) := by
  simp only [pointFactor, kernel_prlx_factor, cexp_neg_i, NumReal.mul_eq, NumReal.add_eq]

theorem icom_factor_eq (g : KGeom ℝ) (v : Cx ℝ) (kx ky qx qy : ℝ) (pk : Cx ℝ) (gx gy sg : ℝ) (dc : Bool) :
    pointFactor .icom v kx ky qx qy pk gx gy sg dc g =
      v * (if dc then Cx.zero else
        (⟨0, kx * (-qx / (qx * qx + qy * qy)) + ky * (-qy / (qx * qx + qy * qy))⟩ : Cx ℝ)) := by
  simp only [pointFactor, kernel_icom_factor]
  congr 1
  cases dc
  · apply cx_ext <;> simp
  · apply cx_ext <;> simp

/-- **every kernel is linear in the spectrum, with a factor that is the kernel on a unit spectrum** -/
theorem pointFactor_linear (k : Kernel) (g : KGeom ℝ) (v : Cx ℝ) (kx ky qx qy : ℝ) (pk : Cx ℝ) (gx gy sg : ℝ) (dc : Bool) :
    pointFactor k v kx ky qx qy pk gx gy sg dc g = v * pointFactor k Cx.one kx ky qx qy pk gx gy sg dc g := by
  cases k
  · rw [ssb_factor_eq, ssb_factor_eq]; apply cx_ext <;> simp <;> ring
  · rw [obf_factor_eq, obf_factor_eq]; apply cx_ext <;> simp <;> ring
  · rw [mf_factor_eq, mf_factor_eq]; apply cx_ext <;> simp <;> ring
  · rw [prlx_factor_eq, prlx_factor_eq]; apply cx_ext <;> simp
  · rw [icom_factor_eq, icom_factor_eq]; cases dc <;> apply cx_ext <;> simp

/-- the power term is `|γ|²`, whatever spectrum / gradient / sign / DC flag the call carries -/
theorem pointPower_eq (g : KGeom ℝ) (kx ky qx qy : ℝ) (pk : Cx ℝ) :
    pointPower .obf kx ky qx qy pk g = Cx.abs (gammaAt g kx ky qx qy pk) * Cx.abs (gammaAt g kx ky qx qy pk) ∧
    pointPower .mf kx ky qx qy pk g = Cx.abs (gammaAt g kx ky qx qy pk) * Cx.abs (gammaAt g kx ky qx qy pk) := by
  constructor <;> simp only [pointPower, kernel_obf_power_term, kernel_mf_power_term, gammaAt, NumReal.mul_eq]

theorem cx_abs_nonneg (z : Cx ℝ) : 0 ≤ Cx.abs z := by
  simp only [Cx.abs, NumReal.sqrt_eq]; exact Real.sqrt_nonneg _

/-! ## normalisation of the two-pass kernels -/

theorem norm_obf_pos (p mx W eps : ℝ) : (1 / 100000000 : ℝ) ≤ reconstruct_norm_obf p mx W eps := by
  simp only [reconstruct_norm_obf, NumReal.max_eq, NumReal.ofRat_eq]
  norm_num

theorem norm_mf_pos (p mx W eps : ℝ) : (1 / 100000000 : ℝ) ≤ reconstruct_norm_mf p mx W eps := by
  simp only [reconstruct_norm_mf, NumReal.max_eq, NumReal.ofRat_eq]
  norm_num

/-- the hand-written `normOf` of the skeleton is the translated normalisation code, over any carrier -/
theorem normOf_eq_generated {R : Type} [Num R] (k : Kernel) (pb : Problem R) (power : Img R) :
    normOf k pb power = normOfGenerated k pb.W pb.eps power := by
  cases k <;>
    simp [normOf, normOfGenerated, reconstruct_norm_obf, reconstruct_norm_mf, reconstruct_power_normalised, clampEps,
      List.map_map, Function.comp_def]

/-! ## Butterworth envelope -/

theorem ltb_zero_zero : Num.ltb (0 : ℝ) 0 = false := by
  rw [Bool.eq_false_iff]; intro h; exact lt_irrefl _ ((NumReal.ltb_eq 0 0).mp h)

theorem optTruthy_none : optTruthy (none : Option ℝ) = false := rfl
theorem optTruthy_zero : optTruthy (some (0 : ℝ)) = false := by simp [optTruthy, ltb_zero_zero]

/-- no filter requested (`None` or `0`, both falsy in Python): the envelope is identically one -/
theorem butterworth_env_none (qx qy : ℝ) (ql qh : Option ℝ) (n : Nat)
    (hl : ql = none ∨ ql = some 0) (hh : qh = none ∨ qh = some 0) :
    reconstruct_butterworth_env qx qy ql qh n = 1 := by
  have h1 : optTruthy ql = false := by rcases hl with h | h <;> simp [h, optTruthy, ltb_zero_zero]
  have h2 : optTruthy qh = false := by rcases hh with h | h <;> simp [h, optTruthy, ltb_zero_zero]
  simp [reconstruct_butterworth_env, h1, h2]

/-! ## aperture weight -/

theorem hard_aperture_01 (α sa : ℝ) : hard_aperture α sa = 0 ∨ hard_aperture α sa = 1 := by
  simp only [hard_aperture]
  split <;> simp

theorem soft_aperture_01 (α φ sa a0 a1 : ℝ) : 0 ≤ soft_aperture α φ sa a0 a1 ∧ soft_aperture α φ sa a0 a1 ≤ 1 := by
  simp only [soft_aperture, Num.clip, NumReal.min_eq, NumReal.max_eq, NumReal.ofRat_eq]
  constructor
  · apply le_min
    · exact le_max_of_le_right (by norm_num)
    · norm_num
  · exact min_le_of_right_le (by norm_num)

theorem aperture_01 (α φ sa a0 a1 : ℝ) (soft : Bool) : 0 ≤ aperture α φ sa a0 a1 soft ∧ aperture α φ sa a0 a1 soft ≤ 1 := by
  simp only [aperture]
  cases soft
  · rcases hard_aperture_01 α sa with h | h <;> simp [h]
  · simpa using soft_aperture_01 α φ sa a0 a1

/-- the aperture of detector pixel `(i, j)` -/
noncomputable def apertureAt (g : KGeom ℝ) (ij : Nat × Nat) : ℝ :=
  let k := kPoint g ij.1 ij.2
  aperture ((polar_coordinates k.1 k.2).1 * g.wavelength) (polar_coordinates k.1 k.2).2 g.semiangle g.as0 g.as1 g.soft

/-- the per-pixel term of `BF_weights` is the squared aperture: it does not depend on the aberrations -/
theorem weightTerm_eq (g : KGeom ℝ) (ij : Nat × Nat) : weightTerm g ij = apertureAt g ij ^ 2 := by
  simp only [weightTerm, reconstruct_bf_weight_term, evaluate_probe_eq, cx_abs_smul_cis, apertureAt, NumReal.mul_eq]
  rw [abs_mul_abs_self]; ring

/-! ## the parallax gradient: the translated `aberration_surface_cartesian_gradients` with defocus / astigmatism only
is `2π ×` the geometric shift of the closed form (`prlxShift`) -/

theorem trig_dx (φ p : ℝ) :
    Real.cos φ * Real.cos (2 * (φ - p)) + Real.sin φ * Real.sin (2 * (φ - p)) =
      Real.cos φ * Real.cos (2 * p) + Real.sin φ * Real.sin (2 * p) := by
  have h1 := Real.cos_sub (2 * (φ - p)) φ
  have h2 := Real.cos_sub φ (2 * p)
  have e : 2 * (φ - p) - φ = φ - 2 * p := by ring
  rw [e] at h1
  linarith

theorem trig_dy (φ p : ℝ) :
    Real.sin φ * Real.cos (2 * (φ - p)) - Real.cos φ * Real.sin (2 * (φ - p)) =
      Real.cos φ * Real.sin (2 * p) - Real.sin φ * Real.cos (2 * p) := by
  have h1 := Real.sin_sub φ (2 * (φ - p))
  have h2 := Real.sin_sub (2 * p) φ
  have e : φ - 2 * (φ - p) = 2 * p - φ := by ring
  rw [e] at h1
  linarith

/-- the dict holds (at most) first-order coefficients: the guards of the higher orders are not entered -/
def LowOrder (coefs : List (String × ℝ)) : Prop :=
  hasAny coefs ["C21", "phi21", "C23", "phi23"] = false ∧
  hasAny coefs ["C30", "C32", "phi32", "C34", "phi34"] = false ∧
  hasAny coefs ["C41", "phi41", "C43", "phi43", "C45", "phi45"] = false ∧
  hasAny coefs ["C50", "C52", "phi52", "C54", "phi54", "C56", "phi56"] = false

theorem cartesian_gradients_low_order (α φ : ℝ) (coefs : List (String × ℝ)) (h : LowOrder coefs)
    (h1 : hasAny coefs ["C10", "C12", "phi12"] = true) :
    aberration_surface_cartesian_gradients α φ coefs =
      (2 * Real.pi * (dget coefs "C10" 0 * (α * Real.cos φ) + dget coefs "C12" 0 *
          (α * Real.cos φ * Real.cos (2 * dget coefs "phi12" 0) + α * Real.sin φ * Real.sin (2 * dget coefs "phi12" 0))),
       2 * Real.pi * (dget coefs "C10" 0 * (α * Real.sin φ) + dget coefs "C12" 0 *
          (α * Real.cos φ * Real.sin (2 * dget coefs "phi12" 0) - α * Real.sin φ * Real.cos (2 * dget coefs "phi12" 0)))) := by
  obtain ⟨h2, h3, h4, h5⟩ := h
  simp only [aberration_surface_cartesian_gradients, aberration_surface_polar_gradients, h1, h2, h3, h4, h5, if_true,
    Bool.false_eq_true, if_false, NumReal.ofRat_eq, NumReal.zero_eq, NumReal.mul_eq, NumReal.add_eq, NumReal.sub_eq,
    NumReal.cos_eq, NumReal.sin_eq, NumReal.pi_eq]
  have t1 := trig_dx φ (dget coefs "phi12" 0)
  have t2 := trig_dy φ (dget coefs "phi12" 0)
  ext
  · simp only; push_cast
    linear_combination (2 * Real.pi * α * dget coefs "C12" 0) * t1
  · simp only; push_cast
    linear_combination (2 * Real.pi * α * dget coefs "C12" 0) * t2

/-- no coefficient at all in the dict: no gradient -/
theorem cartesian_gradients_none (α φ : ℝ) (coefs : List (String × ℝ)) (h : LowOrder coefs)
    (h1 : hasAny coefs ["C10", "C12", "phi12"] = false) :
    aberration_surface_cartesian_gradients α φ coefs = (0, 0) := by
  obtain ⟨h2, h3, h4, h5⟩ := h
  simp [aberration_surface_cartesian_gradients, aberration_surface_polar_gradients, h1, h2, h3, h4, h5]

/-- `|k| cos(arg k) = k_x`, `|k| sin(arg k) = k_y` for the translated `polar_coordinates` -/
theorem polar_cos (x y : ℝ) : (polar_coordinates x y).1 * Real.cos (polar_coordinates x y).2 = x := by
  simp only [polar_coordinates, Num.atan2, NumReal.sqrt_eq, NumReal.mul_eq, NumReal.add_eq]
  have h := Complex.norm_mul_cos_arg ⟨x, y⟩
  rw [Complex.norm_eq_sqrt_sq_add_sq] at h
  simpa [sq] using h

theorem polar_sin (x y : ℝ) : (polar_coordinates x y).1 * Real.sin (polar_coordinates x y).2 = y := by
  simp only [polar_coordinates, Num.atan2, NumReal.sqrt_eq, NumReal.mul_eq, NumReal.add_eq]
  have h := Complex.norm_mul_sin_arg ⟨x, y⟩
  rw [Complex.norm_eq_sqrt_sq_add_sq] at h
  simpa [sq] using h

/-- `grad_k` of `reconstruct` at the detector frequency `(kx, ky)` (already rotated), first-order coefficients only -/
theorem grad_k_low_order (kx ky lam sa a0 a1 : ℝ) (soft : Bool) (coefs : List (String × ℝ)) (h : LowOrder coefs)
    (h1 : hasAny coefs ["C10", "C12", "phi12"] = true) :
    reconstruct_grad_k kx ky lam sa soft a0 a1 coefs =
      (2 * Real.pi * (dget coefs "C10" 0 * (lam * kx) + dget coefs "C12" 0 *
          (lam * kx * Real.cos (2 * dget coefs "phi12" 0) + lam * ky * Real.sin (2 * dget coefs "phi12" 0))),
       2 * Real.pi * (dget coefs "C10" 0 * (lam * ky) + dget coefs "C12" 0 *
          (lam * kx * Real.sin (2 * dget coefs "phi12" 0) - lam * ky * Real.cos (2 * dget coefs "phi12" 0)))) := by
  simp only [reconstruct_grad_k, NumReal.mul_eq]
  rw [cartesian_gradients_low_order _ _ _ h h1]
  have hc := polar_cos kx ky
  have hs := polar_sin kx ky
  have ec : (polar_coordinates kx ky).1 * lam * Real.cos (polar_coordinates kx ky).2 = lam * kx := by
    linear_combination lam * hc
  have es : (polar_coordinates kx ky).1 * lam * Real.sin (polar_coordinates kx ky).2 = lam * ky := by
    linear_combination lam * hs
  rw [ec, es]

theorem grad_k_none (kx ky lam sa a0 a1 : ℝ) (soft : Bool) (coefs : List (String × ℝ)) (h : LowOrder coefs)
    (h1 : hasAny coefs ["C10", "C12", "phi12"] = false) :
    reconstruct_grad_k kx ky lam sa soft a0 a1 coefs = (0, 0) := by
  simp only [reconstruct_grad_k]
  rw [cartesian_gradients_none _ _ _ h h1]

/-- the passive rotation as translated: `(kx cos r − ky sin r, kx sin r + ky cos r)` -/
theorem passively_rotate_grid_eq (kx ky r : ℝ) :
    passively_rotate_grid kx ky r = (kx * Real.cos r - ky * Real.sin r, kx * Real.sin r + ky * Real.cos r) := by
  simp only [passively_rotate_grid, NumReal.neg_eq, NumReal.cos_eq, NumReal.sin_eq, NumReal.mul_eq, NumReal.add_eq,
    Real.cos_neg, Real.sin_neg]
  ext <;> simp <;> ring

/-- the `PrlxGeom` of the independent closed form that belongs to the hyper-parameters `g` -/
noncomputable def prlxGeomOf (g : KGeom ℝ) : PrlxGeom ℝ :=
  { wavelength := g.wavelength, rsx := g.rs0, rsy := g.rs1, detRows := g.detRows, detCols := g.detCols,
    rotation := g.rotation, c10 := dget g.coefs "C10" 0, c12 := dget g.coefs "C12" 0, phi12 := dget g.coefs "phi12" 0,
    scanRows := g.scanRows, scanCols := g.scanCols, sx := g.sx, sy := g.sy, u := g.u }

/-- `fftfreq(n, self.sampling)[i] = signed(i) · reciprocal_sampling` -/
theorem kPoint_eq (g : KGeom ℝ) (i j : Nat) (h0 : g.detRows ≠ 0) (h1 : g.detCols ≠ 0) (r0 : g.rs0 ≠ 0) (r1 : g.rs1 ≠ 0) :
    kPoint g i j =
      ((fftfreqInt g.detRows i : ℝ) * g.rs0 * Real.cos g.rotation - (fftfreqInt g.detCols j : ℝ) * g.rs1 * Real.sin g.rotation,
       (fftfreqInt g.detRows i : ℝ) * g.rs0 * Real.sin g.rotation + (fftfreqInt g.detCols j : ℝ) * g.rs1 * Real.cos g.rotation) := by
  have hr : (g.detRows : ℝ) ≠ 0 := by exact_mod_cast h0
  have hc : (g.detCols : ℝ) ≠ 0 := by exact_mod_cast h1
  simp only [kPoint, passively_rotate_grid_eq, KGeom.samp0, KGeom.samp1, NumReal.ofRat_eq, NumReal.div_eq, NumReal.one_eq,
    NumReal.ofNat_eq]
  ext <;> simp <;> field_simp

/-- **the gradient `reconstruct` hands to the parallax kernel is `2π ×` the geometric shift of the closed form**, for every
detector pixel, rotation and first-order coefficient set -/
theorem gradAt_eq_prlxShift (g : KGeom ℝ) (ij : Nat × Nat) (h0 : g.detRows ≠ 0) (h1 : g.detCols ≠ 0) (r0 : g.rs0 ≠ 0)
    (r1 : g.rs1 ≠ 0) (h : LowOrder g.coefs) (hh : hasAny g.coefs ["C10", "C12", "phi12"] = true) :
    gradAt g ij = (2 * Real.pi * (prlxShift (prlxGeomOf g) ij.1 ij.2).1, 2 * Real.pi * (prlxShift (prlxGeomOf g) ij.1 ij.2).2) := by
  simp only [gradAt]
  rw [grad_k_low_order _ _ _ _ _ _ _ _ h hh, kPoint_eq g ij.1 ij.2 h0 h1 r0 r1]
  simp only [prlxShift, prlxGeomOf, NumReal.ofInt_eq, NumReal.mul_eq, NumReal.add_eq, NumReal.sub_eq, NumReal.cos_eq,
    NumReal.sin_eq, NumReal.two_eq]

theorem gradAt_none (g : KGeom ℝ) (ij : Nat × Nat) (h : LowOrder g.coefs)
    (hh : hasAny g.coefs ["C10", "C12", "phi12"] = false) : gradAt g ij = (0, 0) := by
  simp only [gradAt]
  rw [grad_k_none _ _ _ _ _ _ _ _ h hh]

/-! ## list level: the factor images `reconstruct` streams, for the parallax kernel -/

theorem cx_one_mul (z : Cx ℝ) : Cx.one * z = z := by apply cx_ext <;> simp

theorem length_qGrid (N M : Nat) (dx dy : ℝ) : (qGrid N M dx dy).1.length = N * M ∧ (qGrid N M dx dy).2.length = N * M := by
  simp [qGrid]

/-- `parallax_flip_phase=False`: `sign_sin_chi_q` is identically one -/
theorem signImg_noflip (g : KGeom ℝ) (h : g.flip = false) : signImg g = ones ((g.u * g.scanRows) * (g.u * g.scanCols)) := by
  apply List.ext_getElem
  · simp [signImg, qImgs, ones, qGrid]
  · intro i h1 h2
    simp [signImg, ones, reconstruct_sign_sin_chi_q, h]

/-- no filter requested: the envelope image is identically one -/
theorem envImg_nofilter (g : KGeom ℝ) (hl : g.qLow = none ∨ g.qLow = some 0) (hh : g.qHigh = none ∨ g.qHigh = some 0) :
    envImg g = ones ((g.u * g.scanRows) * (g.u * g.scanCols)) := by
  apply List.ext_getElem
  · simp [envImg, qImgs, ones, qGrid]
  · intro i h1 h2
    simp [envImg, ones, butterworth_env_none _ _ _ _ _ hl hh]

/-- the parallax factor image built from the translated kernel code is the hand-written `prlxOperator` -/
theorem kernelFactor_prlx (g : KGeom ℝ) (sign : Img ℝ) (ij : Nat × Nat) :
    kernelFactor g .prlx sign ij = prlxOperator (gradAt g ij).1 (gradAt g ij).2 (qImgs g).1 (qImgs g).2 sign := by
  apply List.ext_getElem
  · simp [kernelFactor, prlxOperator]
  · intro i h1 h2
    simp only [kernelFactor, prlxOperator, List.getElem_mapIdx, List.getElem_zipWith, List.getElem_zip, prlx_factor_eq,
      cx_one_mul]

/-- the integrated-centre-of-mass factor image likewise is the hand-written `icomOperator` -/
theorem kernelFactor_icom (g : KGeom ℝ) (sign : Img ℝ) (ij : Nat × Nat)
    (hs : sign.length = ((qImgs g).1.zip (qImgs g).2).length) :
    kernelFactor g .icom sign ij = icomOperator (kPoint g ij.1 ij.2).1 (kPoint g ij.1 ij.2).2 (qImgs g).1 (qImgs g).2 := by
  apply List.ext_getElem
  · simp [kernelFactor, icomOperator, hs]
  · intro i h1 h2
    simp only [kernelFactor, icomOperator, List.getElem_mapIdx, List.getElem_zipWith, List.getElem_zip, icom_factor_eq,
      cx_one_mul]
    by_cases hi : i = 0
    · simp [hi]
    · simp only [hi, beq_iff_eq, if_false, NumReal.zero_eq, NumReal.mul_eq, NumReal.add_eq, NumReal.div_eq, NumReal.neg_eq]

end QuantemModel.DirectPtycho
