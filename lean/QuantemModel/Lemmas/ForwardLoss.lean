import QuantemModel.Lemmas.ForwardSpec
import QuantemModel.Props.C16
/-!
Helper lemmas for Props/C02.lean, part 3: preprocessing of the measured intensities
(`shift_array` = the C16 Fourier shift; `no_shift` centring is the identity for every size),
non-negativity of predicted intensities, the losses (zero at equal arguments, residual of the
amplitude losses, non-negativity, zero iff masked predictions equal the targets), normalisation.
-/
namespace QuantemModel.Forward
open QuantemModel QuantemModel.PtychoOps Finset

variable {nr nc : ℕ}

/-! ### `shift_array` is the Fourier shift of C16 -/
theorem shiftArray_eq_fourierShiftReal (hr : 0 < nr) {x : RImg ℝ} (hx : Rect nr nc x) (rs cs : ℝ) :
    shiftArray x rs cs = fourierShiftReal x rs cs := by
  obtain ⟨g, rfl⟩ := hx.exists_build
  unfold shiftArray fourierShiftReal fourierShift
  simp only [build_map, nrows_build, ncols_build hr]
  rw [translationOperator_eq]
  congr 3
  show build nr nc _ = _
  apply build_congr
  intro k _ l _
  unfold rampC qAxis
  rw [← cis_add]
  congr 1
  simp only [NumReal.mul_eq, NumReal.add_eq, NumReal.neg_eq, NumReal.two_eq, NumReal.pi_eq, NumReal.ofRat_eq]
  push_cast
  ring

/-! ### clamps -/
theorem max0_eq (x : ℝ) : max0 x = max x 0 := by
  unfold max0; rw [NumReal.max_eq]; simp

theorem max0_idem (x : ℝ) : max0 (max0 x) = max0 x := by
  rw [max0_eq, max0_eq]; exact max_eq_left (le_max_right _ _)

theorem max0_of_nonneg {x : ℝ} (h : 0 ≤ x) : max0 x = x := by
  rw [max0_eq]; exact max_eq_left h

theorem rawAmplitude_max0 (I : RImg ℝ) : (rawAmplitude I).map (·.map max0) = rawAmplitude I := by
  unfold rawAmplitude
  rw [List.map_map]
  apply List.map_congr_left
  intro row _
  simp only [Function.comp, List.map_map]
  apply List.map_congr_left
  intro x _
  exact max0_idem _

theorem rect_map2 {β γ : Type} [Inhabited β] (f : β → γ) {x : List (List β)} (h : Rect nr nc x) :
    Rect nr nc (x.map (·.map f)) := by
  obtain ⟨g, rfl⟩ := h.exists_build
  rw [build_map]; exact rect_build _ _ _

/-- **`no_shift` preprocessing is the identity on the amplitudes, for every detector size** (even, odd,
non-square): shift by `-(shape // 2)` (an integer roll), clamp, `fftshift`. -/
theorem centredAmplitude_noShift (hr : 0 < nr) (hc : 0 < nc) {I : RImg ℝ} (hI : Rect nr nc I) :
    centredAmplitude I (Num.ofNat (nr / 2)) (Num.ofNat (nc / 2)) = rawAmplitude I := by
  have hA : Rect nr nc (rawAmplitude I) := rect_map2 _ hI
  unfold centredAmplitude
  rw [shiftArray_eq_fourierShiftReal hr hA]
  have e1 : (-(Num.ofNat (nr / 2) + Num.zero) : ℝ) = ((-((nr / 2 : ℕ) : ℤ) : ℤ) : ℝ) := by
    simp only [NumReal.ofNat_eq, NumReal.zero_eq, Int.cast_neg, Int.cast_natCast, add_zero]
  have e2 : (-(Num.ofNat (nc / 2) + Num.zero) : ℝ) = ((-((nc / 2 : ℕ) : ℤ) : ℤ) : ℝ) := by
    simp only [NumReal.ofNat_eq, NumReal.zero_eq, Int.cast_neg, Int.cast_natCast, add_zero]
  rw [e1, e2]
  obtain ⟨g, hg⟩ := hA.exists_build
  have hroll : fourierShiftReal (rawAmplitude I) ((-((nr / 2 : ℕ) : ℤ) : ℤ) : ℝ) ((-((nc / 2 : ℕ) : ℤ) : ℤ) : ℝ)
      = ifftshift2 (rawAmplitude I) := by
    have h1 := QuantemModel.Props.C16.shift_int_real hr hc hA (-((nr / 2 : ℕ) : ℤ)) (-((nc / 2 : ℕ) : ℤ))
    rw [h1, hg, roll2_neg_half]
  rw [hroll, ← ifftshift2_map, rawAmplitude_max0, fftshift2_ifftshift2 hA]

/-- for non-negative intensities the centred intensities are the intensities themselves -/
theorem centredIntensity_noShift (hr : 0 < nr) (hc : 0 < nc) {I : RImg ℝ} (hI : Rect nr nc I) (hpos : NonNeg I) :
    centredIntensity I (Num.ofNat (nr / 2)) (Num.ofNat (nc / 2)) = I := by
  unfold centredIntensity
  rw [centredAmplitude_noShift hr hc hI]
  unfold rawAmplitude
  rw [List.map_map]
  conv_rhs => rw [← List.map_id I]
  apply List.map_congr_left
  intro row hrow
  simp only [Function.comp, List.map_map, id]
  conv_rhs => rw [← List.map_id row]
  apply List.map_congr_left
  intro x hx
  have h0 := hpos row hrow x hx
  simp only [Function.comp, id, NumReal.mul_eq, NumReal.sqrt_eq]
  rw [max0_of_nonneg h0, max0_of_nonneg (Real.sqrt_nonneg _)]
  exact Real.mul_self_sqrt h0

/-! ### predicted intensities are non-negative (no shape hypotheses) -/
theorem mem_fftshift' {α : Type} {x : List α} {a : α} (h : a ∈ Dft.fftshift x) : a ∈ x := by
  unfold Dft.fftshift at h
  rcases List.mem_append.1 h with h | h
  · exact List.mem_of_mem_drop h
  · exact List.mem_of_mem_take h

theorem nonNeg_fftshift2 {A : RImg ℝ} (h : NonNeg A) : NonNeg (fftshift2 A) := by
  intro row hrow a ha
  unfold fftshift2 at hrow
  obtain ⟨r0, hr0, rfl⟩ := List.mem_map.1 (mem_fftshift' hrow)
  exact h r0 hr0 a (mem_fftshift' ha)

theorem nonneg_zipWith_add {a b : List ℝ} (ha : ∀ v ∈ a, 0 ≤ v) (hb : ∀ v ∈ b, 0 ≤ v) :
    ∀ v ∈ List.zipWith (· + ·) a b, 0 ≤ v := by
  induction a generalizing b with
  | nil => simp
  | cons x a ih =>
    cases b with
    | nil => simp
    | cons y b =>
      intro v hv
      simp only [List.zipWith_cons_cons, List.mem_cons] at hv
      rcases hv with rfl | hv
      · exact add_nonneg (ha x List.mem_cons_self) (hb y List.mem_cons_self)
      · exact ih (fun v hv => ha v (List.mem_cons_of_mem _ hv)) (fun v hv => hb v (List.mem_cons_of_mem _ hv)) v hv

theorem nonNeg_zipWith2_add {a b : RImg ℝ} (ha : NonNeg a) (hb : NonNeg b) :
    NonNeg (List.zipWith (List.zipWith (· + ·)) a b) := by
  induction a generalizing b with
  | nil => intro row hrow; simp at hrow
  | cons x a ih =>
    cases b with
    | nil => intro row hrow; simp at hrow
    | cons y b =>
      intro row hrow
      simp only [List.zipWith_cons_cons, List.mem_cons] at hrow
      rcases hrow with rfl | hrow
      · exact nonneg_zipWith_add (ha x List.mem_cons_self) (hb y List.mem_cons_self)
      · exact ih (fun r hr => ha r (List.mem_cons_of_mem _ hr)) (fun r hr => hb r (List.mem_cons_of_mem _ hr)) row hrow

theorem nonNeg_sumModes (xs : List (RImg ℝ)) (hxs : ∀ x ∈ xs, NonNeg x) (z : RImg ℝ) (hz : NonNeg z) :
    NonNeg (sumModes z xs) := by
  induction xs generalizing z with
  | nil => exact hz
  | cons x rest ih =>
    unfold sumModes
    simp only [List.foldl_cons]
    exact ih (fun y hy => hxs y (List.mem_cons_of_mem _ hy)) _ (nonNeg_zipWith2_add hz (hxs x List.mem_cons_self))

/-- every predicted intensity is `≥ 0` -/
theorem detector_nonNeg (ws : List (Img ℝ)) : NonNeg (detector ws) := by
  unfold detector intensitiesCorner
  apply nonNeg_fftshift2
  apply nonNeg_sumModes
  · intro x hx
    obtain ⟨w, _, rfl⟩ := List.mem_map.1 hx
    intro row hrow a ha
    obtain ⟨r0, _, rfl⟩ := List.mem_map.1 hrow
    obtain ⟨z, _, rfl⟩ := List.mem_map.1 ha
    simp only [Num.sq, NumReal.mul_eq]
    exact mul_self_nonneg _
  · intro row hrow a ha
    unfold zerosLike at hrow
    obtain ⟨r0, _, rfl⟩ := List.mem_map.1 hrow
    obtain ⟨z, _, rfl⟩ := List.mem_map.1 ha
    simp

/-! ### losses -/
theorem numSum_nil : Num.sum ([] : List ℝ) = 0 := by rw [numSum_eq]; rfl
theorem numSum_cons (a : ℝ) (l : List ℝ) : Num.sum (a :: l) = a + Num.sum l := by
  rw [numSum_eq, numSum_eq, List.sum_cons]

theorem numSum_zipWith_eq_zero {α β : Type} (f : α → β → ℝ) (hf : ∀ a b, f a b = 0) (l1 : List α) (l2 : List β) :
    Num.sum (List.zipWith f l1 l2) = 0 := by
  induction l1 generalizing l2 with
  | nil => simp [numSum_nil]
  | cons a l1 ih =>
    cases l2 with
    | nil => simp [numSum_nil]
    | cons b l2 => rw [List.zipWith_cons_cons, numSum_cons, hf, ih, add_zero]

theorem numSum_zipWith_nonneg {α β : Type} (f : α → β → ℝ) (hf : ∀ a b, 0 ≤ f a b) (l1 : List α) (l2 : List β) :
    0 ≤ Num.sum (List.zipWith f l1 l2) := by
  induction l1 generalizing l2 with
  | nil => simp [numSum_nil]
  | cons a l1 ih =>
    cases l2 with
    | nil => simp [numSum_nil]
    | cons b l2 => rw [List.zipWith_cons_cons, numSum_cons]; exact add_nonneg (hf a b) (ih l2)

theorem lossTerm_nonneg (lt : LossType) (p t m : ℝ) : 0 ≤ lossTerm lt p t m := by
  unfold lossTerm
  simp only
  split_ifs
  · rw [NumReal.abs_eq]; exact abs_nonneg _
  · simp only [Num.sq, NumReal.mul_eq]; exact mul_self_nonneg _

theorem lossTermsImg_nonneg (lt : LossType) (p t m : RImg ℝ) : 0 ≤ lossTermsImg lt p t m := by
  unfold lossTermsImg
  apply numSum_zipWith_nonneg
  intro a b
  unfold lossTermsRow
  apply numSum_zipWith_nonneg
  intro q r
  exact lossTerm_nonneg ..

/-- **loss ≥ 0** for every loss type, batch, mask, as soon as the normalising mean intensity is `≥ 0` -/
theorem lossBatch_nonneg (lt : LossType) (preds targets : List (RImg ℝ)) (mask : RImg ℝ) (n : ℕ) {meanI : ℝ}
    (hm : 0 ≤ meanI) : 0 ≤ lossBatch lt preds targets mask n meanI := by
  unfold lossBatch
  simp only [NumReal.div_eq, NumReal.ofNat_eq]
  apply div_nonneg _ hm
  apply div_nonneg
  · apply numSum_zipWith_nonneg
    intro a b
    exact lossTermsImg_nonneg ..
  · exact div_nonneg (Nat.cast_nonneg _) (Nat.cast_nonneg _)

theorem lossTerm_intensity_self (lt : LossType) (h : lt.isAmplitude = false) (x m : ℝ) : lossTerm lt x x m = 0 := by
  unfold lossTerm lossPred
  simp only [h, NumReal.mul_eq, Bool.false_eq_true, if_false, sub_self]
  split_ifs <;> simp [Num.sq, NumReal.abs_eq]

theorem zip_self' {α : Type} (l : List α) : List.zip l l = l.map fun a => (a, a) := by
  induction l with
  | nil => rfl
  | cons a l ih => simp [ih]

theorem lossTermsImg_intensity_self (lt : LossType) (h : lt.isAmplitude = false) (p m : RImg ℝ) :
    lossTermsImg lt p p m = 0 := by
  unfold lossTermsImg
  rw [zip_self', List.zipWith_map_left]
  apply numSum_zipWith_eq_zero
  intro a b
  unfold lossTermsRow
  rw [zip_self', List.zipWith_map_left]
  apply numSum_zipWith_eq_zero
  intro x y
  exact lossTerm_intensity_self lt h x y

/-- intensity losses vanish when the predictions are the targets -/
theorem lossBatch_intensity_self (lt : LossType) (h : lt.isAmplitude = false) (preds : List (RImg ℝ)) (mask : RImg ℝ)
    (n : ℕ) (meanI : ℝ) : lossBatch lt preds preds mask n meanI = 0 := by
  unfold lossBatch
  rw [List.zipWith_self]
  have : Num.sum (preds.map fun a => lossTermsImg lt a a mask) = 0 := by
    rw [numSum_eq]
    apply List.sum_eq_zero
    intro x hx
    obtain ⟨a, _, rfl⟩ := List.mem_map.1 hx
    exact lossTermsImg_intensity_self lt h a mask
  simp only [this, NumReal.div_eq]
  simp

/-- the `sqrt(I + eps)` residual of the amplitude losses: per pixel, for `I ≥ 0`, `eps ≥ 0` -/
theorem sqrt_residual_sq_le {x e : ℝ} (hx : 0 ≤ x) (he : 0 ≤ e) :
    (Real.sqrt (x + e) - Real.sqrt x) ^ 2 ≤ e := by
  have ha := Real.sqrt_nonneg (x + e)
  have hb := Real.sqrt_nonneg x
  have h1 : Real.sqrt (x + e) ^ 2 = x + e := Real.sq_sqrt (by linarith)
  have h2 : Real.sqrt x ^ 2 = x := Real.sq_sqrt hx
  have hab : Real.sqrt x ≤ Real.sqrt (x + e) := Real.sqrt_le_sqrt (by linarith)
  nlinarith

/-! ### loss of one pattern on builds: zero iff masked predictions equal masked targets -/
theorem lossTermsImg_build (lt : LossType) (p t m : ℕ → ℕ → ℝ) :
    lossTermsImg lt (build nr nc p) (build nr nc t) (build nr nc m)
      = ∑ i ∈ range nr, ∑ j ∈ range nc, lossTerm lt (p i j) (t i j) (m i j) := by
  unfold lossTermsImg lossTermsRow build
  rw [List.zip_eq_zipWith, zipWith_vbuild, zipWith_vbuild, numSum_eq, sum_vbuild]
  refine sum_congr rfl fun i _ => ?_
  simp only
  rw [List.zip_eq_zipWith, zipWith_vbuild, zipWith_vbuild, numSum_eq, sum_vbuild]

theorem lossTerm_eq_zero_iff (lt : LossType) (p t m : ℝ) :
    lossTerm lt p t m = 0 ↔ lossPred lt p * m = t * m := by
  unfold lossTerm
  simp only [NumReal.sub_eq, NumReal.mul_eq]
  split_ifs
  · rw [NumReal.abs_eq, abs_eq_zero, sub_eq_zero]
  · simp only [Num.sq, NumReal.mul_eq, NumReal.abs_eq]
    rw [mul_self_eq_zero, abs_eq_zero, sub_eq_zero]

/-! ### normalisation: unit-amplitude objects -/
theorem wrapIdx_lt {n : ℕ} (hn : 0 < n) (i : ℤ) : wrapIdx n i < n := by
  unfold wrapIdx
  have h0 : (0 : ℤ) ≤ i % (n : ℤ) := Int.emod_nonneg _ (by exact_mod_cast Nat.ne_of_gt hn)
  have h1 : i % (n : ℤ) < n := Int.emod_lt_of_pos _ (by exact_mod_cast hn)
  omega

theorem flatIdx_lt {H W r c : ℕ} (hr : r < H) (hc : c < W) : r * W + c < H * W := by
  calc r * W + c < r * W + W := Nat.add_lt_add_left hc _
    _ = (r + 1) * W := by ring
    _ ≤ H * W := Nat.mul_le_mul_right _ hr

/-- patches of a unit-amplitude object are rectangular and unit modulus (every index is in range) -/
theorem objPatches_unit {H W : ℕ} (hH : 0 < H) (hW : 0 < W) (R0 R1 : ℕ) (t : List (List (Cx ℝ)))
    (ht : ∀ s ∈ t, s.length = H * W ∧ ∀ z ∈ s, Cx.abs2 z = 1) (pr pc : ℚ) :
    ∀ O ∈ objPatches t (patchIndices2 pr pc R0 R1 H W), Rect R0 R1 O ∧ UnitModulus O := by
  intro O hO
  unfold objPatches at hO
  obtain ⟨s, hs, rfl⟩ := List.mem_map.1 hO
  obtain ⟨hlen, hunit⟩ := ht s hs
  rw [gatherPatch_eq]
  have hb : (patchIndices2 pr pc R0 R1 H W).map (fun row => row.map fun i => s.getD i Cx.zero)
      = build R0 R1 (fun i j => s.getD (wrapIdx H (roundHalfEven pr + Dft.fftfreqInt R0 i) * W
          + wrapIdx W (roundHalfEven pc + Dft.fftfreqInt R1 j)) Cx.zero) := by
    show (build R0 R1 _).map _ = _
    rw [build_map]
  rw [hb]
  refine ⟨rect_build _ _ _, unitModulus_build.2 ?_⟩
  intro i _ j _
  have hk := flatIdx_lt (wrapIdx_lt hH (roundHalfEven pr + Dft.fftfreqInt R0 i))
    (wrapIdx_lt hW (roundHalfEven pc + Dft.fftfreqInt R1 j))
  rw [← hlen] at hk
  rw [List.getD_eq_getElem?_getD, List.getElem?_eq_getElem hk, Option.getD_some]
  exact hunit _ (List.getElem_mem hk)

theorem map_max0_of_nonNeg {I : RImg ℝ} (h : NonNeg I) : I.map (·.map max0) = I := by
  conv_rhs => rw [← List.map_id I]
  apply List.map_congr_left
  intro row hrow
  conv_rhs => rw [id, ← List.map_id row]
  apply List.map_congr_left
  intro x hx
  exact max0_of_nonneg (h row hrow x hx)

theorem sum_map_const {α : Type} (l : List α) (f : α → ℝ) (c : ℝ) (h : ∀ a ∈ l, f a = c) :
    (l.map f).sum = l.length * c := by
  induction l with
  | nil => simp
  | cons a l ih =>
    rw [List.map_cons, List.sum_cons, h a List.mem_cons_self, ih (fun b hb => h b (List.mem_cons_of_mem _ hb))]
    simp only [List.length_cons, Nat.cast_add, Nat.cast_one]
    ring

/-! ### batch-level bound on the amplitude-loss residual -/
theorem lossTerm_l2amp_le {x : ℝ} (hx : 0 ≤ x) (m : ℝ) :
    lossTerm .l2Amplitude x (Real.sqrt x) m ≤ m ^ 2 * (1 / 10 ^ 9) := by
  have heps : (epsLoss : ℝ) = 1 / 10 ^ 9 := by simp [epsLoss]
  have hres := sqrt_residual_sq_le hx (show (0 : ℝ) ≤ 1 / 10 ^ 9 by positivity)
  have h2 : lossTerm .l2Amplitude x (Real.sqrt x) m = (m * (Real.sqrt (x + 1 / 10 ^ 9) - Real.sqrt x)) ^ 2 := by
    simp only [lossTerm, lossPred, LossType.isAmplitude, LossType.isL1, heps, Num.sq, NumReal.sub_eq, NumReal.mul_eq,
      NumReal.add_eq, NumReal.sqrt_eq, NumReal.abs_eq, if_true, Bool.false_eq_true, if_false, abs_mul_abs_self]
    ring
  rw [h2, mul_pow]
  exact mul_le_mul_of_nonneg_left hres (sq_nonneg m)

theorem sum_map_le_const {α : Type} (l : List α) (f : α → ℝ) (c : ℝ) (h : ∀ a ∈ l, f a ≤ c) :
    (l.map f).sum ≤ l.length * c := by
  induction l with
  | nil => simp
  | cons a l ih =>
    rw [List.map_cons, List.sum_cons]
    have h1 := h a List.mem_cons_self
    have h2 := ih (fun b hb => h b (List.mem_cons_of_mem _ hb))
    simp only [List.length_cons, Nat.cast_add, Nat.cast_one]
    linarith

/-- one pattern: the l2-amplitude loss terms against the amplitudes `√I` of the same (non-negative)
intensities sum to at most `1e-9 · Σ mask²` -/
theorem lossTermsImg_l2amp_le {I : RImg ℝ} (hI : Rect nr nc I) (hpos : NonNeg I) (m : ℕ → ℕ → ℝ) :
    lossTermsImg .l2Amplitude I (rawAmplitude I) (build nr nc m)
      ≤ (1 / 10 ^ 9) * ∑ i ∈ range nr, ∑ j ∈ range nc, (m i j) ^ 2 := by
  obtain ⟨p, rfl⟩ := hI.exists_build
  have hp := nonNeg_build hpos
  have hraw : rawAmplitude (build nr nc p) = build nr nc (fun i j => max0 (Num.sqrt (max0 (p i j)))) := by
    unfold rawAmplitude; rw [build_map]
  rw [hraw, lossTermsImg_build, mul_sum]
  apply sum_le_sum
  intro i hi
  rw [mul_sum]
  apply sum_le_sum
  intro j hj
  have h0 := hp i (mem_range.1 hi) j (mem_range.1 hj)
  rw [max0_of_nonneg h0, NumReal.sqrt_eq, max0_of_nonneg (Real.sqrt_nonneg _)]
  have := lossTerm_l2amp_le h0 (m i j)
  linarith

/-- **batch-level residual bound**: the l2-amplitude loss of a non-empty batch of non-negative patterns
against their own amplitudes is at most `num_gpts · 1e-9 · Σ mask² / mean_intensity` — independent of the
batch size (the batch-fraction scaling cancels the number of patterns) -/
theorem lossBatch_l2amp_le (Is : List (RImg ℝ)) (hI : ∀ I ∈ Is, Rect nr nc I ∧ NonNeg I) (hne : Is ≠ [])
    (m : ℕ → ℕ → ℝ) {n : ℕ} (hn : 0 < n) {meanI : ℝ} (hm : 0 < meanI) :
    lossBatch .l2Amplitude Is (Is.map rawAmplitude) (build nr nc m) n meanI
      ≤ (n : ℝ) * ((1 / 10 ^ 9) * ∑ i ∈ range nr, ∑ j ∈ range nc, (m i j) ^ 2) / meanI := by
  unfold lossBatch
  rw [List.zipWith_map_right, List.zipWith_self, numSum_eq]
  simp only [NumReal.div_eq, NumReal.ofNat_eq]
  set C := (1 / 10 ^ 9 : ℝ) * ∑ i ∈ range nr, ∑ j ∈ range nc, (m i j) ^ 2 with hC
  have hsum := sum_map_le_const Is (fun I => lossTermsImg .l2Amplitude I (rawAmplitude I) (build nr nc m)) C
    (fun I hIm => lossTermsImg_l2amp_le (hI I hIm).1 (hI I hIm).2 m)
  have hlen : (0 : ℝ) < (Is.length : ℝ) := by
    have : Is.length ≠ 0 := fun h => hne (List.length_eq_zero_iff.1 h)
    exact_mod_cast Nat.pos_of_ne_zero this
  have hn' : (0 : ℝ) < (n : ℝ) := by exact_mod_cast hn
  apply div_le_div_of_nonneg_right _ hm.le
  rw [div_le_iff₀ (div_pos hlen hn')]
  calc (Is.map fun I => lossTermsImg .l2Amplitude I (rawAmplitude I) (build nr nc m)).sum
      ≤ (Is.length : ℝ) * C := hsum
    _ = (n : ℝ) * C * ((Is.length : ℝ) / (n : ℝ)) := by field_simp

/-! ### general scan positions at rotation 0, no transposition -/
theorem foldl_min_zero {α : Type} (f : α → ℝ) (l : List α) (h : ∀ p ∈ l, 0 ≤ f p) :
    l.foldl (fun acc p => Num.min acc (f p)) (0 : ℝ) = 0 := by
  induction l with
  | nil => rfl
  | cons a l ih =>
    rw [List.foldl_cons, NumReal.min_eq, min_eq_left (h a List.mem_cons_self)]
    exact ih (fun p hp => h p (List.mem_cons_of_mem _ hp))

theorem scanPositionsGeneral_plain (g : Geometry) (hs1 : 0 ≤ g.stepR) (hs2 : 0 ≤ g.stepC) :
    scanPositionsGeneral g.gr g.gc (g.stepR : ℝ) (g.stepC : ℝ) (g.sampR : ℝ) (g.sampC : ℝ)
        ((g.padUsedR : ℕ) : ℝ) ((g.padUsedC : ℕ) : ℝ) 0 false
      = (scanPositions g).map fun p => ((p.1 : ℝ), (p.2 : ℝ)) := by
  unfold scanPositionsGeneral scanPositions
  simp only [isZero_zero, if_true, Bool.false_eq_true, if_false, NumReal.zero_eq]
  have hnn1 : ∀ p ∈ (List.range g.gr).flatMap (fun (i : ℕ) => (List.range g.gc).map fun (j : ℕ) =>
      ((Num.ofNat i * (g.stepR : ℝ), Num.ofNat j * (g.stepC : ℝ)) : ℝ × ℝ)), 0 ≤ p.1 ∧ 0 ≤ p.2 := by
    intro p hp
    obtain ⟨i, _, hp⟩ := List.mem_flatMap.1 hp
    obtain ⟨j, _, rfl⟩ := List.mem_map.1 hp
    simp only [NumReal.ofNat_eq]
    have h1 : (0 : ℝ) ≤ (g.stepR : ℝ) := by exact_mod_cast hs1
    have h2 : (0 : ℝ) ≤ (g.stepC : ℝ) := by exact_mod_cast hs2
    exact ⟨mul_nonneg (Nat.cast_nonneg _) h1, mul_nonneg (Nat.cast_nonneg _) h2⟩
  rw [foldl_min_zero (fun p : ℝ × ℝ => p.1) _ (fun p hp => (hnn1 p hp).1),
    foldl_min_zero (fun p : ℝ × ℝ => p.2) _ (fun p hp => (hnn1 p hp).2)]
  rw [List.map_flatMap, List.map_flatMap]
  apply List.flatMap_congr
  intro i _
  rw [List.map_map, List.map_map]
  apply List.map_congr_left
  intro j _
  simp only [Function.comp, NumReal.ofNat_eq, NumReal.mul_eq, NumReal.div_eq, NumReal.add_eq, sub_zero]
  push_cast
  rfl

end QuantemModel.Forward
