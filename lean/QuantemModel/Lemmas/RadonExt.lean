import QuantemModel.Model.RadonExt
import QuantemModel.Lemmas.RadonFilterSk
import QuantemModel.Lemmas.RadonPad
/-!
Lemmas for `Model/RadonExt.lean` (C07, growth round 5): rectangular images (mask, crop), the
default angle set of `radon_torch`, `iradon_torch` with its validation, sessions.
-/
namespace QuantemModel.Radon
open QuantemModel QuantemModel.NumReal

/-! ## crop offsets -/

theorem cropOff_self (N : Nat) : cropOff N N = 0 := by simp [cropOff]

/-- the crop window lies inside the axis, and starts at `ceil(e / 2)` -/
theorem cropOff_spec (L N : Nat) (h : N ≤ L) :
    cropOff L N + N ≤ L ∧ L - N ≤ 2 * cropOff L N ∧ 2 * cropOff L N ≤ L - N + 1 := by
  unfold cropOff
  split <;> omega

/-- `(e + 1) // 2` (the port) is `int(np.ceil(e / 2))` (scikit-image), for every axis length -/
theorem cropOffSk_eq (L N : Nat) : cropOffSk (R := ℝ) L N = cropOff L N := by
  unfold cropOffSk cropOff
  split
  · rename_i h
    have key : ceilI ((Num.ofNat (L - N) : ℝ) / Num.two) = (((L - N + 1) / 2 : Nat) : ℤ) := by
      unfold ceilI
      show -(Int.floor (-((Num.ofNat (L - N) : ℝ) / Num.two))) = _
      simp only [ofNat_eq, two_eq]
      have hfl : Int.floor (-(((L - N : Nat) : ℝ) / 2)) = -((((L - N + 1) / 2 : Nat)) : ℤ) := by
        rw [Int.floor_eq_iff]
        have h1 : (((L - N + 1) / 2 : Nat) : ℝ) * 2 ≤ ((L - N : Nat) : ℝ) + 1 := by
          have : (L - N + 1) / 2 * 2 ≤ L - N + 1 := Nat.div_mul_le_self _ _
          exact_mod_cast this
        have h2 : ((L - N : Nat) : ℝ) ≤ (((L - N + 1) / 2 : Nat) : ℝ) * 2 := by
          have : L - N ≤ (L - N + 1) / 2 * 2 := by omega
          exact_mod_cast this
        simp only [Int.cast_neg, Int.cast_natCast]
        constructor <;> linarith
      rw [hfl]; simp
    rw [key]; exact Int.toNat_natCast _
  · rfl

/-- where the disc centre `L // 2` of the uncropped axis lands in the crop: on the rotation centre
`N // 2`, except for an even crop of an axis with an odd excess, where it is one pixel before it
(a quirk the port shares with scikit-image) -/
theorem crop_mask_centre (L N : Nat) (h : N ≤ L) (hN : 1 ≤ N) :
    L / 2 - cropOff L N = N / 2 - (if (L - N) % 2 = 1 ∧ N % 2 = 0 then 1 else 0) ∧ cropOff L N ≤ L / 2 := by
  unfold cropOff
  obtain ⟨e, rfl⟩ : ∃ e, L = N + e := ⟨L - N, by omega⟩
  have he : N + e - N = e := by omega
  rw [he]
  split_ifs with h1 h2 h2
  · obtain ⟨a, b⟩ := h2
    constructor <;> omega
  · constructor <;> omega
  · constructor <;> omega
  · constructor <;> omega

/-! ## square images are the special case -/

theorem inDiscRect_square (N : Nat) : inDiscRect N N = inDisc N := by
  funext r c
  unfold inDiscRect inDisc
  simp

theorem maskedRect_square (f : Int → Int → ℝ) (N : Nat) : maskedRect f N N = masked f N := by
  unfold maskedRect masked
  rw [inDiscRect_square]

theorem cropped_masked_square (f : Int → Int → ℝ) (N : Nat) : cropped (masked f N) 0 0 N = masked f N := by
  funext r c
  unfold cropped
  by_cases h : 0 ≤ r ∧ r < (N : ℤ) ∧ 0 ≤ c ∧ c < (N : ℤ)
  · simp [h]
  · rw [if_neg h]
    unfold masked
    have : inDisc N r c = false := by
      by_contra hc
      have hd : inDisc N r c = true := by simpa using hc
      unfold inDisc at hd
      have := of_decide_eq_true hd
      exact h ⟨this.1, this.2.1, this.2.2.1, this.2.2.2.1⟩
    simp [this]

/-- on a square image the rectangular model is the square model of `Model/Radon.lean` -/
theorem radonTorchRectAt_square (f : Int → Int → ℝ) (N : Nat) (θ : ℝ) (x : Nat) :
    radonTorchRectAt f N N θ x = radonTorchAt f N θ x := by
  unfold radonTorchRectAt radonTorchAt
  simp only [Nat.min_self, cropOff_self, maskedRect_square, cropped_masked_square]

/-! ## agreement on rectangular images -/

/-- radon_torch on `f` = scikit-image's radon (circle mode) on the disc-masked `f`, sample by
sample, for every image shape whose shorter side is ≥ 2 -/
theorem radonTorchRectAt_eq_sk (f : Int → Int → ℝ) (H W : Nat) (hN : 2 ≤ min H W) (θ : ℝ) (x : Nat) :
    radonTorchRectAt f H W θ x = radonSkRectAt (maskedRect f H W) H W θ x := by
  unfold radonTorchRectAt radonSkRectAt
  simp only [torchCoord_eq_skCoord _ hN, cropOffSk_eq]

theorem radonRectAcc_agree (f : Int → Int → ℝ) (H W : Nat) (hN : 2 ≤ min H W) (thetas : Option (List ℝ)) :
    radonTorchRectAcc f H W thetas = radonSkRectAcc (maskedRect f H W) H W thetas := by
  unfold radonTorchRectAcc radonSkRectAcc
  simp only [radonTorchRectAt_eq_sk f H W hN]

theorem maskedRect_linear (f g : Int → Int → ℝ) (a b : ℝ) (H W : Nat) :
    maskedRect (fun i j => a * f i j + b * g i j) H W
      = fun i j => a * maskedRect f H W i j + b * maskedRect g H W i j := by
  funext i j; unfold maskedRect; split <;> simp

theorem cropped_linear (f g : Int → Int → ℝ) (a b : ℝ) (oR oC N : Nat) :
    cropped (fun i j => a * f i j + b * g i j) oR oC N
      = fun i j => a * cropped f oR oC N i j + b * cropped g oR oC N i j := by
  funext i j; unfold cropped; split <;> simp

/-- radon_torch is linear on rectangular images too (mask, crop, interpolation, sum) -/
theorem radonTorchRectAt_linear (f g : Int → Int → ℝ) (a b : ℝ) (H W : Nat) (θ : ℝ) (x : Nat) :
    radonTorchRectAt (fun i j => a * f i j + b * g i j) H W θ x
      = a * radonTorchRectAt f H W θ x + b * radonTorchRectAt g H W θ x := by
  unfold radonTorchRectAt
  simp only [sum_eq, maskedRect_linear, cropped_linear, bilinear_linear]
  exact sum_map_linear _ _ _ a b

/-- 0 degrees on a rectangular image: the column sums of the cropped, disc-masked image -/
theorem radonTorchRectAt_zero (f : Int → Int → ℝ) (H W : Nat) (hN : 2 ≤ min H W) (x : Nat) :
    radonTorchRectAt f H W (0 : ℝ) x
      = ((List.range (min H W)).map fun y : Nat =>
          cropped (maskedRect f H W) (cropOff H (min H W)) (cropOff W (min H W)) (min H W) (y : ℤ) (x : ℤ)).sum := by
  unfold radonTorchRectAt
  simp only [torchCoord_eq_skCoord _ hN, skCoord_zero, sum_eq, bilinear_nat]

/-! ## the default angle set of radon -/

theorem radonDefaultThetas_length : (radonDefaultThetas : List ℝ).length = 180 := by
  simp [radonDefaultThetas]

theorem radonDefaultThetas_getD (i : Nat) (hi : i < 180) : (radonDefaultThetas : List ℝ).getD i 0 = (i : ℝ) := by
  unfold radonDefaultThetas
  simp [List.getD_eq_getElem?_getD, List.getElem?_map, List.getElem?_range hi]

/-! ## iradon_torch with its validation -/

theorem paddedSize_even (D : Nat) : paddedSize D % 2 = 0 ∧ paddedSize D ≠ 0 := by
  obtain ⟨k, hk⟩ := paddedSize_pow2 D
  have hge := paddedSize_ge D
  rw [hk] at hge ⊢
  have hk1 : 1 ≤ k := by
    by_contra h
    have : k = 0 := by omega
    subst this
    norm_num at hge
  obtain ⟨j, rfl⟩ : ∃ j, k = j + 1 := ⟨k - 1, by omega⟩
  constructor
  · rw [pow_succ]; omega
  · positivity

/-- a call that passes the theta check and names a known filter returns the reconstruction of
`Model/Radon.lean` — the parity / size-0 branches of the filter helper are unreachable from here -/
theorem iradonTorchE_ok (sino : List (List ℝ)) (thetas : Option (List ℝ)) (out : Option Nat) (name : String)
    (circle : Bool) (nm : FilterName) (hth : thetaMismatch thetas sino.length = false)
    (hnm : parseFilter name = some nm) :
    iradonTorchE sino thetas out name circle
      = .ok (iradonTorchOut sino thetas nm circle (out.getD (outputSize (R := ℝ) (sino.headD []).length circle))) := by
  unfold iradonTorchE
  simp only [hth, Bool.false_eq_true, if_false]
  rw [fourierFilterTorchE_ok _ (paddedSize_even _).1 (paddedSize_even _).2 name nm hnm]
  rfl

theorem iradonTorchE_theta (sino : List (List ℝ)) (thetas : Option (List ℝ)) (out : Option Nat) (name : String)
    (circle : Bool) (hth : thetaMismatch thetas sino.length = true) :
    iradonTorchE sino thetas out name circle = .error "ValueError" := by
  unfold iradonTorchE
  simp [hth]

theorem iradonTorchE_unknown (sino : List (List ℝ)) (thetas : Option (List ℝ)) (out : Option Nat) (name : String)
    (circle : Bool) (hnm : parseFilter name = none) :
    iradonTorchE sino thetas out name circle = .error "ValueError" := by
  unfold iradonTorchE
  by_cases hth : thetaMismatch thetas sino.length = true
  · simp [hth]
  · simp only [hth, Bool.false_eq_true, if_false]
    rw [fourierFilterTorchE_unknown _ (paddedSize_even _).1 (paddedSize_even _).2 name hnm]

/-- **outcome agreement**: for every sinogram, angle argument (given with any length, or omitted),
output size (given or omitted), filter argument (known or not) and circle flag, iradon_torch and
skimage.transform.iradon either both raise ValueError or return the same reconstruction -/
theorem iradonE_agree (sino : List (List ℝ)) (thetas : Option (List ℝ)) (out : Option Nat) (name : String)
    (circle : Bool) :
    iradonTorchE sino thetas out name circle = iradonSkE sino thetas out name circle := by
  by_cases hth : thetaMismatch thetas sino.length = true
  · rw [iradonTorchE_theta _ _ _ _ _ hth]
    unfold iradonSkE; simp [hth]
  · have hth' : thetaMismatch thetas sino.length = false := by simpa using hth
    cases hnm : parseFilter name with
    | none =>
        rw [iradonTorchE_unknown _ _ _ _ _ hnm]
        unfold iradonSkE; simp [hth', hnm]
    | some nm =>
        rw [iradonTorchE_ok _ _ _ _ _ nm hth' hnm, iradonOut_agree]
        unfold iradonSkE; simp [hth', hnm]

/-! ## the write loop refines the map -/

theorem foldl_set_zipIdx {α β : Type} (f : α → β) (l : List α) :
    ∀ (k : Nat) (pre rest : List β), pre.length = k → rest.length = l.length →
      (l.zipIdx k).foldl (fun out p => out.set p.2 (f p.1)) (pre ++ rest) = pre ++ l.map f := by
  induction l with
  | nil => intro k pre rest _ hr; simp at hr; simp [hr]
  | cons a l ih =>
      intro k pre rest hp hr
      cases rest with
      | nil => simp at hr
      | cons r rest' =>
          simp only [List.zipIdx_cons, List.foldl_cons, List.map_cons]
          have hset : (pre ++ r :: rest').set k (f a) = (pre ++ [f a]) ++ rest' := by
            rw [List.set_append_right _ _ (by omega)]
            simp [hp]
          rw [hset, ih (k + 1) (pre ++ [f a]) rest' (by simp [hp]) (by simpa using hr)]
          simp

theorem zipWith_zipWith_left {α β : Type} (F G : α → β → α) : ∀ (xs : List α) (ys : List β),
    List.zipWith F (List.zipWith G xs ys) ys = List.zipWith (fun o y => F (G o y) y) xs ys := by
  intro xs
  induction xs with
  | nil => intro ys; simp
  | cons x xs ih => intro ys; cases ys with
    | nil => simp
    | cons y ys => simp [ih]

theorem zipWith_fst_eq {α β : Type} : ∀ (xs : List α) (ys : List β), xs.length = ys.length →
    List.zipWith (fun o _ => o) xs ys = xs := by
  intro xs
  induction xs with
  | nil => intro ys _; simp
  | cons x xs ih => intro ys h; cases ys with
    | nil => simp at h
    | cons y ys => simp at h; simp [ih ys h]

theorem foldl_zipWith {α β γ : Type} (g : γ → α → β → α) (ops : List γ) : ∀ (init : List α) (ys : List β),
    init.length = ys.length →
    ops.foldl (fun out p => List.zipWith (g p) out ys) init
      = List.zipWith (fun o y => ops.foldl (fun o p => g p o y) o) init ys := by
  induction ops with
  | nil => intro init ys h; simp [zipWith_fst_eq init ys h]
  | cons p ops ih =>
      intro init ys h
      simp only [List.foldl_cons]
      rw [ih _ ys (by simp [h]), zipWith_zipWith_left]

theorem radonTorchBatchLoop_eq (imgs : List (List (List ℝ))) (thetas : List ℝ) :
    radonTorchBatchLoop imgs thetas = radonTorchBatch imgs thetas := by
  unfold radonTorchBatchLoop radonTorchBatch
  rw [foldl_zipWith (fun (p : ℝ × Nat) (o : List (List ℝ)) (img : List (List ℝ)) => o.set p.2 (projRow img p.1)) _ _ imgs (by simp)]
  rw [List.zipWith_map_left]
  have h : ∀ img : List (List ℝ),
      (thetas.zipIdx.foldl (fun o p => o.set p.2 (projRow img p.1)) (List.replicate thetas.length (List.replicate img.length (Num.zero : ℝ))))
        = radonTorch img thetas := by
    intro img
    have := foldl_set_zipIdx (fun θ => projRow img θ) thetas 0 [] (List.replicate thetas.length (List.replicate img.length (Num.zero : ℝ))) rfl (by simp)
    simp only [List.nil_append] at this
    rw [this]; rfl
  rw [List.zipWith_self]
  simp only [h]

theorem radonTorchLoop_eq (img : List (List ℝ)) (thetas : List ℝ) :
    radonTorchLoop img thetas = radonTorch img thetas := by
  unfold radonTorchLoop
  have := foldl_set_zipIdx (fun θ => projRow img θ) thetas 0 []
    (List.replicate thetas.length (List.replicate img.length (Num.zero : ℝ))) rfl (by simp)
  simp only [List.nil_append] at this
  rw [this]; rfl

/-! ## sessions -/

theorem runSession_foldl (step : Unit → Op ℝ → Unit × Outcome ℝ) (ops : List (Op ℝ)) (acc : List (Outcome ℝ)) :
    (ops.foldl (fun (a : Unit × List (Outcome ℝ)) op => ((step a.1 op).1, a.2 ++ [(step a.1 op).2])) ((), acc)).2
      = acc ++ ops.map fun op => (step () op).2 := by
  induction ops generalizing acc with
  | nil => simp
  | cons op rest ih =>
      simp only [List.foldl_cons, List.map_cons]
      rw [ih]
      simp

theorem runSession_eq_map (step : Unit → Op ℝ → Unit × Outcome ℝ) (ops : List (Op ℝ)) :
    runSession step ops = ops.map fun op => (step () op).2 := by
  unfold runSession
  have := runSession_foldl step ops []
  simpa using this

/-- the reference as a session step -/
noncomputable def stepSk (st : Unit) (op : Op ℝ) : Unit × Outcome ℝ := (st, evalSk op)

/-- the ops on which the two libraries are comparable: images with both sides ≥ 2 (scikit-image's
own radon fails below), filter sizes other than 0 and 1 with one of the six names; every iradon call -/
def Op.inDomain : Op ℝ → Prop
  | .radon img _ => 2 ≤ min img.length (img.headD []).length
  | .filter P name => P ≠ 0 ∧ P ≠ 1 ∧ ∃ nm, parseFilter name = some nm
  | .iradon _ _ _ _ _ => True

theorem evalTorch_eq_evalSk (op : Op ℝ) (h : op.inDomain) : evalTorch op = evalSk op := by
  cases op with
  | radon img th =>
      simp only [evalTorch, evalSk, radonTorchRect]
      rw [radonRectAcc_agree _ _ _ h]
  | filter P name =>
      obtain ⟨h0, h1, nm, hnm⟩ := h
      simp only [evalTorch, evalSk]
      rw [fourierFilterE_agree P h0 h1 name nm hnm]
  | iradon s th out name circle =>
      simp only [evalTorch, evalSk]
      rw [iradonE_agree]

end QuantemModel.Radon
