import QuantemModel.Lemmas.RadonPad
import Mathlib.Data.Nat.Size
import Mathlib.Analysis.SpecialFunctions.Log.Base
/-!
C07 — the padded FFT size as a specification (least power of two ≥ max(64, 2N)), its closed
forms for every N, the exact difference set of the "bit length" variant, and the filtering
step as Mathlib-ℂ `idft(fft(pad x)·H)`.
-/
namespace QuantemModel.Radon
open QuantemModel QuantemModel.NumReal QuantemModel.PtychoOps

/-- the specification "least power of two ≥ max(64, 2N)" -/
def IsPaddedSize (N P : Nat) : Prop :=
  (∃ k, P = 2 ^ k) ∧ 64 ≤ P ∧ 2 * N ≤ P ∧ (P = 64 ∨ P < 4 * N)

theorem isPaddedSize_paddedSize (N : Nat) : IsPaddedSize N (paddedSize N) :=
  ⟨paddedSize_pow2 N, paddedSize_ge N, paddedSize_ge_two_mul N, paddedSize_minimal N⟩

theorem isPaddedSize_unique {N P Q : Nat} (hP : IsPaddedSize N P) (hQ : IsPaddedSize N Q) : P = Q := by
  have key : ∀ {P Q : Nat}, IsPaddedSize N P → IsPaddedSize N Q → P ≤ Q := by
    intro P Q hP hQ
    obtain ⟨⟨a, rfl⟩, hP64, hPN, hPmin⟩ := hP
    obtain ⟨⟨b, rfl⟩, hQ64, hQN, hQmin⟩ := hQ
    by_contra hlt
    have hlt' : 2 ^ b < 2 ^ a := not_le.mp hlt
    have hba : b < a := (Nat.pow_lt_pow_iff_right (by norm_num)).mp hlt'
    have h2 : 2 * 2 ^ b ≤ 2 ^ a := by
      have : 2 ^ (b + 1) ≤ 2 ^ a := Nat.pow_le_pow_right (by norm_num) hba
      rw [Nat.pow_succ] at this; omega
    rcases hPmin with h | h <;> omega
  exact le_antisymm (key hP hQ) (key hQ hP)

/-- the closed form with the integer ceiling logarithm -/
theorem isPaddedSize_clog (N : Nat) : IsPaddedSize N (max 64 (2 ^ Nat.clog 2 (2 * N))) := by
  have hle : 2 * N ≤ 2 ^ Nat.clog 2 (2 * N) := Nat.le_pow_clog (by norm_num) _
  refine ⟨?_, le_max_left _ _, le_trans hle (le_max_right _ _), ?_⟩
  · by_cases h : 2 ^ Nat.clog 2 (2 * N) ≤ 64
    · exact ⟨6, by rw [max_eq_left h]; norm_num⟩
    · exact ⟨Nat.clog 2 (2 * N), by rw [max_eq_right (le_of_lt (not_le.mp h))]⟩
  · by_cases h : 2 ^ Nat.clog 2 (2 * N) ≤ 64
    · left; exact max_eq_left h
    · right
      have h' : 64 < 2 ^ Nat.clog 2 (2 * N) := not_le.mp h
      rw [max_eq_right (le_of_lt h')]
      have h1 : 1 < 2 * N := by
        by_contra hc
        have : Nat.clog 2 (2 * N) = 0 := Nat.clog_of_right_le_one (by omega) 2
        rw [this] at h'; norm_num at h'
      have hpred := Nat.pow_pred_clog_lt_self (b := 2) (by norm_num) h1
      have hpos : 0 < Nat.clog 2 (2 * N) := Nat.clog_pos (by norm_num) h1
      have : 2 ^ Nat.clog 2 (2 * N) = 2 * 2 ^ (Nat.clog 2 (2 * N)).pred := by
        conv_lhs => rw [← Nat.succ_pred_eq_of_pos hpos, Nat.pow_succ]
        ring
      omega

theorem paddedSize_eq_clog (N : Nat) : paddedSize N = max 64 (2 ^ Nat.clog 2 (2 * N)) :=
  isPaddedSize_unique (isPaddedSize_paddedSize N) (isPaddedSize_clog N)

/-- the code's real-number formula `max(64, 2 ** ceil(log2(2 N)))` -/
theorem paddedSize_eq_real_formula (N : Nat) :
    paddedSize N = max 64 (2 ^ ⌈Real.logb 2 ((2 * N : Nat) : ℝ)⌉₊) := by
  have := Real.natCeil_logb_natCast 2 (2 * N)
  rw [Nat.cast_ofNat] at this
  rw [this]
  exact paddedSize_eq_clog N

/-- integer "bit length" variant `max(64, 1 << (2N).bit_length())`: the least power of two
*strictly* above `2N` -/
def paddedSizeBitLength (N : Nat) : Nat := max 64 (2 ^ Nat.size (2 * N))

theorem paddedSizeBitLength_ne_iff (N : Nat) :
    paddedSizeBitLength N ≠ paddedSize N ↔ ∃ k, 6 ≤ k ∧ 2 * N = 2 ^ k := by
  rw [paddedSize_eq_clog]
  unfold paddedSizeBitLength
  set n := 2 * N with hn
  have hcs : Nat.clog 2 n ≤ Nat.size n :=
    Nat.clog_le_of_le_pow (le_of_lt (Nat.lt_size_self n))
  constructor
  · intro hne
    have hlt : Nat.clog 2 n < Nat.size n := by
      rcases Nat.lt_or_ge (Nat.clog 2 n) (Nat.size n) with h | h
      · exact h
      · exact absurd (by rw [le_antisymm hcs h]) hne
    -- size > clog means n is not below 2^clog, i.e. n = 2^clog
    have h1 : ¬ n < 2 ^ Nat.clog 2 n := fun h => absurd (Nat.size_le.mpr h) (not_le.mpr hlt)
    have h2 : n ≤ 2 ^ Nat.clog 2 n := Nat.le_pow_clog (by norm_num) n
    have heq : n = 2 ^ Nat.clog 2 n := le_antisymm h2 (not_lt.mp h1)
    refine ⟨Nat.clog 2 n, ?_, heq⟩
    by_contra hk
    have hk' : Nat.clog 2 n ≤ 5 := by omega
    have hs : Nat.size n = Nat.clog 2 n + 1 := by
      conv_lhs => rw [heq]
      exact Nat.size_pow
    apply hne
    have e1 : 2 ^ Nat.size n ≤ 64 := by
      rw [hs]; calc 2 ^ (Nat.clog 2 n + 1) ≤ 2 ^ 6 := Nat.pow_le_pow_right (by norm_num) (by omega)
        _ = 64 := by norm_num
    have e2 : 2 ^ Nat.clog 2 n ≤ 64 := le_trans (Nat.pow_le_pow_right (by norm_num) hcs) e1
    rw [max_eq_left e1, max_eq_left e2]
  · rintro ⟨k, hk, hnk⟩
    rw [hnk, Nat.size_pow, Nat.clog_pow 2 k (by norm_num)]
    have h64 : 64 ≤ 2 ^ k := by
      calc 64 = 2 ^ 6 := by norm_num
        _ ≤ 2 ^ k := Nat.pow_le_pow_right (by norm_num) hk
    have : 2 ^ (k + 1) = 2 * 2 ^ k := by rw [Nat.pow_succ]; ring
    rw [max_eq_right (by omega), max_eq_right h64]
    omega

theorem filterRow_agree (name : FilterName) (D : Nat) (row : List ℝ) :
    filterRow (fourierFilterTorch name (paddedSize D)) (paddedSize D) D row
      = filterRow (fourierFilterSk name (paddedSize D)) (paddedSize D) D row := by
  rw [fourierFilter_agree name _ (le_trans (by norm_num) (paddedSize_ge D))]

theorem padded_eq_vbuild (P N : Nat) (row : List ℝ) (hr : row.length = N) (hP : N ≤ P) :
    (row ++ List.replicate (P - N) (0 : ℝ)).map Cx.ofReal = vbuild P fun j => Cx.ofReal (row.getD j 0) := by
  have hlen : ((row ++ List.replicate (P - N) (0 : ℝ)).map Cx.ofReal).length = P := by simp [hr]; omega
  rw [eq_vbuild Cx.zero ((row ++ List.replicate (P - N) (0 : ℝ)).map Cx.ofReal), hlen]
  apply vbuild_congr
  intro j hj
  simp only [List.getD_eq_getElem?_getD, List.getElem?_map]
  by_cases hjr : j < row.length
  · simp [List.getElem?_append_left hjr, List.getElem?_eq_getElem hjr]
  · have hjr' : row.length ≤ j := not_lt.mp hjr
    have : j - row.length < P - N := by omega
    simp [List.getElem?_append_right hjr', List.getElem?_eq_none hjr', this]

/-- **the filtering step over ℂ**: entry `n` of `filterRow` is the real part of Mathlib-ℂ
`idft(fft(pad x) · H)` (Lemmas/Spectral.lean) at `n`. -/
theorem filterRow_spectral (filt : List ℝ) (P N : Nat) (row : List ℝ) (hr : row.length = N) (hf : filt.length = P)
    (hP : N ≤ P) (hP0 : P ≠ 0) (n : Nat) (hn : n < N) :
    (filterRow filt P N row).getD n 0
      = (Spectral.idft P (fun k => ((filt.getD k 0 : ℝ) : ℂ) *
          Spectral.dft P (fun j => ((row.getD j 0 : ℝ) : ℂ)) k) n).re := by
  unfold filterRow
  simp only [zero_eq]
  rw [padded_eq_vbuild P N row hr hP, dft_vbuild]
  conv_lhs => rw [eq_vbuild (0 : ℝ) filt, hf]
  rw [zipWith_vbuild, idft_vbuild, vbuild_map]
  have hnP : n < P := lt_of_lt_of_le hn hP
  rw [List.getD_eq_getElem?_getD, List.getElem?_take]
  simp only [hn, if_true]
  rw [← List.getD_eq_getElem?_getD, getD_vbuild _ _ _ hnP]
  rw [← toC_re, toC_idftC hP0]
  congr 2
  funext k
  rw [toC_smul, toC_dftC hP0]
  congr 2
  funext j
  simp

end QuantemModel.Radon
