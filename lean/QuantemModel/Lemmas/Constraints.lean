import QuantemModel.Lemmas.ConstraintsCx
/-!
Helper lemmas for the object-constraint theorems of C10 (`applyHardCx`, `applyHardPot`,
`tomoApplyHard`): elementwise amplitude facts, masked maps, slice tying.
-/
namespace QuantemModel.Constraints
open QuantemModel

/-! ### lists -/

theorem mem_zipWith_imp {α β γ : Type} (f : α → β → γ) :
    ∀ (l₁ : List α) (l₂ : List β) (y : γ), y ∈ List.zipWith f l₁ l₂ → ∃ a ∈ l₁, ∃ b ∈ l₂, y = f a b := by
  intro l₁
  induction l₁ with
  | nil => intro l₂ y h; simp at h
  | cons a as ih =>
    intro l₂ y h
    cases l₂ with
    | nil => simp at h
    | cons b bs =>
      simp only [List.zipWith_cons_cons, List.mem_cons] at h
      rcases h with h | h
      · exact ⟨a, by simp, b, by simp, h⟩
      · obtain ⟨a', ha', b', hb', e⟩ := ih bs y h
        exact ⟨a', by simp [ha'], b', by simp [hb'], e⟩

theorem zipWith_zipWith_right {α β γ δ : Type} (f : γ → β → δ) (g : α → β → γ) :
    ∀ (l : List α) (m : List β),
      List.zipWith f (List.zipWith g l m) m = List.zipWith (fun a b => f (g a b) b) l m := by
  intro l
  induction l with
  | nil => intro m; simp
  | cons a as ih =>
    intro m
    cases m with
    | nil => simp
    | cons b bs => simp [ih]

theorem zipWith_congr_mem {α β γ : Type} (f g : α → β → γ) :
    ∀ (l : List α) (m : List β), (∀ a ∈ l, ∀ b ∈ m, f a b = g a b) →
      List.zipWith f l m = List.zipWith g l m := by
  intro l
  induction l with
  | nil => intro m _; simp
  | cons a as ih =>
    intro m h
    cases m with
    | nil => simp
    | cons b bs =>
      simp only [List.zipWith_cons_cons]
      rw [h a (by simp) b (by simp), ih bs (fun a' ha' b' hb' => h a' (by simp [ha']) b' (by simp [hb']))]

theorem map_zipWith' {α β γ δ : Type} (h : γ → δ) (f : α → β → γ) (l : List α) (m : List β) :
    (List.zipWith f l m).map h = List.zipWith (fun a b => h (f a b)) l m := by
  rw [List.map_zipWith]

/-! ### masked map -/

/-- a predicate on every entry of the mask that is actually used -/
def MaskAll (P : ℝ → Prop) (mask : Option (List (List ℝ))) : Prop :=
  ∀ m, mask = some m → ∀ row ∈ m, ∀ x ∈ row, P x

theorem MaskAll.eff {P : ℝ → Prop} {mask : Option (List (List ℝ))} (h : MaskAll P mask) (b : Bool) :
    MaskAll P (effMask b mask) := by
  unfold effMask
  cases b
  · intro m hm; simp at hm
  · simpa using h

theorem mapMasked_forall {α β : Type} (f : Option ℝ → α → β) (mask : Option (List (List ℝ)))
    (obj : List (List α)) (Q : β → Prop) (P : ℝ → Prop) (hmask : MaskAll P mask)
    (hnone : ∀ z, Q (f none z)) (hsome : ∀ mk z, P mk → Q (f (some mk) z)) :
    ∀ row ∈ mapMasked f mask obj, ∀ y ∈ row, Q y := by
  intro row hrow y hy
  cases mask with
  | none =>
    simp only [mapMasked, List.mem_map] at hrow
    obtain ⟨r, _, rfl⟩ := hrow
    simp only [List.mem_map] at hy
    obtain ⟨z, _, rfl⟩ := hy
    exact hnone z
  | some m =>
    simp only [mapMasked] at hrow
    obtain ⟨r, _, mr, hmr, rfl⟩ := mem_zipWith_imp _ _ _ _ hrow
    obtain ⟨z, _, mk, hmk, rfl⟩ := mem_zipWith_imp _ _ _ _ hy
    exact hsome mk z (hmask m rfl mr hmr mk hmk)

theorem mapMasked_forall' {α β : Type} (f : Option ℝ → α → β) (mask : Option (List (List ℝ)))
    (obj : List (List α)) (Q : β → Prop) (P : ℝ → Prop) (Pin : α → Prop) (hmask : MaskAll P mask)
    (hobj : ∀ row ∈ obj, ∀ z ∈ row, Pin z)
    (hnone : ∀ z, Pin z → Q (f none z)) (hsome : ∀ mk z, P mk → Pin z → Q (f (some mk) z)) :
    ∀ row ∈ mapMasked f mask obj, ∀ y ∈ row, Q y := by
  intro row hrow y hy
  cases mask with
  | none =>
    simp only [mapMasked, List.mem_map] at hrow
    obtain ⟨r, hr, rfl⟩ := hrow
    simp only [List.mem_map] at hy
    obtain ⟨z, hz, rfl⟩ := hy
    exact hnone z (hobj r hr z hz)
  | some m =>
    simp only [mapMasked] at hrow
    obtain ⟨r, hr, mr, hmr, rfl⟩ := mem_zipWith_imp _ _ _ _ hrow
    obtain ⟨z, hz, mk, hmk, rfl⟩ := mem_zipWith_imp _ _ _ _ hy
    exact hsome mk z (hmask m rfl mr hmr mk hmk) (hobj r hr z hz)

/-- composing two masked maps over the same mask -/
theorem mapMasked_mapMasked {α β γ : Type} (g : Option ℝ → β → γ) (f : Option ℝ → α → β)
    (mask : Option (List (List ℝ))) (obj : List (List α)) :
    mapMasked g mask (mapMasked f mask obj) = mapMasked (fun m z => g m (f m z)) mask obj := by
  cases mask with
  | none => simp [mapMasked, List.map_map, Function.comp_def]
  | some m =>
    simp only [mapMasked]
    rw [zipWith_zipWith_right]
    apply zipWith_congr_mem
    intro r _ mr _
    rw [zipWith_zipWith_right]

theorem map_map_mapMasked {α β γ : Type} (h : β → γ) (f : Option ℝ → α → β)
    (mask : Option (List (List ℝ))) (obj : List (List α)) :
    (mapMasked f mask obj).map (·.map h) = mapMasked (fun m z => h (f m z)) mask obj := by
  cases mask with
  | none => simp [mapMasked, List.map_map, Function.comp_def]
  | some m =>
    simp only [mapMasked]
    rw [List.map_zipWith]
    apply zipWith_congr_mem
    intro r _ mr _
    rw [List.map_zipWith]

theorem mapMasked_congr {α β : Type} (f g : Option ℝ → α → β) (P : ℝ → Prop)
    (mask : Option (List (List ℝ))) (obj : List (List α)) (hmask : MaskAll P mask)
    (hnone : ∀ z, f none z = g none z) (hsome : ∀ mk z, P mk → f (some mk) z = g (some mk) z) :
    mapMasked f mask obj = mapMasked g mask obj := by
  cases mask with
  | none =>
    simp only [mapMasked]
    apply List.map_congr_left
    intro r _
    apply List.map_congr_left
    intro z _
    exact hnone z
  | some m =>
    simp only [mapMasked]
    apply zipWith_congr_mem
    intro r _ mr hmr
    apply zipWith_congr_mem
    intro z _ mk hmk
    exact hsome mk z (hmask m rfl mr hmr mk hmk)

/-! ### one element of the complex / pure-phase branch -/

/-- the element function of `applyHardCx` -/
noncomputable def cxOut (t : CxType) (μ : ℝ) (m : Option ℝ) (z : Cx ℝ) : Cx ℝ := cxMaskAgain t m (cxElem t μ m z)

theorem ampOf_nonneg (t : CxType) (z : Cx ℝ) : 0 ≤ ampOf t z := by
  cases t
  · exact clip01_nonneg _
  · simp [ampOf]
theorem ampOf_le_one (t : CxType) (z : Cx ℝ) : ampOf t z ≤ 1 := by
  cases t
  · exact clip01_le_one _
  · simp [ampOf]

theorem abs_cxOut_none (t : CxType) (μ : ℝ) (z : Cx ℝ) : Cx.abs (cxOut t μ none z) = ampOf t z := by
  cases t <;> simp [cxOut, cxMaskAgain, cxElem, abs_polar, abs_of_nonneg (ampOf_nonneg _ z)]

theorem abs_cxOut_complex_some (μ mk : ℝ) (z : Cx ℝ) :
    Cx.abs (cxOut .complex μ (some mk) z) = ampOf .complex z * (mk * mk) := by
  simp only [cxOut, cxMaskAgain, cxElem, abs_smul, abs_polar, NumReal.mul_eq, abs_mul,
    abs_of_nonneg (ampOf_nonneg _ z)]
  rw [← abs_mul_abs_self mk]; ring

theorem abs_cxOut_pure_some (μ mk : ℝ) (z : Cx ℝ) :
    Cx.abs (cxOut .purePhase μ (some mk) z) = 1 := by
  simp [cxOut, cxMaskAgain, cxElem, abs_cis]

theorem abs_cxOut_pure (μ : ℝ) (m : Option ℝ) (z : Cx ℝ) : Cx.abs (cxOut .purePhase μ m z) = 1 := by
  cases m with
  | none => rw [abs_cxOut_none]; simp [ampOf]
  | some mk => exact abs_cxOut_pure_some μ mk z

theorem abs_cxOut_complex_le_one (μ : ℝ) (m : Option ℝ) (z : Cx ℝ)
    (hm : ∀ mk, m = some mk → 0 ≤ mk ∧ mk ≤ 1) : Cx.abs (cxOut .complex μ m z) ≤ 1 := by
  cases m with
  | none => rw [abs_cxOut_none]; exact ampOf_le_one _ _
  | some mk =>
    obtain ⟨h0, h1⟩ := hm mk rfl
    rw [abs_cxOut_complex_some]
    have hA := ampOf_le_one .complex z
    have hA0 := ampOf_nonneg .complex z
    have hmm : mk * mk ≤ 1 := by nlinarith
    have hmm0 : 0 ≤ mk * mk := mul_nonneg h0 h0
    nlinarith

/-- amplitude of a second application equals the amplitude of the first one, elementwise -/
theorem abs_cxOut_cxOut (t : CxType) (μ μ' : ℝ) (m : Option ℝ) (z : Cx ℝ)
    (hm : t = .purePhase ∨ ∀ mk, m = some mk → mk = 0 ∨ mk = 1) :
    Cx.abs (cxOut t μ' m (cxOut t μ m z)) = Cx.abs (cxOut t μ m z) := by
  cases t with
  | purePhase => rw [abs_cxOut_pure, abs_cxOut_pure]
  | complex =>
    have hm' : ∀ mk, m = some mk → mk = 0 ∨ mk = 1 := by
      rcases hm with h | h
      · cases h
      · exact h
    cases m with
    | none =>
      rw [abs_cxOut_none, abs_cxOut_none]
      simp only [ampOf]
      rw [abs_cxOut_none]
      exact clip01_of_mem (ampOf_nonneg _ _) (ampOf_le_one _ _)
    | some mk =>
      rw [abs_cxOut_complex_some, abs_cxOut_complex_some]
      rcases hm' mk rfl with h | h
      · subst h; simp
      · subst h
        simp only [mul_one, ampOf]
        rw [abs_cxOut_complex_some]
        simp only [mul_one]
        exact clip01_of_mem (ampOf_nonneg _ _) (ampOf_le_one _ _)

theorem applyHardCx_eq (t : CxType) (c : ObjCons ℝ) (mask : Option (List (List ℝ)))
    (obj : List (List (Cx ℝ))) :
    applyHardCx t c mask obj =
      tieSlicesC c.identicalSlices (mapMasked (cxOut t (meanPhase obj)) (effMask c.applyFovMask mask) obj) := rfl

/-! ### slice tying -/

theorem foldl_zipAdd_abs_le :
    ∀ (rs : List (List (Cx ℝ))) (acc : List (Cx ℝ)) (B : ℝ),
      (∀ x ∈ acc, Cx.abs x ≤ B) → (∀ row ∈ rs, ∀ x ∈ row, Cx.abs x ≤ 1) →
      ∀ x ∈ rs.foldl (fun acc row => List.zipWith (· + ·) acc row) acc, Cx.abs x ≤ B + rs.length := by
  intro rs
  induction rs with
  | nil => intro acc B h _ x hx; simpa using h x hx
  | cons r rs ih =>
    intro acc B hacc hrows x hx
    simp only [List.foldl_cons] at hx
    have h1 : ∀ y ∈ List.zipWith (· + ·) acc r, Cx.abs y ≤ B + 1 := by
      intro y hy
      obtain ⟨a, ha, b, hb, rfl⟩ := mem_zipWith_imp _ _ _ _ hy
      have := abs_add_le a b
      have := hacc a ha
      have := hrows r (by simp) b hb
      linarith
    have := ih _ (B + 1) h1 (fun row hrow => hrows row (by simp [hrow])) x hx
    simp only [List.length_cons, Nat.cast_add, Nat.cast_one]
    linarith

theorem meanSlicesC_abs_le (rows : List (List (Cx ℝ)))
    (h : ∀ row ∈ rows, ∀ x ∈ row, Cx.abs x ≤ 1) : ∀ x ∈ meanSlicesC rows, Cx.abs x ≤ 1 := by
  cases rows with
  | nil => intro x hx; simp [meanSlicesC] at hx
  | cons r rs =>
    intro x hx
    simp only [meanSlicesC, List.mem_map] at hx
    obtain ⟨y, hy, rfl⟩ := hx
    have hb := foldl_zipAdd_abs_le rs r 1 (h r (by simp)) (fun row hrow => h row (by simp [hrow])) y hy
    rw [abs_cdivR]
    simp only [NumReal.ofNat_eq, List.length_cons, Nat.cast_add, Nat.cast_one]
    have hpos : (0 : ℝ) < (rs.length : ℝ) + 1 := by positivity
    rw [abs_of_pos hpos, div_le_one hpos]
    linarith

theorem foldl_zipAdd_nonneg :
    ∀ (rs : List (List ℝ)) (acc : List ℝ),
      (∀ x ∈ acc, 0 ≤ x) → (∀ row ∈ rs, ∀ x ∈ row, 0 ≤ x) →
      ∀ x ∈ rs.foldl (fun acc row => List.zipWith (· + ·) acc row) acc, 0 ≤ x := by
  intro rs
  induction rs with
  | nil => intro acc h _ x hx; simpa using h x hx
  | cons r rs ih =>
    intro acc hacc hrows x hx
    simp only [List.foldl_cons] at hx
    refine ih _ ?_ (fun row hrow => hrows row (by simp [hrow])) x hx
    intro y hy
    obtain ⟨a, ha, b, hb, rfl⟩ := mem_zipWith_imp _ _ _ _ hy
    have := hacc a ha
    have := hrows r (by simp) b hb
    linarith

theorem meanSlicesR_nonneg (rows : List (List ℝ))
    (h : ∀ row ∈ rows, ∀ x ∈ row, 0 ≤ x) : ∀ x ∈ meanSlicesR rows, 0 ≤ x := by
  cases rows with
  | nil => intro x hx; simp [meanSlicesR] at hx
  | cons r rs =>
    intro x hx
    simp only [meanSlicesR, List.mem_map] at hx
    obtain ⟨y, hy, rfl⟩ := hx
    have hb := foldl_zipAdd_nonneg rs r (h r (by simp)) (fun row hrow => h row (by simp [hrow])) y hy
    simp only [NumReal.div_eq, NumReal.ofNat_eq]
    positivity

theorem tieSlices_identical {α : Type} (out : List α) (x : α) (n : Nat)
    (h : out = List.replicate n x ∨ out.length ≤ 1) : ∀ a ∈ out, ∀ b ∈ out, a = b := by
  intro a ha b hb
  rcases h with h | h
  · subst h
    rw [List.eq_of_mem_replicate ha, List.eq_of_mem_replicate hb]
  · match out, h with
    | [], _ => simp at ha
    | [y], _ =>
      simp only [List.mem_singleton] at ha hb
      rw [ha, hb]
    | _ :: _ :: _, h => simp at h

theorem tieSlicesC_identical (obj2 : List (List (Cx ℝ))) :
    ∀ a ∈ tieSlicesC true obj2, ∀ b ∈ tieSlicesC true obj2, a = b := by
  apply tieSlices_identical _ (meanSlicesC obj2) obj2.length
  unfold tieSlicesC
  by_cases h : 1 < obj2.length
  · left; simp [h]
  · right; simp [h]; omega

theorem tieSlicesR_identical (obj2 : List (List ℝ)) :
    ∀ a ∈ tieSlicesR true obj2, ∀ b ∈ tieSlicesR true obj2, a = b := by
  apply tieSlices_identical _ (meanSlicesR obj2) obj2.length
  unfold tieSlicesR
  by_cases h : 1 < obj2.length
  · left; simp [h]
  · right; simp [h]; omega

theorem tieSlicesC_forall (P : Cx ℝ → Prop) (b : Bool) (obj2 : List (List (Cx ℝ)))
    (h : ∀ row ∈ obj2, ∀ x ∈ row, P x) (hmean : ∀ x ∈ meanSlicesC obj2, P x) :
    ∀ row ∈ tieSlicesC b obj2, ∀ x ∈ row, P x := by
  unfold tieSlicesC
  split
  · intro row hrow x hx
    rw [List.eq_of_mem_replicate hrow] at hx
    exact hmean x hx
  · exact h

theorem tieSlicesR_forall (P : ℝ → Prop) (b : Bool) (obj2 : List (List ℝ))
    (h : ∀ row ∈ obj2, ∀ x ∈ row, P x) (hmean : ∀ x ∈ meanSlicesR obj2, P x) :
    ∀ row ∈ tieSlicesR b obj2, ∀ x ∈ row, P x := by
  unfold tieSlicesR
  split
  · intro row hrow x hx
    rw [List.eq_of_mem_replicate hrow] at hx
    exact hmean x hx
  · exact h

theorem tie_mapMasked_nonneg (b : Bool) (f : Option ℝ → ℝ → ℝ) (mask : Option (List (List ℝ)))
    (obj2 : List (List ℝ)) (P : ℝ → Prop) (hmask : MaskAll P mask)
    (hobj : ∀ row ∈ obj2, ∀ z ∈ row, 0 ≤ z)
    (hnone : ∀ z, 0 ≤ z → 0 ≤ f none z) (hsome : ∀ mk z, P mk → 0 ≤ z → 0 ≤ f (some mk) z) :
    ∀ row ∈ tieSlicesR b (mapMasked f mask obj2), ∀ v ∈ row, 0 ≤ v := by
  have h := mapMasked_forall' f mask obj2 (fun v => 0 ≤ v) P (fun v => 0 ≤ v) hmask hobj hnone hsome
  exact tieSlicesR_forall _ _ _ h (meanSlicesR_nonneg _ h)

end QuantemModel.Constraints
