/-
Helper lemmas for C18 over ℝ: constant / plane fits, integer shifts.
-/
import QuantemModel.Lemmas.Origin
import Mathlib.Algebra.Order.Floor.Ring
import Mathlib.Tactic.LinearCombination
import Mathlib.Tactic.Positivity

namespace QuantemModel.Origin
open QuantemModel QuantemModel.Batcher

noncomputable instance : HasFloor ℝ := ⟨Int.floor⟩
@[simp] theorem floorReal_eq (x : ℝ) : HasFloor.floor x = ⌊x⌋ := rfl

/-! ### constant fit -/

theorem sum_replicate_real (n : Nat) (c : ℝ) : (List.replicate n c).sum = n * c := by
  induction n with
  | zero => simp
  | succ n ih => rw [List.replicate_succ, List.sum_cons, ih]; push_cast; ring

theorem fitConstantTorch_exact (o : List (ℝ × ℝ)) (c : ℝ × ℝ) (hne : o ≠ [])
    (hall : ∀ p ∈ o, p = c) : fitConstantTorch o = List.replicate o.length c := by
  have ho : o = List.replicate o.length c := List.eq_replicate_iff.mpr ⟨rfl, hall⟩
  have hn : (o.length : ℝ) ≠ 0 := by
    have : 0 < o.length := List.length_pos_iff.mpr hne
    exact_mod_cast this.ne'
  unfold fitConstantTorch
  simp only [NumRealExt.sum_eq, NumReal.div_eq, NumReal.ofNat_eq]
  have h1 : (o.map (·.1)).sum = o.length * c.1 := by
    conv_lhs => rw [ho]
    rw [List.map_replicate, sum_replicate_real]
  have h2 : (o.map (·.2)).sum = o.length * c.2 := by
    conv_lhs => rw [ho]
    rw [List.map_replicate, sum_replicate_real]
  rw [h1, h2, mul_div_cancel_left₀ _ hn, mul_div_cancel_left₀ _ hn]

theorem fitConstantNumpy_exact (q : List (List ℝ)) (c : ℝ) (hne : q.flatten ≠ [])
    (hall : ∀ row ∈ q, ∀ v ∈ row, v = c) : fitConstantNumpy q = q := by
  have hflat : q.flatten = List.replicate q.flatten.length c := by
    apply List.eq_replicate_iff.mpr ⟨rfl, ?_⟩
    intro v hv
    obtain ⟨row, hrow, hvr⟩ := List.mem_flatten.mp hv
    exact hall row hrow v hvr
  have hn : (q.flatten.length : ℝ) ≠ 0 := by
    have : 0 < q.flatten.length := List.length_pos_iff.mpr hne
    exact_mod_cast this.ne'
  unfold fitConstantNumpy
  simp only [NumRealExt.sum_eq, NumReal.div_eq, NumReal.ofNat_eq, NumReal.mul_eq, NumReal.one_eq, mul_one]
  have hmean : q.flatten.sum / (q.flatten.length : ℝ) = c := by
    conv_lhs => rw [hflat]
    rw [sum_replicate_real, List.length_replicate, mul_div_cancel_left₀ _ hn]
  rw [hmean]
  conv_rhs => rw [← List.map_id q]
  apply List.map_congr_left
  intro row hrow
  conv_rhs => rw [id, ← List.map_id row]
  apply List.map_congr_left
  intro v hv
  exact (hall row hrow v hv).symm

/-! ### plane fit by PCA -/

noncomputable def meanX (pos : List (ℝ × ℝ)) : ℝ := (pos.map (·.1)).sum / pos.length
noncomputable def meanY (pos : List (ℝ × ℝ)) : ℝ := (pos.map (·.2)).sum / pos.length
noncomputable def meanZ (pos : List (ℝ × ℝ)) (z : List ℝ) : ℝ := z.sum / pos.length

/-- `n · (p_i − centroid)` for the point `p_i = (x_i, y_i, z_i)` -/
noncomputable def offPlane (pos : List (ℝ × ℝ)) (z : List ℝ) (a b c : ℝ) (pz : (ℝ × ℝ) × ℝ) : ℝ :=
  a * (pz.1.1 - meanX pos) + b * (pz.1.2 - meanY pos) + c * (pz.2 - meanZ pos z)

theorem fitPlanePCA_exact (pos : List (ℝ × ℝ)) (z : List ℝ) (a b c : ℝ) (hlen : pos.length = z.length)
    (hc : c ≠ 0) (hnull : ∀ pz ∈ pos.zip z, offPlane pos z a b c pz = 0) :
    fitPlanePCA pos z (a, b, c) = z := by
  unfold fitPlanePCA
  simp only [NumRealExt.sum_eq, NumReal.div_eq, NumReal.ofNat_eq, NumReal.mul_eq, NumReal.add_eq,
    NumReal.sub_eq, NumReal.neg_eq]
  have h1 : pos = (pos.zip z).map Prod.fst := (List.map_fst_zip (by omega)).symm
  have h2 : z = (pos.zip z).map Prod.snd := (List.map_snd_zip (by omega)).symm
  conv_rhs => rw [h2]
  conv_lhs => rw [h1, List.map_map]
  apply List.map_congr_left
  intro pz hpz
  have h := hnull pz hpz
  unfold offPlane meanX meanY meanZ at h
  simp only [Function.comp_def]
  rw [← h1]
  field_simp
  linear_combination (-1 : ℝ) * h

theorem sum_sq_eq_zero {α : Type} (l : List α) (g : α → ℝ)
    (h : (l.map (fun x => g x ^ 2)).sum = 0) : ∀ x ∈ l, g x = 0 := by
  induction l with
  | nil => intro x hx; simp at hx
  | cons a as ih =>
    rw [List.map_cons, List.sum_cons] at h
    have hnn : 0 ≤ (as.map (fun x => g x ^ 2)).sum := by
      apply List.sum_nonneg
      intro y hy
      obtain ⟨x, _, rfl⟩ := List.mem_map.mp hy
      positivity
    have ha : g a ^ 2 = 0 := by nlinarith [sq_nonneg (g a)]
    have has : (as.map (fun x => g x ^ 2)).sum = 0 := by nlinarith [sq_nonneg (g a)]
    intro x hx
    rcases List.mem_cons.mp hx with rfl | hx
    · exact pow_eq_zero_iff (by norm_num) |>.mp ha
    · exact ih has x hx

theorem sum_plane (pos : List (ℝ × ℝ)) (α β γ : ℝ) :
    (pos.map (fun p => α * p.1 + β * p.2 + γ)).sum
      = α * (pos.map (·.1)).sum + β * (pos.map (·.2)).sum + pos.length * γ := by
  induction pos with
  | nil => simp
  | cons p ps ih => simp only [List.map_cons, List.sum_cons, List.length_cons, ih]; push_cast; ring

theorem zip_map_self {α β : Type} (l : List α) (f : α → β) :
    l.zip (l.map f) = l.map (fun p => (p, f p)) := by
  induction l with
  | nil => rfl
  | cons a as ih => simp only [List.map_cons, List.zip_cons_cons, ih]

/-! ### least squares -/

/-- sum of squared residuals of a parametric family `F θ` on data points `(x, z)` -/
noncomputable def ssr {Θ X : Type} (F : Θ → X → ℝ) (θ : Θ) (pts : List (X × ℝ)) : ℝ :=
  (pts.map (fun p => (F θ p.1 - p.2) ^ 2)).sum

theorem ssr_nonneg {Θ X : Type} (F : Θ → X → ℝ) (θ : Θ) (pts : List (X × ℝ)) : 0 ≤ ssr F θ pts := by
  unfold ssr
  apply List.sum_nonneg
  intro y hy
  obtain ⟨x, _, rfl⟩ := List.mem_map.mp hy
  positivity

/-! ### integer shifts -/

theorem fmod_int (k : ℤ) (m : ℕ) : fmod ((k : ℝ)) m = ((k % (m : ℤ) : ℤ) : ℝ) := by
  unfold fmod
  simp only [NumReal.sub_eq, NumReal.mul_eq, NumReal.div_eq, NumReal.ofNat_eq, NumReal.ofInt_eq, floorReal_eq]
  rw [Int.floor_div_natCast, Int.floor_intCast, Int.emod_def]
  push_cast; ring

theorem sampleBilinear_int (I : Pattern ℝ) (h w : Nat) (m n : ℤ) :
    sampleBilinear I h w (m : ℝ) (n : ℝ) = pix I h w m n := by
  unfold sampleBilinear
  simp only [floorReal_eq, Int.floor_intCast, NumReal.sub_eq, NumReal.mul_eq, NumReal.add_eq,
    NumReal.ofInt_eq, NumReal.one_eq, sub_self, sub_zero, mul_zero, zero_mul, mul_one, add_zero]

/-- normalising with `max (s - 1) 1` (as repaired) and un-normalising with `s - 1` (`align_corners=True`)
gives the coordinate back; on an axis of length 1 the only coordinate is 0 -/
theorem unnormalise (g : ℝ) (s : Nat) (hs : 1 ≤ s) (hg : s = 1 → g = 0) :
    ((Num.two * g / (Num.ofNat (max (s - 1) 1) : ℝ) - Num.one + Num.one) / Num.two * (Num.ofNat (s - 1) : ℝ)) = g := by
  simp only [NumReal.sub_eq, NumReal.mul_eq, NumReal.add_eq, NumReal.div_eq, NumReal.ofNat_eq,
    NumReal.one_eq, NumReal.two_eq]
  rcases Nat.lt_or_ge 1 s with h2 | h1
  · have hmax : max (s - 1) 1 = s - 1 := by omega
    have h1 : ((s - 1 : ℕ) : ℝ) ≠ 0 := by
      have : 0 < s - 1 := by omega
      exact_mod_cast this.ne'
    rw [hmax]
    field_simp
    ring
  · have hs1 : s = 1 := by omega
    rw [hg hs1, hs1]
    simp

theorem pix_inbounds (I : Pattern ℝ) (h w : Nat) (y x : ℤ) (hy0 : 0 ≤ y) (hy : y < (h : ℤ))
    (hx0 : 0 ≤ x) (hx : x < (w : ℤ)) :
    pix I h w y x = (I.getD y.toNat []).getD x.toNat Num.zero := by
  unfold pix
  rw [if_pos]
  exact ⟨hy0, hy, hx0, hx⟩

/-! ### helpers for the parabola / translation theorems -/

theorem mem_raster (nx ny a b : Nat) (ha : a < nx) (hb : b < ny) :
    (((a : ℝ), (b : ℝ)) : ℝ × ℝ) ∈ (rasterPositions nx ny : List (ℝ × ℝ)) := by
  unfold rasterPositions
  rw [List.mem_flatMap]
  refine ⟨a, List.mem_range.mpr ha, ?_⟩
  rw [List.mem_map]
  exact ⟨b, List.mem_range.mpr hb, by simp [NumReal.ofNat_eq]⟩

theorem parabola_eval (θ : List ℝ) (x y : ℝ) :
    surfaceF .parabola θ (x, y) = θ.getD 0 0 + θ.getD 1 0 * x + θ.getD 3 0 * y + θ.getD 2 0 * (x * x)
      + θ.getD 4 0 * (y * y) + θ.getD 5 0 * x * y := by
  simp [surfaceF, NumReal.zero_eq]

theorem zipIdx_moment {β : Type} (g : β → ℝ) : ∀ (l : List β) (k : ℕ),
    ((l.zipIdx k).map (fun p => (p.2 : ℝ) * g p.1)).sum
      = ((l.zipIdx).map (fun p => (p.2 : ℝ) * g p.1)).sum + (k : ℝ) * (l.map g).sum := by
  intro l
  induction l with
  | nil => intro k; simp
  | cons x xs ih =>
    intro k
    simp only [List.zipIdx_cons, List.map_cons, List.sum_cons]
    rw [ih (k + 1), ih (0 + 1)]
    push_cast; ring

theorem sum_map_add_mul (c : ℝ) (f g : List ℝ → ℝ) (I : List (List ℝ)) (h : ∀ row, f row = g row + c * row.sum) :
    (I.map f).sum = (I.map g).sum + c * (I.map List.sum).sum := by
  induction I with
  | nil => simp
  | cons r rs ih => simp only [List.map_cons, List.sum_cons]; rw [h r, ih]; ring

theorem sum_replicate_zero_append (b : ℕ) (row : List ℝ) :
    (List.replicate b (0 : ℝ) ++ row).sum = row.sum := by
  induction b with
  | zero => simp
  | succ b ih => simpa [List.replicate_succ] using ih


end QuantemModel.Origin
