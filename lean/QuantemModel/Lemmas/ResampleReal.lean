import QuantemModel.Lemmas.ResampleNd
/-!
C06 (growth round 5) — the REAL-input path of the N-D operator (`isReal = true`: `.real` of the
inverse transform, then the `N_out/N_in` rescale), for every direction (up, down, mixed):
total / mean, linearity over the real scalars, identity.
-/
namespace QuantemModel.Resample
open QuantemModel QuantemModel.Nd QuantemModel.Dft Complex

/-- element access commutes with a data map that fixes the default element -/
theorem get_map_of_zero (f : Cx ℝ → Cx ℝ) (hf : f Cx.zero = Cx.zero) (a : Arr (Cx ℝ)) (j : List ℕ) :
    (⟨a.shape, a.data.map f⟩ : Arr (Cx ℝ)).get j = f (a.get j) := by
  unfold Arr.get
  simp only [List.getD_eq_getElem?_getD, List.getElem?_map]
  cases a.data[ravel a.shape j]? with
  | some z => rfl
  | none =>
    simp only [Option.map_none, Option.getD_none]
    exact hf.symm

/-- what the real path does to one element -/
noncomputable def finReal (sc : ℝ) (z : Cx ℝ) : Cx ℝ := Cx.smul sc (Cx.ofReal z.re)

theorem toC_finReal (sc : ℝ) (z : Cx ℝ) : toC (finReal sc z) = (sc : ℂ) * (((toC z).re : ℝ) : ℂ) := by
  unfold finReal
  rw [toC_smul, toC_ofReal]
  rfl

theorem finReal_zero (sc : ℝ) : finReal sc Cx.zero = Cx.zero := by
  apply toC_inj
  rw [toC_finReal, toC_zero]
  simp

theorem list_sum_re (l : List ℂ) : (l.sum).re = (l.map Complex.re).sum := by
  induction l with
  | nil => simp
  | cons a t ih => simp [ih]

theorem resampleNd_true_eq (a : Arr (Cx ℝ)) (axes outs : List ℕ) :
    resampleNd a axes outs true
      = ⟨(resampleFold a (axes.zip outs)).shape,
         (resampleFold a (axes.zip outs)).data.map
           (finReal ((Num.ofNat (prod outs) : ℝ) / Num.ofNat (prod (axes.map fun ax => a.shape.getD ax 1))))⟩ := by
  unfold resampleNd finReal
  simp only [if_true]

/-- **total on the real path**: the sum of all elements of `fourier_resample` of a real array —
the real part of the inverse transform, rescaled — is `N_out/N_in` times the sum of the input,
in every direction (down-sampling to an even length leaves an unpaired Nyquist bin, so the
complex result is NOT real there; its real part still carries the whole mean) -/
theorem total_resampleNd_real (a : Arr (Cx ℝ)) (ha : WFArr a) (hr : IsRealArr a) (axes outs : List ℕ)
    (h : PairsOk a.shape (axes.zip outs)) :
    total (resampleNd a axes outs true)
      = (((prod outs : ℕ) : ℂ) / ((prod (axes.map fun ax => a.shape.getD ax 1) : ℕ) : ℂ)) * total a := by
  rw [resampleNd_true_eq]
  have htot := total_resampleFold a ha _ h
  -- the total of the input is real
  have hreal : ((total a).re : ℂ) = total a := by
    apply Complex.ext
    · simp
    · simp only [Complex.ofReal_im]
      unfold total
      symm
      induction (allIdx a.shape) with
      | nil => simp
      | cons j t ih =>
        simp only [List.map_cons, List.sum_cons, Complex.add_im, ih, add_zero]
        simp [toC, get_real hr j]
  unfold total at htot ⊢
  simp only
  have key : ∀ j, toC ((⟨(resampleFold a (axes.zip outs)).shape,
        (resampleFold a (axes.zip outs)).data.map
          (finReal ((Num.ofNat (prod outs) : ℝ) / Num.ofNat (prod (axes.map fun ax => a.shape.getD ax 1))))⟩ :
          Arr (Cx ℝ)).get j)
      = (((prod outs : ℕ) : ℂ) / ((prod (axes.map fun ax => a.shape.getD ax 1) : ℕ) : ℂ))
          * (((toC ((resampleFold a (axes.zip outs)).get j)).re : ℝ) : ℂ) := by
    intro j
    rw [get_map_of_zero _ (finReal_zero _), toC_finReal]
    congr 1
    simp [NumReal.div_eq]
  rw [List.map_congr_left (fun j _ => key j), List.sum_map_mul_left]
  congr 1
  have : ((allIdx (resampleFold a (axes.zip outs)).shape).map
      fun j => (((toC ((resampleFold a (axes.zip outs)).get j)).re : ℝ) : ℂ)).sum
      = ((((allIdx (resampleFold a (axes.zip outs)).shape).map
          fun j => toC ((resampleFold a (axes.zip outs)).get j)).sum).re : ℂ) := by
    rw [list_sum_re, List.map_map]
    induction (allIdx (resampleFold a (axes.zip outs)).shape) with
    | nil => simp
    | cons x t ih => simp [ih]
  rw [this, htot]
  exact hreal

/-- **N-D mean preservation on the real path** (distinct axes, any direction) -/
theorem mean_resampleNd_real (a : Arr (Cx ℝ)) (ha : WFArr a) (hr : IsRealArr a) (axes outs : List ℕ)
    (hnd : axes.Nodup) (hl : axes.length = outs.length) (h : PairsOk a.shape (axes.zip outs))
    (hv : ∀ ax ∈ axes, ax < a.shape.length) :
    total (resampleNd a axes outs true) / ((prod (resampleNd a axes outs true).shape : ℕ) : ℂ)
      = total a / ((prod a.shape : ℕ) : ℂ) := by
  have h1 : total (resampleNd a axes outs true) = total (resampleNd a axes outs false) := by
    rw [total_resampleNd_real a ha hr axes outs h, total_resampleNd a ha axes outs h]
  have h2 : (resampleNd a axes outs true).shape = (resampleNd a axes outs false).shape := rfl
  rw [h1, h2]
  exact mean_resampleNd a ha axes outs hnd hl h hv

/-- the real path is linear over the REAL scalars: `.real` commutes with `c·u + v` for `c` real -/
theorem finReal_lin (sc : ℝ) (c u v : Cx ℝ) (hc : c.im = 0) :
    finReal sc (c * u + v) = c * finReal sc u + finReal sc v := by
  apply toC_inj
  have hcC : toC c = ((c.re : ℝ) : ℂ) := by apply Complex.ext <;> simp [toC, hc]
  rw [toC_finReal, toC_add, toC_add, toC_mul, toC_mul, toC_finReal, toC_finReal, hcC]
  apply Complex.ext <;> simp <;> ring

theorem resampleNd_lin_real (c : Cx ℝ) (hc : c.im = 0) (x y : Arr (Cx ℝ)) (axes outs : List ℕ)
    (hs : x.shape = y.shape) (hx : WFArr x) (hy : WFArr y) (h : PairsOk x.shape (axes.zip outs)) :
    resampleNd (linArr c x y) axes outs true
      = linArr c (resampleNd x axes outs true) (resampleNd y axes outs true) := by
  rw [resampleNd_true_eq, resampleNd_true_eq, resampleNd_true_eq, resampleFold_lin c x y _ hs hx hy h]
  have hsh : (linArr c x y).shape = x.shape := rfl
  rw [hsh, ← hs]
  unfold linArr
  simp only
  congr 1
  generalize (resampleFold x (axes.zip outs)).data = u
  generalize (resampleFold y (axes.zip outs)).data = v
  generalize ((Num.ofNat (prod outs) : ℝ) / Num.ofNat (prod (axes.map fun ax => x.shape.getD ax 1))) = sc
  induction u generalizing v with
  | nil => simp
  | cons a t ih =>
    cases v with
    | nil => simp
    | cons b w =>
      simp only [List.map_cons, List.zipWith_cons_cons, List.cons.injEq]
      exact ⟨finReal_lin sc c a b hc, ih w⟩
