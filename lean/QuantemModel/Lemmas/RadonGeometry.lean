import QuantemModel.Lemmas.RadonPad
/-!
C07 — geometry of the reconstruction: default output size (circle on/off), the diagonal
padding and its centre alignment, and where the back-projection reads the detector.
-/
namespace QuantemModel.Radon
open QuantemModel QuantemModel.NumReal

/-! ### output size and detector padding geometry -/

theorem outputSize_circle (N : Nat) : outputSize (R := ℝ) N true = N := by simp [outputSize]

/-- circle=False: `m = floor(sqrt(N²/2))` is the integer square root of `N²/2`: `2m² ≤ N² < 2(m+1)²` -/
theorem outputSize_nocircle_spec (N : Nat) :
    2 * (outputSize (R := ℝ) N false) ^ 2 ≤ N ^ 2 ∧ N ^ 2 < 2 * (outputSize (R := ℝ) N false + 1) ^ 2 := by
  unfold outputSize
  simp only [Bool.false_eq_true, if_false, floor_eq, sqrt_eq, ofRat_eq]
  set s : ℝ := Real.sqrt (((((N * N : Nat) : ℚ) / 2 : ℚ)) : ℝ) with hs
  have hq : (((((N * N : Nat) : ℚ) / 2 : ℚ)) : ℝ) = (N : ℝ) ^ 2 / 2 := by push_cast; ring
  have hs0 : 0 ≤ s := Real.sqrt_nonneg _
  have hss : s ^ 2 = (N : ℝ) ^ 2 / 2 := by
    rw [hs, hq]; exact Real.sq_sqrt (by positivity)
  have hfl0 : 0 ≤ ⌊s⌋ := Int.floor_nonneg.mpr hs0
  have hcast : ((⌊s⌋.toNat : ℕ) : ℝ) = ((⌊s⌋ : ℤ) : ℝ) := by
    rw [← Int.cast_natCast, Int.toNat_of_nonneg hfl0]
  have h1 : ((⌊s⌋ : ℤ) : ℝ) ≤ s := Int.floor_le s
  have h2 : s < ((⌊s⌋ : ℤ) : ℝ) + 1 := Int.lt_floor_add_one s
  have h0 : (0 : ℝ) ≤ ((⌊s⌋ : ℤ) : ℝ) := by exact_mod_cast hfl0
  constructor
  · have : (2 * (⌊s⌋.toNat : ℝ) ^ 2) ≤ (N : ℝ) ^ 2 := by
      rw [hcast]; nlinarith
    exact_mod_cast this
  · have : (N : ℝ) ^ 2 < 2 * ((⌊s⌋.toNat : ℝ) + 1) ^ 2 := by
      rw [hcast]; nlinarith
    exact_mod_cast this

/-- `D = ceil(sqrt(2) N)`: `D - 1 < sqrt(2)·N ≤ D`, in particular `N ≤ D` -/
theorem diagSize_spec (N : Nat) :
    ((diagSize (R := ℝ) N : ℕ) : ℝ) - 1 < Real.sqrt 2 * N ∧ Real.sqrt 2 * N ≤ (diagSize (R := ℝ) N : ℕ) ∧
      N ≤ diagSize (R := ℝ) N := by
  unfold diagSize ceilI
  simp only [floor_eq, sqrt_eq, mul_eq, neg_eq, two_eq, ofNat_eq, Int.floor_neg, neg_neg]
  set v : ℝ := Real.sqrt 2 * N with hv
  have hv0 : 0 ≤ v := by positivity
  have hc0 : 0 ≤ ⌈v⌉ := Int.ceil_nonneg hv0
  have hcast : ((⌈v⌉.toNat : ℕ) : ℝ) = ((⌈v⌉ : ℤ) : ℝ) := by
    rw [← Int.cast_natCast, Int.toNat_of_nonneg hc0]
  have h1 : v ≤ ((⌈v⌉ : ℤ) : ℝ) := Int.le_ceil v
  have h2 : ((⌈v⌉ : ℤ) : ℝ) < v + 1 := Int.ceil_lt_add_one v
  have hsq : (1 : ℝ) ≤ Real.sqrt 2 := by
    rw [show (1 : ℝ) = Real.sqrt 1 by simp]; exact Real.sqrt_le_sqrt (by norm_num)
  refine ⟨by rw [hcast]; linarith, by rw [hcast]; exact h1, ?_⟩
  have : (N : ℝ) ≤ ((⌈v⌉.toNat : ℕ) : ℝ) := by
    rw [hcast]
    have : (N : ℝ) ≤ v := by rw [hv]; nlinarith [(Nat.cast_nonneg N : (0 : ℝ) ≤ N)]
    linarith
  exact_mod_cast this

theorem circleToSquare_length_eq (D N : Nat) (row : List ℝ) (hr : row.length = N) (hD : N ≤ D) :
    (circleToSquare D N row).length = D := by
  simp [circleToSquare, hr]; omega

/-- **centre alignment of the circle-to-square padding**: detector bin `i` of the sinogram sits at
bin `i + (D//2 - N//2)` of the padded row (so the rotation axis `N//2` lands on `D//2`), and
everything else is zero -/
theorem circleToSquare_getD (D N : Nat) (row : List ℝ) (hr : row.length = N) (j : Nat) :
    (circleToSquare D N row).getD j 0
      = if D / 2 - N / 2 ≤ j ∧ j < D / 2 - N / 2 + N then row.getD (j - (D / 2 - N / 2)) 0 else 0 := by
  unfold circleToSquare
  simp only [zero_eq, List.getD_eq_getElem?_getD]
  set pb := D / 2 - N / 2 with hpb
  by_cases h1 : j < pb
  · have : ¬ (pb ≤ j ∧ j < pb + N) := by omega
    rw [if_neg this, List.getElem?_append_left (by simp; omega), List.getElem?_append_left (by simp; omega)]
    simp [h1]
  · by_cases h2 : j < pb + N
    · rw [if_pos ⟨by omega, h2⟩, List.getElem?_append_left (by simp; omega),
        List.getElem?_append_right (by simp; omega)]
      simp
    · have : ¬ (pb ≤ j ∧ j < pb + N) := by omega
      rw [if_neg this, List.getElem?_append_right (by simp; omega)]
      simp only [List.length_append, List.length_replicate, hr]
      rw [List.getElem?_replicate]
      split <;> simp

/-! ### where the back-projection reads the detector -/

/-- Cauchy–Schwarz for the detector coordinate: `t² ≤ x² + y²` -/
theorem detT_sq_le (radius : Nat) (θ : ℝ) (r c : Nat) :
    (detT radius θ r c) ^ 2 ≤ (((c : ℤ) - radius : ℤ) : ℝ) ^ 2 + (((r : ℤ) - radius : ℤ) : ℝ) ^ 2 := by
  unfold detT
  simp only [mul_eq, sub_eq, cos_eq, sin_eq, ofInt_eq]
  nlinarith [Real.sin_sq_add_cos_sq (deg2rad θ), sq_nonneg ((((c : ℤ) - radius : ℤ) : ℝ) * Real.sin (deg2rad θ)
    + (((r : ℤ) - radius : ℤ) : ℝ) * Real.cos (deg2rad θ))]

/-- the rotation-axis pixel `(out//2, out//2)` reads detector coordinate 0 (bin `D//2`) at every angle -/
theorem detT_centre (radius : Nat) (θ : ℝ) : detT radius θ radius radius = 0 := by
  unfold detT; simp

/-- circle mode: a pixel inside the reconstruction circle reads within `radius` of the axis -/
theorem detT_circle_bound (radius : Nat) (θ : ℝ) (r c : Nat) (h : outsideCircle radius r c = false) :
    (detT radius θ r c) ^ 2 ≤ (radius : ℝ) ^ 2 := by
  have h1 := detT_sq_le radius θ r c
  unfold outsideCircle at h
  have h2 := of_decide_eq_false h
  have h3 : ((c : ℤ) - radius) * ((c : ℤ) - radius) + ((r : ℤ) - radius) * ((r : ℤ) - radius) ≤ (radius : ℤ) * radius := by
    omega
  have h4 : ((((c : ℤ) - radius : ℤ)) : ℝ) ^ 2 + ((((r : ℤ) - radius : ℤ)) : ℝ) ^ 2 ≤ (radius : ℝ) ^ 2 := by
    have := (Int.cast_le (R := ℝ)).mpr h3
    push_cast at this ⊢
    nlinarith
  linarith

/-- circle=False: every pixel of the `m × m` output (`m = floor(sqrt(N²/2))`, axis at `m//2`)
reads within `N/2` of the axis, i.e. inside `[N//2 - N/2, N//2 + N/2]` in detector bins -/
theorem detT_nocircle_bound (N : Nat) (θ : ℝ) (r c : Nat)
    (hr : r < outputSize (R := ℝ) N false) (hc : c < outputSize (R := ℝ) N false) :
    (detT (outputSize (R := ℝ) N false / 2) θ r c) ^ 2 ≤ ((N : ℝ) / 2) ^ 2 := by
  have hspec := (outputSize_nocircle_spec N).1
  set m := outputSize (R := ℝ) N false with hm
  have h1 := detT_sq_le (m / 2) θ r c
  -- |x|, |y| ≤ m/2 as integers doubled: (2x)² ≤ m²
  have hx : (2 * ((c : ℤ) - (m / 2 : Nat))) ^ 2 ≤ (m : ℤ) ^ 2 := by
    have a1 : -(m : ℤ) ≤ 2 * ((c : ℤ) - (m / 2 : Nat)) := by omega
    have a2 : 2 * ((c : ℤ) - (m / 2 : Nat)) ≤ (m : ℤ) := by omega
    nlinarith
  have hy : (2 * ((r : ℤ) - (m / 2 : Nat))) ^ 2 ≤ (m : ℤ) ^ 2 := by
    have a1 : -(m : ℤ) ≤ 2 * ((r : ℤ) - (m / 2 : Nat)) := by omega
    have a2 : 2 * ((r : ℤ) - (m / 2 : Nat)) ≤ (m : ℤ) := by omega
    nlinarith
  have hx' := (Int.cast_le (R := ℝ)).mpr hx
  have hy' := (Int.cast_le (R := ℝ)).mpr hy
  have hs' : (2 * (m : ℝ) ^ 2) ≤ (N : ℝ) ^ 2 := by exact_mod_cast hspec
  push_cast at hx' hy' h1 ⊢
  nlinarith

end QuantemModel.Radon
