import QuantemModel.Lemmas.ConfigTwin
import QuantemModel.Lemmas.ConfigHistory
/-!
An invariant of `set` histories: at every level of the configuration tree the keys do not
mix '-' and '_' and no key is present in both spellings.  `_assign` preserves it (it always
writes under the spelling that is already there), which makes the twin-spelling read-back of
`get_assign_twin` available after ANY history of `set` calls.
-/
namespace QuantemModel.Config

inductive WellKeyed : Tree → Prop
  | leaf (a : Atom) : WellKeyed (.leaf a)
  | node (d : Dict) : (∀ k, dhas d k = true → Uniform k) → TwinFree d →
      (∀ k t, dget d k = some t → WellKeyed t) → WellKeyed (.node d)

theorem wellKeyed_nil : WellKeyed (.node []) :=
  .node [] (fun k h => by simp [dhas, dget] at h) twinFree_nil (fun k t h => by simp [dget] at h)

theorem uniform_altKey (k : Key) : Uniform (altKey k) := by
  unfold Uniform altKey
  by_cases hu : '_' ∈ k
  · simp only [hu, if_true]
    intro h
    obtain ⟨c, _, hc⟩ := List.mem_map.mp h.1
    exact swapUS_ne c hc
  · simp only [hu, if_false]
    intro h
    obtain ⟨c, _, hc⟩ := List.mem_map.mp h.2
    exact swapSU_ne c hc

/-- writing any well-keyed value under the canonical name of a uniform key keeps the level
well keyed -/
theorem wellKeyed_dset (d : Dict) (k : Key) (X : Tree) (h : WellKeyed (.node d)) (hk : Uniform k)
    (hX : WellKeyed X) : WellKeyed (.node (dset d (canonicalName k d) X)) := by
  cases h with
  | node _ hu htf hsub =>
  have hcu : Uniform (canonicalName k d) := by
    rcases canonicalName_mem k d with e | e <;> rw [e]
    · exact hk
    · exact uniform_altKey k
  refine .node _ ?_ ?_ ?_
  · intro k' hk'
    by_cases e : k' = canonicalName k d
    · rw [e]; exact hcu
    · rw [dhas_dset_other _ _ _ _ e] at hk'
      exact hu k' hk'
  · by_cases hc : dhas d (canonicalName k d) = true
    · -- the key set is unchanged
      have same : ∀ x, dhas (dset d (canonicalName k d) X) x = dhas d x := by
        intro x
        by_cases e : x = canonicalName k d
        · rw [e, dhas_dset_same, hc]
        · exact dhas_dset_other _ _ _ _ e
      intro k' hk' hne
      rw [same] at hk' ⊢
      exact htf k' hk' hne
    · -- a new key: neither spelling of `k` was present
      have hck : canonicalName k d = k := by
        rcases canonicalName_cases k d with e | ⟨e, _, ha⟩
        · exact e
        · rw [e] at hc; exact absurd ha hc
      rw [hck] at hc ⊢
      have hk0 : dhas d k = false := by simpa using hc
      have ha0 : dhas d (altKey k) = false := by
        cases ha : dhas d (altKey k) with
        | false => rfl
        | true =>
          have : canonicalName k d = altKey k := by simp [canonicalName, hk0, ha]
          rw [hck] at this
          rw [← this] at ha
          rw [ha] at hk0
          cases hk0
      intro k' hk' hne
      by_cases e : k' = k
      · subst e
        rw [dhas_dset_other _ _ _ _ hne]
        exact ha0
      · rw [dhas_dset_other _ _ _ _ e] at hk'
        by_cases e2 : altKey k' = k
        · exfalso
          have : altKey k = k' := by rw [← e2]; exact altKey_involutive k' (hu k' hk')
          rw [this, hk'] at ha0
          cases ha0
        · rw [dhas_dset_other _ _ _ _ e2]
          exact htf k' hk' hne
  · intro k' t ht
    by_cases e : k' = canonicalName k d
    · rw [e, dget_dset_same] at ht
      cases ht
      exact hX
    · rw [dget_dset_other _ _ _ _ e] at ht
      exact hsub k' t ht

theorem wellKeyed_sub (d : Dict) (k : Key) (t : Tree) (h : WellKeyed (.node d)) (hg : dget d k = some t) :
    WellKeyed t := by
  cases h with
  | node _ _ _ hsub => exact hsub k t hg

/-- `_assign` keeps the tree well keyed -/
theorem wellKeyed_assign (keys : List Key) (v : Tree) (hv : WellKeyed v) :
    ∀ (d d' : Dict) (rc : Bool) (r : List RecOp), WellKeyed (.node d) → (∀ k ∈ keys, Uniform k) →
      assign keys v d rc = .ok (d', r) → WellKeyed (.node d') := by
  induction keys with
  | nil => intro d d' rc r _ _ h; simp [assign] at h
  | cons k rest ih =>
    intro d d' rc r hd hu h
    have huk : Uniform k := hu k (by simp)
    have hur : ∀ k' ∈ rest, Uniform k' := fun k' hk' => hu k' (by simp [hk'])
    cases rest with
    | nil =>
      simp [assign] at h
      obtain ⟨e, _⟩ := h
      subst e
      exact wellKeyed_dset d k v hd huk hv
    | cons k2 rest2 =>
      rw [assign] at h
      rotate_left
      · simp
      split at h
      · split at h
        · rename_i sub r0 hsub
          simp at h
          obtain ⟨e, _⟩ := h
          subst e
          exact wellKeyed_dset d k _ hd huk (ih [] sub false r0 wellKeyed_nil hur hsub)
        · simp at h
      · rename_i sub hg
        split at h
        · rename_i sub' r0 hsub
          simp at h
          obtain ⟨e, _⟩ := h
          subst e
          exact wellKeyed_dset d k _ hd huk (ih sub sub' rc r0 (wellKeyed_sub d _ _ hd hg) hur hsub)
        · simp at h
      · simp at h

theorem twinFreeAlong_of_wellKeyed (keys : List Key) : ∀ (d : Dict), WellKeyed (.node d) →
    TwinFreeAlong d keys := by
  induction keys with
  | nil => intro d _; trivial
  | cons k rest ih =>
    intro d hd
    cases hd with
    | node _ hu htf hsub =>
    refine ⟨htf, ?_⟩
    split
    · rename_i sub hg
      exact ih sub (hsub _ _ hg)
    · trivial

theorem wellKeyed_checkKeyVal (env : Env) (k : Key) (v v' : Tree) (hv : WellKeyed v)
    (h : checkKeyVal env k v = .ok v') : WellKeyed v' := by
  unfold checkKeyVal at h
  split at h
  · cases hd : validateDevice env v with
    | error e => simp [hd, Except.map] at h
    | ok a => simp [hd, Except.map] at h; subst h; exact .leaf a
  · simp at h; subst h; exact hv

end QuantemModel.Config
