import QuantemModel.Lemmas.ConfigTwin
import QuantemModel.Lemmas.ConfigHistory
/-!
An invariant of `set` histories: at every level of the configuration tree the keys do not
mix '-' and '_' and no key is present in both spellings.  `_assign` preserves it (it always
writes under the spelling that is already there), which makes the twin-spelling read-back of
`get_assign_twin` available after ANY history of `set` calls.
-/
namespace QuantemModel.Config

inductive WellKeyed : Tree → Prop
  | leaf (a : Atom) : WellKeyed (.leaf a)
  | node (d : Dict) : (∀ k, dhas d k = true → Uniform k) → TwinFree d →
      (∀ k t, dget d k = some t → WellKeyed t) → WellKeyed (.node d)

theorem wellKeyed_nil : WellKeyed (.node []) :=
  .node [] (fun k h => by simp [dhas, dget] at h) twinFree_nil (fun k t h => by simp [dget] at h)

theorem uniform_altKey (k : Key) : Uniform (altKey k) := by
  unfold Uniform altKey
  by_cases hu : '_' ∈ k
  · simp only [hu, if_true]
    intro h
    obtain ⟨c, _, hc⟩ := List.mem_map.mp h.1
    exact swapUS_ne c hc
  · simp only [hu, if_false]
    intro h
    obtain ⟨c, _, hc⟩ := List.mem_map.mp h.2
    exact swapSU_ne c hc

/-- writing any well-keyed value under the canonical name of a uniform key keeps the level
well keyed -/
theorem wellKeyed_dset (d : Dict) (k : Key) (X : Tree) (h : WellKeyed (.node d)) (hk : Uniform k)
    (hX : WellKeyed X) : WellKeyed (.node (dset d (canonicalName k d) X)) := by
  cases h with
  | node _ hu htf hsub =>
  have hcu : Uniform (canonicalName k d) := by
    rcases canonicalName_mem k d with e | e <;> rw [e]
    · exact hk
    · exact uniform_altKey k
  refine .node _ ?_ ?_ ?_
  · intro k' hk'
    by_cases e : k' = canonicalName k d
    · rw [e]; exact hcu
    · rw [dhas_dset_other _ _ _ _ e] at hk'
      exact hu k' hk'
  · by_cases hc : dhas d (canonicalName k d) = true
    · -- the key set is unchanged
      have same : ∀ x, dhas (dset d (canonicalName k d) X) x = dhas d x := by
        intro x
        by_cases e : x = canonicalName k d
        · rw [e, dhas_dset_same, hc]
        · exact dhas_dset_other _ _ _ _ e
      intro k' hk' hne
      rw [same] at hk' ⊢
      exact htf k' hk' hne
    · -- a new key: neither spelling of `k` was present
      have hck : canonicalName k d = k := by
        rcases canonicalName_cases k d with e | ⟨e, _, ha⟩
        · exact e
        · rw [e] at hc; exact absurd ha hc
      rw [hck] at hc ⊢
      have hk0 : dhas d k = false := by simpa using hc
      have ha0 : dhas d (altKey k) = false := by
        cases ha : dhas d (altKey k) with
        | false => rfl
        | true =>
          have : canonicalName k d = altKey k := by simp [canonicalName, hk0, ha]
          rw [hck] at this
          rw [← this] at ha
          rw [ha] at hk0
          cases hk0
      intro k' hk' hne
      by_cases e : k' = k
      · subst e
        rw [dhas_dset_other _ _ _ _ hne]
        exact ha0
      · rw [dhas_dset_other _ _ _ _ e] at hk'
        by_cases e2 : altKey k' = k
        · exfalso
          have : altKey k = k' := by rw [← e2]; exact altKey_involutive k' (hu k' hk')
          rw [this, hk'] at ha0
          cases ha0
        · rw [dhas_dset_other _ _ _ _ e2]
          exact htf k' hk' hne
  · intro k' t ht
    by_cases e : k' = canonicalName k d
    · rw [e, dget_dset_same] at ht
      cases ht
      exact hX
    · rw [dget_dset_other _ _ _ _ e] at ht
      exact hsub k' t ht

theorem wellKeyed_sub (d : Dict) (k : Key) (t : Tree) (h : WellKeyed (.node d)) (hg : dget d k = some t) :
    WellKeyed t := by
  cases h with
  | node _ _ _ hsub => exact hsub k t hg

/-- `_assign` keeps the tree well keyed -/
theorem wellKeyed_assign (keys : List Key) (v : Tree) (hv : WellKeyed v) :
    ∀ (d d' : Dict) (rc : Bool) (r : List RecOp), WellKeyed (.node d) → (∀ k ∈ keys, Uniform k) →
      assign keys v d rc = .ok (d', r) → WellKeyed (.node d') := by
  induction keys with
  | nil => intro d d' rc r _ _ h; simp [assign] at h
  | cons k rest ih =>
    intro d d' rc r hd hu h
    have huk : Uniform k := hu k (by simp)
    have hur : ∀ k' ∈ rest, Uniform k' := fun k' hk' => hu k' (by simp [hk'])
    cases rest with
    | nil =>
      simp [assign] at h
      obtain ⟨e, _⟩ := h
      subst e
      exact wellKeyed_dset d k v hd huk hv
    | cons k2 rest2 =>
      rw [assign] at h
      rotate_left
      · simp
      split at h
      · split at h
        · rename_i sub r0 hsub
          simp at h
          obtain ⟨e, _⟩ := h
          subst e
          exact wellKeyed_dset d k _ hd huk (ih [] sub false r0 wellKeyed_nil hur hsub)
        · simp at h
      · rename_i sub hg
        split at h
        · rename_i sub' r0 hsub
          simp at h
          obtain ⟨e, _⟩ := h
          subst e
          exact wellKeyed_dset d k _ hd huk (ih sub sub' rc r0 (wellKeyed_sub d _ _ hd hg) hur hsub)
        · simp at h
      · simp at h

theorem twinFreeAlong_of_wellKeyed (keys : List Key) : ∀ (d : Dict), WellKeyed (.node d) →
    TwinFreeAlong d keys := by
  induction keys with
  | nil => intro d _; trivial
  | cons k rest ih =>
    intro d hd
    cases hd with
    | node _ hu htf hsub =>
    refine ⟨htf, ?_⟩
    split
    · rename_i sub hg
      exact ih sub (hsub _ _ hg)
    · trivial

theorem wellKeyed_checkKeyVal (env : Env) (k : Key) (v v' : Tree) (hv : WellKeyed v)
    (h : checkKeyVal env k v = .ok v') : WellKeyed v' := by
  unfold checkKeyVal at h
  split at h
  · cases hd : validateDevice env v with
    | error e => simp [hd, Except.map] at h
    | ok a => simp [hd, Except.map] at h; subst h; exact .leaf a
  · simp at h; subst h; exact hv

/-! ### `update` (update_defaults / refresh) keeps the tree well keyed as well -/

/-- every key of the mapping, at every depth, does not mix '-' and '_' -/
inductive UKeys : Tree → Prop
  | leaf (a : Atom) : UKeys (.leaf a)
  | node (d : Dict) : (∀ k t, (k, t) ∈ d → Uniform k) → (∀ k t, (k, t) ∈ d → UKeys t) → UKeys (.node d)

theorem ukeys_cons (k0 : Key) (t : Tree) (rest : List (Key × Tree)) (h : UKeys (.node ((k0, t) :: rest))) :
    Uniform k0 ∧ UKeys t ∧ UKeys (.node rest) := by
  cases h with
  | node _ hu hs =>
    exact ⟨hu k0 t (by simp), hs k0 t (by simp),
      .node rest (fun k t h => hu k t (by simp [h])) (fun k t h => hs k t (by simp [h]))⟩

theorem updateLeaf_cases (prio : Priority) (old old' : Dict) (defs : Option Tree) (k dk : Key) (v : Tree)
    (h : updateLeaf prio old defs k dk v = .ok old') : old' = old ∨ old' = dset old k v := by
  unfold updateLeaf at h
  split at h
  · simp at h; exact Or.inr h.symm
  · split at h
    · simp at h; exact Or.inr h.symm
    · split at h
      · simp only [bind, Except.bind] at h
        split at h
        · simp at h
        · split at h
          · simp at h; exact Or.inr h.symm
          · simp at h; exact Or.inl h.symm
      · simp at h; exact Or.inl h.symm

/-- the `old[k] = {}` normalisation of the mapping branch -/
theorem wellKeyed_old1 (old old1 cur : Dict) (k0 : Key) (X : Tree) (hw : WellKeyed (.node old)) (hk : Uniform k0)
    (hX : WellKeyed X)
    (h : (match dget old (canonicalName k0 old) with
        | some (Tree.node cur) => (old, cur)
        | _ => (dset old (canonicalName k0 old) (Tree.node []), [])) = (old1, cur)) :
    WellKeyed (.node cur) ∧ WellKeyed (.node (dset old1 (canonicalName k0 old) X)) ∧ WellKeyed (.node old1) := by
  split at h
  · rename_i c hg
    simp at h
    obtain ⟨h1, h2⟩ := h
    subst h1; subst h2
    exact ⟨wellKeyed_sub _ _ _ hw hg, wellKeyed_dset _ _ _ hw hk hX, hw⟩
  · simp at h
    obtain ⟨h1, h2⟩ := h
    subst h1; subst h2
    refine ⟨wellKeyed_nil, ?_, wellKeyed_dset _ _ _ hw hk wellKeyed_nil⟩
    rw [dset_dset]
    exact wellKeyed_dset _ _ _ hw hk hX

theorem wellKeyed_updateP (env : Env) (prio : Priority) (nested : Bool) (old : Dict) (defs : Option Tree)
    (new : List (Key × Tree)) : WellKeyed (.node old) → UKeys (.node new) →
    WellKeyed (.node (updateP env prio nested old defs new).1) := by
  fun_induction updateP env prio nested old defs new
  case case1 => intro hw _; exact hw
  case case2 => intro hw _; exact hw
  case case3 =>
    intro hw hu
    rename_i hm _ _
    obtain ⟨huk, _, _⟩ := ukeys_cons _ _ _ hu
    exact (wellKeyed_old1 _ _ _ _ (.node []) hw huk wellKeyed_nil hm).2.2
  case case4 =>
    intro hw hu
    rename_i hm _ _ _ _ _ _ ih
    obtain ⟨huk, hus, _⟩ := ukeys_cons _ _ _ hu
    have h0 := (wellKeyed_old1 _ _ _ _ (.node []) hw huk wellKeyed_nil hm).1
    exact (wellKeyed_old1 _ _ _ _ _ hw huk (ih h0 hus) hm).2.1
  case case5 =>
    intro hw hu
    rename_i hm _ _ _ _ _ ih2 ih1
    obtain ⟨huk, hus, hur⟩ := ukeys_cons _ _ _ hu
    have h0 := (wellKeyed_old1 _ _ _ _ (.node []) hw huk wellKeyed_nil hm).1
    exact ih1 (wellKeyed_old1 _ _ _ _ _ hw huk (ih2 h0 hus) hm).2.1 hur
  case case6 => intro hw _; exact hw
  case case7 => intro hw _; exact hw
  case case8 =>
    intro hw hu
    rename_i v hv _ _ hl ih
    obtain ⟨huk, _, hur⟩ := ukeys_cons _ _ _ hu
    apply ih _ hur
    have hvw : WellKeyed v := by
      split at hv
      · simp at hv; rw [← hv]; exact .leaf _
      · exact wellKeyed_checkKeyVal env _ _ _ (.leaf _) hv
    rcases updateLeaf_cases _ _ _ _ _ _ _ hl with e | e <;> rw [e]
    · exact hw
    · exact wellKeyed_dset _ _ _ hw huk hvw

theorem ukeys_normaliseTop (env : Env) : ∀ (new new' : List (Key × Tree)), UKeys (.node new) →
    normaliseTop env new = .ok new' → UKeys (.node new') := by
  intro new
  induction new with
  | nil => intro new' h hn; simp [normaliseTop] at hn; subst hn; exact h
  | cons kv rest ih =>
    intro new' h hn
    obtain ⟨k, v⟩ := kv
    obtain ⟨huk, huv, hur⟩ := ukeys_cons _ _ _ h
    simp only [normaliseTop, bind, Except.bind] at hn
    split at hn
    · simp at hn
    · rename_i v' hv
      split at hn
      · simp at hn
      · rename_i rest' hr
        simp at hn
        subst hn
        have hrest := ih rest' hur hr
        have hv' : UKeys v' := by
          unfold checkKeyVal at hv
          split at hv
          · cases hd : validateDevice env v with
            | error e => simp [hd, Except.map] at hv
            | ok a => simp [hd, Except.map] at hv; subst hv; exact .leaf a
          · simp at hv; subst hv; exact huv
        cases hrest with
        | node _ hu hs =>
          refine .node _ ?_ ?_
          · intro k1 t1 hm
            rcases List.mem_cons.mp hm with e | hm
            · cases e; exact huk
            · exact hu k1 t1 hm
          · intro k1 t1 hm
            rcases List.mem_cons.mp hm with e | hm
            · cases e; exact hv'
            · exact hs k1 t1 hm

theorem wellKeyed_refreshP_go (env : Env) : ∀ (ds : List Dict) (cfg : Dict), WellKeyed (.node cfg) →
    (∀ d ∈ ds, UKeys (.node d)) → WellKeyed (.node (refreshP.go env cfg ds).1) := by
  intro ds
  induction ds with
  | nil => intro cfg h _; simpa [refreshP.go] using h
  | cons d rest ih =>
    intro cfg h hall
    have hstep := wellKeyed_updateP env .new false cfg .none d h (hall d (by simp))
    rw [refreshP.go]
    split
    · rename_i cfg' hu
      rw [hu] at hstep
      exact ih cfg' hstep (fun d' hd' => hall d' (by simp [hd']))
    · rename_i cfg' e hu
      rw [hu] at hstep
      exact hstep

/-- the state invariant: configuration well keyed, every registered default uniformly keyed -/
def StateOK (s : State) : Prop := WellKeyed (.node s.config) ∧ ∀ d ∈ s.defaults, UKeys (.node d)

theorem stateOK_refreshP (env : Env) (s : State) (h : StateOK s) : StateOK (refreshP env s).1 :=
  ⟨wellKeyed_refreshP_go env s.defaults [] wellKeyed_nil h.2, h.2⟩

theorem stateOK_updateDefaultsP (env : Env) (s : State) (new : Dict) (h : StateOK s) (hn : UKeys (.node new)) :
    StateOK (updateDefaultsP env s new).1 := by
  unfold updateDefaultsP
  cases h1 : normaliseTop env new with
  | error e => exact h
  | ok new' =>
    cases h2 : merge env s.defaults with
    | error e => exact h
    | ok cur =>
      have hn' := ukeys_normaliseTop env new new' hn h1
      refine ⟨wellKeyed_updateP env _ _ _ _ _ h.1 hn', ?_⟩
      intro d hd
      simp only [List.mem_append, List.mem_singleton] at hd
      rcases hd with hd | hd
      · exact h.2 d hd
      · rw [hd]; exact hn'

end QuantemModel.Config
