import QuantemModel.Lemmas.RegistrationSpectral
import QuantemModel.Model.RegistrationExt
/-!
Growth round 5 lemmas for C13 (Model/RegistrationExt.lean):

* the guarded NumPy parabola is the plain one over ℝ (`x / 0 = 0`), so the entry points with their
  dispatch on `upsample_factor` reduce to the branch functions all earlier theorems are about;
* the `max_shift` mask keeps a positive unique maximum that lies inside the search disc;
* **the upsampled patch of an integer-shifted copy, sampled around the coarse peak, is the patch of
  identical images sampled around zero** (DFT shift theorem + periodicity of the kernels in the
  integer part of the position) — the step that carries "exactly for integer shifts" from
  `upsample_factor ≤ 1` to every factor, for the NumPy and the torch variant.
-/
namespace QuantemModel.Registration
open Finset QuantemModel.Spectral

/-! ### guarded parabola, entry points -/

theorem parabolicT_eq_parabolic (v0 v1 v2 : ℝ) : parabolicT v0 v1 v2 = parabolic v0 v1 v2 := by
  unfold parabolicT parabolic
  dsimp only
  generalize (Num.ofRat 4 * v1 - Num.two * v2 - Num.two * v0 : ℝ) = D
  by_cases hD : D = 0
  · subst hD; simp
  · rcases lt_or_gt_of_ne hD with h | h <;> simp [h]

theorem coarseNpG_eq (M N : ℕ) (cs c : ℕ → ℕ → ℝ) : coarseNpG M N cs c = coarseNp M N cs c := by
  unfold coarseNpG coarseNp
  simp only [parabolicT_eq_parabolic]

theorem upsampledNpOfG_eq (up : ℕ) (x0 y0 : ℝ) (p : ℕ → ℕ → ℝ) :
    upsampledNpOfG up x0 y0 p = upsampledNpOf up x0 y0 p := by
  unfold upsampledNpOfG upsampledNpOf patchRefineG patchRefine
  simp only [parabolicT_eq_parabolic]

/-- the NumPy entry point is `shiftNp1` for `upsample_factor ≤ 1` (0 included) and `shiftNpUp` above -/
theorem shiftNp_eq (M N up : ℕ) (cs c : ℕ → ℕ → ℝ) (F : ℕ → ℕ → Cx ℝ) :
    shiftNp M N up cs c F = if up ≤ 1 then shiftNp1 M N cs c else shiftNpUp M N up cs c F := by
  unfold shiftNp shiftNp1 shiftNpUp
  simp only [coarseNpG_eq, upsampledNpOfG_eq]

/-- the torch entry point is `shiftTorch2` for `upsample_factor ≤ 2` and `shiftTorchUp` above -/
theorem shiftTorch_eq (M N up : ℕ) (c : ℕ → ℕ → ℝ) (F : ℕ → ℕ → Cx ℝ) :
    shiftTorch M N up c F = if up ≤ 2 then shiftTorch2 M N c else shiftTorchUp M N up c F := by
  unfold shiftTorch alignTorch shiftTorch2 shiftTorchUp
  split <;> rfl

/-! ### `max_shift`: a positive unique maximum inside the disc survives the mask -/

theorem masked_uniqueMax_inside {M N : ℕ} (c : ℕ → ℕ → ℝ) (ms : Option ℝ) (p q : ℕ)
    (hin : ∀ m, ms = some m → ((freq M p * freq M p + freq N q * freq N q : ℤ) : ℝ) < m * m)
    (hc : UniqueMaxAt M N c p q) (hpos : 0 < c p q) :
    UniqueMaxAt M N (masked M N ms c) p q := by
  cases ms with
  | none =>
    have : masked M N none c = c := by funext s t; simp [masked]
    rw [this]; exact hc
  | some m =>
    have hm := hin m rfl
    obtain ⟨h0, h0', hmax⟩ := hc
    have hz : masked M N (some m) c p q = c p q := by
      simp only [masked, NumReal.ltb_eq, NumReal.ofInt_eq, NumReal.mul_eq, NumReal.zero_eq]
      rw [if_pos hm]
    refine ⟨h0, h0', ?_⟩
    intro s t hs ht hne
    rw [hz]
    simp only [masked]
    split
    · exact hmax s t hs ht hne
    · simpa using hpos

/-- coarse stage of the NumPy variant on a rolled copy, for ANY search table that has its unique
maximum at the true lag (in particular the `max_shift`-masked one) -/
theorem coarseNp_roll_of {M N : ℕ} (hM : 0 < M) (hN : 0 < N) (x : ℕ → ℕ → ℝ) (a b : ℤ) (cs : ℕ → ℕ → ℝ)
    (hcs : UniqueMaxAt M N cs (wrap M (-a)) (wrap N (-b))) :
    (coarseNp M N cs (corrTable M N x (rollImg M N x a b))).x = ((wrap M (-a) : ℕ) : ℝ) ∧
    (coarseNp M N cs (corrTable M N x (rollImg M N x a b))).y = ((wrap N (-b) : ℕ) : ℝ) := by
  have hpk := argmax2_unique hcs
  have hrow := corrTable_roll_row_symm hM hN x a b
  have hcol := corrTable_roll_col_symm hM hN x a b
  constructor
  · simp only [coarseNp, hpk]
    rw [hrow, parabolic_symm]
    simp only [NumReal.ofNat_eq, add_zero]
    rw [pmod_of_mem (by positivity) (by exact_mod_cast wrap_lt hM (-a))]
  · simp only [coarseNp, hpk]
    rw [hcol, parabolic_symm]
    simp only [NumReal.ofNat_eq, add_zero]
    rw [pmod_of_mem (by positivity) (by exact_mod_cast wrap_lt hN (-b))]

/-- the value of the correlation table at the true lag is the zero-lag autocorrelation -/
theorem corrTable_roll_peak {M N : ℕ} (hM : 0 < M) (hN : 0 < N) (x : ℕ → ℕ → ℝ) (a b : ℤ) :
    corrTable M N x (rollImg M N x a b) (wrap M (-a)) (wrap N (-b)) = cc M N x x 0 0 := by
  unfold corrTable
  rw [cc_roll hM hN, cc_mod hM hN x x (((wrap M (-a) : ℕ) : ℤ) + a) (((wrap N (-b) : ℕ) : ℤ) + b)]
  have h1 : wrap M (((wrap M (-a) : ℕ) : ℤ) + a) = 0 := by
    rw [wrap_eq_zero_iff hM]
    have := wrap_neg_dvd hM a
    simpa using this
  have h2 : wrap N (((wrap N (-b) : ℕ) : ℤ) + b) = 0 := by
    rw [wrap_eq_zero_iff hN]
    have := wrap_neg_dvd hN b
    simpa using this
  rw [h1, h2]
  simp

/-! ### the upsampled patch of a shifted copy -/

/-- two patches agree entry by entry as soon as the summands `K_row[k] · F[k,l] · K_col[l]` agree -/
theorem patchAt_congr {M N up : ℕ} {sgn : ℤ} (F F' : ℕ → ℕ → Cx ℝ) (px py px' py' : ℝ)
    (h : ∀ k < M, ∀ l < N, toC (kern M up sgn px k) * toC (F k l) * toC (kern N up sgn py l)
        = toC (kern M up sgn px' k) * toC (F' k l) * toC (kern N up sgn py' l)) :
    patchAt M N up sgn F px py = patchAt M N up sgn F' px' py' := by
  unfold patchAt colStage colStageK rowStage rowStageK
  have hre : ∀ z : Cx ℝ, z.re = (toC z).re := fun _ => rfl
  rw [hre, hre]
  congr 1
  rw [toC_csum, toC_csum]
  refine Finset.sum_congr rfl fun l hl => ?_
  rw [toC_mul, toC_mul, toC_csum, toC_csum, Finset.sum_mul, Finset.sum_mul]
  refine Finset.sum_congr rfl fun k hk => ?_
  rw [toC_mul, toC_mul]
  exact h k (mem_range.mp hk) l (mem_range.mp hl)

/-- moving the sample position by `up · w` pixels of the upsampled grid (`w` an integer number of
original pixels) multiplies the kernel entry by the `M`-th root of unity `e^{sgn·2πi·w·f_k/M}` -/
theorem toC_kern_add {M up : ℕ} (hM : 0 < M) (hup : 0 < up) (sgn : ℤ) (p : ℝ) (w : ℤ) (k : ℕ) :
    toC (kern M up sgn (p + (up : ℝ) * (w : ℝ)) k) = toC (kern M up sgn p k) * e M (sgn * w * freq M k) := by
  rw [kern_eq, kern_eq, toC_cis, toC_cis, e_eq_exp_ofReal, ← Complex.exp_add]
  congr 1
  unfold kphase
  have hM' : (M : ℂ) ≠ 0 := by exact_mod_cast Nat.ne_of_gt hM
  have hup' : (up : ℂ) ≠ 0 := by exact_mod_cast Nat.ne_of_gt hup
  push_cast
  field_simp

/-- the phases introduced by the shift theorem and by the integer part of the sample position cancel -/
theorem e_shift_cancel {M : ℕ} (hM : 0 < M) (sgn a : ℤ) (k : ℕ) :
    e M (sgn * ((wrap M (-a) : ℕ) : ℤ) * freq M k) * e M (sgn * ((k : ℤ) * a)) = 1 := by
  rw [← e_add, ← e_zero M]
  apply e_congr (Nat.ne_of_gt hM)
  obtain ⟨c1, h1⟩ := wrap_neg_dvd hM a
  obtain ⟨c2, h2⟩ := freq_congr hM k
  refine ⟨sgn * (k * c1 + c2 * ((wrap M (-a) : ℕ) : ℤ)), ?_⟩
  have e1 : ((wrap M (-a) : ℕ) : ℤ) = (M : ℤ) * c1 - a := by linarith
  have e2 : freq M k = (M : ℤ) * c2 + k := by linarith
  rw [e2]
  generalize ((wrap M (-a) : ℕ) : ℤ) = w at e1 ⊢
  subst e1
  ring

/-- **Shift invariance of the upsampled patch.**  If the Fourier table `F1` is `F0` modulated by the
phase ramp of an integer translation `(a, b)` (shift theorem), then the patch of `F1` sampled around
the lag `(-a mod M, -b mod N)` is the patch of `F0` sampled around zero — for every position offset
`(p, q)`, kernel sign and upsampling factor. -/
theorem patchAt_roll {M N up : ℕ} (hM : 0 < M) (hN : 0 < N) (hup : 0 < up) (sgn a b : ℤ) (F0 F1 : ℕ → ℕ → Cx ℝ)
    (hF : ∀ k < M, ∀ l < N, toC (F1 k l) = toC (F0 k l) * (e M (sgn * ((k : ℤ) * a)) * e N (sgn * ((l : ℤ) * b))))
    (p q : ℝ) :
    patchAt M N up sgn F1 (p + (up : ℝ) * ((wrap M (-a) : ℕ) : ℝ)) (q + (up : ℝ) * ((wrap N (-b) : ℕ) : ℝ))
      = patchAt M N up sgn F0 p q := by
  apply patchAt_congr
  intro k hk l hl
  have c1 : (((wrap M (-a) : ℕ) : ℝ)) = ((((wrap M (-a) : ℕ) : ℤ)) : ℝ) := by push_cast; rfl
  have c2 : (((wrap N (-b) : ℕ) : ℝ)) = ((((wrap N (-b) : ℕ) : ℤ)) : ℝ) := by push_cast; rfl
  rw [c1, c2, toC_kern_add hM hup, toC_kern_add hN hup, hF k hk l hl]
  have h1 := e_shift_cancel hM sgn a k
  have h2 := e_shift_cancel hN sgn b l
  calc toC (kern M up sgn p k) * e M (sgn * ((wrap M (-a) : ℕ) : ℤ) * freq M k)
        * (toC (F0 k l) * (e M (sgn * ((k : ℤ) * a)) * e N (sgn * ((l : ℤ) * b))))
        * (toC (kern N up sgn q l) * e N (sgn * ((wrap N (-b) : ℕ) : ℤ) * freq N l))
      = toC (kern M up sgn p k) * toC (F0 k l) * toC (kern N up sgn q l)
        * (e M (sgn * ((wrap M (-a) : ℕ) : ℤ) * freq M k) * e M (sgn * ((k : ℤ) * a)))
        * (e N (sgn * ((wrap N (-b) : ℕ) : ℤ) * freq N l) * e N (sgn * ((l : ℤ) * b))) := by ring
    _ = toC (kern M up sgn p k) * toC (F0 k l) * toC (kern N up sgn q l) := by rw [h1, h2]; ring

/-- shift theorem for the Fourier-domain product the estimators hand to their upsampling kernel -/
theorem toC_ccF_roll {M N : ℕ} (hM : 0 < M) (hN : 0 < N) (x : ℕ → ℕ → ℝ) (a b : ℤ) {k l : ℕ} (hk : k < M) (hl : l < N) :
    toC (ccF (dft2At M N x) (dft2At M N (rollImg M N x a b)) k l)
      = toC (ccF (dft2At M N x) (dft2At M N x) k l) * (e M ((k : ℤ) * a) * e N ((l : ℤ) * b)) := by
  have hM' : M ≠ 0 := Nat.ne_of_gt hM
  have hN' : N ≠ 0 := Nat.ne_of_gt hN
  have himg : imgC (rollImg M N x a b) = roll2 M N a b (imgC x) := by
    funext i j
    simp [roll2, imgC, rollImg, rollIdx, wrap]
  simp only [ccF, toC_mul, toC_conj, toC_dft2At hM' hN']
  rw [himg, dft2_roll2 hM hN _ a b hk hl, map_mul, map_mul, conj_e, conj_e, neg_neg, neg_neg]
  ring

/-- NumPy: `dft_upsample(F_ref·conj(F_im), up, (x0, y0))` for an integer-shifted copy and the coarse
peak `(x0, y0) = (-a mod M, -b mod N)` is the patch of identical images around `(0, 0)` -/
theorem patchNp_roll {M N up : ℕ} (hM : 0 < M) (hN : 0 < N) (hup : 0 < up) (x : ℕ → ℕ → ℝ) (a b : ℤ) :
    patchNp M N up (ccF (dft2At M N x) (dft2At M N (rollImg M N x a b)))
        ((wrap M (-a) : ℕ) : ℝ) ((wrap N (-b) : ℕ) : ℝ)
      = patchNp M N up (ccF (dft2At M N x) (dft2At M N x)) 0 0 := by
  funext u v
  unfold patchNp
  have hp : ∀ (w : ℝ) (u : ℕ), posNp up w u = posNp up (0 : ℝ) u + (up : ℝ) * w := by
    intro w u; simp [posNp]
  rw [hp _ u, hp _ v]
  apply patchAt_roll hM hN hup 1 a b
  intro k hk l hl
  rw [toC_ccF_roll hM hN x a b hk hl]
  simp

/-- torch: the same for `dftUpsample_torch(conj(cc), up, upsampleCenter)` -/
theorem patchTorch_roll {M N up : ℕ} (hM : 0 < M) (hN : 0 < N) (hup : 0 < up) (x : ℕ → ℕ → ℝ) (a b : ℤ) :
    patchTorch M N up (conjF (ccF (dft2At M N x) (dft2At M N (rollImg M N x a b))))
        (centerTorch up (((wrap M (-a) : ℕ) : ℝ))) (centerTorch up (((wrap N (-b) : ℕ) : ℝ)))
      = patchTorch M N up (conjF (ccF (dft2At M N x) (dft2At M N x))) (centerTorch up (0 : ℝ)) (centerTorch up (0 : ℝ)) := by
  funext u v
  unfold patchTorch
  have hp : ∀ (w : ℝ) (u : ℕ), posTorch (centerTorch up w) u = posTorch (centerTorch up (0 : ℝ)) u + (up : ℝ) * w := by
    intro w u; simp [posTorch, centerTorch]; ring
  rw [hp _ u, hp _ v]
  apply patchAt_roll hM hN hup (-1) a b
  intro k hk l hl
  have hc : ∀ (F : ℕ → ℕ → Cx ℝ), toC (conjF F k l) = (starRingEnd ℂ) (toC (F k l)) := fun F => by
    simp [conjF]
  rw [hc, hc, toC_ccF_roll hM hN x a b hk hl, map_mul, map_mul, conj_e, conj_e]
  simp

/-- the snapped position of an integer coarse position is that integer -/
theorem snapTorch_nat {up : ℕ} (hup : 0 < up) (w : ℕ) : snapTorch up ((w : ℕ) : ℝ) = (w : ℝ) := by
  unfold snapTorch
  have h : ((w : ℝ)) * ((up : ℕ) : ℝ) = (((w * up : ℕ) : ℤ) : ℝ) := by push_cast; ring
  simp only [NumReal.ofNat_eq, NumReal.ofInt_eq, NumReal.mul_eq, NumReal.div_eq]
  rw [h, roundHalfEven_int]
  have : (up : ℝ) ≠ 0 := by exact_mod_cast Nat.ne_of_gt hup
  push_cast
  field_simp

/-- NumPy: with the patch of identical images, the upsampled branch returns the coarse position -/
theorem upsampledNpOf_centre (M N up : ℕ) (hup : 1 ≤ up) (x0 y0 : ℝ) (G : ℕ → ℕ → Cx ℝ)
    (hstrict : UniqueMaxAt (sideNp up) (sideNp up) (patchNp M N up (ccF G G) 0 0) (du up) (du up)) :
    upsampledNpOf up x0 y0 (patchNp M N up (ccF G G) 0 0) = (x0, y0) := by
  obtain ⟨hsym1, hsym2⟩ := patchNp_identical_sym M N up hup G
  have hdu := du_pos hup
  unfold upsampledNpOf
  simp only [argmax2_unique hstrict]
  have hcond : 1 ≤ du up ∧ du up + 2 ≤ sideNp up ∧ 1 ≤ du up ∧ du up + 2 ≤ sideNp up := by
    unfold sideNp; omega
  simp only [patchRefine, hcond, and_self, if_true]
  rw [hsym1, hsym2, parabolic_symm, parabolic_symm]
  have hs : (sideNp up / 2 : ℕ) = du up := by unfold sideNp; omega
  simp [finalNp, hs]

/-- torch: the same for `upsampled_correlation_torch` -/
theorem upsampledTorchOf_centre (M N up : ℕ) (hup : 2 ≤ up) (xs ys : ℝ) (G : ℕ → ℕ → Cx ℝ)
    (hstrict : UniqueMaxAt (sideTorch up) (sideTorch up)
      (patchTorch M N up (conjF (ccF G G)) (centerTorch up (0 : ℝ)) (centerTorch up (0 : ℝ))) (gShift up) (gShift up)) :
    upsampledTorchOf up xs ys
      (patchTorch M N up (conjF (ccF G G)) (centerTorch up (0 : ℝ)) (centerTorch up (0 : ℝ))) = (xs, ys) := by
  have hF := conjF_self_im G
  have hg : 1 ≤ gShift up := by unfold gShift du; omega
  have hc : posTorch (centerTorch up (0 : ℝ)) (gShift up) = 0 := by rw [posTorch_centre]; simp
  have h1 : posTorch (centerTorch up (0 : ℝ)) (gShift up - 1) = -posTorch (centerTorch up (0 : ℝ)) (gShift up + 1) := by
    rw [posTorch_centre, posTorch_centre]
    push_cast [Nat.cast_sub hg]; ring
  have hsym1 : patchTorch M N up (conjF (ccF G G)) (centerTorch up (0 : ℝ)) (centerTorch up (0 : ℝ)) (gShift up - 1) (gShift up)
      = patchTorch M N up (conjF (ccF G G)) (centerTorch up (0 : ℝ)) (centerTorch up (0 : ℝ)) (gShift up + 1) (gShift up) := by
    show patchAt M N up (-1) (conjF (ccF G G)) _ _ = patchAt M N up (-1) (conjF (ccF G G)) _ _
    rw [hc, h1, patchAt_row_even _ _ _ _ _ hF]
  have hsym2 : patchTorch M N up (conjF (ccF G G)) (centerTorch up (0 : ℝ)) (centerTorch up (0 : ℝ)) (gShift up) (gShift up - 1)
      = patchTorch M N up (conjF (ccF G G)) (centerTorch up (0 : ℝ)) (centerTorch up (0 : ℝ)) (gShift up) (gShift up + 1) := by
    show patchAt M N up (-1) (conjF (ccF G G)) _ _ = patchAt M N up (-1) (conjF (ccF G G)) _ _
    rw [hc, h1, patchAt_col_even _ _ _ _ _ hF]
  unfold upsampledTorchOf
  simp only [argmax2_unique hstrict]
  have hcond : 1 ≤ gShift up ∧ gShift up + 2 ≤ sideTorch up ∧ 1 ≤ gShift up ∧ gShift up + 2 ≤ sideTorch up := by
    unfold sideTorch gShift du; omega
  simp only [patchRefine, hcond, and_self, if_true]
  rw [hsym1, hsym2, parabolic_symm, parabolic_symm]
  simp [finalTorch]

end QuantemModel.Registration
