import QuantemModel.Lemmas.ResampleNd
/-! C06, growth round 6: the per-axis steps of the N-D resampling fold commute (the open end of
round 5).  The unscaled 1-D operator is a linear map with an explicit kernel `kerC n m j i`
(depending on the lengths only); two steps along different axes are therefore the same double sum
read in two orders, and the fold is invariant under every permutation of its (axis, length) pairs. -/
namespace QuantemModel.Resample
open QuantemModel QuantemModel.Dft QuantemModel.Nd Complex

/-- kernel of the unscaled 1-D operator `resample1U`: output sample `j` is `Σ_i kerC n m j i · x[i]` -/
noncomputable def kerC (n m j i : ℕ) : ℂ :=
  (1 / (m : ℂ)) * ∑ k' ∈ Finset.range m,
    (match srcBin n m k' with
      | some k => (zeta n)⁻¹ ^ (k * i % n)
      | none => 0) * (zeta m) ^ (k' * j % m)

/-- the unscaled operator written out in ℂ (as `resample1_getD`, without the `m/n` factor) -/
theorem resample1U_getD (x : List (Cx ℝ)) (m j : ℕ) (hj : j < m) :
    toC ((resample1U m x).getD j Cx.zero) =
      (1 / (m : ℂ)) * ∑ k' ∈ Finset.range m,
        (match srcBin x.length m k' with
          | some k => ∑ i ∈ Finset.range x.length, toC (x.getD i Cx.zero) * (zeta x.length)⁻¹ ^ (k * i % x.length)
          | none => 0) * (zeta m) ^ (k' * j % m) := by
  unfold resample1U
  have hY : (spectrumMap Cx.zero x.length m (dft x)).length = m :=
    length_spectrumMap _ _ _ _ (length_dft x)
  rw [toC_idft_getD _ j (by rw [hY]; exact hj), hY]
  congr 1
  apply Finset.sum_congr rfl
  intro k' hk'
  congr 1
  have hk'' := Finset.mem_range.mp hk'
  rw [List.getD_eq_getElem?_getD, getElem?_spectrumMap _ _ _ _ (length_dft x) k' hk'']
  cases hs : srcBin x.length m k' with
  | none => simp
  | some k =>
    simp only
    have hk := srcBin_lt hk'' hs
    have := toC_dft_getD x k hk
    rw [List.getD_eq_getElem?_getD] at this
    rw [this]

/-- **kernel form**: `resample1U` is the linear map with matrix `kerC` -/
theorem resample1U_kernel (x : List (Cx ℝ)) (m j : ℕ) (hj : j < m) :
    toC ((resample1U m x).getD j Cx.zero)
      = ∑ i ∈ Finset.range x.length, kerC x.length m j i * toC (x.getD i Cx.zero) := by
  rw [resample1U_getD x m j hj]
  unfold kerC
  have h1 : ∀ k' ∈ Finset.range m,
      (match srcBin x.length m k' with
        | some k => ∑ i ∈ Finset.range x.length, toC (x.getD i Cx.zero) * (zeta x.length)⁻¹ ^ (k * i % x.length)
        | none => 0) * (zeta m) ^ (k' * j % m)
      = ∑ i ∈ Finset.range x.length, toC (x.getD i Cx.zero) * ((match srcBin x.length m k' with
        | some k => (zeta x.length)⁻¹ ^ (k * i % x.length)
        | none => 0) * (zeta m) ^ (k' * j % m)) := by
    intro k' _
    cases srcBin x.length m k' with
    | none => simp
    | some k =>
      simp only
      rw [Finset.sum_mul]
      apply Finset.sum_congr rfl
      intro i _
      ring
  rw [Finset.sum_congr rfl h1, Finset.sum_comm, Finset.mul_sum]
  apply Finset.sum_congr rfl
  intro i _
  rw [← Finset.mul_sum]
  ring

/-- element access of one fold step through the kernel -/
theorem alongAxis_get_kernel (a : Arr (Cx ℝ)) (ax m : ℕ) (hax : ax < a.shape.length) {j : List ℕ}
    (hj : InBox (a.shape.set ax m) j) :
    toC ((alongAxis a ax m (resample1U m)).get j)
      = ∑ i ∈ Finset.range (a.shape.getD ax 1),
          kerC (a.shape.getD ax 1) m (j.getD ax 0) i * toC (a.get (j.set ax i)) := by
  rw [alongAxis_get _ _ _ _ hj]
  have hjm : j.getD ax 0 < m := by
    have := InBox_getD_lt hj (by simpa using hax)
    simpa [List.getD_eq_getElem?_getD, hax] using this
  have := resample1U_kernel (line a ax j) m (j.getD ax 0) hjm
  rw [line_length] at this
  show toC ((resample1U m (line a ax j)).getD (j.getD ax 0) Cx.zero) = _
  rw [this]
  apply Finset.sum_congr rfl
  intro i hi
  rw [line_getD a ax j i Cx.zero (Finset.mem_range.mp hi)]

/-- two steps along different axes, written as a double sum over the original array -/
theorem alongAxis2_get (a : Arr (Cx ℝ)) (ax1 m1 ax2 m2 : ℕ) (hne : ax1 ≠ ax2)
    (h1 : ax1 < a.shape.length) (h2 : ax2 < a.shape.length) {j : List ℕ}
    (hj : InBox ((a.shape.set ax1 m1).set ax2 m2) j) :
    toC ((alongAxis (alongAxis a ax1 m1 (resample1U m1)) ax2 m2 (resample1U m2)).get j)
      = ∑ l ∈ Finset.range (a.shape.getD ax2 1), ∑ i ∈ Finset.range (a.shape.getD ax1 1),
          kerC (a.shape.getD ax2 1) m2 (j.getD ax2 0) l *
            (kerC (a.shape.getD ax1 1) m1 (j.getD ax1 0) i * toC (a.get ((j.set ax2 l).set ax1 i))) := by
  have hs : (alongAxis a ax1 m1 (resample1U m1)).shape = a.shape.set ax1 m1 := rfl
  have hn2 : (a.shape.set ax1 m1).getD ax2 1 = a.shape.getD ax2 1 := getD_set_ne _ _ _ _ _ hne
  rw [alongAxis_get_kernel _ ax2 m2 (by rw [hs]; simpa using h2) (by rw [hs]; exact hj)]
  rw [hs, hn2]
  apply Finset.sum_congr rfl
  intro l hl
  have hb : InBox (a.shape.set ax1 m1) (j.set ax2 l) := by
    have := InBox_set (ax := ax2) (m := a.shape.getD ax2 1) (i := l) hj (Finset.mem_range.mp hl)
    rwa [List.set_set, ← hn2, set_getD_self'] at this
  rw [alongAxis_get_kernel a ax1 m1 h1 hb, getD_set_ne j ax2 ax1 l 0 hne.symm, Finset.mul_sum]

/-- **two fold steps along different axes commute** -/
theorem alongAxis_comm (a : Arr (Cx ℝ)) (ax1 m1 ax2 m2 : ℕ) (hne : ax1 ≠ ax2)
    (h1 : ax1 < a.shape.length) (h2 : ax2 < a.shape.length) :
    alongAxis (alongAxis a ax1 m1 (resample1U m1)) ax2 m2 (resample1U m2)
      = alongAxis (alongAxis a ax2 m2 (resample1U m2)) ax1 m1 (resample1U m1) := by
  have hsh : (a.shape.set ax1 m1).set ax2 m2 = (a.shape.set ax2 m2).set ax1 m1 := List.set_comm _ _ hne
  apply arr_ext
  · simp only [alongAxis_shape]; exact hsh
  · exact wf_alongAxis _ _ _ _
  · exact wf_alongAxis _ _ _ _
  · intro j hj
    simp only [alongAxis_shape] at hj
    apply toC_inj
    rw [alongAxis2_get a ax1 m1 ax2 m2 hne h1 h2 hj,
      alongAxis2_get a ax2 m2 ax1 m1 hne.symm h2 h1 (by rw [← hsh]; exact hj), Finset.sum_comm]
    apply Finset.sum_congr rfl
    intro i _
    apply Finset.sum_congr rfl
    intro l _
    rw [List.set_comm _ _ hne.symm]
    ring

/-- **the fold is invariant under every permutation of its (axis, new length) pairs** (distinct
valid axes): the order in which `fourier_resample` was given its axes is immaterial. -/
theorem resampleFold_perm {l1 l2 : List (ℕ × ℕ)} (hp : l1.Perm l2) :
    ∀ (a : Arr (Cx ℝ)), (l1.map Prod.fst).Nodup → (∀ p ∈ l1, p.1 < a.shape.length) →
      resampleFold a l1 = resampleFold a l2 := by
  induction hp with
  | nil => intro a _ _; rfl
  | cons x _ ih =>
    intro a hnd hv
    rw [resampleFold_cons, resampleFold_cons]
    simp only [List.map_cons, List.nodup_cons] at hnd
    exact ih _ hnd.2 (fun p hp => by
      rw [alongAxis_shape, List.length_set]; exact hv p (List.mem_cons_of_mem _ hp))
  | swap x y l =>
    intro a hnd hv
    rw [resampleFold_cons, resampleFold_cons, resampleFold_cons, resampleFold_cons]
    have hne : y.1 ≠ x.1 := by
      simp only [List.map_cons, List.nodup_cons, List.mem_cons, not_or] at hnd
      exact hnd.1.1
    rw [alongAxis_comm a y.1 y.2 x.1 x.2 hne (hv y (by simp)) (hv x (by simp))]
  | trans h12 _ ih1 ih2 =>
    intro a hnd hv
    rw [ih1 a hnd hv]
    exact ih2 a ((h12.map Prod.fst).nodup_iff.mp hnd) (fun p hp => hv p (h12.mem_iff.mpr hp))

theorem prod_perm {l1 l2 : List ℕ} (h : l1.Perm l2) : prod l1 = prod l2 := by
  induction h with
  | nil => rfl
  | cons x _ ih => simp only [prod, ih]
  | swap x y l => simp only [prod]; exact Nat.mul_left_comm _ _ _
  | trans _ _ ih1 ih2 => exact ih1.trans ih2

theorem length_resampleShapeN : ∀ (pairs : List (ℕ × ℕ)) (s : List ℕ), (resampleShapeN s pairs).length = s.length := by
  intro pairs
  induction pairs with
  | nil => intro s; rfl
  | cons p t ih =>
    intro s
    have : resampleShapeN s (p :: t) = resampleShapeN (s.set p.1 p.2) t := rfl
    rw [this, ih, List.length_set]

theorem shape_length_resampleNd (a : Arr (Cx ℝ)) (axes outs : List ℕ) (r : Bool) :
    (resampleNd a axes outs r).shape.length = a.shape.length := by
  have : (resampleNd a axes outs r).shape = (resampleFold a (axes.zip outs)).shape := rfl
  rw [this, shape_resampleFold, length_resampleShapeN]

/-- **`fourier_resample` does not depend on the order of its (axis, length) pairs** (N-D operator with
the `.real` step and the rescale, distinct valid axes). -/
theorem resampleNd_perm (a : Arr (Cx ℝ)) (axes outs axes' outs' : List ℕ) (isReal : Bool)
    (hl : axes.length = outs.length) (hl' : axes'.length = outs'.length)
    (hp : (axes.zip outs).Perm (axes'.zip outs')) (hnd : axes.Nodup)
    (hv : ∀ ax ∈ axes, ax < a.shape.length) :
    resampleNd a axes outs isReal = resampleNd a axes' outs' isReal := by
  have hax : axes.Perm axes' := by
    have := hp.map Prod.fst
    rwa [List.map_fst_zip (by omega), List.map_fst_zip (by omega)] at this
  have hou : outs.Perm outs' := by
    have := hp.map Prod.snd
    rwa [List.map_snd_zip (by omega), List.map_snd_zip (by omega)] at this
  have hf : resampleFold a (axes.zip outs) = resampleFold a (axes'.zip outs') :=
    resampleFold_perm hp a (by rw [List.map_fst_zip (by omega)]; exact hnd)
      (fun p hp => hv p.1 (List.of_mem_zip hp).1)
  unfold resampleNd
  simp only
  rw [hf, prod_perm hou, prod_perm (hax.map _)]

/-- **N-D round trip with the axes given in the SAME order both times** (complex data, rescales
included): the round-5 statement needed the axes reversed on the way back. -/
theorem resampleNd_up_down_same_order (a : Arr (Cx ℝ)) (ha : WFArr a) (axes outs : List ℕ) (hnd : axes.Nodup)
    (hl : axes.length = outs.length) (hv : ∀ ax ∈ axes, ax < a.shape.length)
    (h : UpOk a.shape (axes.zip outs)) (hok : PairsOk a.shape (axes.zip outs)) :
    resampleNd (resampleNd a axes outs false) axes (axes.map fun ax => a.shape.getD ax 1) false = a := by
  have hz : axes.reverse.zip (axes.map fun ax => a.shape.getD ax 1).reverse
      = (axes.zip (axes.map fun ax => a.shape.getD ax 1)).reverse := by
    rw [List.zip_eq_zipWith, List.zip_eq_zipWith, List.reverse_zipWith (by simp)]
  rw [resampleNd_perm (resampleNd a axes outs false) axes (axes.map fun ax => a.shape.getD ax 1)
    axes.reverse (axes.map fun ax => a.shape.getD ax 1).reverse false (by simp) (by simp)
    (by rw [hz]; exact (List.reverse_perm _).symm) hnd
    (fun ax hax => by rw [shape_length_resampleNd]; exact hv ax hax)]
  exact resampleNd_up_down a ha axes outs hnd hl hv h hok

/-- reversing the order of the (axis, length) pairs changes nothing -/
theorem resampleNd_reverse (b : Arr (Cx ℝ)) (axes L : List ℕ) (r : Bool) (hl : axes.length = L.length)
    (hnd : axes.Nodup) (hv : ∀ ax ∈ axes, ax < b.shape.length) :
    resampleNd b axes L r = resampleNd b axes.reverse L.reverse r := by
  have hz : axes.reverse.zip L.reverse = (axes.zip L).reverse := by
    rw [List.zip_eq_zipWith, List.zip_eq_zipWith, List.reverse_zipWith hl]
  exact resampleNd_perm b axes L axes.reverse L.reverse r hl (by simp [hl])
    (by rw [hz]; exact (List.reverse_perm _).symm) hnd hv

/-- N-D round trip on REAL arrays with the axes given in the same order both times -/
theorem resampleNd_up_down_real_same_order (a : Arr (Cx ℝ)) (ha : WFArr a) (hr : IsRealArr a) (axes outs : List ℕ)
    (hnd : axes.Nodup) (hl : axes.length = outs.length) (hv : ∀ ax ∈ axes, ax < a.shape.length)
    (h : RealUp a (axes.zip outs)) :
    resampleNd (resampleNd a axes outs true) axes (axes.map fun ax => a.shape.getD ax 1) true = a := by
  rw [resampleNd_reverse (resampleNd a axes outs true) axes (axes.map fun ax => a.shape.getD ax 1) true (by simp) hnd
    (fun ax hax => by rw [shape_length_resampleNd]; exact hv ax hax)]
  exact resampleNd_up_down_real a ha hr axes outs hnd hl hv h

end QuantemModel.Resample
