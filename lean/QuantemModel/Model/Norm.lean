/-
C20 — hand model of the interval / composition / preset part of
  src/quantem/core/visualization/custom_normalizations.py
(the *Stretch classes and the element-wise part of `BaseInterval.__call__/inverse` are NOT modelled by
hand: Generated/Stretch.lean is regenerated from their source on every run).  Core Lean only; written once over `[Num R]`, executed at
`Float` by Driver/C20.lean, reasoned about at `ℝ` in Lemmas/Norm.lean and Props/C20.lean.

Pixels are `Ext R` (`nan | negInf | posInf | fin x`) so that NaN/inf propagation is explicit
and can be stated over ℝ.  Integer images are modelled by their float64 values: the code
converts integer input to float64 before any arithmetic (`BaseInterval.__call__`,
`CustomNormalization._set_limits`).
-/
import QuantemModel.Generated.Stretch
namespace QuantemModel.Norm
open QuantemModel QuantemModel.Generated.Stretch

/-- one pixel, classified as IEEE does -/
inductive Ext (R : Type) where
  | nan | negInf | posInf
  | fin (x : R)
  deriving Repr

inductive Err where
  | valueError | typeError | indexError
  deriving Repr, DecidableEq

section
variable {R : Type} [Num R]

/-! ### BaseInterval.__call__ / inverse -/

/-- `BaseInterval.__call__` on one finite pixel, limits already known:
```
values = np.subtract(values, vmin)
if (vmax - vmin) != 0.0: np.true_divide(values, vmax - vmin, out=values)
np.clip(values, 0.0, 1.0, out=values)
```
NOT written by hand: it is the text the tracer regenerates from `BaseInterval.__call__` on every run
(`Generated/Stretch.lean`, `baseIntervalCall`); `NormLemmas.intervalFin_eq` ties it to the closed form. -/
def intervalFin (vmin vmax x : R) : R := baseIntervalCall vmin vmax x

/-- the same three statements on a NaN / ±inf pixel (finite limits): NaN stays NaN through
subtract/divide/clip; `+inf - vmin = +inf`, dividing by a negative range flips the sign, the
clip sends `+inf ↦ 1`, `-inf ↦ 0`. -/
def intervalExt (vmin vmax : R) : Ext R → Ext R
  | .nan => .nan
  | .fin x => .fin (intervalFin vmin vmax x)
  | .posInf => if Num.ltb (vmax - vmin) (Num.ofRat 0) then .fin (Num.ofRat 0) else .fin (Num.ofRat 1)
  | .negInf => if Num.ltb (vmax - vmin) (Num.ofRat 0) then .fin (Num.ofRat 1) else .fin (Num.ofRat 0)

/-- `BaseInterval.inverse`: `values * (vmax - vmin) + vmin` — the traced text (`baseIntervalInverse`),
tied to this closed form by `NormLemmas.intervalInverse_eq` -/
def intervalInverse (vmin vmax y : R) : R := baseIntervalInverse vmin vmax y

/-! ### get_limits -/

/-- `values[np.isfinite(values)]` -/
def finiteVals : List (Ext R) → List R
  | [] => []
  | .fin x :: t => x :: finiteVals t
  | _ :: t => finiteVals t

/-- `np.min` of a non-empty selection -/
def minL : List R → Option R
  | [] => none
  | x :: t => some (t.foldl (fun m y => if Num.ltb y m then y else m) x)
/-- `np.max` of a non-empty selection -/
def maxL : List R → Option R
  | [] => none
  | x :: t => some (t.foldl (fun m y => if Num.ltb m y then y else m) x)

/-- `np.min/np.max` raise ValueError on an empty selection -/
def orValueError (o : Option R) : Except Err R :=
  match o with | some x => .ok x | none => .error .valueError

/-- `ManualInterval.get_limits` -/
def manualLimits (vmin vmax : Option R) (data : List (Ext R)) : Except Err (R × R) :=
  match vmin, vmax with
  | some a, some b => .ok (a, b)            -- both given: data not looked at
  | _, _ => do
    let f := finiteVals data
    let lo ← match vmin with | some a => pure a | none => orValueError (minL f)
    let hi ← match vmax with | some b => pure b | none => orValueError (maxL f)
    pure (lo, hi)

/-- `CenteredInterval.get_limits` -/
def centeredLimits (vcenter : R) (half : Option R) (data : List (Ext R)) : Except Err (R × R) :=
  match half with
  | some h => .ok (vcenter - h, vcenter + h)
  | none => do
    let f := finiteVals data
    let lo ← orValueError (minL f)
    let hi ← orValueError (maxL f)
    -- np.maximum(np.abs(vmin - vcenter), np.abs(vmax - vcenter))
    let h := Num.max (Num.abs (lo - vcenter)) (Num.abs (hi - vcenter))
    pure (vcenter - h, vcenter + h)

/-- `floor(vi)` for `0 ≤ vi`, searched among `k, k-1, …, 0` -/
def floorIdx (vi : R) : Nat → Nat
  | 0 => 0
  | k + 1 => if Num.leb (Num.ofNat (k + 1)) vi then k + 1 else floorIdx vi k

/-- NumPy `_lerp(a, b, t)`: `a + (b-a)*t`, replaced by `b - (b-a)*(1-t)` where `t ≥ 0.5` -/
def lerp (a b t : R) : R :=
  let d := b - a
  if Num.leb (Num.ofRat (1 / 2)) t then b - d * (Num.ofRat 1 - t) else a + d * t

/-- NumPy `quantile(..., method="linear")` of an already sorted non-empty list:
virtual index `(n-1)*q`, neighbours `floor`/`floor+1`, both the last element when the
index reaches `n-1`, `gamma = index - floor`, `_lerp`. -/
def quantileSorted (s : List R) (q : R) : R :=
  let n := s.length
  let vi := Num.ofNat (n - 1) * q
  if Num.leb (Num.ofNat (n - 1)) vi then s.getD (n - 1) (Num.ofRat 0)
  else if Num.ltb vi (Num.ofRat 0) then s.getD 0 (Num.ofRat 0)
  else
    let k := floorIdx vi (n - 1)
    lerp (s.getD k (Num.ofRat 0)) (s.getD (k + 1) (Num.ofRat 0)) (vi - Num.ofNat k)

/-- `QuantileInterval.get_limits`: `np.quantile(finite values, (lower, upper))` -/
def quantileLimits (lowerQ upperQ : R) (data : List (Ext R)) : Except Err (R × R) :=
  let okq (q : R) : Bool := Num.leb (Num.ofRat 0) q && Num.leb q (Num.ofRat 1)
  if !(okq lowerQ && okq upperQ) then .error .valueError   -- "Quantiles must be in the range [0, 1]"
  else
    let s := (finiteVals data).mergeSort (fun a b => Num.leb a b)
    if s.isEmpty then .error .indexError
    else .ok (quantileSorted s lowerQ, quantileSorted s upperQ)

inductive Interval (R : Type) where
  | quantile (lowerQ upperQ : R)
  | manual (vmin vmax : Option R)
  | centered (vcenter : R) (half : Option R)

def Interval.getLimits : Interval R → List (Ext R) → Except Err (R × R)
  | .quantile lo hi, d => quantileLimits lo hi d
  | .manual a b, d => manualLimits a b d
  | .centered c h, d => centeredLimits c h d

/-! ### the stretch held by a CustomNormalization -/

inductive Stretch (R : Type) where
  | linear (s : LinearStretch R)
  | power (s : PowerLawStretch R)
  | log (s : LogarithmicStretch R)
  | invlog (s : InverseLogarithmicStretch R)
  | asinh (s : InverseHyperbolicSineStretch R)
  | sinh (s : HyperbolicSineStretch R)

def Stretch.call : Stretch R → R → R
  | .linear s, x => s.call x
  | .power s, x => s.call x
  | .log s, x => s.call x
  | .invlog s, x => s.call x
  | .asinh s, x => s.call x
  | .sinh s, x => s.call x

def Stretch.valid : Stretch R → Bool
  | .linear s => s.valid
  | .power s => s.valid
  | .log s => s.valid
  | .invlog s => s.valid
  | .asinh s => s.valid
  | .sinh s => s.valid

/-- the `inverse` property of whichever class is held -/
def Stretch.inverse : Stretch R → Stretch R
  | .linear s => .linear s.inverse
  | .power s => .power s.inverse
  | .log s => .invlog s.inverse
  | .invlog s => .log s.inverse
  | .asinh s => .sinh s.inverse
  | .sinh s => .asinh s.inverse

/-! ### NormalizationConfig, presets, _resolve_normalization -/

structure Config (R : Type) where
  intervalType : String
  stretchType : String
  lowerQ : R
  upperQ : R
  vmin : Option R
  vmax : Option R
  vcenter : R
  halfRange : Option R
  power : R
  logIndex : R
  asinhRange : R

/-- `NormalizationConfig()` -/
def Config.default : Config R :=
  { intervalType := "quantile", stretchType := "linear",
    lowerQ := Num.ofRat (1 / 50), upperQ := Num.ofRat (49 / 50),
    vmin := none, vmax := none, vcenter := Num.ofRat 0, halfRange := none,
    power := Num.ofRat 1, logIndex := Num.ofRat 1000, asinhRange := Num.ofRat (1 / 10) }

/-- `NORMALIZATION_PRESETS` (each lambda evaluated) -/
def presets : List (String × Config R) :=
  let d : Config R := Config.default
  [ ("linear_auto", d),
    ("quantile", d),
    ("linear_minmax", { d with intervalType := "manual" }),
    ("minmax", { d with intervalType := "manual" }),
    ("linear_centered", { d with intervalType := "centered" }),
    ("log_auto", { d with stretchType := "logarithmic" }),
    ("log_minmax", { d with stretchType := "logarithmic", intervalType := "manual" }),
    ("power_squared", { d with stretchType := "power", power := Num.ofRat 2 }),
    ("power_sqrt", { d with stretchType := "power", power := Num.ofRat (1 / 2) }),
    ("asinh_centered", { d with stretchType := "asinh", intervalType := "centered" }) ]

def presetNames : List String := (presets (R := Rat)).map (·.1)

def lookupPreset (name : String) : Option (Config R) :=
  (presets.find? (fun p => p.1 == name)).map (·.2)

/-- a keyword / dict value -/
inductive KwVal (R : Type) where
  | none
  | num (x : R)
  | str (s : String)

def kwGet (kw : List (String × KwVal R)) (k : String) : Option (KwVal R) :=
  (kw.find? (fun p => p.1 == k)).map (·.2)

def kwNumOpt : Option (KwVal R) → Option R
  | some (.num x) => some x
  | _ => none

/-- `NormalizationConfig(**d)`: unknown field name → TypeError -/
def configOfDict (kvs : List (String × KwVal R)) : Except Err (Config R) :=
  kvs.foldlM (fun (c : Config R) (kv : String × KwVal R) =>
    match kv.1, kv.2 with
    | "interval_type", .str s => .ok { c with intervalType := s }
    | "stretch_type", .str s => .ok { c with stretchType := s }
    | "lower_quantile", .num x => .ok { c with lowerQ := x }
    | "upper_quantile", .num x => .ok { c with upperQ := x }
    | "vmin", .num x => .ok { c with vmin := some x }
    | "vmin", .none => .ok { c with vmin := none }
    | "vmax", .num x => .ok { c with vmax := some x }
    | "vmax", .none => .ok { c with vmax := none }
    | "vcenter", .num x => .ok { c with vcenter := x }
    | "half_range", .num x => .ok { c with halfRange := some x }
    | "half_range", .none => .ok { c with halfRange := none }
    | "power", .num x => .ok { c with power := x }
    | "logarithmic_index", .num x => .ok { c with logIndex := x }
    | "asinh_linear_range", .num x => .ok { c with asinhRange := x }
    | _, _ => .error .typeError) Config.default

inductive NormArg (R : Type) where
  | none
  | dict (kvs : List (String × KwVal R))
  | name (s : String)
  | config (c : Config R)
  | other

/-- `_resolve_normalization(norm, **kwargs)` -/
def resolve (norm : NormArg R) (kw : List (String × KwVal R)) : Except Err (Config R) :=
  match norm with
  | .none =>
    if (kwGet kw "vmin").isSome || (kwGet kw "vmax").isSome then
      .ok { (Config.default : Config R) with
            intervalType := "manual",
            stretchType := (match kwGet kw "stretch_type" with | some (.str s) => s | _ => "linear"),
            vmin := kwNumOpt (kwGet kw "vmin"), vmax := kwNumOpt (kwGet kw "vmax") }
    else if (kwGet kw "lower_quantile").isSome || (kwGet kw "upper_quantile").isSome then
      .ok { (Config.default : Config R) with
            intervalType := "quantile",
            lowerQ := (kwNumOpt (kwGet kw "lower_quantile")).getD (Num.ofRat (1 / 50)),
            upperQ := (kwNumOpt (kwGet kw "upper_quantile")).getD (Num.ofRat (49 / 50)) }
    else .ok Config.default
  | .dict kvs => configOfDict kvs
  | .name s => match lookupPreset s with | some c => .ok c | none => .error .valueError
  | .config c => .ok c
  | .other => .error .typeError

/-! ### CustomNormalization -/

structure Norm (R : Type) where
  interval : Interval R
  stretch : Stretch R
  vmin : Option R
  vmax : Option R

/-- the `interval_type` chain of `CustomNormalization.__init__` -/
def selectInterval (c : Config R) : Except Err (Interval R) :=
  if c.intervalType == "quantile" then .ok (.quantile c.lowerQ c.upperQ)
  else if c.intervalType == "manual" then .ok (.manual c.vmin c.vmax)
  else if c.intervalType == "centered" then .ok (.centered c.vcenter c.halfRange)
  else .error .valueError                                    -- "unrecognized interval_type."

/-- the `stretch_type` chain: `power != 1.0` overrides the named type -/
def selectStretch (c : Config R) : Except Err (Stretch R) :=
  if c.stretchType == "power" || fne c.power (Num.ofRat 1) then .ok (.power { power := c.power })
  else if c.stretchType == "linear" then .ok (.linear LinearStretch.default)
  else if c.stretchType == "logarithmic" then .ok (.log { a := c.logIndex })
  else if c.stretchType == "asinh" then .ok (.asinh { a := c.asinhRange })
  else .error .valueError                                    -- "unrecognized stretch_type."

/-- `CustomNormalization.__init__` without `data`; every failure is a ValueError (unknown type
names, or the selected stretch's `__post_init__` guard) -/
def Norm.init (c : Config R) : Except Err (Norm R) :=
  match selectInterval c, selectStretch c with
  | .error e, _ => .error e
  | .ok _, .error e => .error e
  | .ok interval, .ok stretch =>
    if stretch.valid then .ok { interval := interval, stretch := stretch, vmin := c.vmin, vmax := c.vmax }
    else .error .valueError

/-- `_set_limits(data)` (`isBool`: `data.dtype == bool` short-cut) -/
def Norm.setLimits (n : Norm R) (isBool : Bool) (data : List (Ext R)) : Except Err (Norm R) :=
  if isBool then
    .ok { n with vmin := some (Num.ofRat 0), vmax := some (Num.ofRat 1),
                 interval := .manual (some (Num.ofRat 0)) (some (Num.ofRat 1)) }
  else do
    let (lo, hi) ← n.interval.getLimits data
    pure { n with vmin := some lo, vmax := some hi, interval := .manual (some lo) (some hi) }

/-- `CustomNormalization(..., data=data)` -/
def Norm.create (c : Config R) (data : Option (Bool × List (Ext R))) : Except Err (Norm R) := do
  let n ← Norm.init c
  match data with
  | none => pure n
  | some (isBool, d) => n.setLimits isBool d

/-- finite float test usable at every carrier: `y - y == y - y` fails exactly for NaN/±inf -/
def isFiniteB (y : R) : Bool := feq (y - y) (y - y)

/-- `np.ma.masked_invalid`: `none` = masked -/
def maskInvalid : Ext R → Option R
  | .fin y => if isFiniteB y then some y else none
  | _ => none

/-- `self.stretch(values, copy=False)` on the interval's output -/
def stretchExt (s : Stretch R) : Ext R → Ext R
  | .fin x => .fin (s.call x)
  | .nan => .nan
  | .posInf => .posInf     -- not reachable after the interval's clip
  | .negInf => .negInf

/-- one pixel through `CustomNormalization.__call__`, limits known -/
def normPixel (s : Stretch R) (vmin vmax : R) (x : Ext R) : Option R :=
  maskInvalid (stretchExt s (intervalExt vmin vmax x))

/-- `CustomNormalization.__call__(value)`: the limits come from `self.interval.get_limits(value)`
(the frozen ManualInterval after `_set_limits`, else computed from `value` itself) -/
def Norm.call (n : Norm R) (value : List (Ext R)) : Except Err (List (Option R)) := do
  let (lo, hi) ← n.interval.getLimits value
  pure (value.map (normPixel n.stretch lo hi))

/-- `CustomNormalization.inverse(value)` on finite values:
`self.interval.inverse(self.stretch.inverse(value))` -/
def Norm.inverse (n : Norm R) (value : List R) : Except Err (List R) := do
  let inv := n.stretch.inverse
  if !inv.valid then .error .valueError else
  let vs := value.map inv.call
  let (lo, hi) ← n.interval.getLimits (vs.map Ext.fin)
  pure (vs.map (intervalInverse lo hi))

/-! ### visualization.py callers -/

/-- `_show_2d_array`: `_resolve_normalization(norm, **kwargs)`, then every field handed to
`CustomNormalization(..., data=amplitude)`, then `norm_obj(amplitude)` -/
def showArray (norm : NormArg R) (kw : List (String × KwVal R)) (isBool : Bool) (data : List (Ext R)) :
    Except Err (Norm R × List (Option R)) := do
  let c ← resolve norm kw
  let n ← Norm.create c (some (isBool, data))
  let out ← n.call data
  pure (n, out)

/-- `_show_2d_combined`: the resolved fields handed to `CustomNormalization(...)` WITHOUT data,
then `list_of_arrays_to_rgba` applies the object to every array (limits recomputed per array) -/
def showCombined (norm : NormArg R) (kw : List (String × KwVal R)) (arrays : List (List (Ext R))) :
    Except Err (Norm R × List (List (Option R))) := do
  let c ← resolve norm kw
  let n ← Norm.init c
  let outs ← arrays.mapM n.call
  pure (n, outs)

end
end QuantemModel.Norm
