import QuantemModel.Model.SaveFs
/-
Model of the FRONT END of `AutoSerialize.save(path, mode, store, skip, compression_level)` (C08):
everything the code does before the first effect — validation of the compression level, store
inference from the path, `.zip` suffix normalisation, the write-once existence check, the
directory-store extension check, the unknown-store check — branch by branch and IN THE ORDER OF
THE CODE, followed by the filesystem protocol of Model/SaveFs.lean on the RESOLVED target.
Core Lean only.  Paths are lists of characters (`str(path)`).
-/
namespace QuantemModel.SaveFront
open QuantemModel.SaveFs

abbrev P := List Char

def zipExt : P := ['.', 'z', 'i', 'p']

/-- `path.endswith(".zip")` (case-sensitive) -/
def endsZip (p : P) : Bool := zipExt.isSuffixOf p

/-- what follows the last `/` (`os.path.splitext` only looks at the last component) -/
def lastComponent (p : P) : P := (p.reverse.takeWhile (· != '/')).reverse

/-- `bool(os.path.splitext(path)[1])`: the last component has a dot that is preceded by a
character other than a dot (leading dots of the component do not start an extension:
`.hidden`, `..` have none; `obj.` has the extension `.`) -/
def hasExt (p : P) : Bool := ((lastComponent p).dropWhile (· == '.')).contains '.'

inductive Err where
  | level      -- ValueError: compression_level outside 0..9
  | exists_    -- FileExistsError: target exists and mode != "o"
  | dirExt     -- ValueError: store "dir" with a file-like path
  | store      -- ValueError: unknown store
  deriving DecidableEq, Repr, Inhabited

def Err.pyName : Err → String
  | .level => "ValueError" | .exists_ => "FileExistsError" | .dirExt => "ValueError" | .store => "ValueError"

structure Resolved where
  target : P
  zip : Bool
  deriving DecidableEq, Repr, Inhabited

deriving instance DecidableEq for Except

/-- `compression_level is None or 0 <= compression_level <= 9` -/
def levelOk : Option Int → Bool
  | .none => true
  | some l => decide (0 ≤ l) && decide (l ≤ 9)

/-- `if store == "auto": store = "zip" if path.endswith(".zip") else "dir"` -/
def resolveStore (path : P) (store : String) : String :=
  if store = "auto" then (if endsZip path then "zip" else "dir") else store

/-- `if store == "zip" and not path.endswith(".zip"): path += ".zip"` -/
def resolvePath (path : P) (store1 : String) : P :=
  if store1 = "zip" ∧ endsZip path = false then path ++ zipExt else path

/-- the target a call names, whatever else happens -/
def targetOf (path : P) (store : String) : P := resolvePath path (resolveStore path store)

/-- the part of `save` before the first effect; `ex p` = `os.path.lexists(p)`.
Order of the checks as in the code: level, (store inference, suffix), existence, directory
extension, unknown store. -/
def front (path : P) (mode store : String) (level : Option Int) (ex : P → Bool) : Except Err Resolved :=
  if levelOk level = false then .error .level
  else
    let store1 := resolveStore path store
    let path1 := resolvePath path store1
    if ex path1 = true ∧ mode ≠ "o" then .error .exists_
    else if store1 = "dir" ∧ hasExt path1 = true then .error .dirExt
    else if store1 ≠ "zip" ∧ store1 ≠ "dir" then .error .store
    else .ok { target := path1, zip := decide (store1 = "zip") }

/-- one complete `save(...)` call: arguments as the caller gives them, plus what the protocol
model needs (identity of the object graph, name of the staging path, number of primitive
writes, fault position) -/
structure FullCall where
  path : P
  mode : String
  store : String
  level : Option Int
  id : Nat
  staged : String
  nTmp : Nat
  nWrites : Nat
  fault : Option Nat

/-- the whole call on the modelled filesystem; `name` turns a path into the key of the
filesystem (the theorems hold for every injective naming) -/
def saveFull (name : P → String) (k : FullCall) (fs : Fs) : Outcome :=
  match front k.path k.mode k.store k.level (fun p => (fsGet fs (name p)).isSome) with
  | .error e => .raisedBeforeAnyEffect e.pyName
  | .ok r =>
      let c : Cfg := { target := name r.target, staged := k.staged, id := k.id }
      let res := run c fs (steps r.zip k.nTmp k.nWrites (fsGet fs c.target).isSome) k.fault
      .ran res.1 res.2

def applyFull (name : P → String) (fs : Fs) (k : FullCall) : Fs :=
  match saveFull name k fs with
  | .raisedBeforeAnyEffect _ => fs
  | .ran fs' _ => fs'

/-- a history of complete calls, onto ANY targets -/
def runFull (name : P → String) (fs : Fs) (ks : List FullCall) : Fs := ks.foldl (applyFull name) fs

end QuantemModel.SaveFront
