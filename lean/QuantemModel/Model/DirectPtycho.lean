import QuantemModel.Core.Cx
/-!
# C04 — direct ptychography: the streaming skeleton of `DirectPtychography.reconstruct`

Anchors: /repo/src/quantem/diffractive_imaging/direct_ptychography.py
(`_preprocess`, `_return_bf_context`, `_normalize_kernel_name`, `_return_kernel_contributions`
(prlx / icom branches), `reconstruct`, `corrected_bf`).

What is modelled, branch by branch:
* the alias table of `_normalize_kernel_name`;
* `_return_bf_context`: `nonzero(mask)` and `vbf_index_mapping = where(mask[self.bf_mask])`;
* `_preprocess`: FFT of every virtual image, DC bin zeroed;
* Fourier-space tiling (upsampling), multiplication with the per-pixel kernel factor;
* the batched first pass, power accumulation, normalisation (obf: sqrt + clamp, mf: eps·max + clamp),
  second pass, `real / BF_weights`, `corrected_bf = Σ_i`;
* the `prlx` operator `exp(-i grad_k·q)·sign` and the `icom` operator;
* an *independent* closed form of the parallax reconstruction (real-space mean subtraction,
  zero-interleaving for upsampling, Fourier translation by the geometric shift) that uses neither the
  kernel factors nor the DC-zeroed spectra nor the tiling.

What is a parameter (extracted from the real object by single-pixel calls, never re-derived):
the ssb/obf/mf factors (`gamma_factor`, aperture): `K i` is what the real
`_return_kernel_contributions` returns for BF pixel `i` on a unit spectrum, `P i = |gamma_i|²`,
`W = BF_weights`, `env` the Butterworth envelope.

Images are flat row-major lists; the FFT pair is a parameter (`Fourier`) whose executable instance
(`Fourier.dft`) is the defining DFT sum.  Core Lean only.
-/
namespace QuantemModel.DirectPtycho
open QuantemModel

/-! ## kernel names (`_normalize_kernel_name`) -/

inductive Kernel where
  | ssb | obf | mf | prlx | icom
  deriving DecidableEq, Repr, Inhabited

/-- `deconvolution_kernel in ("obf", "mf")`: the kernels normalised in a second pass -/
def Kernel.twoPass : Kernel → Bool
  | .obf => true
  | .mf => true
  | _ => false

def Kernel.name : Kernel → String
  | .ssb => "ssb" | .obf => "obf" | .mf => "mf" | .prlx => "prlx" | .icom => "icom"

/-- the `aliases` dict, in source order (names as character lists so that the table is decidable) -/
def aliasTable : List (List Char × Kernel) :=
  [ ("ssb".toList, .ssb), ("single-sideband".toList, .ssb), ("acbf".toList, .ssb),
    ("aberration-corrected-bright-field".toList, .ssb),
    ("obf".toList, .obf), ("optimum-bright-field".toList, .obf),
    ("mf".toList, .mf), ("matched-filter".toList, .mf),
    ("prlx".toList, .prlx), ("parallax".toList, .prlx), ("tcbf".toList, .prlx),
    ("tilt-corrected-bright-field".toList, .prlx),
    ("icom".toList, .icom), ("center-of-mass".toList, .icom) ]

inductive Err where
  | valueError   -- unknown kernel name
  | indexError   -- boolean-mask index of a different shape
  deriving DecidableEq, Repr

/-- `str.lower()` on the ASCII range (no alias contains a letter that some non-ASCII character lowers to) -/
def lowerName (s : List Char) : List Char := s.map Char.toLower

/-- `kernel = kernel.lower(); if kernel not in aliases: raise ValueError; return aliases[kernel]` -/
def normalizeKernelName (s : List Char) : Except Err Kernel :=
  match aliasTable.lookup (lowerName s) with
  | some k => .ok k
  | none => .error .valueError

/-! ## `_return_bf_context` on flattened (row-major) boolean masks -/

/-- `torch.nonzero(mask)` on the flattened mask, counting from `k` -/
def positionsFrom (k : Nat) : List Bool → List Nat
  | [] => []
  | b :: bs => if b then k :: positionsFrom (k + 1) bs else positionsFrom (k + 1) bs

def positions (m : List Bool) : List Nat := positionsFrom 0 m

/-- boolean-mask indexing `s[c]`: the values of `s` at the true positions of `c`, in order -/
def select : List Bool → List Bool → List Bool
  | c :: cs, s :: ss => if c then s :: select cs ss else select cs ss
  | _, _ => []

/-- `vbf_index_mapping = torch.where(bf_mask[self.bf_mask])[0]` -/
def indexMapping (cmask sub : List Bool) : List Nat := positions (select cmask sub)

structure BFContext where
  indsI : List Nat
  indsJ : List Nat
  numBf : Nat
  mapping : List Nat
  deriving Repr, DecidableEq

/-- `_return_bf_context(bf_mask)` with `self.bf_mask = cmask`; `cols` = detector columns -/
def bfContext (cols : Nat) (cmask sub : List Bool) : Except Err BFContext :=
  if cmask.length ≠ sub.length then .error .indexError else
  let pos := positions sub
  .ok { indsI := pos.map (· / cols), indsJ := pos.map (· % cols),
        numBf := pos.length, mapping := indexMapping cmask sub }

/-! ## images -/

abbrev Img (α : Type) := List α

section Carrier
variable {R : Type} [Num R]

def zeros (n : Nat) : Img R := List.replicate n Num.zero
/-- pointwise `+` of real images -/
def addI (a b : Img R) : Img R := List.zipWith (· + ·) a b
/-- `num *= butterworth_env` (real image times complex image) -/
def mulEnv (x : Img (Cx R)) (env : Img R) : Img (Cx R) := List.zipWith (fun z e => Cx.smul e z) x env
/-- `ff /= norm` -/
def divNorm (x : Img (Cx R)) (nrm : Img R) : Img (Cx R) :=
  List.zipWith (fun z s => (⟨z.re / s, z.im / s⟩ : Cx R)) x nrm
/-- pointwise complex product -/
def mulC (x y : Img (Cx R)) : Img (Cx R) := List.zipWith (· * ·) x y

/-- the FFT pair used by the code (`torch.fft.fft2 / ifft2` on a `rows × cols` image) -/
structure Fourier (R : Type) where
  fft2 : Nat → Nat → Img (Cx R) → Img (Cx R)
  ifft2 : Nat → Nat → Img (Cx R) → Img (Cx R)

/-! ### the executable instance: the defining DFT sums (separable, twiddle table) -/

/-- `exp(sign·2πi·t/N)` for `t = 0..N-1` -/
def twiddles (sign : Int) (N : Nat) : Array (Cx R) :=
  (Array.range N).map fun (t : Nat) =>
    Cx.cis (Num.ofRat (((sign * 2 * (t : Int) : Int) : Rat) / ((N : Int) : Rat)) * Num.pi)

/-- transform along axis 0 of a row-major `r × c` array -/
def dftAxis0 (sign : Int) (r c : Nat) (x : Array (Cx R)) : Array (Cx R) :=
  let tw : Array (Cx R) := twiddles sign r
  (Array.range (r * c)).map fun p =>
    let a := p / c
    let b := p % c
    (List.range r).foldl (fun acc k => acc + x[k * c + b]! * tw[(k * a) % r]!) Cx.zero

/-- transform along axis 1 -/
def dftAxis1 (sign : Int) (r c : Nat) (x : Array (Cx R)) : Array (Cx R) :=
  let tw : Array (Cx R) := twiddles sign c
  (Array.range (r * c)).map fun p =>
    let a := p / c
    let b := p % c
    (List.range c).foldl (fun acc l => acc + x[a * c + l]! * tw[(l * b) % c]!) Cx.zero

def Fourier.dft : Fourier R where
  fft2 r c x := (dftAxis1 (-1) r c (dftAxis0 (-1) r c x.toArray)).toList
  ifft2 r c x :=
    let s : R := Num.ofRat (1 / (((r * c : Nat) : Int) : Rat))
    ((dftAxis1 1 r c (dftAxis0 1 r c x.toArray)).toList).map (Cx.smul s)

/-! ## `_preprocess`, tiling, numerators -/

/-- `self._vbf_fourier[..., 0, 0] = 0` -/
def dcZero : Img (Cx R) → Img (Cx R)
  | [] => []
  | _ :: t => Cx.zero :: t

/-- `_preprocess`: `fft2` of every virtual image (an `r × c` scan), DC zeroed -/
def preprocess (F : Fourier R) (r c : Nat) (stack : List (Img R)) : List (Img (Cx R)) :=
  stack.map fun v => dcZero (F.fft2 r c (v.map Cx.ofReal))

/-- Fourier-space tiling `cat([cat([x]*u, -1)]*u, -2)`: the `(u·r) × (u·c)` image whose entry
`(a, b)` is `x[a mod r, b mod c]` -/
def tile (u r c : Nat) (x : Img (Cx R)) : Img (Cx R) :=
  let arr := x.toArray
  (List.range ((u * r) * (u * c))).map fun p =>
    arr[((p / (u * c)) % r) * c + ((p % (u * c)) % c)]!

/-- first-pass numerator of BF pixel `i` of the (sub-)mask: the tiled spectrum of the stack row
`mapping[i]` times the kernel factor `K i` -/
def numerator (V : List (Img (Cx R))) (mapping : List Nat) (u r c : Nat)
    (K : Nat → Img (Cx R)) (i : Nat) : Img (Cx R) :=
  mulC (tile u r c (V.getD (mapping.getD i 0) [])) (K i)

/-! ## the streaming skeleton of `reconstruct` -/

/-- `fourier_factor = torch.empty((num_bf,) + shape)`: rows are undefined (`none`) until written -/
structure Store (α : Type) where
  get : Nat → Option α
def Store.empty {α : Type} : Store α := ⟨fun _ => none⟩
/-- `fourier_factor[i] = v` -/
def Store.set {α : Type} (s : Store α) (i : Nat) (v : Option α) : Store α :=
  ⟨fun j => if j = i then v else s.get j⟩

/-- everything `reconstruct` streams over, for one (sub-)mask, kernel and hyper-parameter set -/
structure Problem (R : Type) where
  rows : Nat            -- upsampled scan grid
  cols : Nat
  n : Nat               -- num_bf of the mask in use
  G : Nat → Img (Cx R)  -- first-pass numerator of BF pixel i  (`num`)
  P : Nat → Img R       -- |gamma_i|²  (obf / mf only)        (`pow`, per pixel)
  W : R                 -- BF_weights
  env : Img R           -- butterworth_env
  eps : R               -- matched_filter_norm_epsilon

/-- single-pass value written for pixel `i`: `ifft2(num * env)` -/
def singlePassValue (F : Fourier R) (pb : Problem R) (i : Nat) : Img (Cx R) :=
  F.ifft2 pb.rows pb.cols (mulEnv (pb.G i) pb.env)

/-- `pow = abs_gamma.square().sum(0)` for one batch -/
def batchPower (pb : Problem R) (B : List Nat) : Img R :=
  B.foldl (fun acc i => addI acc (pb.P i)) (zeros (pb.rows * pb.cols))

/-- body of the first `for batch_idx in batcher` loop -/
def firstPass (F : Fourier R) (k : Kernel) (pb : Problem R)
    (st : Store (Img (Cx R)) × Img R) (B : List Nat) : Store (Img (Cx R)) × Img R :=
  if k.twoPass then
    -- `fourier_factor[batch_idx] = num ; power += pow`
    (B.foldl (fun s i => s.set i (some (pb.G i))) st.1, addI st.2 (batchPower pb B))
  else
    -- `num *= env ; fourier_factor[batch_idx] = ifft2(num)`
    (B.foldl (fun s i => s.set i (some (singlePassValue F pb i))) st.1, st.2)

def maxOf (x : Img R) : R :=
  match x with
  | [] => Num.zero
  | h :: t => t.foldl Num.max h

def clampEps : R := Num.ofRat (1 / 100000000)

/-- `power /= BF_weights`; obf: `sqrt().clamp_min(1e-8)`; mf: `(power + eps*power.max()).clamp_min(1e-8)` -/
def normOf (k : Kernel) (pb : Problem R) (power : Img R) : Img R :=
  let p := power.map (· / pb.W)
  match k with
  | .obf => p.map fun x => Num.max (Num.sqrt x) clampEps
  | .mf => let mx := maxOf p; p.map fun x => Num.max (x + pb.eps * mx) clampEps
  | _ => p

/-- second-pass value: `ifft2(ff / norm * env)` -/
def secondPassValue (F : Fourier R) (pb : Problem R) (nrm : Img R) (x : Img (Cx R)) : Img (Cx R) :=
  F.ifft2 pb.rows pb.cols (mulEnv (divNorm x nrm) pb.env)

/-- body of the second loop: `ff = fourier_factor[batch_idx]` is read before the batch is written -/
def secondPass (F : Fourier R) (pb : Problem R) (nrm : Img R)
    (s : Store (Img (Cx R))) (B : List Nat) : Store (Img (Cx R)) :=
  B.foldl (fun s' i => s'.set i ((s.get i).map (secondPassValue F pb nrm))) s

/-- `corrected_stack = fourier_factor.real / BF_weights` -/
def finish (pb : Problem R) (x : Img (Cx R)) : Img R := x.map fun z => z.re / pb.W

def readout (pb : Problem R) (s : Store (Img (Cx R))) : List (Option (Img R)) :=
  (List.range pb.n).map fun i => (s.get i).map (finish pb)

/-- `reconstruct(...).corrected_stack` for the batch schedule `batches` -/
def reconstruct (F : Fourier R) (k : Kernel) (pb : Problem R) (batches : List (List Nat)) :
    List (Option (Img R)) :=
  let st := batches.foldl (firstPass F k pb) (Store.empty, zeros (pb.rows * pb.cols))
  let s2 :=
    if k.twoPass then
      let nrm := normOf k pb st.2
      batches.foldl (secondPass F pb nrm) st.1
    else st.1
  readout pb s2

/-- `corrected_bf = corrected_stack.sum(dim=0)` (undefined rows contribute nothing) -/
def correctedBf (npx : Nat) (stack : List (Option (Img R))) : Img R :=
  stack.foldl (fun acc o => match o with | some x => addI acc x | none => acc) (zeros npx)

/-- `np.fft.fftfreq(N)*N` -/
def fftfreqInt (N k : Nat) : Int := if 2 * k < N + (N % 2) then (k : Int) else (k : Int) - N

/-- `train_order[i : i + b] for i in range(0, len, b)`; `fuel` bounds the number of slices -/
def chunksAux (b : Nat) : Nat → List Nat → List (List Nat)
  | 0, _ => []
  | fuel + 1, l => if l.isEmpty then [] else l.take b :: chunksAux b fuel (l.drop b)

/-- `SimpleBatcher(num, batch_size, shuffle=False)`: the slices of `arange(num)` of width `b`
(`range(0, num, 0)` raises; the model returns no batch) -/
def chunkSchedule (n b : Nat) : List (List Nat) :=
  if b = 0 then [] else chunksAux b n (List.range n)

/-! ## from the stack to the streamed problem -/

/-- everything `reconstruct` derives from the mask and the hyper-parameters (no data) -/
structure Geometry (R : Type) where
  r : Nat                 -- scan rows
  c : Nat                 -- scan columns
  u : Nat                 -- upsampling factor
  mapping : List Nat      -- `vbf_index_mapping` of the mask in use
  K : Nat → Img (Cx R)    -- kernel factor of BF pixel i (what the kernel method returns on a unit spectrum)
  P : Nat → Img R         -- |gamma_i|²
  W : R
  env : Img R
  eps : R

/-- the problem `reconstruct` streams for the virtual-BF stack `stack` -/
def problemOfStack (F : Fourier R) (geo : Geometry R) (stack : List (Img R)) : Problem R :=
  { rows := geo.u * geo.r, cols := geo.u * geo.c, n := geo.mapping.length,
    G := numerator (preprocess F geo.r geo.c stack) geo.mapping geo.u geo.r geo.c geo.K,
    P := geo.P, W := geo.W, env := geo.env, eps := geo.eps }

/-- `reconstruct(bf_mask = sub)` relative to the problem of the construction mask: BF pixel `j` of the
sub-mask is stack row `m[j]` (`_return_bf_context`), its factors are those of that detector pixel,
and the weight is the sub-mask's own aperture weight -/
def subProblem (pb : Problem R) (m : List Nat) (W : R) : Problem R :=
  { pb with n := m.length, G := fun j => pb.G (m.getD j 0), P := fun j => pb.P (m.getD j 0), W := W }

/-- `spatial_frequencies((N, M), (dx, dy))`, flattened: `fftfreq(N, dx)[:, None]`, `fftfreq(M, dy)[None, :]` -/
def qGrid (N M : Nat) (dx dy : R) : Img R × Img R :=
  ((List.range (N * M)).map fun p =>
      Num.ofRat (((fftfreqInt N (p / M) : Int) : Rat) / ((N : Int) : Rat)) / dx,
   (List.range (N * M)).map fun p =>
      Num.ofRat (((fftfreqInt M (p % M) : Int) : Rat) / ((M : Int) : Rat)) / dy)

def ones (n : Nat) : Img R := List.replicate n Num.one

/-! ## modelled kernels: parallax and integrated centre of mass -/

/-- `operator = exp(-1j * (gx*qx + gy*qy)) * sign_sin_chi_q` -/
def prlxOperator (gx gy : R) (qx qy sign : Img R) : Img (Cx R) :=
  List.zipWith (fun (q : R × R) s => Cx.smul s (Cx.cis (-(gx * q.1 + gy * q.2)))) (qx.zip qy) sign

/-- `q_op = -1j*q/q² (0 at DC)`, `operator = kx*qx_op + ky*qy_op` -/
def icomOperator (kx ky : R) (qx qy : Img R) : Img (Cx R) :=
  (List.zipWith (fun a b => (a, b)) qx qy).mapIdx fun p (q : R × R) =>
    if p = 0 then Cx.zero else
    let q2 := q.1 * q.1 + q.2 * q.2
    (⟨Num.zero, kx * (-(q.1) / q2) + ky * (-(q.2) / q2)⟩ : Cx R)

/-! ## independent closed form of the parallax reconstruction (no flip) -/

structure PrlxGeom (R : Type) where
  wavelength : R
  rsx : R            -- reciprocal sampling of the detector [1/Å]
  rsy : R
  detRows : Nat
  detCols : Nat
  rotation : R
  c10 : R            -- polar coefficients (C10 = -defocus), Å
  c12 : R
  phi12 : R
  scanRows : Nat
  scanCols : Nat
  sx : R             -- scan sampling [Å]
  sy : R
  u : Nat            -- upsampling factor

/-- geometric shift (in Å) of the image of detector pixel `(i, j)`: the gradient of
`χ/(2π/λ) = ½α²(C10 + C12 cos 2(φ−φ12))` at the (passively rotated) scattering angle
`α = λ·k`, i.e. `∇χ / 2π` in the units of the code -/
def prlxShift (g : PrlxGeom R) (i j : Nat) : R × R :=
  let kx := Num.ofInt (fftfreqInt g.detRows i) * g.rsx
  let ky := Num.ofInt (fftfreqInt g.detCols j) * g.rsy
  let ct := Num.cos g.rotation
  let st := Num.sin g.rotation
  let ax := g.wavelength * (kx * ct - ky * st)
  let ay := g.wavelength * (kx * st + ky * ct)
  let c2 := Num.cos (Num.two * g.phi12)
  let s2 := Num.sin (Num.two * g.phi12)
  (g.c10 * ax + g.c12 * (ax * c2 + ay * s2), g.c10 * ay + g.c12 * (ax * s2 - ay * c2))

/-- mean-subtracted image -/
def meanSub (v : Img R) : Img R :=
  let m := Num.sum v / Num.ofNat v.length
  v.map (· - m)

/-- the scan image on the `u`-times finer grid: samples at every `u`-th point, zero elsewhere -/
def comb (u r c : Nat) (v : Img R) : Img R :=
  let arr := v.toArray
  (List.range ((u * r) * (u * c))).map fun p =>
    let a := p / (u * c)
    let b := p % (u * c)
    if a % u = 0 ∧ b % u = 0 then arr.getD ((a / u) * c + b / u) Num.zero else Num.zero

/-- Fourier translation operator of a `N × M` image by `(sr, sc)` pixels:
`exp(-2πi (fr·sr + fc·sc))`, `fr = fftfreq(N)`, `fc = fftfreq(M)` -/
def translationOperator (N M : Nat) (sr sc : R) : Img (Cx R) :=
  (List.range (N * M)).map fun p =>
    let fr : R := Num.ofRat (((fftfreqInt N (p / M) : Int) : Rat) / ((N : Int) : Rat))
    let fc : R := Num.ofRat (((fftfreqInt M (p % M) : Int) : Rat) / ((M : Int) : Rat))
    Cx.cis (-(Num.two * Num.pi * (fr * sr + fc * sc)))

/-- translate a real image by a (sub-pixel) shift -/
def translate (F : Fourier R) (N M : Nat) (x : Img R) (sr sc : R) : Img R :=
  (F.ifft2 N M (mulC (F.fft2 N M (x.map Cx.ofReal)) (translationOperator N M sr sc))).map (·.re)

/-- closed form: `(Σ_i translate(v_i − mean v_i, shift_i)) / W`, `pix` the detector pixels
`(i, j)` of the mask in use and `vs` their virtual images -/
def prlxClosed (F : Fourier R) (g : PrlxGeom R) (W : R) (pix : List (Nat × Nat)) (vs : List (Img R)) :
    Img R :=
  let N := g.u * g.scanRows
  let M := g.u * g.scanCols
  let terms := List.zipWith (fun (ij : Nat × Nat) v =>
      let s := prlxShift g ij.1 ij.2
      let sr := s.1 / (g.sx / Num.ofNat g.u)
      let sc := s.2 / (g.sy / Num.ofNat g.u)
      translate F N M (comb g.u g.scanRows g.scanCols (meanSub v)) sr sc) pix vs
  (terms.foldl addI (zeros (N * M))).map (· / W)

end Carrier

/-! ## `HyperparameterState`: stored / per-call hyper-parameters and call histories

`reconstruct` resolves its aberration set and rotation angle through
`state.current_aberrations(override)` / `state.current_rotation_angle(override)`; per-call overrides
must not persist, `grid_search_hyperparameters` (fixed values) rewrites the optimized part only.
Dicts are insertion-ordered association lists (Python `dict`); `α` is the coefficient type, `ρ` the angle type. -/

abbrev Dict (α : Type) := List (String × α)

/-- `d[k] = v` : replace in place if present, else append -/
def Dict.set {α : Type} : Dict α → String → α → Dict α
  | [], k, v => [(k, v)]
  | (k', v') :: t, k, v => if k' = k then (k', v) :: t else (k', v') :: Dict.set t k v

def Dict.get? {α : Type} : Dict α → String → Option α
  | [], _ => none
  | (k', v') :: t, k => if k' = k then some v' else Dict.get? t k

/-- `d.update(e)` -/
def Dict.update {α : Type} (d e : Dict α) : Dict α := e.foldl (fun acc kv => acc.set kv.1 kv.2) d

def polarSymbols : List String :=
  ["C10", "C12", "phi12", "C21", "phi21", "C23", "phi23", "C30", "C32", "phi32", "C34", "phi34",
   "C41", "phi41", "C43", "phi43", "C45", "phi45", "C50", "C52", "phi52", "C54", "phi54", "C56", "phi56"]

/-- canonical polar symbol of a user key and whether the value is negated (`defocus = -C10`) -/
def canonKey (k : String) : Option (String × Bool) :=
  if k ∈ polarSymbols then some (k, false) else
  match k with
  | "defocus" => some ("C10", true)
  | "astigmatism" => some ("C12", false)
  | "astigmatism_angle" => some ("phi12", false)
  | "coma" => some ("C21", false)
  | "coma_angle" => some ("phi21", false)
  | "Cs" => some ("C30", false)
  | "C5" => some ("C50", false)
  | _ => none

/-- `validate_aberration_coefficients`: unknown keys raise, aliases are resolved in order (later entries win) -/
def canonicalize {α : Type} (neg : α → α) (d : Dict α) : Except Err (Dict α) :=
  if d.all (fun kv => (canonKey kv.1).isSome) then
    .ok (d.foldl (fun acc kv => match canonKey kv.1 with
      | some (c, n) => acc.set c (if n then neg kv.2 else kv.2)
      | none => acc) [])
  else .error .valueError

structure HState (α ρ : Type) where
  initialAb : Dict α
  optimizedAb : Dict α
  initialRot : Option ρ
  optimizedRot : Option ρ

/-- `current_aberrations(override)`: initial, then optimized, then the (validated) per-call override -/
def currentAberrations {α ρ : Type} (neg : α → α) (st : HState α ρ) (override : Option (Dict α)) :
    Except Err (Dict α) :=
  let out := st.initialAb.update st.optimizedAb
  match override with
  | none => .ok out
  | some o => match canonicalize neg o with
    | .ok c => .ok (out.update c)
    | .error e => .error e

/-- `current_rotation_angle(override)`: a value that is given (`is not None`) wins, whatever it is -/
def currentRotation {α ρ : Type} (zero : ρ) (st : HState α ρ) (override : Option ρ) : ρ :=
  match override with
  | some r => r
  | none => match st.optimizedRot with
    | some r => r
    | none => match st.initialRot with
      | some r => r
      | none => zero

inductive Step (α ρ : Type) where
  /-- `reconstruct(override_aberration_coefs=ab, override_rotation_angle=rot, …)` -/
  | call (ab : Option (Dict α)) (rot : Option ρ)
  /-- `grid_search_hyperparameters(aberration_coefs=ab (fixed values), rotation_angle=rot (fixed), …)` -/
  | grid (ab : Dict α) (rot : Option ρ)

/-- `clear_optimized()` -/
def HState.cleared {α ρ : Type} (st : HState α ρ) : HState α ρ :=
  { st with optimizedAb := [], optimizedRot := none }

/-- the stored state after a step -/
def stepState {α ρ : Type} (neg : α → α) (st : HState α ρ) : Step α ρ → HState α ρ
  | .call _ _ => st
  | .grid ab rot =>
    let c := st.cleared
    match currentAberrations neg c (some ab) with
    | .ok a => { c with optimizedAb := a, optimizedRot := rot }
    | .error _ => c       -- the trial reconstruct raises after `clear_optimized()`

/-- the hyper-parameters the reconstruction of a step is computed with (for a grid step: of its final
`reconstruct()`, i.e. of a plain call in the new state) -/
def effective {α ρ : Type} (neg : α → α) (zero : ρ) (st : HState α ρ) (s : Step α ρ) :
    Except Err (Dict α × ρ) :=
  match s with
  | .call ab rot => (currentAberrations neg st ab).map fun a => (a, currentRotation zero st rot)
  | .grid ab _ =>
    match currentAberrations neg st.cleared (some ab) with
    | .error e => .error e
    | .ok _ => let st' := stepState neg st s
               (currentAberrations neg st' none).map fun a => (a, currentRotation zero st' none)

/-- the object after a history -/
def runHistory {α ρ : Type} (neg : α → α) (st : HState α ρ) (h : List (Step α ρ)) : HState α ρ :=
  h.foldl (stepState neg) st

end QuantemModel.DirectPtycho
