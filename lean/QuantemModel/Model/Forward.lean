import QuantemModel.Model.PtychoOps
/-!
C02 — executable model of the ptychography forward PIPELINE (what the library does between
`PtychographyDatasetRaster.preprocess` and `error_estimate`) composed from the operator model of
C16 (`Model/PtychoOps.lean`: translation, propagators, gather, multislice overlap, detector), plus an
INDEPENDENT reference specification `Spec.*` of the mixed-state multislice experiment written in its
own conventions (everything centred / natural order).  Core Lean only.

Modelled code (src/quantem/diffractive_imaging):
* dataset_models.py     _obj_shape_crop_2d/_obj_shape_full_2d (rotation 0), _set_initial_scan_positions_px,
                        _set_patch_indices, positions_px_fractional, _set_intensities_com (vectorised;
                        "no_shift" / "constant"), _normalize_diffraction_intensities (bilinear=False),
                        _set_targets (no descan optimisation)
* ptychography_base.py  adjust_padding_power2 (level 3), forward_operator (descan None), error_estimate
* ptycho_utils.py       shift_array (periodic, Fourier), fit_origin("constant")
* object_models.py      ObjectPixelated.forward → _get_obj_patches (complex / exp(i·V))
* probe_models.py       ProbePixelated.forward (Fourier shift by the fractional position)
* detector_models.py    DetectorPixelated.forward
One call of `forwardPattern` handles ONE scan position (the torch code broadcasts over the batch).

The discrete geometry (positions, rounding, indices) is exact arithmetic on `Rat`/`Int`/`Nat`;
everything numeric is generic over the carrier `[Num R]`.
-/
namespace QuantemModel.Forward
open QuantemModel QuantemModel.Dft QuantemModel.PtychoOps

/-! ## 1. geometry (exact) -/

/-- `np.round` / `torch.round`: round half to even -/
def roundHalfEven (q : Rat) : Int :=
  let f := q.floor
  let d := q - (f : Rat)
  if d < 1 / 2 then f else if 1 / 2 < d then f + 1 else if f % 2 = 0 then f else f + 1

/-- `_obj_shape_crop_2d`, one axis: `shp = floor(fov / obj_sampling); shp += shp % 2` with
`fov = scan_sampling * (gpts - 1)`  (`_obj_shape_rot_2d` is the same number at rotation 0) -/
def cropShapeAxis (gpts : Nat) (step samp : Rat) : Nat :=
  let n := ((step * ((gpts : Rat) - 1)) / samp).floor.toNat
  n + n % 2

/-- `adjust_padding_power2(pad, shape, 3)`, one axis: `rem = (shape + 2*pad) % 8;
if rem != 0: pad += (8 - rem) // 2` -/
def adjustPad (shape pad : Nat) : Nat :=
  let rem := (shape + 2 * pad) % 8
  if rem = 0 then pad else pad + (8 - rem) / 2

/-- `_obj_shape_full_2d(obj_padding_px)`, one axis -/
def fullShapeAxis (shape pad : Nat) : Nat := shape + 2 * pad

structure Geometry where
  gr : Nat          -- scan grid rows   (dset.gpts)
  gc : Nat
  stepR : Rat       -- scan sampling in Å
  stepC : Rat
  sampR : Rat       -- object sampling in Å  = 1 / (roi_shape * reciprocal_sampling)
  sampC : Rat
  R0 : Nat          -- detector ROI
  R1 : Nat
  padR : Nat        -- REQUESTED object padding (the library enlarges it)
  padC : Nat

namespace Geometry
/-- the padding the library really uses (`obj_padding_px` setter) -/
def padUsedR (g : Geometry) : Nat := adjustPad (cropShapeAxis g.gr g.stepR g.sampR) g.padR
def padUsedC (g : Geometry) : Nat := adjustPad (cropShapeAxis g.gc g.stepC g.sampC) g.padC
/-- `obj_shape_full[-2:]` -/
def H (g : Geometry) : Nat := fullShapeAxis (cropShapeAxis g.gr g.stepR g.sampR) g.padUsedR
def W (g : Geometry) : Nat := fullShapeAxis (cropShapeAxis g.gc g.stepC g.sampC) g.padUsedC
end Geometry

/-- `_set_initial_scan_positions_px` (no mask, rotation 0, no transpose): raster `meshgrid(ij)`
ravelled row-major, `positions / sampling + padding` -/
def scanPositions (g : Geometry) : List (Rat × Rat) :=
  (List.range g.gr).flatMap fun (i : Nat) => (List.range g.gc).map fun (j : Nat) =>
    (((i : Rat) * g.stepR) / g.sampR + (g.padUsedR : Rat), ((j : Rat) * g.stepC) / g.sampC + (g.padUsedC : Rat))

/-- torch `%` (remainder with the sign of the divisor) on an integer-valued tensor -/
def wrapIdx (n : Nat) (i : Int) : Nat := (i % (n : Int)).toNat

/-- `_set_patch_indices`, one position: `r0 = round(pos)`, offsets `fftfreq(R, 1/R)` (signed, FFT
order), modulo the object shape, flat row-major index.  Shape `(R0, R1)` as in the tensor. -/
def patchIndices2 (pr pc : Rat) (R0 R1 H W : Nat) : List (List Nat) :=
  let r0 := roundHalfEven pr
  let c0 := roundHalfEven pc
  (List.range R0).map fun i => (List.range R1).map fun j =>
    wrapIdx H (r0 + fftfreqInt R0 i) * W + wrapIdx W (c0 + fftfreqInt R1 j)

/-- `positions_px - round(positions_px)` -/
def fracPos (p : Rat) : Rat := p - (roundHalfEven p : Rat)

/-- `torch.clamp(x, lo, hi)` on exact numbers -/
def clampRat (x lo hi : Rat) : Rat := if x < lo then lo else if hi < x then hi else x

/-- `DatasetConstraints.apply_hard_constraints` with the default `clip_scan_positions = True`
(`center_scan_positions = False`), executed at the start of every `dset.forward`:
`positions = clamp(positions, 0, obj_shape - 1)` -/
def clipPosition (H W : Nat) (p : Rat × Rat) : Rat × Rat :=
  (clampRat p.1 0 ((H : Rat) - 1), clampRat p.2 0 ((W : Rat) - 1))

section Carrier
variable {R : Type} [Num R]

/-! ## 1b. scan positions with rotation / transposition (numeric: `cos`, `sin`) -/

/-- `_set_initial_scan_positions_px` in general (no mask): raster in Å, `AffineTransform(angle)` about the
mean position when `com_rotation_rad != 0` (row vectors times `[[cos, -sin], [sin, cos]]`), axes (and
sampling) exchanged when `com_transpose`, shifted to be non-negative (`min(...).clip(-inf, 0)`), divided
by the object sampling, padded.  `padR padC` is the padding in use (the rotated object shape needs
`floor` of trigonometric values and is read back from the library, not modelled). -/
def scanPositionsGeneral (gr gc : Nat) (stepR stepC sampR sampC padR padC angle : R) (transpose : Bool) :
    List (R × R) :=
  let raw : List (R × R) := (List.range gr).flatMap fun (i : Nat) => (List.range gc).map fun (j : Nat) =>
    (Num.ofNat i * stepR, Num.ofNat j * stepC)
  let rot : List (R × R) :=
    if isZero angle then raw else
    let o1 := Num.sum (raw.map (·.1)) / Num.ofNat raw.length      -- positions.mean(0)
    let o2 := Num.sum (raw.map (·.2)) / Num.ofNat raw.length
    let c := Num.cos angle
    let s := Num.sin angle
    raw.map fun p => ((p.1 - o1) * c + (p.2 - o2) * s + o1, (p.1 - o1) * (-s) + (p.2 - o2) * c + o2)
  let tp : List (R × R) := if transpose then rot.map fun p => (p.2, p.1) else rot
  let s1 := if transpose then sampC else sampR
  let s2 := if transpose then sampR else sampC
  let m1 := tp.foldl (fun acc p => Num.min acc p.1) Num.zero      -- min(positions, axis=0).clip(-inf, 0)
  let m2 := tp.foldl (fun acc p => Num.min acc p.2) Num.zero
  tp.map fun p => ((p.1 - m1) / s1 + padR, (p.2 - m2) / s2 + padC)

/-! ## 2. forward pass at one scan position -/

/-- `obj_flat[s][patch_indices]` for one slice, keeping the `(R0, R1)` shape of the index tensor
(`_get_obj_patches`, C16's `getObjPatches` row by row) -/
def gatherPatch (o : List (Cx R)) (idx2 : List (List Nat)) : Img R :=
  idx2.map fun row => (getObjPatches [o] row).headD []

/-- potential / real-valued object: `exp(1j * obj)` (done before the gather, as in the code) -/
def transmissionReal (objFlat : List (List R)) : List (List (Cx R)) := objFlat.map (·.map Cx.cis)

/-- `ObjectPixelated.forward(patch_indices)` for the complex transmission slices `t` -/
def objPatches (t : List (List (Cx R))) (idx2 : List (List Nat)) : List (Img R) :=
  t.map (gatherPatch · idx2)

/-- `ProbePixelated.forward(fract_positions)`: every mode Fourier-shifted by the fractional position -/
def probeForward (probes : List (Img R)) (fr fc : R) : List (Img R) :=
  probes.map (fourierShift · fr fc)

/-- `dset.forward → probe_model.forward → obj_model.forward → forward_operator(descan=None) →
detector_model.forward` at one position -/
def forwardPattern (t : List (List (Cx R))) (idx2 : List (List Nat)) (probes props : List (Img R))
    (fr fc : R) : RImg R :=
  detector (overlapProjection (objPatches t idx2) props (probeForward probes fr fc)).2

/-- the whole pipeline for the geometry's scan: positions → indices / fractional parts → patterns -/
def forward (H W R0 R1 : Nat) (t : List (List (Cx R))) (probes props : List (Img R))
    (positions : List (Rat × Rat)) : List (RImg R) :=
  positions.map fun p0 =>
    let p := clipPosition H W p0     -- dset.forward: apply_hard_constraints, then indices are refreshed
    forwardPattern t (patchIndices2 p.1 p.2 R0 R1 H W) probes props
      (Num.ofRat (fracPos p.1)) (Num.ofRat (fracPos p.2))

/-! ## 3. preprocessing of measured intensities -/

/-- `np.fft.fftfreq(n, 1)[k]` -/
def qAxis (n k : Nat) : R := Num.ofRat ((fftfreqInt n k : Rat) / (n : Rat))

/-- `shift_array(ar, rshift, cshift)` (periodic, bilinear=False):
`real(ifft2(fft2(ar) * exp(-(2j*pi) * (cshift*qc + rshift*qr))))` -/
def shiftArray (x : RImg R) (rs cs : R) : RImg R :=
  let nr := nrows x
  let nc := ncols x
  let p : Img R := (List.range nr).map fun k => (List.range nc).map fun l =>
    Cx.cis (-(Num.two * Num.pi) * (cs * qAxis nc l + rs * qAxis nr k))
  (idft2 (mulImg (dft2 (x.map (·.map Cx.ofReal))) p)).map (·.map (·.re))

def max0 (x : R) : R := Num.max x Num.zero

/-- `_set_intensities_com` (vectorised): centre of mass of one pattern in pixel indices -/
def comMeasured (I : RImg R) : R × R :=
  let tot := rsum I
  let sr := Num.sum ((List.range I.length).zipWith (fun i row => Num.ofNat i * Num.sum row) I)
  let sc := Num.sum (I.map fun row => Num.sum ((List.range row.length).zipWith (fun j v => Num.ofNat j * v) row))
  (sr / tot, sc / tot)

inductive ComFit where
  | noShift
  | constant
  deriving DecidableEq, Repr

def meanR (xs : List R) : R := Num.sum xs / Num.ofNat xs.length

/-- the fitted origin (the same for every pattern for these two fit functions).
`no_shift`: the pixel `fftshift` puts the zero frequency on, `shape // 2`;
`constant`: `fit_origin(..., "constant")` = mean measured centre of mass. -/
def comFit (mode : ComFit) (Is : List (RImg R)) (R0 R1 : Nat) : R × R :=
  match mode with
  | .noShift => (Num.ofNat (R0 / 2), Num.ofNat (R1 / 2))
  | .constant =>
    let cs := Is.map comMeasured
    (meanR (cs.map (·.1)), meanR (cs.map (·.2)))

/-- `amplitude = maximum(sqrt(maximum(I, 0)), 0)` -/
def rawAmplitude (I : RImg R) : RImg R := I.map (·.map fun x => max0 (Num.sqrt (max0 x)))

/-- `_normalize_diffraction_intensities`, one pattern: shift the amplitude by `-com_fit`, clamp,
`fftshift` → `centered_amplitudes` -/
def centredAmplitude (I : RImg R) (cr cc : R) : RImg R :=
  fftshift2 ((shiftArray (rawAmplitude I) (-(cr + Num.zero)) (-(cc + Num.zero))).map (·.map max0))

/-- `centered_intensities = shift_amplitude ** 2` -/
def centredIntensity (I : RImg R) (cr cc : R) : RImg R :=
  (centredAmplitude I cr cc).map (·.map fun a => a * a)

/-- `mean_diffraction_intensity = Σ_patterns Σ_pixels maximum(I, 0) / num_patterns` -/
def meanDiffractionIntensity (Is : List (RImg R)) : R :=
  Num.sum (Is.map fun I => rsum (I.map (·.map max0))) / Num.ofNat Is.length

/-- initial `descan_shifts = -com_fit + roi_shape // 2` (bookkeeping only: unused when the
descan is not optimised) -/
def descanShift (com : R) (N : Nat) : R := -com + Num.ofNat (N / 2)

/-! ## 4. losses (`error_estimate`) -/

inductive LossType where
  | l2Amplitude
  | l1Amplitude
  | l2Intensity
  | l1Intensity
  deriving DecidableEq, Repr

def LossType.isAmplitude : LossType → Bool
  | .l2Amplitude | .l1Amplitude => true
  | _ => false
def LossType.isL1 : LossType → Bool
  | .l1Amplitude | .l1Intensity => true
  | _ => false

/-- the `1e-9` inside `torch.sqrt(pred_intensities + 1e-9)` -/
def epsLoss : R := Num.ofRat (1 / 10 ^ 9)

/-- `preds = sqrt(pred + 1e-9)` for amplitude losses, else the intensities -/
def lossPred (lt : LossType) (x : R) : R := if lt.isAmplitude then Num.sqrt (x + epsLoss) else x

/-- one pixel of `diff = preds * mask - targets * mask`, then `|diff|` or `|diff|**2` -/
def lossTerm (lt : LossType) (pred target mask : R) : R :=
  let d := lossPred lt pred * mask - target * mask
  if lt.isL1 then Num.abs d else Num.sq (Num.abs d)

/-- the per-pixel loss terms of one pattern (shape of the pattern) -/
def lossTermsRow (lt : LossType) (pred target mask : List R) : List R :=
  List.zipWith (fun (pt : R × R) m => lossTerm lt pt.1 pt.2 m) (List.zip pred target) mask

def lossTermsImg (lt : LossType) (pred target mask : RImg R) : R :=
  Num.sum (List.zipWith (fun (pt : List R × List R) m => Num.sum (lossTermsRow lt pt.1 pt.2 m))
    (List.zip pred target) mask)

/-- `error_estimate(pred_intensities, batch_indices, loss_type)[0]`:
`Σ … / (batch / num_gpts) / mean_diffraction_intensity`; `preds`/`targets` are the batch -/
def lossBatch (lt : LossType) (preds targets : List (RImg R)) (mask : RImg R) (numGpts : Nat) (meanI : R) : R :=
  let err := Num.sum (List.zipWith (fun p t => lossTermsImg lt p t mask) preds targets)
  err / (Num.ofNat preds.length / Num.ofNat numGpts) / meanI

/-- `_set_targets(loss_type)` without descan optimisation: centred amplitudes / intensities -/
def target (lt : LossType) (I : RImg R) (cr cc : R) : RImg R :=
  if lt.isAmplitude then centredAmplitude I cr cc else centredIntensity I cr cc

/-! ## 5. the independent reference specification

The textbook mixed-state multislice experiment, written WITHOUT the library's conventions:
* every array is in natural order with its origin at the central pixel `⌊N/2⌋`;
* the probe is a centred array; it is placed at scan position `p` by cutting the object window
  `[round(p) - ⌊N/2⌋, …)` in natural order and translating the probe by the remaining fraction of a
  pixel with the band-limited (sinc) translation, frequencies counted as signed integers
  `κ = j - ⌊N/2⌋`;
* slices are transmitted and Fresnel-propagated in the same centred coordinates;
* the far field is the centred unitary DFT, zero frequency on pixel `⌊N/2⌋`, intensities of the
  incoherent modes added.
-/
namespace Spec

/-- centred transform: `fftshift(fft2(ifftshift(x)))` (origin at the central pixel on both sides) -/
def cfft2 (x : Img R) : Img R := fftshift2 (dft2 (ifftshift2 x))
def cifft2 (x : Img R) : Img R := fftshift2 (idft2 (ifftshift2 x))

/-- signed frequency / coordinate of sample `j` of a centred axis of length `N` -/
def kappa (N j : Nat) : Int := (j : Int) - ((N / 2 : Nat) : Int)

/-- transfer function of a translation by `(sr, sc)` pixels, centred frequency order -/
def translationKernel (nr nc : Nat) (sr sc : R) : Img R :=
  (List.range nr).map fun k => (List.range nc).map fun l =>
    Cx.cis (Num.ofRat (-2) * Num.pi * Num.ofRat ((kappa nr k : Rat) / (nr : Rat)) * sr)
      * Cx.cis (Num.ofRat (-2) * Num.pi * Num.ofRat ((kappa nc l : Rat) / (nc : Rat)) * sc)

/-- band-limited translation of a centred wave -/
def translate (psi : Img R) (sr sc : R) : Img R :=
  cifft2 (mulImg (cfft2 psi) (translationKernel (nrows psi) (ncols psi) sr sc))

/-- Fresnel transfer function `exp(-iπλ·dz·|k|²)`, `k = κ / (N·d)`, centred frequency order -/
def fresnelKernel (nr nc : Nat) (dr dc lam dz : R) : Img R :=
  (List.range nr).map fun k => (List.range nc).map fun l =>
    let a : R := Num.ofInt (kappa nr k) / (Num.ofNat nr * dr)
    let b : R := Num.ofInt (kappa nc l) / (Num.ofNat nc * dc)
    Cx.cis (-(Num.pi * lam * dz) * (a * a + b * b))

def propagate (psi K : Img R) : Img R := cifft2 (mulImg (cfft2 psi) K)

/-- object window around the integer pixel `(pr, pc)`, natural order, periodic object of shape `H×W`
(`t` is one slice, flat row-major) -/
def window (t : List (Cx R)) (H W : Nat) (pr pc : Int) (R0 R1 : Nat) : Img R :=
  (List.range R0).map fun (i : Nat) => (List.range R1).map fun (j : Nat) =>
    t.getD (wrapIdx H (pr - ((R0 / 2 : Nat) : Int) + (i : Int)) * W
            + wrapIdx W (pc - ((R1 / 2 : Nat) : Int) + (j : Int))) Cx.zero

/-- multislice: transmit through a slice, propagate to the next one, …, transmit through the last -/
def exitWave : List (Img R) → List (Img R) → Img R → Img R
  | [], _, psi => psi
  | [t], _, psi => mulImg t psi
  | t :: _, [], psi => mulImg t psi                  -- no gap left: later slices are not reached
  | t :: t' :: ts, K :: Ks, psi => exitWave (t' :: ts) Ks (propagate (mulImg t psi) K)

/-- centred far-field intensity of the incoherent modes, unitary normalisation -/
def farField (nr nc : Nat) (waves : List (Img R)) : RImg R :=
  sumModes (zerosLike (waves.headD []))
    (waves.map fun w => (cfft2 w).map (·.map fun z => Cx.abs2 z / Num.ofNat (nr * nc)))

/-- one diffraction pattern: probe modes `probesC` (centred arrays) at scan position `(p.1, p.2)` -/
def pattern (H W R0 R1 : Nat) (t : List (List (Cx R))) (probesC kernels : List (Img R)) (p : Rat × Rat) : RImg R :=
  let pr := roundHalfEven p.1
  let pc := roundHalfEven p.2
  let windows := t.map fun s => window s H W pr pc R0 R1
  farField R0 R1 (probesC.map fun psi =>
    exitWave windows kernels (translate psi (Num.ofRat (p.1 - (pr : Rat))) (Num.ofRat (p.2 - (pc : Rat)))))

/-- the simulated 4D-STEM data set -/
def simulate (H W R0 R1 : Nat) (t : List (List (Cx R))) (probesC kernels : List (Img R))
    (positions : List (Rat × Rat)) : List (RImg R) :=
  positions.map (pattern H W R0 R1 t probesC kernels)

/-- the Fresnel kernels of a slice-thickness list (energy in eV → wavelength as in the library's
`electron_wavelength_angstrom`, the only shared physical constant) -/
def kernels (nr nc : Nat) (dr dc energy : R) (dzs : List R) : List (Img R) :=
  dzs.map fun dz => fresnelKernel nr nc dr dc (wavelength energy) dz

end Spec

end Carrier
end QuantemModel.Forward
