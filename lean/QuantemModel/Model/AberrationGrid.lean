import QuantemModel.Model.Aberration
/-!
C12 (growth round 6) — `complex_probe.aberration_surface_grad` at one pixel of the detector grid:

```
wavelength = electron_wavelength_angstrom(energy)
k, phi = polar_spatial_frequencies(gpts, sampling, rotation_angle=rotation_angle)   # fftfreq grid, optional passive
alpha = k * wavelength                                                              # rotation, sqrt / arctan2
dx, dy = aberration_surface_cartesian_gradients(alpha, phi, aberration_coefs)
```

The grid rotation, the polar coordinates and the Cartesian gradients are the TRANSLATED functions; the glue is
written by hand (same glue as `lateralShift`, without the division by 2π).  Core Lean only.
-/
namespace QuantemModel.Aberration
open QuantemModel

variable {R : Type} [Num R]

/-- `spatial_frequencies(..., rotation_angle)` at one pixel: rotated only when an angle is given -/
def gridPoint (kx ky : R) (theta : Option R) : R × R :=
  match theta with
  | none => (kx, ky)
  | some t => rotateGrid kx ky t

/-- `aberration_surface_grad` at the pixel with (unrotated) spatial frequency (kx, ky) -/
def surfaceGradAt (kx ky lam : R) (theta : Option R) (coefs : String → R) : R × R :=
  let k' := gridPoint kx ky theta
  let kp := Generated.Aberration.polar_coordinates k'.1 k'.2
  Generated.Aberration.aberration_surface_cartesian_gradients (kp.1 * lam) kp.2 coefs

end QuantemModel.Aberration
