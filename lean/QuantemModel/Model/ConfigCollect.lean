import QuantemModel.Model.Config
/-!
`collect` / `collect_yaml` / `_load_config_file` and `refresh(path=…)` of
`quantem.core.config` (C19): what `refresh` adds on top of the accumulated defaults when the
configuration directory is not empty.  The file system is a parameter: a path is missing, a
single file, or a directory listing; a file is what `yaml.safe_load` makes of it.
Core Lean only.
-/
namespace QuantemModel.Config

/-- what `_load_config_file` finds in one file -/
inductive FileContent where
  /-- a mapping at top level -/
  | dict (d : Dict)
  /-- an empty document: `yaml.safe_load` gives `None`, the file is skipped -/
  | empty
  /-- the parser raises: `ValueError("… is malformed …")` -/
  | malformed
  /-- a list / scalar at top level: `ValueError("… must have a dict as the top level object")` -/
  | nonDict
  /-- `open()` raises `OSError` (e.g. a directory called `x.yaml`): ignored -/
  | unreadable
  deriving Repr, Inhabited

structure CfgFile where
  name : String
  content : FileContent
  deriving Repr, Inhabited

/-- the `path` argument of `collect` as the file system presents it -/
inductive PathKind where
  /-- `not path.exists()` -/
  | missing
  /-- a regular file (any name): `file_paths.append(path)` -/
  | file (c : FileContent)
  /-- a directory: its entries, in any order -/
  | dir (entries : List CfgFile)
  deriving Repr, Inhabited

/-- `path.glob("*.json")`, `"*.yaml"`, `"*.yml"` (case-sensitive suffix match; pathlib's `*`
also matches names that start with a dot) -/
def hasCfgExt (name : String) : Bool :=
  name.endsWith ".json" || name.endsWith ".yaml" || name.endsWith ".yml"

/-- insertion into a list sorted by file name (`sorted(file_paths)`: entries of one directory
compare by their names, code point by code point) -/
def insertByName (f : CfgFile) : List CfgFile → List CfgFile
  | [] => [f]
  | g :: rest => if f.name < g.name then f :: g :: rest else g :: insertByName f rest

def sortByName : List CfgFile → List CfgFile
  | [] => []
  | f :: rest => insertByName f (sortByName rest)

/-- `_load_config_file` over the files in order; the generator of `collect_yaml` stops at the
first file that raises -/
def loadFiles : List FileContent → Except Err (List Dict)
  | [] => .ok []
  | .dict d :: rest => do
      let r ← loadFiles rest
      .ok (d :: r)
  | .empty :: rest => loadFiles rest
  | .unreadable :: rest => loadFiles rest
  | .malformed :: _ => .error .valueError
  | .nonDict :: _ => .error .valueError

/-- `list(collect_yaml(path))` -/
def collectYaml : PathKind → Except Err (List Dict)
  | .missing => .ok []
  | .file c => loadFiles [c]
  | .dir entries => loadFiles (((sortByName entries).filter fun f => hasCfgExt f.name).map (·.content))

/-- `collect(path)` = `merge(*collect_yaml(path))` (top-level keys are validated by `update`) -/
def collect (env : Env) (pk : PathKind) : Except Err Dict := do
  let ds ← collectYaml pk
  merge env ds

/-- `refresh(path=…)`: `config.clear()`, the accumulated defaults with priority `new`, then
`update(config, collect(path))`; an exception leaves the configuration as far as it was rebuilt
(`collect` is evaluated after the defaults have been replayed) -/
def refreshFromP (env : Env) (s : State) (pk : PathKind) : State × Option Err :=
  match refreshP env s with
  | (s1, some e) => (s1, some e)
  | (s1, .none) =>
      match collect env pk with
      | .error e => (s1, some e)
      | .ok c =>
          let r := updateP env .new false s1.config .none c
          ({ s1 with config := r.1 }, r.2)

/-! ### `with set(...)` blocks with a body (context-manager stack) -/

/-- the module state together with the undo records of the `with set(...)` blocks that have
been entered and not yet left (innermost first) -/
structure XState where
  s : State
  stack : List (List RecOp)
  deriving Repr, Inhabited

/-- `cm = set(items); cm.__enter__()`: the values are applied; when `__init__` raises nothing
is entered (and what was applied stays applied) -/
def xenter (env : Env) (x : XState) (items : List (Key × Tree)) : XState × Option Err :=
  match setItems env x.s.config [] items with
  | (cfg, rec_, .none) => ({ s := { x.s with config := cfg }, stack := rec_ :: x.stack }, .none)
  | (cfg, _, some e) => ({ x with s := { x.s with config := cfg } }, some e)

/-- `cm.__exit__(…)` of the innermost open block — also run when the body raised -/
def xexit (x : XState) : XState :=
  match x.stack with
  | [] => x
  | rec_ :: rest => { s := { x.s with config := exitCtx x.s.config rec_ }, stack := rest }

end QuantemModel.Config
