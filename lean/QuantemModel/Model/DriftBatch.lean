import QuantemModel.Model.Drift
/-!
Growth round 6 (C15): the BATCH loop of `imaging_utils.bilinear_kde` and the helpers it calls,
`utils.subdivide_batches(num_items, max_batch=…)` / `utils.generate_batches`.

`bilinear_kde` does not add up the weight map in one go: it cuts the point list into consecutive
slices `[start, end)` (`generate_batches(n, max_batch=max_batch_size)`, `max_batch_size=None` meaning
one slice with all `n` points) and does `pix_count += np.bincount(…)` slice by slice.  Model/Drift.lean
has the un-batched sum (`weightMapAt`); this file has the code as written.  Core Lean only.
-/
namespace QuantemModel.Drift
open QuantemModel QuantemModel.Registration
variable {R : Type} [Num R] [NumFloor R]

/-- `num_batches = (num_items + max_batch - 1) // max_batch` -/
def numBatches (n mb : Nat) : Nat := (n + mb - 1) / mb

/-- `utils.subdivide_batches(num_items=n, max_batch=mb)`:
```
num_batches = (num_items + max_batch - 1) // max_batch      # ZeroDivisionError for max_batch = 0
if num_items < num_batches: raise ValueError                  # unreachable for max_batch >= 1
base_size = num_items // num_batches                          # ZeroDivisionError for num_items = 0
remainder = num_items % num_batches
return [base_size + 1] * remainder + [base_size] * (num_batches - remainder)
```
`none` = the call raises (ZeroDivisionError). -/
def subdivideBatches (n mb : Nat) : Option (List Nat) :=
  if mb = 0 then none
  else if numBatches n mb = 0 then none
  else some (List.replicate (n % numBatches n mb) (n / numBatches n mb + 1)
             ++ List.replicate (numBatches n mb - n % numBatches n mb) (n / numBatches n mb))

/-- `utils.generate_batches`: `idx = start_index; for size in batch_sizes: yield idx, idx + size; idx += size` -/
def generateBatches : List Nat → Nat → List (Nat × Nat)
  | [], _ => []
  | s :: rest, idx => (idx, idx + s) :: generateBatches rest (idx + s)

/-- `Σ_{start ≤ p < start+len} f p`: what one slice `[start, end)` adds to a canvas cell -/
def sumSlice (f : Nat → R) (start : Nat) : Nat → R
  | 0 => Num.zero
  | len + 1 => sumSlice f start len + f (start + len)

/-- `pix_count[i, j]` accumulated slice by slice (`pix_count += np.bincount(inds_1D, weights, minlength)` inside
`for start, end in generate_batches(...)`) -/
def weightMapBatched (rows cols : Nat) (batches : List (Nat × Nat)) (pt : Nat → R × R) (i j : Nat) : R :=
  batches.foldl (fun acc b => acc + sumSlice (fun p => splatAt rows cols (pt p).1 (pt p).2 i j) b.1 (b.2 - b.1)) Num.zero

/-- the slices `bilinear_kde` walks through for `n` points: `max_batch_size=None` → `max_batch_size = n` -/
def kdeBatches (n : Nat) (maxBatch : Option Nat) : Option (List (Nat × Nat)) :=
  (subdivideBatches n (maxBatch.getD n)).map fun sizes => generateBatches sizes 0

/-- raw `pix_count` of `bilinear_kde(..., max_batch_size=maxBatch)` for `n` points; `none` = the call raises -/
def kdeCount (rows cols n : Nat) (maxBatch : Option Nat) (pt : Nat → R × R) : Option (Nat → Nat → R) :=
  (kdeBatches n maxBatch).map fun bs => weightMapBatched rows cols bs pt

end QuantemModel.Drift
