/-
C17 — model of the reliability-sorting phase unwrapper
(`/repo/src/quantem/core/utils/imaging_utils.py`: `_find_wrap`, `_build_edges`,
`UnionFindPhase`, `_final_offsets`, `_unwrap_phase_2d_torch_reliability_sorting`) and of the
bright-field embedding `unwrap_bf_overlap_phase_torch` (`direct_ptycho_utils.py`).

Core Lean only.  Written once over the law-free carrier `[Num R]`:
  * executed at `Rat` with `half = 1` (phases in units of π — exact correspondence),
  * reasoned about at `ℝ` with any `half > 0`, in particular `half = π` (the code).
`half` stands for `math.pi` in the units the phases are expressed in.

The ORDER in which edges are merged is an INPUT of the model (`order`): the real code sorts
by a floating-point reliability with an unstable `argsort`; the theorems hold for every order,
so reliability values never enter them.  The union–find is exactly the code's: no path
compression, union by rank, `delta = ox - oy - inc`, sign flip when `rx` goes under `ry`.
-/
import QuantemModel.Core.Num
namespace QuantemModel.Unwrap
open QuantemModel

variable {R : Type} [Num R]

/-- `_find_wrap(a, b)`:  `d = a - b; where(d > pi, -1, where(d < -pi, 1, 0))` -/
def findWrap (half a b : R) : Int :=
  let d := a - b
  if Num.ltb half d then -1 else if Num.ltb d (-half) then 1 else 0

/-- one row of the integer edge tensor `stack([i1, i2, inc])` (the reliabilities, kept in a
separate float tensor, only decide the order, which is an input here) -/
structure Edge where
  i1 : Nat
  i2 : Nat
  inc : Int
deriving Repr, BEq, DecidableEq

/-- Pixel pairs in the order `_build_edges` creates them (flat row-major index `r*W + c`),
before the mask filter and before sorting.
`wrap_around=True`:  `add_edges(idx, roll(idx,-1,1))` then `add_edges(idx, roll(idx,-1,0))`;
`wrap_around=False`: `add_edges(idx[:, :-1], idx[:, 1:])` then `add_edges(idx[:-1, :], idx[1:, :])`. -/
def edgePairs (H W : Nat) (wrap : Bool) : List (Nat × Nat) :=
  if wrap then
    -- (r, c) — (r, (c+1) % W)   for every pixel, row-major
    ((List.range (H * W)).map fun i => (i, (i / W) * W + (i % W + 1) % W))
    -- (r, c) — ((r+1) % H, c)
    ++ ((List.range (H * W)).map fun i => (i, ((i / W + 1) % H) * W + i % W))
  else
    -- (r, c) — (r, c+1),  c < W-1
    ((List.range H).flatMap fun r => (List.range (W - 1)).map fun c => (r * W + c, r * W + c + 1))
    -- (r, c) — (r+1, c),  r < H-1
    ++ ((List.range (H - 1)).flatMap fun r => (List.range W).map fun c => (r * W + c, (r + 1) * W + c))

/-- `valid = mask_f[i1] & mask_f[i2]` (`mask=None` is the all-true mask) -/
def maskedPairs (H W : Nat) (mask : Nat → Bool) (wrap : Bool) : List (Nat × Nat) :=
  (edgePairs H W wrap).filter fun p => mask p.1 && mask p.2

/-- `inc = _find_wrap(phi_f[i1], phi_f[i2])` for a list of pixel pairs -/
def edgesOfPairs (half : R) (phi : Nat → R) (pairs : List (Nat × Nat)) : List Edge :=
  pairs.map fun p => { i1 := p.1, i2 := p.2, inc := findWrap half (phi p.1) (phi p.2) }

/-- `_build_edges` before the `argsort` -/
def buildEdges (half : R) (H W : Nat) (phi : Nat → R) (mask : Nat → Bool) (wrap : Bool) : List Edge :=
  edgesOfPairs half phi (maskedPairs H W mask wrap)

/-! ### `UnionFindPhase` -/

structure UF where
  parent : Array Nat
  rank : Array Nat
  offset : Array Int
deriving Repr

namespace UF

/-- `__init__`: `parent = arange(n)`, `rank = zeros(n)`, `offset = zeros(n)` -/
def init (n : Nat) : UF := ⟨Array.range n, Array.replicate n 0, Array.replicate n 0⟩

@[inline] def par (u : UF) (i : Nat) : Nat := u.parent.getD i 0
@[inline] def rk (u : UF) (i : Nat) : Nat := u.rank.getD i 0
@[inline] def off (u : UF) (i : Nat) : Int := u.offset.getD i 0

/-- the loop of `find_root_and_offset` (and of `_final_offsets`):
```
while self.parent[root] != root:
    total += self.offset[root]
    root = self.parent[root]
```
Python's `while` has no bound; the model is total by `fuel` and answers `none` when the fuel
runs out, i.e. when the Python loop would not have stopped after `fuel` tests.  Theorem
`find_terminates` (Props/C17) shows `none` is unreachable from `init` by unions. -/
def findAux (u : UF) : Nat → Nat → Int → Option (Nat × Int)
  | 0, _, _ => none
  | fuel + 1, root, total =>
    if u.par root != root then findAux u fuel (u.par root) (total + u.off root)
    else some (root, total)

/-- `find_root_and_offset(x)`; fuel = number of pixels (a cycle-free walk cannot be longer) -/
def find (u : UF) (x : Nat) : Option (Nat × Int) := u.findAux u.parent.size x 0

/-- `union(x, y, inc_xy)` -/
def union (u : UF) (x y : Nat) (inc : Int) : Option UF :=
  match u.find x, u.find y with
  | some (rx, ox), some (ry, oy) =>
    if rx == ry then some u                       -- if rx == ry: return
    else
      let delta := ox - oy - inc                   -- delta = ox - oy - inc_xy
      if u.rk rx < u.rk ry then                    -- if rank[rx] < rank[ry]:
        some { u with parent := u.parent.setIfInBounds rx ry          -- parent[rx] = ry
                      offset := u.offset.setIfInBounds rx (-delta) }  -- offset[rx] = -delta
      else
        some { parent := u.parent.setIfInBounds ry rx                 -- parent[ry] = rx
               offset := u.offset.setIfInBounds ry delta              -- offset[ry] = delta
               rank := if u.rk rx == u.rk ry                          -- if rank[rx] == rank[ry]:
                       then u.rank.setIfInBounds rx (u.rk rx + 1)     --     rank[rx] += 1
                       else u.rank }
  | _, _ => none

end UF

/-- `for k in range(i1.numel()): uf.union(i1[k], i2[k], inc[k])` -/
def unionAll (u : UF) : List Edge → Option UF
  | [] => some u
  | e :: es =>
    match u.union e.i1 e.i2 e.inc with
    | some u' => unionAll u' es
    | none => none

def allSome {α : Type} : List (Option α) → Option (List α)
  | [] => some []
  | none :: _ => none
  | some a :: rest => (allSome rest).map (a :: ·)

/-- `_final_offsets(uf)`: for every pixel the accumulated offset to its root (same loop as
`find_root_and_offset`, duplicated in the code) -/
def finalOffsets (u : UF) : Option (List Int) :=
  allSome ((List.range u.parent.size).map fun i => (u.find i).map (·.2))

/-- `out = phi.flatten() + 2*pi*incs;  out -= out.mean()` (the mean is over ALL `N` pixels,
masked-out ones included) -/
def assemble (half : R) (N : Nat) (phi : Nat → R) (incs : List Int) : List R :=
  let a := incs.toArray
  let out := (List.range N).map fun i => phi i + Num.two * half * Num.ofInt (a.getD i 0)
  let mean := Num.sum out / Num.ofNat N
  out.map (· - mean)

/-- `_unwrap_phase_2d_torch_reliability_sorting` after the sort: union all edges in the given
order, read the offsets, assemble. -/
def unwrapSorted (half : R) (N : Nat) (phi : Nat → R) (es : List Edge) : Option (List R) :=
  match unionAll (UF.init N) es with
  | none => none
  | some u =>
    match finalOffsets u with
    | none => none
    | some incs => some (assemble half N phi incs)

/-- `unwrap_phase_2d_torch(phi, "reliability-sorting", mask, wrap_around)` with the merge
order made explicit: `order` is the list of masked pixel pairs in the order the sort left
them (specification: a permutation of `maskedPairs H W mask wrap`). -/
def unwrapPhase2d (half : R) (H W : Nat) (phi : Nat → R) (order : List (Nat × Nat)) : Option (List R) :=
  unwrapSorted half (H * W) phi (edgesOfPairs half phi order)

/-! ### `_pixel_reliability` and the sort

The reliability only decides the ORDER of the merges.  It is modelled exactly so that the order
can be compared with the code; no theorem depends on it (`unwrap_correct_any_sort`). -/

/-- `_wrap_to_pi(x) = (x + pi) % (2*pi) - pi` at `Rat` in units of π (Python's float `%` with a
positive modulus is floor-mod: the result lies in `[-1, 1)`) -/
def wrapToPiRat (x : Rat) : Rat := (x + 1) - 2 * ((((x + 1) / 2).floor : Int) : Rat) - 1

/-- `_pixel_reliability(phi, mask)`: squared wrapped second differences along the row, the column
and the two diagonals.  `wrapf` is `_wrap_to_pi` in the carrier.  All eight neighbours come from
`torch.roll`, i.e. they are PERIODIC neighbours whatever `wrap_around` is.  Masked-out pixels get
`inf` (`none`); they never enter an edge.
```
left = roll(c, 1, 1); right = roll(c, -1, 1); up = roll(c, 1, 0); down = roll(c, -1, 0)
ul = roll(left, 1, 0); dr = roll(right, -1, 0); ur = roll(right, 1, 0); dl = roll(left, -1, 0)
H = W(left - c) - W(c - right) … R = H**2 + V**2 + D1**2 + D2**2
``` -/
def pixelReliability (wrapf : R → R) (H W : Nat) (phi : Nat → R) (mask : Nat → Bool) : Nat → Option R :=
  fun i =>
    if !mask i then none else
    let r := i / W
    let c := i % W
    let rm := (r + H - 1) % H      -- row of `up`     (roll by +1 along axis 0)
    let rp := (r + 1) % H          -- row of `down`   (roll by -1)
    let cm := (c + W - 1) % W      -- column of `left`
    let cp := (c + 1) % W          -- column of `right`
    let v (rr cc : Nat) : R := phi (rr * W + cc)
    let x := v r c
    let hterm := wrapf (v r cm - x) - wrapf (x - v r cp)
    let vterm := wrapf (v rm c - x) - wrapf (x - v rp c)
    let d1 := wrapf (v rm cm - x) - wrapf (x - v rp cp)
    let d2 := wrapf (v rm cp - x) - wrapf (x - v rp cm)
    some (Num.sq hterm + Num.sq vterm + Num.sq d1 + Num.sq d2)

/-- `rel = rel_f[i1] + rel_f[i2]` (`none` = `inf`) -/
def edgeRel (rel : Nat → Option R) (p : Nat × Nat) : Option R :=
  match rel p.1, rel p.2 with
  | some a, some b => some (a + b)
  | _, _ => none

/-- `≤` on reliabilities with `none` = `+inf` -/
def relLe : Option R → Option R → Bool
  | some a, some b => Num.leb a b
  | _, none => true
  | none, some _ => false

/-- `edges[rel.argsort()]`: ascending in `rel`.  `argsort` is not stable, so ties may come out in
any order in the code; the model's (stable) merge sort is ONE admissible outcome. -/
def sortPairs (le : Nat × Nat → Nat × Nat → Bool) (pairs : List (Nat × Nat)) : List (Nat × Nat) :=
  pairs.mergeSort le

def sortedPairs (wrapf : R → R) (H W : Nat) (phi : Nat → R) (mask : Nat → Bool) (wrap : Bool) :
    List (Nat × Nat) :=
  let rel := pixelReliability wrapf H W phi mask
  sortPairs (fun p q => relLe (edgeRel rel p) (edgeRel rel q)) (maskedPairs H W mask wrap)

/-- is `order` ascending in the model's edge reliability (ties in any order)? -/
def ascendingIn (rel : Nat → Option R) : List (Nat × Nat) → Bool
  | [] => true
  | [_] => true
  | p :: q :: rest => relLe (edgeRel rel p) (edgeRel rel q) && ascendingIn rel (q :: rest)

/-- the whole of `_unwrap_phase_2d_torch_reliability_sorting` with nothing left as an input:
reliability, sort, unions, offsets, assembly -/
def unwrapReliability (half : R) (wrapf : R → R) (H W : Nat) (phi : Nat → R) (mask : Nat → Bool)
    (wrap : Bool) : Option (List R) :=
  unwrapPhase2d half H W phi (sortedPairs wrapf H W phi mask wrap)

/-! ### `unwrap_bf_overlap_phase_torch` -/

/-- flat indices where `bf_mask` is true, row-major (boolean-mask indexing order) -/
def bfPositions (N : Nat) (bfMask : Nat → Bool) : List Nat := (List.range N).filter bfMask

/-- scatter `vals` to `pos` on a length-`N` grid, default elsewhere -/
def scatter {α : Type} (N : Nat) (pos : List Nat) (vals : List α) (dflt : α) : Array α :=
  (pos.zip vals).foldl (fun a pv => a.setIfInBounds pv.1 pv.2) (Array.replicate N dflt)

/-- `mask_grid`: `mask_bf` scattered to the bf positions, false elsewhere -/
def bfMaskGrid (N : Nat) (bfMask : Nat → Bool) (maskBf : List Bool) : Nat → Bool :=
  let mgrid := scatter N (bfPositions N bfMask) maskBf false
  fun i => mgrid.getD i false

def maxList (xs : List R) : R := match xs with | [] => Num.zero | x :: r => r.foldl Num.max x
def minList (xs : List R) : R := match xs with | [] => Num.zero | x :: r => r.foldl Num.min x

/-- Result of the embedding: which branch was taken and the gathered values. -/
inductive BfBranch | noMask | smallRange | onePass | twoPass
deriving Repr, BEq, DecidableEq

/-- The grid-level body of `unwrap_bf_overlap_phase_torch`, after the scatter and before the
gather (`g0` = `phase_grid`, `m` = `mask_grid`):
```
if mask_grid.any():
    if phase_grid.max() - phase_grid.min() > pi:
        phase_grid = unwrap(phase_grid * mask_grid, mask=mask_grid) * mask_grid
        if two_pass: phase_grid = unwrap(phase_grid, mask=mask_grid) * mask_grid
```
`order1`, `order2` are the merge orders of the two passes (inputs, see above). -/
def bfUnwrapGrid (half : R) (H W : Nat) (g0 : Nat → R) (m : Nat → Bool) (twoPass : Bool)
    (order1 order2 : List (Nat × Nat)) : Option (BfBranch × (Nat → R)) :=
  let N := H * W
  if !(List.range N).any m then some (.noMask, g0)
  else
    let vals := (List.range N).map g0
    if !(Num.ltb half (maxList vals - minList vals)) then some (.smallRange, g0)
    else
      -- phase_grid * mask_grid
      let in1 : Nat → R := fun i => if m i then g0 i else Num.zero
      match unwrapPhase2d half H W in1 order1 with
      | none => none
      | some o1 =>
        let g1 : Nat → R := fun i => if m i then o1.getD i Num.zero else Num.zero
        if !twoPass then some (.onePass, g1)
        else
          match unwrapPhase2d half H W g1 order2 with
          | none => none
          | some o2 => some (.twoPass, fun i => if m i then o2.getD i Num.zero else Num.zero)

/--
```
phase_grid = zeros; mask_grid = zeros(bool)
phase_grid[bf_mask] = phase_bf;  mask_grid[bf_mask] = mask_bf
… bfUnwrapGrid …
return phase_grid[bf_mask]
``` -/
def unwrapBfOverlap (half : R) (H W : Nat) (bfMask : Nat → Bool) (maskBf : List Bool)
    (phaseBf : List R) (twoPass : Bool) (order1 order2 : List (Nat × Nat)) :
    Option (BfBranch × List R) :=
  let N := H * W
  let pos := bfPositions N bfMask
  let grid0 := scatter N pos phaseBf Num.zero
  match bfUnwrapGrid half H W (fun i => grid0.getD i Num.zero) (bfMaskGrid N bfMask maskBf)
      twoPass order1 order2 with
  | none => none
  | some (br, g) => some (br, pos.map g)

/-- one image handed to `unwrap_bf_overlap_phase_torch` by its caller -/
structure BfImage (R : Type) where
  maskBf : List Bool
  phaseBf : List R
  order1 : List (Nat × Nat)
  order2 : List (Nat × Nat)

/-- the caller's loop (direct_ptychography.py):
`for j in range(N_q): out[:, j] = unwrap_bf_overlap_phase_torch(data[:, j], mask[:, j], bf_mask, two_pass=…)`
— every image goes through the same `bf_mask`, nothing is shared between images -/
def unwrapBfStack (half : R) (H W : Nat) (bfMask : Nat → Bool) (twoPass : Bool)
    (imgs : List (BfImage R)) : List (Option (BfBranch × List R)) :=
  imgs.map fun im => unwrapBfOverlap half H W bfMask im.maskBf im.phaseBf twoPass im.order1 im.order2

end QuantemModel.Unwrap
