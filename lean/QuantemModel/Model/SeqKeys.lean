/-!
Element keys of list / tuple / set groups (`serialize.py:_serialize_container`,
`_deserialize_container`).

`Model/Serialize.lean` keeps the elements of a sequence as *positional* children.  The real
code stores element `i` under the key `str(i)` (as an attribute, an array or a sub-group of the
sequence's group, next to metadata attributes such as `_container_type`), and rebuilds the
sequence with

    length = max((int(k) for k in <all keys> if k.isdigit()), default=-1) + 1
    for i in range(length):
        key = str(i)
        if key in <attrs / arrays / groups>: items.append(<decoded child>)
        else: raise KeyError(f"Missing expected key '{key}' in container")

This file models exactly that key layer — decimal rendering, the `isdigit`/`int` parse, the
length reconstruction and the lookup loop — over an arbitrary element type, so that
`Props/C01.lean` can prove that it is the identity on every list whatever the order in which
the store enumerates the keys (`seqDecode_keyed`).  Core Lean only.
-/
namespace QuantemModel.SeqKeys

abbrev Key := List Char

def digitChar (d : Nat) : Char := Char.ofNat (48 + d)

/-- decimal digits, least significant first -/
def decRev (n : Nat) : List Char :=
  if n < 10 then [digitChar n] else digitChar (n % 10) :: decRev (n / 10)
termination_by n
decreasing_by omega

/-- Python `str(n)` for a natural number -/
def dec (n : Nat) : Key := (decRev n).reverse

/-- ASCII digit value (`'0'..'9'`) -/
def digitVal (c : Char) : Option Nat :=
  if 48 ≤ c.toNat ∧ c.toNat ≤ 57 then some (c.toNat - 48) else none

/-- value of a little-endian digit string; `none` for the empty string or a non-digit -/
def undecRev : List Char → Option Nat
  | [] => none
  | [c] => digitVal c
  | c :: cs =>
      match digitVal c, undecRev cs with
      | some d, some r => some (d + 10 * r)
      | _, _ => none

/-- `int(k) if k.isdigit() else <skipped>` (ASCII digits; leading zeros are accepted by
`int`, exactly as here) -/
def undec (k : Key) : Option Nat := undecRev k.reverse

/-- the children of a sequence group as written by `for i, v in enumerate(value)` -/
def keyedFrom {α : Type} : Nat → List α → List (Key × α)
  | _, [] => []
  | i, x :: xs => (dec i, x) :: keyedFrom (i + 1) xs

def keyed {α : Type} (items : List α) : List (Key × α) := keyedFrom 0 items

/-- `max((int(k) for k in keys if k.isdigit()), default=-1) + 1` -/
def seqLen (keys : List Key) : Nat :=
  (keys.filterMap undec).foldl (fun m i => max m (i + 1)) 0

def lookupKey {α : Type} (k : Key) : List (Key × α) → Option α
  | [] => none
  | (k', v) :: rest => if k' = k then some v else lookupKey k rest

/-- all values of `f` on the given indices, or `none` as soon as one is missing -/
def collect {α : Type} (f : Nat → Option α) : List Nat → Option (List α)
  | [] => some []
  | i :: is =>
      match f i, collect f is with
      | some x, some xs => some (x :: xs)
      | _, _ => none

/-- the reconstruction loop: the children under `str(0)`, …, `str(length-1)` in index order;
`none` stands for the `KeyError` raised when one of these keys is missing -/
def seqDecode {α : Type} (kids : List (Key × α)) : Option (List α) :=
  collect (fun i => lookupKey (dec i) kids) (List.range (seqLen (kids.map (·.1))))

end QuantemModel.SeqKeys
