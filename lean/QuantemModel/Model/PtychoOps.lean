import QuantemModel.Core.Dft
/-!
C16 — executable model of the ptychography forward-model operators, written once over the
law-free carrier `[Num R]` (run at `Float` / `Int` by Driver/C16.lean, reasoned about at `ℝ`
in Props/C16.lean).  Core Lean only.  DFTs are the defining sums of Core/Dft.lean.

Arrays: a 2-D complex image is a list of rows `Img R = List (List (Cx R))`; one model call
handles ONE batch element / scan position (the torch code broadcasts the same arithmetic
over the batch axis; the harness loops over the batch).  A probe stack (mixed state) is a
`List (Img R)`, a multislice object patch stack is a `List (Img R)` (one per slice).

Modelled code (src/quantem/diffractive_imaging):
* ptycho_utils.py       fourier_translation_operator, fourier_shift_expand, sum_patches(_base)
* ptychography_base.py  _propagate_array, overlap_projection, estimate_amplitudes/_intensities
* ptychography.py       fourier_projection, gradient_step
* probe_models.py       ProbeBase._compute_propagator_arrays  (+ utils.electron_wavelength_angstrom)
* detector_models.py    DetectorPixelated.forward
* object_models.py      ObjectBase._get_obj_patches, _propagate_array
-/
namespace QuantemModel.PtychoOps
open QuantemModel QuantemModel.Dft

abbrev Img (R : Type) := List (List (Cx R))
abbrev RImg (R : Type) := List (List R)

def nrows {α : Type} (x : List (List α)) : Nat := x.length
def ncols {α : Type} (x : List (List α)) : Nat := (x.headD []).length

/-! ### index_add scatter / gather — generic in the element type (run at `Int`, `Cx Float`) -/
section GatherScatter
variable {α : Type}

/-- `obj_flat[patch_indices]` (advanced indexing with a flat index array; `d` is only returned
for out-of-range indices, where torch raises IndexError — the driver reports that case). -/
def gather (d : α) (obj : List α) (idx : List Nat) : List α := idx.map fun i => obj.getD i d

/-- `out = zeros(n); out.index_add_(0, flat_indices, flat_weights)` (sum_patches_base):
sequential accumulation, repeated indices accumulate. -/
def scatter [Add α] (zero : α) (n : Nat) (patches : List α) (idx : List Nat) : List α :=
  (List.zip idx patches).foldl (fun out ip => out.modify ip.1 (· + ip.2)) (List.replicate n zero)

/-- all indices addressable (otherwise torch raises) -/
def indicesOk (n : Nat) (idx : List Nat) : Bool := idx.all (· < n)
end GatherScatter

section Carrier
variable {R : Type} [Num R]

/-! ### elementwise helpers -/
/-- `a * b` on equal-shape complex images -/
def mulImg (a b : Img R) : Img R := List.zipWith (List.zipWith (· * ·)) a b
def subImg (a b : Img R) : Img R := List.zipWith (List.zipWith (· - ·)) a b
/-- real scalar times complex image -/
def scaleImg (s : R) (a : Img R) : Img R := a.map (·.map (Cx.smul s))
/-- `Σ |x|²` over all pixels -/
def energy (x : Img R) : R := Num.sum (x.map fun row => Num.sum (row.map Cx.abs2))
def rsum (x : RImg R) : R := Num.sum (x.map Num.sum)
def isZero (x : R) : Bool := !(Num.ltb x Num.zero || Num.ltb Num.zero x)
/-- 2-D `fftshift(·, dim=(-2,-1))` / `ifftshift` -/
def fftshift2 {α : Type} (x : List (List α)) : List (List α) := fftshift (x.map fftshift)
def ifftshift2 {α : Type} (x : List (List α)) : List (List α) := ifftshift (x.map ifftshift)
def roll2 {α : Type} (x : List (List α)) (sr sc : Int) : List (List α) := roll (x.map (roll · sc)) sr

/-! ### ptycho_utils.fourier_translation_operator / fourier_shift_expand -/
/-- `exp(-2j·π·fftfreq(n)[k]·r)` for k = 0..n-1  (`ramp_r` / `ramp_c`) -/
def rampAxis (n : Nat) (r : R) : List (Cx R) :=
  (List.range n).map fun k =>
    Cx.cis (Num.ofRat (-2) * Num.pi * Num.ofRat ((fftfreqInt n k : Rat) / (n : Rat)) * r)

/-- `ramp = ramp_r * ramp_c` (outer product) for one position `(r, c)` -/
def translationOperator (nr nc : Nat) (r c : R) : Img R :=
  (rampAxis nr r).map fun a => (rampAxis nc c).map fun b => a * b

/-- `ifft2(fft2(array) * phase)` — complex input branch of `fourier_shift_expand` -/
def fourierShift (x : Img R) (r c : R) : Img R :=
  idft2 (mulImg (dft2 x) (translationOperator (nrows x) (ncols x) r c))

/-- real input branch: `shifted_array.real` -/
def fourierShiftReal (x : RImg R) (r c : R) : RImg R :=
  (fourierShift (x.map (·.map Cx.ofReal)) r c).map (·.map (·.re))

/-! ### probe_models._compute_propagator_arrays, _propagate_array -/
/-- utils.electron_wavelength_angstrom -/
def wavelength (E : R) : R :=
  let m : R := Num.ofRat (9109383 / 10 ^ 37)
  let e : R := Num.ofRat (1602177 / 10 ^ 25)
  let c : R := Num.ofRat 299792458
  let h : R := Num.ofRat (662607 / 10 ^ 39)
  h / Num.sqrt (Num.two * m * e * E) / Num.sqrt (Num.one + e * E / Num.two / m / (c * c))
    * Num.ofRat (10 ^ 10)

/-- `torch.fft.fftfreq(n, d)` -/
def kAxis (n : Nat) (d : R) : List R :=
  (List.range n).map fun k => Num.ofInt (fftfreqInt n k) / (Num.ofNat n * d)

def tanR (x : R) : R := Num.sin x / Num.cos x

/-- one propagator `exp(-iπλ·dz·k²)·[exp(-2πi·dz·tan(θr/1e3)·kr)]·[exp(-2πi·dz·tan(θc/1e3)·kc)]`;
the tilt factors are applied only `if theta != 0` as in the code. -/
def propagator (nr nc : Nat) (sr sc lam dz thr thc : R) : Img R :=
  (kAxis nr sr).map fun a => (kAxis nc sc).map fun b =>
    let p0 : Cx R := Cx.cis (-(Num.pi * lam * dz) * (a * a + b * b))
    let p1 := if isZero thr then p0
              else p0 * Cx.cis (-(Num.two * Num.pi * dz * tanR (thr / Num.ofRat 1000)) * a)
    if isZero thc then p1
    else p1 * Cx.cis (-(Num.two * Num.pi * dz * tanR (thc / Num.ofRat 1000)) * b)

/-- `_compute_propagator_arrays(sampling, num_slices, slice_thicknesses)`:
`num_slices == 1 → tensor([])`, else one kernel per thickness -/
def propagatorArrays (nr nc : Nat) (sr sc energy thr thc : R) (numSlices : Nat) (dzs : List R) :
    List (Img R) :=
  if numSlices == 1 then [] else
  dzs.map fun dz => propagator nr nc sr sc (wavelength energy) dz thr thc

/-- `ifft2(fft2(array) * propagator_array)` (PtychographyBase / ObjectBase `_propagate_array`) -/
def propagate (a P : Img R) : Img R := idft2 (mulImg (dft2 a) P)

/-! ### object_models._get_obj_patches, ptycho_utils.sum_patches -/
/-- complex object: `torch.complex(real[:, idx], imag[:, idx])` per slice (flat object) -/
def getObjPatches (objFlat : List (List (Cx R))) (idx : List Nat) : List (List (Cx R)) :=
  objFlat.map fun o =>
    List.zipWith (fun re im => (⟨re, im⟩ : Cx R))
      (gather Num.zero (o.map (·.re)) idx) (gather Num.zero (o.map (·.im)) idx)

/-- real object (potential / pure-phase DIP): `exp(1j·obj)` first -/
def getObjPatchesReal (objFlat : List (List R)) (idx : List Nat) : List (List (Cx R)) :=
  getObjPatches (objFlat.map (·.map Cx.cis)) idx

/-- complex `sum_patches`: real and imaginary parts scattered separately, `real + 1j*imag` -/
def sumPatchesCx (n : Nat) (patches : List (Cx R)) (idx : List Nat) : List (Cx R) :=
  List.zipWith (fun re im => (⟨re, im⟩ : Cx R))
    (scatter Num.zero n (patches.map (·.re)) idx) (scatter Num.zero n (patches.map (·.im)) idx)

/-! ### ptychography_base.overlap_projection (multislice) -/
/-- one probe mode: returns (propagated probes per slice, exit wave).
`patches = [O_0, …, O_{S-1}]`, `props = [P_0, …, P_{S-2}]`. -/
def overlapProjection1 (patches props : List (Img R)) (probe : Img R) : List (Img R) × Img R :=
  match patches with
  | [] => ([probe], probe)     -- unreachable in the code (num_slices ≥ 1)
  | p0 :: rest =>
    (List.zip props rest).foldl
      (fun acc pp =>
        let pr := propagate acc.2 pp.1          -- propagated_probe = _propagate_array(overlap, P[s-1])
        (acc.1 ++ [pr], mulImg pp.2 pr))        -- overlap = obj_patches[s] * propagated_probe
      ([probe], mulImg p0 probe)                -- overlap = obj_patches[0] * input_probe

/-- all probe modes (axis 0 of `input_probe`) -/
def overlapProjection (patches props : List (Img R)) (probes : List (Img R)) :
    List (List (Img R)) × List (Img R) :=
  let rs := probes.map (overlapProjection1 patches props)
  (rs.map (·.1), rs.map (·.2))

/-- `forward_operator(obj_patches, shifted_input_probes, descan)`: the overlap projection, then
`overlap *= fourier_translation_operator(descan, roi_shape)[None]` when a descan shift is given
(one pattern: `descan = some (r, c)`; the ramp has the shape of the exit wave) -/
def forwardOperator (patches props probes : List (Img R)) (descan : Option (R × R)) :
    List (List (Img R)) × List (Img R) :=
  let res := overlapProjection patches props probes
  match descan with
  | none => res
  | some (r, c) => (res.1, res.2.map fun o => mulImg o (translationOperator (nrows o) (ncols o) r c))

/-! ### detector_models.DetectorPixelated.forward, estimate_amplitudes -/
/-- `torch.fft.fft2(x, norm="ortho")` -/
def fft2Ortho (x : Img R) : Img R :=
  scaleImg (Num.one / Num.sqrt (Num.ofNat (nrows x * ncols x))) (dft2 x)
/-- `torch.fft.ifft2(x, norm="ortho")` -/
def ifft2Ortho (x : Img R) : Img R :=
  scaleImg (Num.sqrt (Num.ofNat (nrows x * ncols x))) (idft2 x)

/-- pixelwise sum over modes of real images -/
def sumModes (zeroLike : RImg R) (xs : List (RImg R)) : RImg R :=
  xs.foldl (fun acc x => List.zipWith (List.zipWith (· + ·)) acc x) zeroLike

def zerosLike {α : Type} (x : List (List α)) : RImg R := x.map (·.map fun _ => Num.zero)

/-- `Σ_modes |fft2_ortho(exit)|²` (torch.abs(·)**2 as written: `sqrt(re²+im²)²`), corner-centred -/
def intensitiesCorner (exitWaves : List (Img R)) : RImg R :=
  sumModes (zerosLike (exitWaves.headD []))
    (exitWaves.map fun w => (fft2Ortho w).map (·.map fun z => Num.sq (Cx.abs z)))

/-- `DetectorPixelated.forward`: `fftshift(Σ_modes |fft2_ortho|², dim=(-2,-1))` -/
def detector (exitWaves : List (Img R)) : RImg R := fftshift2 (intensitiesCorner exitWaves)

/-- `estimate_amplitudes(overlap, corner_centered)`: `sqrt(Σ_modes |fft2_ortho + eps|²)` -/
def estimateAmplitudes (eps : R) (overlaps : List (Img R)) (cornerCentered : Bool) : RImg R :=
  let amps := (sumModes (zerosLike (overlaps.headD []))
    (overlaps.map fun w => (fft2Ortho w).map (·.map fun z =>
      Num.sq (Cx.abs (⟨z.re + eps, z.im⟩ : Cx R))))).map (·.map Num.sqrt)
  if cornerCentered then amps else fftshift2 amps

/-- the `eps = 1e-9` of `estimate_amplitudes` -/
def epsCode : R := Num.ofRat (1 / 10 ^ 9)

/-! ### ptychography.fourier_projection / gradient_step -/
/-- `num_probes == 1` branch: `A' * exp(1j*angle(F))` then `ifft2(ortho)`.
`A` is the measured amplitude array in detector (centred) convention. -/
def fourierProjectionSingle (A : RImg R) (overlap : Img R) : Img R :=
  let A' := ifftshift2 A                                 -- torch.fft.ifftshift(measured_amplitudes)
  let F := fft2Ortho overlap
  ifft2Ortho (List.zipWith (List.zipWith fun a f => Cx.smul a (Cx.cis (Cx.angle f))) A' F)

/-- `sqrt(sum(abs(fourier_overlap)**2, dim=0))`: exact incoherent far-field amplitudes -/
def farfieldAmplitudes (Fs : List (Img R)) : RImg R :=
  (sumModes (zerosLike (Fs.headD []))
    (Fs.map fun F => F.map (·.map fun z => Num.sq (Cx.abs z)))).map (·.map Num.sqrt)

/-- mixed-state branch -/
def fourierProjectionMixed (A : RImg R) (overlaps : List (Img R)) : List (Img R) :=
  let A' := ifftshift2 A
  let Fs := overlaps.map fft2Ortho
  let ff := farfieldAmplitudes Fs
  -- farfield[farfield == 0] = inf ; amplitude_modification = A' / farfield
  let modf : RImg R := List.zipWith (List.zipWith fun a f => if isZero f then Num.zero else a / f) A' ff
  Fs.map fun F => ifft2Ortho (List.zipWith (List.zipWith fun m f => Cx.smul m f) modf F)

/-- `fourier_projection(measured_amplitudes, overlap_array)`: dispatch on `self.num_probes` -/
def fourierProjection (numProbes : Nat) (A : RImg R) (overlaps : List (Img R)) : List (Img R) :=
  if numProbes == 1 then overlaps.map (fourierProjectionSingle A)
  else fourierProjectionMixed A overlaps

/-- `gradient_step = fourier_projection(amplitudes, overlap) - overlap` -/
def gradientStep (numProbes : Nat) (A : RImg R) (overlaps : List (Img R)) : List (Img R) :=
  List.zipWith subImg (fourierProjection numProbes A overlaps) overlaps

end Carrier
end QuantemModel.PtychoOps
