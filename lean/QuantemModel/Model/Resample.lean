import QuantemModel.Model.NdIndex
import QuantemModel.Core.Dft
/-
C06 — model of `Dataset.pad / crop / bin / fourier_resample` (dataset.py): array part and
calibration part.  Core Lean only.  Exact operations (pad, crop, bin) are generic over the
element type; the Fourier path is generic over the numeric carrier `[Num R]` (run at `Float`
against NumPy, reasoned about at `ℝ`).
-/
namespace QuantemModel.Resample
open QuantemModel QuantemModel.Nd

variable {α : Type}

/-! ### pad -/

/-- `output_shape` branch of `Dataset.pad`:
`(max(0, floor((out - n)/2)), max(0, ceil((out - n)/2)))` -/
def padWidths (out : Int) (n : Nat) : Nat × Nat :=
  let d : Int := out - n
  ((max 0 (d / 2)).toNat, (max 0 ((d + 1) / 2)).toNat)

/-- source index of a padded position (`none` = in the padding) -/
def padSrc : List Nat → List (Nat × Nat) → List Nat → Option (List Nat)
  | n :: ns, (b, _) :: ws, i :: j =>
      if b ≤ i ∧ i < b + n then (padSrc ns ws j).map (fun r => (i - b) :: r) else none
  | [], [], [] => some []
  | _, _, _ => none

def padShape (shape : List Nat) (w : List (Nat × Nat)) : List Nat :=
  List.zipWith (fun n (p : Nat × Nat) => p.1 + n + p.2) shape w

/-- `np.pad(a, w, mode="constant")` (constant 0) with one `(before, after)` per axis -/
def padNd [Inhabited α] (zero : α) (a : Arr α) (w : List (Nat × Nat)) : Arr α :=
  build (padShape a.shape w) fun j =>
    match padSrc a.shape w j with
    | some i => a.get i
    | none => zero

/-- `np.pad(a, w, mode=…, **kwargs)` for ANY mode: the original block sits at offset `before` on
every axis; a padded position `j` outside it is filled by an arbitrary rule `fill j` (constant,
edge, wrap, reflect, a user function …).  `padNd zero` is the instance `fill = fun _ => zero`. -/
def padNdWith [Inhabited α] (fill : List Nat → α) (a : Arr α) (w : List (Nat × Nat)) : Arr α :=
  build (padShape a.shape w) fun j =>
    match padSrc a.shape w j with
    | some i => a.get i
    | none => fill j

/-- the `mode`s of `np.pad` that read the padding from the array itself -/
inductive PadRule | edge | wrap | reflect | symmetric
  deriving DecidableEq, Repr, Inhabited

/-- source coordinate, along one axis of length `n` padded by `b` leading entries, of padded
coordinate `i`: `edge` clamps, `wrap` is periodic with period `n`, `reflect` is periodic with
period `2(n-1)` (mirror without repeating the edge), `symmetric` with period `2n` (edge repeated) -/
def padAxisSrc (r : PadRule) (n b i : Nat) : Nat :=
  let t : Int := (i : Int) - (b : Int)
  match r with
  | .edge => (min (max t 0) ((n : Int) - 1)).toNat
  | .wrap => (t % (n : Int)).toNat
  | .reflect =>
      if n ≤ 1 then 0 else
      let p : Int := 2 * ((n : Int) - 1)
      let u := t % p
      (if u < (n : Int) then u else p - u).toNat
  | .symmetric =>
      let p : Int := 2 * (n : Int)
      let u := t % p
      (if u < (n : Int) then u else p - 1 - u).toNat

def padRuleSrc (r : PadRule) : List Nat → List (Nat × Nat) → List Nat → List Nat
  | n :: ns, (b, _) :: ws, i :: j => padAxisSrc r n b i :: padRuleSrc r ns ws j
  | _, _, _ => []

/-- `np.pad(a, w, mode="edge" | "wrap" | "reflect" | "symmetric")` -/
def padNdRule [Inhabited α] (r : PadRule) (a : Arr α) (w : List (Nat × Nat)) : Arr α :=
  padNdWith (fun j => a.get (padRuleSrc r a.shape w j)) a w

/-! ### crop -/

/-- Python `dict(zip(keys, vals))`: insertion ordered, a repeated key keeps its first position
and takes the last value -/
def dictSet {β : Type} (d : List (Int × β)) (k : Int) (v : β) : List (Int × β) :=
  match d with
  | [] => [(k, v)]
  | (k', v') :: r => if k' = k then (k, v) :: r else (k', v') :: dictSet r k v

def dictZip {β : Type} (ks : List Int) (vs : List β) : List (Int × β) :=
  (ks.zip vs).foldl (fun d (p : Int × β) => dictSet d p.1 p.2) []

def dictGet {β : Type} (d : List (Int × β)) (k : Int) : Option β :=
  match d with
  | [] => none
  | (k', v) :: r => if k' = k then some v else dictGet r k

/-- the slices `Dataset.crop` builds: `slice(before, after if after != 0 else None)` on the
axes in the dict, `slice(None)` elsewhere -/
def cropItems (ndim : Nat) (d : List (Int × (Int × Int))) : List Item :=
  (List.range ndim).map fun (ax : Nat) =>
    match dictGet d (Int.ofNat ax) with
    | some (b, a) => Item.slice (some b) (if a ≠ 0 then some a else none) none
    | none => Item.full

/-! ### bin -/

/-- source index `j * f + t`, axis by axis -/
def binSrc : List Nat → List Nat → List Nat → List Nat
  | i :: j, f :: fs, t :: ts => (i * f + t) :: binSrc j fs ts
  | _, _, _ => []

def binShape (shape facs : List Nat) : List Nat := List.zipWith (fun n f => n / f) shape facs

/-- block reduction by one factor per axis (1 on axes that are not binned): what
`a[: (n//f)*f].reshape(nblocks, f, …).sum(axis=reduce_axes)` computes -/
def binNd [Inhabited α] [Add α] [Zero α] (a : Arr α) (facs : List Nat) : Arr α :=
  build (binShape a.shape facs) fun j =>
    ((allIdx facs).map fun t => a.get (binSrc j facs t)).sum

/-- calibration of a binned axis: `origin + 0.5*(f-1)*sampling`, `sampling*f` -/
def binMeta (o s : Rat) (f : Nat) : Rat × Rat :=
  (o + (1 / 2 : Rat) * ((f : Rat) - 1) * s, s * (f : Rat))

/-! ### fourier_resample: calibration -/

/-- Python `round` on an exact value: round half to even -/
def roundHalfEven (q : Rat) : Int :=
  let fl := q.floor
  let d := q - (fl : Rat)
  if d < (1 / 2 : Rat) then fl
  else if (1 / 2 : Rat) < d then fl + 1
  else if fl % 2 = 0 then fl else fl + 1

/-- `max(1, int(round(n * f)))` -/
def outLen (n : Nat) (f : Rat) : Int := max 1 (roundHalfEven ((n : Rat) * f))

/-- `new_sampling = sampling / (m/n)`;
`new_origin = origin + (n-1)/2*sampling - (m-1)/2*new_sampling` -/
def resampleMeta (o s : Rat) (n m : Nat) : Rat × Rat :=
  let s' := s / ((m : Rat) / (n : Rat))
  (o + ((n : Rat) - 1) / 2 * s - ((m : Rat) - 1) / 2 * s', s')

/-! ### fourier_resample: the frequency bookkeeping -/

/-- `_shift_center_index`: index of DC after fftshift -/
def shiftCenter (n : Nat) : Nat := if n % 2 = 0 then n / 2 else (n - 1) / 2

/-- centre-aligned crop (`start = oc - nc`) or zero-pad (`before = nc - oc`,
`after = m - n - before`) of an fftshift-ed axis of length `n` to length `m` -/
def cropPad {β : Type} (zero : β) (n m : Nat) (F : List β) : List β :=
  let oc := shiftCenter n
  let nc := shiftCenter m
  if m < n then (F.drop (oc - nc)).take m
  else if n < m then
    List.replicate (nc - oc) zero ++ F ++ List.replicate (m - n - (nc - oc)) zero
  else F

/-- `ifftshift(cropPad(fftshift(F)))` along one axis -/
def spectrumMap {β : Type} (zero : β) (n m : Nat) (F : List β) : List β :=
  Dft.ifftshift (cropPad zero n m (Dft.fftshift F))

/-- the executable index map: for every output bin (NumPy order) the input bin whose
coefficient it receives, `none` for a zero-filled bin.  It is `spectrumMap` run on the bin
numbers themselves. -/
def freqMap (n m : Nat) : List (Option Nat) :=
  spectrumMap none n m ((List.range n).map some)

variable {R : Type} [Num R]

/-- one axis, without the `N_out/N_in` rescale -/
def resample1U (m : Nat) (x : List (Cx R)) : List (Cx R) :=
  Dft.idft (spectrumMap Cx.zero x.length m (Dft.dft x))

/-- one axis with the rescale `m/n` (1-D `fourier_resample` of complex data) -/
def resample1 (m : Nat) (x : List (Cx R)) : List (Cx R) :=
  (resample1U m x).map (Cx.smul (Num.ofRat ((m : Rat) / (x.length : Rat))))

/-- the 1-D line of `a` through multi-index `j` along axis `ax` -/
def line {β : Type} [Inhabited β] (a : Arr β) (ax : Nat) (j : List Nat) : List β :=
  (List.range (a.shape.getD ax 1)).map fun i => a.get (j.set ax i)

/-- apply a per-line transform along axis `ax` (new axis length `m`): first one transformed
line per position of the other axes (axis `ax` collapsed to length 1), then every output
element is read from its line -/
def alongAxis {β : Type} [Inhabited β] (a : Arr β) (ax m : Nat) (f : List β → List β) : Arr β :=
  let lines : Arr (List β) := build (a.shape.set ax 1) fun j => f (line a ax j)
  build (a.shape.set ax m) fun j => (lines.get (j.set ax 0)).getD (j.getD ax 0) default

/-- the 1-D operator (without rescale) applied along each (axis, new length) pair in turn -/
def resampleFold (a : Arr (Cx R)) (pairs : List (Nat × Nat)) : Arr (Cx R) :=
  pairs.foldl (fun acc (p : Nat × Nat) => alongAxis acc p.1 p.2 (resample1U p.2)) a

/-- N-D `fourier_resample` of the array: `axes`/`outs` paired, real input keeps the real part,
then the single rescale by `N_out / N_in` -/
def resampleNd (a : Arr (Cx R)) (axes : List Nat) (outs : List Nat) (isReal : Bool) : Arr (Cx R) :=
  let r := resampleFold a (axes.zip outs)
  let nIn := prod (axes.map fun ax => a.shape.getD ax 1)
  let nOut := prod outs
  let sc : R := Num.ofNat nOut / Num.ofNat nIn
  let fin (z : Cx R) : Cx R := Cx.smul sc (if isReal then Cx.ofReal z.re else z)
  ⟨r.shape, r.data.map fin⟩

end QuantemModel.Resample
