/-
Model of `quantem.core.datastructures.vector.Vector` (+ `_FieldView`, and the
`validate_vector_*`/`validate_shape`/`validate_fields` validators) as a state machine WITH A
HEAP: cells hold *references* to arrays, the code never copies on assignment, so aliasing
(one ndarray in two cells / two vectors / the user's hands) is part of the behaviour.

Core Lean only.  Executable (the driver runs it), total.

Representation
* `Arr`   : a 2-D array, `ncols` + rows of rationals + dtype kind (`isInt`: int64, else float64;
            the harness only uses small dyadic values so float arithmetic is exact).  Writing into
            an int array casts like NumPy's assignment does (C cast: truncation toward zero).
            Arrays that are not 2-D never enter the heap: they only occur as rejected values
            (`Val.arr1d`, `Val.arr3d`).
* heap    : `List Arr`, a reference is an index, allocation appends (no GC) — so "fresh" is
            `r ≥ old heap length`.
* `Vec`   : shape, row-major flat list of cells `Option Ref` (the nested Python lists
            `_data[i][j]…`; row-major = the order of `np.ndindex` / of the recursive walks in
            `flatten`, `_apply_op`, `set_flattened`, `add_fields`, `remove_fields`), field
            names, units, and a reference to a metadata dict.
* `State` : heap, all vectors ever created (a vector id is an index), metadata dicts.

Python source lines are quoted at each branch.  The model follows the code AFTER the repairs
made for this property (fresh metadata dict per vector, N-D gather in `__getitem__`/`get_data`,
`set_data` list addressing, padded short index in `__setitem__`, shape-recursive
`validate_vector_data` with `ndim == 2`); see harness/props/c11.py for what failed before.
-/
namespace QuantemModel.Vector

inductive Err where
  | valueError | typeError | indexError | keyError
  | unsupported   -- outside the modelled domain: zero fixed dims, more indices than dims
  | badHandle     -- the driver named a vector that does not exist
  deriving Repr, DecidableEq, Inhabited

abbrev Ref := Nat

/-! ### arrays -/

structure Arr where
  ncols : Nat
  rows : List (List Rat)
  isInt : Bool := false          -- dtype kind: int64 (true) or float64 (false)
  deriving Repr, DecidableEq, Inhabited

/-- C cast of a finite float to int64: truncation toward zero -/
def truncQ (x : Rat) : Rat := ((Int.tdiv x.num x.den : Int) : Rat)

/-- the value that is stored when `x` is assigned into an array of the given dtype kind
(`arr[...] = x` casts with NumPy's assignment rule: float → int truncates, silently) -/
def castTo (isInt : Bool) (x : Rat) : Rat := if isInt then truncQ x else x

/-- make a row exactly `n` long (identity on rows that already are) -/
def fitRow (n : Nat) (r : List Rat) : List Rat := (r ++ List.replicate n 0).take n

/-- `np.array([[...], ...])` of a rectangular literal with `n` columns (all-int literal → int64) -/
def Arr.lit (n : Nat) (rows : List (List Rat)) (isInt : Bool := false) : Arr :=
  { ncols := n, rows := rows.map fun r => (fitRow n r).map (castTo isInt), isInt := isInt }

def Arr.nrows (a : Arr) : Nat := a.rows.length

/-- `arr[:, j]` -/
def Arr.col (a : Arr) (j : Nat) : List Rat := a.rows.map (·.getD j 0)

def setColRows (j : Nat) : List (List Rat) → List Rat → List (List Rat)
  | [], _ => []
  | r :: rs, [] => r :: rs
  | r :: rs, x :: xs => r.set j x :: setColRows j rs xs

/-- `arr[:, j] = xs` (in place: same array object, same shape, same dtype: values are cast) -/
def Arr.setCol (a : Arr) (j : Nat) (xs : List Rat) : Arr :=
  { a with rows := setColRows j a.rows (xs.map (castTo a.isInt)) }

/-- `arr[:, j] = op(arr[:, j])` -/
def Arr.mapCol (a : Arr) (j : Nat) (f : Rat → Rat) : Arr :=
  { a with rows := a.rows.map fun r => r.set j (castTo a.isInt (f (r.getD j 0))) }

/-- `arr[k] = row` (in place) -/
def Arr.setRow (a : Arr) (k : Nat) (row : List Rat) : Arr :=
  { a with rows := a.rows.set k ((fitRow a.ncols row).map (castTo a.isInt)) }

/-- `np.hstack([arr, np.zeros((arr.shape[0], k))])` — the float64 pad promotes the result to float64 -/
def Arr.addCols (a : Arr) (k : Nat) : Arr :=
  { ncols := a.ncols + k, rows := a.rows.map (· ++ List.replicate k 0), isInt := false }

/-- `arr[:, keep_indices]` (keeps the dtype) -/
def Arr.keepCols (a : Arr) (keep : List Nat) : Arr :=
  { ncols := keep.length, rows := a.rows.map fun r => keep.map (r.getD · 0), isInt := a.isInt }

/-! ### vectors and state -/

structure Vec where
  shape : List Nat
  cells : List (Option Ref)
  fields : List String
  units : List String
  mref : Nat
  deriving Repr, Inhabited

structure State where
  heap : List Arr := []
  vecs : List Vec := []
  metas : List (List (String × Int)) := []
  deriving Repr, Inhabited

def prod : List Nat → Nat
  | [] => 1
  | d :: ds => d * prod ds

/-! ### index expressions -/

inductive Ix where
  | int (i : Int)
  | slice (start stop step : Option Int)
  | list (is : List Int)          -- Python list or integer ndarray
  deriving Repr, Inhabited

/-- CPython `slice.indices(n)` -/
def sliceIndices (n : Nat) (start stop step : Option Int) : Except Err (Int × Int × Int) :=
  let st := step.getD 1
  if st = 0 then .error .valueError else       -- ValueError: slice step cannot be zero
  let len : Int := n
  let lower : Int := if st < 0 then -1 else 0
  let upper : Int := if st < 0 then len - 1 else len
  let clamp (x : Int) : Int := if x < 0 then max (x + len) lower else min x upper
  let s := match start with
    | none => if st < 0 then upper else lower
    | some x => clamp x
  let e := match stop with
    | none => if st < 0 then lower else upper
    | some x => clamp x
  .ok (s, e, st)

def arangeLen (start stop step : Int) : Nat :=
  if step > 0 then (if start < stop then ((stop - start + step - 1) / step).toNat else 0)
  else if step < 0 then (if stop < start then ((start - stop - step - 1) / (-step)).toNat else 0)
  else 0

/-- `np.arange(start, stop, step)` on integers -/
def arange (start stop step : Int) : List Int :=
  (List.range (arangeLen start stop step)).map fun (k : Nat) => start + (k : Int) * step

/-- the local `get_indices(dim_idx, dim_size)` helpers.  `checked = true`: the variants in
`get_data`, `set_data`, `__setitem__` (explicit bounds test, negatives rejected);
`checked = false`: the one in `__getitem__` (no test; Python list indexing decides later). -/
def Ix.resolve (checked : Bool) (d : Nat) : Ix → Except Err (List Int)
  | .int i =>      -- if dim_idx < 0 or dim_idx >= dim_size: raise IndexError
      if checked && (i < 0 || i ≥ (d : Int)) then .error .indexError else .ok [i]
  | .list is =>    -- if np.any((idx < 0) | (idx >= dim_size)): raise IndexError
      if checked && is.any (fun i => i < 0 || i ≥ (d : Int)) then .error .indexError else .ok is
  | .slice a b c =>  -- start, stop, step = dim_idx.indices(dim_size); np.arange(start, stop, step)
      match sliceIndices d a b c with
      | .ok (s, e, st) => .ok (arange s e st)
      | .error e => .error e

/-- `[get_indices(i, s) for i, s in zip(indices, self._shape)]` (first error wins) -/
def resolveAll (checked : Bool) : List Nat → List Ix → Except Err (List (List Int))
  | d :: ds, ix :: ixs =>
      match ix.resolve checked d with
      | .error e => .error e
      | .ok l => match resolveAll checked ds ixs with
          | .error e => .error e
          | .ok ls => .ok (l :: ls)
  | _, _ => .ok []

/-- Python list indexing `lst[i]` for a list of length `d`: negatives wrap once -/
def pyIndex (d : Nat) (i : Int) : Except Err Nat :=
  if 0 ≤ i ∧ i < (d : Int) then .ok i.toNat
  else if -(d : Int) ≤ i ∧ i < 0 then .ok (i + d).toNat
  else .error .indexError

def wrapAll (d : Nat) : List Int → Except Err (List Nat)
  | [] => .ok []
  | i :: is => match pyIndex d i with
      | .error e => .error e
      | .ok p => match wrapAll d is with
          | .error e => .error e
          | .ok ps => .ok (p :: ps)

/-- Row-major flat positions of the cells addressed by one index list per dimension, in
`np.ndindex` order — the recursive gather
`def gather(data, dim): return data if dim == n else [gather(data[i], dim+1) for i in indices[dim]]`
(nothing below an empty index list is touched, so nothing there can raise). -/
def positions : List Nat → List (List Int) → Except Err (List Nat)
  | [], _ => .ok [0]
  | _ :: _, [] => .error .indexError
  | d :: ds, is :: iss =>
      match wrapAll d is with
      | .error e => .error e
      | .ok [] => .ok []
      | .ok (o :: os) => match positions ds iss with
          | .error e => .error e
          | .ok sub => .ok ((o :: os).flatMap fun i => sub.map fun p => i * prod ds + p)

def fullSlice : Ix := .slice none none none

/-- `list(idx) + [slice(None)] * (len(self.shape) - len(idx))` -/
def padIdx (nd : Nat) (idx : List Ix) : List Ix := idx ++ List.replicate (nd - idx.length) fullSlice

/-! ### values handed to the assignment paths -/

inductive Val where
  | ref (r : Ref)       -- an ndarray the caller holds (already on the heap)
  | arr1d               -- an ndarray with ndim = 1
  | arr3d (d1 : Nat)    -- an ndarray with ndim = 3 and shape[1] = d1
  | notArray            -- None / a Python list / a number
  deriving Repr, Inhabited

/-- `isinstance(value, np.ndarray)` then `value.ndim != 2 or value.shape[1] != self.num_fields` -/
def checkVal (heap : List Arr) (nf : Nat) : Val → Except Err Ref
  | .ref r => match heap[r]? with
      | some a => if a.ncols = nf then .ok r else .error .valueError
      | none => .error .typeError
  | .arr1d => .error .valueError
  | .arr3d _ => .error .valueError
  | .notArray => .error .typeError

inductive SetVal where
  | one (v : Val)
  | many (vs : List Val)     -- a Python list
  | vec (w : Nat)            -- another Vector (only `__setitem__` unpacks it)
  deriving Repr, Inhabited

/-- item of the list given to `from_data` / the `data` setter -/
inductive DItem where
  | val (v : Val)
  | lit (ncols : Nat) (rows : List (List Rat)) (isInt : Bool)   -- nested Python list, `np.array(item)` is 2-D (int64 if all ints)
  | lit1d                                         -- Python list whose `np.array` is 1-D
  deriving Repr, Inhabited

inductive FlatVal where
  | oneD (xs : List Rat)
  | notOneD                  -- `np.asarray(values).ndim != 1`
  deriving Repr, Inhabited

/-- right operand of field arithmetic `v[name] op= rhs` -/
inductive Rhs where
  | scalar (c : Rat)
  | array (ys : List Rat)              -- a 1-D ndarray
  | field (w : Nat) (name : String)    -- another `_FieldView` (converted by `np.asarray` = its `flatten()`, at every use)
  deriving Repr, Inhabited

/-- what NumPy hands back when `v[i, j, extra…]` keeps indexing INTO the cell array -/
inductive NpVal where
  | arr2 (ncols : Nat) (rows : List (List Rat)) (isInt : Bool)
  | arr1 (xs : List Rat) (isInt : Bool)
  | scalar (x : Rat) (isInt : Bool)
  deriving Repr, Inhabited

inductive Op where
  | alloc (ncols : Nat) (rows : List (List Rat)) (isInt : Bool)   -- the caller creates an ndarray
  | fromShape (shape : List Int) (numFields : Option Int) (fields units : Option (List String))
  | fromData (items : List DItem) (numFields : Option Int) (fields units : Option (List String))
  | getData (v : Nat) (idx : List Ix)
  | setData (v : Nat) (idx : List Ix) (val : SetVal)
  | getItem (v : Nat) (idx : List Ix)
  | setItem (v : Nat) (idx : List Ix) (val : SetVal)
  | fieldOp (v : Nat) (name : String) (f : Rat → Rat)      -- v[name] += c  etc. (scalar operand)
  /-- `v[name] op= rhs` with `g x y` the elementwise operation; `negIntPow`: `**=` with a negative
  Python-int exponent (NumPy refuses that on integer arrays) -/
  | fieldOpGen (v : Nat) (name : String) (g : Rat → Rat → Rat) (negIntPow : Bool) (rhs : Rhs)
  | fieldGet (v : Nat) (name : String) (idx : List Ix)     -- v[name][idx]
  | setFlattened (v : Nat) (name : String) (vals : FlatVal) -- v[name].set_flattened(x) / v[name] = x
  | writeBack (v : Nat) (name : String)                    -- v[name].set_flattened(v[name].flatten())
  | addFields (v : Nat) (names : List String)
  | removeFields (v : Nat) (names : List String)
  | copy (v : Nat)
  | setDataAttr (v : Nat) (lens : List Nat) (items : List DItem)   -- v.data = nested list
  | metaSet (v : Nat) (k : String) (x : Int)               -- v.metadata[k] = x

inductive Res where
  | none
  | newVec (id : Nat)
  | newRef (r : Ref)
  | cell (c : Option Ref)
  | cells (cs : List (Option Ref))
  | np (v : NpVal)
  | err (e : Err)
  deriving Repr, Inhabited

/-! ### small state helpers -/

def State.getVec (s : State) (vid : Nat) : Except Err Vec :=
  match s.vecs[vid]? with
  | some v => .ok v
  | none => .error .badHandle

def State.putVec (s : State) (vid : Nat) (v : Vec) : State := { s with vecs := s.vecs.set vid v }

/-! ### validators.py -/

/-- `validate_shape`: every dim a positive int -/
def validateShape (shape : List Int) : Except Err (List Nat) :=
  if shape.any (· ≤ 0) then .error .valueError     -- "Shape dimensions must be positive"
  else .ok (shape.map Int.toNat)

def nodupB : List String → Bool
  | [] => true
  | x :: xs => !xs.contains x && nodupB xs

/-- `validate_fields`: `len(set(fields)) != len(fields)` → ValueError -/
def validateFields (fs : List String) : Except Err (List String) :=
  if nodupB fs then .ok fs else .error .valueError

/-- the `fields` / `num_fields` branches of `from_shape` (+ the re-validation by the `fields`
setter in `__init__`) -/
def resolveFields (numFields : Option Int) (fields : Option (List String)) : Except Err (List String) :=
  match fields with
  | some fs =>
      match validateFields fs with
      | .error e => .error e
      | .ok fs => match numFields with
          | some n => if (fs.length : Int) ≠ n then .error .valueError else .ok fs
          | none => .ok fs
  | none =>
      match numFields with
      | some n =>
          if n ≤ 0 then .error .valueError       -- validate_num_fields
          else validateFields ((List.range n.toNat).map fun i => s!"field_{i}")
      | none => .error .valueError               -- "Must specify either 'fields' or 'num_fields'."

/-- `validate_vector_units` -/
def validateUnits (units : Option (List String)) (nf : Nat) : Except Err (List String) :=
  match units with
  | none => .ok (List.replicate nf "none")
  | some us => if us.length ≠ nf then .error .valueError else .ok us

/-- `cls(shape=…, fields=…, units=…, name=…, _token=…)`: empty cells, a metadata dict of its own -/
def State.mkVec (s : State) (shape : List Nat) (cells : List (Option Ref)) (fields units : List String) :
    State × Nat :=
  ({ s with vecs := s.vecs ++ [{ shape, cells, fields, units, mref := s.metas.length }],
            metas := s.metas ++ [[]] }, s.vecs.length)

/-- `Vector.from_shape` -/
def opFromShape (s : State) (shape : List Int) (numFields : Option Int)
    (fields units : Option (List String)) : State × Res :=
  match validateShape shape with
  | .error e => (s, .err e)
  | .ok sh =>        -- shape () is accepted: `_data = nested_list((), None) = None`, one never-settable cell
    match resolveFields numFields fields with
    | .error e => (s, .err e)
    | .ok fs =>
      match validateUnits units fs.length with
      | .error e => (s, .err e)
      | .ok us =>
        let (s', id) := s.mkVec sh (List.replicate (prod sh) none) fs us
        (s', .newVec id)

/-- `shape[1]` of an item that is (convertible to) a 2-D ndarray -/
def DItem.cols (heap : List Arr) : DItem → Option Nat
  | .val (.ref r) => (heap[r]?).map (·.ncols)
  | .lit n _ _ => some n
  | _ => none

/-- is the item an ndarray (of any ndim) after `np.array(list)` conversion? -/
def DItem.isArray (heap : List Arr) : DItem → Bool
  | .val (.ref r) => (heap[r]?).isSome
  | .val .arr1d => true
  | .val (.arr3d _) => true
  | .val .notArray => false
  | .lit _ _ _ => true
  | .lit1d => true

/-- one leaf of `validate_vector_data`: a list is converted (`np.array(item)`: a NEW array), an
ndarray is kept by reference; `TypeError` if it is no array, `ValueError` if `item.ndim != 2` or
`item.shape[1] != num_fields`. -/
def DItem.store (heap : List Arr) (nf : Nat) : DItem → Except Err (List Arr × Ref)
  | .val (.ref r) => match heap[r]? with
      | some a => if a.ncols = nf then .ok (heap, r) else .error .valueError
      | none => .error .typeError
  | .val .arr1d => .error .valueError
  | .val (.arr3d _) => .error .valueError
  | .val .notArray => .error .typeError
  | .lit n rows t => if n = nf then .ok (heap ++ [Arr.lit n rows t], heap.length) else .error .valueError
  | .lit1d => .error .valueError

/-- leaf loop of `validate_vector_data`; the first bad item raises and nothing is assigned. -/
def storeItems (nf : Nat) : List Arr → List DItem → Except Err (List Arr × List (Option Ref))
  | heap, [] => .ok (heap, [])
  | heap, it :: its =>
      match it.store heap nf with
      | .error e => .error e
      | .ok (heap1, r) =>
        match storeItems nf heap1 its with
        | .error e => .error e
        | .ok (h, cs) => .ok (h, some r :: cs)

def numFieldsMismatch (numFields : Option Int) (inferred : Nat) : Bool :=
  match numFields with
  | some n => n != (inferred : Int)
  | none => false

/-- `Vector.from_data` (always 1 fixed dimension) -/
def opFromData (s : State) (items : List DItem) (numFields : Option Int)
    (fields units : Option (List String)) : State × Res :=
  -- validate_vector_data_for_inference
  match items with
  | [] => (s, .err .valueError)                          -- "Data list cannot be empty."
  | first :: _ =>
    if !first.isArray s.heap then (s, .err .typeError) else
    match first.cols s.heap with
    | none => (s, .err .valueError)                      -- first_item.ndim != 2
    | some inferred =>
      if items.any (fun it => it.cols s.heap != some inferred) then (s, .err .valueError) else
      -- if num_fields is not None and num_fields != inferred_num_fields
      if numFieldsMismatch numFields inferred then (s, .err .valueError) else
      -- cls.from_shape(shape=(len(data),), num_fields=final_num_fields, fields=…, units=…)
      match resolveFields (some (inferred : Int)) fields with
      | .error e => (s, .err e)
      | .ok fs =>
        match validateUnits units fs.length with
        | .error e => (s, .err e)
        | .ok us =>
          -- vector.data = data
          match storeItems fs.length s.heap items with
          | .error e => (s, .err e)
          | .ok (heap', cs) =>
            let (s', id) := ({ s with heap := heap' } : State).mkVec [items.length] cs fs us
            (s', .newVec id)

/-- the `data` setter on an existing vector, `validate_vector_data(value, shape, num_fields)`
recursing over the fixed dimensions.  The harness always passes a uniformly nested list whose
level lengths are `lens` and whose leaves in row-major order are `items`. -/
def opSetDataAttr (s : State) (vid : Nat) (lens : List Nat) (items : List DItem) : State × Res :=
  match s.getVec vid with
  | .error e => (s, .err e)
  | .ok v =>
    -- zero fixed dimensions: `len(data) != shape[0]` → IndexError: tuple index out of range
    if v.shape.length = 0 then (s, .err .indexError) else
    if lens.length > v.shape.length then (s, .err .unsupported) else
    -- `len(data) != shape[0]` is tested level by level before descending
    if lens ≠ v.shape.take lens.length then (s, .err .valueError) else
    -- nesting too shallow: an ndarray / None sits where a list is expected ("Data must be a list")
    if lens.length < v.shape.length then (s, .err .typeError) else
    if items.length ≠ prod lens then (s, .err .unsupported) else
    match storeItems v.fields.length s.heap items with
    | .error e => (s, .err e)
    | .ok (heap', cs) => (({ s with heap := heap' } : State).putVec vid { v with cells := cs }, .none)

/-! ### retrieval -/

/-- `Vector.get_data(*indices)` -/
def opGetData (s : State) (vid : Nat) (idx : List Ix) : State × Res :=
  match s.getVec vid with
  | .error e => (s, .err e)
  | .ok v =>
    if idx.length ≠ v.shape.length then (s, .err .valueError) else   -- "Expected n indices"
    match resolveAll true v.shape idx with
    | .error e => (s, .err e)
    | .ok ls =>
      match positions v.shape ls with
      | .error e => (s, .err e)
      | .ok ps =>
        if ls.all (·.length == 1) then
          -- all single: walk `ref = ref[idx]`, return the cell itself
          (s, .cell ((v.cells[ps.headD 0]?).join))
        else
          (s, .cells (ps.map fun p => (v.cells[p]?).join))

def Ix.isInt : Ix → Bool
  | .int _ => true
  | _ => false

/-- NumPy indexing of the cell array by ONE more index (`view = view[i]`) -/
def npIndex : NpVal → Ix → Except Err NpVal
  | .arr2 _ rows t, .int i => match pyIndex rows.length i with
      | .ok p => .ok (.arr1 (rows.getD p []) t)
      | .error e => .error e
  | .arr2 c rows t, .slice a b st => match sliceIndices rows.length a b st with
      | .ok (s, e, st) => .ok (.arr2 c ((arange s e st).map fun i => rows.getD i.toNat []) t)
      | .error e => .error e
  | .arr2 c rows t, .list is =>
      if is.isEmpty then .error .indexError        -- np.asarray([]) is a float array: not a valid index
      else match wrapAll rows.length is with
        | .ok ps => .ok (.arr2 c (ps.map fun p => rows.getD p []) t)
        | .error e => .error e
  | .arr1 xs t, .int i => match pyIndex xs.length i with
      | .ok p => .ok (.scalar (xs.getD p 0) t)
      | .error e => .error e
  | .arr1 xs t, .slice a b st => match sliceIndices xs.length a b st with
      | .ok (s, e, st) => .ok (.arr1 ((arange s e st).map fun i => xs.getD i.toNat 0) t)
      | .error e => .error e
  | .arr1 xs t, .list is =>
      if is.isEmpty then .error .indexError
      else match wrapAll xs.length is with
        | .ok ps => .ok (.arr1 (ps.map fun p => xs.getD p 0) t)
        | .error e => .error e
  | .scalar _ _, _ => .error .indexError           -- "invalid index to scalar variable."

def npIndexAll : NpVal → List Ix → Except Err NpVal
  | v, [] => .ok v
  | v, ix :: ixs => match npIndex v ix with
      | .ok v' => npIndexAll v' ixs
      | .error e => .error e

/-- `Vector.__getitem__(idx)` for at most as many indices as fixed dimensions -/
def getItemCore (s : State) (v : Vec) (idx : List Ix) : State × Res :=
    let nd := v.shape.length
    if idx.all Ix.isInt && idx.length == nd then
      -- return_np: view = self._data; for i in idx: view = view[i]
      match resolveAll false v.shape idx with
      | .error e => (s, .err e)
      | .ok ls => match positions v.shape ls with
        | .error e => (s, .err e)
        | .ok ps => (s, .cell ((v.cells[ps.headD 0]?).join))
    else
      match resolveAll false v.shape (padIdx nd idx) with
      | .error e => (s, .err e)
      | .ok ls =>
        match positions v.shape ls with       -- new_data = gather(self._data, 0)
        | .error e => (s, .err e)
        | .ok ps =>
          -- Vector.from_shape(shape=tuple(new_shape), num_fields=…, fields=self.fields, units=self.units)
          let newShape := ls.map List.length
          if newShape.any (· == 0) then (s, .err .valueError) else    -- validate_shape
          match validateFields v.fields with
          | .error e => (s, .err e)
          | .ok fs => match validateUnits (some v.units) fs.length with
            | .error e => (s, .err e)
            | .ok us =>
              -- vector_new._data = new_data  (cells are shared with the source)
              let (s', id) := s.mkVec newShape (ps.map fun p => (v.cells[p]?).join) fs us
              (s', .newVec id)

/-- more indices than fixed dimensions, the first `nd` all ints: `return_np` keeps walking
`view = view[i]` — through the nested lists to the cell, then INTO the cell array. -/
def getItemLong (s : State) (v : Vec) (idx : List Ix) : State × Res :=
  let nd := v.shape.length
  match resolveAll false v.shape (idx.take nd) with
  | .error e => (s, .err e)
  | .ok ls => match positions v.shape ls with
    | .error e => (s, .err e)
    | .ok ps => match (v.cells[ps.headD 0]?).join with
      | none => (s, .err .typeError)           -- 'NoneType' object is not subscriptable
      | some r => match s.heap[r]? with
        | none => (s, .err .typeError)
        | some a => match npIndexAll (.arr2 a.ncols a.rows a.isInt) (idx.drop nd) with
          | .ok val => (s, .np val)
          | .error e => (s, .err e)

/-- `Vector.__getitem__(idx)` for non-string `idx` -/
def opGetItem (s : State) (vid : Nat) (idx : List Ix) : State × Res :=
  match s.getVec vid with
  | .error e => (s, .err e)
  | .ok v =>
    let nd := v.shape.length
    if idx.length > nd then
      if (idx.take nd).all Ix.isInt then getItemLong s v idx
      -- otherwise `zip(full_idx, self.shape)` silently drops the surplus indices
      else getItemCore s v (idx.take nd)
    else getItemCore s v idx

/-! ### assignment -/

/-- the loop `for array_idx, idx in enumerate(np.ndindex(...))`: validate the k-th value, store
it in the k-th addressed cell; the first bad value raises, earlier cells stay assigned. -/
def setCells (heap : List Arr) (nf : Nat) :
    List (Option Ref) → List Nat → List Val → List (Option Ref) × Option Err
  | cells, p :: ps, x :: xs =>
      match checkVal heap nf x with
      | .ok r => setCells heap nf (cells.set p (some r)) ps xs
      | .error e => (cells, some e)
  | cells, _, _ => (cells, .none)

def finish (s : State) (vid : Nat) (v : Vec) (r : List (Option Ref) × Option Err) : State × Res :=
  (s.putVec vid { v with cells := r.1 }, match r.2 with | some e => .err e | none => .none)

/-- `Vector.set_data(value, *indices)` -/
def opSetData (s : State) (vid : Nat) (idx : List Ix) (val : SetVal) : State × Res :=
  match s.getVec vid with
  | .error e => (s, .err e)
  | .ok v =>
    if idx.length ≠ v.shape.length then (s, .err .valueError) else
    match resolveAll true v.shape idx with
    | .error e => (s, .err e)
    | .ok ls =>
      match positions v.shape ls with
      | .error e => (s, .err e)
      | .ok ps =>
        if ls.all (·.length == 1) then
          match val with
          | .one x =>
              if v.shape.length = 0 then
                -- zero fixed dimensions: the value is validated, then `indices_arrays[-1]` raises IndexError
                match checkVal s.heap v.fields.length x with
                | .error e => (s, .err e)
                | .ok _ => (s, .err .indexError)
              else finish s vid v (setCells s.heap v.fields.length v.cells ps [x])
          | _ => (s, .err .typeError)            -- "Value must be a numpy array"
        else
          match val with
          | .many xs =>
              if xs.length ≠ ps.length then (s, .err .valueError)   -- "Expected k arrays, got m"
              else finish s vid v (setCells s.heap v.fields.length v.cells ps xs)
          | _ => (s, .err .typeError)            -- "For fancy indexing, value must be a list"

def Ix.isFancy : Ix → Bool
  | .slice _ _ _ => true
  | .list is => is.length > 1         -- isinstance(i, np.ndarray) and i.size > 1
  | .int _ => false

/-- the walk `ref = self._data; for i in idx[:-1]: ref = ref[i]; ref[idx[-1]] = value` of the
single-cell branch of `__setitem__`: ints index Python lists (negatives wrap), a length-≤1
ndarray is not a valid list index (TypeError). -/
def walkSingle : List Nat → List Ix → Except Err Nat
  | [], _ => .ok 0
  | _ :: _, [] => .error .indexError
  | d :: ds, ix :: ixs =>
      match ix with
      | .int i => match pyIndex d i with
          | .error e => .error e
          | .ok p => match walkSingle ds ixs with
              | .error e => .error e
              | .ok q => .ok (p * prod ds + q)
      | _ => .error .typeError

/-- `_flatten_cells(value._data)`: iterating a `None` cell raises TypeError -/
def vecAsVals (w : Vec) : Except Err (List Val) :=
  if w.cells.any Option.isNone then .error .typeError
  else .ok (w.cells.filterMap fun c => c.map Val.ref)

/-- `Vector.__setitem__(idx, value)` for at most as many indices as fixed dimensions -/
def setItemCore (s : State) (vid : Nat) (v : Vec) (idx : List Ix) (val : SetVal) : State × Res :=
    let nd := v.shape.length
    let idx := padIdx nd idx       -- fewer indices than dimensions: trailing slice(None)
    if idx.any Ix.isFancy then
      -- value: Vector → its cells; else must be a list
      let vals : Except Err (List Val) := match val with
        | .vec w => match s.getVec w with
            | .error e => .error e
            | .ok wv => vecAsVals wv
        | .many xs => .ok xs
        | .one _ => .error .typeError
      match vals with
      | .error e => (s, .err e)
      | .ok xs =>
        match resolveAll true v.shape idx with
        | .error e => (s, .err e)
        | .ok ls =>
          match positions v.shape ls with
          | .error e => (s, .err e)
          | .ok ps =>
            if xs.length ≠ ps.length then (s, .err .valueError)    -- len(value) != total_indices
            else finish s vid v (setCells s.heap v.fields.length v.cells ps xs)
    else
      match val with
      | .one x =>
          match checkVal s.heap v.fields.length x with
          | .error e => (s, .err e)
          | .ok r =>
            -- zero fixed dimensions and no index: `idx_converted[-1]` raises IndexError
            if nd = 0 then (s, .err .indexError) else
            match walkSingle v.shape idx with
              | .error e => (s, .err e)
              | .ok p => (s.putVec vid { v with cells := v.cells.set p (some r) }, .none)
      | _ => (s, .err .typeError)                -- "Value must be a numpy array"

def Ix.intVal : Ix → Option Int
  | .int i => some i
  | _ => none

/-- single-cell branch with MORE indices than fixed dimensions: the value is validated, the walk
`ref = ref[i]` goes through the nested lists to the cell and on into the cell array, and the last
index assigns into it: `arr[k] = value` overwrites one row IN PLACE (NumPy broadcasting: the value
must have exactly one row); deeper targets cannot take a 2-D value. -/
def setItemLong (s : State) (v : Vec) (idx : List Ix) (val : SetVal) : State × Res :=
  let nd := v.shape.length
  match val with
  | .one x =>
    match checkVal s.heap v.fields.length x with
    | .error e => (s, .err e)
    | .ok rv =>
      match walkSingle v.shape (idx.take nd) with
      | .error e => (s, .err e)
      | .ok p =>
        match (v.cells[p]?).join with
        | none => (s, .err .typeError)     -- 'NoneType' object is not subscriptable / does not support item assignment
        | some r =>
          match s.heap[r]?, s.heap[rv]? with
          | some a, some b =>
            match (idx.drop nd).mapM Ix.intVal with
            | none => (s, .err .unsupported)   -- slices / lists INTO the cell array: NumPy view-vs-copy semantics, not modelled
            | some [] => (s, .err .unsupported)
            | some [k1] =>
                match pyIndex a.nrows k1 with
                | .error e => (s, .err e)
                | .ok k =>
                  -- arr[k] = value : shape (ncols,) ← (m, ncols) needs m = 1
                  if b.nrows ≠ 1 then (s, .err .valueError)
                  else ({ s with heap := s.heap.set r (a.setRow k (b.rows.headD [])) }, .none)
            | some [k1, k2] =>
                match pyIndex a.nrows k1 with
                | .error e => (s, .err e)
                | .ok _ => match pyIndex a.ncols k2 with
                  | .error e => (s, .err e)
                  | .ok _ => (s, .err .valueError)    -- "setting an array element with a sequence."
            | some (k1 :: k2 :: _ :: rest) =>
                match pyIndex a.nrows k1 with
                | .error e => (s, .err e)
                | .ok _ => match pyIndex a.ncols k2 with
                  | .error e => (s, .err e)
                  | .ok _ =>
                    if rest.isEmpty then (s, .err .typeError)   -- 'numpy.float64' object does not support item assignment
                    else (s, .err .indexError)                  -- invalid index to scalar variable
          | _, _ => (s, .err .typeError)
  | _ => (s, .err .typeError)                -- "Value must be a numpy array"

/-- `Vector.__setitem__(idx, value)` for non-string `idx` -/
def opSetItem (s : State) (vid : Nat) (idx : List Ix) (val : SetVal) : State × Res :=
  match s.getVec vid with
  | .error e => (s, .err e)
  | .ok v =>
    let nd := v.shape.length
    if idx.length > nd then
      -- `has_fancy` only looks at the first nd indices; the fancy branch zips with the shape and so
      -- drops the surplus indices
      if (idx.take nd).any Ix.isFancy then setItemCore s vid v (idx.take nd) val
      else setItemLong s v idx val
    else setItemCore s vid v idx val

/-! ### field views -/

/-- `_FieldView.flatten`: the column over all populated cells, in storage order -/
def flattenField (heap : List Arr) (cells : List (Option Ref)) (j : Nat) : List Rat :=
  cells.flatMap fun c => match c with
    | some r => match heap[r]? with
        | some a => a.col j
        | none => []
    | none => []

/-- `Vector.flatten`: `np.vstack` of all populated cells -/
def flattenAll (heap : List Arr) (cells : List (Option Ref)) : List (List Rat) :=
  cells.flatMap fun c => match c with
    | some r => match heap[r]? with
        | some a => a.rows
        | none => []
    | none => []

/-- `_apply_op`: visit the cells in order and write through the reference (an array that sits
in two cells is updated twice) -/
def applyOp (j : Nat) (f : Rat → Rat) : List Arr → List (Option Ref) → List Arr
  | heap, [] => heap
  | heap, none :: cs => applyOp j f heap cs
  | heap, some r :: cs =>
      match heap[r]? with
      | some a => applyOp j f (heap.set r (a.mapCol j f)) cs
      | none => applyOp j f heap cs

/-- `fill(arr, values, cursor)` of `set_flattened` -/
def fill (j : Nat) : List Arr → List (Option Ref) → List Rat → List Arr
  | heap, [], _ => heap
  | heap, none :: cs, xs => fill j heap cs xs
  | heap, some r :: cs, xs =>
      match heap[r]? with
      | some a => fill j (heap.set r (a.setCol j (xs.take a.nrows))) cs (xs.drop a.nrows)
      | none => fill j heap cs xs

def fieldIndex (v : Vec) (name : String) : Except Err Nat :=
  if v.fields.contains name then .ok (v.fields.idxOf name) else .error .keyError

/-- `_FieldView.set_flattened(values)` -/
def setFlat (s : State) (v : Vec) (j : Nat) (vals : FlatVal) : State × Res :=
  match vals with
  | .notOneD => (s, .err .valueError)           -- "Input to set_flattened must be a 1D array."
  | .oneD xs =>
      if xs.length ≠ (flattenField s.heap v.cells j).length then (s, .err .valueError)
      else ({ s with heap := fill j s.heap v.cells xs }, .none)

def opSetFlattened (s : State) (vid : Nat) (name : String) (vals : FlatVal) : State × Res :=
  match s.getVec vid with
  | .error e => (s, .err e)
  | .ok v => match fieldIndex v name with
    | .error e => (s, .err e)
    | .ok j => setFlat s v j vals

def opWriteBack (s : State) (vid : Nat) (name : String) : State × Res :=
  match s.getVec vid with
  | .error e => (s, .err e)
  | .ok v => match fieldIndex v name with
    | .error e => (s, .err e)
    | .ok j => setFlat s v j (.oneD (flattenField s.heap v.cells j))

/-- `v[name] op= c` : `fv = v[name]; fv.__iop__(c)` (→ `_apply_op`), then
`v.__setitem__(name, fv)` → `fv.set_flattened(np.asarray(fv))` = write back its own flatten. -/
def opFieldOp (s : State) (vid : Nat) (name : String) (f : Rat → Rat) : State × Res :=
  match s.getVec vid with
  | .error e => (s, .err e)
  | .ok v => match fieldIndex v name with
    | .error e => (s, .err e)
    | .ok j =>
      let s1 : State := { s with heap := applyOp j f s.heap v.cells }
      setFlat s1 v j (.oneD (flattenField s1.heap v.cells j))

/-- dtype kind of `np.concatenate` / `np.vstack` over the populated cells (`flatten`): int64 only
if there is at least one populated cell and all of them are int64; the empty result is float64 -/
def flattenIsInt (heap : List Arr) (cells : List (Option Ref)) : Bool :=
  let arrs := cells.filterMap fun c => c.bind fun r => heap[r]?
  !arrs.isEmpty && arrs.all (·.isInt)

/-- NumPy broadcasting of a 1-D operand of length `k` against a column with `n` entries, followed by
the assignment back into that column: works iff `k = n` or `k = 1` -/
def broadcastTo (n : Nat) (ys : List Rat) : Option (List Rat) :=
  if ys.length = n then some ys
  else if ys.length = 1 then some (List.replicate n (ys.headD 0))
  else none

/-- right operand with the other field view already looked up -/
inductive RhsR where
  | scalar (c : Rat)
  | array (ys : List Rat)
  | field (cells : List (Option Ref)) (j : Nat)

/-- the operand values for a column of `n` entries: `x op other` broadcasts `other`; a `_FieldView`
operand is converted by `np.asarray(other)` = its `flatten()` on the heap AS IT IS NOW -/
def RhsR.eval (heap : List Arr) (n : Nat) : RhsR → Option (List Rat)
  | .scalar c => some (List.replicate n c)
  | .array ys => broadcastTo n ys
  | .field wcells jw => broadcastTo n (flattenField heap wcells jw)

/-- `_apply_op` with a general right operand: cells are visited in order and written through the
reference; the first cell whose operand does not broadcast (ValueError) — or, for `**` with a
negative Python-int exponent, the first non-empty int64 cell (ValueError) — stops the loop and
leaves the earlier cells updated. -/
def applyGen (j : Nat) (g : Rat → Rat → Rat) (negIntPow : Bool) (rhs : RhsR) :
    List Arr → List (Option Ref) → List Arr × Option Err
  | heap, [] => (heap, none)
  | heap, none :: cs => applyGen j g negIntPow rhs heap cs
  | heap, some r :: cs =>
      match heap[r]? with
      | none => applyGen j g negIntPow rhs heap cs
      | some a =>
        -- "Integers to negative integer powers are not allowed."
        if negIntPow && a.isInt && a.nrows != 0 then (heap, some .valueError) else
        match rhs.eval heap a.nrows with
        | none => (heap, some .valueError)       -- operands could not be broadcast together / into shape
        | some ys =>
          applyGen j g negIntPow rhs (heap.set r (a.setCol j (List.zipWith g (a.col j) ys))) cs

/-- `v[name] op= rhs` for scalar, 1-D ndarray and `_FieldView` operands -/
def opFieldOpGen (s : State) (vid : Nat) (name : String) (g : Rat → Rat → Rat) (negIntPow : Bool)
    (rhs : Rhs) : State × Res :=
  match s.getVec vid with
  | .error e => (s, .err e)
  | .ok v => match fieldIndex v name with
    | .error e => (s, .err e)
    | .ok j =>
      let rhsR : Except Err RhsR := match rhs with
        | .scalar c => .ok (.scalar c)
        | .array ys => .ok (.array ys)
        | .field w nm => match s.getVec w with
            | .error e => .error e
            | .ok wv => match fieldIndex wv nm with
              | .error e => .error e
              | .ok jw => .ok (.field wv.cells jw)
      match rhsR with
      | .error e => (s, .err e)
      | .ok r =>
        match applyGen j g negIntPow r s.heap v.cells with
        | (heap', some e) => ({ s with heap := heap' }, .err e)     -- raised inside __iop__: no re-assignment
        | (heap', none) =>
          let s1 : State := { s with heap := heap' }
          setFlat s1 v j (.oneD (flattenField s1.heap v.cells j))

/-- `v[name][idx]` : `_FieldView.__getitem__` = `sub = self.vector[idx]`, then the field of the
sub-vector, the column of the cell array, or `None` -/
def opFieldGet (s : State) (vid : Nat) (name : String) (idx : List Ix) : State × Res :=
  match s.getVec vid with
  | .error e => (s, .err e)
  | .ok v => match fieldIndex v name with
    | .error e => (s, .err e)
    | .ok j =>
      match opGetItem s vid idx with
      | (s', .newVec id) => (s', .newVec id)            -- sub[self.field_name]: a view on the sub-vector
      | (s', .cell (some r)) => match s'.heap[r]? with
          | some a => (s', .np (.arr1 (a.col j) a.isInt))  -- sub[:, self.field_index]
          | none => (s', .cell none)
      | (s', .np (.arr2 _ rows t)) => (s', .np (.arr1 (rows.map (·.getD j 0)) t))
      | (s', .np (.arr1 _ _)) => (s', .err .indexError)  -- too many indices for a 1-D array
      | (s', .np (.scalar _ _)) => (s', .cell none)       -- neither Vector nor ndarray: returns None
      | (s', .cell none) => (s', .cell none)
      | (s', r) => (s', r)

/-! ### adding / removing fields -/

/-- `expand_array` / `prune_array`: every populated cell is replaced by a NEW array `g a`
(`np.hstack`, fancy column selection); `bad a` is the shape test that raises. -/
def rebuildCells (g : Arr → Arr) (bad : Arr → Bool) :
    List Arr → List (Option Ref) → Except Err (List Arr × List (Option Ref))
  | heap, [] => .ok (heap, [])
  | heap, none :: cs => match rebuildCells g bad heap cs with
      | .error e => .error e
      | .ok (h, out) => .ok (h, none :: out)
  | heap, some r :: cs =>
      match heap[r]? with
      | none => .error .typeError
      | some a =>
        if bad a then .error .valueError else
        match rebuildCells g bad (heap ++ [g a]) cs with
        | .error e => .error e
        | .ok (h, out) => .ok (h, some heap.length :: out)

/-- `Vector.add_fields(new_fields)` -/
def opAddFields (s : State) (vid : Nat) (names : List String) : State × Res :=
  match s.getVec vid with
  | .error e => (s, .err e)
  | .ok v =>
    if names.any (v.fields.contains ·) then (s, .err .valueError) else   -- "already exist"
    if !nodupB names then (s, .err .valueError) else                     -- "Duplicate field names"
    let k := names.length
    let v1 : Vec := { v with fields := v.fields ++ names, units := v.units ++ List.replicate k "none" }
    match rebuildCells (·.addCols k) (fun a => a.ncols != v.fields.length) s.heap v.cells with
    | .error e => (s.putVec vid v1, .err e)      -- fields/units were already replaced
    | .ok (heap', cs) => (({ s with heap := heap' } : State).putVec vid { v1 with cells := cs }, .none)

/-- `Vector.remove_fields(fields_to_remove)` -/
def opRemoveFields (s : State) (vid : Nat) (names : List String) : State × Res :=
  match s.getVec vid with
  | .error e => (s, .err e)
  | .ok v =>
    -- indices of the names that exist (unknown names only print a warning)
    let rm := (names.filter (v.fields.contains ·)).map (v.fields.idxOf ·)
    if rm.isEmpty then (s, .none) else
    let nf := v.fields.length
    let keep := (List.range nf).filter fun i => !rm.contains i
    let v1 : Vec := { v with fields := keep.map (v.fields.getD · ""), units := keep.map (v.units.getD · "") }
    -- arr.shape[1] < max(indices_to_remove) + 1
    match rebuildCells (·.keepCols keep) (fun a => rm.any (fun i => a.ncols < i + 1)) s.heap v.cells with
    | .error e => (s.putVec vid v1, .err e)
    | .ok (heap', cs) => (({ s with heap := heap' } : State).putVec vid { v1 with cells := cs }, .none)

/-! ### copy -/

/-- `copy.deepcopy(self._data)`: new arrays; the memo keeps one copy per distinct source array,
so cells that shared an array share the copy. -/
def deepCopyCells : List Arr → List (Ref × Ref) → List (Option Ref) → List Arr × List (Option Ref)
  | heap, _, [] => (heap, [])
  | heap, memo, none :: cs =>
      let (h, out) := deepCopyCells heap memo cs
      (h, none :: out)
  | heap, memo, some r :: cs =>
      match memo.lookup r with
      | some r' =>
          let (h, out) := deepCopyCells heap memo cs
          (h, some r' :: out)
      | none =>
          match heap[r]? with
          | some a =>
              let (h, out) := deepCopyCells (heap ++ [a]) ((r, heap.length) :: memo) cs
              (h, some heap.length :: out)
          | none =>
              let (h, out) := deepCopyCells heap memo cs
              (h, none :: out)

/-- `Vector.copy()` : `from_shape(shape, name, fields, units)` + deep-copied `_data`
(the metadata dict is NOT carried over: the copy gets an empty one of its own) -/
def opCopy (s : State) (vid : Nat) : State × Res :=
  match s.getVec vid with
  | .error e => (s, .err e)
  | .ok v =>
    if v.shape.any (· == 0) then (s, .err .valueError) else
    match validateFields v.fields with
    | .error e => (s, .err e)
    | .ok fs => match validateUnits (some v.units) fs.length with
      | .error e => (s, .err e)
      | .ok us =>
        let (heap', cs) := deepCopyCells s.heap [] v.cells
        let (s', id) := ({ s with heap := heap' } : State).mkVec v.shape cs fs us
        (s', .newVec id)

/-! ### metadata -/

def dictSet (d : List (String × Int)) (k : String) (x : Int) : List (String × Int) :=
  match d with
  | [] => [(k, x)]
  | (k', x') :: rest => if k' = k then (k, x) :: rest else (k', x') :: dictSet rest k x

def opMetaSet (s : State) (vid : Nat) (k : String) (x : Int) : State × Res :=
  match s.getVec vid with
  | .error e => (s, .err e)
  | .ok v => match s.metas[v.mref]? with
    | some d => ({ s with metas := s.metas.set v.mref (dictSet d k x) }, .none)
    | none => (s, .err .badHandle)

/-! ### property setters — NOT in the operation alphabet

The property's statement enumerates the operations it quantifies over (creation, cell / slice /
fancy assignment and retrieval, field arithmetic, flatten / set_flattened, add / remove fields, copy,
slicing); assigning to the `shape`, `fields`, `units`, `name` properties is not among them, so the
setters are modelled here OUTSIDE `Op`/`step` (Props/C11.lean records which of them would break the
invariant).  `name` is not part of the modelled state. -/

/-- `v.fields = value` → `self._fields = validate_fields(value)`: duplicates are rejected, the
length is NOT compared with the columns of the cell arrays -/
def opSetFieldsAttr (s : State) (vid : Nat) (fs : List String) : State × Res :=
  match s.getVec vid with
  | .error e => (s, .err e)
  | .ok v => match validateFields fs with
    | .error e => (s, .err e)
    | .ok fs => (s.putVec vid { v with fields := fs }, .none)

/-- `v.units = value` → `validate_vector_units(value, self.num_fields)` -/
def opSetUnitsAttr (s : State) (vid : Nat) (us : Option (List String)) : State × Res :=
  match s.getVec vid with
  | .error e => (s, .err e)
  | .ok v => match validateUnits us v.fields.length with
    | .error e => (s, .err e)
    | .ok us => (s.putVec vid { v with units := us }, .none)

/-- `v.shape = value` → `self._shape = validate_shape(value)`: only positivity is checked, `_data`
stays as it is -/
def opSetShapeAttr (s : State) (vid : Nat) (shape : List Int) : State × Res :=
  match s.getVec vid with
  | .error e => (s, .err e)
  | .ok v => match validateShape shape with
    | .error e => (s, .err e)
    | .ok sh => (s.putVec vid { v with shape := sh }, .none)

/-! ### the machine -/

def step (s : State) : Op → State × Res
  | .alloc n rows t => ({ s with heap := s.heap ++ [Arr.lit n rows t] }, .newRef s.heap.length)
  | .fromShape sh nf fs us => opFromShape s sh nf fs us
  | .fromData items nf fs us => opFromData s items nf fs us
  | .getData v idx => opGetData s v idx
  | .setData v idx val => opSetData s v idx val
  | .getItem v idx => opGetItem s v idx
  | .setItem v idx val => opSetItem s v idx val
  | .fieldOp v name f => opFieldOp s v name f
  | .fieldOpGen v name g neg rhs => opFieldOpGen s v name g neg rhs
  | .fieldGet v name idx => opFieldGet s v name idx
  | .setFlattened v name vals => opSetFlattened s v name vals
  | .writeBack v name => opWriteBack s v name
  | .addFields v names => opAddFields s v names
  | .removeFields v names => opRemoveFields s v names
  | .copy v => opCopy s v
  | .setDataAttr v lens items => opSetDataAttr s v lens items
  | .metaSet v k x => opMetaSet s v k x

def run (s : State) (ops : List Op) : State := ops.foldl (fun s op => (step s op).1) s

def init : State := {}

end QuantemModel.Vector
