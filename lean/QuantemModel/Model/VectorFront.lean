import QuantemModel.Model.Vector
/-!
Front end of `Vector.from_shape`: the ARGUMENT FORMS the validators of
`quantem/core/utils/validators.py` tell apart before the value-level checks of Model/Vector.lean —
`validate_shape` (`isinstance(shape, tuple)`, `isinstance(dim, int)` per dimension, first bad
dimension wins), `validate_fields` / `validate_vector_units` (`isinstance(x, (list, tuple))`),
`validate_num_fields` (`isinstance(num_fields, int)`), and the two places where `num_fields` is only
COMPARED (`!=`) and never type-checked.  Core Lean only, executable, total.

Python facts modelled: `bool` is a subclass of `int` (`True` is a dimension of length 1, `False` is
`<= 0`); `2.0` and `np.int64(2)` are no instances of `int` but compare equal to `2`; a `str` is
neither list nor tuple.
-/
namespace QuantemModel.Vector

/-- one entry of the `shape` argument -/
inductive DimArg where
  | int (i : Int)        -- a Python int
  | bool (b : Bool)      -- True / False
  | other                -- 2.0, np.int64(2), "2", None: `isinstance(dim, int)` is False
  deriving Repr, Inhabited

inductive ShapeArg where
  | tuple (ds : List DimArg)
  | notTuple             -- a list, an int, None
  deriving Repr, Inhabited

inductive NumArg where
  | int (i : Int)
  | bool (b : Bool)
  | intLike (i : Int)    -- 2.0 / np.int64(2): equal to the int `i`, not an instance of `int`
  | other                -- a str: equal to no int, not an instance of `int`
  deriving Repr, Inhabited

/-- a `fields` / `units` argument -/
inductive SeqArg where
  | seq (xs : List String)   -- list or tuple of str
  | notSeq                   -- a str, a set, a dict
  deriving Repr, Inhabited

/-- `if not isinstance(dim, int): raise TypeError` / `if dim <= 0: raise ValueError` -/
def DimArg.check : DimArg → Except Err Int
  | .int i => if i ≤ 0 then .error .valueError else .ok i
  | .bool b => if b then .ok 1 else .error .valueError
  | .other => .error .typeError

/-- the loop of `validate_shape`: the FIRST offending dimension decides the exception -/
def checkDims : List DimArg → Except Err (List Int)
  | [] => .ok []
  | d :: ds => match d.check with
      | .error e => .error e
      | .ok i => match checkDims ds with
          | .error e => .error e
          | .ok is => .ok (i :: is)

/-- `validate_shape` -/
def validateShapeArg : ShapeArg → Except Err (List Int)
  | .notTuple => .error .typeError           -- "Shape must be a tuple"
  | .tuple ds => checkDims ds

/-- the `fields` / `num_fields` branches of `from_shape` on argument forms: what reaches the value-level
`resolveFields`, or the TypeError of a type test.  With `fields` given, `num_fields` is only compared
(`validated_num_fields != num_fields`): any int-like value takes part in the comparison, a str is
unequal to every length (`some (-1)`).  Without `fields`, `validate_num_fields` insists on `int`. -/
def frontFields (nf : Option NumArg) (fields : Option SeqArg) : Except Err (Option Int × Option (List String)) :=
  match fields with
  | some .notSeq => .error .typeError        -- "fields must be a list or tuple"
  | some (.seq fs) =>
      match nf with
      | none => .ok (none, some fs)
      | some (.int i) => .ok (some i, some fs)
      | some (.bool b) => .ok (some (if b then 1 else 0), some fs)
      | some (.intLike i) => .ok (some i, some fs)
      | some .other => .ok (some (-1), some fs)
  | none =>
      match nf with
      | none => .ok (none, none)
      | some (.int i) => .ok (some i, none)
      | some (.bool b) => .ok (some (if b then 1 else 0), none)
      | some (.intLike _) => .error .typeError   -- "num_fields must be an integer"
      | some .other => .error .typeError

/-- `Vector.from_shape` on argument forms: shape, then fields / num_fields, then units; every rejection
happens before the object is made -/
def opFromShapeFront (s : State) (shape : ShapeArg) (nf : Option NumArg) (fields units : Option SeqArg) :
    State × Res :=
  match validateShapeArg shape with
  | .error e => (s, .err e)
  | .ok sh =>
    match frontFields nf fields with
    | .error e => (s, .err e)
    | .ok (nf', fs') =>
      match resolveFields nf' fs' with
      | .error e => (s, .err e)
      | .ok _ =>
        match units with
        | some .notSeq => (s, .err .typeError)    -- "units must be a list or tuple"
        | some (.seq us) => opFromShape s sh nf' fs' (some us)
        | none => opFromShape s sh nf' fs' none

end QuantemModel.Vector
